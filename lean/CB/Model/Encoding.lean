/-
  CB.Model.Encoding — byte / hex / word / primitive conversions of crypto-bigint (C16), modelled as the
  code computes them (64-bit target).  Core Lean only: linked into `cbmodel`.

  Rust anchors: src/uint/encoding.rs, src/uint/boxed/encoding.rs, src/limb/encoding.rs,
  src/uint/from.rs, src/uint/boxed/from.rs, src/int/from.rs, src/uint/{concat,split,resize}.rs,
  src/int/resize.rs, src/uint/boxed.rs (widen/shorten/fmt), src/uint.rs (fmt, serde, words).

  All definitions live in `namespace CB.Encoding` (other model files define their own `bitLen`, `toInt`, …).

  Conventions: a byte is a `Nat < 256`, a byte string / text is a `List Nat` (texts are ASCII codes),
  a limb list is little endian (`CB.val`).  `none` results of the fixed decoders are the panics of the
  `assert!`s in the Rust.  Rust's primitive `Word::{to,from}_{be,le}_bytes`, `as` casts and shifts are
  the trusted base; they are written out positionally here (`digitsLe`, `leVal`).

  The second half (`spec…`, `beVal`, …) is L0: what the property demands, in plain positional
  arithmetic, used by the driver for the `L1 ;; L0` lines and by the theorems of CB/Props/C16.lean.
-/
import CB.Model.Basic
namespace CB.Encoding

/-! ## digits -/

/-- `k` little-endian base-`b` digits of `x` (truncating) -/
def digitsLe (b : Nat) : Nat → Nat → List Nat
  | 0, _ => []
  | k + 1, x => x % b :: digitsLe b k (x / b)

/-- little-endian base-`b` value of a digit list -/
def digitsVal (b : Nat) : List Nat → Nat
  | [] => 0
  | d :: ds => d + b * digitsVal b ds

/-- little-endian base-256 value of a byte list -/
def leVal (bs : List Nat) : Nat := digitsVal 256 bs

/-- `Word::to_le_bytes` -/
def wordToLeBytes (w : Nat) : List Nat := digitsLe 256 8 w
/-- `Word::to_be_bytes` -/
def wordToBeBytes (w : Nat) : List Nat := (digitsLe 256 8 w).reverse
/-- `Word::from_le_bytes(buf)` -/
def wordFromLeBytes (buf : List Nat) : Nat := leVal buf
/-- `Word::from_be_bytes(buf)` -/
def wordFromBeBytes (buf : List Nat) : Nat := leVal buf.reverse

/-! ## fixed-width byte (de)serialisation — src/uint/encoding.rs:33-54,91-112,210-259 -/

/-- the `buf[j] = bytes[i * Limb::BYTES + j]` copy loops: `n` consecutive 8-byte windows -/
def chunks8 : Nat → List Nat → List (List Nat)
  | 0, _ => []
  | n + 1, bs => bs.take 8 :: chunks8 n (bs.drop 8)

/-- `Uint::<n>::from_be_slice`; `none` = `assert!(bytes.len() == Limb::BYTES * LIMBS)` fails.
    `res[LIMBS - i - 1] = Word::from_be_bytes(buf_i)`. -/
def fromBeSlice (n : Nat) (bytes : List Nat) : Option (List Nat) :=
  if bytes.length = 8 * n then some ((chunks8 n bytes).map wordFromBeBytes).reverse else none

/-- `Uint::<n>::from_le_slice`: `res[i] = Word::from_le_bytes(buf_i)` -/
def fromLeSlice (n : Nat) (bytes : List Nat) : Option (List Nat) :=
  if bytes.length = 8 * n then some ((chunks8 n bytes).map wordFromLeBytes) else none

/-- `uint_to_be_bytes` / `write_be_bytes` / `BoxedUint::to_be_bytes`:
    output window `i` is `limbs[LIMBS - i - 1].to_be_bytes()` -/
def uintToBeBytes (l : List Nat) : List Nat := (l.reverse.map wordToBeBytes).flatten

/-- `uint_to_le_bytes` / `write_le_bytes` / `BoxedUint::to_le_bytes` -/
def uintToLeBytes (l : List Nat) : List Nat := (l.map wordToLeBytes).flatten

/-! ## branch-free hex nibble decoder — src/uint/encoding.rs:263-291
    `i16` values are held as their 16-bit two's-complement pattern (`Nat < 65536`). -/

def W16 : Nat := 65536
/-- `i16` subtraction (no overflow occurs for the operands used; wrapping pattern) -/
def sub16 (a b : Nat) : Nat := (a + W16 - b % W16) % W16
/-- `i16` addition -/
def add16 (a b : Nat) : Nat := (a + b) % W16
/-- arithmetic `>> 8` of an `i16` pattern (sign bits shifted in) -/
def sar8 (x : Nat) : Nat := x / 256 + (x / 32768) * 65280

/-- `(((lo - byte) & (byte - hi)) >> 8) & (byte - off)` -/
def nibbleTerm (lo hi off byte : Nat) : Nat :=
  (sar8 ((sub16 lo byte) &&& (sub16 byte hi))) &&& (sub16 byte off)

/-- `decode_nibble(src: u8) -> u16` -/
def decodeNibble (src : Nat) : Nat :=
  let byte := src            -- `src as i16`
  let ret := 65535           -- `-1`
  let ret := add16 ret (nibbleTerm 0x2f 0x3a 47 byte)   -- 0-9
  let ret := add16 ret (nibbleTerm 0x40 0x47 54 byte)   -- A-F
  let ret := add16 ret (nibbleTerm 0x60 0x67 86 byte)   -- a-f
  ret                        -- `ret as u16`

/-- `decode_hex_byte([a, b]) -> (u8, u16)`: `(result, err)` -/
def decodeHexByte (a b : Nat) : Nat × Nat :=
  let hi := decodeNibble a
  let lo := decodeNibble b
  let byte := ((hi * 16) % W16) ||| lo      -- `(hi << 4) | lo` on `u16`
  (byte % 256, byte / 256)                  -- `(byte as u8, byte >> 8)`

/-- the hex loops: decode consecutive character pairs, OR-accumulating the error word -/
def decodeHexBytes : List Nat → List Nat × Nat
  | a :: b :: t =>
    let r := decodeHexByte a b
    let rest := decodeHexBytes t
    (r.1 :: rest.1, r.2 ||| rest.2)
  | _ => ([], 0)

/-- `Uint::<n>::from_be_hex` (also `Int::from_be_hex`); `none` = one of the two `assert!`s fails
    (length `== Limb::BYTES * LIMBS * 2`, `err == 0`) -/
def fromBeHex (n : Nat) (hex : List Nat) : Option (List Nat) :=
  if hex.length = 16 * n then
    let d := decodeHexBytes hex
    if d.2 = 0 then some ((chunks8 n d.1).map wordFromBeBytes).reverse else none
  else none

/-- `Uint::<n>::from_le_hex` -/
def fromLeHex (n : Nat) (hex : List Nat) : Option (List Nat) :=
  if hex.length = 16 * n then
    let d := decodeHexBytes hex
    if d.2 = 0 then some ((chunks8 n d.1).map wordFromLeBytes) else none
  else none

/-- `Odd::<Uint<n>>::from_be_hex`: additionally `assert!(uint.is_odd())` -/
def oddFromBeHex (n : Nat) (hex : List Nat) : Option (List Nat) :=
  match fromBeHex n hex with
  | some l => if l.headD 0 % 2 = 1 then some l else none
  | none => none

/-- `Odd::<Uint<n>>::from_le_hex` (src/odd.rs:73-77, after fix dd30bc0): `Uint::from_le_hex`, then
    `assert!(uint.is_odd())` -/
def oddFromLeHex (n : Nat) (hex : List Nat) : Option (List Nat) :=
  match fromLeHex n hex with
  | some l => if l.headD 0 % 2 = 1 then some l else none
  | none => none

/-- keep only odd values (spec side of the `Odd` constructors) -/
def oddOnly (v : Nat) : Option Nat := if v % 2 = 1 then some v else none

/-- `NonZero::new(x)` as (value, is_some) -/
def nzNew (l : List Nat) : Option (List Nat) := if l.all (· = 0) then none else some l

/-! ## BoxedUint decoding — src/uint/boxed/encoding.rs:20-74,111-139 -/

inductive DecodeError where
  | Empty | InvalidDigit | InputSize | Precision
  deriving DecidableEq, Repr

def DecodeError.name : DecodeError → String
  | .Empty => "Empty" | .InvalidDigit => "InvalidDigit" | .InputSize => "InputSize" | .Precision => "Precision"

/-- `BoxedUint::limbs_for_precision`: `div_ceil(Limb::BITS)` -/
def limbsForPrecision (bp : Nat) : Nat := (bp + 63) / 64

/-- `From<Vec<Limb>> for BoxedUint`: an empty vector is padded to one zero limb -/
def boxedOfVec (l : List Nat) : List Nat := if l.isEmpty then [0] else l

/-- `BoxedUint::zero_with_precision` -/
def zeroWithPrecision (bp : Nat) : List Nat := boxedOfVec (List.replicate (limbsForPrecision bp) 0)

/-- `slice::chunks(8)` (last chunk may be short); fuel = length -/
def chunksFuel : Nat → List Nat → List (List Nat)
  | 0, _ => []
  | f + 1, bs => if bs.isEmpty then [] else bs.take 8 :: chunksFuel f (bs.drop 8)
def sliceChunks8 (bs : List Nat) : List (List Nat) := chunksFuel bs.length bs
/-- `slice::rchunks(8)`: chunks taken from the END, each in original byte order, the first (leading)
    chunk of the input possibly short and yielded last -/
def sliceRChunks8 (bs : List Nat) : List (List Nat) := (sliceChunks8 bs.reverse).map List.reverse

/-- `Limb::from_be_slice(chunk)`: right-aligned copy into a zeroed `repr`, then `from_be_bytes` -/
def limbFromBeSlice (chunk : List Nat) : Nat :=
  wordFromBeBytes (List.replicate (8 - chunk.length) 0 ++ chunk)
/-- `Limb::from_le_slice(chunk)`: left-aligned copy -/
def limbFromLeSlice (chunk : List Nat) : Nat :=
  wordFromLeBytes (chunk ++ List.replicate (8 - chunk.length) 0)

/-- `for (v, limb) in values.zip(ret.limbs.iter_mut()) { *limb = v }` -/
def zipSet : List Nat → List Nat → List Nat
  | v :: vs, _ :: ls => v :: zipSet vs ls
  | _, ls => ls

/-- `bits()` of a value (`bits_precision - leading_zeros`; exactness of the limb algorithm is C05) -/
def bitLen (x : Nat) : Nat := if x = 0 then 0 else Nat.log2 x + 1

/-- `BoxedUint::from_be_slice(bytes, bits_precision)` -/
def boxedFromBeSlice (bytes : List Nat) (bp : Nat) : Except DecodeError (List Nat) :=
  if bytes.isEmpty ∧ bp = 0 then .ok [0]
  else if bytes.length > (bp + 7) / 8 then .error .InputSize
  else
    let ret := zipSet ((sliceRChunks8 bytes).map limbFromBeSlice) (zeroWithPrecision bp)
    if bp < bitLen (val ret) then .error .Precision else .ok ret

/-- `BoxedUint::from_le_slice(bytes, bits_precision)` -/
def boxedFromLeSlice (bytes : List Nat) (bp : Nat) : Except DecodeError (List Nat) :=
  if bytes.isEmpty ∧ bp = 0 then .ok [0]
  else if bytes.length > (bp + 7) / 8 then .error .InputSize
  else
    let ret := zipSet ((sliceChunks8 bytes).map limbFromLeSlice) (zeroWithPrecision bp)
    if bp < bitLen (val ret) then .error .Precision else .ok ret

/-- `BoxedUint::from_be_hex(hex, bits_precision) -> CtOption`: `none` = the length `assert!` fails;
    `some (limbs, is_some)`.  NOTE `nlimbs = bits_precision / Limb::BITS` rounds DOWN, so for
    `bits_precision < 64` the decoded vector is empty (padded by `boxedFromBeHexApi`). -/
def boxedFromBeHex (hex : List Nat) (bp : Nat) : Option (List Nat × Bool) :=
  let nlimbs := bp / 64
  if hex.length = 16 * nlimbs then
    let d := decodeHexBytes hex
    some (((chunks8 nlimbs d.1).map wordFromBeBytes).reverse, d.2 = 0)
  else none

/-- the value `BoxedUint::from_be_hex` returns since /repo fix 01d03c6: the decoded limb vector goes
    through `From<Vec<Limb>>` (`Self::from(res)`), so a precision below one limb gives ONE zero limb
    instead of a zero-limb value.  `boxedFromBeHex` above is the decoding loop itself. -/
def boxedFromBeHexApi (hex : List Nat) (bp : Nat) : Option (List Nat × Bool) :=
  (boxedFromBeHex hex bp).map fun r => (boxedOfVec r.1, r.2)

/-- `BoxedUint::widen`; `none` = `assert!(at_least_bits_precision >= self.bits_precision())` fails -/
def boxedWiden (l : List Nat) (bp : Nat) : Option (List Nat) :=
  if bp ≥ 64 * l.length then
    let ret := zeroWithPrecision bp
    some (l ++ ret.drop l.length)          -- `ret.limbs[..self.nlimbs()].copy_from_slice(&self.limbs)`
  else none

/-- `BoxedUint::shorten`; `none` = the `assert!` fails or the slice `self.limbs[..nlimbs]` is out of range -/
def boxedShorten (l : List Nat) (bp : Nat) : Option (List Nat) :=
  if bp ≤ 64 * l.length then
    let nlimbs := (zeroWithPrecision bp).length
    if nlimbs ≤ l.length then some (l.take nlimbs) else none
  else none

/-! ## words, primitives — src/uint.rs:117-143, src/uint/from.rs, src/uint/boxed/from.rs, src/int/from.rs -/

/-- `Uint::from_words` / `to_words`: limb-by-limb copy loops -/
def fromWords : List Nat → List Nat
  | [] => []
  | w :: ws => w :: fromWords ws
def toWords : List Nat → List Nat
  | [] => []
  | w :: ws => w :: toWords ws

/-- `Uint::<n>::from_u8/u16/u32/u64/from_word`: `none` = `assert!(LIMBS >= 1)` fails -/
def fromWord (n w : Nat) : Option (List Nat) :=
  match n with
  | 0 => none
  | n + 1 => some (w :: List.replicate n 0)

/-- `Uint::<n>::from_u128` / `from_wide_word`: `none` = `assert!(LIMBS >= 2)` fails -/
def fromU128 (n x : Nat) : Option (List Nat) :=
  match n with
  | n + 2 => some ((x % B) :: (x / B % B) :: List.replicate n 0)   -- `n & 0xffff…`, `n >> 64`
  | _ => none

/-- `u64::from(U64)` -/
def toU64 (l : List Nat) : Nat := l.headD 0
/-- `u128::from(U128)`: `res = limbs[1]; res = (res << 64) | limbs[0]` -/
def toU128 (l : List Nat) : Nat :=
  match l with
  | [l0, l1] => ((l1 * B) % (B * B)) ||| l0
  | _ => 0

/-- `n as Word` for a signed primitive of `bits` bits given as its two's-complement pattern -/
def signExtendToWord (bits v : Nat) : Nat :=
  if v / 2 ^ (bits - 1) % 2 = 1 then v % 2 ^ bits + (B - 2 ^ bits) else v % 2 ^ bits

/-- `Int::is_negative`: `from_word_msb(most_significant_word)` as a mask -/
def intIsNegative (l : List Nat) : Nat := fromWordLsb (l.getLastD 0 / HALF)

/-- `Int::<LIMBS>::resize::<T>`: fill with `select(ZERO, MAX, is_negative)`, copy `min(T, LIMBS)` limbs -/
def intResize (t : Nat) (l : List Nat) : List Nat :=
  let fill := selectWord 0 WMAX (intIsNegative l)
  l.take t ++ List.replicate (t - l.length) fill

/-- `Int::<n>::from_i8/i16/i32/i64`: `Uint::new([Limb(v as Word)]).as_int().resize()`; `none` = `assert!(LIMBS >= 1)` -/
def intFromPrim (bits n v : Nat) : Option (List Nat) :=
  match n with
  | 0 => none
  | n + 1 => some (intResize (n + 1) [signExtendToWord bits v])

/-- `Int::<n>::from_i128`: `assert!(LIMBS >= 2)` (since /repo 77eeede, as `Uint::from_u128`; `none` = the panic), then
    `Uint::<2>::from_u128(v as u128).as_int().resize()`. -/
def intFromI128 (n v : Nat) : Option (List Nat) :=
  if n < 2 then none else some (intResize n [v % B, v / B % B])

/-- the constructor BEFORE /repo 77eeede (kept for the record, not used by the driver): no limb-count assertion, for
    `n = 1` the value was silently truncated to its low limb. -/
def intFromI128Old (n v : Nat) : List Nat :=
  intResize n [v % B, v / B % B]

/-- `Uint::<LIMBS>::resize::<T>` -/
def uintResize (t : Nat) (l : List Nat) : List Nat :=
  l.take t ++ List.replicate (t - l.length) 0

/-- `Uint::concat_mixed(lo, hi) -> Uint<O>`: the `while i < min(L + H, O)` copy loop -/
def concatMixed (o : Nat) (lo hi : List Nat) : List Nat :=
  (lo ++ hi).take o ++ List.replicate (o - (lo.length + hi.length)) 0

/-- `Uint::<I>::split_mixed::<L, H>()`: the `while i < min(L + H, I)` copy loop -/
def splitMixed (ll hl : Nat) (x : List Nat) : List Nat × List Nat :=
  let src := x.take (ll + hl)
  (src.take ll ++ List.replicate (ll - src.length) 0,
   (src.drop ll) ++ List.replicate (hl - (src.length - ll)) 0)

/-! ## formatting — src/uint.rs:302-349, src/uint/boxed.rs:360-420, src/limb.rs -/

/-- ASCII code of a hex digit as `{:x}` / `{:X}` print it -/
def hexChar (upper : Bool) (d : Nat) : Nat :=
  if d < 10 then 48 + d else (if upper then 55 else 87) + d

/-- `{:016x}` / `{:016X}` of a word -/
def fmtWordHex (upper : Bool) (w : Nat) : List Nat := ((digitsLe 16 16 w).reverse).map (hexChar upper)
/-- `{:064b}` of a word -/
def fmtWordBin (w : Nat) : List Nat := ((digitsLe 2 64 w).reverse).map (48 + ·)

/-- `LowerHex` / `UpperHex` (`Display` = `UpperHex`): optional `0x`, then limbs most significant first -/
def fmtHex (upper alt : Bool) (l : List Nat) : List Nat :=
  (if alt then [48, 120] else []) ++ (l.reverse.map (fmtWordHex upper)).flatten
/-- `Binary` -/
def fmtBin (alt : Bool) (l : List Nat) : List Nat :=
  (if alt then [48, 98] else []) ++ (l.reverse.map fmtWordBin).flatten

/-- `BoxedUint` formatting: a zero-limb value prints as `Limb::ZERO` -/
def boxedFmtHex (upper alt : Bool) (l : List Nat) : List Nat :=
  if l.isEmpty then fmtHex false alt [0] else fmtHex upper alt l
def boxedFmtBin (alt : Bool) (l : List Nat) : List Nat :=
  if l.isEmpty then fmtBin alt [0] else fmtBin alt l

/-- `Debug`: `Name(0x{self:X})` -/
def fmtDebug (name : List Nat) (body : List Nat) : List Nat := name ++ [40, 48, 120] ++ body ++ [41]

/-! ## serde — src/uint.rs:351-378: `serdect::array` over `Encoding::to_le_bytes`.
    With a binary format (bincode 1) serdect falls back to the slice methods, so the framing is a
    `u64` little-endian length prefix followed by the bytes; on input the length must equal the
    array size exactly (serdect `ExactLength`); bytes after the payload are not looked at. -/

def serdeSerialize (l : List Nat) : List Nat := digitsLe 256 8 (8 * l.length) ++ uintToLeBytes l
/-- `none` = a deserialisation error -/
def serdeDeserialize (n : Nat) (bytes : List Nat) : Option (List Nat) :=
  if bytes.length < 8 then none
  else
    let len := leVal (bytes.take 8)
    let body := bytes.drop 8
    if body.length < len then none
    else if len ≠ 8 * n then none
    else fromLeSlice n (body.take len)

/-! ## L0 — what the property demands, positionally -/

/-- big-endian base-`b` value: Horner from the most significant digit -/
def beValBase (b : Nat) (ds : List Nat) : Nat := ds.foldl (fun acc d => acc * b + d) 0
def beVal (bs : List Nat) : Nat := beValBase 256 bs

/-- byte `i` of the `k`-byte big-endian encoding of `x` is `x / 256^(k-1-i) % 256` -/
def specBeBytes (k x : Nat) : List Nat := (List.range k).map fun i => x / 256 ^ (k - 1 - i) % 256
def specLeBytes (k x : Nat) : List Nat := (List.range k).map fun i => x / 256 ^ i % 256

/-- value of an ASCII hex digit, either case; `none` for every other byte -/
def hexVal? (c : Nat) : Option Nat :=
  if 48 ≤ c ∧ c ≤ 57 then some (c - 48)
  else if 65 ≤ c ∧ c ≤ 70 then some (c - 55)
  else if 97 ≤ c ∧ c ≤ 102 then some (c - 87)
  else none

def isHexDigit (c : Nat) : Bool := (hexVal? c).isSome

/-- well-formed hex text → its digits (MS first); `none` if any character is not a hex digit -/
def hexDigits? : List Nat → Option (List Nat)
  | [] => some []
  | c :: cs => match hexVal? c, hexDigits? cs with
    | some d, some ds => some (d :: ds)
    | _, _ => none

/-- hex text of `2·k` characters as `k` bytes, text order -/
def pairBytes : List Nat → List Nat
  | a :: b :: t => (16 * a + b) :: pairBytes t
  | _ => []

/-- spec of the fixed big-endian hex decoder: value, or `none` (= must panic) -/
def specFromBeHex (n : Nat) (hex : List Nat) : Option Nat :=
  if hex.length = 16 * n then (hexDigits? hex).map (beValBase 16) else none
/-- little-endian hex: byte `j` (characters `2j, 2j+1`) has weight `256^j` -/
def specFromLeHex (n : Nat) (hex : List Nat) : Option Nat :=
  if hex.length = 16 * n then (hexDigits? hex).map fun ds => leVal (pairBytes ds) else none

/-- spec of the boxed slice decoders on the VALUE `v` of the input: documented errors -/
def specBoxedDecode (len bp v : Nat) : Except DecodeError (Nat × Nat) :=
  if len > (bp + 7) / 8 then .error .InputSize
  else if v ≥ 2 ^ bp then .error .Precision
  else .ok (max 1 ((bp + 63) / 64), v)

/-- the spec outcome as a limb list -/
def boxedOfSpec : Except DecodeError (Nat × Nat) → Except DecodeError (List Nat)
  | .ok (n, v) => .ok (toLimbs n v)
  | .error e => .error e

/-- hex text of `x` with `k` digits, most significant first -/
def specHexText (upper : Bool) (k x : Nat) : List Nat :=
  (List.range k).map fun j => hexChar upper (x / 16 ^ (k - 1 - j) % 16)
def specBinText (k x : Nat) : List Nat :=
  (List.range k).map fun j => 48 + x / 2 ^ (k - 1 - j) % 2

/-- two's-complement value of a limb list -/
def toInt (l : List Nat) : Int :=
  if l.getLastD 0 / HALF % 2 = 1 then (val l : Int) - ((B ^ l.length : Nat) : Int) else (val l : Int)

/-- `t`-limb two's-complement pattern of an integer -/
def ofInt (t : Nat) (i : Int) : Nat := (i % ((B ^ t : Nat) : Int)).toNat

/-- value of a signed primitive of `bits` bits given as its two's-complement pattern `v` -/
def signedVal (bits v : Nat) : Int :=
  if v / 2 ^ (bits - 1) % 2 = 1 then (v : Int) - ((2 ^ bits : Nat) : Int) else (v : Int)

/-! ## coverage round — serde of `Limb`, `Wrapping<T>`, `Checked<T>`, `ConstMontyForm`; mutable word views;
    `From<Limb>` for the primitives; `From<Odd<Uint>> for BoxedUint`; formatting forwarded by `NonZero`/`Odd`;
    `Display` of the error enums.  bincode 1 (`bincode::serialize` / `deserialize`: fixed-width little-endian
    integers, one tag byte for `Option`, trailing bytes ignored) is the trusted framing, mirrored here. -/

/-- `Serialize for Limb` (src/limb.rs:201-209): `self.0.serialize(..)`; bincode writes a `u64` as 8 LE bytes -/
def limbSerialize (w : Nat) : List Nat := wordToLeBytes w
/-- `Deserialize for Limb` (src/limb.rs:191-199): `Word::deserialize`; bincode reads 8 bytes, `none` = too short -/
def limbDeserialize (bytes : List Nat) : Option Nat :=
  if bytes.length < 8 then none else some (wordFromLeBytes (bytes.take 8))

/-- `Serialize for Wrapping<T>` (src/wrapping.rs:272-279): `self.0.serialize(..)` -/
def wrappingSerialize (l : List Nat) : List Nat := serdeSerialize l
/-- `Deserialize for Wrapping<T>` (src/wrapping.rs:262-269): `Ok(Self(T::deserialize(..)?))` -/
def wrappingDeserialize (n : Nat) (bytes : List Nat) : Option (List Nat) := serdeDeserialize n bytes

/-- `Serialize for Checked<T>` (src/checked.rs:317-325): `Option::<T>::from(self.0).serialize(..)`;
    bincode writes an `Option` as the tag byte 0, or 1 followed by the value -/
def checkedSerialize : Option (List Nat) → List Nat
  | none => [0]
  | some l => 1 :: serdeSerialize l
/-- `Deserialize for Checked<T>` (src/checked.rs:305-315): `Option::<T>::deserialize`, then
    `CtOption::new(value.unwrap_or_default(), is_some)`; outer `none` = an error (no tag byte, a tag other than
    0 / 1, or an inner error), `some none` = the absent value (seen through `Option::from`) -/
def checkedDeserialize (n : Nat) (bytes : List Nat) : Option (Option (List Nat)) :=
  match bytes with
  | [] => none
  | tag :: rest =>
    if tag = 0 then some none
    else if tag = 1 then (serdeDeserialize n rest).map some
    else none

/-- `Serialize for ConstMontyForm` (src/modular/const_monty_form.rs:240-251): `self.montgomery_form.serialize(..)` -/
def cmSerialize (mf : List Nat) : List Nat := serdeSerialize mf
/-- `Deserialize for ConstMontyForm` (225-238): `Uint::deserialize`, then `montgomery_form < MOD::MODULUS.0`
    (`Uint`'s `PartialOrd`: exactness is C06, used on values) or the error "montgomery form must be reduced" -/
def cmDeserialize (m : List Nat) (bytes : List Nat) : Option (List Nat) :=
  match serdeDeserialize m.length bytes with
  | some a => if val a < val m then some a else none
  | none => none

/-- `as_words_mut()[i] = w` / `as_limbs_mut()[i] = Limb(w)` / `AsMut<[Word; N]>` / `AsMut<[Limb]>` of `Uint`, `Int`,
    `BoxedUint`: the views alias the limb array in place (`repr(transparent)` pointer cast), so a store at index `i`
    replaces limb `i` -/
def setWord (l : List Nat) (i w : Nat) : List Nat := l.set i w

/-- `Word::from(limb)`, `WideWord::from(limb)` (src/limb/from.rs:62-74): `limb.0`, `limb.0.into()` -/
def limbToWord (w : Nat) : Nat := w
def limbToWide (w : Nat) : Nat := w

/-- `From<Odd<Uint<N>>>` / `From<&Odd<Uint<N>>> for BoxedUint` (src/uint/boxed/from.rs:96-108): `Self::from(&uint.0)`
    = `Vec::from(uint.to_limbs()).into()` -/
def boxedFromOdd (l : List Nat) : List Nat := boxedOfVec (toWords l)

/-- `LowerHex` / `UpperHex` / `Display` / `Binary for NonZero<T>` and `for Odd<T>` (src/non_zero.rs:313-356,
    src/odd.rs:182-225): `fmt::X::fmt(&self.0, f)` — the formatter (and so the `#` flag) is passed on unchanged -/
def wrapFmtHex (upper alt : Bool) (l : List Nat) : List Nat := fmtHex upper alt l
def wrapFmtBin (alt : Bool) (l : List Nat) : List Nat := fmtBin alt l
def wrapBoxedFmtHex (upper alt : Bool) (l : List Nat) : List Nat := boxedFmtHex upper alt l
def wrapBoxedFmtBin (alt : Bool) (l : List Nat) : List Nat := boxedFmtBin alt l

/-- `{:o}` / `{:#o}` of a `u64` (core::fmt, trusted): octal digits without leading zeros, `0o` prefix if alternate;
    what `fmt::Octal for NonZero<T>` / `Odd<T>` forward to for a `T` whose `Octal` is that of its `u64` field -/
def fmtOctal (alt : Bool) (w : Nat) : List Nat :=
  (if alt then [48, 111] else []) ++ (Nat.toDigits 8 w).map Char.toNat

def asciiOf (s : String) : List Nat := s.toList.map Char.toNat

/-- `Display for DecodeError` (src/traits.rs:611-627) -/
def decodeErrorText : DecodeError → List Nat
  | .Empty => asciiOf "empty value provided"
  | .InvalidDigit => asciiOf "invalid digit character"
  | .InputSize => asciiOf "input size is too small to fit in the given precision"
  | .Precision => asciiOf "the deserialized number is larger than the given precision"

/-- `Display for RandomBitsError<T>` (src/traits.rs:340-369); decimal numbers as `{}` prints a `u32` -/
def randomBitsErrorText (variant : String) (inner : List Nat) (x y : Nat) : Option (List Nat) :=
  match variant with
  | "rand_core" => some inner
  | "mismatch" =>
    some (asciiOf ("The requested `bits_precision` (" ++ toString x ++
      ") does not match the size of the integer corresponding to the type (" ++ toString y ++ ")"))
  | "too_large" =>
    some (asciiOf ("The requested `bit_length` (" ++ toString x ++ ") is larger than `bits_precision` (" ++
      toString y ++ ")."))
  | _ => none

/-- L0: octal text of `x`, most significant digit first, no leading zeros (`"0"` for zero) -/
def specOctText (x : Nat) : List Nat :=
  let k := if x = 0 then 1 else Nat.log2 x / 3 + 1
  (List.range k).map fun j => 48 + x / 8 ^ (k - 1 - j) % 8

end CB.Encoding
