/-
  CB.Model.IntDiv — every division flavour of `Int<LIMBS>` (src/int/div.rs, src/int/div_uint.rs,
  `NonZero<Int>::abs_sign` of src/non_zero.rs) as written: split into magnitudes and sign masks, divide
  the magnitudes, re-sign / adjust.  The unsigned division `Uint::div_rem(_vartime)` is called at value
  level (`val n / val d`, `val n % val d`; refinement = property C02).  A `NonZero` argument is the
  guard `val d ≠ 0` of the callers (the drivers print `none`/`panic` where the API cannot be called).
  Core Lean only.
-/
import CB.Model.Int
namespace CB.IntDiv
open CB CB.SInt

/-- `Uint::<L>::div_rem(_vartime)::<R>`: quotient with the dividend's width, remainder with the divisor's -/
def uDivRem (n d : List Nat) : List Nat × List Nat :=
  (toLimbs n.length (val n / val d), toLimbs d.length (val n % val d))

/-- `Int::div_rem_base(_vartime)`: `(quotient, remainder, lhs_sgn, rhs_sgn)` -/
def divRemBase (n d : List Nat) : List Nat × List Nat × Nat × Nat :=
  let (lm, ls) := absSign n
  let (rm, rs) := absSign d
  let (q, r) := uDivRem lm rm
  (q, r, ls, rs)

/-- `Int::checked_div_rem(_vartime)`: `((quotient, is_some), remainder)`;
    quotient `new_from_abs_sign(q, lhs_sgn.ne(rhs_sgn))`, remainder `wrapping_neg_if(lhs_sgn)` -/
def iCheckedDivRem (n d : List Nat) : (List Nat × Nat) × List Nat :=
  let (q, r, ls, rs) := divRemBase n d
  let opposing := cne ls rs
  (newFromAbsSign q opposing, wrappingNegIf r ls)

/-- `Int::checked_div_rem_floor(_vartime)` AS WRITTEN (the remainder is re-signed by `opposing_signs`) -/
def iCheckedDivRemFloor (n d : List Nat) : (List Nat × Nat) × List Nat :=
  let (lm, ls) := absSign n
  let (rm, rs) := absSign d
  let (q, r) := uDivRem lm rm
  let opposing := cxor ls rs
  let modify := cand (isNonzero r) opposing
  let qPlusOne := wrappingAdd q (uone q.length)
  let q := uselect q qPlusOne modify
  let invR := wrappingSub rm r
  let r := uselect r invR modify
  (newFromAbsSign q opposing, wrappingNegIf r opposing)

/-- `Int::div_rem_base_uint(_vartime)` -/
def divRemBaseUint (n d : List Nat) : List Nat × List Nat × Nat :=
  let (lm, ls) := absSign n
  let (q, r) := uDivRem lm d
  (q, r, ls)

/-- `Int::div_rem_uint(_vartime)`: both parts `wrapping_neg_if(lhs_sgn)` -/
def iDivRemUint (n d : List Nat) : List Nat × List Nat :=
  let (q, r, ls) := divRemBaseUint n d
  (wrappingNegIf q ls, wrappingNegIf r ls)

/-- `Int::div_rem_floor_uint(_vartime)`: `(quotient : Int, remainder : Uint)` -/
def iDivRemFloorUint (n d : List Nat) : List Nat × List Nat :=
  let (q, r, ls) := divRemBaseUint n d
  let modify := cand (isNonzero r) ls
  let q := uselect q (wrappingAdd q (uone q.length)) modify
  let r := uselect r (wrappingSub d r) modify
  (wrappingNegIf q ls, r)

/-- `DivVartime::div_vartime`: `new_from_abs_sign(q, lhs_sign.xor(rhs_sign))` then `expect` -/
def iDivVartime (n d : List Nat) : List Nat × Nat :=
  let (q, _, ls, rs) := divRemBase n d
  newFromAbsSign q (cxor ls rs)

end CB.IntDiv
