/-
  CB.Model.Rand — random sampling of crypto-bigint (C19), modelled as the code is written
  (64-bit target): src/uint/rand.rs (`random_mod_core`, `random_bits_core`, `Uint::{random,
  random_bits, random_mod}`), src/uint/boxed/rand.rs, src/limb/rand.rs, src/int/rand.rs,
  src/non_zero.rs / src/odd.rs (`Random` impls), src/modular/const_monty_form.rs (`Random`).

  The RNG is the harness fixture `Stream` (harness/src/ops/c19.rs): a byte string with a cursor.
  `fill_bytes(dst)` copies the next `dst.len()` bytes, `next_u32` / `next_u64` take the next 4 / 8
  bytes little-endian (`rand_core::impls::next_u{32,64}_via_fill`); a request for more bytes than
  remain consumes nothing and fails (`TryRngCore` error, or fixture panic for the infallible RNG).

  Called algorithms of other properties are used as mathematical functions: bit length of a value
  (`bits`, `bits_vartime`, `leading_zeros`: bit-counting property), `is_zero` (comparison property),
  Montgomery conversion + retrieve (`ConstMontyForm::new(..).retrieve() = id` below the modulus: C08).
  `ct_lt` is the borrow chain `ult` of CB.Model.Uint.
  Core Lean only.
-/
import CB.Model.Uint
namespace CB.Rand
open CB

/-! ### the RNG fixture -/

/-- byte-stream RNG: bytes not yet served, number of bytes served so far -/
structure Rng where
  rest : List Nat
  used : Nat

/-- little-endian bytes → value (`u32::from_le_bytes`, `u64::from_le_bytes`, `Limb::from_le_bytes`) -/
def leBytes : List Nat → Nat
  | [] => 0
  | b :: bs => b + 256 * leBytes bs

/-- serve the next `k` bytes, or fail without consuming anything -/
def Rng.take (r : Rng) (k : Nat) : Option (List Nat × Rng) :=
  if r.rest.length < k then none else some (r.rest.take k, ⟨r.rest.drop k, r.used + k⟩)

/-- `try_next_u64` -/
def Rng.nextU64 (r : Rng) : Option (Nat × Rng) :=
  match r.take 8 with
  | none => none
  | some br => some (leBytes br.1, br.2)

/-- `try_next_u32` (not used on the 64-bit target; part of the fixture) -/
def Rng.nextU32 (r : Rng) : Option (Nat × Rng) :=
  match r.take 4 with
  | none => none
  | some br => some (leBytes br.1, br.2)

/-- outcome of a sampler: value and RNG state; RNG failure with the state at the failing call;
    or the model's loop fuel ran out (impossible when `fuel > remaining bytes`, see C19 theorems) -/
inductive Out (α : Type) where
  | ok (v : α) (r : Rng)
  | rngErr (r : Rng)
  | fuel

def Out.map {α β : Type} (f : α → β) : Out α → Out β
  | .ok v r => .ok (f v) r
  | .rngErr r => .rngErr r
  | .fuel => .fuel

/-! ### bit lengths (mathematical functions of another property) -/

/-- number of significant bits of a value: `Word::BITS - leading_zeros`, `bits_vartime`, `bits` -/
def bitLen (w : Nat) : Nat := if w = 0 then 0 else Nat.log2 w + 1

/-- `u64::leading_zeros` -/
def leadingZeros64 (w : Nat) : Nat := 64 - bitLen w

/-- `Uint::bits_vartime` -/
def bitsVartime (m : List Nat) : Nat := bitLen (val m)

/-- `BoxedUint::bits`: `bits_precision() - leading_zeros()` -/
def boxedBits (m : List Nat) : Nat := 64 * m.length - (64 * m.length - bitLen (val m))

/-! ### `random_mod_core` (src/uint/rand.rs:122-168) -/

/-- `for i in 0..k { n[i] = next_word()? }` — also `Uint::try_random` (`k = LIMBS`) -/
def lowLoop : Nat → Rng → Out (List Nat)
  | 0, r => .ok [] r
  | k + 1, r =>
    match r.nextU64 with
    | none => .rngErr r
    | some wr =>
      match lowLoop k wr.2 with
      | .ok ws r'' => .ok (wr.1 :: ws) r''
      | .rngErr r'' => .rngErr r''
      | .fuel => .fuel

/-- the `loop { … }` of `random_mod_core` with the inner `while hi_word > hi_word_modulus` unrolled into
    the same recursion (`loop { while c { A }; B; if d { break }; A }` as the state machine
    `L(hi) = if c then A; L(hi') else B; if d then done else A; L(hi')`).
    `n` is the output buffer (limbs `≥ nl` are never written), `hi` the pending masked top word. -/
def modLoop : Nat → List Nat → Nat → Nat → Nat → List Nat → Nat → Rng → Out (List Nat)
  | 0, _, _, _, _, _, _, _ => .fuel
  | f + 1, m, nl, mhi, msk, n, hi, r =>
    if hi > mhi then
      -- `while hi_word > hi_word_modulus { hi_word = next_word()? & mask; }`
      match r.nextU64 with
      | none => .rngErr r
      | some wr => modLoop f m nl mhi msk n (wr.1 &&& msk) wr.2
    else
      match lowLoop (nl - 1) r with
      | .fuel => .fuel
      | .rngErr r2 => .rngErr r2
      | .ok lows r2 =>
        -- n[n_limbs-1] = hi_word; n[i] = next_word() for i < n_limbs-1;  `if n.ct_lt(modulus).into() { break }`
        if choiceBit (ult (lows ++ hi :: n.drop nl) m) = 1 then .ok (lows ++ hi :: n.drop nl) r2
        else
          -- `hi_word = next_word()? & mask;`
          match r2.nextU64 with
          | none => .rngErr r2
          | some wr => modLoop f m nl mhi msk (lows ++ hi :: n.drop nl) (wr.1 &&& msk) wr.2

/-- `random_mod_core(rng, n, modulus, n_bits)` -/
def randomModCore (fuel : Nat) (r : Rng) (n m : List Nat) (nBits : Nat) : Out (List Nat) :=
  let nl := (nBits + 63) / 64                      -- n_bits.div_ceil(Limb::BITS)
  let mhi := m.getD (nl - 1) 0                     -- modulus[n_limbs - 1]
  let msk := WMAX >>> leadingZeros64 mhi           -- !0 >> hi_word_modulus.leading_zeros()
  match r.nextU64 with
  | none => .rngErr r
  | some wr => modLoop fuel m nl mhi msk n (wr.1 &&& msk) wr.2

/-- `Uint::<LIMBS>::(try_)random_mod`; `m` = limbs of the (non-zero) modulus -/
def uintRandomMod (fuel : Nat) (r : Rng) (m : List Nat) : Out (List Nat) :=
  randomModCore fuel r (uzero m.length) m (bitsVartime m)

/-- `BoxedUint::zero_with_precision`: `limbs_for_precision`, and `From<Vec<Limb>>` never yields 0 limbs -/
def zeroWithPrecision (bits : Nat) : List Nat :=
  let k := (bits + 63) / 64
  uzero (if k = 0 then 1 else k)

/-- `BoxedUint::(try_)random_mod` -/
def boxedRandomMod (fuel : Nat) (r : Rng) (m : List Nat) : Out (List Nat) :=
  randomModCore fuel r (zeroWithPrecision (64 * m.length)) m (boxedBits m)

/-! ### `random_bits_core` (src/uint/rand.rs:29-73) -/

/-- the `for i in 0..nonzero_limbs - 1` loop: refill the 8-byte buffer, store the word.
    The value carries the words followed by the final content of the buffer (`wsbuf.1`, `wsbuf.2`). -/
def bitsFullLoop : Nat → List Nat → Rng → Out (List Nat × List Nat)
  | 0, buf, r => .ok ([], buf) r
  | k + 1, _, r =>
    match r.take 8 with
    | none => .rngErr r
    | some br =>
      match bitsFullLoop k br.1 br.2 with
      | .ok wb r'' => .ok (leBytes br.1 :: wb.1, wb.2) r''
      | .rngErr r'' => .rngErr r''
      | .fuel => .fuel

/-- `random_bits_core(rng, zeroed_limbs, bit_length)`; the caller guarantees
    `bit_length ≤ 64 * zeroed_limbs.len()` -/
def randomBitsCore (r : Rng) (limbs : List Nat) (bitLength : Nat) : Out (List Nat) :=
  if bitLength = 0 then .ok limbs r else
  -- nonzero_limbs = (bitLength + 63) / 64, partial_limb = bitLength % 64,
  -- mask = Word::MAX >> ((Word::BITS - partial_limb) % Word::BITS)
  match bitsFullLoop ((bitLength + 63) / 64 - 1) [0, 0, 0, 0, 0, 0, 0, 0] r with
  | .fuel => .fuel
  | .rngErr r1 => .rngErr r1
  | .ok wb r1 =>
    -- 4-byte tail rule: only `buffer[0..4]` is refilled, the upper half keeps its old content
    match r1.take (if bitLength % 64 > 0 ∧ bitLength % 64 ≤ 32 then 4 else 8) with
    | none => .rngErr r1
    | some br =>
      .ok (wb.1 ++ (leBytes (br.1 ++ wb.2.drop (if bitLength % 64 > 0 ∧ bitLength % 64 ≤ 32 then 4 else 8))
                      &&& (WMAX >>> ((64 - bitLength % 64) % 64)))
                 :: limbs.drop ((bitLength + 63) / 64)) br.2

/-- error kinds of `RandomBitsError` next to the sampler outcome -/
inductive BitsRes where
  | out (o : Out (List Nat))
  | precisionMismatch (bitsPrecision integerBits : Nat)
  | bitLengthTooLarge (bitLength bitsPrecision : Nat)

/-- `Uint::<LIMBS>::try_random_bits_with_precision` (also `Int`) -/
def uintRandomBitsWP (r : Rng) (limbsN bitLength bitsPrecision : Nat) : BitsRes :=
  if bitsPrecision ≠ 64 * limbsN then .precisionMismatch bitsPrecision (64 * limbsN)
  else if bitLength > 64 * limbsN then .bitLengthTooLarge bitLength bitsPrecision
  else .out (randomBitsCore r (uzero limbsN) bitLength)

/-- `Uint::<LIMBS>::try_random_bits` -/
def uintRandomBits (r : Rng) (limbsN bitLength : Nat) : BitsRes :=
  uintRandomBitsWP r limbsN bitLength (64 * limbsN)

/-- `BoxedUint::try_random_bits_with_precision` -/
def boxedRandomBitsWP (r : Rng) (bitLength bitsPrecision : Nat) : BitsRes :=
  if bitLength > bitsPrecision then .bitLengthTooLarge bitLength bitsPrecision
  else .out (randomBitsCore r (zeroWithPrecision bitsPrecision) bitLength)

/-- `BoxedUint::try_random_bits` -/
def boxedRandomBits (r : Rng) (bitLength : Nat) : BitsRes :=
  boxedRandomBitsWP r bitLength bitLength

/-! ### `Limb` (src/limb/rand.rs) -/

/-- `Limb::try_random` -/
def limbRandom (r : Rng) : Out Nat :=
  match r.nextU64 with
  | none => .rngErr r
  | some wr => .ok wr.1 wr.2

/-- one refill of the byte buffer: `fill_bytes(&mut bytes[..n_bytes]); bytes[n_bytes-1] &= mask` -/
def limbRefill (nBytes msk : Nat) (bytes bs : List Nat) : List Nat :=
  (bs ++ bytes.drop nBytes).set (nBytes - 1) ((bs ++ bytes.drop nBytes).getD (nBytes - 1) 0 &&& msk)

/-- the `loop` of `Limb::try_random_mod`; `bytes` is the 8-byte buffer that lives across iterations -/
def limbModLoop : Nat → Nat → Nat → Nat → List Nat → Rng → Out Nat
  | 0, _, _, _, _, _ => .fuel
  | f + 1, m, nBytes, msk, bytes, r =>
    match r.take nBytes with
    | none => .rngErr r
    | some br =>
      -- let n = Limb::from_le_bytes(bytes); if n.ct_lt(modulus).into() { return Ok(n) }
      if choiceBit (fromWordLt (leBytes (limbRefill nBytes msk bytes br.1)) m) = 1
      then .ok (leBytes (limbRefill nBytes msk bytes br.1)) br.2
      else limbModLoop f m nBytes msk (limbRefill nBytes msk bytes br.1) br.2

/-- `Limb::try_random_mod`, `m ≠ 0` -/
def limbRandomMod (fuel : Nat) (r : Rng) (m : Nat) : Out Nat :=
  let nBits := bitLen m
  let nBytes := (nBits + 7) / 8
  let msk := 255 >>> (8 * nBytes - nBits)
  limbModLoop fuel m nBytes msk [0, 0, 0, 0, 0, 0, 0, 0] r

/-! ### `Uint::random`, `NonZero`, `Odd`, `ConstMontyForm` -/

/-- `Uint::<LIMBS>::try_random`, `Int::try_random`, `Wrapping::try_random` -/
def uintRandom (r : Rng) (limbsN : Nat) : Out (List Nat) := lowLoop limbsN r

/-- `NonZero::<T>::try_random`: `loop { if let Some(r) = NonZero::new(T::try_random(rng)?) … }` -/
def nonZeroLoop {α : Type} (gen : Rng → Out α) (isZero : α → Bool) : Nat → Rng → Out α
  | 0, _ => .fuel
  | f + 1, r =>
    match gen r with
    | .ok v r' => if isZero v then nonZeroLoop gen isZero f r' else .ok v r'
    | .rngErr r' => .rngErr r'
    | .fuel => .fuel

def nonZeroUintRandom (fuel : Nat) (r : Rng) (limbsN : Nat) : Out (List Nat) :=
  nonZeroLoop (fun r => uintRandom r limbsN) (fun v => decide (val v = 0)) fuel r

def nonZeroLimbRandom (fuel : Nat) (r : Rng) : Out Nat :=
  nonZeroLoop limbRandom (fun v => decide (v = 0)) fuel r

/-- `ret.limbs[0] |= Limb::ONE` -/
def setLowBit : List Nat → List Nat
  | [] => []
  | x :: xs => (x ||| 1) :: xs

/-- `Odd::<Uint<LIMBS>>::try_random` -/
def oddUintRandom (r : Rng) (limbsN : Nat) : Out (List Nat) :=
  (uintRandom r limbsN).map setLowBit

/-- `Odd::<BoxedUint>::random(rng, bit_length)` = `random_bits` (precision = bit_length) then set bit 0 -/
def oddBoxedRandom (r : Rng) (bitLength : Nat) : BitsRes :=
  match boxedRandomBits r bitLength with
  | .out o => .out (o.map setLowBit)
  | e => e

/-- `ConstMontyForm::<MOD, LIMBS>::try_random` observed through `retrieve()`:
    `Uint::try_random_mod(rng, MOD::MODULUS)`; to-Montgomery and back is the identity (C08) -/
def constMontyRandom (fuel : Nat) (r : Rng) (modulus : List Nat) : Out (List Nat) :=
  uintRandomMod fuel r modulus

/-! ### value-level specification (L0) of the samplers: plain `Nat` arithmetic on the byte stream -/

/-- draw one top word: the next 8 bytes little-endian, reduced to `b` bits -/
def specDraw (b : Nat) (bs : List Nat) : Option (Nat × List Nat) :=
  if bs.length < 8 then none else some (leBytes (bs.take 8) % 2 ^ b, bs.drop 8)

/-- L0 of `random_mod`: value-level rejection sampling, for modulus value `m` with
    `k = ⌈bits m / 64⌉` limbs, top limb `mhi = m / B^(k-1)`, `b = bits mhi`; `hi` is the pending top
    word. A top word above `mhi` is discarded alone (early rejection); otherwise the candidate is
    `c = (next 8(k-1) bytes little-endian) + B^(k-1)·hi`, accepted iff `c < m`.
    Returns `(value, bytes consumed)`; `none` = the stream holds no accepted candidate. -/
def specModLoop (m k mhi b : Nat) : Nat → Nat → List Nat → Nat → Option (Nat × Nat)
  | 0, _, _, _ => none
  | f + 1, hi, bs, used =>
    if hi > mhi then
      match specDraw b bs with
      | none => none
      | some d => specModLoop m k mhi b f d.1 d.2 (used + 8)
    else if bs.length < 8 * (k - 1) then none
    else if leBytes (bs.take (8 * (k - 1))) + B ^ (k - 1) * hi < m then
      some (leBytes (bs.take (8 * (k - 1))) + B ^ (k - 1) * hi, used + 8 * (k - 1))
    else
      match specDraw b (bs.drop (8 * (k - 1))) with
      | none => none
      | some d => specModLoop m k mhi b f d.1 d.2 (used + 8 * (k - 1) + 8)

/-- L0 of `random_mod` on a byte stream -/
def specRandomMod (fuel m : Nat) (bytes : List Nat) : Option (Nat × Nat) :=
  match specDraw (bitLen (m / B ^ ((bitLen m + 63) / 64 - 1))) bytes with
  | none => none
  | some d =>
    specModLoop m ((bitLen m + 63) / 64) (m / B ^ ((bitLen m + 63) / 64 - 1))
      (bitLen (m / B ^ ((bitLen m + 63) / 64 - 1))) fuel d.1 d.2 8

/-- bytes consumed by `random_bits_core` -/
def bitsBytes (bitLength : Nat) : Nat :=
  if bitLength = 0 then 0 else
  8 * ((bitLength + 63) / 64 - 1) + (if bitLength % 64 > 0 ∧ bitLength % 64 ≤ 32 then 4 else 8)

/-- L0 of `random_bits`: the consumed bytes read little-endian, reduced mod `2^bit_length` -/
def specRandomBits (bitLength : Nat) (bytes : List Nat) : Option Nat :=
  if bytes.length < bitsBytes bitLength then none
  else some (leBytes (bytes.take (bitsBytes bitLength)) % 2 ^ bitLength)

/-- L0 of `Limb::random_mod`: bytewise rejection sampling — candidate = next `⌈bits m / 8⌉` bytes
    little-endian reduced to `bits m` bits, accepted iff `< m` -/
def specLimbModLoop (m nBytes nBits : Nat) : Nat → List Nat → Nat → Option (Nat × Nat)
  | 0, _, _ => none
  | f + 1, bs, used =>
    if bs.length < nBytes then none
    else if leBytes (bs.take nBytes) % 2 ^ nBits < m then some (leBytes (bs.take nBytes) % 2 ^ nBits, used + nBytes)
    else specLimbModLoop m nBytes nBits f (bs.drop nBytes) (used + nBytes)

def specLimbRandomMod (fuel m : Nat) (bytes : List Nat) : Option (Nat × Nat) :=
  specLimbModLoop m ((bitLen m + 7) / 8) (bitLen m) fuel bytes 0

end CB.Rand
