/-
  CB.Model.LeakOps — the limb-level algorithms of crypto-bigint re-expressed over the leakage vocabulary of
  `CB.Model.Leak` (property C01).  Loop for loop and mask for mask as the Rust source; every loop bound,
  every memory index and every `if` is either computed from PUBLIC data (limb count `n`, public shift
  amounts, exponent bit bound, …: plain `Nat`s, recorded by `pubBranch` / `pubIndex`), or goes through
  `branchOn` / `indexBy` / `divBy` / `declassify` and shows in the trace.

  This file cannot look inside a `Sec` (constructor and field are private to CB.Model.Leak): a function
  below that type-checks without the four leaking primitives cannot depend on a secret in its control flow
  or addressing.  The theorems of `CB/Props/C01.lean` state that per function, for all limb counts.

  Conventions: `n` = LIMBS (public); operands are `List Sec`, read with `limb a i` (out of range = 0);
  pair results are taken with `.1` / `.2`.  Core Lean only.
-/
import CB.Model.Leak
namespace CB.Leak
open Sec

/-! ## Limb (src/limb/{cmp,add,sub,mul}.rs) — single word expressions, no loop, no branch -/

/-- `Limb::ct_eq` / `ConstChoice::from_word_eq` -/
def limbEq (a b : Sec) : L Sec := pure (maskEq a b)
/-- `Limb::ct_lt` / `ConstChoice::from_word_lt` -/
def limbLt (a b : Sec) : L Sec := pure (maskLt a b)
/-- `Limb::select` -/
def limbSelect (a b c : Sec) : L Sec := pure (select a b c)
/-- `Limb::adc` -/
def limbAdc (a b c : Sec) : L (Sec × Sec) := pure (Sec.adc a b c)
/-- `Limb::sbb` -/
def limbSbb (a b c : Sec) : L (Sec × Sec) := pure (Sec.sbb a b c)
/-- `Limb::mac` -/
def limbMac (a b c carry : Sec) : L (Sec × Sec) := pure (Sec.mac a b c carry)
/-- `Limb::bits` = 64 - leading_zeros -/
def limbBits (a : Sec) : L Sec := pure (sub (ofNat 64) (lz a))

/-! ## Uint selection and comparison (src/uint/cmp.rs) -/

/-- `Uint::select(a, b, c)` -/
def uselect (n : Nat) (a b : List Sec) (c : Sec) : L (List Sec) :=
  forN n (fun i r => do pubIndex i; pure (r ++ [select (limb a i) (limb b i) c])) []

/-- `Uint::is_nonzero`: OR of all limbs, then one mask -/
def isNonzero (n : Nat) (a : List Sec) : L Sec := do
  let b ← forN n (fun i acc => do pubIndex i; pure (or acc (limb a i))) zero
  pure (maskNonzero b)

/-- `Uint::eq`: `acc |= lhs[i] ^ rhs[i]` -/
def ueq (n : Nat) (a b : List Sec) : L Sec := do
  let acc ← forN n (fun i acc => do pubIndex i; pure (or acc (xor (limb a i) (limb b i)))) zero
  pure (not (maskNonzero acc))

/-- `Uint::sbb` -/
def usbb (n : Nat) (a b : List Sec) (bw : Sec) : L (List Sec × Sec) :=
  forN n (fun i st => do
    pubIndex i
    pure (st.1 ++ [(Sec.sbb (limb a i) (limb b i) st.2).1], (Sec.sbb (limb a i) (limb b i) st.2).2)) ([], bw)

/-- `Uint::adc` -/
def uadc (n : Nat) (a b : List Sec) (c : Sec) : L (List Sec × Sec) :=
  forN n (fun i st => do
    pubIndex i
    pure (st.1 ++ [(Sec.adc (limb a i) (limb b i) st.2).1], (Sec.adc (limb a i) (limb b i) st.2).2)) ([], c)

/-- `Uint::lt`: the borrow of `lhs - rhs` as a mask -/
def ult (n : Nat) (a b : List Sec) : L Sec := do
  let r ← usbb n a b zero
  pure r.2

/-- `Uint::gt` -/
def ugt (n : Nat) (a b : List Sec) : L Sec := do
  let r ← usbb n b a zero
  pure r.2

/-- `Uint::cmp`: one pass, `diff |= w`, sign from the last borrow; result in {-1,0,1} as a secret word -/
def ucmp (n : Nat) (a b : List Sec) : L Sec := do
  let st ← forN n (fun i st => do
    pubIndex i
    pure ((Sec.sbb (limb b i) (limb a i) st.1).2, or st.2 (Sec.sbb (limb b i) (limb a i) st.1).1)) (zero, zero)
  let sgn := sub (and st.1 (ofNat 2)) one
  pure (mul (and (maskNonzero st.2) one) sgn)

/-- `Uint::carrying_neg`: `!limb + carry` chain -/
def uneg (n : Nat) (a : List Sec) : L (List Sec × Sec) :=
  forN n (fun i st => do
    pubIndex i
    pure (st.1 ++ [(Sec.adc (not (limb a i)) zero st.2).1], (Sec.adc (not (limb a i)) zero st.2).2)) ([], one)

/-- `Uint::wrapping_add` -/
def wrappingAdd (n : Nat) (a b : List Sec) : L (List Sec) := do
  let r ← uadc n a b zero
  pure r.1

/-- `Uint::bitand_limb` -/
def bitandLimb (n : Nat) (a : List Sec) (m : Sec) : L (List Sec) :=
  forN n (fun i r => do pubIndex i; pure (r ++ [and (limb a i) m])) []

/-! ### deliberately leaky comparisons (negative examples / documented vartime) -/

/-- `Uint::cmp_vartime`: scans from the top limb and RETURNS at the first difference. -/
def cmpVartime (n : Nat) (a b : List Sec) : L Sec :=
  (whileFuel n (fun st => do
      -- st = (i+1, result); stop when i+1 = 0
      if st.1 = 0 then pure none else do
        let i := st.1 - 1
        pubIndex i
        let d := (Sec.sbb (limb a i) (limb b i) zero)
        let ne ← branchOn d.1               -- `if val.0 != 0 { return … }`
        if ne then do
          let lt ← branchOn d.2             -- `if borrow.0 != 0 { Less } else { Greater }`
          pure (some (0, if lt then Sec.max else one))
        else pure (some (i, zero))) (n, zero)) >>= fun st => pure st.2

/-- An equality test with an early exit — what `Uint::eq` must NOT be. -/
def eqEarlyExit (n : Nat) (a b : List Sec) : L Bool :=
  (whileFuel n (fun st => do
      if st.1 ≥ n then pure none else do
        pubIndex st.1
        let ne ← branchOn (xor (limb a st.1) (limb b st.1))
        if ne then pure (some (n, false)) else pure (some (st.1 + 1, true))) (0, true)) >>= fun st => pure st.2


/-- a control-flow decision on a PUBLIC condition -/
def pubCond (c : Bool) : L Unit := pubBranch c.toNat

def zeros (n : Nat) : List Sec := List.replicate n zero
/-- `Uint::ONE` -/
def uone (n : Nat) : List Sec := (zeros n).set 0 one

/-! ## Shifts (src/uint/shl.rs, src/uint/shr.rs) -/

/-- `overflowing_shl_vartime`, first loop: `limbs[i] = self.limbs[i - shift_num]` for `i in shift_num..LIMBS` -/
def shlMoveLoop (n shiftNum : Nat) (a : List Sec) : L (List Sec) :=
  forRange shiftNum n (fun i r => do
    pubIndex i; pubIndex (i - shiftNum)
    pure (r.set i (limb a (i - shiftNum)))) (zeros n)

/-- second loop: sub-limb shift with carry, `rem` public and non-zero -/
def shlCarryLoop (n shiftNum rem : Nat) (l : List Sec) : L (List Sec × Sec) :=
  forRange shiftNum n (fun i st => do
    pubIndex i
    pure (st.1.set i (or (shlPub (limb st.1 i) rem) st.2), shrPub (limb st.1 i) (64 - rem))) (l, zero)

/-- `Uint::overflowing_shl_vartime(shift)`: the SHIFT IS PUBLIC; returns (value, is_some mask). -/
def shlVartime (n : Nat) (a : List Sec) (shift : Nat) : L (List Sec × Sec) := do
  pubCond (decide (shift ≥ 64 * n))
  if shift ≥ 64 * n then pure (zeros n, zero) else do
    let l ← shlMoveLoop n (shift / 64) a
    pubCond (decide (shift % 64 = 0))
    if shift % 64 = 0 then pure (l, Sec.max) else do
      let r ← shlCarryLoop n (shift / 64) (shift % 64) l
      pure (r.1, Sec.max)

/-- `overflowing_shr_vartime`, first loop: `limbs[i] = self.limbs[i + shift_num]` for `i < LIMBS - shift_num` -/
def shrMoveLoop (n shiftNum : Nat) (a : List Sec) : L (List Sec) :=
  forN (n - shiftNum) (fun i r => do
    pubIndex i; pubIndex (i + shiftNum)
    pure (r.set i (limb a (i + shiftNum)))) (zeros n)

/-- second loop, `i` from `LIMBS - shift_num` down to 0 -/
def shrCarryLoop (n shiftNum rem : Nat) (l : List Sec) : L (List Sec × Sec) :=
  forDown (n - shiftNum) (fun i st => do
    pubIndex i
    pure (st.1.set i (or (shrPub (limb st.1 i) rem) st.2), shlPub (limb st.1 i) (64 - rem))) (l, zero)

/-- `Uint::overflowing_shr_vartime(shift)`: the SHIFT IS PUBLIC. -/
def shrVartime (n : Nat) (a : List Sec) (shift : Nat) : L (List Sec × Sec) := do
  pubCond (decide (shift ≥ 64 * n))
  if shift ≥ 64 * n then pure (zeros n, zero) else do
    let l ← shrMoveLoop n (shift / 64) a
    pubCond (decide (shift % 64 = 0))
    if shift % 64 = 0 then pure (l, Sec.max) else do
      let r ← shrCarryLoop n (shift / 64) (shift % 64) l
      pure (r.1, Sec.max)

/-- `u32::BITS - (Self::BITS - 1).leading_zeros()`: the number of bits of a shift amount (public) -/
def shiftBits (n : Nat) : Nat := Nat.log2 (64 * n - 1) + 1

/-- the ladder of `overflowing_shl`: for every bit `i` of the SECRET shift, shift by the public amount
`1 << i` and keep the shifted value under the mask of that bit. -/
def shlLadder (n : Nat) (shift : Sec) (a : List Sec) : L (List Sec) :=
  forN (shiftBits n) (fun i r => do
    let sh ← shlVartime n r (2 ^ i)
    uselect n r sh.1 (maskLsb (and (shrPub shift i) one))) a

/-- `Uint::overflowing_shl(shift)` with a SECRET shift: (value, is_some mask). `shl` / `wrapping_shl` wrap it. -/
def overflowingShl (n : Nat) (a : List Sec) (shift : Sec) : L (List Sec × Sec) := do
  let overflow := not (maskLt shift (ofNat (64 * n)))
  let r ← shlLadder n (remConst shift (64 * n)) a
  let z ← uselect n r (zeros n) overflow
  pure (z, not overflow)

def shrLadder (n : Nat) (shift : Sec) (a : List Sec) : L (List Sec) :=
  forN (shiftBits n) (fun i r => do
    let sh ← shrVartime n r (2 ^ i)
    uselect n r sh.1 (maskLsb (and (shrPub shift i) one))) a

/-- `Uint::overflowing_shr(shift)` with a SECRET shift. -/
def overflowingShr (n : Nat) (a : List Sec) (shift : Sec) : L (List Sec × Sec) := do
  let overflow := not (maskLt shift (ofNat (64 * n)))
  let r ← shrLadder n (remConst shift (64 * n)) a
  let z ← uselect n r (zeros n) overflow
  pure (z, not overflow)

/-- loop of `shl_limb` (src/uint/shl.rs:143-164): `i in 1..LIMBS` -/
def shlLimbLoop (n : Nat) (a : List Sec) (lshift rshift nz : Sec) : L (List Sec) :=
  forRange 1 n (fun i r => do
    pubIndex i; pubIndex (i - 1)
    pure (r.set i (or (shl (limb a i) lshift) (and nz (shr (limb a (i - 1)) rshift))))) ((zeros n).set 0 (shl (limb a 0) lshift))

/-- `Uint::shl_limb(shift)`, `shift < 64` SECRET: zero-shift masked by `nz`; returns (value, carry limb). -/
def shlLimb (n : Nat) (a : List Sec) (shift : Sec) : L (List Sec × Sec) := do
  let nz := maskNonzero shift
  let rshift := and nz (sub (ofNat 64) shift)
  let carry := and nz (shr (limb a (n - 1)) (sub (ofNat 64) shift))
  let r ← shlLimbLoop n a shift rshift nz
  pure (r, carry)

/-- `Uint::shr1` -/
def shr1 (n : Nat) (a : List Sec) : L (List Sec) :=
  (forDown n (fun i st => do
    pubIndex i
    pure (st.1.set i (or (shrPub (limb a i) 1) st.2), shlPub (limb a i) 63)) (zeros n, zero)) >>= fun st => pure st.1

/-- `Uint::bitor` -/
def ubitor (n : Nat) (a b : List Sec) : L (List Sec) :=
  forN n (fun i r => do pubIndex i; pure (r ++ [or (limb a i) (limb b i)])) []

/-! ## Bit queries (src/uint/bits.rs) -/

def bitLoop (n : Nat) (a : List Sec) (limbNum mask : Sec) : L Sec :=
  forN n (fun i res => do
    pubIndex i
    pure (or res (and (maskEq (ofNat i) limbNum) (and (limb a i) mask)))) zero

/-- `Uint::bit(index)` with a SECRET index: every limb is read, the right one is kept under a mask. -/
def bit (n : Nat) (a : List Sec) (index : Sec) : L Sec := do
  let r ← bitLoop n a (shrPub index 6) (shl one (and index (ofNat 63)))
  pure (maskLsb (shr r (and index (ofNat 63))))

/-- `Uint::bit_vartime(index)`: the INDEX IS PUBLIC, one limb is read. -/
def bitVartime (n : Nat) (a : List Sec) (index : Nat) : L Sec := do
  pubCond (decide (index / 64 ≥ n))
  if index / 64 ≥ n then pure zero else do
    pubIndex (index / 64)
    pure (and (shrPub (limb a (index / 64)) (index % 64)) one)

def lzLoop (n : Nat) (a : List Sec) : L (Sec × Sec) :=
  forDown n (fun i st => do
    pubIndex i
    pure (add st.1 (and st.2 (lz (limb a i))), and st.2 (not (maskNonzero (limb a i))))) (zero, Sec.max)

/-- `Uint::leading_zeros` -/
def leadingZeros (n : Nat) (a : List Sec) : L Sec := do
  let st ← lzLoop n a
  pure st.1

def tzLoop (n : Nat) (a : List Sec) : L (Sec × Sec) :=
  forN n (fun i st => do
    pubIndex i
    pure (add st.1 (and st.2 (tz (limb a i))), and st.2 (not (maskNonzero (limb a i))))) (zero, Sec.max)

/-- `Uint::trailing_zeros` -/
def trailingZeros (n : Nat) (a : List Sec) : L Sec := do
  let st ← tzLoop n a
  pure st.1

/-- `Uint::bits` = BITS - leading_zeros -/
def bits (n : Nat) (a : List Sec) : L Sec := do
  let z ← leadingZeros n a
  pure (sub (ofNat (64 * n)) z)

/-- `Uint::set_bit(index, bit_value)` with SECRET index and value -/
def setBit (n : Nat) (a : List Sec) (index bitValue : Sec) : L (List Sec) :=
  forN n (fun i r => do
    pubIndex i
    let old := limb r i
    let m := shl one (and index (ofNat 63))
    let new := select (and old (not m)) (or old m) bitValue
    pure (r.set i (select old new (maskEq (ofNat i) (shrPub index 6))))) a

/-- `Uint::bits_vartime`: `while i > 0 && limbs[i] == 0` — documented variable-time in `self`. -/
def bitsVartime (n : Nat) (a : List Sec) : L Sec :=
  (whileFuel n (fun i => do
      pubCond (decide (i > 0))
      if i = 0 then pure none else do
        pubIndex i
        let nzr ← branchOn (limb a i)         -- `limbs[i].0 == 0`
        if nzr then pure none else pure (some (i - 1))) (n - 1)) >>= fun i => do
    pubIndex i
    pure (sub (ofNat (64 * (i + 1))) (lz (limb a i)))

/-! ## Modular add / sub / neg (src/uint/{add_mod,sub_mod,neg_mod}.rs) -/

/-- `Uint::add_mod` -/
def addMod (n : Nat) (a b p : List Sec) : L (List Sec) := do
  let w ← uadc n a b zero
  let w2 ← usbb n w.1 p zero
  let pm ← bitandLimb n p (Sec.sbb w.2 zero w2.2).2
  wrappingAdd n w2.1 pm

/-- `Uint::sub_mod` -/
def subMod (n : Nat) (a b p : List Sec) : L (List Sec) := do
  let o ← usbb n a b zero
  let pm ← bitandLimb n p o.2
  wrappingAdd n o.1 pm

/-- `Uint::sub_mod_with_carry` -/
def subModWithCarry (n : Nat) (a : List Sec) (carry : Sec) (b p : List Sec) : L (List Sec) := do
  let o ← usbb n a b zero
  let pm ← bitandLimb n p (and (not (neg carry)) o.2)
  wrappingAdd n o.1 pm

/-- `Uint::neg_mod`: `z = self.is_nonzero(); ret = p - self; ret[i] = z.if_true_word(ret[i])` -/
def negMod (n : Nat) (a p : List Sec) : L (List Sec) := do
  let z ← isNonzero n a
  let r ← usbb n p a zero
  bitandLimb n r.1 z

/-! ## Schoolbook multiplication (src/uint/mul.rs:21-51) -/

def mulInner (n m i : Nat) (xi : Sec) (b : List Sec) (lohi : List Sec × List Sec) : L ((List Sec × List Sec) × Sec) :=
  forN m (fun j st => do
    pubCond (decide (i + j ≥ n))
    if i + j ≥ n then do
      pubIndex (i + j - n); pubIndex j
      pure ((st.1.1, st.1.2.set (i + j - n) (Sec.mac (limb st.1.2 (i + j - n)) xi (limb b j) st.2).1),
            (Sec.mac (limb st.1.2 (i + j - n)) xi (limb b j) st.2).2)
    else do
      pubIndex (i + j); pubIndex j
      pure ((st.1.1.set (i + j) (Sec.mac (limb st.1.1 (i + j)) xi (limb b j) st.2).1, st.1.2),
            (Sec.mac (limb st.1.1 (i + j)) xi (limb b j) st.2).2)) (lohi, zero)

/-- `schoolbook_multiplication(lhs[n], rhs[m]) -> (lo[n], hi[m])` -/
def mulSchoolbook (n m : Nat) (a b : List Sec) : L (List Sec × List Sec) :=
  forN n (fun i st => do
    pubIndex i
    let r ← mulInner n m i (limb a i) b st
    pubCond (decide (i + m ≥ n))
    if i + m ≥ n then pure (r.1.1, r.1.2.set (i + m - n) r.2)
    else pure (r.1.1.set (i + m) r.2, r.1.2)) (zeros n, zeros m)

/-! ## Single-limb division by reciprocal (src/uint/div_limb.rs) -/

/-- `short_div(dividend, dividend_bits, divisor, divisor_bits)`: shift-and-subtract with masks, the trip
count `dividend_bits - divisor_bits + 1` is a constant. -/
def shortDiv (dividend : Sec) (dbits : Nat) (divisor : Sec) (vbits : Nat) : L Sec :=
  (forDown (dbits - vbits + 1) (fun i st =>
    -- st = (dividend, divisor, quotient)
    pure (select (sub st.1 st.2.1) st.1 (maskLt st.1 st.2.1), shrPub st.2.1 1,
          or st.2.2 (shlPub (and (not (maskLt st.1 st.2.1)) one) i)))
    (dividend, shlPub divisor (dbits - vbits), zero)) >>= fun st => pure st.2.2

/-- `reciprocal(d)` (64-bit): Möller–Granlund Newton iteration, straight-line word arithmetic around `short_div`. -/
def reciprocal (d : Sec) : L Sec := do
  let d0 := and d one
  let d9 := shrPub d 55
  let d40 := add (shrPub d 24) one
  let d63 := add (shrPub d 1) d0
  let v0 ← shortDiv (ofNat (2 ^ 19 - 3 * 2 ^ 8)) 19 d9 9
  let v1 := sub (sub (shlPub v0 11) (shrPub (mul (mul v0 v0) d40) 40)) one
  let v2 := add (shlPub v1 13) (shrPub (mul v1 (sub (ofNat (2 ^ 60)) (mul v1 d40))) 47)
  let e := add (add (sub Sec.max (mul v2 d63)) one) (mul (shrPub v2 1) d0)
  let v3 := add (shlPub v2 31) (shrPub (Sec.mulWide v2 e).2 1)
  let x := add v3 one
  let hi := select d (Sec.mulWide x d).2 (maskNonzero x)
  pure (sub (sub v3 hi) d)

/-- `div2by1(u1, u0, reciprocal)`: quotient and remainder of `(u1:u0) / d`, two masked corrections, no branch. -/
def div2by1 (u1 u0 d recip : Sec) : Sec × Sec :=
  let m := Sec.mulWide recip u1                     -- (lo, hi) = (q0, q1)
  let lo := Sec.adc m.1 u0 zero                      -- addhilo
  let hi := Sec.adc m.2 u1 lo.2
  let q1 := add hi.1 one
  let r := sub u0 (mul q1 d)
  let c1 := maskLt lo.1 r
  let q1' := select q1 (sub q1 one) c1
  let r' := select r (add r d) c1
  let c2 := maskLe d r'
  (select q1' (add q1' one) c2, select r' (sub r' d) c2)

/-- a `WideWord` as (lo, hi); `ConstChoice::from_wide_word_le` -/
def wideLe (a b : Sec × Sec) : Sec := or (maskLt a.2 b.2) (and (maskEq a.2 b.2) (maskLe a.1 b.1))

/-- one of the two correction rounds of `div3by2`; state = (quo, rem as wide word) -/
def div3by2Round (u0 d v0 : Sec) (st : Sec × (Sec × Sec)) : Sec × (Sec × Sec) :=
  let qy := Sec.mulWide st.1 v0
  let done := or (maskNonzero st.2.2) (wideLe qy (u0, st.2.1))   -- rx = (rem << 64) | u0
  let radd := Sec.adc st.2.1 d zero
  (select (sub st.1 one) st.1 done,
   (select radd.1 st.2.1 done, select (add st.2.2 radd.2) st.2.2 done))

/-- `div3by2(u2, u1, u0, reciprocal of d, v0)`: the quotient estimate of Knuth's algorithm D; `while i < 2`. -/
def div3by2 (u2 u1 u0 d recip v0 : Sec) : L Sec := do
  let qMaxed := maskEq u2 d
  let qr := div2by1 (select u2 zero qMaxed) u1 d recip
  let s := Sec.adc u2 u1 zero
  let st0 : Sec × (Sec × Sec) := (select qr.1 Sec.max qMaxed, (select qr.2 s.1 qMaxed, select zero s.2 qMaxed))
  let st ← forN 2 (fun _ st => pure (div3by2Round u0 d v0 st)) st0
  pure st.1

def divRemLimbLoop (n : Nat) (u : List Sec) (d recip r0 : Sec) : L (List Sec × Sec) :=
  forDown n (fun j st => do
    pubIndex j
    pure (st.1.set j (div2by1 st.2 (limb u j) d recip).1, (div2by1 st.2 (limb u j) d recip).2)) (zeros n, r0)

/-- `Uint::div_rem_limb(rhs)`: `Reciprocal::new` (leading_zeros, shift, reciprocal), `shl_limb`, `div2by1` per limb. -/
def divRemLimb (n : Nat) (u : List Sec) (rhs : Sec) : L (List Sec × Sec) := do
  let shift := lz rhs
  let d := shl rhs shift
  let recip ← reciprocal d
  let us ← shlLimb n u shift
  let qr ← divRemLimbLoop n us.1 d recip us.2
  pure (qr.1, shr qr.2 shift)

/-! ## Constant-time Knuth division (src/uint/div.rs:42-130) -/

/-- `while i <= xi`: `x[i] -= quo * y[LIMBS - xi + i - 1]`; state = (x, carry, borrow) -/
def divSubLoop (n xi : Nat) (y : List Sec) (quo : Sec) (x : List Sec) : L (List Sec × Sec × Sec) :=
  forN (xi + 1) (fun i st => do
    pubIndex (n - xi + i - 1); pubIndex i
    let t := Sec.mac zero (limb y (n - xi + i - 1)) quo st.2.1
    let r := Sec.sbb (limb st.1 i) t.1 st.2.2
    pure (st.1.set i r.1, t.2, r.2)) (x, zero, zero)

/-- `while i <= xi`: masked add-back; state = (x, carry) -/
def divAddBackLoop (n xi : Nat) (y : List Sec) (ctBorrow : Sec) (x : List Sec) : L (List Sec × Sec) :=
  forN (xi + 1) (fun i st => do
    pubIndex (n - xi + i - 1); pubIndex i
    let r := Sec.adc (limb st.1 i) (select zero (limb y (n - xi + i - 1)) ctBorrow) st.2
    pure (st.1.set i r.1, r.2)) (x, zero)

/-- one quotient digit; `xi` is the PUBLIC loop counter, `dwords` (secret) only enters masks. State = (x, x_hi, x_lo). -/
def divRemStep (n xi : Nat) (y : List Sec) (d1 recip dwords : Sec) (st : List Sec × Sec × Sec) : L (List Sec × Sec × Sec) := do
  pubIndex (xi - 1); pubIndex (n - 2)
  let q0 ← div3by2 st.2.1 st.2.2 (limb st.1 (xi - 1)) d1 recip (limb y (n - 2))
  let done := maskLt (ofNat xi) (sub dwords one)
  let quo := select q0 zero done
  let s ← divSubLoop n xi y quo st.1
  let ctBorrow := (Sec.sbb st.2.1 s.2.1 s.2.2).2
  let ab ← divAddBackLoop n xi y ctBorrow s.1
  let quo2 := select quo (select (sub quo one) zero (maskEq quo zero)) ctBorrow   -- `quo.saturating_sub(1)`
  pubIndex xi
  pure (ab.1.set xi (select quo2 (limb ab.1 xi) done),
        select (limb ab.1 xi) st.2.1 done,
        select (limb ab.1 (xi - 1)) st.2.2 done)

/-- the main loop `while xi > 0` (xi = LIMBS-1 … 1) -/
def divRemLoop (n : Nat) (y : List Sec) (d1 recip dwords : Sec) (st : List Sec × Sec × Sec) : L (List Sec × Sec × Sec) :=
  forDown (n - 1) (fun k st => divRemStep n (k + 1) y d1 recip dwords st) st

/-- copy-out of the remainder: `i in 1..LIMBS`, two masks per limb -/
def divRemCopyLoop (n : Nat) (x : List Sec) (xHi dwords : Sec) (y : List Sec) : L (List Sec) :=
  forRange 1 n (fun i r => do
    pubIndex i
    pure (r.set i (select (select zero (limb x i) (maskLt (ofNat i) dwords)) xHi (maskEq (ofNat i) (sub dwords one))))) y

/-- `Uint::div_rem(rhs)`, LIMBS ≥ 2, constant-time in both operands.  The bit length of the divisor is
computed (`bits`), but only ever used as a SECRET: shift amounts of ladders and operands of masks. -/
def divRem (n : Nat) (a d : List Sec) : L (List Sec × List Sec) := do
  let dbits ← bits n d
  let dwords := shrPub (add dbits (ofNat 63)) 6
  let lshift := and (sub (ofNat 64) (and dbits (ofNat 63))) (ofNat 63)
  let y ← overflowingShl n d (sub (ofNat (64 * n)) dbits)
  let xs ← shlLimb n a lshift
  let recip ← reciprocal (limb y.1 (n - 1))
  let st ← divRemLoop n y.1 (limb y.1 (n - 1)) recip dwords (xs.1, xs.2, limb xs.1 (n - 1))
  let limbDiv := maskEq one dwords
  let qr := div2by1 (select zero st.2.1 limbDiv) st.2.2 (limb y.1 (n - 1)) recip
  let x0 := select (limb st.1 0) qr.1 limbDiv
  let x := st.1.set 0 x0
  let yr ← divRemCopyLoop n x st.2.1 dwords (y.1.set 0 (select x0 qr.2 limbDiv))
  let q ← overflowingShr n x (shlPub (sub dwords one) 6)
  let r ← overflowingShr n yr lshift
  pure (q.1, r.1)

/-! ## Inversion mod 2^k (src/uint/inv_mod.rs) -/

/-- body shared by both variants: `b = select(b, b - a, x_i).shr1()` -/
def invStepB (n : Nat) (a b : List Sec) : L (List Sec) := do
  let bs ← usbb n b a zero
  let sel ← uselect n b bs.1 (maskLsb (and (limb b 0) one))
  shr1 n sel

/-- `Uint::inv_mod2k(k)`, `k` SECRET: `Self::BITS` iterations, the ones with `i >= k` are dummies whose
result bit is masked out by `within_range`. State = (x, b). -/
def invMod2k (n : Nat) (a : List Sec) (k : Sec) : L (List Sec × Sec) := do
  let isSome := or (not (maskNonzero k)) (maskLsb (and (limb a 0) one))
  let st ← forN (64 * n) (fun i st => do
    let xi := maskLsb (and (limb st.2 0) one)
    let b' ← invStepB n a st.2
    let x' ← setBit n st.1 (ofNat i) (and xi (maskLt (ofNat i) k))
    pure (x', b')) (zeros n, uone n)
  pure (st.1, isSome)

/-- `Uint::inv_mod2k_vartime(k)`: `k` PUBLIC, exactly `k` iterations; the bit is placed with `shl_vartime(i)`. -/
def invMod2kVartime (n : Nat) (a : List Sec) (k : Nat) : L (List Sec × Sec) := do
  let isSome := maskLsb (and (limb a 0) one)
  let st ← forN k (fun i st => do
    let xi := and (limb st.2 0) one
    let b' ← invStepB n a st.2
    let sh ← shlVartime n ((zeros n).set 0 xi) i
    let x' ← ubitor n st.1 sh.1
    pure (x', b')) (zeros n, uone n)
  pure (st.1, isSome)

/-! ## Montgomery multiplication (src/modular/{reduction,mul}.rs) -/

def redcLowerLoop (n i : Nat) (u : Sec) (m lower : List Sec) (carry : Sec) : L (List Sec × Sec) :=
  forRange 1 (n - i) (fun j st => do
    pubIndex (i + j); pubIndex j
    pure (st.1.set (i + j) (Sec.mac (limb st.1 (i + j)) u (limb m j) st.2).1,
          (Sec.mac (limb st.1 (i + j)) u (limb m j) st.2).2)) (lower, carry)

def redcUpperLoop (n i : Nat) (u : Sec) (m upper : List Sec) (carry : Sec) : L (List Sec × Sec) :=
  forRange (n - i) n (fun j st => do
    pubIndex (i + j - n); pubIndex j
    pure (st.1.set (i + j - n) (Sec.mac (limb st.1 (i + j - n)) u (limb m j) st.2).1,
          (Sec.mac (limb st.1 (i + j - n)) u (limb m j) st.2).2)) (upper, carry)

/-- `montgomery_reduction_inner`; state = (lower, upper, meta_carry) -/
def redcInner (n : Nat) (lower upper m : List Sec) (negInv : Sec) : L (List Sec × List Sec × Sec) :=
  forN n (fun i st => do
    pubIndex i
    let u := mul (limb st.1 i) negInv
    let c0 := (Sec.mac (limb st.1 i) u (limb m 0) zero).2
    let lo ← redcLowerLoop n i u m st.1 c0
    let up ← redcUpperLoop n i u m st.2.1 lo.2
    let s := Sec.adc (limb up.1 i) up.2 st.2.2
    pure (lo.1, up.1.set i s.1, s.2)) (lower, upper, zero)

/-- `montgomery_reduction` -/
def montgomeryReduction (n : Nat) (lower upper m : List Sec) (negInv : Sec) : L (List Sec) := do
  let st ← redcInner n lower upper m negInv
  subModWithCarry n st.2.1 st.2.2 m m

/-- `mul_montgomery_form` -/
def mulMont (n : Nat) (a b m : List Sec) (negInv : Sec) : L (List Sec) := do
  let p ← mulSchoolbook n n a b
  montgomeryReduction n p.1 p.2 m negInv

/-! ## Exponentiation (src/modular/pow.rs): fixed 4-bit windows, masked table lookup -/

/-- `compute_powers`: `powers[i] = powers[i-1] * x`, 16 entries -/
def computePowers (n : Nat) (x m one' : List Sec) (negInv : Sec) : L (List (List Sec)) :=
  forRange 2 16 (fun i ps => do
    pubIndex i
    let p ← mulMont n (ps.getD (i - 1) []) x m negInv
    pure (ps.set i p)) ((List.replicate 16 one').set 1 x)

/-- "Constant-time lookup in the array of powers": all 16 entries are read, the right one kept under a mask. -/
def powLookup (n : Nat) (powers : List (List Sec)) (idx : Sec) : L (List Sec) :=
  forRange 1 16 (fun j power => do
    pubIndex j
    uselect n power (powers.getD j []) (maskEq (ofNat j) idx)) (powers.getD 0 [])

/-- the lookup as it must NOT be written: `powers[idx]` -/
def powLookupLeaky (powers : List (List Sec)) (idx : Sec) : L (List Sec) := do
  let j ← indexBy idx
  pure (powers.getD j [])

def squarings (n : Nat) (z m : List Sec) (negInv : Sec) : L (List Sec) :=
  forN 4 (fun _ z => do let p ← mulSchoolbook n n z z; montgomeryReduction n p.1 p.2 m negInv) z

/-- one window: 4 squarings (skipped for the very first window — a PUBLIC condition), lookup, multiply -/
def powWindow (n : Nat) (powers : List (List Sec)) (e m : List Sec) (negInv : Sec)
    (limbNum windowNum : Nat) (first : Bool) (firstMask : Nat) (z : List Sec) : L (List Sec) := do
  pubCond first
  let z1 ← if first then pure z else squarings n z m negInv
  pubIndex limbNum
  let idx0 := and (shrPub (limb e limbNum) (windowNum * 4)) (ofNat 15)
  let idx := if first then and idx0 (ofNat firstMask) else idx0
  let power ← powLookup n powers idx
  mulMont n z1 power m negInv

/-- the two nested window loops: limbs from `sl` down to 0, windows from the top one down to 0 -/
def powLoop (n : Nat) (powers : List (List Sec)) (e m : List Sec) (negInv : Sec) (sl sw fm : Nat) (z : List Sec) : L (List Sec) :=
  forDown (sl + 1) (fun limbNum z =>
    forDown (if limbNum = sl then sw + 1 else 16) (fun windowNum z =>
      powWindow n powers e m negInv limbNum windowNum (decide (limbNum = sl ∧ windowNum = sw)) fm z) z) z

/-- `pow_bounded_exp(exponent, exponent_bits)`: `exponent_bits` is PUBLIC ("this value is leaked in the time
pattern"); base and exponent are secret. -/
def powBoundedExp (n : Nat) (x e : List Sec) (ebits : Nat) (m one' : List Sec) (negInv : Sec) : L (List Sec) := do
  pubCond (decide (ebits = 0))
  if ebits = 0 then pure one' else do
    let powers ← computePowers n x m one' negInv
    powLoop n powers e m negInv ((ebits - 1) / 64) (((ebits - 1) % 64) / 4) (2 ^ (((ebits - 1) % 64) % 4 + 1) - 1) one'

/-- `pow(exponent)` = `pow_bounded_exp(exponent, BITS)` -/
def pow (n : Nat) (x e m one' : List Sec) (negInv : Sec) : L (List Sec) :=
  powBoundedExp n x e (64 * n) m one' negInv

/-! ## Square root, constant-time variant (src/uint/sqrt.rs:10-43) -/

/-- one Newton round; state = (x, x_prev) -/
def sqrtRound (n : Nat) (a : List Sec) (st : List Sec × List Sec) : L (List Sec × List Sec) := do
  let xnz ← isNonzero n st.1
  let d ← uselect n (uone n) st.1 xnz
  let qr ← divRem n a d
  let s ← wrappingAdd n st.1 qr.1
  let h ← shr1 n s
  let x' ← uselect n (zeros n) h xnz
  pure (x', st.1)

/-- `while i < Self::LOG2_BITS + 2` -/
def sqrtLoop (n : Nat) (a : List Sec) (st : List Sec × List Sec) : L (List Sec × List Sec) :=
  forN (Nat.log2 (64 * n) + 2) (fun _ st => sqrtRound n a st) st

/-- `Uint::sqrt`: `LOG2_BITS + 2` rounds, always. -/
def sqrt (n : Nat) (a : List Sec) : L (List Sec) := do
  let b ← bits n a
  let x0 ← overflowingShl n (uone n) (shrPub (add b one) 1)
  let st ← sqrtLoop n a (x0.1, x0.1)
  let gt ← ugt n st.2 st.1
  uselect n st.2 st.1 gt

/-! ## BoxedUint helpers (src/uint/boxed/ct.rs, src/uint/boxed/shl.rs) -/

/-- `BoxedUint::ct_select` (the precision `n` is public) -/
def boxedCtSelect (n : Nat) (a b : List Sec) (c : Sec) : L (List Sec) := uselect n a b c

/-- `BoxedUint::ct_assign`: `self.limbs[i].conditional_assign(&other.limbs[i], choice)` in place -/
def boxedCtAssign (n : Nat) (a b : List Sec) (c : Sec) : L (List Sec) :=
  forN n (fun i r => do pubIndex i; pure (r.set i (select (limb r i) (limb b i) c))) a

/-- `BoxedUint::ct_swap` -/
def boxedCtSwap (n : Nat) (a b : List Sec) (c : Sec) : L (List Sec × List Sec) :=
  forN n (fun i st => do
    pubIndex i
    pure (st.1.set i (select (limb st.1 i) (limb st.2 i) c), st.2.set i (select (limb st.2 i) (limb st.1 i) c))) (a, b)

/-- `BoxedUint::overflowing_shl_assign(shift)` AS WRITTEN (src/uint/boxed/shl.rs:40-62): the precision is a run-time
value, so `shift % self.bits_precision()` is a hardware division with the SECRET shift as dividend. -/
def boxedOverflowingShl (n : Nat) (a : List Sec) (shift : Sec) : L (List Sec × Sec) := do
  let overflow := not (maskLt shift (ofNat (64 * n)))
  let qr ← divBy shift (ofNat (64 * n))
  let r ← shlLadder n qr.2 a
  let z ← uselect n r (zeros n) overflow
  pure (z, not overflow)

/-! ## safegcd `jump` (src/modular/safegcd.rs:265-298): data-dependent at source level -/

/-- The 62 divsteps of one `jump`, on the low words of f and g (the crate keeps g in an i128; the control
structure is the same): every round strips `min(steps, g.trailing_zeros())` zeros — the trip count depends
on g — and branches on `delta > 0`.  State = (steps, f, g, delta); delta as a two's complement word. -/
def jump (f g delta : Sec) : L Sec :=
  (whileFuel 63 (fun st => do
      let tzs ← declassify (tz st.2.2.1)                 -- `g.trailing_zeros()` steers the loop
      let zs := min st.1 tzs
      let steps := st.1 - zs
      let delta := add st.2.2.2 (ofNat zs)
      let g := sarPub st.2.2.1 zs
      pubCond (decide (steps = 0))
      if steps = 0 then pure none else do
        let pos ← branchOn (and (not (maskMsb delta)) (maskNonzero delta))   -- `if delta > 0`
        let f' := if pos then g else st.2.1
        let g' := if pos then neg st.2.1 else g
        let d' := if pos then neg delta else delta
        -- w = (g * (f*3 ^ 28)) & mask ; g += w * f   (mask width min(steps, 1-delta, 5): secret-dependent VALUE only)
        let w := and (mul g' (xor (mul f' (ofNat 3)) (ofNat 28))) (ofNat 31)
        pure (some (steps, f', add g' (mul w f'), d'))) (62, f, g, delta)) >>= fun st => pure st.2.2.2

end CB.Leak
