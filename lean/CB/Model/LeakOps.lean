/-
  CB.Model.LeakOps — the limb-level algorithms of crypto-bigint re-expressed over the leakage vocabulary of
  `CB.Model.Leak` (property C01).  Loop for loop and mask for mask as the Rust source; every loop bound,
  every memory index and every `if` is either computed from PUBLIC data (limb count `n`, public shift
  amounts, exponent bit bound, …: plain `Nat`s, recorded by `pubBranch` / `pubIndex`), or goes through
  `branchOn` / `indexBy` / `divBy` / `declassify` and shows in the trace.

  This file cannot look inside a `Sec` (constructor and field are private to CB.Model.Leak): a function
  below that type-checks without the four leaking primitives cannot depend on a secret in its control flow
  or addressing.  The theorems of `CB/Props/C01.lean` state that per function, for all limb counts.

  Conventions: `n` = LIMBS (public); operands are `List Sec`, read with `limb a i` (out of range = 0);
  pair results are taken with `.1` / `.2`.  Core Lean only.
-/
import CB.Model.Leak
namespace CB.Leak
open Sec

/-! ## Limb (src/limb/{cmp,add,sub,mul}.rs) — single word expressions, no loop, no branch -/

/-- `Limb::ct_eq` / `ConstChoice::from_word_eq` -/
def limbEq (a b : Sec) : L Sec := pure (maskEq a b)
/-- `Limb::ct_lt` / `ConstChoice::from_word_lt` -/
def limbLt (a b : Sec) : L Sec := pure (maskLt a b)
/-- `Limb::select` -/
def limbSelect (a b c : Sec) : L Sec := pure (select a b c)
/-- `Limb::adc` -/
def limbAdc (a b c : Sec) : L (Sec × Sec) := pure (Sec.adc a b c)
/-- `Limb::sbb` -/
def limbSbb (a b c : Sec) : L (Sec × Sec) := pure (Sec.sbb a b c)
/-- `Limb::mac` -/
def limbMac (a b c carry : Sec) : L (Sec × Sec) := pure (Sec.mac a b c carry)
/-- `Limb::bits` = 64 - leading_zeros -/
def limbBits (a : Sec) : L Sec := pure (sub (ofNat 64) (lz a))

/-! ## Uint selection and comparison (src/uint/cmp.rs) -/

/-- `Uint::select(a, b, c)` -/
def uselect (n : Nat) (a b : List Sec) (c : Sec) : L (List Sec) :=
  forN n (fun i r => do pubIndex i; pure (r ++ [select (limb a i) (limb b i) c])) []

/-- `Uint::is_nonzero`: OR of all limbs, then one mask -/
def isNonzero (n : Nat) (a : List Sec) : L Sec := do
  let b ← forN n (fun i acc => do pubIndex i; pure (or acc (limb a i))) zero
  pure (maskNonzero b)

/-- `Uint::eq`: `acc |= lhs[i] ^ rhs[i]` -/
def ueq (n : Nat) (a b : List Sec) : L Sec := do
  let acc ← forN n (fun i acc => do pubIndex i; pure (or acc (xor (limb a i) (limb b i)))) zero
  pure (not (maskNonzero acc))

/-- `Uint::sbb` -/
def usbb (n : Nat) (a b : List Sec) (bw : Sec) : L (List Sec × Sec) :=
  forN n (fun i st => do
    pubIndex i
    pure (st.1 ++ [(Sec.sbb (limb a i) (limb b i) st.2).1], (Sec.sbb (limb a i) (limb b i) st.2).2)) ([], bw)

/-- `Uint::adc` -/
def uadc (n : Nat) (a b : List Sec) (c : Sec) : L (List Sec × Sec) :=
  forN n (fun i st => do
    pubIndex i
    pure (st.1 ++ [(Sec.adc (limb a i) (limb b i) st.2).1], (Sec.adc (limb a i) (limb b i) st.2).2)) ([], c)

/-- `Uint::lt`: the borrow of `lhs - rhs` as a mask -/
def ult (n : Nat) (a b : List Sec) : L Sec := do
  let r ← usbb n a b zero
  pure r.2

/-- `Uint::gt` -/
def ugt (n : Nat) (a b : List Sec) : L Sec := do
  let r ← usbb n b a zero
  pure r.2

/-- `Uint::cmp`: one pass, `diff |= w`, sign from the last borrow; result in {-1,0,1} as a secret word -/
def ucmp (n : Nat) (a b : List Sec) : L Sec := do
  let st ← forN n (fun i st => do
    pubIndex i
    pure ((Sec.sbb (limb b i) (limb a i) st.1).2, or st.2 (Sec.sbb (limb b i) (limb a i) st.1).1)) (zero, zero)
  let sgn := sub (and st.1 (ofNat 2)) one
  pure (mul (and (maskNonzero st.2) one) sgn)

/-- `Uint::carrying_neg`: `!limb + carry` chain -/
def uneg (n : Nat) (a : List Sec) : L (List Sec × Sec) :=
  forN n (fun i st => do
    pubIndex i
    pure (st.1 ++ [(Sec.adc (not (limb a i)) zero st.2).1], (Sec.adc (not (limb a i)) zero st.2).2)) ([], one)

/-- `Uint::wrapping_add` -/
def wrappingAdd (n : Nat) (a b : List Sec) : L (List Sec) := do
  let r ← uadc n a b zero
  pure r.1

/-- `Uint::bitand_limb` -/
def bitandLimb (n : Nat) (a : List Sec) (m : Sec) : L (List Sec) :=
  forN n (fun i r => do pubIndex i; pure (r ++ [and (limb a i) m])) []

/-! ### deliberately leaky comparisons (negative examples / documented vartime) -/

/-- `Uint::cmp_vartime`: scans from the top limb and RETURNS at the first difference. -/
def cmpVartime (n : Nat) (a b : List Sec) : L Sec :=
  (whileFuel n (fun st => do
      -- st = (i+1, result); stop when i+1 = 0
      if st.1 = 0 then pure none else do
        let i := st.1 - 1
        pubIndex i
        let d := (Sec.sbb (limb a i) (limb b i) zero)
        let ne ← branchOn d.1               -- `if val.0 != 0 { return … }`
        if ne then do
          let lt ← branchOn d.2             -- `if borrow.0 != 0 { Less } else { Greater }`
          pure (some (0, if lt then Sec.max else one))
        else pure (some (i, zero))) (n, zero)) >>= fun st => pure st.2

/-- An equality test with an early exit — what `Uint::eq` must NOT be. -/
def eqEarlyExit (n : Nat) (a b : List Sec) : L Bool :=
  (whileFuel n (fun st => do
      if st.1 ≥ n then pure none else do
        pubIndex st.1
        let ne ← branchOn (xor (limb a st.1) (limb b st.1))
        if ne then pure (some (n, false)) else pure (some (st.1 + 1, true))) (0, true)) >>= fun st => pure st.2


/-- a control-flow decision on a PUBLIC condition -/
def pubCond (c : Bool) : L Unit := pubBranch c.toNat

def zeros (n : Nat) : List Sec := List.replicate n zero
/-- `Uint::ONE` -/
def uone (n : Nat) : List Sec := (zeros n).set 0 one

/-! ## Shifts (src/uint/shl.rs, src/uint/shr.rs) -/

/-- `overflowing_shl_vartime`, first loop: `limbs[i] = self.limbs[i - shift_num]` for `i in shift_num..LIMBS` -/
def shlMoveLoop (n shiftNum : Nat) (a : List Sec) : L (List Sec) :=
  forRange shiftNum n (fun i r => do
    pubIndex i; pubIndex (i - shiftNum)
    pure (r.set i (limb a (i - shiftNum)))) (zeros n)

/-- second loop: sub-limb shift with carry, `rem` public and non-zero -/
def shlCarryLoop (n shiftNum rem : Nat) (l : List Sec) : L (List Sec × Sec) :=
  forRange shiftNum n (fun i st => do
    pubIndex i
    pure (st.1.set i (or (shlPub (limb st.1 i) rem) st.2), shrPub (limb st.1 i) (64 - rem))) (l, zero)

/-- `Uint::overflowing_shl_vartime(shift)`: the SHIFT IS PUBLIC; returns (value, is_some mask). -/
def shlVartime (n : Nat) (a : List Sec) (shift : Nat) : L (List Sec × Sec) := do
  pubCond (decide (shift ≥ 64 * n))
  if shift ≥ 64 * n then pure (zeros n, zero) else do
    let l ← shlMoveLoop n (shift / 64) a
    pubCond (decide (shift % 64 = 0))
    if shift % 64 = 0 then pure (l, Sec.max) else do
      let r ← shlCarryLoop n (shift / 64) (shift % 64) l
      pure (r.1, Sec.max)

/-- `overflowing_shr_vartime`, first loop: `limbs[i] = self.limbs[i + shift_num]` for `i < LIMBS - shift_num` -/
def shrMoveLoop (n shiftNum : Nat) (a : List Sec) : L (List Sec) :=
  forN (n - shiftNum) (fun i r => do
    pubIndex i; pubIndex (i + shiftNum)
    pure (r.set i (limb a (i + shiftNum)))) (zeros n)

/-- second loop, `i` from `LIMBS - shift_num` down to 0 -/
def shrCarryLoop (n shiftNum rem : Nat) (l : List Sec) : L (List Sec × Sec) :=
  forDown (n - shiftNum) (fun i st => do
    pubIndex i
    pure (st.1.set i (or (shrPub (limb st.1 i) rem) st.2), shlPub (limb st.1 i) (64 - rem))) (l, zero)

/-- `Uint::overflowing_shr_vartime(shift)`: the SHIFT IS PUBLIC. -/
def shrVartime (n : Nat) (a : List Sec) (shift : Nat) : L (List Sec × Sec) := do
  pubCond (decide (shift ≥ 64 * n))
  if shift ≥ 64 * n then pure (zeros n, zero) else do
    let l ← shrMoveLoop n (shift / 64) a
    pubCond (decide (shift % 64 = 0))
    if shift % 64 = 0 then pure (l, Sec.max) else do
      let r ← shrCarryLoop n (shift / 64) (shift % 64) l
      pure (r.1, Sec.max)

/-- `u32::BITS - (Self::BITS - 1).leading_zeros()`: the number of bits of a shift amount (public) -/
def shiftBits (n : Nat) : Nat := Nat.log2 (64 * n - 1) + 1

/-- the ladder of `overflowing_shl`: for every bit `i` of the SECRET shift, shift by the public amount
`1 << i` and keep the shifted value under the mask of that bit. -/
def shlLadder (n : Nat) (shift : Sec) (a : List Sec) : L (List Sec) :=
  forN (shiftBits n) (fun i r => do
    let sh ← shlVartime n r (2 ^ i)
    uselect n r sh.1 (maskLsb (and (shrPub shift i) one))) a

/-- `Uint::overflowing_shl(shift)` with a SECRET shift: (value, is_some mask). `shl` / `wrapping_shl` wrap it. -/
def overflowingShl (n : Nat) (a : List Sec) (shift : Sec) : L (List Sec × Sec) := do
  let overflow := not (maskLt shift (ofNat (64 * n)))
  let r ← shlLadder n (remConst shift (64 * n)) a
  let z ← uselect n r (zeros n) overflow
  pure (z, not overflow)

def shrLadder (n : Nat) (shift : Sec) (a : List Sec) : L (List Sec) :=
  forN (shiftBits n) (fun i r => do
    let sh ← shrVartime n r (2 ^ i)
    uselect n r sh.1 (maskLsb (and (shrPub shift i) one))) a

/-- `Uint::overflowing_shr(shift)` with a SECRET shift. -/
def overflowingShr (n : Nat) (a : List Sec) (shift : Sec) : L (List Sec × Sec) := do
  let overflow := not (maskLt shift (ofNat (64 * n)))
  let r ← shrLadder n (remConst shift (64 * n)) a
  let z ← uselect n r (zeros n) overflow
  pure (z, not overflow)

/-- loop of `shl_limb` (src/uint/shl.rs:143-164): `i in 1..LIMBS` -/
def shlLimbLoop (n : Nat) (a : List Sec) (lshift rshift nz : Sec) : L (List Sec) :=
  forRange 1 n (fun i r => do
    pubIndex i; pubIndex (i - 1)
    pure (r.set i (or (shl (limb a i) lshift) (and nz (shr (limb a (i - 1)) rshift))))) ((zeros n).set 0 (shl (limb a 0) lshift))

/-- `Uint::shl_limb(shift)`, `shift < 64` SECRET: zero-shift masked by `nz`; returns (value, carry limb). -/
def shlLimb (n : Nat) (a : List Sec) (shift : Sec) : L (List Sec × Sec) := do
  let nz := maskNonzero shift
  let rshift := and nz (sub (ofNat 64) shift)
  let carry := and nz (shr (limb a (n - 1)) (sub (ofNat 64) shift))
  let r ← shlLimbLoop n a shift rshift nz
  pure (r, carry)

/-- `Uint::shr1` -/
def shr1 (n : Nat) (a : List Sec) : L (List Sec) :=
  (forDown n (fun i st => do
    pubIndex i
    pure (st.1.set i (or (shrPub (limb a i) 1) st.2), shlPub (limb a i) 63)) (zeros n, zero)) >>= fun st => pure st.1

/-- `Uint::bitor` -/
def ubitor (n : Nat) (a b : List Sec) : L (List Sec) :=
  forN n (fun i r => do pubIndex i; pure (r ++ [or (limb a i) (limb b i)])) []

/-! ## Bit queries (src/uint/bits.rs) -/

def bitLoop (n : Nat) (a : List Sec) (limbNum mask : Sec) : L Sec :=
  forN n (fun i res => do
    pubIndex i
    pure (or res (and (maskEq (ofNat i) limbNum) (and (limb a i) mask)))) zero

/-- `Uint::bit(index)` with a SECRET index: every limb is read, the right one is kept under a mask. -/
def bit (n : Nat) (a : List Sec) (index : Sec) : L Sec := do
  let r ← bitLoop n a (shrPub index 6) (shl one (and index (ofNat 63)))
  pure (maskLsb (shr r (and index (ofNat 63))))

/-- `Uint::bit_vartime(index)`: the INDEX IS PUBLIC, one limb is read. -/
def bitVartime (n : Nat) (a : List Sec) (index : Nat) : L Sec := do
  pubCond (decide (index / 64 ≥ n))
  if index / 64 ≥ n then pure zero else do
    pubIndex (index / 64)
    pure (and (shrPub (limb a (index / 64)) (index % 64)) one)

def lzLoop (n : Nat) (a : List Sec) : L (Sec × Sec) :=
  forDown n (fun i st => do
    pubIndex i
    pure (add st.1 (and st.2 (lz (limb a i))), and st.2 (not (maskNonzero (limb a i))))) (zero, Sec.max)

/-- `Uint::leading_zeros` -/
def leadingZeros (n : Nat) (a : List Sec) : L Sec := do
  let st ← lzLoop n a
  pure st.1

def tzLoop (n : Nat) (a : List Sec) : L (Sec × Sec) :=
  forN n (fun i st => do
    pubIndex i
    pure (add st.1 (and st.2 (tz (limb a i))), and st.2 (not (maskNonzero (limb a i))))) (zero, Sec.max)

/-- `Uint::trailing_zeros` -/
def trailingZeros (n : Nat) (a : List Sec) : L Sec := do
  let st ← tzLoop n a
  pure st.1

/-- `Uint::bits` = BITS - leading_zeros -/
def bits (n : Nat) (a : List Sec) : L Sec := do
  let z ← leadingZeros n a
  pure (sub (ofNat (64 * n)) z)

/-- `Uint::set_bit(index, bit_value)` with SECRET index and value -/
def setBit (n : Nat) (a : List Sec) (index bitValue : Sec) : L (List Sec) :=
  forN n (fun i r => do
    pubIndex i
    let old := limb r i
    let m := shl one (and index (ofNat 63))
    let new := select (and old (not m)) (or old m) bitValue
    pure (r.set i (select old new (maskEq (ofNat i) (shrPub index 6))))) a

/-- `Uint::bits_vartime`: `while i > 0 && limbs[i] == 0` — documented variable-time in `self`. -/
def bitsVartime (n : Nat) (a : List Sec) : L Sec :=
  (whileFuel n (fun i => do
      pubCond (decide (i > 0))
      if i = 0 then pure none else do
        pubIndex i
        let nzr ← branchOn (limb a i)         -- `limbs[i].0 == 0`
        if nzr then pure none else pure (some (i - 1))) (n - 1)) >>= fun i => do
    pubIndex i
    pure (sub (ofNat (64 * (i + 1))) (lz (limb a i)))

/-! ## Modular add / sub / neg (src/uint/{add_mod,sub_mod,neg_mod}.rs) -/

/-- `Uint::add_mod` -/
def addMod (n : Nat) (a b p : List Sec) : L (List Sec) := do
  let w ← uadc n a b zero
  let w2 ← usbb n w.1 p zero
  let pm ← bitandLimb n p (Sec.sbb w.2 zero w2.2).2
  wrappingAdd n w2.1 pm

/-- `Uint::sub_mod` -/
def subMod (n : Nat) (a b p : List Sec) : L (List Sec) := do
  let o ← usbb n a b zero
  let pm ← bitandLimb n p o.2
  wrappingAdd n o.1 pm

/-- `Uint::sub_mod_with_carry` -/
def subModWithCarry (n : Nat) (a : List Sec) (carry : Sec) (b p : List Sec) : L (List Sec) := do
  let o ← usbb n a b zero
  let pm ← bitandLimb n p (and (not (neg carry)) o.2)
  wrappingAdd n o.1 pm

/-- `Uint::neg_mod`: `z = self.is_nonzero(); ret = p - self; ret[i] = z.if_true_word(ret[i])` -/
def negMod (n : Nat) (a p : List Sec) : L (List Sec) := do
  let z ← isNonzero n a
  let r ← usbb n p a zero
  bitandLimb n r.1 z

/-! ## Schoolbook multiplication (src/uint/mul.rs:21-51) -/

def mulInner (n m i : Nat) (xi : Sec) (b : List Sec) (lohi : List Sec × List Sec) : L ((List Sec × List Sec) × Sec) :=
  forN m (fun j st => do
    pubCond (decide (i + j ≥ n))
    if i + j ≥ n then do
      pubIndex (i + j - n); pubIndex j
      pure ((st.1.1, st.1.2.set (i + j - n) (Sec.mac (limb st.1.2 (i + j - n)) xi (limb b j) st.2).1),
            (Sec.mac (limb st.1.2 (i + j - n)) xi (limb b j) st.2).2)
    else do
      pubIndex (i + j); pubIndex j
      pure ((st.1.1.set (i + j) (Sec.mac (limb st.1.1 (i + j)) xi (limb b j) st.2).1, st.1.2),
            (Sec.mac (limb st.1.1 (i + j)) xi (limb b j) st.2).2)) (lohi, zero)

/-- `schoolbook_multiplication(lhs[n], rhs[m]) -> (lo[n], hi[m])` -/
def mulSchoolbook (n m : Nat) (a b : List Sec) : L (List Sec × List Sec) :=
  forN n (fun i st => do
    pubIndex i
    let r ← mulInner n m i (limb a i) b st
    pubCond (decide (i + m ≥ n))
    if i + m ≥ n then pure (r.1.1, r.1.2.set (i + m - n) r.2)
    else pure (r.1.1.set (i + m) r.2, r.1.2)) (zeros n, zeros m)

/-! ## Single-limb division by reciprocal (src/uint/div_limb.rs) -/

/-- `short_div(dividend, dividend_bits, divisor, divisor_bits)`: shift-and-subtract with masks, the trip
count `dividend_bits - divisor_bits + 1` is a constant. -/
def shortDiv (dividend : Sec) (dbits : Nat) (divisor : Sec) (vbits : Nat) : L Sec :=
  (forDown (dbits - vbits + 1) (fun i st =>
    -- st = (dividend, divisor, quotient)
    pure (select (sub st.1 st.2.1) st.1 (maskLt st.1 st.2.1), shrPub st.2.1 1,
          or st.2.2 (shlPub (and (not (maskLt st.1 st.2.1)) one) i)))
    (dividend, shlPub divisor (dbits - vbits), zero)) >>= fun st => pure st.2.2

/-- `reciprocal(d)` (64-bit): Möller–Granlund Newton iteration, straight-line word arithmetic around `short_div`. -/
def reciprocal (d : Sec) : L Sec := do
  let d0 := and d one
  let d9 := shrPub d 55
  let d40 := add (shrPub d 24) one
  let d63 := add (shrPub d 1) d0
  let v0 ← shortDiv (ofNat (2 ^ 19 - 3 * 2 ^ 8)) 19 d9 9
  let v1 := sub (sub (shlPub v0 11) (shrPub (mul (mul v0 v0) d40) 40)) one
  let v2 := add (shlPub v1 13) (shrPub (mul v1 (sub (ofNat (2 ^ 60)) (mul v1 d40))) 47)
  let e := add (add (sub Sec.max (mul v2 d63)) one) (mul (shrPub v2 1) d0)
  let v3 := add (shlPub v2 31) (shrPub (Sec.mulWide v2 e).2 1)
  let x := add v3 one
  let hi := select d (Sec.mulWide x d).2 (maskNonzero x)
  pure (sub (sub v3 hi) d)

/-- `div2by1(u1, u0, reciprocal)`: quotient and remainder of `(u1:u0) / d`, two masked corrections, no branch. -/
def div2by1 (u1 u0 d recip : Sec) : Sec × Sec :=
  let m := Sec.mulWide recip u1                     -- (lo, hi) = (q0, q1)
  let lo := Sec.adc m.1 u0 zero                      -- addhilo
  let hi := Sec.adc m.2 u1 lo.2
  let q1 := add hi.1 one
  let r := sub u0 (mul q1 d)
  let c1 := maskLt lo.1 r
  let q1' := select q1 (sub q1 one) c1
  let r' := select r (add r d) c1
  let c2 := maskLe d r'
  (select q1' (add q1' one) c2, select r' (sub r' d) c2)

/-- a `WideWord` as (lo, hi); `ConstChoice::from_wide_word_le` -/
def wideLe (a b : Sec × Sec) : Sec := or (maskLt a.2 b.2) (and (maskEq a.2 b.2) (maskLe a.1 b.1))

/-- one of the two correction rounds of `div3by2`; state = (quo, rem as wide word) -/
def div3by2Round (u0 d v0 : Sec) (st : Sec × (Sec × Sec)) : Sec × (Sec × Sec) :=
  let qy := Sec.mulWide st.1 v0
  let done := or (maskNonzero st.2.2) (wideLe qy (u0, st.2.1))   -- rx = (rem << 64) | u0
  let radd := Sec.adc st.2.1 d zero
  (select (sub st.1 one) st.1 done,
   (select radd.1 st.2.1 done, select (add st.2.2 radd.2) st.2.2 done))

/-- `div3by2(u2, u1, u0, reciprocal of d, v0)`: the quotient estimate of Knuth's algorithm D; `while i < 2`. -/
def div3by2 (u2 u1 u0 d recip v0 : Sec) : L Sec := do
  let qMaxed := maskEq u2 d
  let qr := div2by1 (select u2 zero qMaxed) u1 d recip
  let s := Sec.adc u2 u1 zero
  let st0 : Sec × (Sec × Sec) := (select qr.1 Sec.max qMaxed, (select qr.2 s.1 qMaxed, select zero s.2 qMaxed))
  let st ← forN 2 (fun _ st => pure (div3by2Round u0 d v0 st)) st0
  pure st.1

def divRemLimbLoop (n : Nat) (u : List Sec) (d recip r0 : Sec) : L (List Sec × Sec) :=
  forDown n (fun j st => do
    pubIndex j
    pure (st.1.set j (div2by1 st.2 (limb u j) d recip).1, (div2by1 st.2 (limb u j) d recip).2)) (zeros n, r0)

/-- `Uint::div_rem_limb(rhs)`: `Reciprocal::new` (leading_zeros, shift, reciprocal), `shl_limb`, `div2by1` per limb. -/
def divRemLimb (n : Nat) (u : List Sec) (rhs : Sec) : L (List Sec × Sec) := do
  let shift := lz rhs
  let d := shl rhs shift
  let recip ← reciprocal d
  let us ← shlLimb n u shift
  let qr ← divRemLimbLoop n us.1 d recip us.2
  pure (qr.1, shr qr.2 shift)

/-! ## Constant-time Knuth division (src/uint/div.rs:42-130) -/

/-- `while i <= xi`: `x[i] -= quo * y[LIMBS - xi + i - 1]`; state = (x, carry, borrow) -/
def divSubLoop (n xi : Nat) (y : List Sec) (quo : Sec) (x : List Sec) : L (List Sec × Sec × Sec) :=
  forN (xi + 1) (fun i st => do
    pubIndex (n - xi + i - 1); pubIndex i
    let t := Sec.mac zero (limb y (n - xi + i - 1)) quo st.2.1
    let r := Sec.sbb (limb st.1 i) t.1 st.2.2
    pure (st.1.set i r.1, t.2, r.2)) (x, zero, zero)

/-- `while i <= xi`: masked add-back; state = (x, carry) -/
def divAddBackLoop (n xi : Nat) (y : List Sec) (ctBorrow : Sec) (x : List Sec) : L (List Sec × Sec) :=
  forN (xi + 1) (fun i st => do
    pubIndex (n - xi + i - 1); pubIndex i
    let r := Sec.adc (limb st.1 i) (select zero (limb y (n - xi + i - 1)) ctBorrow) st.2
    pure (st.1.set i r.1, r.2)) (x, zero)

/-- one quotient digit; `xi` is the PUBLIC loop counter, `dwords` (secret) only enters masks. State = (x, x_hi, x_lo). -/
def divRemStep (n xi : Nat) (y : List Sec) (d1 recip dwords : Sec) (st : List Sec × Sec × Sec) : L (List Sec × Sec × Sec) := do
  pubIndex (xi - 1); pubIndex (n - 2)
  let q0 ← div3by2 st.2.1 st.2.2 (limb st.1 (xi - 1)) d1 recip (limb y (n - 2))
  let done := maskLt (ofNat xi) (sub dwords one)
  let quo := select q0 zero done
  let s ← divSubLoop n xi y quo st.1
  let ctBorrow := (Sec.sbb st.2.1 s.2.1 s.2.2).2
  let ab ← divAddBackLoop n xi y ctBorrow s.1
  let quo2 := select quo (select (sub quo one) zero (maskEq quo zero)) ctBorrow   -- `quo.saturating_sub(1)`
  pubIndex xi
  pure (ab.1.set xi (select quo2 (limb ab.1 xi) done),
        select (limb ab.1 xi) st.2.1 done,
        select (limb ab.1 (xi - 1)) st.2.2 done)

/-- the main loop `while xi > 0` (xi = LIMBS-1 … 1) -/
def divRemLoop (n : Nat) (y : List Sec) (d1 recip dwords : Sec) (st : List Sec × Sec × Sec) : L (List Sec × Sec × Sec) :=
  forDown (n - 1) (fun k st => divRemStep n (k + 1) y d1 recip dwords st) st

/-- copy-out of the remainder: `i in 1..LIMBS`, two masks per limb -/
def divRemCopyLoop (n : Nat) (x : List Sec) (xHi dwords : Sec) (y : List Sec) : L (List Sec) :=
  forRange 1 n (fun i r => do
    pubIndex i
    pure (r.set i (select (select zero (limb x i) (maskLt (ofNat i) dwords)) xHi (maskEq (ofNat i) (sub dwords one))))) y

/-- `Uint::div_rem(rhs)`, LIMBS ≥ 2, constant-time in both operands.  The bit length of the divisor is
computed (`bits`), but only ever used as a SECRET: shift amounts of ladders and operands of masks. -/
def divRem (n : Nat) (a d : List Sec) : L (List Sec × List Sec) := do
  let dbits ← bits n d
  let dwords := shrPub (add dbits (ofNat 63)) 6
  let lshift := and (sub (ofNat 64) (and dbits (ofNat 63))) (ofNat 63)
  let y ← overflowingShl n d (sub (ofNat (64 * n)) dbits)
  let xs ← shlLimb n a lshift
  let recip ← reciprocal (limb y.1 (n - 1))
  let st ← divRemLoop n y.1 (limb y.1 (n - 1)) recip dwords (xs.1, xs.2, limb xs.1 (n - 1))
  let limbDiv := maskEq one dwords
  let qr := div2by1 (select zero st.2.1 limbDiv) st.2.2 (limb y.1 (n - 1)) recip
  let x0 := select (limb st.1 0) qr.1 limbDiv
  let x := st.1.set 0 x0
  let yr ← divRemCopyLoop n x st.2.1 dwords (y.1.set 0 (select x0 qr.2 limbDiv))
  let q ← overflowingShr n x (shlPub (sub dwords one) 6)
  let r ← overflowingShr n yr lshift
  pure (q.1, r.1)

/-! ## Inversion mod 2^k (src/uint/inv_mod.rs) -/

/-- body shared by both variants: `b = select(b, b - a, x_i).shr1()` -/
def invStepB (n : Nat) (a b : List Sec) : L (List Sec) := do
  let bs ← usbb n b a zero
  let sel ← uselect n b bs.1 (maskLsb (and (limb b 0) one))
  shr1 n sel

/-- `Uint::inv_mod2k(k)`, `k` SECRET: `Self::BITS` iterations, the ones with `i >= k` are dummies whose
result bit is masked out by `within_range`. State = (x, b). -/
def invMod2k (n : Nat) (a : List Sec) (k : Sec) : L (List Sec × Sec) := do
  let isSome := or (not (maskNonzero k)) (maskLsb (and (limb a 0) one))
  let st ← forN (64 * n) (fun i st => do
    let xi := maskLsb (and (limb st.2 0) one)
    let b' ← invStepB n a st.2
    let x' ← setBit n st.1 (ofNat i) (and xi (maskLt (ofNat i) k))
    pure (x', b')) (zeros n, uone n)
  pure (st.1, isSome)

/-- `Uint::inv_mod2k_vartime(k)`: `k` PUBLIC, exactly `k` iterations; the bit is placed with `shl_vartime(i)`. -/
def invMod2kVartime (n : Nat) (a : List Sec) (k : Nat) : L (List Sec × Sec) := do
  let isSome := or (not (maskNonzero (ofNat k))) (maskLsb (and (limb a 0) one))
  let st ← forN k (fun i st => do
    let xi := and (limb st.2 0) one
    let b' ← invStepB n a st.2
    let sh ← shlVartime n ((zeros n).set 0 xi) i
    let shv ← uselect n (zeros n) sh.1 sh.2          -- `.unwrap_or(Self::ZERO)`: rounds `i >= BITS` contribute nothing
    let x' ← ubitor n st.1 shv
    pure (x', b')) (zeros n, uone n)
  pure (st.1, isSome)

/-! ## Montgomery reduction (src/modular/reduction.rs) -/

def redcLowerLoop (n i : Nat) (u : Sec) (m lower : List Sec) (carry : Sec) : L (List Sec × Sec) :=
  forRange 1 (n - i) (fun j st => do
    pubIndex (i + j); pubIndex j
    pure (st.1.set (i + j) (Sec.mac (limb st.1 (i + j)) u (limb m j) st.2).1,
          (Sec.mac (limb st.1 (i + j)) u (limb m j) st.2).2)) (lower, carry)

def redcUpperLoop (n i : Nat) (u : Sec) (m upper : List Sec) (carry : Sec) : L (List Sec × Sec) :=
  forRange (n - i) n (fun j st => do
    pubIndex (i + j - n); pubIndex j
    pure (st.1.set (i + j - n) (Sec.mac (limb st.1 (i + j - n)) u (limb m j) st.2).1,
          (Sec.mac (limb st.1 (i + j - n)) u (limb m j) st.2).2)) (upper, carry)

/-- `montgomery_reduction_inner`; state = (lower, upper, meta_carry) -/
def redcInner (n : Nat) (lower upper m : List Sec) (negInv : Sec) : L (List Sec × List Sec × Sec) :=
  forN n (fun i st => do
    pubIndex i
    let u := mul (limb st.1 i) negInv
    let c0 := (Sec.mac (limb st.1 i) u (limb m 0) zero).2
    let lo ← redcLowerLoop n i u m st.1 c0
    let up ← redcUpperLoop n i u m st.2.1 lo.2
    let s := Sec.adc (limb up.1 i) up.2 st.2.2
    pure (lo.1, up.1.set i s.1, s.2)) (lower, upper, zero)

/-- `montgomery_reduction` -/
def montgomeryReduction (n : Nat) (lower upper m : List Sec) (negInv : Sec) : L (List Sec) := do
  let st ← redcInner n lower upper m negInv
  subModWithCarry n st.2.1 st.2.2 m m

/-! ## Square root, constant-time variant (src/uint/sqrt.rs:10-43) -/

/-- one Newton round; state = (x, x_prev) -/
def sqrtRound (n : Nat) (a : List Sec) (st : List Sec × List Sec) : L (List Sec × List Sec) := do
  let xnz ← isNonzero n st.1
  let d ← uselect n (uone n) st.1 xnz
  let qr ← divRem n a d
  let s ← wrappingAdd n st.1 qr.1
  let h ← shr1 n s
  let x' ← uselect n (zeros n) h xnz
  pure (x', st.1)

/-- `while i < Self::LOG2_BITS + 2` -/
def sqrtLoop (n : Nat) (a : List Sec) (st : List Sec × List Sec) : L (List Sec × List Sec) :=
  forN (Nat.log2 (64 * n) + 2) (fun _ st => sqrtRound n a st) st

/-- `Uint::sqrt`: `LOG2_BITS + 2` rounds, always. -/
def sqrt (n : Nat) (a : List Sec) : L (List Sec) := do
  let b ← bits n a
  let x0 ← overflowingShl n (uone n) (shrPub (add b one) 1)
  let st ← sqrtLoop n a (x0.1, x0.1)
  let gt ← ugt n st.2 st.1
  uselect n st.2 st.1 gt

/-! ## BoxedUint helpers (src/uint/boxed/ct.rs, src/uint/boxed/shl.rs) -/

/-- `BoxedUint::ct_select` (the precision `n` is public) -/
def boxedCtSelect (n : Nat) (a b : List Sec) (c : Sec) : L (List Sec) := uselect n a b c

/-- `BoxedUint::ct_assign`: `self.limbs[i].conditional_assign(&other.limbs[i], choice)` in place -/
def boxedCtAssign (n : Nat) (a b : List Sec) (c : Sec) : L (List Sec) :=
  forN n (fun i r => do pubIndex i; pure (r.set i (select (limb r i) (limb b i) c))) a

/-- `BoxedUint::ct_swap` -/
def boxedCtSwap (n : Nat) (a b : List Sec) (c : Sec) : L (List Sec × List Sec) :=
  forN n (fun i st => do
    pubIndex i
    pure (st.1.set i (select (limb st.1 i) (limb st.2 i) c), st.2.set i (select (limb st.2 i) (limb st.1 i) c))) (a, b)

/-- `BoxedUint::overflowing_shl_assign(shift)` AS WRITTEN (src/uint/boxed/shl.rs:40-62): the precision is a run-time
value, so `shift % self.bits_precision()` is a hardware division with the SECRET shift as dividend. -/
def boxedOverflowingShl (n : Nat) (a : List Sec) (shift : Sec) : L (List Sec × Sec) := do
  let overflow := not (maskLt shift (ofNat (64 * n)))
  let qr ← divBy shift (ofNat (64 * n))
  let r ← shlLadder n qr.2 a
  let z ← uselect n r (zeros n) overflow
  pure (z, not overflow)

/-! ## safegcd `jump` (src/modular/safegcd.rs:265-298): data-dependent at source level -/

/-- The 62 divsteps of one `jump`, on the low words of f and g (the crate keeps g in an i128; the control
structure is the same): every round strips `min(steps, g.trailing_zeros())` zeros — the trip count depends
on g — and branches on `delta > 0`.  State = (steps, f, g, delta); delta as a two's complement word. -/
def jump (f g delta : Sec) : L Sec :=
  (whileFuel 63 (fun st => do
      let tzs ← declassify (tz st.2.2.1)                 -- `g.trailing_zeros()` steers the loop
      let zs := min st.1 tzs
      let steps := st.1 - zs
      let delta := add st.2.2.2 (ofNat zs)
      let g := sarPub st.2.2.1 zs
      pubCond (decide (steps = 0))
      if steps = 0 then pure none else do
        let pos ← branchOn (and (not (maskMsb delta)) (maskNonzero delta))   -- `if delta > 0`
        let f' := if pos then g else st.2.1
        let g' := if pos then neg st.2.1 else g
        let d' := if pos then neg delta else delta
        -- w = (g * (f*3 ^ 28)) & mask ; g += w * f   (mask width min(steps, 1-delta, 5): secret-dependent VALUE only)
        let w := and (mul g' (xor (mul f' (ofNat 3)) (ofNat 28))) (ofNat 31)
        pure (some (steps, f', add g' (mul w f'), d'))) (62, f, g, delta)) >>= fun st => pure st.2.2.2


/-! # Extension round (G5): algorithms that were "observed only" so far -/

/-! ## Uint bitwise / negation helpers (src/uint/{bit_not,bit_xor,neg,sub}.rs) -/

/-- `Uint::not` -/
def unot (n : Nat) (a : List Sec) : L (List Sec) :=
  forN n (fun i r => do pubIndex i; pure (r ++ [not (limb a i)])) []

/-- `Uint::bitxor` -/
def ubitxor (n : Nat) (a b : List Sec) : L (List Sec) :=
  forN n (fun i r => do pubIndex i; pure (r ++ [xor (limb a i) (limb b i)])) []

/-- `Uint::wrapping_sub` -/
def wrappingSub (n : Nat) (a b : List Sec) : L (List Sec) := do
  let r ← usbb n a b zero
  pure r.1

/-- `Uint::wrapping_neg` = `carrying_neg().0` -/
def wrappingNeg (n : Nat) (a : List Sec) : L (List Sec) := do
  let r ← uneg n a
  pure r.1

/-- `Uint::wrapping_neg_if(negate)` = `select(self, self.wrapping_neg(), negate)` -/
def wrappingNegIf (n : Nat) (a : List Sec) (c : Sec) : L (List Sec) := do
  let ng ← wrappingNeg n a
  uselect n a ng c

/-- `Uint::lte` = `gt(lhs, rhs).not()` -/
def ulte (n : Nat) (a b : List Sec) : L Sec := do
  let g ← ugt n a b
  pure (not g)

/-! ## concat / split / resize (src/uint/{concat,split,resize}.rs): only PUBLIC lengths steer them -/

/-- `Uint::concat_mixed(lo: Uint<l>, hi: Uint<h>) -> Uint<o>` -/
def concatMixed (l h o : Nat) (lo hi : List Sec) : L (List Sec) :=
  forN (min (l + h) o) (fun i r => do
    pubCond (decide (i < l))
    if i < l then do pubIndex i; pure (r.set i (limb lo i))
    else do pubIndex (i - l); pure (r.set i (limb hi (i - l)))) (zeros o)

/-- `Uint::<n>::split_mixed::<l, h>` -/
def splitMixed (n l h : Nat) (a : List Sec) : L (List Sec × List Sec) :=
  forN (min (l + h) n) (fun i st => do
    pubCond (decide (i < l))
    pubIndex i
    if i < l then pure (st.1.set i (limb a i), st.2) else pure (st.1, st.2.set (i - l) (limb a i))) (zeros l, zeros h)

/-- `Uint::<n>::resize::<t>` -/
def resize (n t : Nat) (a : List Sec) : L (List Sec) :=
  forN (min t n) (fun i r => do pubIndex i; pure (r.set i (limb a i))) (zeros t)

/-! ## Schoolbook squaring (src/uint/mul.rs:57-130) -/

/-- inner loop `while j < i` (`k = i + j`): mac into `lo` or `hi`; state = ((lo, hi), carry) -/
def sqInner (n i : Nat) (xi : Sec) (a : List Sec) (lohi : List Sec × List Sec) : L ((List Sec × List Sec) × Sec) :=
  forN i (fun j st => do
    pubCond (decide (i + j ≥ n))
    if i + j ≥ n then do
      pubIndex (i + j - n); pubIndex j
      pure ((st.1.1, st.1.2.set (i + j - n) (Sec.mac (limb st.1.2 (i + j - n)) xi (limb a j) st.2).1),
            (Sec.mac (limb st.1.2 (i + j - n)) xi (limb a j) st.2).2)
    else do
      pubIndex (i + j); pubIndex j
      pure ((st.1.1.set (i + j) (Sec.mac (limb st.1.1 (i + j)) xi (limb a j) st.2).1, st.1.2),
            (Sec.mac (limb st.1.1 (i + j)) xi (limb a j) st.2).2)) (lohi, zero)

/-- first phase: the strict lower triangle of the grid, `i in 1..n`; the row carry goes to position `2i` -/
def sqTriangle (n : Nat) (a : List Sec) : L (List Sec × List Sec) :=
  forRange 1 n (fun i st => do
    pubIndex i
    let r ← sqInner n i (limb a i) a st
    pubCond (decide (2 * i < n))
    if 2 * i < n then pure (r.1.1.set (2 * i) r.2, r.1.2)
    else pure (r.1.1, r.1.2.set (2 * i - n) r.2)) (zeros n, zeros n)

/-- one pass of the special-purpose `shl 1`: `(w[i], carry) = ((w[i] << 1) | carry, w[i] >> 63)` for `i < cnt` -/
def sqDoubleLoop (cnt : Nat) (w : List Sec) (c : Sec) : L (List Sec × Sec) :=
  forN cnt (fun i st => do
    pubIndex i
    pure (st.1.set i (or (shlPub (limb st.1 i) 1) st.2), shrPub (limb st.1 i) 63)) (w, c)

/-- second phase: double `lo`, then `hi[..n-1]`, then `hi[n-1] = carry` -/
def sqDouble (n : Nat) (lohi : List Sec × List Sec) : L (List Sec × List Sec) := do
  let lo ← sqDoubleLoop n lohi.1 zero
  let hi ← sqDoubleLoop (n - 1) lohi.2 lo.2
  pubIndex (n - 1)
  pure (lo.1, hi.1.set (n - 1) hi.2)

/-- third phase: the diagonal `x_i²` at position `2i`, its carry added at `2i + 1`; state = ((lo, hi), carry) -/
def sqDiagonal (n : Nat) (a : List Sec) (lohi : List Sec × List Sec) : L (List Sec × List Sec) :=
  (forN n (fun i st => do
    pubIndex i
    pubCond (decide (2 * i < n))
    let s1 ← if 2 * i < n then do
        pubIndex (2 * i)
        pure ((st.1.1.set (2 * i) (Sec.mac (limb st.1.1 (2 * i)) (limb a i) (limb a i) st.2).1, st.1.2),
              (Sec.mac (limb st.1.1 (2 * i)) (limb a i) (limb a i) st.2).2)
      else do
        pubIndex (2 * i - n)
        pure ((st.1.1, st.1.2.set (2 * i - n) (Sec.mac (limb st.1.2 (2 * i - n)) (limb a i) (limb a i) st.2).1),
              (Sec.mac (limb st.1.2 (2 * i - n)) (limb a i) (limb a i) st.2).2)
    pubCond (decide (2 * i + 1 < n))
    if 2 * i + 1 < n then do
      pubIndex (2 * i + 1)
      pure ((s1.1.1.set (2 * i + 1) (Sec.adc (limb s1.1.1 (2 * i + 1)) s1.2 zero).1, s1.1.2),
            (Sec.adc (limb s1.1.1 (2 * i + 1)) s1.2 zero).2)
    else do
      pubIndex (2 * i + 1 - n)
      pure ((s1.1.1, s1.1.2.set (2 * i + 1 - n) (Sec.adc (limb s1.1.2 (2 * i + 1 - n)) s1.2 zero).1),
            (Sec.adc (limb s1.1.2 (2 * i + 1 - n)) s1.2 zero).2)) (lohi, zero)) >>= fun st => pure st.1

/-- `schoolbook_squaring(limbs[n]) -> (lo[n], hi[n])` (`uint_square_limbs`, `square_limbs`) -/
def squareSchoolbook (n : Nat) (a : List Sec) : L (List Sec × List Sec) := do
  let t ← sqTriangle n a
  let d ← sqDouble n t
  sqDiagonal n a d

/-! ## Fixed-size Karatsuba (src/uint/mul/karatsuba.rs:37-172) and the size dispatch of `split_mul` / `square_wide` -/

/-- the two interleaved borrow chains `l0 = x0 - x1`, `l1 = y1 - y0` (one loop); state = (l0, l0b, l1, l1b) -/
def karaDiffLoop (h : Nat) (x0 x1 y0 y1 : List Sec) : L (List Sec × Sec × List Sec × Sec) :=
  forN h (fun i st => do
    pubIndex i
    pure (st.1 ++ [(Sec.sbb (limb x0 i) (limb x1 i) st.2.1).1], (Sec.sbb (limb x0 i) (limb x1 i) st.2.1).2,
          st.2.2.1 ++ [(Sec.sbb (limb y1 i) (limb y0 i) st.2.2.2).1], (Sec.sbb (limb y1 i) (limb y0 i) st.2.2.2).2))
    ([], zero, [], zero)

/-- `Uint::select(&r, &r.not(), c)` -/
def notIf (h : Nat) (r : List Sec) (c : Sec) : L (List Sec) := do
  let nr ← unot h r
  uselect h r nr c

/-- the `reduce $full_size, $half_size` body of `UintKaratsubaMul::multiply`; `h` = `$half_size`,
`mulHalf` = `UintKaratsubaMul::<$half_size>::multiply`.  |x0−x1|, |y1−y0|, the sign mask `z1_neg`, ones' complement of
`z1·b` plus carry-in 1, then the adc chain — every decision is a mask. -/
def karaMulStep (h : Nat) (mulHalf : List Sec → List Sec → L (List Sec × List Sec)) (lhs rhs : List Sec) :
    L (List Sec × List Sec) := do
  let d ← karaDiffLoop h (lhs.take h) (lhs.drop h) (rhs.take h) (rhs.drop h)
  let l0n ← wrappingNeg h d.1
  let l0 ← uselect h d.1 l0n d.2.1
  let l1n ← wrappingNeg h d.2.2.1
  let l1 ← uselect h d.2.2.1 l1n d.2.2.2
  let z1 ← mulHalf l0 l1
  let z1neg := xor d.2.1 d.2.2.2
  let r0 ← notIf h (zeros h) z1neg
  let r1 ← notIf h z1.1 z1neg
  let r2 ← notIf h z1.2 z1neg
  let r3 ← notIf h (zeros h) z1neg
  let z0 ← mulHalf (lhs.take h) (rhs.take h)
  let z2 ← mulHalf (lhs.drop h) (rhs.drop h)
  let a0 ← uadc h r0 z0.1 (select zero one z1neg)
  let a1 ← uadc h r1 z0.2 a0.2
  let a2 ← uadc h a1.1 z0.1 zero
  let a3 ← uadc h r2 z0.2 (add a1.2 a2.2)
  let a4 ← uadc h a2.1 z2.1 zero
  let a5 ← uadc h a3.1 z2.2 a4.2
  let a6 ← uadc h a5.1 z2.1 zero
  let a7 ← uadc h r3 z2.2 (add (add a3.2 a5.2) a6.2)
  let lo ← concatMixed h h (2 * h) a0.1 a4.1
  let hi ← concatMixed h h (2 * h) a6.1 a7.1
  pure (lo, hi)

/-- the `reduce $full_size, $half_size` body of `UintKaratsubaMul::square` -/
def karaSqStep (h : Nat) (sqHalf : List Sec → L (List Sec × List Sec)) (limbs : List Sec) : L (List Sec × List Sec) := do
  let z0 ← sqHalf (limbs.take h)
  let z2 ← sqHalf (limbs.drop h)
  let a0 ← uadc h z0.2 z0.1 zero
  let a1 ← uadc h z0.2 z2.1 a0.2
  let a2 ← uadc h a0.1 z2.1 zero
  let a3 ← uadc h a1.1 z2.2 a2.2
  let a4 ← uadc h z2.2 (zeros h) (add a1.2 a3.2)
  let s0 ← usbb h (limbs.take h) (limbs.drop h) zero
  let l0n ← wrappingNeg h s0.1
  let l0 ← uselect h s0.1 l0n s0.2
  let z1 ← sqHalf l0
  let b1 ← usbb h a2.1 z1.1 zero
  let b2 ← usbb h a3.1 z1.2 b1.2
  let b3 ← usbb h a4.1 (zeros h) b2.2
  let lo ← concatMixed h h (2 * h) z0.1 b1.1
  let hi ← concatMixed h h (2 * h) b2.1 b3.1
  pure (lo, hi)

/-- `impl_uint_karatsuba_multiplication!(128, 64, 32, 16, 8)` -/
def karaMulSizes : List Nat := [128, 64, 32, 16, 8]
/-- `impl_uint_karatsuba_squaring!(128, 64, 32)` -/
def karaSqSizes : List Nat := [128, 64, 32]
/-- the `if LIMBS == …` tests of `Uint::split_mul` / `Uint::square_wide` -/
def splitMulDispatchSizes : List Nat := [128, 64, 32, 16]
def squareWideDispatchSizes : List Nat := [128, 64]

/-- `UintKaratsubaMul::<chain.head>::multiply` as the macro generates it: `full, half, rest…` ⇒ the reduce body over
`half`; a single size ⇒ `uint_mul_limbs`.  The recursion follows the (public, compile-time) chain of sizes. -/
def karaMulChain : List Nat → List Sec → List Sec → L (List Sec × List Sec)
  | _ :: half :: rest, x, y => karaMulStep half (karaMulChain (half :: rest)) x y
  | [s], x, y => mulSchoolbook s s x y
  | [], _, _ => pure ([], [])

def karaSqChain : List Nat → List Sec → L (List Sec × List Sec)
  | _ :: half :: rest, x => karaSqStep half (karaSqChain (half :: rest)) x
  | [s], x => squareSchoolbook s x
  | [], _ => pure ([], [])

/-- the part of a chain starting at size `n` -/
def chainFrom (n : Nat) : List Nat → List Nat
  | [] => []
  | s :: rest => if s = n then s :: rest else chainFrom n rest

/-- `Uint::<n>::split_mul::<m>`: Karatsuba for equal sizes 16/32/64/128 (`a.resize()` is the no-op copy), else schoolbook.
The dispatch is on the two (public) limb counts. -/
def splitMul (n m : Nat) (a b : List Sec) : L (List Sec × List Sec) := do
  pubCond (decide (n = m ∧ splitMulDispatchSizes.contains n = true))
  if n = m ∧ splitMulDispatchSizes.contains n = true then do
    let p ← karaMulChain (chainFrom n karaMulSizes) a b
    let lo ← resize n n p.1
    let hi ← resize n n p.2
    pure (lo, hi)
  else mulSchoolbook n m a b

/-- `Uint::<n>::square_wide` -/
def squareWide (n : Nat) (a : List Sec) : L (List Sec × List Sec) := do
  pubCond (squareWideDispatchSizes.contains n)
  if squareWideDispatchSizes.contains n = true then do
    let p ← karaSqChain (chainFrom n karaSqSizes) a
    let lo ← resize n n p.1
    let hi ← resize n n p.2
    pure (lo, hi)
  else squareSchoolbook n a

/-- `Uint::wrapping_mul` -/
def wrappingMul (n m : Nat) (a b : List Sec) : L (List Sec) := do
  let p ← splitMul n m a b
  pure p.1

/-- `Uint::checked_mul` (`CheckedMul`): `(lo, hi.is_zero())` -/
def checkedMul (n m : Nat) (a b : List Sec) : L (List Sec × Sec) := do
  let p ← splitMul n m a b
  let nz ← isNonzero m p.2
  pure (p.1, not nz)

/-- `Uint::saturating_mul` -/
def saturatingMul (n m : Nat) (a b : List Sec) : L (List Sec) := do
  let p ← splitMul n m a b
  let nz ← isNonzero m p.2
  uselect n p.1 (List.replicate n Sec.max) nz

/-- `Uint::checked_square` -/
def checkedSquare (n : Nat) (a : List Sec) : L (List Sec × Sec) := do
  let p ← squareWide n a
  let e ← ueq n p.2 (zeros n)
  pure (p.1, e)


/-! ## Montgomery multiplication and exponentiation (src/modular/{mul,pow}.rs) — on top of `split_mul` / `square_wide` -/

/-- `mul_montgomery_form` = `montgomery_reduction(a.split_mul(b))` (Karatsuba at 16/32/64/128 limbs through `split_mul`) -/
def mulMont (n : Nat) (a b m : List Sec) (negInv : Sec) : L (List Sec) := do
  let p ← splitMul n n a b
  montgomeryReduction n p.1 p.2 m negInv

/-- `square_montgomery_form` = `montgomery_reduction(a.square_wide())` -/
def squareMont (n : Nat) (a m : List Sec) (negInv : Sec) : L (List Sec) := do
  let p ← squareWide n a
  montgomeryReduction n p.1 p.2 m negInv

/-! ### Exponentiation (src/modular/pow.rs): fixed 4-bit windows, masked table lookup -/

/-- `compute_powers`: `powers[i] = powers[i-1] * x`, 16 entries -/
def computePowers (n : Nat) (x m one' : List Sec) (negInv : Sec) : L (List (List Sec)) :=
  forRange 2 16 (fun i ps => do
    pubIndex i
    let p ← mulMont n (ps.getD (i - 1) []) x m negInv
    pure (ps.set i p)) ((List.replicate 16 one').set 1 x)

/-- "Constant-time lookup in the array of powers": all 16 entries are read, the right one kept under a mask. -/
def powLookup (n : Nat) (powers : List (List Sec)) (idx : Sec) : L (List Sec) :=
  forRange 1 16 (fun j power => do
    pubIndex j
    uselect n power (powers.getD j []) (maskEq (ofNat j) idx)) (powers.getD 0 [])

/-- the lookup as it must NOT be written: `powers[idx]` -/
def powLookupLeaky (powers : List (List Sec)) (idx : Sec) : L (List Sec) := do
  let j ← indexBy idx
  pure (powers.getD j [])

def squarings (n : Nat) (z m : List Sec) (negInv : Sec) : L (List Sec) :=
  forN 4 (fun _ z => squareMont n z m negInv) z

/-- one window: 4 squarings (skipped for the very first window — a PUBLIC condition), lookup, multiply -/
def powWindow (n : Nat) (powers : List (List Sec)) (e m : List Sec) (negInv : Sec)
    (limbNum windowNum : Nat) (first : Bool) (firstMask : Nat) (z : List Sec) : L (List Sec) := do
  pubCond first
  let z1 ← if first then pure z else squarings n z m negInv
  pubIndex limbNum
  let idx0 := and (shrPub (limb e limbNum) (windowNum * 4)) (ofNat 15)
  let idx := if first then and idx0 (ofNat firstMask) else idx0
  let power ← powLookup n powers idx
  mulMont n z1 power m negInv

/-- the two nested window loops: limbs from `sl` down to 0, windows from the top one down to 0 -/
def powLoop (n : Nat) (powers : List (List Sec)) (e m : List Sec) (negInv : Sec) (sl sw fm : Nat) (z : List Sec) : L (List Sec) :=
  forDown (sl + 1) (fun limbNum z =>
    forDown (if limbNum = sl then sw + 1 else 16) (fun windowNum z =>
      powWindow n powers e m negInv limbNum windowNum (decide (limbNum = sl ∧ windowNum = sw)) fm z) z) z

/-- `pow_bounded_exp(exponent, exponent_bits)`: `exponent_bits` is PUBLIC ("this value is leaked in the time
pattern"); base and exponent are secret. -/
def powBoundedExp (n : Nat) (x e : List Sec) (ebits : Nat) (m one' : List Sec) (negInv : Sec) : L (List Sec) := do
  pubCond (decide (ebits = 0))
  if ebits = 0 then pure one' else do
    let powers ← computePowers n x m one' negInv
    powLoop n powers e m negInv ((ebits - 1) / 64) (((ebits - 1) % 64) / 4) (2 ^ (((ebits - 1) % 64) % 4 + 1) - 1) one'

/-- `pow(exponent)` = `pow_bounded_exp(exponent, BITS)` -/
def pow (n : Nat) (x e m one' : List Sec) (negInv : Sec) : L (List Sec) :=
  powBoundedExp n x e (64 * n) m one' negInv

/-! ## Int (src/int/*.rs): two's complement over the same limbs; every sign decision is a mask -/

/-- `Int::MAX.0`, `Int::MIN.0` (= `SIGN_MASK`), `Int::MINUS_ONE.0`: public constants -/
def intMaxLimbs (n : Nat) : List Sec := (List.replicate n Sec.max).set (n - 1) (ofNat (HALF - 1))
def intMinLimbs (n : Nat) : List Sec := (zeros n).set (n - 1) (ofNat HALF)
def umax (n : Nat) : List Sec := List.replicate n Sec.max

/-- `Int::is_negative`: `from_word_msb(most_significant_word)` -/
def intIsNegative (n : Nat) (a : List Sec) : L Sec := do
  pubIndex (n - 1)
  pure (maskMsb (limb a (n - 1)))

/-- `Int::abs_sign`: `(wrapping_neg_if(sign), sign)` -/
def intAbsSign (n : Nat) (a : List Sec) : L (List Sec × Sec) := do
  let sign ← intIsNegative n a
  let abs ← wrappingNegIf n a sign
  pure (abs, sign)

/-- `Int::new_from_abs_sign(abs, is_negative)`: (value, fits) with
`fits = lte(abs, MAX) | (is_negative & eq(abs, MIN))` -/
def intNewFromAbsSign (n : Nat) (abs : List Sec) (neg : Sec) : L (List Sec × Sec) := do
  let mag ← wrappingNegIf n abs neg
  let le ← ulte n abs (intMaxLimbs n)
  let e ← ueq n abs (intMinLimbs n)
  pure (mag, or le (and neg e))

/-- `Int::overflowing_add`: `(self.msb == rhs.msb) & (self.msb != res.msb)` -/
def intOverflowingAdd (n : Nat) (a b : List Sec) : L (List Sec × Sec) := do
  let res ← wrappingAdd n a b
  let sm ← intIsNegative n a
  let rm ← intIsNegative n b
  let zm ← intIsNegative n res
  pure (res, and (not (xor sm rm)) (xor sm zm))

/-- `Int::checked_add`: (value, is_some) -/
def intCheckedAdd (n : Nat) (a b : List Sec) : L (List Sec × Sec) := do
  let r ← intOverflowingAdd n a b
  pure (r.1, not r.2)

/-- `CheckedSub for Int`: `(self.msb != rhs.msb) & (self.msb != res.msb)` -/
def intCheckedSub (n : Nat) (a b : List Sec) : L (List Sec × Sec) := do
  let res ← wrappingSub n a b
  let sm ← intIsNegative n a
  let rm ← intIsNegative n b
  let zm ← intIsNegative n res
  pure (res, not (and (xor sm rm) (xor sm zm)))

/-- `Int::overflowing_neg` = `(self ^ MAX).overflowing_add(ONE)` -/
def intOverflowingNeg (n : Nat) (a : List Sec) : L (List Sec × Sec) := do
  let x ← ubitxor n a (umax n)
  intOverflowingAdd n x (uone n)

/-- `Int::checked_neg` -/
def intCheckedNeg (n : Nat) (a : List Sec) : L (List Sec × Sec) := do
  let r ← intOverflowingNeg n a
  pure (r.1, not r.2)

/-- `Int::invert_msb` = `bitxor(SIGN_MASK)` -/
def intInvertMsb (n : Nat) (a : List Sec) : L (List Sec) := ubitxor n a (intMinLimbs n)

/-- `Int::lt` / `ct_lt`: unsigned `lt` of the operands with flipped sign bit -/
def intLt (n : Nat) (a b : List Sec) : L Sec := do
  let x ← intInvertMsb n a
  let y ← intInvertMsb n b
  ult n x y
/-- `Int::gt` / `ct_gt` -/
def intGt (n : Nat) (a b : List Sec) : L Sec := do
  let x ← intInvertMsb n a
  let y ← intInvertMsb n b
  ugt n x y
/-- `Int::cmp` / `Ord::cmp` -/
def intCmp (n : Nat) (a b : List Sec) : L Sec := do
  let x ← intInvertMsb n a
  let y ← intInvertMsb n b
  ucmp n x y

/-- `Int::split_mul(rhs: Int<m>)`: sign-magnitude; (lo, hi, negate) -/
def intSplitMul (n m : Nat) (a b : List Sec) : L (List Sec × List Sec × Sec) := do
  let x ← intAbsSign n a
  let y ← intAbsSign m b
  let p ← splitMul n m x.1 y.1
  pure (p.1, p.2, xor x.2 y.2)

/-- subtle's `CtOption::and_then(|int| CtOption::new(int, hi.is_zero()))`: the closure receives
`conditional_select(default, value, is_some)` and the flags are and-ed -/
def intCheckedFromSplit (n m : Nat) (lo hi : List Sec) (neg : Sec) : L (List Sec × Sec) := do
  let v ← intNewFromAbsSign n lo neg
  let sel ← uselect n (zeros n) v.1 v.2
  let hnz ← isNonzero m hi
  pure (sel, and (not hnz) v.2)

/-- `CheckedMul<Int<m>> for Int<n>` -/
def intCheckedMul (n m : Nat) (a b : List Sec) : L (List Sec × Sec) := do
  let p ← intSplitMul n m a b
  intCheckedFromSplit n m p.1 p.2.1 p.2.2

/-- `Int::split_mul_uint` / `CheckedMul<Uint<m>> for Int<n>` -/
def intCheckedMulUint (n m : Nat) (a b : List Sec) : L (List Sec × Sec) := do
  let x ← intAbsSign n a
  let p ← splitMul n m x.1 b
  intCheckedFromSplit n m p.1 p.2 x.2

/-- `Int::widening_mul(rhs: Int<m>) -> Int<n+m>`: `concat_mixed(split_mul).wrapping_neg_if(sign)` -/
def intWideningMul (n m : Nat) (a b : List Sec) : L (List Sec) := do
  let x ← intAbsSign n a
  let y ← intAbsSign m b
  let p ← splitMul n m x.1 y.1
  let w ← concatMixed n m (n + m) p.1 p.2
  wrappingNegIf (n + m) w (xor x.2 y.2)

/-- first loop of `Int::overflowing_shr_vartime`: `limbs[i] = self.limbs[i + shift_num]` into `[base; LIMBS]` -/
def intShrMoveLoop (n shiftNum : Nat) (a : List Sec) (base : Sec) : L (List Sec) :=
  forN (n - shiftNum) (fun i r => do
    pubIndex i; pubIndex (i + shiftNum)
    pure (r.set i (limb a (i + shiftNum)))) (List.replicate n base)

/-- second loop, `while i > 0 { i -= 1; … }` from `LIMBS - shift_num` down -/
def intShrCarryLoop (n shiftNum rem : Nat) (l : List Sec) (carry : Sec) : L (List Sec × Sec) :=
  forDown (n - shiftNum) (fun i st => do
    pubIndex i
    pure (st.1.set i (or (shrPub (limb st.1 i) rem) st.2), shlPub (limb st.1 i) (64 - rem))) (l, carry)

/-- `Int::overflowing_shr_vartime(shift)`, the SHIFT IS PUBLIC: arithmetic shift, the sign only enters as the
fill limb and the first carry (`Limb::select(ZERO, MAX, is_negative)`); (value, is_some) -/
def intShrVartime (n : Nat) (a : List Sec) (shift : Nat) : L (List Sec × Sec) := do
  let neg ← intIsNegative n a
  pubCond (decide (shift ≥ 64 * n))
  if shift ≥ 64 * n then do
    let d ← uselect n (zeros n) (umax n) neg
    pure (d, zero)
  else do
    let l ← intShrMoveLoop n (shift / 64) a (select zero Sec.max neg)
    pubCond (decide (shift % 64 = 0))
    if shift % 64 = 0 then pure (l, Sec.max) else do
      let r ← intShrCarryLoop n (shift / 64) (shift % 64) l
        (xor (select zero Sec.max neg) (shrPub (select zero Sec.max neg) (shift % 64)))
      pure (r.1, Sec.max)

/-- `Int::overflowing_shr(shift)` with a SECRET shift: the ladder over `overflowing_shr_vartime(1 << i)` -/
def intOverflowingShr (n : Nat) (a : List Sec) (shift : Sec) : L (List Sec × Sec) := do
  let r ← forN (shiftBits n) (fun i r => do
    let sh ← intShrVartime n r (2 ^ i)
    uselect n r sh.1 (maskLsb (and (shrPub (remConst shift (64 * n)) i) one))) a
  pure (r, maskLt shift (ofNat (64 * n)))

/-- `Int::wrapping_shr(shift)`: `overflowing_shr(shift).unwrap_or(select(ZERO, MINUS_ONE, is_negative))` -/
def intWrappingShr (n : Nat) (a : List Sec) (shift : Sec) : L (List Sec) := do
  let neg ← intIsNegative n a
  let d ← uselect n (zeros n) (umax n) neg
  let r ← intOverflowingShr n a shift
  uselect n d r.1 r.2

/-- `Uint::div_rem` with its statically determined short circuit for one limb (`div_rem_limb`) -/
def udivRem (n : Nat) (a d : List Sec) : L (List Sec × List Sec) := do
  pubCond (decide (n = 1))
  if n = 1 then do
    pubIndex 0
    let qr ← divRemLimb n a (limb d 0)
    pure (qr.1, [qr.2])
  else divRem n a d

/-- `Int::checked_div_rem(rhs: NonZero<Int>)`: division of the magnitudes, masked re-signing;
(quotient, is_some, remainder) -/
def intCheckedDivRem (n : Nat) (a d : List Sec) : L (List Sec × Sec × List Sec) := do
  let x ← intAbsSign n a
  let y ← intAbsSign n d
  let qr ← udivRem n x.1 y.1
  let q ← intNewFromAbsSign n qr.1 (xor x.2 y.2)
  let r ← wrappingNegIf n qr.2 x.2
  pure (q.1, q.2, r)

/-- `Int::checked_div(rhs: &Int)`: `NonZero::new(rhs).and_then(|rhs| checked_div_rem(rhs).0)` — subtle substitutes
`NonZero::default()` (= ONE) for a zero divisor under a mask; nothing branches on `rhs == 0` -/
def intCheckedDiv (n : Nat) (a d : List Sec) : L (List Sec × Sec) := do
  let z ← ueq n d (zeros n)
  let d' ← uselect n (uone n) d (not z)
  let r ← intCheckedDivRem n a d'
  pure (r.1, and r.2.1 (not z))

/-- `Int::checked_div_rem_floor(rhs: NonZero<Int>)` AS WRITTEN (the remainder is re-signed by `opposing_signs`);
(quotient, is_some, remainder) -/
def intCheckedDivRemFloor (n : Nat) (a d : List Sec) : L (List Sec × Sec × List Sec) := do
  let x ← intAbsSign n a
  let y ← intAbsSign n d
  let qr ← udivRem n x.1 y.1
  let opp := xor x.2 y.2
  let rnz ← isNonzero n qr.2
  let q1 ← wrappingAdd n qr.1 (uone n)
  let q ← uselect n qr.1 q1 (and rnz opp)
  let ir ← wrappingSub n y.1 qr.2
  let r ← uselect n qr.2 ir (and rnz opp)
  let qs ← intNewFromAbsSign n q opp
  let rs ← wrappingNegIf n r opp
  pure (qs.1, qs.2, rs)

/-- `Int::div_rem_uint(rhs: NonZero<Uint>)` -/
def intDivRemUint (n : Nat) (a d : List Sec) : L (List Sec × List Sec) := do
  let x ← intAbsSign n a
  let qr ← udivRem n x.1 d
  let q ← wrappingNegIf n qr.1 x.2
  let r ← wrappingNegIf n qr.2 x.2
  pure (q, r)

/-- `Int::div_rem_floor_uint(rhs: NonZero<Uint>)` -/
def intDivRemFloorUint (n : Nat) (a d : List Sec) : L (List Sec × List Sec) := do
  let x ← intAbsSign n a
  let qr ← udivRem n x.1 d
  let rnz ← isNonzero n qr.2
  let q1 ← wrappingAdd n qr.1 (uone n)
  let q ← uselect n qr.1 q1 (and rnz x.2)
  let ir ← wrappingSub n d qr.2
  let r ← uselect n qr.2 ir (and rnz x.2)
  let qs ← wrappingNegIf n q x.2
  pure (qs, r)


/-! ## BoxedUint arithmetic (src/uint/boxed/*.rs): the precisions `na`, `nb` are PUBLIC (operands have exactly
that many limbs); `get(i).unwrap_or(ZERO)` is a bounds test on the public index -/

/-- `BoxedUint::adc` (`fold_limbs`): `max(na, nb)` limbs, the shorter operand padded with zero limbs -/
def boxedAdc (na nb : Nat) (a b : List Sec) (c : Sec) : L (List Sec × Sec) :=
  forN (max na nb) (fun i st => do
    pubCond (decide (i < na)); pubCond (decide (i < nb)); pubIndex i
    pure (st.1 ++ [(Sec.adc (limb a i) (limb b i) st.2).1], (Sec.adc (limb a i) (limb b i) st.2).2)) ([], c)

/-- `BoxedUint::sbb` (`fold_limbs`) -/
def boxedSbb (na nb : Nat) (a b : List Sec) (bw : Sec) : L (List Sec × Sec) :=
  forN (max na nb) (fun i st => do
    pubCond (decide (i < na)); pubCond (decide (i < nb)); pubIndex i
    pure (st.1 ++ [(Sec.sbb (limb a i) (limb b i) st.2).1], (Sec.sbb (limb a i) (limb b i) st.2).2)) ([], bw)

/-- `BoxedUint::adc_assign(rhs)`: `self` has `n` limbs, `rhs` has `m ≤ n` -/
def boxedAdcAssign (n m : Nat) (a b : List Sec) (c : Sec) : L (List Sec × Sec) :=
  forN n (fun i st => do
    pubCond (decide (i < m)); pubIndex i
    pure (st.1.set i (Sec.adc (limb st.1 i) (limb b i) st.2).1, (Sec.adc (limb st.1 i) (limb b i) st.2).2)) (a, c)

/-- `BoxedUint::sbb_assign(rhs)` -/
def boxedSbbAssign (n m : Nat) (a b : List Sec) (bw : Sec) : L (List Sec × Sec) :=
  forN n (fun i st => do
    pubCond (decide (i < m)); pubIndex i
    pure (st.1.set i (Sec.sbb (limb st.1 i) (limb b i) st.2).1, (Sec.sbb (limb st.1 i) (limb b i) st.2).2)) (a, bw)

/-- `BoxedUint::conditional_adc_assign(rhs, choice)`: `rhs[i] & mask`; returns the carry bit -/
def boxedCondAdcAssign (n m : Nat) (a b : List Sec) (choice : Sec) : L (List Sec × Sec) :=
  (forN n (fun i st => do
    pubCond (decide (i < m)); pubIndex i
    pure (st.1.set i (Sec.adc (limb st.1 i) (and (limb b i) (select zero Sec.max choice)) st.2).1,
          (Sec.adc (limb st.1 i) (and (limb b i) (select zero Sec.max choice)) st.2).2)) (a, zero))
    >>= fun st => pure (st.1, and st.2 one)

/-- `BoxedUint::conditional_sbb_assign(rhs, choice)` -/
def boxedCondSbbAssign (n m : Nat) (a b : List Sec) (choice : Sec) : L (List Sec × Sec) :=
  (forN n (fun i st => do
    pubCond (decide (i < m)); pubIndex i
    pure (st.1.set i (Sec.sbb (limb st.1 i) (and (limb b i) (select zero Sec.max choice)) st.2).1,
          (Sec.sbb (limb st.1 i) (and (limb b i) (select zero Sec.max choice)) st.2).2)) (a, zero))
    >>= fun st => pure (st.1, and st.2 one)

/-- `BoxedUint::wrapping_neg` -/
def boxedWrappingNeg (n : Nat) (a : List Sec) : L (List Sec) := do
  let r ← uneg n a
  pure r.1

/-- `ConditionallyNegatable::conditional_negate`: `wrapping_neg` then `ct_assign` -/
def boxedConditionalNegate (n : Nat) (a : List Sec) (c : Sec) : L (List Sec) := do
  let ng ← boxedWrappingNeg n a
  boxedCtAssign n a ng c

/-- `BoxedUint::is_zero`: `fold(1, |acc, limb| acc & limb.is_zero())` -/
def boxedIsZero (n : Nat) (a : List Sec) : L Sec :=
  forN n (fun i acc => do pubIndex i; pure (and acc (maskEq (limb a i) zero))) Sec.max

/-- `ConstantTimeEq for BoxedUint`: `max(na, nb)` limbs, zero padding, `ret &= a.ct_eq(b)` -/
def boxedCtEq (na nb : Nat) (a b : List Sec) : L Sec :=
  forN (max na nb) (fun i acc => do
    pubCond (decide (i < na)); pubCond (decide (i < nb)); pubIndex i
    pure (and acc (maskEq (limb a i) (limb b i)))) Sec.max

/-- `ConstantTimeLess for BoxedUint`: the borrow of `self.sbb(other)` -/
def boxedCtLt (na nb : Nat) (a b : List Sec) : L Sec := do
  let r ← boxedSbb na nb a b zero
  pure r.2
/-- `ConstantTimeGreater for BoxedUint` -/
def boxedCtGt (na nb : Nat) (a b : List Sec) : L Sec := do
  let r ← boxedSbb nb na b a zero
  pure r.2

/-- `Ord for BoxedUint`: `ret = Equal; ret.conditional_assign(Greater, gt); ret.conditional_assign(Less, lt)`
(result as the `i8` of `Ordering` in a word: 0, 1, MAX) -/
def boxedCmp (na nb : Nat) (a b : List Sec) : L Sec := do
  let g ← boxedCtGt na nb a b
  let l ← boxedCtLt na nb a b
  pure (select (select zero one g) Sec.max l)

/-- `BoxedUint::conditional_set_zero` -/
def boxedCondSetZero (n : Nat) (a : List Sec) (c : Sec) : L (List Sec) :=
  forN n (fun i r => do pubIndex i; pure (r.set i (select (limb r i) zero c))) a

/-- `BoxedUint::shr_vartime_into(dest, shift)`, SHIFT PUBLIC; `dest` arrives zeroed; (dest, success) -/
def boxedShrMoveLoop (n shiftNum : Nat) (a dest : List Sec) : L (List Sec) :=
  forN (n - shiftNum) (fun i r => do
    pubIndex i; pubIndex (i + shiftNum)
    pure (r.set i (limb a (i + shiftNum)))) dest

def boxedShrCarryLoop (n shiftNum rem : Nat) (l : List Sec) : L (List Sec) :=
  forN (n - shiftNum - 1) (fun i r => do
    pubIndex i; pubIndex (i + 1)
    pure (r.set i (or (shrPub (limb r i) rem) (shlPub (limb r (i + 1)) (64 - rem))))) l

def boxedShrVartimeInto (n : Nat) (a dest : List Sec) (shift : Nat) : L (List Sec × Bool) := do
  pubCond (decide (shift ≥ 64 * n))
  if shift ≥ 64 * n then pure (dest, false) else do
    let l ← boxedShrMoveLoop n (shift / 64) a dest
    pubCond (decide (shift % 64 = 0))
    if shift % 64 = 0 then pure (l, true) else do
      let r ← boxedShrCarryLoop n (shift / 64) (shift % 64) l
      pubIndex (n - shift / 64 - 1)
      pure (r.set (n - shift / 64 - 1) (shrPub (limb r (n - shift / 64 - 1)) (shift % 64)), true)

/-- `BoxedUint::overflowing_shr_assign(shift)` AS WRITTEN (src/uint/boxed/shr.rs:30-52): like the left shift it
reduces the SECRET shift with a run-time `%` — a hardware division (finding C01-boxed-shift-modulo-hw-div) -/
def boxedOverflowingShr (n : Nat) (a : List Sec) (shift : Sec) : L (List Sec × Sec) := do
  let overflow := not (maskLt shift (ofNat (64 * n)))
  let qr ← divBy shift (ofNat (64 * n))
  let r ← forN (shiftBits n) (fun i r => do
    let sh ← boxedShrVartimeInto n r (zeros n) (2 ^ i)
    boxedCtAssign n r sh.1 (maskLsb (and (shrPub qr.2 i) one))) a
  let z ← boxedCondSetZero n r overflow
  pure (z, overflow)

/-- `BoxedUint::shr1_assign` -/
def boxedShr1 (n : Nat) (a : List Sec) : L (List Sec) := do
  pubIndex 0
  forRange 1 n (fun i r => do
    pubIndex (i - 1); pubIndex i
    pure ((r.set (i - 1) (or (limb r (i - 1)) (shlPub (and (limb r i) one) 63))).set i (shrPub (limb r i) 1)))
    (a.set 0 (shrPub (limb a 0) 1))

/-- `BoxedUint::add_mod_assign` -/
def boxedAddMod (n : Nat) (a b p : List Sec) : L (List Sec) := do
  let s ← boxedAdcAssign n n a b zero
  let d ← boxedSbbAssign n n s.1 p zero
  let r ← boxedCondAdcAssign n n d.1 p (not (maskEq (Sec.sbb s.2 zero d.2).2 zero))
  pure r.1

/-- `BoxedUint::sub_mod` -/
def boxedSubMod (n : Nat) (a b p : List Sec) : L (List Sec) := do
  let o ← boxedSbb n n a b zero
  let r ← boxedCondAdcAssign n n o.1 p (not (maskEq o.2 zero))
  pure r.1

/-- `BoxedUint::neg_mod`: `ret.limbs[i].conditional_assign(&ZERO, is_zero)` -/
def boxedNegMod (n : Nat) (a p : List Sec) : L (List Sec) := do
  let z ← boxedIsZero n a
  let r ← boxedSbb n n p a zero
  boxedCondSetZero n r.1 z

/-- `BoxedUint::set_bit(index, bit_value)` with SECRET index and value (`i.ct_eq(&limb_num)`) -/
def boxedSetBit (n : Nat) (a : List Sec) (index bitValue : Sec) : L (List Sec) := setBit n a index bitValue

/-- `BoxedUint::leading_zeros / trailing_zeros / bits / bit`: the slice functions of src/uint/bits.rs, shared with `Uint` -/
def boxedLeadingZeros (n : Nat) (a : List Sec) : L Sec := leadingZeros n a
def boxedTrailingZeros (n : Nat) (a : List Sec) : L Sec := trailingZeros n a
def boxedBits (n : Nat) (a : List Sec) : L Sec := bits n a
def boxedBit (n : Nat) (a : List Sec) (index : Sec) : L Sec := bit n a index

/-- `trailing_ones(limbs)` (src/uint/bits.rs:97-111; `Uint` and `BoxedUint`) -/
def trailingOnes (n : Nat) (a : List Sec) : L Sec :=
  (forN n (fun i st => do
    pubIndex i
    pure (add st.1 (and st.2 (tz (not (limb a i)))), and st.2 (maskEq (limb a i) Sec.max))) (zero, Sec.max))
    >>= fun st => pure st.1

/-- `BoxedUint::inv_mod2k(k)` with SECRET `k`: `bits_precision` iterations, surplus ones masked by `within_range`;
state = (x, b) -/
def boxedInvMod2k (n : Nat) (a : List Sec) (k : Sec) : L (List Sec × Sec) := do
  pubIndex 0
  let isSome := or (maskEq k zero) (maskLsb (and (limb a 0) one))
  let st ← forN (64 * n) (fun i st => do
    pubIndex 0
    let xi := maskLsb (and (limb st.2 0) one)
    let bo ← boxedSbbAssign n n st.2 a zero
    let b1 ← boxedCtAssign n st.2 bo.1 xi
    let b2 ← boxedShr1 n b1
    let x' ← boxedSetBit n st.1 (ofNat i) (and xi (maskLt (ofNat i) k))
    pure (x', b2)) (zeros n, uone n)
  pure (st.1, isSome)

/-- `BoxedUint::inv_mod2k_vartime(k)`: `k` PUBLIC, exactly `k` iterations, each still branch-free in the value -/
def boxedInvMod2kVartime (n : Nat) (a : List Sec) (k : Nat) : L (List Sec × Sec) := do
  pubIndex 0
  let isSome := or (maskEq (ofNat k) zero) (maskLsb (and (limb a 0) one))
  let st ← forN k (fun i st => do
    pubIndex 0
    let xi := maskLsb (and (limb st.2 0) one)
    let bo ← boxedSbbAssign n n st.2 a zero
    let b1 ← boxedCtAssign n st.2 bo.1 xi
    let b2 ← boxedShr1 n b1
    let x' ← boxedSetBit n st.1 (ofNat i) xi
    pure (x', b2)) (zeros n, uone n)
  pure (st.1, isSome)

/-! ## Boxed Karatsuba (src/uint/mul/karatsuba.rs:174-415): the recursion follows the (public) lengths only -/

/-- `conditional_wrapping_neg_assign(limbs[len], choice)` -/
def condNegAssign (len : Nat) (l : List Sec) (c : Sec) : L (List Sec) :=
  (forN len (fun i st => do
    pubIndex i
    pure (st.1.set i (Sec.adc (select (limb st.1 i) (not (limb st.1 i)) c) st.2 zero).1,
          (Sec.adc (select (limb st.1 i) (not (limb st.1 i)) c) st.2 zero).2)) (l, select zero one c))
    >>= fun st => pure st.1

/-- inner loop of `adc_mul_limbs`: `(out[i+j], carry2) = out[i+j].mac(xi, rhs[j], carry2)`, `j < nr` -/
def adcMulInner (nr i : Nat) (xi : Sec) (rhs out : List Sec) : L (List Sec × Sec) :=
  forN nr (fun j st => do
    pubIndex (i + j); pubIndex j
    pure (st.1.set (i + j) (Sec.mac (limb st.1 (i + j)) xi (limb rhs j) st.2).1,
          (Sec.mac (limb st.1 (i + j)) xi (limb rhs j) st.2).2)) (out, zero)

/-- `adc_mul_limbs(lhs[nl], rhs[nr], out[nl + nr]) -> carry` -/
def adcMulLimbs (nl nr : Nat) (lhs rhs out : List Sec) : L (List Sec × Sec) :=
  forN nl (fun i st => do
    pubIndex i
    let r ← adcMulInner nr i (limb lhs i) rhs st.1
    pubIndex (i + nr)
    pure (r.1.set (i + nr) (Sec.adc (limb r.1 (i + nr)) r.2 st.2).1, (Sec.adc (limb r.1 (i + nr)) r.2 st.2).2)) (out, zero)

/-- `while i < hi { (out[i + off], carry) = out[i + off].adc(scratch[i], carry) }` for `i in lo..hi` -/
def kAddLoop (lo hi off : Nat) (out scratch : List Sec) (c : Sec) : L (List Sec × Sec) :=
  forRange lo hi (fun i st => do
    pubIndex (i + off); pubIndex i
    pure (st.1.set (i + off) (Sec.adc (limb st.1 (i + off)) (limb scratch i) st.2).1,
          (Sec.adc (limb st.1 (i + off)) (limb scratch i) st.2).2)) (out, c)

/-- the six addition loops shared by `karatsuba_mul_limbs` and `karatsuba_square_limbs`: add `z0·(1 + b)` then
`z2·(b + b²)` to `out` with `carry` / `carry2` and the three `carry = carry.wrapping_add(carry2)`; `c0` = initial carry -/
def kCombine (half size : Nat) (out z0 z2 : List Sec) (c0 : Sec) : L (List Sec) := do
  let a ← kAddLoop 0 size 0 out z0 c0
  let b ← kAddLoop 0 half half a.1 z0 zero
  let c ← kAddLoop half size half b.1 z0 (add a.2 b.2)
  let d ← kAddLoop 0 size half c.1 z2 zero
  let e ← kAddLoop 0 half size d.1 z2 zero
  let f ← kAddLoop half size size e.1 z2 (add (add c.2 d.2) e.2)
  pure f.1

/-- write `new` over `out[start .. start + new.length)` (a slice passed as `&mut out[..]`: public positions) -/
def setRange (out : List Sec) (start : Nat) (new : List Sec) : List Sec :=
  out.take start ++ new ++ out.drop (start + new.length)

/-- `while i < out.len() { (out[i], carry) = out[i].adc(ZERO, carry) }` from `lo` -/
def kPropCarry (lo hi : Nat) (out : List Sec) (c : Sec) : L (List Sec) :=
  (forRange lo hi (fun i st => do
    pubIndex i
    pure (st.1.set i (Sec.adc (limb st.1 i) zero st.2).1, (Sec.adc (limb st.1 i) zero st.2).2)) (out, c))
    >>= fun st => pure st.1

/-- the trailing-limb passes of `karatsuba_mul_limbs` (`xt`, `yt` non-empty: tests on public lengths) -/
def kTrail (nl nr size : Nat) (lhs rhs out : List Sec) : L (List Sec) := do
  pubCond (decide (nl > size))
  let o1 ← if nl > size then do
      let r ← adcMulLimbs (nl - size) nr (lhs.drop size) rhs (out.drop size)
      pure (setRange out size r.1)
    else pure out
  pubCond (decide (nr > size))
  if nr > size then do
    let r ← adcMulLimbs (nr - size) size (rhs.drop size) (lhs.take size) ((o1.drop size).take (size + (nr - size)))
    kPropCarry (2 * size + (nr - size)) (nl + nr) (setRange o1 size r.1) r.2
  else pure o1

/-- `karatsuba_mul_limbs(lhs[nl], rhs[nr], out, scratch)`: returns `out` (`nl + nr` limbs).  `fuel` bounds the recursion
depth (sizes halve); the split sizes, the recursion and the trailing passes depend on `nl`, `nr` only. -/
def karaMulLimbs : Nat → Nat → Nat → List Sec → List Sec → L (List Sec)
  | 0, nl, nr, lhs, rhs => do
    let r ← adcMulLimbs nl nr lhs rhs (zeros (nl + nr))
    pure r.1
  | fuel + 1, nl, nr, lhs, rhs => do
    pubCond (decide ((if min nl nr % 2 = 1 then min nl nr - 1 else min nl nr) ≤ 24))
    if (if min nl nr % 2 = 1 then min nl nr - 1 else min nl nr) ≤ 24 then do
      let r ← adcMulLimbs nl nr lhs rhs (zeros (nl + nr))
      pure r.1
    else do
      let size := if min nl nr % 2 = 1 then min nl nr - 1 else min nl nr
      let half := size / 2
      let d ← karaDiffLoop half ((lhs.take size).take half) ((lhs.take size).drop half)
                ((rhs.take size).take half) ((rhs.take size).drop half)
      let sc0 ← condNegAssign half d.1 d.2.1
      let sc1 ← condNegAssign half d.2.2.1 d.2.2.2
      let z1 ← karaMulLimbs fuel half half sc0 sc1
      let o1 := setRange (zeros (nl + nr)) half z1
      let o2 ← condNegAssign (2 * size) (o1.take (2 * size)) (xor d.2.1 d.2.2.2)
      let z0 ← karaMulLimbs fuel half half ((lhs.take size).take half) ((rhs.take size).take half)
      let z2 ← karaMulLimbs fuel half half ((lhs.take size).drop half) ((rhs.take size).drop half)
      let o3 ← kCombine half size (setRange o1 0 o2) z0 z2 zero
      kTrail nl nr size lhs rhs o3

/-- `out[i] = !out[i]` for `i < cnt` -/
def kNotLoop (cnt : Nat) (out : List Sec) : L (List Sec) :=
  forN cnt (fun i r => do pubIndex i; pure (r.set i (not (limb r i)))) out

/-- `square_limbs(limbs[n], out[2n])` -/
def squareLimbs (n : Nat) (a : List Sec) : L (List Sec) := do
  let p ← squareSchoolbook n a
  pure (p.1 ++ p.2)

/-- `karatsuba_square_limbs(limbs[n], out, scratch)`: returns `out` (`2n` limbs) -/
def karaSquareLimbs : Nat → Nat → List Sec → L (List Sec)
  | 0, n, a => squareLimbs n a
  | fuel + 1, n, a => do
    pubCond (decide (n ≤ 48 ∨ n % 2 = 1))
    if n ≤ 48 ∨ n % 2 = 1 then squareLimbs n a
    else do
      let half := n / 2
      let s0 ← usbb half (a.take half) (a.drop half) zero
      let sc0 ← condNegAssign half s0.1 s0.2
      let z1 ← karaSquareLimbs fuel half sc0
      let o1 ← kNotLoop (2 * n) (setRange (zeros (2 * n)) half z1)
      let z0 ← karaSquareLimbs fuel half (a.take half)
      let z2 ← karaSquareLimbs fuel half (a.drop half)
      kCombine half n o1 z0 z2 one

/-- `BoxedUint::mul`: Karatsuba from 32 limbs (both operands), else `mul_limbs` (schoolbook); `na + nb` limbs -/
def boxedMul (na nb : Nat) (a b : List Sec) : L (List Sec) := do
  pubCond (decide (min na nb ≥ 32))
  if min na nb ≥ 32 then karaMulLimbs (na + nb) na nb a b
  else do
    let p ← mulSchoolbook na nb a b
    pure (p.1 ++ p.2)

/-- `BoxedUint::square`: Karatsuba from 64 limbs -/
def boxedSquare (n : Nat) (a : List Sec) : L (List Sec) := do
  pubCond (decide (n ≥ 64))
  if n ≥ 64 then karaSquareLimbs n n a else squareLimbs n a

/-- `BoxedUint::wrapping_mul` = `mul(rhs).shorten(self.bits_precision())` -/
def boxedWrappingMul (na nb : Nat) (a b : List Sec) : L (List Sec) := do
  let p ← boxedMul na nb a b
  pure (p.take na)

/-- `CheckedMul for BoxedUint`: fold `choice & limb.is_zero()` over the high limbs -/
def boxedCheckedMul (na nb : Nat) (a b : List Sec) : L (List Sec × Sec) := do
  let p ← boxedMul na nb a b
  let z ← boxedIsZero nb (p.drop na)
  pure (p.take na, z)


/-! ## safegcd (src/modular/safegcd.rs): `UnsatInt` arithmetic (62-bit limbs in `u64`, two's complement), the full
`jump`, `fg`, `de`, the `divsteps` outer loop, `SafeGcdInverter::{inv, gcd}`.  `i64` values are words in two's
complement; the `i128` of `jump` is a pair (lo, hi). -/

/-- `UnsatInt::MASK` = 2^62 − 1 -/
def M62 : Sec := ofNat (2 ^ 62 - 1)
/-- `safegcd_nlimbs!(64·n)` = `(64·n + 64).div_ceil(62)` -/
def unsatLimbs (n : Nat) : Nat := (64 * n + 64 + 61) / 62

/-- `UnsatInt::add`: `sum = a[i] + b[i] + carry; ret[i] = sum & MASK; carry = sum >> 62` -/
def unsatAdd (n : Nat) (a b : List Sec) : L (List Sec) :=
  (forN n (fun i st => do
    pubIndex i
    pure (st.1 ++ [and (add (add (limb a i) (limb b i)) st.2) M62], shrPub (add (add (limb a i) (limb b i)) st.2) 62))
    ([], zero)) >>= fun st => pure st.1

/-- the loop of `UnsatInt::mul`: `sum = carry + (a[i] ^ mask) * other` in `u128` -/
def unsatMulLoop (n : Nat) (a : List Sec) (o mask c0 : Sec) : L (List Sec) :=
  (forN n (fun i st => do
    pubIndex i
    pure (st.1 ++ [and (Sec.mac st.2 (xor (limb a i) mask) o zero).1 M62],
          or (shrPub (Sec.mac st.2 (xor (limb a i) mask) o zero).1 62) (shlPub (Sec.mac st.2 (xor (limb a i) mask) o zero).2 2)))
    ([], c0)) >>= fun st => pure st.1

/-- `UnsatInt::mul(other: i64)` AS WRITTEN: `if other < 0 { (-other, -other as u64, MASK) } else { (other, 0, 0) }` is a
BRANCH on the sign of the (secret-derived) multiplier -/
def unsatMul (n : Nat) (a : List Sec) (other : Sec) : L (List Sec) := do
  let ng ← branchOn (maskMsb other)
  if ng then unsatMulLoop n a (neg other) M62 (neg other) else unsatMulLoop n a other zero zero

/-- `UnsatInt::neg` -/
def unsatNeg (n : Nat) (a : List Sec) : L (List Sec) :=
  (forN n (fun i st => do
    pubIndex i
    pure (st.1 ++ [and (add (xor (limb a i) M62) st.2) M62], shrPub (add (xor (limb a i) M62) st.2) 62))
    ([], one)) >>= fun st => pure st.1

/-- `UnsatInt::is_negative`: `from_u64_gt(self.0[LIMBS - 1], MASK >> 1)` -/
def unsatIsNegative (n : Nat) (a : List Sec) : L Sec := do
  pubIndex (n - 1)
  pure (maskLt (ofNat (2 ^ 61 - 1)) (limb a (n - 1)))

/-- `UnsatInt::shr`: drop the lowest limb, sign-fill the top one -/
def unsatShr (n : Nat) (a : List Sec) : L (List Sec) := do
  let ng ← unsatIsNegative n a
  forN (n - 1) (fun i r => do
    pubIndex i; pubIndex (i + 1)
    pure (r.set i (limb a (i + 1)))) ((zeros n).set (n - 1) (select zero M62 ng))

/-- `UnsatInt::eq` -/
def unsatEq (n : Nat) (a b : List Sec) : L Sec :=
  forN n (fun i acc => do pubIndex i; pure (and acc (maskEq (limb a i) (limb b i)))) Sec.max

/-- `UnsatInt::select` -/
def unsatSelect (n : Nat) (a b : List Sec) (c : Sec) : L (List Sec) :=
  forN n (fun i r => do pubIndex i; pure (r ++ [select (limb a i) (limb b i) c])) []

/-- `UnsatInt::leading_zeros` (from the top limb; `l.leading_zeros() - 2`) and `bits` -/
def unsatBits (n : Nat) (a : List Sec) : L Sec :=
  (forDown n (fun i st => do
    pubIndex i
    pure (add st.1 (and st.2 (sub (lz (limb a i)) (ofNat 2))), and st.2 (not (maskNonzero (limb a i))))) (zero, Sec.max))
    >>= fun st => pure (sub (ofNat (62 * n)) st.1)

/-- the positions `bits` visited by the `while bits < total` loop of `impl_limb_convert!` (a PUBLIC schedule) -/
def convSchedule (ib ob total : Nat) : Nat → Nat → List Nat
  | 0, _ => []
  | fuel + 1, bits => if bits < total then bits :: convSchedule ib ob total fuel (bits + min (ib - bits % ib) (ob - bits % ob)) else []

/-- `impl_limb_convert!(_, ib, input[il], _, ob, output[ol])`: every shift amount and index is a function of the two
limb counts; then the masking loop -/
def limbConvert (ib ob il ol : Nat) (inp : List Sec) : L (List Sec) := do
  let sched := convSchedule ib ob (min (il * ib) (ol * ob)) (min (il * ib) (ol * ob) + 1) 0
  let out ← forN sched.length (fun k out => do
    pubIndex (sched.getD k 0 / ob); pubIndex (sched.getD k 0 / ib)
    pure (out.set (sched.getD k 0 / ob)
      (or (limb out (sched.getD k 0 / ob)) (shlPub (shrPub (limb inp (sched.getD k 0 / ib)) (sched.getD k 0 % ib)) (sched.getD k 0 % ob)))))
    (zeros ol)
  forDown (min (il * ib) (ol * ob) / ob + (if min (il * ib) (ol * ob) % ob > 0 then 1 else 0)) (fun i out => do
    pubIndex i
    pure (out.set i (and (limb out i) (ofNat (2 ^ ob - 1))))) out

/-- `UnsatInt::from_uint` (n 64-bit words → u 62-bit limbs), `UnsatInt::to_uint` -/
def unsatFromUint (n u : Nat) (a : List Sec) : L (List Sec) := limbConvert 64 62 n u a
def unsatToUint (u n : Nat) (a : List Sec) : L (List Sec) := limbConvert 62 64 u n a

/-- `inv_mod2_62(value)`: straight-line word arithmetic on the lowest word -/
def invMod262 (v : Sec) : L Sec := do
  let x0 := xor (mul v (ofNat 3)) (ofNat 2)
  let y0 := sub one (mul x0 v)
  let x1 := mul x0 (add y0 one); let y1 := mul y0 y0
  let x2 := mul x1 (add y1 one); let y2 := mul y1 y1
  let x3 := mul x2 (add y2 one); let y3 := mul y2 y2
  pure (and (mul x3 (add y3 one)) M62)

/-- `iterations(f_bits, g_bits)`: max by mask-select, `(49·d + addend) / 17` with a constant divisor -/
def iterations (fb gb : Sec) : Sec :=
  divConst (add (mul (ofNat 49) (select fb gb (maskLt fb gb)))
                (select (ofNat 80) (ofNat 57) (maskLt (select fb gb (maskLt fb gb)) (ofNat 46)))) 17

/-- signed `a > b` on `i64` as a mask (flip the sign bits, compare unsigned) -/
def maskGtS (a b : Sec) : Sec := maskLt (xor b (ofNat HALF)) (xor a (ofNat HALF))

/-- the local `const fn min(a: i64, b: i64) -> i64 { if a > b { b } else { a } }` of `jump`: A BRANCH -/
def minBranch (a b : Sec) : L Sec := do
  let gt ← branchOn (maskGtS a b)
  pure (if gt then b else a)

/-- state of `jump`: steps (public once `zeros` is), delta, f (i64), g (i128 as lo, hi), t (four i64) -/
structure JumpSt where
  steps : Nat
  delta : Sec
  f : Sec
  glo : Sec
  ghi : Sec
  t00 : Sec
  t01 : Sec
  t10 : Sec
  t11 : Sec
  done : Bool

/-- one trip of the `loop` of `jump` (src/modular/safegcd.rs:205-226), complete: `zeros = min(steps, g.trailing_zeros())`
becomes PUBLIC (it is the shift amount and steers the exit), `delta > 0` and the two `min`s of the mask width are branches -/
def jumpTrip (s : JumpSt) : L (Option JumpSt) := do
  if s.done then pure none else do
  let tzs ← declassify (select (add (ofNat 64) (tz s.ghi)) (tz s.glo) (maskNonzero s.glo))
  let zs := min s.steps tzs
  let steps := s.steps - zs
  let delta := add s.delta (ofNat zs)
  let glo := or (shrPub s.glo zs) (shlPub s.ghi (64 - zs))      -- `g >> zeros` on the i128 (zs ≤ 62)
  let ghi := sarPub s.ghi zs
  let t00 := shlPub s.t00 zs
  let t01 := shlPub s.t01 zs
  pubCond (decide (steps = 0))
  if steps = 0 then pure (some ⟨0, delta, s.f, glo, ghi, t00, t01, s.t10, s.t11, true⟩) else do      -- `break`
    let pos ← branchOn (and (not (maskMsb delta)) (maskNonzero delta))   -- `if delta > 0`
    -- (delta, f, g) = (-delta, g as i64, -f as i128); (t[0], t[1]) = (t[1], [-t[0][0], -t[0][1]])
    let d1 := if pos then neg delta else delta
    let f1 := if pos then glo else s.f
    let g1lo := if pos then neg s.f else glo
    let g1hi := if pos then maskMsb (neg s.f) else ghi
    let u00 := if pos then s.t10 else t00
    let u01 := if pos then s.t11 else t01
    let u10 := if pos then neg t00 else s.t10
    let u11 := if pos then neg t01 else s.t11
    -- mask = (1 << min(min(steps, 1 - delta), 5)) - 1
    let m1 ← minBranch (ofNat steps) (sub one d1)
    let m2 ← minBranch m1 (ofNat 5)
    let w := and (mul g1lo (xor (mul f1 (ofNat 3)) (ofNat 28))) (sub (shl one m2) one)
    -- g += w as i128 * f as i128   (w ≥ 0; signed 64×64→128 product, then 128-bit add)
    let p := Sec.mulWide w f1
    let phi := sub p.2 (and (maskMsb f1) w)
    let s0 := Sec.adc g1lo p.1 zero
    let s1 := Sec.adc g1hi phi s0.2
    pure (some ⟨steps, d1, f1, s0.1, s1.1, u00, u01, add (mul u00 w) u10, add (mul u01 w) u11, false⟩)

/-- `jump(f, g, delta) -> (delta, matrix)`: at most 63 trips -/
def jumpFull (f0 g0 delta : Sec) : L (Sec × Sec × Sec × Sec × Sec) :=
  (whileFuel 65 jumpTrip ⟨62, delta, f0, g0, zero, one, zero, zero, one, false⟩)
  >>= fun s => pure (s.delta, s.t00, s.t01, s.t10, s.t11)


/-- `f.mul(t0).add(&g.mul(t1))` -/
def unsatLin2 (n : Nat) (f g : List Sec) (t0 t1 : Sec) : L (List Sec) := do
  let a ← unsatMul n f t0
  let b ← unsatMul n g t1
  unsatAdd n a b

/-- `fg(f, g, t)`: both rows, then the 62-bit arithmetic shift.  Constant-time GIVEN the matrix, except for the sign
test inside `UnsatInt::mul` -/
def fgStep (n : Nat) (f g : List Sec) (t00 t01 t10 t11 : Sec) : L (List Sec × List Sec) := do
  let r0 ← unsatLin2 n f g t00 t01
  let r1 ← unsatLin2 n f g t10 t11
  let s0 ← unsatShr n r0
  let s1 ← unsatShr n r1
  pure (s0, s1)

/-- the word part of `de`: `md`, `me` (i64) from the matrix, the signs and the lowest limbs of `d`, `e` -/
def deMd (t0 t1 dn en dl el inverse : Sec) : Sec :=
  sub (add (mul t0 (and dn one)) (mul t1 (and en one)))
      (and (add (mul inverse (and (add (mul t0 dl) (mul t1 el)) M62)) (add (mul t0 (and dn one)) (mul t1 (and en one)))) M62)

/-- `d.mul(t0).add(&e.mul(t1)).add(&modulus.mul(md))` -/
def unsatLin3 (n : Nat) (d e m : List Sec) (t0 t1 md : Sec) : L (List Sec) := do
  let a ← unsatLin2 n d e t0 t1
  let c ← unsatMul n m md
  unsatAdd n a c

/-- `de(modulus, inverse, t, d, e)` -/
def deStep (n : Nat) (modulus : List Sec) (inverse : Sec) (t00 t01 t10 t11 : Sec) (d e : List Sec) : L (List Sec × List Sec) := do
  let dn ← unsatIsNegative n d
  let en ← unsatIsNegative n e
  pubIndex 0
  let cd ← unsatLin3 n d e modulus t00 t01 (deMd t00 t01 dn en (limb d 0) (limb e 0) inverse)
  let ce ← unsatLin3 n d e modulus t10 t11 (deMd t10 t11 dn en (limb d 0) (limb e 0) inverse)
  let s0 ← unsatShr n cd
  let s1 ← unsatShr n ce
  pure (s0, s1)

/-- one trip of the outer loop of `divsteps`; state = (delta, f, g, d, e) -/
def divstepsTrip (n : Nat) (f0 : List Sec) (inverse : Sec) (st : Sec × List Sec × List Sec × List Sec × List Sec) :
    L (Sec × List Sec × List Sec × List Sec × List Sec) := do
  pubIndex 0
  let j ← jumpFull (limb st.2.1 0) (limb st.2.2.1 0) st.1
  let r ← fgStep n st.2.1 st.2.2.1 j.2.1 j.2.2.1 j.2.2.2.1 j.2.2.2.2
  let q ← deStep n f0 inverse j.2.1 j.2.2.1 j.2.2.2.1 j.2.2.2.2 st.2.2.2.1 st.2.2.2.2
  pure (j.1, r.1, r.2, q.1, q.2)

/-- `divsteps(e, f_0, g, inverse) -> (d, f)`: the trip count `iterations(f_0.bits(), g.bits())` is computed from the
bit lengths of BOTH operands and then used as a loop bound — it becomes public (`declassify`) -/
def divsteps (n : Nat) (e f0 g : List Sec) (inverse : Sec) : L (List Sec × List Sec) := do
  let fb ← unsatBits n f0
  let gb ← unsatBits n g
  let m ← declassify (iterations fb gb)
  let st ← forN m (fun _ st => divstepsTrip n f0 inverse st) (one, f0, g, zeros n, e)
  pure (st.2.2.2.1, st.2.1)

/-- `SafeGcdInverter::norm(value, negate)` -/
def unsatNorm (n : Nat) (modulus value : List Sec) (negate : Sec) : L (List Sec) := do
  let n1 ← unsatIsNegative n value
  let a1 ← unsatAdd n value modulus
  let v1 ← unsatSelect n value a1 n1
  let ng ← unsatNeg n v1
  let v2 ← unsatSelect n v1 ng negate
  let n2 ← unsatIsNegative n v2
  let a2 ← unsatAdd n v2 modulus
  unsatSelect n v2 a2 n2

/-- `UnsatInt::ONE`, `UnsatInt::MINUS_ONE` -/
def unsatOne (u : Nat) : List Sec := (zeros u).set 0 one
def unsatMinusOne (u : Nat) : List Sec := List.replicate u M62

/-- `SafeGcdInverter::inv` on unsaturated operands: `divsteps`, then `eq(MINUS_ONE)`, `norm`, `eq(ONE)`, `to_uint` -/
def safegcdInvTail (u n : Nat) (m adj g : List Sec) (inverse : Sec) : L (List Sec × Sec) := do
  let df ← divsteps u adj m g inverse
  let antiunit ← unsatEq u df.2 (unsatMinusOne u)
  let ret ← unsatNorm u m df.1 antiunit
  let isOne ← unsatEq u df.2 (unsatOne u)
  let r ← unsatToUint u n ret
  pure (r, or isOne antiunit)

/-- `Uint::inv_odd_mod(modulus)` = `SafeGcdInverter::new(modulus, ONE).inv(value)`; `n` 64-bit limbs; (value, is_some) -/
def safegcdInv (n : Nat) (modulus value : List Sec) : L (List Sec × Sec) := do
  let m ← unsatFromUint n (unsatLimbs n) modulus
  let adj ← unsatFromUint n (unsatLimbs n) (uone n)
  pubIndex 0
  let inverse ← invMod262 (limb modulus 0)
  let g ← unsatFromUint n (unsatLimbs n) value
  safegcdInvTail (unsatLimbs n) n m adj g inverse

/-- `SafeGcdInverter::gcd` on unsaturated operands: `divsteps(ONE, f, g)`, `|f|`, `to_uint` -/
def safegcdGcdTail (u n : Nat) (fu gu : List Sec) (inverse : Sec) : L (List Sec) := do
  let df ← divsteps u (unsatOne u) fu gu inverse
  let ng ← unsatIsNegative u df.2
  let nf ← unsatNeg u df.2
  let fa ← unsatSelect u df.2 nf ng
  unsatToUint u n fa

/-- `SafeGcdInverter::gcd(f, g)` (`Odd<Uint>::gcd`): `f` odd -/
def safegcdGcd (n : Nat) (f g : List Sec) : L (List Sec) := do
  pubIndex 0
  let inverse ← invMod262 (limb f 0)
  let fu ← unsatFromUint n (unsatLimbs n) f
  let gu ← unsatFromUint n (unsatLimbs n) g
  safegcdGcdTail (unsatLimbs n) n fu gu inverse

/-- the first half of `Uint::gcd`: `k = min(tz(self), tz(rhs))` by a mask-select, both operands shifted right by the
SECRET `k` (ladders), `f`, `g` chosen by `s2.is_odd()`; returns (f, g, k) -/
def ugcdOperands (n : Nat) (a b : List Sec) : L (List Sec × List Sec × Sec) := do
  let k1 ← trailingZeros n a
  let k2 ← trailingZeros n b
  let s1o ← overflowingShr n a (select k1 k2 (maskLt k2 k1))
  let s1 ← uselect n (zeros n) s1o.1 s1o.2
  let s2o ← overflowingShr n b (select k1 k2 (maskLt k2 k1))
  let s2 ← uselect n (zeros n) s2o.1 s2o.2
  pubIndex 0
  let f ← uselect n s1 s2 (not (maskLsb (and (limb s2 0) one)))
  let g ← uselect n s1 s2 (maskLsb (and (limb s2 0) one))
  pure (f, g, select k1 k2 (maskLt k2 k1))

/-- the last step of `Uint::gcd`: `.overflowing_shl(k).unwrap_or(ZERO)` -/
def ugcdFinish (n : Nat) (r : List Sec) (k : Sec) : L (List Sec) := do
  let sh ← overflowingShl n r k
  uselect n (zeros n) sh.1 sh.2

/-- `Uint::gcd(rhs)`: strip the common power of two, the safegcd of the (odd, any) pair, shift back -/
def ugcd (n : Nat) (a b : List Sec) : L (List Sec) := do
  let o ← ugcdOperands n a b
  let r ← safegcdGcd n o.1 o.2.1
  ugcdFinish n r o.2.2

/-- `Uint::bitand` -/
def ubitand (n : Nat) (a b : List Sec) : L (List Sec) :=
  forN n (fun i r => do pubIndex i; pure (r ++ [and (limb a i) (limb b i)])) []

/-- `ConstCtOption::unwrap_or(ZERO)` = `Uint::select(&ZERO, &value, is_some)` -/
def unwrapOrZero (n : Nat) (v : List Sec) (isSome : Sec) : L (List Sec) := uselect n (zeros n) v isSome

/-- the first step of `Uint::inv_mod`: `modulus = s·2^k`; returns (s, k) with `k` SECRET (it only feeds a shift ladder) -/
def uinvModSplit (n : Nat) (modulus : List Sec) : L (List Sec × Sec) := do
  let k ← trailingZeros n modulus
  let so ← overflowingShr n modulus k
  let s ← unwrapOrZero n so.1 so.2
  pure (s, k)

/-- the steps of `Uint::inv_mod` after the inversion modulo the odd part `s` (`ma` = its value and flag): `inv_mod2k(k)` twice
(`k` secret), one Garner step; all masks -/
def uinvModFinish (n : Nat) (a s : List Sec) (k : Sec) (ma : List Sec × Sec) : L (List Sec × Sec) := do
  pubIndex 0
  let mb ← invMod2k n a k
  let av ← unwrapOrZero n ma.1 (and ma.2 (maskLsb (and (limb s 0) one)))
  let bv ← unwrapOrZero n mb.1 mb.2
  let mi ← invMod2k n s k
  let moi ← unwrapOrZero n mi.1 mi.2
  let sh ← overflowingShl n (uone n) k
  let shifted ← unwrapOrZero n sh.1 sh.2
  let mask ← wrappingSub n shifted (uone n)
  let d ← wrappingSub n bv av
  let t0 ← wrappingMul n n d moi
  let t ← ubitand n t0 mask
  let st ← wrappingMul n n s t
  let r ← wrappingAdd n av st
  pure (r, and (and ma.2 (maskLsb (and (limb s 0) one))) mb.2)

/-- `Uint::inv_mod(modulus)` for ANY modulus (src/uint/inv_mod.rs:134-170): split `modulus = s·2^k`, invert modulo the
odd part with safegcd and modulo `2^k` with `inv_mod2k(k)`, recombine; (value, is_some).
Everything outside the safegcd call is mask arithmetic. -/
def uinvMod (n : Nat) (a modulus : List Sec) : L (List Sec × Sec) := do
  let sk ← uinvModSplit n modulus
  let ma ← safegcdInv n sk.1 a
  uinvModFinish n a sk.1 sk.2 ma

/-! ## Special-modulus forms, `double_mod`, `mul_mod`, `div_by_2` (src/uint/{add_mod,sub_mod,mul_mod}.rs,
src/modular/{monty_form,div_by_2}.rs) -/

/-- `Uint::from_word(w)`, `Uint::from_wide_word(lo, hi)` -/
def fromWord (n : Nat) (w : Sec) : List Sec := (zeros n).set 0 w
def fromWideWord (n : Nat) (lo hi : Sec) : List Sec := ((zeros n).set 0 lo).set 1 hi

/-- `Uint::add_mod_special(rhs, c)` (modulus `2^BITS − c`): `adc(rhs, c)`, then subtract `(carry − 1) & c` -/
def addModSpecial (n : Nat) (a b : List Sec) (c : Sec) : L (List Sec) := do
  let o ← uadc n a b c
  wrappingSub n o.1 (fromWord n (and (sub o.2 one) c))

/-- `Uint::sub_mod_special(rhs, c)` -/
def subModSpecial (n : Nat) (a b : List Sec) (c : Sec) : L (List Sec) := do
  let o ← usbb n a b zero
  wrappingSub n o.1 (fromWord n (and o.2 c))

/-- `Uint::overflowing_shl1`: `(w[i] << 1) | carry`, carry = `w[i] >> 63` -/
def overflowingShl1 (n : Nat) (a : List Sec) : L (List Sec × Sec) :=
  forN n (fun i st => do
    pubIndex i
    pure (st.1 ++ [or (shlPub (limb a i) 1) st.2], shrPub (limb a i) 63)) ([], zero)

/-- `Uint::double_mod(p)` -/
def doubleMod (n : Nat) (a p : List Sec) : L (List Sec) := do
  let w ← overflowingShl1 n a
  let w2 ← usbb n w.1 p zero
  let pm ← bitandLimb n p (Sec.sbb w.2 zero w2.2).2
  wrappingAdd n w2.1 pm

/-- `mac_by_limb(a, b, c, carry)`: `a[i] = a[i] + b[i]·c + carry` -/
def macByLimb (n : Nat) (a b : List Sec) (c carry : Sec) : L (List Sec × Sec) :=
  forN n (fun i st => do
    pubIndex i
    pure (st.1.set i (Sec.mac (limb st.1 i) (limb b i) c st.2).1, (Sec.mac (limb st.1 i) (limb b i) c st.2).2)) (a, carry)

def remLimbLoop (n : Nat) (u : List Sec) (d recip r0 : Sec) : L Sec :=
  forDown n (fun j r => do
    pubIndex j
    pure (div2by1 r (limb u j) d recip).2) r0

/-- `Uint::rem_limb(rhs)` (`rem_limb_with_reciprocal` after `Reciprocal::new`) -/
def remLimb (n : Nat) (u : List Sec) (rhs : Sec) : L Sec := do
  let recip ← reciprocal (shl rhs (lz rhs))
  let us ← shlLimb n u (lz rhs)
  let r ← remLimbLoop n us.1 (shl rhs (lz rhs)) recip us.2
  pure (shr r (lz rhs))

/-- `mul_rem(a, b, d)`: `mulhilo`, then the two-limb remainder -/
def mulRem (a b d : Sec) : L Sec := remLimb 2 [(Sec.mulWide a b).1, (Sec.mulWide a b).2] d

/-- `Uint::mul_mod_special(rhs, c)`: the one-limb case via `mul_rem`, else Algorithm 14.47 on top of `split_mul` -/
def mulModSpecial (n : Nat) (a b : List Sec) (c : Sec) : L (List Sec) := do
  pubCond (decide (n = 1))
  if n = 1 then do
    pubIndex 0
    let r ← mulRem (limb a 0) (limb b 0) (sub zero c)
    pure (fromWord n r)
  else do
    let p ← splitMul n n a b
    let m ← macByLimb n p.1 p.2 c zero
    let s ← uadc n m.1 (fromWideWord n (Sec.mac c m.2 c zero).1 (Sec.mac c m.2 c zero).2) zero   -- `(carry + 1)·c` as a wide word
    let r ← usbb n s.1 (fromWord n (and (sub s.2 one) c)) zero
    pure r.1

/-- `MontyParams::new(modulus)` (constant-time in the modulus at source level): `(one, r2, r3, mod_neg_inv, mod_leading_zeros)` -/
def montyParamsNew (n : Nat) (modulus : List Sec) : L (List Sec × List Sec × List Sec × Sec × Sec) := do
  let q ← udivRem n (umax n) modulus
  let one' ← addMod n q.2 (uone n) modulus
  let sq ← squareWide n one'
  let w ← concatMixed n n (2 * n) sq.1 sq.2
  let mw ← concatMixed n n (2 * n) modulus (zeros n)
  let r ← udivRem (2 * n) w mw
  let sp ← splitMixed (2 * n) n n r.2
  let im ← invMod2kVartime n modulus 64
  pubIndex 0
  let lzs ← leadingZeros n modulus
  let r2sq ← squareWide n sp.1
  let r3 ← montgomeryReduction n r2sq.1 r2sq.2 modulus (sub zero (limb im.1 0))
  pure (one', sp.1, r3, sub zero (limb im.1 0), select (ofNat 63) lzs (maskLt lzs (ofNat 63)))

/-- `MontyForm::new(integer, params)`: `montgomery_reduction(integer.split_mul(r2))` -/
def montyFormNew (n : Nat) (x r2 modulus : List Sec) (negInv : Sec) : L (List Sec) := do
  let p ← splitMul n n x r2
  montgomeryReduction n p.1 p.2 modulus negInv

/-- `MontyForm::retrieve` -/
def montyRetrieve (n : Nat) (x modulus : List Sec) (negInv : Sec) : L (List Sec) :=
  montgomeryReduction n x (zeros n) modulus negInv

/-- `Uint::mul_mod(rhs, p)` (`p` odd): `MontyParams::new(p)`, two conversions, one Montgomery product, `retrieve` -/
def mulMod (n : Nat) (a b p : List Sec) : L (List Sec) := do
  let params ← montyParamsNew n p
  let xa ← montyFormNew n a params.2.1 p params.2.2.2.1
  let xb ← montyFormNew n b params.2.1 p params.2.2.2.1
  let prod ← mulMont n xa xb p params.2.2.2.1
  montyRetrieve n prod p params.2.2.2.1

/-- `div_by_2(a, modulus)` (`MontyForm::div_by_2`) -/
def divBy2 (n : Nat) (a modulus : List Sec) : L (List Sec) := do
  pubIndex 0
  let s ← uadc n a modulus zero
  let sel ← uselect n a s.1 (maskLsb (and (limb a 0) one))
  let h ← shr1 n sel
  setBit n h (ofNat (64 * n - 1)) (maskNonzero (select zero s.2 (maskLsb (and (limb a 0) one))))

/-- `div_by_2_boxed_assign` -/
def divBy2Boxed (n : Nat) (a modulus : List Sec) : L (List Sec) := do
  pubIndex 0
  let s ← boxedCondAdcAssign n n a modulus (maskLsb (and (limb a 0) one))
  let h ← boxedShr1 n s.1
  boxedSetBit n h (ofNat (64 * n - 1)) (maskLsb s.2)

/-! ## Linear combination (src/modular/lincomb.rs): `impl_longa_monty_lincomb!` -/

/-- innermost loop `k`: `(u[k], carry) = u[k].mac(a_i[j], b_i[k], carry)` -/
def longaInner (n j : Nat) (ai bi u : List Sec) : L (List Sec × Sec) :=
  forN n (fun k st => do
    pubIndex k; pubIndex j
    pure (st.1.set k (Sec.mac (limb st.1 k) (limb ai j) (limb bi k) st.2).1,
          (Sec.mac (limb st.1 k) (limb ai j) (limb bi k) st.2).2)) (u, zero)

/-- loop `i` over the `len` products; state = (u, hi, hi_carry) -/
def longaProducts (n j len : Nat) (ab : List (List Sec × List Sec)) (u : List Sec) (hi : Sec) : L (List Sec × Sec × Sec) :=
  forN len (fun i st => do
    pubIndex i
    let r ← longaInner n j (ab.getD i ([], [])).1 (ab.getD i ([], [])).2 st.1
    pure (r.1, (Sec.adc st.2.1 r.2 zero).1, add st.2.2 (Sec.adc st.2.1 r.2 zero).2)) (u, hi, zero)

/-- the reduction pass: `(u[i-1], carry) = u[i].mac(q, modulus[i], carry)` for `i in 1..n` -/
def longaReduce (n : Nat) (u m : List Sec) (q c0 : Sec) : L (List Sec × Sec) :=
  forRange 1 n (fun i st => do
    pubIndex i; pubIndex (i - 1)
    pure (st.1.set (i - 1) (Sec.mac (limb st.1 i) q (limb m i) st.2).1, (Sec.mac (limb st.1 i) q (limb m i) st.2).2)) (u, c0)

/-- `impl_longa_monty_lincomb!(a_b[len], u, modulus, mod_neg_inv, n)` → (u, hi_carry) -/
def longaLincomb (n len : Nat) (ab : List (List Sec × List Sec)) (u m : List Sec) (negInv : Sec) : L (List Sec × Sec) :=
  forN n (fun j st => do
    let p ← longaProducts n j len ab st.1 st.2
    pubIndex 0
    let r ← longaReduce n p.1 m (mul (limb p.1 0) negInv) (Sec.mac (limb p.1 0) (mul (limb p.1 0) negInv) (limb m 0) zero).2
    pubIndex (n - 1)
    pure (r.1.set (n - 1) (Sec.adc p.2.1 r.2 zero).1, add p.2.2 (Sec.adc p.2.1 r.2 zero).2)) (u, zero)

/-- the windowed form: `ceil(len / max_accum)` windows of at most `max_accum = 2^mlz` products, each reduced and added -/
def lincombWindows (n len : Nat) (ab : List (List Sec × List Sec)) (m : List Sec) (negInv : Sec) (mlz : Nat) : L (List Sec) :=
  forN ((len + 2 ^ mlz - 1) / 2 ^ mlz) (fun w ret => do
    let r ← longaLincomb n (min (2 ^ mlz) (len - w * 2 ^ mlz)) (ab.drop (w * 2 ^ mlz)) (zeros n) m negInv
    let buf ← subModWithCarry n r.1 r.2 m m
    addMod n ret buf m) (zeros n)

/-- `lincomb_monty_form(products[len], modulus, mod_neg_inv, mod_leading_zeros)`: the number of products and
`mod_leading_zeros` (a property of the PUBLIC modulus of the Montgomery parameters) decide between one pass and windows -/
def lincombMonty (n len : Nat) (ab : List (List Sec × List Sec)) (m : List Sec) (negInv : Sec) (mlz : Nat) : L (List Sec) := do
  pubCond (decide (len ≤ 2 ^ mlz))
  if len ≤ 2 ^ mlz then do
    let r ← longaLincomb n len ab (zeros n) m negInv
    subModWithCarry n r.1 r.2 m m
  else lincombWindows n len ab m negInv mlz

/-! ## Multi-exponentiation (src/modular/pow.rs:31-177): `cnt` bases (a public count) -/

/-- the per-base part of one window: masked lookup in that base's table, one Montgomery product -/
def multiPowEntry (n : Nat) (pe : List (List Sec) × List Sec) (m : List Sec) (negInv : Sec)
    (limbNum windowNum : Nat) (first : Bool) (firstMask : Nat) (z : List Sec) : L (List Sec) := do
  pubIndex limbNum
  let power ← powLookup n pe.1
    (if first then and (and (shrPub (limb pe.2 limbNum) (windowNum * 4)) (ofNat 15)) (ofNat firstMask)
     else and (shrPub (limb pe.2 limbNum) (windowNum * 4)) (ofNat 15))
  mulMont n z power m negInv

/-- `while i < powers_and_exponents.len()`: one entry after the other -/
def multiPowEntries (n cnt : Nat) (pes : List (List (List Sec) × List Sec)) (m : List Sec) (negInv : Sec)
    (limbNum windowNum : Nat) (first : Bool) (firstMask : Nat) (z : List Sec) : L (List Sec) :=
  forN cnt (fun i z => do
    pubIndex i
    multiPowEntry n (pes.getD i ([], [])) m negInv limbNum windowNum first firstMask z) z

def multiPowWindow (n cnt : Nat) (pes : List (List (List Sec) × List Sec)) (m : List Sec) (negInv : Sec)
    (limbNum windowNum : Nat) (first : Bool) (firstMask : Nat) (z : List Sec) : L (List Sec) := do
  pubCond first
  let z1 ← if first then pure z else squarings n z m negInv
  multiPowEntries n cnt pes m negInv limbNum windowNum first firstMask z1

def multiPowLoop (n cnt : Nat) (pes : List (List (List Sec) × List Sec)) (m : List Sec) (negInv : Sec) (sl sw fm : Nat)
    (z : List Sec) : L (List Sec) :=
  forDown (sl + 1) (fun limbNum z =>
    forDown (if limbNum = sl then sw + 1 else 16) (fun windowNum z =>
      multiPowWindow n cnt pes m negInv limbNum windowNum (decide (limbNum = sl ∧ windowNum = sw)) fm z) z) z

/-- `compute_powers` for every base -/
def multiPowers (n cnt : Nat) (bes : List (List Sec × List Sec)) (m one' : List Sec) (negInv : Sec) :
    L (List (List (List Sec) × List Sec)) :=
  forN cnt (fun i acc => do
    pubIndex i
    let p ← computePowers n (bes.getD i ([], [])).1 m one' negInv
    pure (acc ++ [(p, (bes.getD i ([], [])).2)])) []

/-- `multi_exponentiate_montgomery_form_{array,slice}(bases_and_exponents[cnt], exponent_bits, …)` -/
def multiExp (n cnt : Nat) (bes : List (List Sec × List Sec)) (ebits : Nat) (m one' : List Sec) (negInv : Sec) : L (List Sec) := do
  pubCond (decide (ebits = 0))
  if ebits = 0 then pure one' else do
    let pes ← multiPowers n cnt bes m one' negInv
    multiPowLoop n cnt pes m negInv ((ebits - 1) / 64) (((ebits - 1) % 64) / 4) (2 ^ (((ebits - 1) % 64) % 4 + 1) - 1) one'


/-! ## `mul_mod_vartime` / `impl MulMod for Uint` (src/uint/mul_mod.rs:28-31,64-70; `rem_wide_vartime`, src/uint/div.rs:322-414):
variable-time in the MODULUS — its bit length becomes a loop bound -/

def shlLimbVartimeLoop (n : Nat) (a : List Sec) (shift limbsNum : Nat) : L (List Sec) :=
  forDown (limbsNum - 1) (fun k r => do
    pubIndex (k + 1); pubIndex k
    pure (r.set (k + 1) (or (shlPub (limb a (k + 1)) shift) (shrPub (limb a k) (64 - shift))))) (zeros n)

/-- `shl_limb_vartime(shift, limbs_num)`: both PUBLIC here (derived from the declassified bit length); (value, carry) -/
def shlLimbVartime (n : Nat) (a : List Sec) (shift limbsNum : Nat) : L (List Sec × Sec) := do
  pubCond (decide (shift = 0))
  if shift = 0 then pure (a, zero) else do
    pubIndex (limbsNum - 1)
    let l ← shlLimbVartimeLoop n a shift limbsNum
    pubIndex 0
    pure (l.set 0 (shlPub (limb a 0) shift), shrPub (limb a (limbsNum - 1)) (64 - shift))

def shrLimbVartimeLoop (n : Nat) (a : List Sec) (shift limbsNum : Nat) : L (List Sec) :=
  forN (limbsNum - 1) (fun i r => do
    pubIndex i; pubIndex (i + 1)
    pure (r.set i (or (shrPub (limb a i) shift) (shlPub (limb a (i + 1)) (64 - shift))))) (zeros n)

/-- `shr_limb_vartime(shift, limbs_num)` -/
def shrLimbVartime (n : Nat) (a : List Sec) (shift limbsNum : Nat) : L (List Sec) := do
  pubCond (decide (shift = 0))
  if shift = 0 then pure a else do
    let l ← shrLimbVartimeLoop n a shift limbsNum
    pubIndex (limbsNum - 1)
    pure (l.set (limbsNum - 1) (shrPub (limb a (limbsNum - 1)) shift))

/-- `rem_limb_with_reciprocal_wide((lo, hi), Reciprocal::new(d))`: the single-limb-divisor route -/
def remLimbWide (n : Nat) (lo hi : List Sec) (d : Sec) : L Sec := do
  let recip ← reciprocal (shl d (lz d))
  let ls ← shlLimb n lo (lz d)
  let hs ← shlLimb n hi (lz d)
  pubIndex 0
  let r1 ← remLimbLoop n (hs.1.set 0 (or (limb hs.1 0) ls.2)) (shl d (lz d)) recip hs.2
  let r2 ← remLimbLoop n ls.1 (shl d (lz d)) recip r1
  pure (shr r2 (lz d))

/-- `x[xi + i + 1 - yc] -= quo·y[i]` for `i < yc`; state = (x, carry, borrow) -/
def rwSubLoop (xi yc : Nat) (y : List Sec) (quo : Sec) (x : List Sec) : L (List Sec × Sec × Sec) :=
  forN yc (fun i st => do
    pubIndex i; pubIndex (xi + i + 1 - yc)
    pure (st.1.set (xi + i + 1 - yc) (Sec.sbb (limb st.1 (xi + i + 1 - yc)) (Sec.mac zero (limb y i) quo st.2.1).1 st.2.2).1,
          (Sec.mac zero (limb y i) quo st.2.1).2,
          (Sec.sbb (limb st.1 (xi + i + 1 - yc)) (Sec.mac zero (limb y i) quo st.2.1).1 st.2.2).2)) (x, zero, zero)

/-- masked add-back; state = (x, carry) -/
def rwAddLoop (xi yc : Nat) (y : List Sec) (ctBorrow : Sec) (x : List Sec) : L (List Sec × Sec) :=
  forN yc (fun i st => do
    pubIndex i; pubIndex (xi + i + 1 - yc)
    pure (st.1.set (xi + i + 1 - yc) (Sec.adc (limb st.1 (xi + i + 1 - yc)) (select zero (limb y i) ctBorrow) st.2).1,
          (Sec.adc (limb st.1 (xi + i + 1 - yc)) (select zero (limb y i) ctBorrow) st.2).2)) (x, zero)

def rwShiftLoop (n : Nat) (x : List Sec) : L (List Sec) :=
  forDown (n - 1) (fun k r => do
    pubIndex (k + 1); pubIndex k
    pure (r.set (k + 1) (limb r k))) x

/-- `while i > 0 { x[i] = x[i - 1] }` then `x[0] = x_lo[extra]` -/
def rwShiftIn (n : Nat) (x : List Sec) (w : Sec) : L (List Sec) := do
  let l ← rwShiftLoop n x
  pubIndex 0
  pure (l.set 0 w)

/-- trip `t` of the `loop` of `rem_wide_vartime`: the first `n` trips fetch a limb of the low half (`extra_limbs`),
the remaining ones walk `xi` down to `yc − 1`; state = (x, x_hi).  Which kind a trip is depends on `t`, `n`, `yc` only -/
def rwTrip (n yc t : Nat) (y xlo : List Sec) (recip : Sec) (st : List Sec × Sec) : L (List Sec × Sec) := do
  pubIndex (if t < n then n - 1 else 2 * n - 1 - t); pubIndex ((if t < n then n - 1 else 2 * n - 1 - t) - 1); pubIndex (yc - 1); pubIndex (yc - 2)
  let quo ← div3by2 st.2 (limb st.1 (if t < n then n - 1 else 2 * n - 1 - t)) (limb st.1 ((if t < n then n - 1 else 2 * n - 1 - t) - 1))
              (limb y (yc - 1)) recip (limb y (yc - 2))
  let s ← rwSubLoop (if t < n then n - 1 else 2 * n - 1 - t) yc y quo st.1
  let a ← rwAddLoop (if t < n then n - 1 else 2 * n - 1 - t) yc y (Sec.sbb st.2 s.2.1 s.2.2).2 s.1
  pubCond (decide (t < n))
  if t < n then do
    pubIndex (n - 1 - t)
    let x' ← rwShiftIn n a.1 (limb xlo (n - 1 - t))
    pure (x', limb a.1 (n - 1))
  else do
    pubCond (decide (2 * n - 1 - t = yc - 1))
    if 2 * n - 1 - t = yc - 1 then pure (a.1, limb a.1 (2 * n - 1 - t))
    else pure (a.1.set (2 * n - 1 - t) zero, limb a.1 (2 * n - 1 - t))

/-- the `loop` of `rem_wide_vartime`: `2·LIMBS − yc + 1` trips -/
def rwLoop (n yc : Nat) (y xlo : List Sec) (recip : Sec) (st : List Sec × Sec) : L (List Sec × Sec) :=
  forN (2 * n - yc + 1) (fun t st => rwTrip n yc t y xlo recip st) st

/-- `rem_wide_vartime` after `dbits = rhs.bits_vartime()` has become a public number: everything below is steered by
`dbits` (and the limb count) only -/
def remWideBody (n dbits : Nat) (lo hi d : List Sec) : L (List Sec) := do
  pubCond (decide ((dbits + 63) / 64 = 1))
  if (dbits + 63) / 64 = 1 then do
    pubIndex 0
    let r ← remLimbWide n lo hi (limb d 0)
    pure (fromWord n r)
  else do
    let y ← shlLimbVartime n d ((64 - dbits % 64) % 64) ((dbits + 63) / 64)
    let xl ← shlLimbVartime n lo ((64 - dbits % 64) % 64) n
    let xh ← shlLimbVartime n hi ((64 - dbits % 64) % 64) n
    pubCond (decide ((64 - dbits % 64) % 64 > 0))
    pubIndex ((dbits + 63) / 64 - 1)
    let recip ← reciprocal (limb y.1 ((dbits + 63) / 64 - 1))
    let st ← rwLoop n ((dbits + 63) / 64) y.1 xl.1 recip
      (if (64 - dbits % 64) % 64 > 0 then xh.1.set 0 (or (limb xh.1 0) xl.2) else xh.1, xh.2)
    shrLimbVartime n st.1 ((64 - dbits % 64) % 64) ((dbits + 63) / 64)

/-- `Uint::rem_wide_vartime((lo, hi), rhs)`: `dbits = rhs.bits_vartime()` is turned into loop bounds and shift amounts -/
def remWideVartime (n : Nat) (lo hi d : List Sec) : L (List Sec) := do
  let db ← bitsVartime n d
  let dbits ← declassify db
  remWideBody n dbits lo hi d

/-! ### `div_rem_vartime` / `rem_vartime` (src/uint/div.rs:190-306): variable-time in the DIVISOR only -/

/-- one quotient digit at position `xi` (public); state = (x, x_hi) -/
def dvTrip (yc xi : Nat) (y : List Sec) (recip : Sec) (st : List Sec × Sec) : L (List Sec × Sec) := do
  pubIndex xi; pubIndex (xi - 1); pubIndex (yc - 1); pubIndex (yc - 2)
  let quo ← div3by2 st.2 (limb st.1 xi) (limb st.1 (xi - 1)) (limb y (yc - 1)) recip (limb y (yc - 2))
  let s ← rwSubLoop xi yc y quo st.1
  let a ← rwAddLoop xi yc y (Sec.sbb st.2 s.2.1 s.2.2).2 s.1
  pure (a.1.set xi (select quo (sub quo one) (Sec.sbb st.2 s.2.1 s.2.2).2), limb a.1 xi)

/-- the `loop`: `xi` from `LIMBS − 1` down to `yc − 1` -/
def dvLoop (n yc : Nat) (y : List Sec) (recip : Sec) (st : List Sec × Sec) : L (List Sec × Sec) :=
  forN (n - yc + 1) (fun t st => dvTrip yc (n - 1 - t) y recip st) st

/-- `y[i] = x[i]` for `i < yc − 1`, `y[yc − 1] = x_hi` -/
def dvCopyRem (yc : Nat) (x : List Sec) (xHi : Sec) (y : List Sec) : L (List Sec) := do
  let l ← forN (yc - 1) (fun i r => do pubIndex i; pure (r.set i (limb x i))) y
  pubIndex (yc - 1)
  pure (l.set (yc - 1) xHi)

/-- `x[i] = x[i + yc − 1]` for `i ≤ LIMBS − yc`, else zero -/
def dvShiftQuo (n yc : Nat) (x : List Sec) : L (List Sec) :=
  forN n (fun i r => do
    pubCond (decide (i ≤ n - yc))
    pubIndex i
    if i ≤ n - yc then do pubIndex (i + yc - 1); pure (r.set i (limb r (i + yc - 1))) else pure (r.set i zero)) x

/-- `div_rem_vartime` after `dbits = rhs.bits_vartime()` has become public (same limb count on both sides) -/
def divRemVartimeBody (n dbits : Nat) (a d : List Sec) : L (List Sec × List Sec) := do
  pubCond (decide ((dbits + 63) / 64 = 1))
  if (dbits + 63) / 64 = 1 then do
    pubIndex 0
    let qr ← divRemLimb n a (limb d 0)
    pure (qr.1, fromWord n qr.2)
  else do
    pubCond (decide ((dbits + 63) / 64 > n))
    if (dbits + 63) / 64 > n then do
      let r ← resize n n a
      pure (zeros n, r)
    else do
      let xs ← shlLimbVartime n a ((64 - dbits % 64) % 64) n
      let ys ← shlLimbVartime n d ((64 - dbits % 64) % 64) ((dbits + 63) / 64)
      pubIndex ((dbits + 63) / 64 - 1)
      let recip ← reciprocal (limb ys.1 ((dbits + 63) / 64 - 1))
      let st ← dvLoop n ((dbits + 63) / 64) ys.1 recip (xs.1, xs.2)
      let yr ← dvCopyRem ((dbits + 63) / 64) st.1 st.2 ys.1
      let yv ← shrLimbVartime n yr ((64 - dbits % 64) % 64) ((dbits + 63) / 64)
      let q ← dvShiftQuo n ((dbits + 63) / 64) st.1
      pure (q, yv)

/-- `Uint::div_rem_vartime(rhs)` ("variable only with respect to `rhs`") -/
def divRemVartime (n : Nat) (a d : List Sec) : L (List Sec × List Sec) := do
  let db ← bitsVartime n d
  let dbits ← declassify db
  divRemVartimeBody n dbits a d

/-- `Uint::mul_mod_vartime(rhs, p)` and — NOT named vartime — `<Uint as MulMod>::mul_mod(rhs, p)`, which forwards to it -/
def mulModVartime (n : Nat) (a b p : List Sec) : L (List Sec) := do
  let lh ← splitMul n n a b
  remWideVartime n lh.1 lh.2 p

/-! ## `random_mod` (src/uint/rand.rs:99-159): rejection sampling — the trace is a function of the modulus' bit length
and of the accept / reject pattern of the RNG stream -/

/-- `while hi_word > hi_word_modulus { hi_word = next_word() & mask }`: a BRANCH on a candidate word; state = (hi_word, stream) -/
def rmHiLoop (fuel : Nat) (hiMod mask hi : Sec) (stream : List Sec) : L (Sec × List Sec) :=
  whileFuel fuel (fun st => do
    let gt ← branchOn (maskLt hiMod st.1)
    if gt then pure (some (and (st.2.headD zero) mask, st.2.drop 1)) else pure none) (hi, stream)

/-- `for i in 0..n_limbs - 1 { n[i] = next_word() }` -/
def rmLowLoop (nl : Nat) (stream c : List Sec) : L (List Sec) :=
  forN (nl - 1) (fun i c => do pubIndex i; pure (c.set i (limb stream i))) c

/-- one trip of the outer `loop`: settle the high word, draw the low limbs, test `n < modulus`; state = (n, hi_word, stream, done) -/
def rmTrip (n nl fuel : Nat) (modulus : List Sec) (mask : Sec) (st : List Sec × Sec × List Sec × Bool) :
    L (Option (List Sec × Sec × List Sec × Bool)) := do
  if st.2.2.2 then pure none else do
  pubIndex (nl - 1)
  let h ← rmHiLoop fuel (limb modulus (nl - 1)) mask st.2.1 st.2.2.1
  let cand ← rmLowLoop nl h.2 ((zeros n).set (nl - 1) h.1)
  let lt ← ult n cand modulus
  let ok ← declassify lt                                  -- `if n.ct_lt(modulus).into() { break }`
  if ok ≠ 0 then pure (some (cand, h.1, h.2.drop (nl - 1), true))
  else pure (some (cand, and (limb h.2 (nl - 1)) mask, h.2.drop nl, false))

/-- `random_mod_core(rng, n, modulus, n_bits)` with `n_bits` public and the RNG stream given as a list of words -/
def randomModCore (n fuel nbits : Nat) (modulus stream : List Sec) : L (List Sec) := do
  pubIndex ((nbits + 63) / 64 - 1)
  let st ← whileFuel fuel (rmTrip n ((nbits + 63) / 64) fuel modulus (shr Sec.max (lz (limb modulus ((nbits + 63) / 64 - 1)))))
    (zeros n, and (limb stream 0) (shr Sec.max (lz (limb modulus ((nbits + 63) / 64 - 1)))), stream.drop 1, false)
  pure st.1

/-- `Uint::random_mod(rng, modulus)` = `random_mod_core(rng, n, modulus, modulus.bits_vartime())` -/
def randomMod (n fuel : Nat) (modulus stream : List Sec) : L (List Sec) := do
  let nb ← bitsVartime n modulus
  let nbits ← declassify nb
  randomModCore n fuel nbits modulus stream

end CB.Leak
