/-
  CB.Model.Der — ASN.1 DER `INTEGER` codec of `Uint<LIMBS>` (src/uint/encoding/der.rs) together with
  the parts of the external `der` crate (0.8.0-rc.1) it runs through, modelled by their wire format:
  `Tag`/`Length`/`Header` decode+encode (X.690 definite length, minimal length octets),
  `asn1::integer::uint::{strip_leading_zeroes, needs_leading_zero, encoded_len, decode_to_slice}`,
  `UintRef::{new, decode_value, encode_value}`, `AnyRef::decode_as`, `SliceReader::finish`.
  The crate's own glue (`TryFrom<UintRef> for Uint`: length check, then right-aligned
  `copy_from_slice` into the `ByteArray`, offset by `saturating_sub`) is modelled exactly as written
  (after the repair `fix: DER decoding of an INTEGER longer than the target Uint panicked`).

  Byte strings are `List Nat` (each `< 256`), big endian.  `to_be_byte_array` / `from_be_byte_array`
  (src/uint/array.rs) are the positional expansion `beBytes` / `beVal` on the VALUE of the limbs
  (their limb-level exactness is property C16).  Core Lean only.
-/
import CB.Model.Basic
namespace CB.Der
open CB

/-- value of a big-endian byte string -/
def beVal : List Nat → Nat
  | [] => 0
  | b :: bs => b * 256 ^ bs.length + beVal bs

/-- `x` as exactly `n` big-endian bytes (truncating) -/
def beBytes : Nat → Nat → List Nat
  | 0, _ => []
  | n + 1, x => (x / 256 ^ n) % 256 :: beBytes n x

/-- result of a decoder: a value (limbs), an error, or a panic -/
inductive Dec where
  | ok (v : List Nat)
  | err
  | panic
  deriving DecidableEq

/-- `Length::MAX` of the `der` crate (256 MiB - 1) -/
def derMaxLen : Nat := 268435455

/-- `strip_leading_zeroes`: drops leading `0x00` octets but always keeps the last octet -/
def stripLeadingZeroes : List Nat → List Nat
  | [] => []
  | [b] => [b]
  | b :: c :: rest => if b = 0 then stripLeadingZeroes (c :: rest) else b :: c :: rest

/-- `needs_leading_zero`: first octet `>= 0x80` -/
def needsLeadingZero : List Nat → Bool
  | b :: _ => decide (128 ≤ b)
  | [] => false

/-- `Length + Length` (checked against `Length::MAX`) -/
def derLenAdd (a b : Nat) : Option Nat := if a + b ≤ derMaxLen then some (a + b) else none

/-- `uint::encoded_len(bytes)`: `Length::try_from(stripped.len())? + u8::from(needs_leading_zero)` -/
def derUintEncodedLen (bytes : List Nat) : Option Nat :=
  let s := stripLeadingZeroes bytes
  if s.length ≤ derMaxLen then derLenAdd s.length (if needsLeadingZero s then 1 else 0) else none

/-- `UintRef::new`: `BytesRef::new(strip_leading_zeroes(bytes))` -/
def uintRefNew (bytes : List Nat) : Option (List Nat) :=
  let s := stripLeadingZeroes bytes
  if s.length ≤ derMaxLen then some s else none

/-- number of length octets after the initial one in the long form (`Length::encode` strips the
    leading zero octets of the big-endian `u32`) -/
def derLenOctets (len : Nat) : Nat :=
  if len ≤ 255 then 1 else if len ≤ 65535 then 2 else if len ≤ 16777215 then 3 else 4

/-- `Length::initial_octet`: `None` for the short form, `0x80 + k` for the long form -/
def derLengthInitialOctet (len : Nat) : Option Nat :=
  if len < 128 then none
  else if len ≤ derMaxLen then some (128 + derLenOctets len)
  else none

/-- `Length::encode` (for `len ≤ Length::MAX`): short form, or `0x80+k` and the `k` minimal octets -/
def derLengthEncode (len : Nat) : List Nat :=
  if len < 128 then [len] else (128 + derLenOctets len) :: beBytes (derLenOctets len) len

/-- `Length::encoded_len` -/
def derLengthEncodedLen (len : Nat) : Option Nat :=
  if len < 128 then some 1
  else if len ≤ derMaxLen then some (1 + derLenOctets len)
  else none

/-- acceptance test of a long-form length: `Length::try_from(decoded)?` and
    `length.initial_octet() == Some(tag)` (X.690 §10.1 minimal number of length octets) -/
def derLongLen (tag len : Nat) (rest : List Nat) : Option (Nat × List Nat) :=
  if len ≤ derMaxLen ∧ derLengthInitialOctet len = some tag then some (len, rest) else none

/-- `Length::decode`: returns the length and the remaining input. `0x80` (indefinite) and
    `0x85..` are errors; `0x81..=0x84` read `k` octets big endian (`decoded << 8 | byte`). -/
def derLengthDecode : List Nat → Option (Nat × List Nat)
  | [] => none
  | l :: rest =>
    if l < 128 then some (l, rest)
    else if 129 ≤ l ∧ l ≤ 132 then
      (if rest.length < l - 128 then none
       else derLongLen l (beVal (rest.take (l - 128))) (rest.drop (l - 128)))
    else none

/-- `decode_to_slice`: unsigned content octets → magnitude without the sign pad -/
def derDecodeToSlice : List Nat → Option (List Nat)
  | [] => none                                            -- empty content: non-canonical
  | [b] => if 128 ≤ b then none else some [b]              -- `[0]` is zero; `>= 0x80` is negative
  | b :: c :: rest =>
    if b = 0 then (if c < 128 then none else some (c :: rest))   -- superfluous / needed 0x00 pad
    else if 128 ≤ b then none                                   -- negative
    else some (b :: c :: rest)

/-- second half of `UintRef::decode_value`: `Self::new(slice)?`, then "ensure we compute the same
    encoded length as the original any value" (`hlen` is `header.length`) -/
def uintRefFinish (s : List Nat) (hlen : Nat) : Option (List Nat) :=
  match uintRefNew s with
  | none => none
  | some r =>
    match derUintEncodedLen r with
    | none => none
    | some l => if l = hlen then some r else none

/-- `UintRef::decode_value` on the content octets already taken from the reader by
    `BytesRef::decode_value`.  Returns `UintRef::as_bytes()`. -/
def uintRefDecodeValue (content : List Nat) (hlen : Nat) : Option (List Nat) :=
  match derDecodeToSlice content with
  | none => none
  | some s => uintRefFinish s hlen

/-- `array[offset..].copy_from_slice(src)`: defined only if `offset ≤ len` and the lengths agree -/
def copyIntoTail (array : List Nat) (offset : Nat) (src : List Nat) : Option (List Nat) :=
  if offset ≤ array.length ∧ array.length - offset = src.length then some (array.take offset ++ src)
  else none

/-- crate glue `TryFrom<UintRef> for Uint<LIMBS>` (der.rs:26-34) on `bytes = UintRef::as_bytes()`:
    `if len > BYTES { return Err(length_error) }`, `offset = BYTES.saturating_sub(len)`, copy,
    `from_be_byte_array`. A failed copy would be a panic (unreachable behind the length check:
    `CB.P18.glue_never_panics`). -/
def uintFromUintRef (n : Nat) (bytes : List Nat) : Dec :=
  let array := List.replicate (8 * n) 0
  if array.length < bytes.length then .err else
  let offset := array.length - bytes.length
  match copyIntoTail array offset bytes with
  | none => .panic
  | some arr => .ok (toLimbs n (beVal arr))

/-- `DecodeValue for Uint<LIMBS>`: `UintRef::decode_value(reader, header)?.try_into()` -/
def derDecodeValue (n : Nat) (content : List Nat) (hlen : Nat) : Dec :=
  match uintRefDecodeValue content hlen with
  | none => .err
  | some r => uintFromUintRef n r

/-- `Uint::<LIMBS>::from_der(bytes)`: `SliceReader::new`, `Header::decode` (one-octet tag, then
    length), tag must be INTEGER (0x02), `read_slice(length)`, `decode_value`, `finish` (no
    trailing data). -/
def derFromDer (n : Nat) (bs : List Nat) : Dec :=
  if derMaxLen < bs.length then .err else
  match bs with
  | [] => .err
  | t :: r1 =>
    match derLengthDecode r1 with
    | none => .err
    | some (len, r2) =>
      if t ≠ 2 then .err
      else if r2.length < len then .err
      else
        match derDecodeValue n (r2.take len) len with
        | .ok v => if (r2.drop len).isEmpty then .ok v else .err
        | r => r

/-- `TryFrom<AnyRef> for Uint<LIMBS>` on `AnyRef::new(tag, content)`: `decode_as` checks the tag,
    builds the header from the content length, decodes the value, finishes. -/
def derFromAny (n : Nat) (tag : Nat) (content : List Nat) : Dec :=
  if derMaxLen < content.length then .err
  else if tag ≠ 2 then .err
  else derDecodeValue n content content.length

/-- `AnyRef::from_der(bytes)` followed by `Uint::try_from(any)`: the trailing-data check of
    `from_der` now comes BEFORE the conversion. `tagOk t` says whether `Tag::try_from(t)` succeeds. -/
def derAnyFromDer (n : Nat) (bs : List Nat) : Dec :=
  if derMaxLen < bs.length then .err else
  match bs with
  | [] => .err
  | t :: r1 =>
    match derLengthDecode r1 with
    | none => .err
    | some (len, r2) =>
      if r2.length < len then .err
      else if !(r2.drop len).isEmpty then .err
      else derFromAny n t (r2.take len)

/-- `Uint::try_from(UintRef::new(bytes)?)` -/
def derFromUintRefNew (n : Nat) (bytes : List Nat) : Dec :=
  match uintRefNew bytes with
  | none => .err
  | some r => uintFromUintRef n r

/-- `EncodeValue::value_len` of `Uint<LIMBS>` (limbs `a`, `n` limbs) -/
def derValueLen (n : Nat) (a : List Nat) : Option Nat :=
  match uintRefNew (beBytes (8 * n) (val a)) with
  | none => none
  | some r => derUintEncodedLen r

/-- `EncodeValue::encode_value`: `UintRef::new(&to_be_byte_array())?.encode_value(w)`: a `0x00`
    pad iff `value_len > len`, then the stripped magnitude -/
def derEncodeValue (n : Nat) (a : List Nat) : Option (List Nat) :=
  match uintRefNew (beBytes (8 * n) (val a)) with
  | none => none
  | some r =>
    match derUintEncodedLen r with
    | none => none
    | some vl => some ((if r.length < vl then [0] else []) ++ r)

/-- `Encode::encoded_len`: `value_len()?.for_tlv()` = `1 + len(len) + len` -/
def derEncodedLen (n : Nat) (a : List Nat) : Option Nat :=
  match derValueLen n a with
  | none => none
  | some vl =>
    match derLengthEncodedLen vl with
    | none => none
    | some ll =>
      match derLenAdd 1 ll with
      | none => none
      | some h => derLenAdd h vl

/-- `Encode::encode`: header (tag 0x02, length) then the value -/
def derEncode (n : Nat) (a : List Nat) : Option (List Nat) :=
  match derValueLen n a with
  | none => none
  | some vl =>
    match derEncodeValue n a with
    | none => none
    | some v => some (2 :: derLengthEncode vl ++ v)

/-- `Encode::to_der` (`encode_to_vec`: expected length, encode, lengths must agree) -/
def derToDer (n : Nat) (a : List Nat) : Option (List Nat) :=
  match derEncodedLen n a with
  | none => none
  | some el =>
    match derEncode n a with
    | none => none
    | some bs => if bs.length = el then some bs else none

/-- `Encode::encode_to_slice` into a buffer of `cap` octets -/
def derEncodeToSlice (n : Nat) (a : List Nat) (cap : Nat) : Option (List Nat) :=
  match derEncode n a with
  | none => none
  | some bs => if bs.length ≤ cap then some bs else none

/-- L0: what property C18 demands of a decoder — the same accepted set, and an error (never a
    panic) everywhere else.  `CB.P18.derSpec_ok_iff` pins it down: `ok a` iff `bs` is the canonical
    encoding of `a`.  Since the repair of the glue it coincides with L1 (`CB.P18.derSpec_eq_model`). -/
def failClosed : Dec → Dec
  | .panic => .err
  | r => r

def derSpecFromDer (n : Nat) (bs : List Nat) : Dec := failClosed (derFromDer n bs)

end CB.Der
