/-
  CB.Model.Rlp — RLP codec of `Uint<LIMBS>` (src/uint/encoding/rlp.rs) and the parts of the external
  `rlp` crate (0.6.1) it runs through: `BasicEncoder::encode_value` (string header forms),
  `BasicDecoder::decode_value` and `decode_usize` — modelled AS WRITTEN, including the two
  leniencies of that decoder (bytes after the item are ignored; a long-form header is accepted for
  a payload of at most 55 octets).  The crate's glue: strip ALL leading zero octets on encode;
  reject a leading zero octet and an oversize payload (`checked_sub`) on decode, right-aligned copy.
  `rlp::Decodable` exists only for `BYTES ≤ 32` (`Repr: Default`), the model is width-generic.
  Core Lean only.
-/
import CB.Model.Der
namespace CB.Rlp
open CB CB.Der

/-- rlp.rs:13-15 `while bytes_stripped.first() == Some(0)`: strips every leading zero octet -/
def rlpStrip : List Nat → List Nat
  | [] => []
  | b :: rest => if b = 0 then rlpStrip rest else b :: rest

/-- `insert_size`: `size as u32`, big endian, without its leading zero octets -/
def rlpSizeBytes (len : Nat) : List Nat := rlpStrip (beBytes 4 len)

/-- `BasicEncoder::encode_value` (a string item) -/
def rlpEncodeValue (v : List Nat) : List Nat :=
  match v with
  | [] => [128]
  | first :: tail =>
    if v.length ≤ 55 then
      (if v.length = 1 ∧ first < 128 then [first]              -- a byte below 0x80 is its own encoding
       else (128 + v.length) :: first :: tail)                 -- 0x80 + len, then the string
    else
      let sz := rlpSizeBytes v.length
      (183 + sz.length) :: sz ++ v                             -- 0xb7 + len(len), len, string

/-- `rlp::encode(&uint)` -/
def rlpEncode (n : Nat) (a : List Nat) : List Nat :=
  rlpEncodeValue (rlpStrip (beBytes (8 * n) (val a)))

/-- the closure passed to `decode_value` in rlp.rs:28-42 -/
def rlpGlue (n : Nat) (bytes : List Nat) : Dec :=
  if bytes.head? = some 0 then .err                           -- RlpInvalidIndirection
  else
    let repr := List.replicate (8 * n) 0
    if repr.length < bytes.length then .err                   -- checked_sub → RlpIsTooBig
    else
      match copyIntoTail repr (repr.length - bytes.length) bytes with
      | none => .panic                                        -- unreachable (rlp_glue_no_panic)
      | some arr => .ok (toLimbs n (beVal arr))

/-- `decode_usize` on 1..=8 octets (the caller never passes an empty slice) -/
def rlpDecodeUsize (bs : List Nat) : Option Nat :=
  if bs.length ≤ 8 then (if bs.head? = some 0 then none else some (beVal bs)) else none

/-- `d[0] < 0x80` -/
def rlpFirstLt128 : List Nat → Bool
  | x :: _ => decide (x < 128)
  | [] => false

/-- `rlp::decode::<Uint<LIMBS>>(bs)` = `BasicDecoder::decode_value` with the closure above -/
def rlpDecode (n : Nat) (bs : List Nat) : Dec :=
  match bs with
  | [] => .err                                                -- RlpIsTooShort
  | l :: _ =>
    if l ≤ 127 then rlpGlue n [l]
    else if l ≤ 183 then
      let last := 1 + l - 128
      if bs.length < last then .err                           -- RlpInconsistentLengthAndData
      else
        let d := (bs.take last).drop 1
        if l = 129 ∧ rlpFirstLt128 d = true then .err            -- RlpInvalidIndirection
        else rlpGlue n d
    else if l ≤ 191 then
      let begin := 1 + (l - 183)
      if bs.length < begin then .err
      else
        match rlpDecodeUsize ((bs.take begin).drop 1) with
        | none => .err
        | some len =>
          let last := begin + len
          if 18446744073709551616 ≤ last then .err            -- checked_add on usize
          else if bs.length < last then .err
          else rlpGlue n ((bs.take last).drop begin)
    else .err                                                 -- a list: RlpExpectedToBeData

/-- `RlpStream::new_list(1)`, `append(&uint)`, `out()` for an item of at most 55 octets -/
def rlpList1 (n : Nat) (a : List Nat) : List Nat :=
  let item := rlpEncode n a
  (192 + item.length) :: item

/-- a bounded list of items (`RlpStream::new_list(k)` + `append` per element): `0xc0 + len` / `0xf7 + len(len), len`, payload -/
def rlpListOf (items : List (List Nat)) : List Nat :=
  let payload := items.foldr (· ++ ·) []
  if payload.length ≤ 55 then (192 + payload.length) :: payload
  else
    let sz := rlpSizeBytes payload.length
    (247 + sz.length) :: sz ++ payload

/-- L0: the strict decoder property C18 demands — accept exactly the canonical encoding
    (`CB.P18.rlpSpec_ok_iff`), an error on everything else. -/
def rlpSpecDecode (n : Nat) (bs : List Nat) : Dec :=
  match rlpDecode n bs with
  | .ok a => if rlpEncode n a = bs then .ok a else .err
  | _ => .err

end CB.Rlp
