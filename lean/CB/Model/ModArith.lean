/-
  CB.Model.ModArith — modular add / sub / neg / double / mul / halve of `Uint<LIMBS>` and `BoxedUint`
  as the crate computes them (property C07).

  Rust anchors (read them next to this file):
    src/uint/add_mod.rs      add_mod, add_mod_special, double_mod
    src/uint/sub_mod.rs      sub_mod, sub_mod_with_carry, sub_mod_special
    src/uint/neg_mod.rs      neg_mod, neg_mod_special
    src/uint/mul_mod.rs      mul_mod (Montgomery route), mul_mod_vartime, mul_mod_special, mac_by_limb
    src/modular/div_by_2.rs  div_by_2, div_by_2_boxed_assign
    src/uint/boxed/{add_mod,sub_mod,neg_mod,mul_mod}.rs   the boxed duplicates
    helpers mirrored here because the code above is built from them:
    src/uint/shl.rs overflowing_shl1, src/uint/shr.rs shr1, src/uint/bits.rs set_bit,
    src/uint/bit_and.rs bitand_limb, src/uint/from.rs from_word / from_wide_word,
    src/uint/boxed/add.rs conditional_adc_assign, src/uint/boxed.rs fold_limbs / is_zero.

  Called algorithms of OTHER properties are used at value level and named where they occur:
    `split_mul` / `BoxedUint::mul` (exact product: C03), `mul_rem` / `rem_wide_vartime`
    (exact remainder: C02), Montgomery multiplication round trip (C08).
  Core Lean only.
-/
import CB.Model.Uint
namespace CB.ModArith
open CB

/-! ### small constructors -/

/-- `Uint::bitand_limb`: every limb `& rhs`. -/
def bitandLimb : List Nat → Nat → List Nat
  | [], _ => []
  | x :: xs, m => (x &&& m) :: bitandLimb xs m

/-- `Uint::<LIMBS>::from_word` (`LIMBS ≥ 1` is asserted by the crate). -/
def fromWord : Nat → Nat → List Nat
  | 0, _ => []
  | n + 1, w => w :: uzero n

/-- `Uint::<LIMBS>::from_wide_word` (`LIMBS ≥ 2` is asserted by the crate; `mul_mod_special`
    only reaches it with `LIMBS ≥ 2`). -/
def fromWideWord : Nat → Nat → List Nat
  | n + 2, w => (w % B) :: (w / B % B) :: uzero n
  | _, _ => []

/-- zero-extension of a boxed operand inside `BoxedUint::fold_limbs` (`get(i).unwrap_or(ZERO)`). -/
def padTo (n : Nat) (l : List Nat) : List Nat := l ++ uzero (n - l.length)

/-! ### `Uint::overflowing_shl1` (src/uint/shl.rs) / `BoxedUint::shl1_assign` (same data flow) -/

/-- per limb: `(limb << 1) | carry`, new carry `limb >> HI_BIT`. -/
def shl1Loop : List Nat → Nat → List Nat × Nat
  | a :: as, carry =>
    let r := shl1Loop as (a / HALF)
    ((((a * 2) % B) ||| carry) :: r.1, r.2)
  | [], carry => ([], carry)

def overflowingShl1 (a : List Nat) : List Nat × Nat := shl1Loop a 0

/-! ### `add_mod`, `double_mod` (src/uint/add_mod.rs) -/

/-- the common tail: `w.sbb(p)`, `carry.sbb(0, borrow)` gives the mask, `w + (p & mask)`. -/
def addModTail (w : List Nat) (carry : Nat) (p : List Nat) : List Nat :=
  let r := usbb w p 0
  let mask := (sbb carry 0 r.2).2
  wrappingAdd r.1 (bitandLimb p mask)

/-- `Uint::add_mod`. -/
def addMod (a b p : List Nat) : List Nat :=
  let s := uadc a b 0
  addModTail s.1 s.2 p

/-- `Uint::double_mod`. -/
def doubleMod (a p : List Nat) : List Nat :=
  let s := overflowingShl1 a
  addModTail s.1 s.2 p

/-- `Uint::add_mod_special`: `adc(rhs, c)`, then subtract `(carry - 1) & c`. -/
def addModSpecial (a b : List Nat) (c : Nat) : List Nat :=
  let s := uadc a b c
  let l := (wsub s.2 1) &&& c
  wrappingSub s.1 (fromWord a.length l)

/-! ### `sub_mod`, `sub_mod_with_carry`, `sub_mod_special` (src/uint/sub_mod.rs) -/

def subMod (a b p : List Nat) : List Nat :=
  let r := usbb a b 0
  wrappingAdd r.1 (bitandLimb p r.2)

/-- `mask = carry.wrapping_neg().not().bitand(borrow)`. -/
def subModWithCarry (a : List Nat) (carry : Nat) (b p : List Nat) : List Nat :=
  let r := usbb a b 0
  let mask := (wnot (wneg carry)) &&& r.2
  wrappingAdd r.1 (bitandLimb p mask)

def subModSpecial (a b : List Nat) (c : Nat) : List Nat :=
  let r := usbb a b 0
  let l := r.2 &&& c
  wrappingSub r.1 (fromWord a.length l)

/-! ### `neg_mod`, `neg_mod_special` (src/uint/neg_mod.rs) -/

/-- `ret.limbs[i] = z.if_true_word(ret.limbs[i])` = `limb & z`. -/
def negMod (a p : List Nat) : List Nat :=
  let z := isNonzero a
  bitandLimb (usbb p a 0).1 z

def negModSpecial (a : List Nat) (c : Nat) : List Nat :=
  subModSpecial (uzero a.length) a c

/-! ### `mul_mod_special` (src/uint/mul_mod.rs) -/

/-- `mac_by_limb(a, b, c, carry)`: `a.limbs[i].mac(b.limbs[i], c, carry)` limb by limb. -/
def macByLimb : List Nat → List Nat → Nat → Nat → List Nat × Nat
  | a :: as, b :: bs, c, carry =>
    let m := mac a b c carry
    let r := macByLimb as bs c m.2
    (m.1 :: r.1, r.2)
  | _, _, _, carry => ([], carry)

/-- the reduction of the double-width product `(lo, hi)` by HAC 14.47 as the crate writes it.
    The increment is done in the wide type (`(carry.0 as WideWord + 1) * c.0 as WideWord`, /repo
    commit a301fd3), so it cannot overflow: `(MAX + 1)·MAX` still fits the wide word. -/
def specialReduce (lo hi : List Nat) (c : Nat) : List Nat :=
  let m := macByLimb lo hi c 0
  let rhs := (m.2 + 1) * c
  let s := uadc m.1 (fromWideWord lo.length rhs) 0
  let rhs2 := (wsub s.2 1) &&& c
  (usbb s.1 (fromWord lo.length rhs2) 0).1

/-- `Uint::mul_mod_special`.  `LIMBS == 1`: `mul_rem(a, b, 0 - c)` (exact remainder: C02);
    otherwise `split_mul` (exact product: C03) followed by the reduction above. -/
def mulModSpecial (a b : List Nat) (c : Nat) : List Nat :=
  if a.length = 1 then
    [(a.headD 0 * b.headD 0) % (wsub 0 c)]
  else
    let prod := val a * val b
    let lo := toLimbs a.length prod
    let hi := toLimbs a.length (prod / B ^ a.length)
    specialReduce lo hi c

/-! ### `mul_mod` (Montgomery route) and `mul_mod_vartime` — value level -/

/-- `Uint::mul_mod` / `BoxedUint::mul_mod`: `(MontyForm::new(a) * MontyForm::new(b)).retrieve()`.
    Value level; the refinement "Montgomery round trip = a·b mod p for odd p" is property C08. -/
def mulMod (a b p : List Nat) : List Nat := toLimbs a.length ((val a * val b) % val p)

/-- `Uint::mul_mod_vartime`: `rem_wide_vartime(split_mul(a, b), p)`.
    Value level; exact product is C03, exact wide remainder is C02. -/
def mulModVartime (a b p : List Nat) : List Nat := toLimbs a.length ((val a * val b) % val p)

/-! ### `div_by_2` (src/modular/div_by_2.rs) -/

/-- `Uint::shr1` / `BoxedUint::shr1_assign`: limb `i` becomes `(x_i >> 1) | (x_{i+1} << HI_BIT)`. -/
def shr1 : List Nat → List Nat
  | [] => []
  | [x] => [x / 2]
  | x :: y :: ys => ((x / 2) ||| ((y * HALF) % B)) :: shr1 (y :: ys)

/-- `Uint::set_bit(index, bit_value)` loop; `i` is the running limb index.  The limb-index
    comparison `from_u32_eq(i, limb_num)` is used at value level (C06). -/
def setBitLoop : List Nat → Nat → Nat → Nat → Nat → List Nat
  | [], _, _, _, _ => []
  | x :: xs, i, limbNum, indexMask, bit =>
    let isRight := if i = limbNum then WMAX else 0
    let newLimb := selectWord (x &&& wnot indexMask) (x ||| indexMask) bit
    selectWord x newLimb isRight :: setBitLoop xs (i + 1) limbNum indexMask bit

def setBit (a : List Nat) (index bit : Nat) : List Nat :=
  setBitLoop a 0 (index / 64) (2 ^ (index % 64)) bit

/-- `div_by_2(a, modulus)`. -/
def divBy2 (a m : List Nat) : List Nat :=
  let isOddA := isOdd a
  let s := uadc a m 0
  let carry := selectWord 0 s.2 isOddA            -- `Limb::select(ZERO, carry, is_odd)`
  let sel := uselect a s.1 isOddA
  setBit (shr1 sel) (64 * a.length - 1) (fromWordNonzero carry)

/-! ### BoxedUint duplicates (src/uint/boxed/*.rs) -/

/-- `BoxedUint::adc` via `fold_limbs`: both operands zero-extended to the longer one. -/
def bAdc (a b : List Nat) (c : Nat) : List Nat × Nat :=
  let n := max a.length b.length
  uadc (padTo n a) (padTo n b) c

/-- `BoxedUint::sbb` via `fold_limbs`. -/
def bSbb (a b : List Nat) (bw : Nat) : List Nat × Nat :=
  let n := max a.length b.length
  usbb (padTo n a) (padTo n b) bw

/-- `BoxedUint::conditional_adc_assign(rhs, choice)`: `mask = select(0, MAX, choice)`,
    `self.limbs[i].adc(rhs.limbs.get(i).unwrap_or(0) & mask, carry)`. -/
def condAdcLoop : List Nat → List Nat → Nat → Nat → List Nat × Nat
  | a :: as, rhs, m, c =>
    let w := adc a (rhs.headD 0 &&& m) c
    let r := condAdcLoop as rhs.tail m w.2
    (w.1 :: r.1, r.2)
  | [], _, _, c => ([], c)

/-- `BoxedUint::is_zero`: fold of `acc & limb.is_zero()` over the limbs, as a mask word. -/
def bIsZero : List Nat → Nat
  | [] => WMAX
  | x :: xs => fromWordEq x 0 &&& bIsZero xs

/-- shared tail of boxed `add_mod_assign` / `double_mod`; the choice is `!borrow.is_zero()`. -/
def bAddModTail (w : List Nat) (carry : Nat) (p : List Nat) : List Nat :=
  let r := usbb w p 0                              -- `sbb_assign(p, 0)` (equal precision asserted)
  let borrow := (sbb carry 0 r.2).2
  (condAdcLoop r.1 p (fromWordNonzero borrow) 0).1

/-- `BoxedUint::add_mod` / `add_mod_assign` (precisions equal: `debug_assert`). -/
def bAddMod (a b p : List Nat) : List Nat :=
  let s := uadc a b 0                              -- `adc_assign`
  bAddModTail s.1 s.2 p

def bDoubleMod (a p : List Nat) : List Nat :=
  let s := overflowingShl1 a
  bAddModTail s.1 s.2 p

def bSubMod (a b p : List Nat) : List Nat :=
  let r := bSbb a b 0
  (condAdcLoop r.1 p (fromWordNonzero r.2) 0).1

/-- `sub_assign_mod_with_carry` (crate-internal). -/
def bSubModWithCarry (a : List Nat) (carry : Nat) (b p : List Nat) : List Nat :=
  let r := usbb a b 0
  let mask := (wnot (wneg carry)) &&& r.2
  (condAdcLoop r.1 p (fromWordNonzero mask) 0).1

/-- `out.wrapping_sub(&Self::from(l))` with a one-limb right operand. -/
def bSubModSpecial (a b : List Nat) (c : Nat) : List Nat :=
  let r := bSbb a b 0
  let l := r.2 &&& c
  (bSbb r.1 [l] 0).1

/-- `ret.limbs[i].conditional_assign(&ZERO, is_zero)`. -/
def zeroIf : List Nat → Nat → List Nat
  | [], _ => []
  | x :: xs, z => selectWord x 0 z :: zeroIf xs z

def bNegMod (a p : List Nat) : List Nat :=
  zeroIf (bSbb p a 0).1 (bIsZero a)

def bNegModSpecial (a : List Nat) (c : Nat) : List Nat :=
  bSubModSpecial (uzero a.length) a c

/-- `BoxedUint::mul_mod_special`: the product comes from `BoxedUint::mul` (C03) and is split with
    `split_at(nlimbs)`; the constants are built with `From<u128>` (two limbs) / `From<Word>` (one
    limb) and zero-extended by `fold_limbs`. -/
def bMulModSpecial (a b : List Nat) (c : Nat) : List Nat :=
  if a.length = 1 then
    [(a.headD 0 * b.headD 0) % (wsub 0 c)]
  else
    let prod := toLimbs (a.length + b.length) (val a * val b)
    let lo := prod.take a.length
    let hi := prod.drop a.length
    let m := macByLimb lo hi c 0
    let rhs := (m.2 + 1) * c
    let s := bAdc m.1 (toLimbs 2 rhs) 0
    let rhs2 := (wsub s.2 1) &&& c
    (bSbb s.1 [rhs2] 0).1

/-- `div_by_2_boxed_assign`: `conditional_adc_assign(modulus, is_odd)`, `shr1_assign`,
    `set_bit(bits_precision - 1, carry)`. -/
def bDivBy2 (a m : List Nat) : List Nat :=
  let r := condAdcLoop a m (isOdd a) 0
  setBit (shr1 r.1) (64 * a.length - 1) (fromWordLsb (r.2 &&& 1))

end CB.ModArith
