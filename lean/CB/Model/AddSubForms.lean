/-
  CB.Model.AddSubForms — the remaining add / sub / neg forms of C04: boxed in-place forms that iterate
  over the receiver's limbs only (src/uint/boxed/{add,sub}.rs), operator forms that panic on
  overflow, `Checked<T>` (sticky none) and `Wrapping<T>`, `Limb` forms.
-/
import CB.Model.Cmp
namespace CB.AddSub
open CB CB.Cmp

/-- `rhs.as_ref().get(i).unwrap_or(&Limb::ZERO)` for `i in 0..self.nlimbs()`: rhs zero-extended or
    TRUNCATED to the receiver's limb count. -/
def rhsFor (self rhs : List Nat) : List Nat := (pad self.length rhs).take self.length

/-- the loop of `BoxedUint::adc_assign` (after its `assert!` on the precisions) -/
def adcAssign (self rhs : List Nat) (c : Nat) : List Nat × Nat := uadc self (rhsFor self rhs) c
/-- the loop of `BoxedUint::sbb_assign`. -/
def sbbAssign (self rhs : List Nat) (bw : Nat) : List Nat × Nat := usbb self (rhsFor self rhs) bw
/-- `assert!(self.bits_precision() >= rhs.len() * Limb::BITS)`: `true` = the call panics -/
def assignPanics (self rhs : List Nat) : Bool := decide (self.length < rhs.length)

/-- `&a + &b` on boxed values: `checked_add(..).expect(..)`; `none` = panic. -/
def boxedOpAdd (a b : List Nat) : Option (List Nat) :=
  if (badc a b 0).2 = 0 then some (badc a b 0).1 else none
def boxedOpSub (a b : List Nat) : Option (List Nat) :=
  if (bsbb a b 0).2 = 0 then some (bsbb a b 0).1 else none
/-- `a += &b`: `adc_assign` then `assert carry == 0`. -/
def boxedAddAssign (a b : List Nat) : Option (List Nat) :=
  if assignPanics a b then none
  else if (adcAssign a b 0).2 = 0 then some (adcAssign a b 0).1 else none
def boxedSubAssign (a b : List Nat) : Option (List Nat) :=
  if assignPanics a b then none
  else if (sbbAssign a b 0).2 = 0 then some (sbbAssign a b 0).1 else none
/-- `Wrapping<BoxedUint> += / -=`: `adc_assign` / `sbb_assign` without an overflow check; `none` = panic -/
def boxedWrappingAddAssign (a b : List Nat) : Option (List Nat) :=
  if assignPanics a b then none else some (adcAssign a b 0).1
def boxedWrappingSubAssign (a b : List Nat) : Option (List Nat) :=
  if assignPanics a b then none else some (sbbAssign a b 0).1

/-- `Checked<T>` addition / subtraction: `none` is sticky. -/
def checkedAddO (a b : Option (List Nat)) : Option (List Nat) :=
  match a, b with
  | some x, some y => if (checkedAdd x y).2 = WMAX then some (checkedAdd x y).1 else none
  | _, _ => none
def checkedSubO (a b : Option (List Nat)) : Option (List Nat) :=
  match a, b with
  | some x, some y => if (checkedSub x y).2 = WMAX then some (checkedSub x y).1 else none
  | _, _ => none

/-- `Limb::saturating_add` / `saturating_sub` (the primitive integer methods). -/
def limbSatAdd (a b : Nat) : Nat := if a + b < B then a + b else WMAX
def limbSatSub (a b : Nat) : Nat := a - b

end CB.AddSub
