/-
  CB.Model.Lincomb — linear combinations Σ aᵢ·bᵢ of Montgomery-form values as the code computes them
  (property C09).

  Mirrors
    src/modular/lincomb.rs        impl_longa_monty_lincomb! (Longa's coarse interleaved sum of products,
                                  Algorithm 2 for B = 1), lincomb_const_monty_form, lincomb_monty_form,
                                  lincomb_boxed_monty_form (`max_accum = 1 << mod_leading_zeros` chunking)
    src/modular/{monty_form,const_monty_form,boxed_monty_form}/lincomb.rs   lincomb_vartime wrappers
  Calls into property C08's / C07's model (CB.Model.Monty): `subModWithCarry`, `addMod`,
  `bSubAssignModWithCarry`.
  Style: pair results are taken with `.1` / `.2`. Core Lean only.
-/
import CB.Model.Monty
namespace CB.Lincomb
open CB CB.Monty

/-! ## one accumulation window: `impl_longa_monty_lincomb!` -/

/-- `while k < nlimbs { (u[k], carry) = u[k].mac(ai.limbs[j], bi.limbs[k], carry); k += 1 }`;
    `aj = ai.limbs[j]`. Returns the new `u` and the carry. -/
def macChain (aj : Nat) : List Nat → List Nat → Nat → List Nat × Nat
  | u :: us, b :: bs, c =>
    ((mac u aj b c).1 :: (macChain aj us bs (mac u aj b c).2).1, (macChain aj us bs (mac u aj b c).2).2)
  | _, _, c => ([], c)

/-- accumulator of one outer iteration: the limbs `u`, `hi`, `hi_carry`. -/
structure Acc where
  u : List Nat
  hi : Nat
  hiCarry : Nat
deriving Repr

/-- `while i < len`: per term `carry = 0`, the mac chain, `(hi, carry) = hi.adc(carry, 0)`,
    `hi_carry = hi_carry.wrapping_add(carry)`. `j` is the limb of `aᵢ` being multiplied in. -/
def termsLoop (j : Nat) : List (List Nat × List Nat) → Acc → Acc
  | [], acc => acc
  | ab :: rest, acc =>
    termsLoop j rest
      { u := (macChain (ab.1.getD j 0) acc.u ab.2 0).1
        hi := (adc acc.hi (macChain (ab.1.getD j 0) acc.u ab.2 0).2 0).1
        hiCarry := wadd acc.hiCarry (adc acc.hi (macChain (ab.1.getD j 0) acc.u ab.2 0).2 0).2 }

/-- `i = 1; while i < nlimbs { (u[i - 1], carry) = u[i].mac(q, modulus[i], carry); i += 1 }` over
    `u[1..]`, `modulus[1..]`: the shifted limbs `u[0 .. n-1)` and the carry. -/
def shiftChain (q : Nat) : List Nat → List Nat → Nat → List Nat × Nat
  | u :: us, m :: ms, c =>
    ((mac u q m c).1 :: (shiftChain q us ms (mac u q m c).2).1, (shiftChain q us ms (mac u q m c).2).2)
  | _, _, c => ([], c)

/-- the Montgomery step closing an outer iteration: `q = u[0].wrapping_mul(mod_neg_inv)`,
    `(_, carry) = u[0].mac(q, modulus[0], 0)`, the shift chain, `(u[n-1], carry) = hi.adc(carry, 0)`,
    `hi_carry = hi_carry.wrapping_add(carry)`. Returns `(u, hi_carry)`. -/
def reduceStep (ms : List Nat) (k : Nat) (acc : Acc) : List Nat × Nat :=
  let q := wmul (acc.u.headD 0) k
  let c0 := (mac (acc.u.headD 0) q (ms.headD 0) 0).2
  let sh := shiftChain q acc.u.tail ms.tail c0
  (sh.1 ++ [(adc acc.hi sh.2 0).1], wadd acc.hiCarry (adc acc.hi sh.2 0).2)

/-- `while j < nlimbs { hi = hi_carry; hi_carry = 0; … }`; state `(u, hi_carry)`. -/
def outerLoop (terms : List (List Nat × List Nat)) (ms : List Nat) (k : Nat) :
    Nat → Nat → List Nat × Nat → List Nat × Nat
  | 0, _, s => s
  | fuel + 1, j, s =>
    outerLoop terms ms k fuel (j + 1)
      (reduceStep ms k (termsLoop j terms { u := s.1, hi := s.2, hiCarry := 0 }))

/-- `impl_longa_monty_lincomb!(a_b, u = 0, modulus, mod_neg_inv, nlimbs)`: final `u` and the returned
    `hi_carry`. -/
def longa (terms : List (List Nat × List Nat)) (ms : List Nat) (k : Nat) : List Nat × Nat :=
  outerLoop terms ms k ms.length 0 (uzero ms.length, 0)

/-! ## chunking and recombination -/

/-- one window reduced: `buf.sub_mod_with_carry(carry, &modulus, &modulus)`. -/
def windowFixed (terms : List (List Nat × List Nat)) (ms : List Nat) (k : Nat) : List Nat :=
  subModWithCarry (longa terms ms k).1 (longa terms ms k).2 ms ms

/-- `while remain > 0 { count = min(remain, max_accum); (window, products) = products.split_at(count);
    buf = window sum; ret = ret.add_mod(&buf, modulus); remain -= count }`  (`fuel` ≥ number of windows). -/
def chunkLoopFixed (ms : List Nat) (k maxAccum : Nat) : Nat → List (List Nat × List Nat) → List Nat → List Nat
  | 0, _, ret => ret
  | fuel + 1, products, ret =>
    if products.length = 0 then ret
    else
      chunkLoopFixed ms k maxAccum fuel (products.drop (min products.length maxAccum))
        (addMod ret (windowFixed (products.take (min products.length maxAccum)) ms k) ms)

/-- `lincomb_monty_form` / `lincomb_const_monty_form` (`lz` = `mod_leading_zeros` / `MOD::MOD_LEADING_ZEROS`). -/
def lincombFixed (terms : List (List Nat × List Nat)) (ms : List Nat) (k lz : Nat) : List Nat :=
  if terms.length ≤ 1 <<< lz then windowFixed terms ms k
  else chunkLoopFixed ms k (1 <<< lz) terms.length terms (uzero ms.length)

/-- boxed window: `buf.sub_assign_mod_with_carry(carry, &modulus, &modulus)`. -/
def windowBoxed (terms : List (List Nat × List Nat)) (ms : List Nat) (k : Nat) : List Nat :=
  bSubAssignModWithCarry (longa terms ms k).1 (longa terms ms k).2 ms ms

/-- boxed recombination: `carry = ret.adc_assign(&buf, 0); ret.sub_assign_mod_with_carry(carry, m, m)`. -/
def chunkLoopBoxed (ms : List Nat) (k maxAccum : Nat) : Nat → List (List Nat × List Nat) → List Nat → List Nat
  | 0, _, ret => ret
  | fuel + 1, products, ret =>
    if products.length = 0 then ret
    else
      chunkLoopBoxed ms k maxAccum fuel (products.drop (min products.length maxAccum))
        (bSubAssignModWithCarry
          (uadc ret (windowBoxed (products.take (min products.length maxAccum)) ms k) 0).1
          (uadc ret (windowBoxed (products.take (min products.length maxAccum)) ms k) 0).2 ms ms)

/-- `lincomb_boxed_monty_form`. -/
def lincombBoxed (terms : List (List Nat × List Nat)) (ms : List Nat) (k lz : Nat) : List Nat :=
  if terms.length ≤ 1 <<< lz then windowBoxed terms ms k
  else chunkLoopBoxed ms k (1 <<< lz) terms.length terms (uzero ms.length)

/-- `ConstMontyForm::lincomb_vartime` / `MontyForm::lincomb_vartime` / `BoxedMontyForm::lincomb_vartime`
    on a non-empty term list (the runtime / boxed forms assert non-emptiness). -/
def opLincomb (s : State) (terms : List (List Nat × List Nat)) : List Nat :=
  match s.rep with
  | .boxed => lincombBoxed terms s.params.modulus s.params.modNegInv s.params.modLeadingZeros
  | _ => lincombFixed terms s.params.modulus s.params.modNegInv s.params.modLeadingZeros

/-! ## L0 -/

/-- `Σ aᵢ·bᵢ mod m` on residues. -/
def sumSpec (m : Nat) : List (Nat × Nat) → Nat
  | [] => 0
  | (a, b) :: rest => (a * b + sumSpec m rest) % m

end CB.Lincomb
