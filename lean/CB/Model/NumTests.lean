/-
  CB.Model.NumTests — (C06, coverage round) num-traits style constructors and zero / one tests, the provided
  methods of the `Zero`, `Integer` and `ConstantTimeSelect` traits, comparisons through the `Odd` / `NonZero`
  wrappers and `ConstChoice: PartialEq`:
    src/limb.rs 123-143, src/uint.rs 254-299, src/int.rs 216-235, src/uint/boxed.rs 92-110 and 300-352,
    src/traits.rs 48-60 (provided `ct_assign` / `ct_swap`), 171 (`one_like`), 262-279 (`is_zero`, `set_zero`,
    `zero_like`), src/odd.rs 110-160, src/non_zero.rs 213-220, src/const_choice.rs 281-285.
  `subtle`'s word primitives are modelled by contract, as in CB.Model.Cmp.  Core Lean only.
-/
import CB.Model.Cmp
namespace CB.NumTests
open CB CB.Cmp

/-! ### fixed width (`Uint<LIMBS>`, `Int<LIMBS>`, `Limb`) -/

/-- `Uint::from_word` (reached by `Integer::from_limb_like` → `Uint::from(limb)`): `limbs = [ZERO; LIMBS]`,
    then `limbs[0].0 = n` (`LIMBS = 0` is rejected by an `assert!`; no such width is instantiated). -/
def fromLimbLike : Nat → Nat → List Nat
  | 0, _ => []
  | n + 1, l => l :: uzero n

/-- `Integer::one_like(other)` (provided method): `Self::from_limb_like(Limb::ONE, other)`. -/
def oneLike (other : List Nat) : List Nat := fromLimbLike other.length 1

/-- `num_traits::Zero::is_zero` of `Uint` / `Int`: `self.ct_eq(&Self::ZERO)` (`Int` compares the inner `Uint`s). -/
def isZeroNum (a : List Nat) : Nat := ueq a (uzero a.length)
/-- `num_traits::One::is_one`: `self.ct_eq(&Self::ONE)`. -/
def isOneNum (a : List Nat) : Nat := ueq a (uone a.length)

/-- `Zero::set_zero` (provided method): `*self = Zero::zero()`; `zero()` of a `ConstZero` type is `Self::ZERO`. -/
def setZero (a : List Nat) : List Nat := uzero a.length
/-- `Zero::zero_like(other)` (provided method): `let mut ret = other.clone(); ret.set_zero(); ret`. -/
def zeroLike (other : List Nat) : List Nat := setZero other

/-- `Limb`: `num_traits::Zero::is_zero` = `self.ct_eq(&Self::ZERO)`, `One::is_one` = `self.ct_eq(&Self::ONE)`
    (`u64::ct_eq` by contract, as `fromWordEq`). -/
def limbIsZero (x : Nat) : Nat := fromWordEq x 0
def limbIsOne (x : Nat) : Nat := fromWordEq x 1

/-! ### `BoxedUint` (choices as 0/1 like `bctEq`) -/

/-- `limbs.iter().fold(acc, |acc, limb| acc & limb.is_zero())` -/
def allZeroFold : List Nat → Nat → Nat
  | [], acc => acc
  | x :: xs, acc => allZeroFold xs (acc &&& (if x = 0 then 1 else 0))

/-- `BoxedUint::is_zero`: the fold started from `Choice::from(1)`. -/
def bIsZero (a : List Nat) : Nat := allZeroFold a 1

/-- `BoxedUint::is_one`: `iter.next().copied().unwrap_or(Limb::ZERO).ct_eq(&Limb::ONE)`, then the fold over the
    remaining limbs. -/
def bIsOne : List Nat → Nat
  | [] => 0          -- `Limb::ZERO.ct_eq(&Limb::ONE)`, nothing left to fold
  | x :: xs => allZeroFold xs (if x = 1 then 1 else 0)

/-- `Zero::set_zero` as overridden by `BoxedUint`: `self.limbs.as_mut().fill(Limb::ZERO)`. -/
def bSetZero (a : List Nat) : List Nat := a.map fun _ => 0

/-- `Integer::from_limb_like` of `BoxedUint`: `zero_with_precision(other.bits_precision())`, `limbs[0] = limb`. -/
def bFromLimbLike (l : Nat) (other : List Nat) : List Nat := fromLimbLike other.length l

/-! ### provided methods of `ConstantTimeSelect` (a type that implements `ct_select` only) -/

/-- `ct_assign`: `*self = Self::ct_select(self, other, choice)`. -/
def defaultCtAssign (self other : List Nat) (c : Nat) : List Nat := uselect self other c

/-- `ct_swap`: `let t = a.clone(); a.ct_assign(b, choice); b.ct_assign(&t, choice)`. -/
def defaultCtSwap (a b : List Nat) (c : Nat) : List Nat × List Nat :=
  let t := a
  let a' := defaultCtAssign a b c
  let b' := defaultCtAssign b t c
  (a', b')

/-! ### comparisons through `Odd<T>` / `NonZero<T>` -/

/-- `Odd::new` / `NonZero::new` accept the value (`CtOption` is some); the predicate is passed in. -/
def wrapNew (ok : Bool) (a : List Nat) : Option (List Nat) := if ok then some a else none

/-- `Odd<Uint>::ct_eq`, `NonZero<Uint>::ct_eq`: `self.0.ct_eq(&other.0)`. -/
def wrappedCtEq (a b : List Nat) : Nat := ueq a b
/-- `PartialEq<Odd<Uint>> for Uint`: `self.eq(&other.0)`. -/
def eqOdd (a b : List Nat) : Nat := ueq a b
/-- `PartialOrd<Odd<Uint>> for Uint`: `Some(self.cmp(&other.0))`. -/
def cmpOdd (a b : List Nat) : Ord3 := ucmp a b
/-- boxed twins (any two precisions): `BoxedUint::ct_eq` / `BoxedUint: Ord`. -/
def bWrappedCtEq (a b : List Nat) : Nat := bctEq a b
def bEqOdd (a b : List Nat) : Nat := bctEq a b
def bCmpOdd (a b : List Nat) : Ord3 := bcmp a b

/-- `ConstChoice: PartialEq`: `self.0 == other.0` on the mask words. -/
def choiceEq (p q : Nat) : Bool := p == q

end CB.NumTests
