/-
  CB.Model.BitForms — (C05, coverage round) bitwise operators of `Int<LIMBS>` and of `Limb`:
    src/int/bit_and.rs, bit_or.rs, bit_xor.rs, bit_not.rs — `Int` is a newtype over `Uint`; every form
    (inherent, wrapping_*, checked_* (always some), the operator impls by value / reference / assigning and the
    `Wrapping<Int>` impls) ends in `Uint::bitand` / `bitor` / `bitxor` / `not` / `bitand_limb` on the inner value;
    src/limb/bit_and.rs, bit_or.rs, bit_xor.rs, bit_not.rs — the word operators.
  Core Lean only.
-/
import CB.Model.Bits
namespace CB.BitForms
open CB CB.Shift CB.Bits

/-- `Int::bitand`: `Self(Uint::bitand(&self.0, &rhs.0))` -/
def intBitand (a b : List Nat) : List Nat := ubitand a b
/-- `Int::bitor` -/
def intBitor (a b : List Nat) : List Nat := ubitor a b
/-- `Int::bitxor` -/
def intBitxor (a b : List Nat) : List Nat := ubitxor a b
/-- `Int::not`: `Self(Uint::not(&self.0))` -/
def intNot (a : List Nat) : List Nat := unot a
/-- `Int::bitand_limb`: `Self(Uint::bitand_limb(&self.0, rhs))` -/
def intBitandLimb (a : List Nat) (l : Nat) : List Nat := ubitandLimb a l
/-- `Int::checked_and` / `checked_or` / `checked_xor`: `ConstCtOption::some(..)` — value and an always-true mask -/
def intChecked (r : List Nat) : List Nat × Nat := (r, WMAX)

/-- `Limb::bitand` (`&`, `&=`, `&= &`): `Limb(self.0 & rhs.0)` -/
def limbAnd (a b : Nat) : Nat := a &&& b
/-- `Limb::bitor` (`|`, `|=`, `|= &`) -/
def limbOr (a b : Nat) : Nat := a ||| b
/-- `Limb::bitxor` (`^`, `^=`) -/
def limbXor (a b : Nat) : Nat := a ^^^ b
/-- `Limb::not` (`!`) -/
def limbNot (a : Nat) : Nat := wnot a

end CB.BitForms
