/-
  CB.Model.Uint — limb chains of `Uint<LIMBS>` / `BoxedUint`: add/sub/neg (src/uint/{add,sub,neg}.rs),
  selection and comparison (src/uint/cmp.rs), as loops over little-endian limb lists.
  Style rule: results of pair-returning helpers are taken with `.1` / `.2`, never with a destructuring
  `let (a, b) := …` — the latter makes definitional unfolding (`rfl`, `simp only [f]`) blow up.
-/
import CB.Model.Basic
namespace CB

/-- `Uint::adc`: the `while i < LIMBS` loop (both operands have `LIMBS` limbs). -/
def uadc : List Nat → List Nat → Nat → List Nat × Nat
  | a :: as, b :: bs, c =>
    ((adc a b c).1 :: (uadc as bs (adc a b c).2).1, (uadc as bs (adc a b c).2).2)
  | _, _, c => ([], c)

/-- `Uint::sbb`. -/
def usbb : List Nat → List Nat → Nat → List Nat × Nat
  | a :: as, b :: bs, bw =>
    ((sbb a b bw).1 :: (usbb as bs (sbb a b bw).2).1, (usbb as bs (sbb a b bw).2).2)
  | _, _, bw => ([], bw)

/-- `Uint::select(a, b, c)` limb by limb. -/
def uselect : List Nat → List Nat → Nat → List Nat
  | a :: as, b :: bs, c => selectWord a b c :: uselect as bs c
  | _, _, _ => []

def umax (n : Nat) : List Nat := List.replicate n WMAX
def uzero (n : Nat) : List Nat := List.replicate n 0
def uone : Nat → List Nat
  | 0 => []
  | n + 1 => 1 :: uzero n

/-- `Uint::carrying_neg` loop: `r = !limb + carry` in `WideWord`. -/
def negLoop : List Nat → Nat → List Nat × Nat
  | a :: as, c =>
    ((wnot a + c) % B :: (negLoop as ((wnot a + c) / B)).1, (negLoop as ((wnot a + c) / B)).2)
  | [], c => ([], c)

def carryingNeg (a : List Nat) : List Nat × Nat :=
  ((negLoop a 1).1, fromWordLsb (negLoop a 1).2)

def wrappingNeg (a : List Nat) : List Nat := (carryingNeg a).1
def wrappingNegIf (a : List Nat) (c : Nat) : List Nat := uselect a (wrappingNeg a) c

def saturatingAdd (a b : List Nat) : List Nat :=
  uselect (uadc a b 0).1 (umax a.length) (fromWordLsb (uadc a b 0).2)
def wrappingAdd (a b : List Nat) : List Nat := (uadc a b 0).1
/-- `CheckedAdd`: value and `is_some` mask. -/
def checkedAdd (a b : List Nat) : List Nat × Nat :=
  ((uadc a b 0).1, fromWordEq (uadc a b 0).2 0)   -- `carry.is_zero()`
def saturatingSub (a b : List Nat) : List Nat :=
  uselect (usbb a b 0).1 (uzero a.length) (fromWordMask (usbb a b 0).2)
def wrappingSub (a b : List Nat) : List Nat := (usbb a b 0).1
def checkedSub (a b : List Nat) : List Nat × Nat :=
  ((usbb a b 0).1, fromWordEq (usbb a b 0).2 0)

/-- OR of all limbs (`is_nonzero` accumulator). -/
def orAll : List Nat → Nat
  | [] => 0
  | x :: xs => x ||| orAll xs

def isNonzero (a : List Nat) : Nat := fromWordNonzero (orAll a)

/-- XOR-accumulate (`Uint::eq`). -/
def xorAcc : List Nat → List Nat → Nat
  | a :: as, b :: bs => (a ^^^ b) ||| xorAcc as bs
  | _, _ => 0

def ueq (a b : List Nat) : Nat := choiceNot (fromWordNonzero (xorAcc a b))
def ult (a b : List Nat) : Nat := fromWordMask (usbb a b 0).2
def ugt (a b : List Nat) : Nat := fromWordMask (usbb b a 0).2
def ulte (a b : List Nat) : Nat := choiceNot (ugt a b)
def isOdd (a : List Nat) : Nat := fromWordLsb (a.headD 0 &&& 1)

/-- `Uint::cmp`: one pass of `rhs.limbs[i].sbb(lhs.limbs[i], borrow)` whose result limbs are OR-ed into
    `diff`; modelled as the `sbb` chain plus the OR of its result limbs (the same loop, unfused).
    Returns an `Int` in {-1, 0, 1}. -/
def ucmp (a b : List Nat) : Int :=
  let diff := orAll (usbb b a 0).1
  let borrow := (usbb b a 0).2
  let sgn : Int := ((borrow &&& 2 : Nat) : Int) - 1
  ((choiceBit (fromWordNonzero diff) : Nat) : Int) * sgn

/-- `Uint::cmp_vartime`: scan from the most significant limb. Input lists are reversed (MS first). -/
def cmpVartimeRev : List Nat → List Nat → Int
  | a :: as, b :: bs =>
    if (sbb a b 0).1 ≠ 0 then (if (sbb a b 0).2 ≠ 0 then -1 else 1) else cmpVartimeRev as bs
  | _, _ => 0
def ucmpVartime (a b : List Nat) : Int := cmpVartimeRev a.reverse b.reverse

end CB
