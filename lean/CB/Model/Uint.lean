/-
  CB.Model.Uint — limb chains of `Uint<LIMBS>` / `BoxedUint`: add/sub/neg (src/uint/{add,sub,neg}.rs),
  selection and comparison (src/uint/cmp.rs), as loops over little-endian limb lists.
-/
import CB.Model.Basic
namespace CB

/-- `Uint::adc`: the `while i < LIMBS` loop (both operands have `LIMBS` limbs). -/
def uadc : List Nat → List Nat → Nat → List Nat × Nat
  | a :: as, b :: bs, c =>
    let (w, c') := adc a b c
    let (r, cf) := uadc as bs c'
    (w :: r, cf)
  | _, _, c => ([], c)

/-- `Uint::sbb`. -/
def usbb : List Nat → List Nat → Nat → List Nat × Nat
  | a :: as, b :: bs, bw =>
    let (w, bw') := sbb a b bw
    let (r, bf) := usbb as bs bw'
    (w :: r, bf)
  | _, _, bw => ([], bw)

/-- `Uint::select(a, b, c)` limb by limb. -/
def uselect : List Nat → List Nat → Nat → List Nat
  | a :: as, b :: bs, c => selectWord a b c :: uselect as bs c
  | _, _, _ => []

def umax (n : Nat) : List Nat := List.replicate n WMAX
def uzero (n : Nat) : List Nat := List.replicate n 0
def uone : Nat → List Nat
  | 0 => []
  | n + 1 => 1 :: uzero n

/-- `Uint::carrying_neg` loop: `r = !limb + carry` in `WideWord`. -/
def negLoop : List Nat → Nat → List Nat × Nat
  | a :: as, c =>
    let r := wnot a + c
    let (rs, cf) := negLoop as (r / B)
    (r % B :: rs, cf)
  | [], c => ([], c)

def carryingNeg (a : List Nat) : List Nat × Nat :=
  let (r, c) := negLoop a 1
  (r, fromWordLsb c)

def wrappingNeg (a : List Nat) : List Nat := (carryingNeg a).1
def wrappingNegIf (a : List Nat) (c : Nat) : List Nat := uselect a (wrappingNeg a) c

def saturatingAdd (a b : List Nat) : List Nat :=
  let (r, c) := uadc a b 0
  uselect r (umax a.length) (fromWordLsb c)
def wrappingAdd (a b : List Nat) : List Nat := (uadc a b 0).1
/-- `CheckedAdd`: value and `is_some` mask. -/
def checkedAdd (a b : List Nat) : List Nat × Nat :=
  let (r, c) := uadc a b 0
  (r, fromWordEq c 0)   -- `carry.is_zero()`
def saturatingSub (a b : List Nat) : List Nat :=
  let (r, bw) := usbb a b 0
  uselect r (uzero a.length) (fromWordMask bw)
def wrappingSub (a b : List Nat) : List Nat := (usbb a b 0).1
def checkedSub (a b : List Nat) : List Nat × Nat :=
  let (r, bw) := usbb a b 0
  (r, fromWordEq bw 0)

/-- OR of all limbs (`is_nonzero` accumulator). -/
def orAll : List Nat → Nat
  | [] => 0
  | x :: xs => x ||| orAll xs

def isNonzero (a : List Nat) : Nat := fromWordNonzero (orAll a)

/-- XOR-accumulate (`Uint::eq`). -/
def xorAcc : List Nat → List Nat → Nat
  | a :: as, b :: bs => (a ^^^ b) ||| xorAcc as bs
  | _, _ => 0

def ueq (a b : List Nat) : Nat := choiceNot (fromWordNonzero (xorAcc a b))
def ult (a b : List Nat) : Nat := fromWordMask (usbb a b 0).2
def ugt (a b : List Nat) : Nat := fromWordMask (usbb b a 0).2
def ulte (a b : List Nat) : Nat := choiceNot (ugt a b)
def isOdd (a : List Nat) : Nat := fromWordLsb (a.headD 0 &&& 1)

/-- `Uint::cmp` loop: `rhs.sbb(lhs)` with OR-accumulated difference; returns (diff, borrow). -/
def cmpLoop : List Nat → List Nat → Nat → Nat → Nat × Nat
  | a :: as, b :: bs, diff, bw =>
    let (w, bw') := sbb b a bw
    cmpLoop as bs (diff ||| w) bw'
  | _, _, diff, bw => (diff, bw)

/-- `Uint::cmp` as an `Int` in {-1, 0, 1}. -/
def ucmp (a b : List Nat) : Int :=
  let (diff, bw) := cmpLoop a b 0 0
  let sgn : Int := ((bw &&& 2 : Nat) : Int) - 1
  ((choiceBit (fromWordNonzero diff) : Nat) : Int) * sgn

/-- `Uint::cmp_vartime`: scan from the most significant limb. Input lists are reversed (MS first). -/
def cmpVartimeRev : List Nat → List Nat → Int
  | a :: as, b :: bs =>
    let (v, bw) := sbb a b 0
    if v ≠ 0 then (if bw ≠ 0 then -1 else 1) else cmpVartimeRev as bs
  | _, _ => 0
def ucmpVartime (a b : List Nat) : Int := cmpVartimeRev a.reverse b.reverse

end CB
