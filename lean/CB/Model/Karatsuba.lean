/-
  CB.Model.Karatsuba — the Karatsuba bodies of `src/uint/mul/karatsuba.rs` and the size dispatch
  of `src/uint/mul.rs` / `src/uint/boxed/mul.rs`, as written (property C03).  Core Lean only.

    impl_uint_karatsuba_multiplication!{reduce full, half}   ↔ karaMulStep half (mulHalf)
    impl_uint_karatsuba_squaring!{reduce full, half}         ↔ karaSqStep half (sqHalf)
    macro chains (128, 64, 32, 16, 8) / (128, 64, 32)         ↔ karaMulChain / karaSqChain over
                                                                 the sizes in CB.Model.Extracted
    Uint::split_mul / Uint::square_wide size tests            ↔ splitMul / squareWide
    karatsuba_mul_limbs / karatsuba_square_limbs (boxed)      ↔ karaMulLimbs / karaSquareLimbs
    BoxedUint::{mul, square, wrapping_mul, checked_mul}       ↔ boxedMul, boxedSquare, …
-/
import CB.Model.Mul
import CB.Model.Extracted
namespace CB.Karatsuba
open CB.Mul

/-! ### fixed-size Karatsuba step (multiplication) -/

/-- the `reduce $full_size, $half_size` body of `UintKaratsubaMul::multiply`.
    `h` = `$half_size`, `mulHalf` = `UintKaratsubaMul::<$half_size>::multiply`. -/
def karaMulStep (h : Nat) (mulHalf : List Nat → List Nat → List Nat × List Nat)
    (lhs rhs : List Nat) : List Nat × List Nat :=
  let x0 := lhs.take h
  let x1 := lhs.drop h
  let y0 := rhs.take h
  let y1 := rhs.drop h
  -- Calculate z1 = (x0 - x1)(y1 - y0): the two interleaved sbb chains
  let s0 := usbb x0 x1 0
  let s1 := usbb y1 y0 0
  let l0b := s0.2
  let l1b := s1.2
  let l0 := uselect s0.1 (wrappingNeg s0.1) (fromWordMask l0b)
  let l1 := uselect s1.1 (wrappingNeg s1.1) (fromWordMask l1b)
  let z1 := mulHalf l0 l1
  let z1neg := (fromWordMask l0b) ^^^ (fromWordMask l1b)
  -- Conditionally add or subtract z1•b depending on its sign (ones' complement + carry-in 1)
  let zero := uzero h
  let r0 := uselect zero (unot zero) z1neg
  let r1 := uselect z1.1 (unot z1.1) z1neg
  let r2 := uselect z1.2 (unot z1.2) z1neg
  let r3 := uselect zero (unot zero) z1neg
  let z0 := mulHalf x0 y0
  let z2 := mulHalf x1 y1
  -- Add z0 + (z0 + z2)•b + z2•b^2
  let carry := selectWord 0 1 z1neg            -- Limb::select(ZERO, ONE, z1_neg)
  let a0 := uadc r0 z0.1 carry                 -- (res.0, carry) = res.0.adc(&z0.0, carry)
  let a1 := uadc r1 z0.2 a0.2                  -- (res.1, carry) = res.1.adc(&z0.1, carry)
  let a2 := uadc a1.1 z0.1 0                   -- (res.1, carry2) = res.1.adc(&z0.0, ZERO)
  let a3 := uadc r2 z0.2 (wadd a1.2 a2.2)      -- (res.2, carry) = res.2.adc(&z0.1, carry.wrapping_add(carry2))
  let a4 := uadc a2.1 z2.1 0                   -- (res.1, carry2) = res.1.adc(&z2.0, ZERO)
  let a5 := uadc a3.1 z2.2 a4.2                -- (res.2, carry2) = res.2.adc(&z2.1, carry2)
  let carry' := wadd a3.2 a5.2                 -- carry = carry.wrapping_add(carry2)
  let a6 := uadc a5.1 z2.1 0                   -- (res.2, carry2) = res.2.adc(&z2.0, ZERO)
  let a7 := uadc r3 z2.2 (wadd carry' a6.2)    -- (res.3, _) = res.3.adc(&z2.1, carry.wrapping_add(carry2))
  (a0.1 ++ a4.1, a6.1 ++ a7.1)

/-- the `reduce $full_size, $half_size` body of `UintKaratsubaMul::square`. -/
def karaSqStep (h : Nat) (sqHalf : List Nat → List Nat × List Nat) (limbs : List Nat) :
    List Nat × List Nat :=
  let x0 := limbs.take h
  let x1 := limbs.drop h
  let z0 := sqHalf x0
  let z2 := sqHalf x1
  let zero := uzero h
  -- Calculate z0 + (z0 + z2)•b + z2•b^2 ; res = (z0.0, z0.1, 0, 0)
  let a0 := uadc z0.2 z0.1 0                   -- (res.1, carry) = res.1.adc(&z0.0, ZERO)
  let a1 := uadc z0.2 z2.1 a0.2                -- (res.2, carry) = z0.1.adc(&z2.0, carry)
  let a2 := uadc a0.1 z2.1 0                   -- (res.1, carry2) = res.1.adc(&z2.0, ZERO)
  let a3 := uadc a1.1 z2.2 a2.2                -- (res.2, carry2) = res.2.adc(&z2.1, carry2)
  let a4 := uadc z2.2 zero (wadd a1.2 a3.2)    -- (res.3, _) = z2.1.adc(&ZERO, carry.wrapping_add(carry2))
  -- Calculate z1 = (x0 - x1)^2
  let s0 := usbb x0 x1 0
  let l0 := uselect s0.1 (wrappingNeg s0.1) (fromWordMask s0.2)
  let z1 := sqHalf l0
  -- Subtract z1•b
  let b1 := usbb a2.1 z1.1 0                   -- (res.1, carry) = res.1.sbb(&z1.0, ZERO)
  let b2 := usbb a3.1 z1.2 b1.2                -- (res.2, carry) = res.2.sbb(&z1.1, carry)
  let b3 := usbb a4.1 zero b2.2                -- (res.3, _) = res.3.sbb(&ZERO, carry)
  (z0.1 ++ b1.1, b2.1 ++ b3.1)

/-! ### the macro chains and the dispatch, sizes from `Extracted` -/

/-- `impl_uint_karatsuba_multiplication!(128, 64, 32, 16, 8)` -/
def karaMulSizes : List Nat :=
  [Extracted.karaMulChain0, Extracted.karaMulChain1, Extracted.karaMulChain2,
   Extracted.karaMulChain3, Extracted.karaMulChain4]

/-- `impl_uint_karatsuba_squaring!(128, 64, 32)` -/
def karaSqSizes : List Nat :=
  [Extracted.karaSqChain0, Extracted.karaSqChain1, Extracted.karaSqChain2]

/-- the `if LIMBS == …` tests of `Uint::split_mul` -/
def splitMulDispatchSizes : List Nat :=
  [Extracted.splitMulDispatch0, Extracted.splitMulDispatch1, Extracted.splitMulDispatch2,
   Extracted.splitMulDispatch3]

/-- the `if LIMBS == …` tests of `Uint::square_wide` -/
def squareWideDispatchSizes : List Nat :=
  [Extracted.squareWideDispatch0, Extracted.squareWideDispatch1]

/-- `UintKaratsubaMul::<chain.head>::multiply` as generated by the macro for the (rest of the)
    chain: `full, half, rest…` ⇒ the reduce body over `half`, then the impls for `half, rest…`;
    a single size ⇒ `uint_mul_limbs`. -/
def karaMulChain : List Nat → List Nat → List Nat → List Nat × List Nat
  | _full :: half :: rest, x, y => karaMulStep half (karaMulChain (half :: rest)) x y
  | _, x, y => uintMulLimbs x y

def karaSqChain : List Nat → List Nat → List Nat × List Nat
  | _full :: half :: rest, x => karaSqStep half (karaSqChain (half :: rest)) x
  | _, x => uintSquareLimbs x

/-- the part of a chain starting at size `n` (`UintKaratsubaMul::<n>`) -/
def chainFrom (n : Nat) : List Nat → List Nat
  | [] => []
  | s :: rest => if s = n then s :: rest else chainFrom n rest

/-- `Uint::<LIMBS>::split_mul::<RHS_LIMBS>` -/
def splitMul (lhs rhs : List Nat) : List Nat × List Nat :=
  if lhs.length = rhs.length ∧ splitMulDispatchSizes.contains lhs.length then
    karaMulChain (chainFrom lhs.length karaMulSizes) lhs rhs
  else
    uintMulLimbs lhs rhs

/-- `Uint::<LIMBS>::square_wide` -/
def squareWide (limbs : List Nat) : List Nat × List Nat :=
  if squareWideDispatchSizes.contains limbs.length then
    karaSqChain (chainFrom limbs.length karaSqSizes) limbs
  else
    uintSquareLimbs limbs

/-! ### boxed Karatsuba (`karatsuba_mul_limbs`, `karatsuba_square_limbs`) -/

/-- write `new` over `out[start .. start + new.length)` -/
def setRange (out : List Nat) (start : Nat) (new : List Nat) : List Nat :=
  out.take start ++ new ++ out.drop (start + new.length)

/-- `out[start .. start+len)` -/
def getRange (out : List Nat) (start len : Nat) : List Nat := (out.drop start).take len

/-- `while i < out.len() { (out[i], carry) = out[i].adc(Limb::ZERO, carry) }` -/
def propCarry : List Nat → Nat → List Nat
  | o :: os, c => let r := adc o 0 c; r.1 :: propCarry os r.2
  | [], _ => []

/-- `while i < n { (out[i + s], carry) = out[i + s].adc(scratch[i], carry); i += 1 }` over the slice
    `z` of scratch: adds `z` into `out[s .. s + z.len())`, returns the buffer and the carry -/
def addAt (out : List Nat) (s : Nat) (z : List Nat) (c : Nat) : List Nat × Nat :=
  (setRange out s (uadc (getRange out s z.length) z c).1, (uadc (getRange out s z.length) z c).2)

/-- the six addition loops shared by `karatsuba_mul_limbs` and `karatsuba_square_limbs`:
    add `z0•(1 + b)` then `z2•(b + b²)` to `out`, with `carry`/`carry2` and the three
    `carry = carry.wrapping_add(carry2)`; `c0` is the initial carry (`ZERO` for mul, `ONE` for square).
    Returns the buffer and the final carry (which the code drops). -/
def kCombine (out z0 z2 : List Nat) (half size c0 : Nat) : List Nat × Nat :=
  let a := addAt out 0 z0 c0                           -- add z0
  let b := addAt a.1 half (z0.take half) 0             -- add z0.0 (carry2)
  let c := addAt b.1 (half + half) (z0.drop half) (wadd a.2 b.2)   -- add z0.1
  let d := addAt c.1 half z2 0                         -- add z2 (carry2)
  let e := addAt d.1 size (z2.take half) 0             -- add z2.0 (carry2)
  addAt e.1 (half + size) (z2.drop half) (wadd (wadd c.2 d.2) e.2)  -- add z2.1

/-- the trailing-limb passes of `karatsuba_mul_limbs` -/
def kTrail (out : List Nat) (size : Nat) (lhs rhs : List Nat) : List Nat :=
  let x := lhs.take size
  let xt := lhs.drop size
  let yt := rhs.drop size
  let out := if xt.isEmpty then out else
    setRange out size (adcMulLimbs xt rhs (out.drop size)).1
  if yt.isEmpty then out else
    let endPos := 2 * size + yt.length
    let r := adcMulLimbs yt x (getRange out size (endPos - size))
    let out := setRange out size r.1
    setRange out endPos (propCarry (out.drop endPos) r.2)

/-- `karatsuba_mul_limbs(lhs, rhs, out, scratch)`: returns the `lhs.len() + rhs.len()` limbs of `out`
    (the function overwrites all of `out`).  `fuel` bounds the recursion depth (sizes halve). -/
def karaMulLimbs : Nat → List Nat → List Nat → List Nat
  | 0, lhs, rhs => (adcMulLimbs lhs rhs (uzero (lhs.length + rhs.length))).1
  | fuel + 1, lhs, rhs =>
    let overlap := min lhs.length rhs.length
    let size := if overlap % 2 = 1 then overlap - 1 else overlap
    let total := lhs.length + rhs.length
    if size ≤ Extracted.karatsubaMaxReduceLimbs then
      (adcMulLimbs lhs rhs (uzero total)).1
    else
      let half := size / 2
      let x0 := (lhs.take size).take half
      let x1 := (lhs.take size).drop half
      let y0 := (rhs.take size).take half
      let y1 := (rhs.take size).drop half
      -- abs(x0 - x1), abs(y1 - y0) into scratch
      let s0 := usbb x0 x1 0
      let s1 := usbb y1 y0 0
      let sc0 := condNeg s0.1 (fromWordMask s0.2)
      let sc1 := condNeg s1.1 (fromWordMask s1.2)
      -- abs(z1) into out[half .. size+half)
      let out := setRange (uzero total) half (karaMulLimbs fuel sc0 sc1)
      let z1neg := (fromWordMask s0.2) ^^^ (fromWordMask s1.2)
      let out := setRange out 0 (condNeg (out.take (2 * size)) z1neg)
      -- z0, z2 into scratch; add z0•(1 + b) + z2•(b + b^2); final carry dropped
      let out := (kCombine out (karaMulLimbs fuel x0 y0) (karaMulLimbs fuel x1 y1) half size 0).1
      kTrail out size lhs rhs

/-- `karatsuba_square_limbs(limbs, out, scratch)` -/
def karaSquareLimbs : Nat → List Nat → List Nat
  | 0, limbs => schoolbookSquare limbs
  | fuel + 1, limbs =>
    let size := limbs.length
    if size ≤ Extracted.karatsubaMaxReduceLimbs * Extracted.karaSquareReduceFactor ∨ size % 2 = 1 then
      schoolbookSquare limbs
    else
      let half := size / 2
      let x0 := limbs.take half
      let x1 := limbs.drop half
      let s0 := usbb x0 x1 0
      let sc0 := condNeg s0.1 (fromWordMask s0.2)
      -- z1 = (x0 - x1)^2 into out[half .. 3 half), then `out[i] = !out[i]` for i < 2 size
      let out := unot (setRange (uzero (2 * size)) half (karaSquareLimbs fuel sc0))
      -- carry starts at ONE to complete the wrapping negative
      (kCombine out (karaSquareLimbs fuel x0) (karaSquareLimbs fuel x1) half size 1).1

/-! ### `BoxedUint` forms (`src/uint/boxed/mul.rs`) -/

/-- `BoxedUint::mul`: `nlimbs(self) + nlimbs(rhs)` limbs -/
def boxedMul (lhs rhs : List Nat) : List Nat :=
  if min lhs.length rhs.length ≥ Extracted.karatsubaMinStartingLimbs then
    karaMulLimbs (lhs.length + rhs.length) lhs rhs
  else
    schoolbookMul lhs rhs

/-- `BoxedUint::square` -/
def boxedSquare (a : List Nat) : List Nat :=
  if a.length ≥ Extracted.karatsubaMinStartingLimbs * Extracted.boxedSquareStartFactor then
    karaSquareLimbs a.length a
  else
    schoolbookSquare a

/-- `BoxedUint::wrapping_mul`: `self.mul(rhs).shorten(self.bits_precision())` -/
def boxedWrappingMul (lhs rhs : List Nat) : List Nat := (boxedMul lhs rhs).take lhs.length

/-- fold `choice & limb.is_zero()` over the high limbs -/
def allZeroMask : List Nat → Nat
  | [] => WMAX
  | l :: ls => fromWordEq l 0 &&& allZeroMask ls

/-- `CheckedMul for BoxedUint` -/
def boxedCheckedMul (lhs rhs : List Nat) : List Nat × Nat :=
  let p := boxedMul lhs rhs
  (p.take lhs.length, allZeroMask (p.drop lhs.length))

end CB.Karatsuba
