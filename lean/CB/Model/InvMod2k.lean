/-
  CB.Model.InvMod2k — inversion modulo 2^k and the CRT recombination of `inv_mod`
  (src/uint/inv_mod.rs:14-173, src/uint/boxed/inv_mod.rs:21-148, src/int/inv_mod.rs).

  The three bit-serial loops are modelled as written, on the VALUE of the `Uint<LIMBS>` operands
  (`w = BITS = 64·LIMBS`): the callee operations `wrapping_sub`, `shr1`, `select`, `set_bit(_vartime)`,
  `overflowing_shl_vartime`, `bitor`, `trailing_zeros`, `overflowing_shr/shl`, `wrapping_mul`,
  `wrapping_add`, `bitand` belong to C04/C05/C03 and are called as their mathematical functions.
  Core Lean only.
-/
import CB.Model.Basic
namespace CB.InvMod2k

/-- `Uint::wrapping_sub` on values of width `w`. -/
def wsubW (w b a : Nat) : Nat := (b + 2 ^ w - a % 2 ^ w) % 2 ^ w

/-- `set_bit_vartime(i, v)` / `set_bit(i, choice)`: `|= 1 << i` or `&= !(1 << i)`. -/
def setBit (x i : Nat) (v : Bool) : Nat :=
  if v then x ||| 2 ^ i else x - (x &&& 2 ^ i)

/-- trailing zeros of an `n`-bit pattern (`fuel` = width; gives the width for 0). -/
def tzNat : Nat → Nat → Nat
  | 0, _ => 0
  | fuel + 1, x => if x % 2 = 1 then 0 else 1 + tzNat fuel (x / 2)

/-! ### `inv_mod2k_full_vartime` (pub(crate); `Option<Self>`) -/

/-- the `while i < k` loop; `fuel = k - i`. Returns `x`. -/
def fullLoop (w a : Nat) : Nat → Nat → Nat → Nat → Nat
  | 0, _, x, _ => x
  | fuel + 1, i, x, b =>
    let xi := b % 2                                  -- b.limbs[0].0 & 1
    let b1 := if xi ≠ 0 then wsubW w b a else b      -- if x_i != 0 { b = b.wrapping_sub(self) }
    let b2 := b1 / 2                                 -- b.shr1()
    let x1 := setBit x i (xi ≠ 0)                    -- x.set_bit_vartime(i, x_i != 0)
    fullLoop w a fuel (i + 1) x1 b2

def invMod2kFullVartime (w a k : Nat) : Option Nat :=
  if k ≠ 0 ∧ a % 2 = 0 then none else some (fullLoop w a k 0 0 1)

/-! ### `inv_mod2k_vartime` (constant-time in `self`, not in `k`) -/

/-- `Uint::from_word(x_i).overflowing_shl_vartime(i)` — `none` iff `i ≥ BITS`; the caller takes
    `.unwrap_or(ZERO)` (since /repo 8dd1192; before, `.expect` panicked for `k > BITS`). -/
def shlVartime (w xi i : Nat) : Option Nat :=
  if i < w then some ((xi * 2 ^ i) % 2 ^ w) else none

/-- loop of `inv_mod2k_vartime` (never panics: always `some`; the `Option` is kept for the shape of
    the statements). Rounds `i ≥ BITS` (only for `k > BITS`) do not contribute. -/
def vtLoop (w a : Nat) : Nat → Nat → Nat → Nat → Option Nat
  | 0, _, x, _ => some x
  | fuel + 1, i, x, b =>
    let xi := b % 2
    let b1 := (if xi ≠ 0 then wsubW w b a else b) / 2   -- select(&b, &b.wrapping_sub(self), x_i).shr1()
    match shlVartime w xi i with
    | none => vtLoop w a fuel (i + 1) (x ||| 0) b1      -- .unwrap_or(Self::ZERO)
    | some sh => vtLoop w a fuel (i + 1) (x ||| sh) b1  -- x.bitor(&shifted)

/-- `(value, is_some)`; outer `none` = panic. `is_some = (k == 0) | self.is_odd()`. -/
def invMod2kVartime (w a k : Nat) : Option (Nat × Bool) :=
  match vtLoop w a k 0 0 1 with
  | none => none
  | some x => some (x, k = 0 || a % 2 = 1)

/-- `BoxedUint::inv_mod2k_vartime`: same loop, but the bit is stored with `set_bit(i, choice)`
    (which silently does nothing for `i ≥ bits_precision`). -/
def vtLoopBoxed (w a : Nat) : Nat → Nat → Nat → Nat → Nat
  | 0, _, x, _ => x
  | fuel + 1, i, x, b =>
    let xi := b % 2
    let b1 := (if xi ≠ 0 then wsubW w b a else b) / 2
    vtLoopBoxed w a fuel (i + 1) (if i < w then setBit x i (xi ≠ 0) else x) b1

def invMod2kVartimeBoxed (w a k : Nat) : Nat × Bool :=
  (vtLoopBoxed w a k 0 0 1, k = 0 || a % 2 = 1)

/-! ### `inv_mod2k` (constant-time in `self` and `k`: always `BITS` iterations) -/

/-- `while i < Self::BITS` loop; `fuel = BITS - i`. -/
def ctLoop (w a k : Nat) : Nat → Nat → Nat → Nat → Nat
  | 0, _, x, _ => x
  | fuel + 1, i, x, b =>
    let within := decide (i < k)                       -- ConstChoice::from_u32_lt(i, k)
    let xi := b % 2
    let b1 := (if xi ≠ 0 then wsubW w b a else b) / 2
    let x1 := setBit x i (xi ≠ 0 && within)            -- x.set_bit(i, x_i_choice.and(within_range))
    ctLoop w a k fuel (i + 1) x1 b1

def invMod2k (w a k : Nat) : Nat × Bool :=
  (ctLoop w a k w 0 0 1, k = 0 || a % 2 = 1)

/-! ### `inv_mod` — CRT recombination for `modulus = s·2^k` -/

/-- result of `Uint::inv_mod` / `BoxedUint::inv_mod`. -/
inductive R where
  | panic
  | none
  | some (x : Nat)

/-- `Uint::trailing_zeros` (= `BITS` for zero). -/
def tz (w x : Nat) : Nat := tzNat w x

/-- `Uint::inv_mod`, parametrised by the odd-modulus inverter `inv a s : Option Nat`
    (`inv_odd_mod`, i.e. `SafeGcdInverter::new(s, ONE).inv(a)`). -/
def invModWith (inv : Nat → Nat → Option Nat) (w a m : Nat) : R :=
  let k := tz w m
  let s := if k < w then m / 2 ^ k else 0              -- modulus.overflowing_shr(k).unwrap_or(ZERO)
  let sOdd := decide (s % 2 = 1)
  let mA := inv a s                                    -- self.inv_odd_mod(&Odd(s))
  let aSome := mA.isSome && sOdd                       -- .and_choice(s_is_odd)
  let mB := invMod2k w a k
  let isSome := aSome && mB.2
  let a' := if aSome then mA.getD 0 else 0             -- maybe_a.unwrap_or(ZERO)
  let b' := if mB.2 then mB.1 else 0
  let sInv := invMod2k w s k
  let sInvV := if sInv.2 then sInv.1 else 0            -- .unwrap_or(Self::ZERO) (since /repo be88d84; before: .expect)
  let shifted := if k < w then 2 ^ k else 0            -- ONE.overflowing_shl(k).unwrap_or(ZERO)
  let mask := wsubW w shifted 1
  let t := ((wsubW w b' a' * sInvV) % 2 ^ w) &&& mask
  let result := (a' + (s * t) % 2 ^ w) % 2 ^ w
  if isSome then R.some result else R.none

/-- `BoxedUint::inv_mod` (equal precisions): nothing is `expect`ed, and the odd-part inverse is
    unwrapped before the `s_is_odd` mask is applied. -/
def invModBoxedWith (inv : Nat → Nat → Option Nat) (w a m : Nat) : R :=
  let k := tz w m
  let s := if k < w then m / 2 ^ k else 0              -- modulus.overflowing_shr(k).0 (zero on overflow)
  let sOdd := decide (s % 2 = 1)
  let mA := inv a s
  let aSome := mA.isSome && sOdd
  let a' := mA.getD 0                                  -- Option::from(inv_mod_s).unwrap_or(zero)
  let mB := invMod2k w a k
  let isSome := aSome && mB.2
  let sInv := invMod2k w s k
  let shifted := if k < w then 2 ^ k else 0            -- one.overflowing_shl(k).0
  let mask := wsubW w shifted 1
  let t := ((wsubW w mB.1 a' * sInv.1) % 2 ^ w) &&& mask
  let result := (a' + (s * t) % 2 ^ w) % 2 ^ w
  if isSome then R.some result else R.none

/-! ### signed wrappers (src/int/inv_mod.rs) -/

/-- `Int::abs_sign` on the two's-complement pattern `a < 2^w`. -/
def absSign (w a : Nat) : Nat × Bool :=
  if a < 2 ^ (w - 1) then (a, false) else ((2 ^ w - a) % 2 ^ w, true)

/-- `CtOption::ct_select(&abs_inv, &abs_inv.map(|x| modulus.wrapping_sub(&x)), sgn)`. -/
def signedFix (w m : Nat) (neg : Bool) (r : Option Nat) : Option Nat :=
  if neg then r.map (fun x => wsubW w m x) else r

end CB.InvMod2k
