/-
  CB.Model.DivLimb — `src/uint/div_limb.rs` and `src/uint/boxed/div_limb.rs` (64-bit target):
  the Möller–Granlund reciprocal (Newton iteration as written, with its constants), `short_div`,
  `div2by1`, `div3by2`, the `Reciprocal` struct and the single-limb division loops.
  Core Lean only.  Word = `Nat` with explicit reductions; `u32` values likewise (mod 2^32).
-/
import CB.Model.Uint
namespace CB.Div
open CB

/-! ### u32 helpers of `div_limb.rs` (`lt`, `select`) and `short_div` -/

/-- 2^32 -/
def U32 : Nat := 4294967296
/-- `!x` on `u32` -/
def not32 (a : Nat) : Nat := (U32 - 1) - a % U32
/-- `u32::wrapping_sub` -/
def wsub32 (a b : Nat) : Nat := (a + U32 - b % U32) % U32

/-- `div_limb.rs::lt`: `u32::MAX` if `a < b` else `0` (Hacker's Delight predicate, `wrapping_neg`). -/
def lt32 (a b : Nat) : Nat :=
  let bit := (((not32 a) &&& b) ||| (((not32 a) ||| b) &&& (wsub32 a b))) / 2147483648
  (U32 - bit) % U32

/-- `div_limb.rs::select`: `a ^ (c & (a ^ b))`. -/
def select32 (a b c : Nat) : Nat := a ^^^ (c &&& (a ^^^ b))

/-- the `while i > 0` loop of `short_div` (`i` counts down; the body runs with `i - 1`). -/
def shortDivLoop : Nat → Nat → Nat → Nat → Nat
  | 0, _, _, quotient => quotient
  | i + 1, dividend, divisor, quotient =>
    let bit := lt32 dividend divisor
    let dividend' := select32 (wsub32 dividend divisor) dividend bit
    let divisor' := divisor / 2
    let invBit := not32 bit
    let quotient' := quotient ||| (((invBit / 2147483648) <<< i) % U32)
    shortDivLoop i dividend' divisor' quotient'

/-- `short_div(dividend, dividend_bits, divisor, divisor_bits)`. -/
def shortDiv (dividend dividendBits divisor divisorBits : Nat) : Nat :=
  shortDivLoop (dividendBits - divisorBits + 1) dividend
    ((divisor <<< (dividendBits - divisorBits)) % U32) 0

/-! ### reciprocal -/

/-- `primitives::mulhilo`: `(hi, lo)`. -/
def mulhilo (x y : Nat) : Nat × Nat := ((x * y) / B, (x * y) % B)

/-- `primitives::addhilo`: 128-bit wrapping sum of `(x_hi, x_lo)` and `(y_hi, y_lo)` as `(hi, lo)`. -/
def addhilo (xHi xLo yHi yLo : Nat) : Nat × Nat :=
  let res := ((xHi * B + xLo) + (yHi * B + yLo)) % (B * B)
  (res / B, res % B)

/-- The magic constants of the 64-bit `reciprocal` (dividend of the table division, its bit sizes,
    the shifts).  Kept as named definitions so a changed constant is visible in one place. -/
def recipV0Dividend : Nat := (1 <<< 19) - 3 * (1 <<< 8)

/-- `reciprocal(d)` for `target_pointer_width = "64"`, every operation as written
    (`-`/`+`/`*`/`<<` on `u64` reduce mod 2^64 in release; `wrapping_*` as named). -/
def reciprocalImpl (d : Nat) : Nat :=
  let d0 := d &&& 1
  let d9 := d >>> 55
  let d40 := wadd (d >>> 24) 1
  let d63 := wadd (d >>> 1) d0
  let v0 := shortDiv recipV0Dividend 19 (d9 % U32) 9
  let v1 := wsub (wsub ((v0 <<< 11) % B) ((wmul (wmul v0 v0) d40) >>> 40)) 1
  let v2 := wadd ((v1 <<< 13) % B) ((wmul v1 (wsub (1 <<< 60) (wmul v1 d40))) >>> 47)
  let e := wadd (wadd (wsub WMAX (wmul v2 d63)) 1) (wmul (v2 >>> 1) d0)
  let hi := (mulhilo v2 e).1
  let v3 := wadd ((v2 <<< 31) % B) (hi >>> 1)
  let x := wadd v3 1
  let hi2 := (mulhilo x d).1
  let hi3 := selectWord d hi2 (fromWordNonzero x)
  wsub (wsub v3 hi3) d

/-- What the reciprocal is specified to be (Möller–Granlund eq. (1)): `⌊(B² − 1)/d⌋ − B`. -/
def reciprocalSpec (d : Nat) : Nat := (B * B - 1) / d - B

/-- `struct Reciprocal { divisor_normalized, shift, reciprocal }`. -/
structure Reciprocal where
  divisorNormalized : Nat
  shift : Nat
  reciprocal : Nat
  deriving Repr

/-- `u64::leading_zeros` of a word. -/
def leadingZeros (w : Nat) : Nat := if w = 0 then 64 else 63 - Nat.log2 w

/-- `Reciprocal::new(divisor)` (`divisor ≠ 0` is guaranteed by `NonZero<Limb>`). -/
def Reciprocal.new (divisor : Nat) : Reciprocal :=
  let shift := leadingZeros divisor
  let dn := (divisor <<< shift) % B
  { divisorNormalized := dn, shift := shift, reciprocal := reciprocalImpl dn }

/-- `Reciprocal::default()`. -/
def Reciprocal.dflt : Reciprocal := { divisorNormalized := WMAX, shift := 0, reciprocal := 1 }

/-! ### div2by1, div3by2 -/

/-- `div2by1(u1, u0, reciprocal)`: quotient and remainder of `(u1, u0) / d`. -/
def div2by1 (u1 u0 : Nat) (rc : Reciprocal) : Nat × Nat :=
  let d := rc.divisorNormalized
  let m := mulhilo rc.reciprocal u1
  let s := addhilo m.1 m.2 u1 u0
  let q1 := wadd s.1 1
  let q0 := s.2
  let r := wsub u0 (wmul q1 d)
  let rGtQ0 := fromWordLt q0 r
  let q1' := selectWord q1 (wsub q1 1) rGtQ0
  let r' := selectWord r (wadd r d) rGtQ0
  let rGeD := fromWordLe d r'
  (selectWord q1' (wadd q1' 1) rGeD, selectWord r' (wsub r' d) rGeD)

/-- `!x` on a `WideWord`. -/
def wwnot (a : Nat) : Nat := (B * B - 1) - a % (B * B)
/-- `WideWord::wrapping_sub`. -/
def wwsub (a b : Nat) : Nat := (a + B * B - b % (B * B)) % (B * B)

/-- `ConstChoice::from_wide_word_le(x, y)`: the 128-bit predicate as written, then
    `from_wide_word_lsb` (`(value as Word).wrapping_neg()`). -/
def fromWideWordLe (x y : Nat) : Nat :=
  let bit := (((wwnot x) ||| y) &&& ((x ^^^ y) ||| wwnot (wwsub y x))) / (HALF * B)
  ((B * B - bit % (B * B)) % (B * B)) % B

/-- `ConstChoice::select_wide_word(a, b)`. -/
def selectWideWord (a b c : Nat) : Nat :=
  let mask := (c * B) ||| c
  a ^^^ (mask &&& (a ^^^ b))

/-- one round of the `while i < 2` correction loop of `div3by2`; state `(quo, rem)`, `rem` wide. -/
def div3by2Round (u0 v0 d : Nat) (st : Nat × Nat) : Nat × Nat :=
  let quo := st.1
  let rem := st.2
  let qy := quo * v0
  let rx := ((rem * B) % (B * B)) ||| u0
  let done := (fromWordNonzero ((rem / B) % B)) ||| (fromWideWordLe qy rx)
  (selectWord (wsub quo 1) quo done, selectWideWord ((rem + d) % (B * B)) rem done)

/-- number of correction rounds in `div3by2` (`while i < 2`). -/
def div3by2Rounds : Nat := 2

def iter {α : Type} (f : α → α) : Nat → α → α
  | 0, a => a
  | n + 1, a => iter f n (f a)

/-- `div3by2(u2, u1, u0, v1_reciprocal, v0)`. -/
def div3by2 (u2 u1 u0 : Nat) (rc : Reciprocal) (v0 : Nat) : Nat :=
  let d := rc.divisorNormalized
  let qMaxed := fromWordEq u2 d
  let qr := div2by1 (selectWord u2 0 qMaxed) u1 rc
  let quo := selectWord qr.1 WMAX qMaxed
  let rem := selectWideWord qr.2 (u2 + u1) qMaxed
  (iter (div3by2Round u0 v0 d) div3by2Rounds (quo, rem)).1

/-! ### `Uint::shl_limb` (src/uint/shl.rs, used by the limb loops; `0 ≤ shift < 64`) -/

/-- `ConstChoice::from_u32_nonzero` (C06): mask. -/
def nzMask (x : Nat) : Nat := if x = 0 then 0 else WMAX

/-- the `while i < LIMBS` loop of `shl_limb`: `prev` is `limbs[i-1]`. -/
def shlLimbLoop (lshift rshift nz : Nat) : Nat → List Nat → List Nat
  | _, [] => []
  | prev, x :: xs =>
    (((x <<< lshift) % B) ||| ((prev >>> rshift) &&& nz)) :: shlLimbLoop lshift rshift nz x xs

/-- `Uint::shl_limb(shift)` → `(shifted, carry)`; for `shift = 0` the masks make it the identity. -/
def shlLimb (a : List Nat) (shift : Nat) : List Nat × Nat :=
  match a with
  | [] => ([], 0)
  | x0 :: xs =>
    let nz := nzMask shift
    let rshift := if shift = 0 then 0 else 64 - shift       -- `nz.if_true_u32(BITS - shift)`
    let last := (x0 :: xs).getLastD 0
    -- `wrapping_shr(BITS - shift)`: the shift amount is taken mod 64
    let carry := (last >>> ((64 - shift) % 64)) &&& nz
    (((x0 <<< shift) % B) :: shlLimbLoop shift rshift nz x0 xs, carry)

/-! ### limb division loops -/

/-- the `while j > 0` loop of `div_rem_limb_with_reciprocal`; input limbs most significant first.
    Returns quotient limbs (most significant first) and the running remainder. -/
def divLimbLoopRev (rc : Reciprocal) : List Nat → Nat → List Nat × Nat
  | [], r => ([], r)
  | u :: us, r =>
    ((div2by1 r u rc).1 :: (divLimbLoopRev rc us (div2by1 r u rc).2).1,
     (divLimbLoopRev rc us (div2by1 r u rc).2).2)

/-- the remainder-only loop of `rem_limb_with_reciprocal`; input limbs most significant first. -/
def remLimbLoopRev (rc : Reciprocal) (us : List Nat) (r : Nat) : Nat :=
  us.foldl (fun r u => (div2by1 r u rc).2) r

/-- `div_rem_limb_with_reciprocal(u, reciprocal)` (fixed and boxed: same loop). -/
def divRemLimbWithReciprocal (u : List Nat) (rc : Reciprocal) : List Nat × Nat :=
  let sh := shlLimb u rc.shift
  let l := divLimbLoopRev rc sh.1.reverse sh.2
  (l.1.reverse, l.2 >>> rc.shift)

/-- `rem_limb_with_reciprocal(u, reciprocal)` (fixed). -/
def remLimbWithReciprocal (u : List Nat) (rc : Reciprocal) : Nat :=
  let sh := shlLimb u rc.shift
  (remLimbLoopRev rc sh.1.reverse sh.2) >>> rc.shift

/-- `hi_shifted.limbs[0].0 |= carry.0` -/
def orLimb0 (a : List Nat) (c : Nat) : List Nat :=
  match a with
  | [] => []
  | h0 :: hs => (h0 ||| c) :: hs

/-- `rem_limb_with_reciprocal_wide((lo, hi), reciprocal)`. -/
def remLimbWithReciprocalWide (lo hi : List Nat) (rc : Reciprocal) : Nat :=
  let loS := shlLimb lo rc.shift
  let hiS := shlLimb hi rc.shift
  let r := remLimbLoopRev rc (orLimb0 hiS.1 loS.2).reverse hiS.2
  let r := remLimbLoopRev rc loS.1.reverse r
  r >>> rc.shift

/-- boxed `rem_limb_with_reciprocal` (src/uint/boxed/div_limb.rs): shifts on the fly.
    `revs` = limbs most significant first.  The loop is written over an abstract step
    `f hi lo` (= the remainder `div2by1(hi, lo, reciprocal).1` of the 2-by-1 division), so that its
    defining equations stay small (no unfolding of `div2by1` in definitional checks). -/
def boxedRemLimbLoopG (f : Nat → Nat → Nat) (lshift rshift nz : Nat) : List Nat → Nat → Nat
  | [], hi => hi
  | [u0], hi => f hi ((u0 <<< lshift) % B)
  | uj :: ujm1 :: rest, hi =>
    boxedRemLimbLoopG f lshift rshift nz (ujm1 :: rest)
      (f hi (((uj <<< lshift) % B) ||| ((ujm1 >>> rshift) &&& nz)))

/-- the loop of `rem_limb_with_reciprocal` with the actual step `div2by1(hi, lo, reciprocal).1` -/
def boxedRemLimbLoop (rc : Reciprocal) (lshift rshift nz : Nat) : List Nat → Nat → Nat :=
  boxedRemLimbLoopG (fun hi lo => (div2by1 hi lo rc).2) lshift rshift nz

def boxedRemLimbWithReciprocal (u : List Nat) (rc : Reciprocal) : Nat :=
  let lshift := rc.shift
  let nz := nzMask lshift
  let rshift := if lshift = 0 then 0 else 64 - lshift
  let hi := ((u.getLastD 0) >>> ((64 - lshift) % 64)) &&& nz
  (boxedRemLimbLoop rc lshift rshift nz u.reverse hi) >>> rc.shift

/-- `Uint::div_rem_limb(rhs)`. -/
def divRemLimb (u : List Nat) (d : Nat) : List Nat × Nat :=
  divRemLimbWithReciprocal u (Reciprocal.new d)
/-- `Uint::rem_limb(rhs)`. -/
def remLimb (u : List Nat) (d : Nat) : Nat := remLimbWithReciprocal u (Reciprocal.new d)
/-- `BoxedUint::rem_limb(rhs)`. -/
def boxedRemLimb (u : List Nat) (d : Nat) : Nat := boxedRemLimbWithReciprocal u (Reciprocal.new d)

end CB.Div
