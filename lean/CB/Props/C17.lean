/-
  C17 — Radix strings: canonical output, exact parse, overflow always reported.

  L0 (CB.Model.Radix part 1): `specFormat` = THE canonical numeral, `specParse` = the grammar
  `[+]?[0-9a-zA-Z_]+` (no leading / trailing underscore, digits < radix) and its value.
  L1 (part 2): the crate's decoders / encoders, loop for loop.

  Status (see notes/C17.md):
    T17.1  full   numeral ↔ value bijection, canonical shape, parse ∘ format, grammar
    T17.2  full   digit-batch decoder, limb-aligned decoder (2, 4, 16) and the three public parse
                  entry points, every radix 2..36
    T17.3  power-of-two radix encoder (shifting loop) and division encoder (limb-division loop,
           32-limb large-divisor loop, `radix_large_divisor` table): full, every radix 2..36.
    History: the wrapping test of `encode_limbs` and the zero-limb result of the boxed parse (both repaired
           in /repo, commits 4206d22 and a47b355) are kept as proved negative statements about the OLD
           code in CB/Lemmas/C17Old.lean.
    T17.4  round trip at limb level: parse (format x) = x for Uint / BoxedUint / with precision.
  Value-level calls: `div2by1`, `div_rem_vartime_in_place` (exactness: C02), `bits` (C05).
-/
import CB.Lemmas.C17Round
import CB.Lemmas.C17Old
namespace CB.P17
open CB CB.Radix

/-! ## T17.1 — numerals (L0) -/

/-- every value has a canonical digit list (digits < r, no leading zero) that evaluates to it … -/
theorem numeral_of_value {r : Nat} (hr : 2 ≤ r) (x : Nat) :
    Canonical r (digitsBE r x) ∧ ofDigits r (digitsBE r x) = x :=
  ⟨digitsBE_canonical hr x, ofDigits_digitsBE hr x⟩

/-- … and it is the only one: canonical digit lists ↔ values is a bijection, for every radix ≥ 2 -/
theorem numeral_unique {r : Nat} (hr : 2 ≤ r) {ds : List Nat} (h : Canonical r ds) :
    digitsBE r (ofDigits r ds) = ds := digitsBE_ofDigits hr h

/-- `"0"` for zero -/
theorem format_zero (r : Nat) : specFormat r 0 = [48] := by simp [specFormat]

/-- no leading zero, lower-case alphanumerics with digit value below the radix only -/
theorem format_shape {r : Nat} (hr : 2 ≤ r) {x : Nat} (hx : x ≠ 0) :
    (specFormat r x).head? ≠ some 48 ∧ specFormat r x ≠ [] ∧
    ∀ b ∈ specFormat r x, ∃ d, d < r ∧ b = digitChar d := by
  have hfmt : specFormat r x = (digitsBE r x).map digitChar := by simp [specFormat, hx]
  have hc := digitsBE_canonical hr x
  have hne := digitsBE_ne_nil hr hx
  rw [hfmt]
  refine ⟨?_, by simpa using hne, ?_⟩
  · cases hd : digitsBE r x with
    | nil => exact absurd hd hne
    | cons d ds =>
      simp only [List.map_cons, List.head?_cons, ne_eq, Option.some.injEq]
      rw [digitChar_eq_48]
      intro h0; apply hc.2; rw [hd, h0]; rfl
  · intro b hb
    rcases List.mem_map.mp hb with ⟨d, hd, rfl⟩
    exact ⟨d, hc.1 d hd, rfl⟩

/-- the output alphabet is `0-9a-z` -/
theorem format_alphabet {d : Nat} (h : d < 36) :
    (48 ≤ digitChar d ∧ digitChar d ≤ 57) ∨ (97 ≤ digitChar d ∧ digitChar d ≤ 122) := digitChar_range h

/-- `parse (format x) = x` for every radix 2..36 -/
theorem parse_format {r : Nat} (h2 : 2 ≤ r) (h36 : r ≤ 36) (x : Nat) :
    specParse r (specFormat r x) = .ok x := specParse_specFormat h2 h36 x

/-- the grammar: an optional `+`, then a non-empty body of digits `< r` (either case) and
underscores that neither starts nor ends with an underscore; the value is positional -/
theorem grammar (r : Nat) (s : List Nat) (v : Nat) :
    specParse r s = .ok v ↔
      ∃ ds, stripPlus s ≠ [] ∧ (stripPlus s).head? ≠ some 95 ∧ (stripPlus s).getLast? ≠ some 95 ∧
        bodyDigits r (stripPlus s) = some ds ∧ v = ofDigits r ds := by
  unfold specParse
  simp only
  generalize stripPlus s = body
  by_cases hemp : body.isEmpty = true
  · have : body = [] := by simpa using hemp
    subst this
    simp
  · have hne : body ≠ [] := by simpa using hemp
    simp only [hemp, Bool.false_eq_true, if_false]
    by_cases hus : body.head? = some 95 ∨ body.getLast? = some 95
    · simp only [if_pos hus]
      constructor
      · intro h; exact absurd h (by simp)
      · rintro ⟨ds, _, h1, h2, _⟩
        rcases hus with h | h
        · exact absurd h h1
        · exact absurd h h2
    · simp only [if_neg hus]
      have h1 : body.head? ≠ some 95 := fun h => hus (Or.inl h)
      have h2 : body.getLast? ≠ some 95 := fun h => hus (Or.inr h)
      cases hb : bodyDigits r body with
      | none => simp
      | some ds =>
        simp only [Except.ok.injEq, Option.some.injEq]
        constructor
        · intro h; exact ⟨ds, hne, h1, h2, rfl, h.symm⟩
        · rintro ⟨ds', _, _, _, h3, h4⟩; rw [h4, ← h3]

/-- a leading `+` is ignored -/
theorem parse_plus (r : Nat) (s : List Nat) (h : s.head? ≠ some 43) :
    specParse r (43 :: s) = specParse r s := by
  unfold specParse
  have e1 : stripPlus (43 :: s) = s := rfl
  rw [e1, stripPlus_of_head_ne h]

/-- leading zeros and underscores between them do not change the value -/
theorem leading_zeros_ignored {r : Nat} (hr : 0 < r) (body ds : List Nat)
    (h : bodyDigits r body = some ds) :
    ∃ ds', bodyDigits r (stripLeading body) = some ds' ∧ ofDigits r ds' = ofDigits r ds :=
  (stripLeading_body hr body).1 ds h

/-- interior underscores are skipped -/
theorem underscore_ignored (r : Nat) (bs : List Nat) : bodyDigits r (95 :: bs) = bodyDigits r bs :=
  bodyDigits_us r bs

/-- upper-case letters denote the same digits -/
theorem upper_case_same_digit {b : Nat} (h : 97 ≤ b ∧ b ≤ 122) : charDigit? (b - 32) = charDigit? b :=
  charDigit_upper h

/-- non-vacuity: `"+0_Ff"` is a base-16 numeral of value 255, `"ff"` is its canonical form -/
example : specParse 16 [43, 48, 95, 70, 102] = .ok 255 ∧ specFormat 16 255 = [102, 102] := ⟨rfl, rfl⟩

/-! ## T17.2 — decoding (L1 = L0) -/

/-- the digit-batch decoder (`radix_decode_str_digits`: batches of `ilog` digits, final partial
batch, `mac` into the limbs, `push_limb`) on any target: the value of the numeral; `InputSize` only
when the value does not fit (`B^n ≤ v`); `Empty` exactly for `""`/`"+"`; a non-numeral is never
accepted. -/
theorem batch_decoder_exact {radix : Nat} (h2 : 2 ≤ radix) (h36 : radix ≤ 36) (s : List Nat)
    (cap : Option Nat) : DecodeCorrect radix s cap (decodeDigits radix s ⟨cap, []⟩) :=
  decodeDigits_correct h2 h36 s cap

/-- the limb-aligned decoder (`radix_decode_str_aligned_digits`, radix 2 / 4 / 16: digits packed from
the least significant end, one `push_limb` per 64 bits): same contract -/
theorem aligned_decoder_exact {radix : Nat} (ha : radix = 2 ∨ radix = 4 ∨ radix = 16) (s : List Nat)
    (cap : Option Nat) : DecodeCorrect radix s cap (decodeAligned radix s ⟨cap, []⟩) :=
  decodeAligned_correct ha s cap

/-- `radix_decode_str`, every supported radix -/
theorem decode_str_exact {radix : Nat} (h2 : 2 ≤ radix) (h36 : radix ≤ 36) (s : List Nat)
    (cap : Option Nat) : DecodeCorrect radix s cap (decodeStr radix s ⟨cap, []⟩) := by
  exact decodeStr_correct h2 h36 s cap

/-- `Uint::<n>::from_str_radix_vartime` / `num_traits::Num::from_str_radix`, every radix 2..36: exact value when it fits; `InputSize` iff `value ≥ 2^BITS`; NEVER a wrapped or
truncated value (last clause); `Empty` for the empty numeral; a non-numeral is rejected. -/
theorem uint_from_str_radix_exact {n radix : Nat} (h2 : 2 ≤ radix) (h36 : radix ≤ 36) (s : List Nat) :
    (∀ v, specParse radix s = .ok v → v < B ^ n → uintFromStr n radix s = .ok (toLimbs n v)) ∧
    (∀ v, specParse radix s = .ok v → B ^ n ≤ v → uintFromStr n radix s = .error .inputSize) ∧
    (specParse radix s = .error .empty → uintFromStr n radix s = .error .empty) ∧
    (specParse radix s = .error .invalidDigit →
      uintFromStr n radix s = .error .invalidDigit ∨ uintFromStr n radix s = .error .inputSize) ∧
    (∀ l, uintFromStr n radix s = .ok l →
      ∃ v, specParse radix s = .ok v ∧ v < B ^ n ∧ l = toLimbs n v) := by
  apply uintFromStr_of_correct
  exact decode_str_exact h2 h36 s _

/-- `BoxedUint::from_str_radix_vartime` (every radix 2..36): the value, `Empty`/`InvalidDigit` exactly
for non-numerals, never a size error; the result always has at least one limb -/
theorem boxed_from_str_radix_exact {radix : Nat} (h2 : 2 ≤ radix) (h36 : radix ≤ 36) (s : List Nat) :
    (∀ v, specParse radix s = .ok v → ∃ l, boxedFromStr radix s = .ok l ∧ val l = v ∧ WF l ∧ l ≠ []) ∧
    (specParse radix s = .error .empty → boxedFromStr radix s = .error .empty) ∧
    (specParse radix s = .error .invalidDigit → boxedFromStr radix s = .error .invalidDigit) := by
  apply boxedFromStr_of_correct
  exact decode_str_exact h2 h36 s _

/-- `BoxedUint::from_str_radix_with_precision_vartime` (every radix 2..36): value iff it is below
`2^bits_precision`; `Precision` iff it only fits the rounded-up limbs; `InputSize` beyond -/
theorem boxed_from_str_radix_with_precision_exact {radix p : Nat} (h2 : 2 ≤ radix) (h36 : radix ≤ 36) (s : List Nat) :
    (∀ v, specParse radix s = .ok v → v < 2 ^ p →
      boxedFromStrPrec radix p s = .ok (toLimbs (precLimbs p) v)) ∧
    (∀ v, specParse radix s = .ok v → 2 ^ p ≤ v → v < B ^ precLimbs p →
      boxedFromStrPrec radix p s = .error .precision) ∧
    (∀ v, specParse radix s = .ok v → B ^ precLimbs p ≤ v →
      boxedFromStrPrec radix p s = .error .inputSize) ∧
    (specParse radix s = .error .empty → boxedFromStrPrec radix p s = .error .empty) := by
  apply boxedFromStrPrec_of_correct
  exact decode_str_exact h2 h36 s _

/-- … and it never accepts a non-numeral, never returns a wrapped or truncated value: an accepted
result is the numeral's value, below `2^bits_precision`, in `max 1 ⌈p/64⌉` limbs -/
theorem boxed_from_str_radix_with_precision_sound {radix p : Nat} (h2 : 2 ≤ radix) (h36 : radix ≤ 36)
    (s : List Nat) :
    (specParse radix s = .error .invalidDigit →
      boxedFromStrPrec radix p s = .error .invalidDigit ∨ boxedFromStrPrec radix p s = .error .inputSize) ∧
    (∀ l, boxedFromStrPrec radix p s = .ok l →
      ∃ v, specParse radix s = .ok v ∧ v < 2 ^ p ∧ l = toLimbs (precLimbs p) v) :=
  boxedFromStrPrec_sound h2 h36 s

/-- documented panic for a radix outside 2..=36 -/
theorem unsupported_radix_panics {radix : Nat} (h : ¬ (2 ≤ radix ∧ radix ≤ 36)) (s l : List Nat)
    (t : Target) : decodeStr radix s t = .error .panic ∧ encodeToString radix l = .error .panic := by
  unfold decodeStr encodeToString
  rw [radixMin_eq, radixMax_eq, if_pos h, if_pos h]
  exact ⟨rfl, rfl⟩

/-- non-vacuity of the decoder theorems: base 10, one limb, `"+0_18446744073709551615"` is
`2^64 - 1`; one more is reported as `InputSize`, not wrapped to 0 -/
example : uintFromStr 2 16 [43, 48, 95, 70, 102] = .ok [255, 0] ∧
    uintFromStr 1 2 (49 :: List.replicate 64 48) = .error .inputSize := ⟨rfl, rfl⟩

example : uintFromStr 1 10 [43, 48, 95, 49, 56, 52, 52, 54, 55, 52, 52, 48, 55, 51, 55, 48, 57, 53, 53, 49, 54, 49, 53]
      = .ok [18446744073709551615] ∧
    uintFromStr 1 10 [49, 56, 52, 52, 54, 55, 52, 52, 48, 55, 51, 55, 48, 57, 53, 53, 49, 54, 49, 54]
      = .error .inputSize := ⟨rfl, rfl⟩

/- FULL STATEMENT (false of the code as written): a string that is not a numeral is reported as
   `InvalidDigit` (or `Empty`):  specParse radix s = .error .invalidDigit →
   uintFromStr n radix s = .error .invalidDigit.
   The proved form is the fourth clause of `uint_from_str_radix_exact` (an error, possibly
   `InputSize`); the witness below shows the difference is real (finding C17-error-precedence). -/
theorem invalid_digit_reported_as_input_size_witness :
    specParse 10 (List.replicate 40 57 ++ [63]) = .error .invalidDigit ∧
    uintFromStr 1 10 (List.replicate 40 57 ++ [63]) = .error .inputSize := ⟨rfl, rfl⟩

/-- a zero numeral parses to ONE zero limb (`From<Vec<Limb>>` padding) -/
theorem boxed_parse_zero_has_one_limb : boxedFromStr 10 [48] = .ok [0] := rfl

/-! ## T17.3 — encoding -/

/-- the digit loop of `encode_limbs` writes the `k` low base-`radix` digits of the word -/
theorem emit_digits_exact (radix k w : Nat) (acc : List Nat) :
    emitDigits radix k w acc = (digitsPad radix k w).map (fun d => digitByte (d % 256)) ++ acc :=
  emitDigits_eq radix k w acc

/-- output stage: the leading-zero strip of a buffer holding the zero-padded expansion of `x`
yields exactly the canonical numeral (`"0"` for zero, no leading zeros otherwise) -/
theorem buffer_to_numeral {r : Nat} (hr : 2 ≤ r) {n x : Nat} (hn : 0 < n) (hx : x < r ^ n) :
    skipZeros ((digitsPad r n x).map digitChar) = specFormat r x := skipZeros_padded hr hn hx

/-- T17.3, power-of-two radix (2, 4, 8, 16, 32), FULL: `radix_encode_limbs_by_shifting` (the wide
`digits` accumulator over `limbs ++ [0]`, `(digits as u8) & mask`, the final `fill(b'0')`) followed by
the leading-zero strip returns the canonical numeral, for every limb count and value -/
theorem encode_pow2_exact {radix : Nat} (h2 : 2 ≤ radix) (h36 : radix ≤ 36) (hp : isPow2 radix = true)
    {limbs : List Nat} (hne : limbs ≠ []) (hw : WF limbs) :
    encodeToString radix limbs = .ok (specFormat radix (val limbs)) := by
  have hs := pow2_size_ok h2 hp hne hw
  unfold encodeToString
  rw [radixMin_eq, radixMax_eq, if_neg (by omega), if_pos hp]
  simp only
  rw [encodeByShifting_pow2 h2 h36 hp hw, skipZeros_padded h2 hs.1 hs.2]

/-- T17.3, division path, FULL: `RadixDivisionParams::encode_limbs` (normalising shift, limb-division
loop with the `hi` limb; for more than 32 limbs the large-divisor loop with the recursive 32-limb
encoding of each remainder; table `ALL` / `radix_large_divisor` evaluated in the kernel) followed by
the leading-zero strip returns the canonical numeral, for every non-power-of-two radix 3..36, every
limb count and value. `div2by1` / `div_rem_vartime_in_place` are value-level (C02). -/
theorem encode_div_exact {radix : Nat} (h2 : 2 ≤ radix) (h36 : radix ≤ 36)
    (hp : isPow2 radix = false) {limbs : List Nat} (hne : limbs ≠ []) (hw : WF limbs) :
    encodeToString radix limbs = .ok (specFormat radix (val limbs)) := by
  obtain ⟨p, hpar⟩ := forRadix_ok radix (by omega) h2 hp
  have hs := div_size_ok h2 h36 hpar hne hw
  have hg := forRadix_good hpar
  unfold encodeToString
  rw [radixMin_eq, radixMax_eq, if_neg (by omega)]
  simp only [hp, Bool.false_eq_true, if_false, hpar]
  rw [encodeLimbs_spec hg hw, (forRadix_digitsLimb hpar).1, skipZeros_padded h2 hs.1 hs.2]

/-- T17.3: `to_string_radix_vartime` returns the canonical numeral — every radix 2..36, every limb
count ≥ 1, every value -/
theorem encode_exact {radix : Nat} (h2 : 2 ≤ radix) (h36 : radix ≤ 36) {limbs : List Nat}
    (hne : limbs ≠ []) (hw : WF limbs) :
    encodeToString radix limbs = .ok (specFormat radix (val limbs)) := by
  cases hp : isPow2 radix with
  | true => exact encode_pow2_exact h2 h36 hp hne hw
  | false => exact encode_div_exact h2 h36 hp hne hw

/-- non-vacuity: decimal, two limbs -/
example : encodeToString 10 [0, 1] = .ok (specFormat 10 (val [0, 1])) :=
  encode_exact (by decide) (by decide) (by simp) (by intro x hx; simp at hx; rcases hx with h | h <;> subst h <;> decide)

/-- regression example: the 14-limb value on which `to_string_radix_vartime(31)` lost its leading digit
before /repo commit 4206d22 (`CB/Lemmas/C17Old.lean` keeps the proved negative statement about the
old test `limbs[limb_count-1] << lshift < div_limb`) is now formatted canonically -/
theorem wrap_witness_now_exact :
    encodeToString 31 (toLimbs 14 wrapWitness) = .ok (specFormat 31 wrapWitness) ∧ wrapWitness < B ^ 14 := by
  decide +kernel

/-- a zero-limb list is not a `BoxedUint` any more (all constructors pad); the encoder model on it
still gives the empty string, which is why every theorem above asks `limbs ≠ []` -/
theorem format_zero_limbs_is_empty : encodeToString 10 [] = .ok [] ∧ specFormat 10 (val []) = [48] :=
  ⟨rfl, rfl⟩

/-! ## T17.4 — round trip at limb level -/

/-- `Uint::from_str_radix_vartime(canonical numeral of x, radix) = x` limb for limb, every radix
2..36 and limb count (batch decoder or aligned decoder, as dispatched) -/
theorem uint_parse_of_format {radix : Nat} (h2 : 2 ≤ radix) (h36 : radix ≤ 36) {limbs : List Nat}
    (hw : WF limbs) : uintFromStr limbs.length radix (specFormat radix (val limbs)) = .ok limbs := by
  have h := (uint_from_str_radix_exact (n := limbs.length) h2 h36 (specFormat radix (val limbs))).1
    (val limbs) (parse_format h2 h36 _) (val_lt hw)
  rw [h, toLimbs_val hw]

/-- `BoxedUint::from_str_radix_vartime(canonical numeral of x) ` has value `x` -/
theorem boxed_parse_of_format {radix : Nat} (h2 : 2 ≤ radix) (h36 : radix ≤ 36) (x : Nat) :
    ∃ l, boxedFromStr radix (specFormat radix x) = .ok l ∧ val l = x ∧ WF l ∧ l ≠ [] :=
  (boxed_from_str_radix_exact h2 h36 _).1 x (parse_format h2 h36 x)

/-- with precision: the numeral of any `x < 2^p` parses to `x` in `max 1 ⌈p/64⌉` limbs -/
theorem boxed_prec_parse_of_format {radix p : Nat} (h2 : 2 ≤ radix) (h36 : radix ≤ 36) {x : Nat}
    (hx : x < 2 ^ p) : boxedFromStrPrec radix p (specFormat radix x) = .ok (toLimbs (precLimbs p) x) :=
  (boxed_from_str_radix_with_precision_exact h2 h36 _).1 x (parse_format h2 h36 x) hx

/-- `parse (to_string x) = x` through the crate's own encoder AND decoder models, every radix 2..36 -/
theorem uint_roundtrip {radix : Nat} (h2 : 2 ≤ radix) (h36 : radix ≤ 36)
    {limbs : List Nat} (hne : limbs ≠ []) (hw : WF limbs) :
    ∃ s, encodeToString radix limbs = .ok s ∧ uintFromStr limbs.length radix s = .ok limbs :=
  ⟨_, encode_exact h2 h36 hne hw, uint_parse_of_format h2 h36 hw⟩

/-- boxed round trip the other way (op `c17.b.roundtrip`): parsing any numeral and formatting the result
gives the canonical numeral of its value -/
theorem boxed_roundtrip {radix : Nat} (h2 : 2 ≤ radix) (h36 : radix ≤ 36) {s : List Nat} {v : Nat}
    (hs : specParse radix s = .ok v) :
    ∃ l, boxedFromStr radix s = .ok l ∧ encodeToString radix l = .ok (specFormat radix v) := by
  obtain ⟨l, hl, hv, hw, hne⟩ := (boxed_from_str_radix_exact h2 h36 s).1 v hs
  exact ⟨l, hl, by rw [← hv]; exact encode_exact h2 h36 hne hw⟩

/-- non-vacuity: `2^64` as a two-limb value in base 16 and base 10 -/
example : WF [0, 1] ∧ uintFromStr [0, 1].length 16 (specFormat 16 (val [0, 1])) = .ok [0, 1] ∧
    uintFromStr [0, 1].length 10 (specFormat 10 (val [0, 1])) = .ok [0, 1] := by
  have hw : WF [0, 1] := by intro x hx; simp at hx; rcases hx with h | h <;> subst h <;> decide
  exact ⟨hw, uint_parse_of_format (by decide) (by decide) hw, uint_parse_of_format (by decide) (by decide) hw⟩

end CB.P17
