/-
  C17 — radix strings (placeholder while the machinery is brought up)
-/
import CB.Model.Radix
namespace CB.P17
open CB CB.Radix

theorem charDigit_digitChar {d : Nat} (h : d < 36) : charDigit? (digitChar d) = some d := by
  by_cases h10 : d < 10
  · have e : digitChar d = 48 + d := by simp [digitChar, h10]
    rw [e, charDigit?, if_pos (by omega)]; congr 1; omega
  · have e : digitChar d = 97 + (d - 10) := by simp [digitChar, h10]
    rw [e, charDigit?, if_neg (by omega), if_pos (by omega)]; congr 1; omega

end CB.P17
