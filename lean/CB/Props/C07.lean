/-
  C07 — Modular add / sub / neg / double / mul / halve return the canonical residue.
  Property theorems only (helper lemmas: CB/Lemmas/C07.lean, CB/Lemmas/C07Bits.lean).
  Every theorem quantifies over all limb counts (list lengths) and all operands inside the
  documented preconditions; the model functions are those of CB/Model/ModArith.lean, which mirror
  src/uint/{add_mod,sub_mod,neg_mod,mul_mod}.rs, src/modular/div_by_2.rs and the boxed twins.
-/
import CB.Lemmas.C07Boxed
import CB.Lemmas.C07Old
namespace CB.P07
open CB CB.ModArith

/-! ## T07.1 general modulus: add, double, sub, sub-with-carry, neg -/

/-- T07.1a `add_mod`: for `a, b < p` the result is `(a + b) mod p`, in every carry / borrow
    combination (the sum may reach or exceed `2^BITS`); it is `< p`. -/
theorem add_mod_spec {a b p : List Nat} (ha : WF a) (hb : WF b) (hp : WF p)
    (hab : a.length = b.length) (hap : a.length = p.length)
    (hlta : val a < val p) (hltb : val b < val p) :
    val (addMod a b p) = (val a + val b) % val p ∧ val (addMod a b p) < val p ∧
    WF (addMod a b p) ∧ (addMod a b p).length = a.length := by
  have e := uadc_spec a b 0 hab
  have hc := uadc_carry_le_one ha hb (Nat.le_of_lt Nat.zero_lt_one)
  have hl := uadc_length a b 0 hab
  have hs : val (uadc a b 0).1 + B ^ (uadc a b 0).1.length * (uadc a b 0).2 < 2 * val p := by
    rw [hl]; omega
  have ⟨t1, t2, t3⟩ := addModTail_spec (uadc_WF a b 0) hp (by rw [hl, hap]) hc hs
  rw [hl] at t1 t3
  have e' : val (uadc a b 0).1 + B ^ a.length * (uadc a b 0).2 = val a + val b := by omega
  rw [e'] at t1
  have hd : addMod a b p = addModTail (uadc a b 0).1 (uadc a b 0).2 p := rfl
  rw [hd]
  exact ⟨t1, by rw [t1]; exact Nat.mod_lt _ (by omega), t2, t3⟩

/-- T07.1b `double_mod`: for `a < p` the result is `2a mod p`, `< p`. -/
theorem double_mod_spec {a p : List Nat} (ha : WF a) (hp : WF p)
    (hap : a.length = p.length) (hlta : val a < val p) :
    val (doubleMod a p) = (2 * val a) % val p ∧ val (doubleMod a p) < val p ∧
    WF (doubleMod a p) ∧ (doubleMod a p).length = a.length := by
  have ⟨e, hc, hw, hl⟩ := overflowingShl1_spec ha
  have hs : val (overflowingShl1 a).1 + B ^ (overflowingShl1 a).1.length * (overflowingShl1 a).2
      < 2 * val p := by rw [hl]; omega
  have ⟨t1, t2, t3⟩ := addModTail_spec hw hp (by rw [hl, hap]) hc hs
  rw [hl] at t1 t3
  rw [e] at t1
  have hd : doubleMod a p = addModTail (overflowingShl1 a).1 (overflowingShl1 a).2 p := rfl
  rw [hd]
  exact ⟨t1, by rw [t1]; exact Nat.mod_lt _ (by omega), t2, t3⟩

/-- T07.1c `sub_mod`: for `a, b < p` the result is `(a - b) mod p` (written `a + p - b`), `< p`. -/
theorem sub_mod_spec {a b p : List Nat} (ha : WF a) (hb : WF b) (hp : WF p)
    (hab : a.length = b.length) (hap : a.length = p.length)
    (hlta : val a < val p) (hltb : val b < val p) :
    val (subMod a b p) = (val a + val p - val b) % val p ∧ val (subMod a b p) < val p ∧
    WF (subMod a b p) ∧ (subMod a b p).length = a.length := by
  have ⟨hbw, hv⟩ := sub_value_borrow ha hb hab
  have hl := usbb_length a b 0 hab
  have hvp := val_lt hp; rw [← hap] at hvp
  have hl2 : (usbb a b 0).1.length = (bitandLimb p (usbb a b 0).2).length := by
    rw [hl, bitandLimb_length, hap]
  have key : val (subMod a b p) = (val a + val p - val b) % val p := by
    show val (wrappingAdd (usbb a b 0).1 (bitandLimb p (usbb a b 0).2)) = _
    rw [wrappingAdd_val hl2, hl, hv, hbw, bitandLimb_mask hp]
    by_cases hlt : val a < val b
    · simp only [hlt, decide_true, if_true]
      have : val a + B ^ a.length - val b + val p = (val a + val p - val b) + B ^ a.length := by omega
      rw [this, Nat.add_mod_right, Nat.mod_eq_of_lt (by omega), Nat.mod_eq_of_lt (by omega)]
    · simp only [hlt, decide_false, Bool.false_eq_true, if_false, val_uzero, Nat.add_zero]
      have : val a + val p - val b = (val a - val b) + val p := by omega
      rw [this, Nat.add_mod_right, Nat.mod_eq_of_lt (by omega), Nat.mod_eq_of_lt (by omega)]
  refine ⟨key, by rw [key]; exact Nat.mod_lt _ (by omega), wrappingAdd_WF _ _, ?_⟩
  show (wrappingAdd (usbb a b 0).1 _).length = _
  rw [wrappingAdd_length hl2, hl]

/-- T07.1d `sub_mod_with_carry` (crate-internal; used by the Montgomery code):
    for `carry ≤ 1` and `-p ≤ (a + carry·2^BITS) - b < p` the result is that difference mod `p`. -/
theorem sub_mod_with_carry_spec {a b p : List Nat} {carry : Nat} (ha : WF a) (hb : WF b) (hp : WF p)
    (hab : a.length = b.length) (hap : a.length = p.length) (hc : carry ≤ 1)
    (hlo : val b ≤ val a + B ^ a.length * carry + val p)
    (hhi : val a + B ^ a.length * carry < val b + val p) :
    val (subModWithCarry a carry b p) = (val a + B ^ a.length * carry + val p - val b) % val p ∧
    val (subModWithCarry a carry b p) < val p := by
  have ⟨hbw, hv⟩ := sub_value_borrow ha hb hab
  have hl := usbb_length a b 0 hab
  have hva := val_lt ha
  have hvb := val_lt hb; rw [← hab] at hvb
  have hvp := val_lt hp; rw [← hap] at hvp
  have hl2 : (usbb a b 0).1.length =
      (bitandLimb p (wnot (wneg carry) &&& (usbb a b 0).2)).length := by
    rw [hl, bitandLimb_length, hap]
  have ⟨m00, m01, m10, m11⟩ := subcarry_mask_table
  have hm1 : mask true = WMAX := rfl
  have hm0 : mask false = 0 := rfl
  have key : val (subModWithCarry a carry b p) =
      (val a + B ^ a.length * carry + val p - val b) % val p := by
    show val (wrappingAdd (usbb a b 0).1 (bitandLimb p (wnot (wneg carry) &&& (usbb a b 0).2))) = _
    rw [wrappingAdd_val hl2, hl, hv, hbw]
    rcases (show carry = 0 ∨ carry = 1 by omega) with rfl | rfl
    · simp only [Nat.mul_zero, Nat.add_zero] at hlo hhi ⊢
      by_cases hlt : val a < val b
      · simp only [hlt, decide_true, if_true]
        rw [hm1, m01, ← hm1, bitandLimb_mask hp]
        simp only [if_true]
        have : val a + B ^ a.length - val b + val p = (val a + val p - val b) + B ^ a.length := by omega
        rw [this, Nat.add_mod_right, Nat.mod_eq_of_lt (by omega), Nat.mod_eq_of_lt (by omega)]
      · simp only [hlt, decide_false, if_false]
        rw [hm0, m00, ← hm0, bitandLimb_mask hp]
        simp only [Bool.false_eq_true, if_false, val_uzero, Nat.add_zero]
        have : val a + val p - val b = (val a - val b) + val p := by omega
        rw [this, Nat.add_mod_right, Nat.mod_eq_of_lt (by omega), Nat.mod_eq_of_lt (by omega)]
    · simp only [Nat.mul_one] at hlo hhi ⊢
      have hlt : val a < val b := by omega
      simp only [hlt, decide_true, if_true]
      rw [hm1, m11, ← hm0, bitandLimb_mask hp]
      simp only [Bool.false_eq_true, if_false, val_uzero, Nat.add_zero]
      have : val a + B ^ a.length + val p - val b = (val a + B ^ a.length - val b) + val p := by omega
      rw [this, Nat.add_mod_right, Nat.mod_eq_of_lt (by omega), Nat.mod_eq_of_lt (by omega)]
  exact ⟨key, by rw [key]; exact Nat.mod_lt _ (by omega)⟩

/-- T07.1e `neg_mod`: for `a < p` the result is `(-a) mod p`: `0 ↦ 0`, otherwise `p - a`. -/
theorem neg_mod_spec {a p : List Nat} (ha : WF a) (hp : WF p)
    (hap : a.length = p.length) (hlta : val a < val p) :
    val (negMod a p) = (val p - val a) % val p ∧ val (negMod a p) < val p ∧
    (val a = 0 → val (negMod a p) = 0) ∧
    WF (negMod a p) ∧ (negMod a p).length = a.length := by
  have ⟨_, hv⟩ := sub_value_borrow hp ha hap.symm
  have hl := usbb_length p a 0 hap.symm
  have hwf := usbb_WF p a 0
  have key : val (negMod a p) = (val p - val a) % val p := by
    show val (bitandLimb (usbb p a 0).1 (isNonzero a)) = _
    rw [isNonzero_spec ha, bitandLimb_mask hwf]
    by_cases hz : val a = 0
    · simp [hz, val_uzero]
    · simp only [hz, ne_eq, not_false_eq_true, decide_true, if_true, hv,
        show ¬ val p < val a by omega, if_false]
      rw [Nat.mod_eq_of_lt (by omega)]
  refine ⟨key, by rw [key]; exact Nat.mod_lt _ (by omega), ?_, ?_, ?_⟩
  · intro hz; rw [key, hz]; simp
  · show WF (bitandLimb (usbb p a 0).1 (isNonzero a))
    rw [isNonzero_spec ha, bitandLimb_mask hwf]
    split
    · exact hwf
    · exact uzero_WF _
  · show (bitandLimb (usbb p a 0).1 (isNonzero a)).length = _
    rw [bitandLimb_length, hl, hap]

/-! ## T07.2 special modulus `p = 2^BITS - c`, `1 ≤ c < 2^64`: add, sub, neg -/

theorem length_pos_of_lt_special {a : List Nat} {c : Nat} (hc1 : 1 ≤ c)
    (hlta : val a < B ^ a.length - c) : 0 < a.length := by
  cases a with
  | nil => simp at hlta; omega
  | cons _ _ => simp

/-- T07.2a `add_mod_special`: for `a, b < p = 2^BITS - c` the result is `(a + b) mod p`, `< p`. -/
theorem add_mod_special_spec {a b : List Nat} {c : Nat} (_ha : WF a) (_hb : WF b)
    (hab : a.length = b.length) (hc1 : 1 ≤ c) (hc : c < B)
    (hlta : val a < B ^ a.length - c) (hltb : val b < B ^ a.length - c) :
    val (addModSpecial a b c) = (val a + val b) % (B ^ a.length - c) ∧
    val (addModSpecial a b c) < B ^ a.length - c ∧
    WF (addModSpecial a b c) ∧ (addModSpecial a b c).length = a.length := by
  have hn := length_pos_of_lt_special hc1 hlta
  have hl := uadc_length a b c hab
  have hs : val a + val b + c < 2 * B ^ a.length := by omega
  have ⟨w0, w1⟩ := wsub_one_table
  have hd : addModSpecial a b c =
      wrappingSub (uadc a b c).1 (fromWord a.length (wsub (uadc a b c).2 1 &&& c)) := rfl
  have hlen : ∀ l, (uadc a b c).1.length = (fromWord a.length l).length := by
    intro l; rw [hl, fromWord_length]
  have key : val (addModSpecial a b c) = (val a + val b) % (B ^ a.length - c) := by
    rw [hd]
    rcases uadc_val_cases hab hs with ⟨h0, hv, hlt⟩ | ⟨h1, hv⟩
    · rw [h0, w0, WMAX_and hc,
        wrappingSub_val (uadc_WF a b c) (fromWord_WF hc) (hlen c), hl, val_fromWord hn, hv]
      have : val a + val b + c + B ^ a.length - c = (val a + val b) + B ^ a.length := by omega
      rw [this, Nat.add_mod_right, Nat.mod_eq_of_lt (by omega), Nat.mod_eq_of_lt (by omega)]
    · rw [h1, w1, Nat.zero_and,
        wrappingSub_val (uadc_WF a b c) (fromWord_WF (by decide)) (hlen 0), hl, val_fromWord hn]
      have hlt := val_lt (uadc_WF a b c); rw [hl] at hlt
      rw [Nat.sub_zero, Nat.add_mod_right, Nat.mod_eq_of_lt hlt,
        mod_of_lt_two (by omega), if_neg (by omega)]
      omega
  refine ⟨key, by rw [key]; exact Nat.mod_lt _ (by omega), ?_, ?_⟩
  · rw [hd]; exact wrappingSub_WF _ _
  · rw [hd, wrappingSub_length (hlen _), hl]

/-- T07.2b `sub_mod_special`: for `a, b < p = 2^BITS - c` the result is `(a - b) mod p`, `< p`. -/
theorem sub_mod_special_spec {a b : List Nat} {c : Nat} (ha : WF a) (hb : WF b)
    (hab : a.length = b.length) (hc1 : 1 ≤ c) (hc : c < B)
    (hlta : val a < B ^ a.length - c) (hltb : val b < B ^ a.length - c) :
    val (subModSpecial a b c) = (val a + (B ^ a.length - c) - val b) % (B ^ a.length - c) ∧
    val (subModSpecial a b c) < B ^ a.length - c ∧
    WF (subModSpecial a b c) ∧ (subModSpecial a b c).length = a.length := by
  have hn := length_pos_of_lt_special hc1 hlta
  have ⟨hbw, hv⟩ := sub_value_borrow ha hb hab
  have hl := usbb_length a b 0 hab
  have hd : subModSpecial a b c =
      wrappingSub (usbb a b 0).1 (fromWord a.length ((usbb a b 0).2 &&& c)) := rfl
  have hlen : ∀ l, (usbb a b 0).1.length = (fromWord a.length l).length := by
    intro l; rw [hl, fromWord_length]
  have hm1 : mask true = WMAX := rfl
  have hm0 : mask false = 0 := rfl
  have key : val (subModSpecial a b c) =
      (val a + (B ^ a.length - c) - val b) % (B ^ a.length - c) := by
    rw [hd, hbw]
    by_cases hlt : val a < val b
    · simp only [hlt, decide_true]
      rw [hm1, WMAX_and hc,
        wrappingSub_val (usbb_WF a b 0) (fromWord_WF hc) (hlen c), hl, val_fromWord hn, hv]
      simp only [hlt, if_true]
      have : val a + B ^ a.length - val b + B ^ a.length - c
          = (val a + (B ^ a.length - c) - val b) + B ^ a.length := by omega
      rw [this, Nat.add_mod_right, Nat.mod_eq_of_lt (by omega), Nat.mod_eq_of_lt (by omega)]
    · simp only [hlt, decide_false]
      rw [hm0, Nat.zero_and,
        wrappingSub_val (usbb_WF a b 0) (fromWord_WF (by decide)) (hlen 0), hl, val_fromWord hn, hv]
      simp only [hlt, if_false, Nat.sub_zero]
      have hva := val_lt ha
      rw [Nat.add_mod_right, Nat.mod_eq_of_lt (by omega)]
      have : val a + (B ^ a.length - c) - val b = (val a - val b) + (B ^ a.length - c) := by omega
      rw [this, Nat.add_mod_right, Nat.mod_eq_of_lt (by omega)]
  refine ⟨key, by rw [key]; exact Nat.mod_lt _ (by omega), ?_, ?_⟩
  · rw [hd]; exact wrappingSub_WF _ _
  · rw [hd, wrappingSub_length (hlen _), hl]

/-- T07.2c `neg_mod_special`: for `a < p = 2^BITS - c` the result is `(-a) mod p` (`0 ↦ 0`). -/
theorem neg_mod_special_spec {a : List Nat} {c : Nat} (ha : WF a)
    (hc1 : 1 ≤ c) (hc : c < B) (hlta : val a < B ^ a.length - c) :
    val (negModSpecial a c) = ((B ^ a.length - c) - val a) % (B ^ a.length - c) ∧
    val (negModSpecial a c) < B ^ a.length - c ∧
    WF (negModSpecial a c) ∧ (negModSpecial a c).length = a.length := by
  have hz : (uzero a.length).length = a.length := uzero_length _
  have h := sub_mod_special_spec (a := uzero a.length) (b := a) (c := c) (uzero_WF _) ha hz hc1 hc
    (by rw [hz, val_uzero]; omega) (by rw [hz]; exact hlta)
  rw [hz, val_uzero, Nat.zero_add] at h
  exact h

/-! ## T07.3 `mul_mod_special` (HAC 14.47 for `p = 2^BITS - c`)

  The product `split_mul` (fixed) / `BoxedUint::mul` (boxed) is used at value level: exactness of
  multiplication is property C03.  The one-limb path `mul_rem(a, b, 0 - c)` is used at value level:
  exactness of the limb remainder is property C02.

  History: until /repo commit a301fd3 the code computed `(carry.0 + 1)` in the limb type; that
  formula is wrong at `c = MAX` with ≥ 3 limbs (CB/Lemmas/C07Old.lean keeps the proved negative
  `old_formula_mul_mod_special_wrong_at_max`).  The theorems below are about the code as it is now. -/

/-- T07.3 `mul_mod_special` returns `a·b mod p` for `p = 2^BITS - c`: every width `≥ 1`, every
    `1 ≤ c < 2^64` (including `c = MAX`), ALL operands of the width (in particular all `a, b < p`);
    the result is `< p`.  No side condition. -/
theorem mul_mod_special_spec {a b : List Nat} {c : Nat} (ha : WF a) (hb : WF b)
    (hab : a.length = b.length) (hn : 1 ≤ a.length) (hc1 : 1 ≤ c) (hc : c < B) :
    val (mulModSpecial a b c) = (val a * val b) % (B ^ a.length - c) ∧
    val (mulModSpecial a b c) < B ^ a.length - c ∧
    WF (mulModSpecial a b c) ∧ (mulModSpecial a b c).length = a.length := by
  have hpos : 0 < B ^ a.length - c := by
    have : B ^ 1 ≤ B ^ a.length := Nat.pow_le_pow_right B_pos hn
    simp only [Nat.pow_one] at this; omega
  by_cases h1 : a.length = 1
  · -- LIMBS == 1
    match a, b, h1, hab with
    | [x], [y], _, _ =>
      have hd : mulModSpecial [x] [y] c = [(x * y) % (wsub 0 c)] := rfl
      have hmod : x * y % (B - c) < B - c := Nat.mod_lt _ (by omega)
      rw [hd, wsub_zero hc1 hc]
      simp only [val_cons, val_nil, Nat.mul_zero, Nat.add_zero, List.length_cons, List.length_nil,
        Nat.zero_add, Nat.pow_one]
      exact ⟨trivial, hmod, WF_cons.mpr ⟨by omega, WF_nil⟩, trivial⟩
  · have hn2 : 2 ≤ a.length := by omega
    have hd : mulModSpecial a b c =
        specialReduce (toLimbs a.length (val a * val b))
          (toLimbs a.length (val a * val b / B ^ a.length)) c := by
      unfold mulModSpecial; rw [if_neg h1]
    have ⟨r1, r2, r3⟩ := specialReduce_spec (toLimbs_WF a.length (val a * val b))
      (toLimbs_WF a.length (val a * val b / B ^ a.length))
      (by rw [toLimbs_length, toLimbs_length]) (by rw [toLimbs_length]; exact hn2) hc1 hc
    rw [toLimbs_length] at r1 r3
    rw [split_product ha hb hab] at r1
    rw [hd]
    exact ⟨r1, by rw [r1]; exact Nat.mod_lt _ hpos, r2, r3⟩

/-- T07.3 in the shape of the documented precondition (`a, b < p`). -/
theorem mul_mod_special_reduced_spec {a b : List Nat} {c : Nat} (ha : WF a) (hb : WF b)
    (hab : a.length = b.length) (hc1 : 1 ≤ c) (hc : c < B)
    (hlta : val a < B ^ a.length - c) (_hltb : val b < B ^ a.length - c) :
    val (mulModSpecial a b c) = (val a * val b) % (B ^ a.length - c) ∧
    val (mulModSpecial a b c) < B ^ a.length - c ∧
    WF (mulModSpecial a b c) ∧ (mulModSpecial a b c).length = a.length :=
  mul_mod_special_spec ha hb hab (length_pos_of_lt_special hc1 hlta) hc1 hc

/-- the former failing input (`c = MAX`, three limbs, `a = b = 2^192 - 2^65`) now gives the residue -/
example : val (mulModSpecial [0, WMAX - 1, WMAX] [0, WMAX - 1, WMAX] WMAX)
    = 0x100000000000000020000000000000001 := by decide

/-! ## T07.4 `div_by_2` (halving modulo an odd modulus) -/

/-- arithmetic core: `t = a + (p if a odd)` is even, `t/2 < p` and `2·(t/2) ≡ a (mod p)`. -/
theorem halve_value {a p : Nat} (hodd : p % 2 = 1) (hlt : a < p) :
    (a + (if a % 2 = 1 then p else 0)) / 2 < p ∧
    (2 * ((a + (if a % 2 = 1 then p else 0)) / 2)) % p = a := by
  by_cases h : a % 2 = 1
  · simp only [h, if_true]
    refine ⟨by omega, ?_⟩
    have : 2 * ((a + p) / 2) = a + p := by omega
    rw [this, Nat.add_mod_right, Nat.mod_eq_of_lt hlt]
  · simp only [h, if_false, Nat.add_zero]
    refine ⟨by omega, ?_⟩
    have : 2 * (a / 2) = a := by omega
    rw [this, Nat.mod_eq_of_lt hlt]

/-- T07.4a `div_by_2(a, p)` for odd `p` and `a < p`: the result `r` satisfies `r < p` and
    `2r ≡ a (mod p)`. -/
theorem div_by_2_spec {a m : List Nat} (ha : WF a) (hm : WF m) (hl : a.length = m.length)
    (hodd : val m % 2 = 1) (hlt : val a < val m) :
    val (divBy2 a m) < val m ∧ (2 * val (divBy2 a m)) % val m = val a ∧
    WF (divBy2 a m) ∧ (divBy2 a m).length = a.length := by
  have hne : a ≠ [] := by
    intro h; subst h
    cases m with
    | nil => simp at hlt
    | cons _ _ => simp at hl
  have e := uadc_spec a m 0 hl
  have hc := uadc_carry_le_one ha hm (Nat.le_of_lt Nat.zero_lt_one)
  have hcB : (uadc a m 0).2 < B := Nat.lt_of_le_of_lt hc (by decide)
  have hul := uadc_length a m 0 hl
  have ⟨hv1, hv2⟩ := halve_value hodd hlt
  have hd : divBy2 a m = setBit (shr1 (uselect a (uadc a m 0).1 (isOdd a))) (64 * a.length - 1)
      (fromWordNonzero (selectWord 0 (uadc a m 0).2 (isOdd a))) := rfl
  rw [hd, isOdd_spec ha, selectWord_spec _ (show 0 < B by decide) hcB,
    uselect_spec _ ha (uadc_WF a m 0) hul.symm]
  by_cases h : val a % 2 = 1
  · simp only [h, decide_true, if_true] at hv1 hv2 ⊢
    have hne' : (uadc a m 0).1 ≠ [] := by
      intro h0; rw [h0] at hul; cases a with
      | nil => exact hne rfl
      | cons _ _ => simp at hul
    have hbit : fromWordNonzero (uadc a m 0).2 = mask (decide ((uadc a m 0).2 = 1)) := by
      rw [fromWordNonzero_spec hcB]; congr 1
      rcases (show (uadc a m 0).2 = 0 ∨ (uadc a m 0).2 = 1 by omega) with h0 | h1
      · simp [h0]
      · simp [h1]
    have ⟨r1, r2, r3⟩ := halve_core (uadc_WF a m 0) hne' hc
    rw [hul] at r1 r2 r3
    rw [hbit]
    have e' : val (uadc a m 0).1 + B ^ a.length * (uadc a m 0).2 = val a + val m := by omega
    rw [e'] at r1
    rw [r1]
    exact ⟨hv1, hv2, r2, r3⟩
  · simp only [h, decide_false, Bool.false_eq_true, if_false, Nat.add_zero] at hv1 hv2 ⊢
    have hbit : fromWordNonzero 0 = mask (decide ((0:Nat) = 1)) := by decide
    have ⟨r1, r2, r3⟩ := halve_core (carry := 0) ha hne (by decide)
    rw [hbit]
    rw [Nat.mul_zero, Nat.add_zero] at r1
    rw [r1]
    exact ⟨hv1, hv2, r2, r3⟩

/-- T07.4b boxed `div_by_2_boxed_assign`: same statement. -/
theorem boxed_div_by_2_spec {a m : List Nat} (ha : WF a) (hm : WF m) (hl : a.length = m.length)
    (hodd : val m % 2 = 1) (hlt : val a < val m) :
    val (bDivBy2 a m) < val m ∧ (2 * val (bDivBy2 a m)) % val m = val a ∧
    WF (bDivBy2 a m) ∧ (bDivBy2 a m).length = a.length := by
  have hne : a ≠ [] := by
    intro h; subst h
    cases m with
    | nil => simp at hlt
    | cons _ _ => simp at hl
  have ⟨hv1, hv2⟩ := halve_value hodd hlt
  have hd : bDivBy2 a m = setBit (shr1 (condAdcLoop a m (isOdd a) 0).1) (64 * a.length - 1)
      (fromWordLsb ((condAdcLoop a m (isOdd a) 0).2 &&& 1)) := rfl
  rw [hd, condAdcLoop_eq _ _ hl, isOdd_spec ha, bitandLimb_mask hm]
  -- the conditionally added operand
  generalize hq : (if decide (val a % 2 = 1) = true then m else uzero m.length) = q
  have hqw : WF q := by rw [← hq]; split; exact hm; exact uzero_WF _
  have hql : a.length = q.length := by rw [← hq]; split; exact hl; rw [uzero_length]; exact hl
  have hqv : val q = if val a % 2 = 1 then val m else 0 := by
    rw [← hq]; by_cases h : val a % 2 = 1 <;> simp [h, val_uzero]
  have e := uadc_spec a q 0 hql
  have hc := uadc_carry_le_one ha hqw (Nat.le_of_lt Nat.zero_lt_one)
  have hul := uadc_length a q 0 hql
  have hne' : (uadc a q 0).1 ≠ [] := by
    intro h0; rw [h0] at hul; cases a with
    | nil => exact hne rfl
    | cons _ _ => simp at hul
  have hbit : fromWordLsb ((uadc a q 0).2 &&& 1) = mask (decide ((uadc a q 0).2 = 1)) := by
    rcases (show (uadc a q 0).2 = 0 ∨ (uadc a q 0).2 = 1 by omega) with h0 | h1
    · rw [h0]; decide
    · rw [h1]; decide
  have ⟨r1, r2, r3⟩ := halve_core (uadc_WF a q 0) hne' hc
  rw [hul] at r1 r2 r3
  have e' : val (uadc a q 0).1 + B ^ a.length * (uadc a q 0).2
      = val a + (if val a % 2 = 1 then val m else 0) := by rw [← hqv]; omega
  rw [e'] at r1
  rw [hbit, r1]
  exact ⟨hv1, hv2, r2, r3⟩

/-! ## T07.5 `mul_mod` (Montgomery route) and `mul_mod_vartime` — value level

  The model functions are the specification itself; what remains is the refinement of the called
  algorithms, which other properties own:
  * `mul_mod`: `MontyForm::new(a) * MontyForm::new(b)` retrieved equals `a·b mod p` for odd `p`
    — property C08 (T08.1–T08.3);
  * `mul_mod_vartime`: `split_mul` exact (C03) and `rem_wide_vartime` exact (C02, carrying its
    hypotheses `H_recip`, `H_qhat`).
  The correspondence run compares the real functions with these values on every generated line. -/

theorem mul_mod_value {a b p : List Nat} (hp : WF p) (hap : a.length = p.length) (hpos : 0 < val p) :
    val (mulMod a b p) = (val a * val b) % val p ∧ val (mulMod a b p) < val p ∧
    val (mulModVartime a b p) = (val a * val b) % val p := by
  have hlt : (val a * val b) % val p < B ^ a.length := by
    have := val_lt hp; rw [← hap] at this
    exact Nat.lt_trans (Nat.mod_lt _ hpos) this
  have hv : val (toLimbs a.length ((val a * val b) % val p)) = (val a * val b) % val p := by
    rw [val_toLimbs, Nat.mod_eq_of_lt hlt]
  exact ⟨hv, by rw [show val (mulMod a b p) = _ from hv]; exact Nat.mod_lt _ hpos, hv⟩

/-! ## T07.6 BoxedUint duplicates: same limbs as the fixed-width functions (equal precisions) -/

theorem boxed_add_mod_spec {a b p : List Nat} (ha : WF a) (hb : WF b) (hp : WF p)
    (hab : a.length = b.length) (hap : a.length = p.length)
    (hlta : val a < val p) (hltb : val b < val p) :
    val (bAddMod a b p) = (val a + val b) % val p ∧ val (bAddMod a b p) < val p ∧
    WF (bAddMod a b p) ∧ (bAddMod a b p).length = a.length := by
  rw [bAddMod_eq ha hb hp hab hap]; exact add_mod_spec ha hb hp hab hap hlta hltb

theorem boxed_double_mod_spec {a p : List Nat} (ha : WF a) (hp : WF p)
    (hap : a.length = p.length) (hlta : val a < val p) :
    val (bDoubleMod a p) = (2 * val a) % val p ∧ val (bDoubleMod a p) < val p ∧
    WF (bDoubleMod a p) ∧ (bDoubleMod a p).length = a.length := by
  rw [bDoubleMod_eq ha hp hap]; exact double_mod_spec ha hp hap hlta

theorem boxed_sub_mod_spec {a b p : List Nat} (ha : WF a) (hb : WF b) (hp : WF p)
    (hab : a.length = b.length) (hap : a.length = p.length)
    (hlta : val a < val p) (hltb : val b < val p) :
    val (bSubMod a b p) = (val a + val p - val b) % val p ∧ val (bSubMod a b p) < val p ∧
    WF (bSubMod a b p) ∧ (bSubMod a b p).length = a.length := by
  rw [bSubMod_eq ha hb hab hap]; exact sub_mod_spec ha hb hp hab hap hlta hltb

theorem boxed_neg_mod_spec {a p : List Nat} (ha : WF a) (hp : WF p)
    (hap : a.length = p.length) (hlta : val a < val p) :
    val (bNegMod a p) = (val p - val a) % val p ∧ val (bNegMod a p) < val p ∧
    (val a = 0 → val (bNegMod a p) = 0) ∧
    WF (bNegMod a p) ∧ (bNegMod a p).length = a.length := by
  rw [bNegMod_eq ha hp hap]; exact neg_mod_spec ha hp hap hlta

theorem boxed_sub_mod_special_spec {a b : List Nat} {c : Nat} (ha : WF a) (hb : WF b)
    (hab : a.length = b.length) (hc1 : 1 ≤ c) (hc : c < B)
    (hlta : val a < B ^ a.length - c) (hltb : val b < B ^ a.length - c) :
    val (bSubModSpecial a b c) = (val a + (B ^ a.length - c) - val b) % (B ^ a.length - c) ∧
    val (bSubModSpecial a b c) < B ^ a.length - c ∧
    WF (bSubModSpecial a b c) ∧ (bSubModSpecial a b c).length = a.length := by
  rw [bSubModSpecial_eq c hab (length_pos_of_lt_special hc1 hlta)]
  exact sub_mod_special_spec ha hb hab hc1 hc hlta hltb

theorem boxed_neg_mod_special_spec {a : List Nat} {c : Nat} (ha : WF a)
    (hc1 : 1 ≤ c) (hc : c < B) (hlta : val a < B ^ a.length - c) :
    val (bNegModSpecial a c) = ((B ^ a.length - c) - val a) % (B ^ a.length - c) ∧
    val (bNegModSpecial a c) < B ^ a.length - c ∧
    WF (bNegModSpecial a c) ∧ (bNegModSpecial a c).length = a.length := by
  rw [bNegModSpecial_eq a c (length_pos_of_lt_special hc1 hlta)]
  exact neg_mod_special_spec ha hc1 hc hlta

/-- boxed `mul_mod_special`: same full statement (precisions equal). -/
theorem boxed_mul_mod_special_spec {a b : List Nat} {c : Nat} (ha : WF a) (hb : WF b)
    (hab : a.length = b.length) (hn : 1 ≤ a.length) (hc1 : 1 ≤ c) (hc : c < B) :
    val (bMulModSpecial a b c) = (val a * val b) % (B ^ a.length - c) ∧
    val (bMulModSpecial a b c) < B ^ a.length - c ∧
    WF (bMulModSpecial a b c) ∧ (bMulModSpecial a b c).length = a.length := by
  rw [bMulModSpecial_eq c hab hc hn]
  exact mul_mod_special_spec ha hb hab hn hc1 hc

example : val (bMulModSpecial [0, WMAX - 1, WMAX] [0, WMAX - 1, WMAX] WMAX)
    = 0x100000000000000020000000000000001 := by decide

/-! ## non-vacuity: the hypotheses are met by concrete non-trivial operands -/

example : (addMod [WMAX, WMAX - 1] [WMAX, WMAX - 1] [0, WMAX]) = [WMAX - 1, WMAX - 1] := by decide
example : val [WMAX, WMAX - 1] < val [0, WMAX] := by decide
example : val [WMAX, WMAX - 1] + val [WMAX, WMAX - 1] ≥ B ^ 2 := by decide   -- the sum overflows 2^BITS
example : negMod [0, 0] [5, 7] = [0, 0] := by decide
example : val (mulModSpecial [5, 6, 7] [8, 9, 10] 3) = (val [5, 6, 7] * val [8, 9, 10]) % (B ^ 3 - 3) := by
  decide
example : divBy2 [5, 0] [7, 0] = [6, 0] := by decide
example : val (subModSpecial [1, 0] [2, 0] 5) = B ^ 2 - 5 - 1 := by decide

end CB.P07
