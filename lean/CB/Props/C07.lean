/-
  C07 — Modular add / sub / neg / double / mul / halve return the canonical residue.
  Property theorems only (helper lemmas: CB/Lemmas/C07.lean, CB/Lemmas/C07Bits.lean).
  Every theorem quantifies over all limb counts (list lengths) and all operands inside the
  documented preconditions; the model functions are those of CB/Model/ModArith.lean, which mirror
  src/uint/{add_mod,sub_mod,neg_mod,mul_mod}.rs, src/modular/div_by_2.rs and the boxed twins.
-/
import CB.Lemmas.C07
namespace CB.P07
open CB CB.ModArith

/-! ## T07.1 general modulus: add, double, sub, sub-with-carry, neg -/

/-- T07.1a `add_mod`: for `a, b < p` the result is `(a + b) mod p`, in every carry / borrow
    combination (the sum may reach or exceed `2^BITS`); it is `< p`. -/
theorem add_mod_spec {a b p : List Nat} (ha : WF a) (hb : WF b) (hp : WF p)
    (hab : a.length = b.length) (hap : a.length = p.length)
    (hlta : val a < val p) (hltb : val b < val p) :
    val (addMod a b p) = (val a + val b) % val p ∧ val (addMod a b p) < val p ∧
    WF (addMod a b p) ∧ (addMod a b p).length = a.length := by
  have e := uadc_spec a b 0 hab
  have hc := uadc_carry_le_one ha hb (Nat.le_of_lt Nat.zero_lt_one)
  have hl := uadc_length a b 0 hab
  have hs : val (uadc a b 0).1 + B ^ (uadc a b 0).1.length * (uadc a b 0).2 < 2 * val p := by
    rw [hl]; omega
  have ⟨t1, t2, t3⟩ := addModTail_spec (uadc_WF a b 0) hp (by rw [hl, hap]) hc hs
  rw [hl] at t1 t3
  have e' : val (uadc a b 0).1 + B ^ a.length * (uadc a b 0).2 = val a + val b := by omega
  rw [e'] at t1
  have hd : addMod a b p = addModTail (uadc a b 0).1 (uadc a b 0).2 p := rfl
  rw [hd]
  exact ⟨t1, by rw [t1]; exact Nat.mod_lt _ (by omega), t2, t3⟩

/-- T07.1b `double_mod`: for `a < p` the result is `2a mod p`, `< p`. -/
theorem double_mod_spec {a p : List Nat} (ha : WF a) (hp : WF p)
    (hap : a.length = p.length) (hlta : val a < val p) :
    val (doubleMod a p) = (2 * val a) % val p ∧ val (doubleMod a p) < val p ∧
    WF (doubleMod a p) ∧ (doubleMod a p).length = a.length := by
  have ⟨e, hc, hw, hl⟩ := overflowingShl1_spec ha
  have hs : val (overflowingShl1 a).1 + B ^ (overflowingShl1 a).1.length * (overflowingShl1 a).2
      < 2 * val p := by rw [hl]; omega
  have ⟨t1, t2, t3⟩ := addModTail_spec hw hp (by rw [hl, hap]) hc hs
  rw [hl] at t1 t3
  rw [e] at t1
  have hd : doubleMod a p = addModTail (overflowingShl1 a).1 (overflowingShl1 a).2 p := rfl
  rw [hd]
  exact ⟨t1, by rw [t1]; exact Nat.mod_lt _ (by omega), t2, t3⟩

/-- T07.1c `sub_mod`: for `a, b < p` the result is `(a - b) mod p` (written `a + p - b`), `< p`. -/
theorem sub_mod_spec {a b p : List Nat} (ha : WF a) (hb : WF b) (hp : WF p)
    (hab : a.length = b.length) (hap : a.length = p.length)
    (hlta : val a < val p) (hltb : val b < val p) :
    val (subMod a b p) = (val a + val p - val b) % val p ∧ val (subMod a b p) < val p ∧
    WF (subMod a b p) ∧ (subMod a b p).length = a.length := by
  have ⟨hbw, hv⟩ := sub_value_borrow ha hb hab
  have hl := usbb_length a b 0 hab
  have hvp := val_lt hp; rw [← hap] at hvp
  have hl2 : (usbb a b 0).1.length = (bitandLimb p (usbb a b 0).2).length := by
    rw [hl, bitandLimb_length, hap]
  have key : val (subMod a b p) = (val a + val p - val b) % val p := by
    show val (wrappingAdd (usbb a b 0).1 (bitandLimb p (usbb a b 0).2)) = _
    rw [wrappingAdd_val hl2, hl, hv, hbw, bitandLimb_mask hp]
    by_cases hlt : val a < val b
    · simp only [hlt, decide_true, if_true]
      have : val a + B ^ a.length - val b + val p = (val a + val p - val b) + B ^ a.length := by omega
      rw [this, Nat.add_mod_right, Nat.mod_eq_of_lt (by omega), Nat.mod_eq_of_lt (by omega)]
    · simp only [hlt, decide_false, Bool.false_eq_true, if_false, val_uzero, Nat.add_zero]
      have : val a + val p - val b = (val a - val b) + val p := by omega
      rw [this, Nat.add_mod_right, Nat.mod_eq_of_lt (by omega), Nat.mod_eq_of_lt (by omega)]
  refine ⟨key, by rw [key]; exact Nat.mod_lt _ (by omega), wrappingAdd_WF _ _, ?_⟩
  show (wrappingAdd (usbb a b 0).1 _).length = _
  rw [wrappingAdd_length hl2, hl]

/-- T07.1d `sub_mod_with_carry` (crate-internal; used by the Montgomery code):
    for `carry ≤ 1` and `-p ≤ (a + carry·2^BITS) - b < p` the result is that difference mod `p`. -/
theorem sub_mod_with_carry_spec {a b p : List Nat} {carry : Nat} (ha : WF a) (hb : WF b) (hp : WF p)
    (hab : a.length = b.length) (hap : a.length = p.length) (hc : carry ≤ 1)
    (hlo : val b ≤ val a + B ^ a.length * carry + val p)
    (hhi : val a + B ^ a.length * carry < val b + val p) :
    val (subModWithCarry a carry b p) = (val a + B ^ a.length * carry + val p - val b) % val p ∧
    val (subModWithCarry a carry b p) < val p := by
  have ⟨hbw, hv⟩ := sub_value_borrow ha hb hab
  have hl := usbb_length a b 0 hab
  have hva := val_lt ha
  have hvb := val_lt hb; rw [← hab] at hvb
  have hvp := val_lt hp; rw [← hap] at hvp
  have hl2 : (usbb a b 0).1.length =
      (bitandLimb p (wnot (wneg carry) &&& (usbb a b 0).2)).length := by
    rw [hl, bitandLimb_length, hap]
  have ⟨m00, m01, m10, m11⟩ := subcarry_mask_table
  have hm1 : mask true = WMAX := rfl
  have hm0 : mask false = 0 := rfl
  have key : val (subModWithCarry a carry b p) =
      (val a + B ^ a.length * carry + val p - val b) % val p := by
    show val (wrappingAdd (usbb a b 0).1 (bitandLimb p (wnot (wneg carry) &&& (usbb a b 0).2))) = _
    rw [wrappingAdd_val hl2, hl, hv, hbw]
    rcases (show carry = 0 ∨ carry = 1 by omega) with rfl | rfl
    · simp only [Nat.mul_zero, Nat.add_zero] at hlo hhi ⊢
      by_cases hlt : val a < val b
      · simp only [hlt, decide_true, if_true]
        rw [hm1, m01, ← hm1, bitandLimb_mask hp]
        simp only [if_true]
        have : val a + B ^ a.length - val b + val p = (val a + val p - val b) + B ^ a.length := by omega
        rw [this, Nat.add_mod_right, Nat.mod_eq_of_lt (by omega), Nat.mod_eq_of_lt (by omega)]
      · simp only [hlt, decide_false, if_false]
        rw [hm0, m00, ← hm0, bitandLimb_mask hp]
        simp only [Bool.false_eq_true, if_false, val_uzero, Nat.add_zero]
        have : val a + val p - val b = (val a - val b) + val p := by omega
        rw [this, Nat.add_mod_right, Nat.mod_eq_of_lt (by omega), Nat.mod_eq_of_lt (by omega)]
    · simp only [Nat.mul_one] at hlo hhi ⊢
      have hlt : val a < val b := by omega
      simp only [hlt, decide_true, if_true]
      rw [hm1, m11, ← hm0, bitandLimb_mask hp]
      simp only [Bool.false_eq_true, if_false, val_uzero, Nat.add_zero]
      have : val a + B ^ a.length + val p - val b = (val a + B ^ a.length - val b) + val p := by omega
      rw [this, Nat.add_mod_right, Nat.mod_eq_of_lt (by omega), Nat.mod_eq_of_lt (by omega)]
  exact ⟨key, by rw [key]; exact Nat.mod_lt _ (by omega)⟩

/-- T07.1e `neg_mod`: for `a < p` the result is `(-a) mod p`: `0 ↦ 0`, otherwise `p - a`. -/
theorem neg_mod_spec {a p : List Nat} (ha : WF a) (hp : WF p)
    (hap : a.length = p.length) (hlta : val a < val p) :
    val (negMod a p) = (val p - val a) % val p ∧ val (negMod a p) < val p ∧
    (val a = 0 → val (negMod a p) = 0) ∧
    WF (negMod a p) ∧ (negMod a p).length = a.length := by
  have ⟨_, hv⟩ := sub_value_borrow hp ha hap.symm
  have hl := usbb_length p a 0 hap.symm
  have hwf := usbb_WF p a 0
  have key : val (negMod a p) = (val p - val a) % val p := by
    show val (bitandLimb (usbb p a 0).1 (isNonzero a)) = _
    rw [isNonzero_spec ha, bitandLimb_mask hwf]
    by_cases hz : val a = 0
    · simp [hz, val_uzero]
    · simp only [hz, ne_eq, not_false_eq_true, decide_true, if_true, hv,
        show ¬ val p < val a by omega, if_false]
      rw [Nat.mod_eq_of_lt (by omega)]
  refine ⟨key, by rw [key]; exact Nat.mod_lt _ (by omega), ?_, ?_, ?_⟩
  · intro hz; rw [key, hz]; simp
  · show WF (bitandLimb (usbb p a 0).1 (isNonzero a))
    rw [isNonzero_spec ha, bitandLimb_mask hwf]
    split
    · exact hwf
    · exact uzero_WF _
  · show (bitandLimb (usbb p a 0).1 (isNonzero a)).length = _
    rw [bitandLimb_length, hl, hap]

/-! ## T07.2 special modulus `p = 2^BITS - c`, `1 ≤ c < 2^64`: add, sub, neg -/

theorem length_pos_of_lt_special {a : List Nat} {c : Nat} (hc1 : 1 ≤ c)
    (hlta : val a < B ^ a.length - c) : 0 < a.length := by
  cases a with
  | nil => simp at hlta; omega
  | cons _ _ => simp

/-- T07.2a `add_mod_special`: for `a, b < p = 2^BITS - c` the result is `(a + b) mod p`, `< p`. -/
theorem add_mod_special_spec {a b : List Nat} {c : Nat} (_ha : WF a) (_hb : WF b)
    (hab : a.length = b.length) (hc1 : 1 ≤ c) (hc : c < B)
    (hlta : val a < B ^ a.length - c) (hltb : val b < B ^ a.length - c) :
    val (addModSpecial a b c) = (val a + val b) % (B ^ a.length - c) ∧
    val (addModSpecial a b c) < B ^ a.length - c ∧
    WF (addModSpecial a b c) ∧ (addModSpecial a b c).length = a.length := by
  have hn := length_pos_of_lt_special hc1 hlta
  have hl := uadc_length a b c hab
  have hs : val a + val b + c < 2 * B ^ a.length := by omega
  have ⟨w0, w1⟩ := wsub_one_table
  have hd : addModSpecial a b c =
      wrappingSub (uadc a b c).1 (fromWord a.length (wsub (uadc a b c).2 1 &&& c)) := rfl
  have hlen : ∀ l, (uadc a b c).1.length = (fromWord a.length l).length := by
    intro l; rw [hl, fromWord_length]
  have key : val (addModSpecial a b c) = (val a + val b) % (B ^ a.length - c) := by
    rw [hd]
    rcases uadc_val_cases hab hs with ⟨h0, hv, hlt⟩ | ⟨h1, hv⟩
    · rw [h0, w0, WMAX_and hc,
        wrappingSub_val (uadc_WF a b c) (fromWord_WF hc) (hlen c), hl, val_fromWord hn, hv]
      have : val a + val b + c + B ^ a.length - c = (val a + val b) + B ^ a.length := by omega
      rw [this, Nat.add_mod_right, Nat.mod_eq_of_lt (by omega), Nat.mod_eq_of_lt (by omega)]
    · rw [h1, w1, Nat.zero_and,
        wrappingSub_val (uadc_WF a b c) (fromWord_WF (by decide)) (hlen 0), hl, val_fromWord hn]
      have hlt := val_lt (uadc_WF a b c); rw [hl] at hlt
      rw [Nat.sub_zero, Nat.add_mod_right, Nat.mod_eq_of_lt hlt,
        mod_of_lt_two (by omega), if_neg (by omega)]
      omega
  refine ⟨key, by rw [key]; exact Nat.mod_lt _ (by omega), ?_, ?_⟩
  · rw [hd]; exact wrappingSub_WF _ _
  · rw [hd, wrappingSub_length (hlen _), hl]

/-- T07.2b `sub_mod_special`: for `a, b < p = 2^BITS - c` the result is `(a - b) mod p`, `< p`. -/
theorem sub_mod_special_spec {a b : List Nat} {c : Nat} (ha : WF a) (hb : WF b)
    (hab : a.length = b.length) (hc1 : 1 ≤ c) (hc : c < B)
    (hlta : val a < B ^ a.length - c) (hltb : val b < B ^ a.length - c) :
    val (subModSpecial a b c) = (val a + (B ^ a.length - c) - val b) % (B ^ a.length - c) ∧
    val (subModSpecial a b c) < B ^ a.length - c ∧
    WF (subModSpecial a b c) ∧ (subModSpecial a b c).length = a.length := by
  have hn := length_pos_of_lt_special hc1 hlta
  have ⟨hbw, hv⟩ := sub_value_borrow ha hb hab
  have hl := usbb_length a b 0 hab
  have hd : subModSpecial a b c =
      wrappingSub (usbb a b 0).1 (fromWord a.length ((usbb a b 0).2 &&& c)) := rfl
  have hlen : ∀ l, (usbb a b 0).1.length = (fromWord a.length l).length := by
    intro l; rw [hl, fromWord_length]
  have hm1 : mask true = WMAX := rfl
  have hm0 : mask false = 0 := rfl
  have key : val (subModSpecial a b c) =
      (val a + (B ^ a.length - c) - val b) % (B ^ a.length - c) := by
    rw [hd, hbw]
    by_cases hlt : val a < val b
    · simp only [hlt, decide_true]
      rw [hm1, WMAX_and hc,
        wrappingSub_val (usbb_WF a b 0) (fromWord_WF hc) (hlen c), hl, val_fromWord hn, hv]
      simp only [hlt, if_true]
      have : val a + B ^ a.length - val b + B ^ a.length - c
          = (val a + (B ^ a.length - c) - val b) + B ^ a.length := by omega
      rw [this, Nat.add_mod_right, Nat.mod_eq_of_lt (by omega), Nat.mod_eq_of_lt (by omega)]
    · simp only [hlt, decide_false]
      rw [hm0, Nat.zero_and,
        wrappingSub_val (usbb_WF a b 0) (fromWord_WF (by decide)) (hlen 0), hl, val_fromWord hn, hv]
      simp only [hlt, if_false, Nat.sub_zero]
      have hva := val_lt ha
      rw [Nat.add_mod_right, Nat.mod_eq_of_lt (by omega)]
      have : val a + (B ^ a.length - c) - val b = (val a - val b) + (B ^ a.length - c) := by omega
      rw [this, Nat.add_mod_right, Nat.mod_eq_of_lt (by omega)]
  refine ⟨key, by rw [key]; exact Nat.mod_lt _ (by omega), ?_, ?_⟩
  · rw [hd]; exact wrappingSub_WF _ _
  · rw [hd, wrappingSub_length (hlen _), hl]

/-- T07.2c `neg_mod_special`: for `a < p = 2^BITS - c` the result is `(-a) mod p` (`0 ↦ 0`). -/
theorem neg_mod_special_spec {a : List Nat} {c : Nat} (ha : WF a)
    (hc1 : 1 ≤ c) (hc : c < B) (hlta : val a < B ^ a.length - c) :
    val (negModSpecial a c) = ((B ^ a.length - c) - val a) % (B ^ a.length - c) ∧
    val (negModSpecial a c) < B ^ a.length - c ∧
    WF (negModSpecial a c) ∧ (negModSpecial a c).length = a.length := by
  have hz : (uzero a.length).length = a.length := uzero_length _
  have h := sub_mod_special_spec (a := uzero a.length) (b := a) (c := c) (uzero_WF _) ha hz hc1 hc
    (by rw [hz, val_uzero]; omega) (by rw [hz]; exact hlta)
  rw [hz, val_uzero, Nat.zero_add] at h
  exact h

end CB.P07
