/-
  CB.Props.C09 — property C09: modular exponentiation, multi-exponentiation and linear combination are exact.
  (milestone 1: structural theorems; the ladder / lincomb theorems follow)
-/
import CB.Model.Pow
import CB.Model.Lincomb
namespace CB.P09
open CB CB.Monty CB.Pow

/-- `exponent_bits = 0` returns `one` (1 in Montgomery form) — fixed forms. -/
theorem powMont_zero_bits (x e ms one : List Nat) (k : Nat) : powMont x e 0 ms one k = one := rfl

/-- `exponent_bits = 0` returns `one` — boxed form (no final reduction happens on this path). -/
theorem bPowMont_zero_bits (x e ms one : List Nat) (k : Nat) : bPowMont x e 0 ms one k = one := rfl

/-- `pow` is `pow_bounded_exp` with `exponent_bits = BITS(exponent)`. -/
theorem powFull_eq (x e ms one : List Nat) (k : Nat) :
    powFull x e ms one k = powMont x e (64 * e.length) ms one k := rfl

theorem bPowFull_eq (x e ms one : List Nat) (k : Nat) :
    bPowFull x e ms one k = bPowMont x e (64 * e.length) ms one k := rfl

/-- array and slice multi-exponentiation are the same function. -/
theorem multiExpSlice_eq_array (bes : List (List Nat × List Nat)) (bits : Nat) (ms one : List Nat) (k : Nat) :
    multiExpSlice bes bits ms one k = multiExpArray bes bits ms one k := rfl

end CB.P09
