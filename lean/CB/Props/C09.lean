/-
  CB.Props.C09 — property C09: modular exponentiation, multi-exponentiation and linear combination are exact.

  Models: CB/Model/Pow.lean (CB.Pow), CB/Model/Lincomb.lean (CB.Lincomb).  Facts imported from property C08
  (file CB/Props/C08.lean, all proved there, no hypothesis carried here):
    T08.1 `CB.P08.redc_spec`  (through `CB.Monty.mulMont_spec` / `retrieveMont_spec`: Montgomery multiplication
          and `retrieve` on canonical values),
    T08.2 `CB.P08.constructors_yield_constants` / `CB.Monty.good_spec` (every parameter constructor yields
          `one = B^n mod m`, `mod_neg_inv·m ≡ −1`),
    T08.4 `CB.P08.amm_congruence_and_bound`, `CB.P08.amm_reduction_error` (almost-Montgomery multiplication),
          `CB.P08.boxed_retrieve_reduced` (`AmmOneOK`), `CB.Monty.opNew_canon`, `CB.Monty.opRetrieve_canon`,
    C07/C08 `CB.Monty.addTail_spec` (`sub_mod_with_carry`), `CB.Monty.addMod_spec`, `CB.Monty.lowlimb_cancel`
          (lincomb reduction / recombination).
  Wide multiplication inside `mulMont` is a value-level call (exactness of mul is C03).

  Notation: `Rep ms z V` — `z` is the canonical `n`-limb Montgomery representative of the residue of `V`
  (`val z = V·B^n mod m`); `ModOK ms k` — `ms` well-formed, `m > 0`, `k·m ≡ −1 (mod 2^64)` (hence `m` odd).
-/
import CB.Lemmas.C09Boxed
import CB.Lemmas.C09Lincomb
namespace CB.P09
open CB CB.Monty CB.Pow CB.Lincomb

/-! ## T09.1 — `pow_bounded_exp` (fixed-width forms: `MontyForm`, `ConstMontyForm`) -/

/-- The 4-bit fixed-window ladder, for every limb count of base and exponent, every base residue `X`, every
    exponent and EVERY bit bound `bits` (the Rust code additionally panics for `bits > BITS(exponent)`, see
    `indexPanics`; the model reads limbs beyond the exponent as zero): the result is the canonical Montgomery
    form of `X ^ (e mod 2^bits)` and `retrieve()` returns `X ^ (e mod 2^bits) mod m`. -/
theorem pow_bounded_exp_exact (ms one x e : List Nat) (k X bits : Nat)
    (hm : ModOK ms k) (hone : Rep ms one 1) (hx : Rep ms x X) (he : WF e) :
    Rep ms (powMont x e bits ms one k) (X ^ (val e % 2 ^ bits)) ∧
    val (powMont x e bits ms one k) < val ms ∧
    val (retrieveMont (powMont x e bits ms one k) ms k) = powSpec (val ms) X (val e) bits := by
  have h : List.Forall₂ (BaseOK ms) [(x, e)] [(X, val e)] :=
    List.Forall₂.cons ⟨hx, he, rfl⟩ List.Forall₂.nil
  have r := multiExpArray_spec hm hone bits h
  have r' : Rep ms (powMont x e bits ms one k) (X ^ (val e % 2 ^ bits)) :=
    r.congr (by simp [prodPow])
  exact ⟨r', r'.lt hm, (r'.retrieve hm).1⟩

/-- `exponent_bits = 0` returns `one` (1 in Montgomery form) — fixed forms. -/
theorem powMont_zero_bits (x e ms one : List Nat) (k : Nat) : powMont x e 0 ms one k = one := rfl

/-- … which retrieves to `1 mod m` (`x^0`), for every modulus with canonical `one`. -/
theorem pow_zero_bits_retrieves_one (ms one x e : List Nat) (k : Nat) (hm : ModOK ms k) (hone : Rep ms one 1) :
    val (retrieveMont (powMont x e 0 ms one k) ms k) = 1 % val ms := by
  rw [powMont_zero_bits]; exact (hone.retrieve hm).1

/-- `pow` is `pow_bounded_exp` with `exponent_bits = BITS(exponent)` (inherent `pow` and the blanket
    `Pow::pow` of src/traits.rs). -/
theorem powFull_eq (x e ms one : List Nat) (k : Nat) :
    powFull x e ms one k = powMont x e (64 * e.length) ms one k := rfl

/-- hence `pow` retrieves to `X ^ e mod m` for a well-formed exponent. -/
theorem pow_exact (ms one x e : List Nat) (k X : Nat)
    (hm : ModOK ms k) (hone : Rep ms one 1) (hx : Rep ms x X) (he : WF e) :
    val (retrieveMont (powFull x e ms one k) ms k) = X ^ val e % val ms := by
  rw [powFull_eq, (pow_bounded_exp_exact ms one x e k X _ hm hone hx he).2.2, powSpec]
  have : val e < 2 ^ (64 * e.length) := by
    have := val_lt he; rwa [B_eq_pow, ← Nat.pow_mul] at this
  rw [Nat.mod_eq_of_lt this]

/-! ## T09.2 — multi-exponentiation = product of the individual powers -/

/-- array and slice multi-exponentiation are the same function. -/
theorem multiExpSlice_eq_array (bes : List (List Nat × List Nat)) (bits : Nat) (ms one : List Nat) (k : Nat) :
    multiExpSlice bes bits ms one k = multiExpArray bes bits ms one k := rfl

/-- for every number of terms (including none) and every bit bound: the result is canonical and retrieves to
    `Π Xᵢ ^ (eᵢ mod 2^bits) mod m` (`multiSpec`). -/
theorem multi_exponentiate_exact (ms one : List Nat) (k bits : Nat)
    (bes : List (List Nat × List Nat)) (XEs : List (Nat × Nat))
    (hm : ModOK ms k) (hone : Rep ms one 1) (h : List.Forall₂ (BaseOK ms) bes XEs) :
    Rep ms (multiExpArray bes bits ms one k) (prodPow (fun e => e % 2 ^ bits) XEs) ∧
    val (retrieveMont (multiExpArray bes bits ms one k) ms k) = multiSpec (val ms) bits XEs := by
  have r := multiExpArray_spec hm hone bits h
  exact ⟨r, by rw [(r.retrieve hm).1, prodPow_mod]⟩

/-- the single-base ladder is the one-term multi-exponentiation (`pow_montgomery_form` forwards). -/
theorem powMont_is_multi (x e : List Nat) (bits : Nat) (ms one : List Nat) (k : Nat) :
    powMont x e bits ms one k = multiExpArray [(x, e)] bits ms one k := rfl

/-! ## T09.3 — the boxed ladder (almost-reduced accumulator, two final conditional subtractions) -/

/-- `exponent_bits = 0` returns `one` — boxed form (no final reduction happens on this path). -/
theorem bPowMont_zero_bits (x e ms one : List Nat) (k : Nat) : bPowMont x e 0 ms one k = one := rfl

/-- inside the boxed ladder every table entry is `< 2m`, the accumulator after the last multiplication is
    `< 3m` (`⌊z/m⌋ ≤ 2`), and the two conditional subtractions return the canonical form of
    `X ^ (e mod 2^bits)`; so `bits = 0` included, the boxed result is canonical whenever `one` is. -/
theorem boxed_pow_bounded_exp_exact (ms one x e : List Nat) (k X bits : Nat)
    (hm : ModOK ms k) (hone : Rep ms one 1) (hx : Rep ms x X) (he : WF e) :
    Rep ms (bPowMont x e bits ms one k) (X ^ (val e % 2 ^ bits)) := by
  by_cases hb : bits = 0
  · subst hb; rw [bPowMont_zero_bits]; exact hone.congr (by simp [Nat.mod_one])
  · exact bPowMont_spec hm hone hx he bits (Nat.pos_of_ne_zero hb)

/-- the accumulator bound that makes two subtractions enough, stated on the loop itself. -/
theorem boxed_accumulator_lt_3m (ms one x e : List Nat) (k X bits : Nat)
    (hm : ModOK ms k) (hone : Rep ms one 1) (hx : Rep ms x X) (he : WF e) (hb : 0 < bits) :
    val (bLimbLoop (bComputePowers x ms one k) e ms k (startOf BWINDOW bits)
      ((startOf BWINDOW bits).limb + 1) one) / val ms ≤ 2 := by
  have ⟨hg, _, _⟩ := startOf_geometry bits hb
  have ht := bComputePowers_spec hm hx hone
  have ⟨_, bd⟩ := bLimbLoop_spec hm bits hb ht he ((startOf WINDOW bits).limb + 1) (Nat.le_refl _)
    (z := one) (hone.toCong.congr (by rw [pre_eq_zero (by omega)]; simp))
  exact bd (Or.inl (by omega))

theorem bPowFull_eq (x e ms one : List Nat) (k : Nat) :
    bPowFull x e ms one k = bPowMont x e (64 * e.length) ms one k := rfl

/-! ## T09.5 (pow) — the compile-time, runtime and boxed implementations agree -/

/-- boxed and fixed ladders return the same limbs. -/
theorem boxed_pow_eq_fixed (ms one x e : List Nat) (k X bits : Nat)
    (hm : ModOK ms k) (hone : Rep ms one 1) (hx : Rep ms x X) (he : WF e) :
    bPowMont x e bits ms one k = powMont x e bits ms one k := by
  have a := boxed_pow_bounded_exp_exact ms one x e k X bits hm hone hx he
  have b := (pow_bounded_exp_exact ms one x e k X bits hm hone hx he).1
  exact val_inj a.wf b.wf (by rw [a.len, b.len]) (by rw [a.eq, b.eq])

/-- in any representation, on a `Good` parameter set (C08), `pow_bounded_exp` maps canonical forms to
    canonical forms of the power. -/
theorem opPow_rep {st : State} {n m : Nat} (g : Good st.params n m) {x e : List Nat} {X : Nat}
    (hx : Pow.Rep st.params.modulus x X) (he : WF e) (bits : Nat) :
    Pow.Rep st.params.modulus (opPow st x e bits) (X ^ (val e % 2 ^ bits)) := by
  have hmk := modOK_of_good g
  have hone := rep_one_of_good g
  unfold opPow
  split
  · exact boxed_pow_bounded_exp_exact _ _ _ e _ _ bits hmk hone hx he
  · exact (pow_bounded_exp_exact _ _ _ e _ _ bits hmk hone hx he).1

/-- API level, on any `Good` parameter set and in ANY of the three representations: every integer
    `v < B^n` converted with `new`, every exponent, every bit bound: `pow_bounded_exp(…).retrieve()` is
    `v ^ (e mod 2^bits) mod m` and the stored Montgomery form is the canonical one. -/
theorem pow_bounded_exp_good {st : State} {n m : Nat} (g : Good st.params n m)
    (v : Nat) (hv : v < B ^ n) (e : List Nat) (he : WF e) (bits : Nat) :
    opRetrieve st (opPow st (opNew st v) e bits) = toLimbs n (v ^ (val e % 2 ^ bits) % m) ∧
    opPow st (opNew st v) e bits = canon n m (v ^ (val e % 2 ^ bits) % m) := by
  have hx : Pow.Rep st.params.modulus (opNew st v) (v % m) := by
    rw [opNew_canon g (ammMulOK_holds g.mlt g.k) hv]; exact rep_canon g _
  have hpow := opPow_rep g hx he bits
  have hcan : opPow st (opNew st v) e bits = canon n m (v ^ (val e % 2 ^ bits) % m) := by
    rw [eq_canon_of_rep g hpow]
    unfold canon
    congr 1
    exact (((Nat.mod_modEq v m).pow _).trans (Nat.mod_modEq _ m).symm).mul_right _
  refine ⟨?_, hcan⟩
  rw [hcan]
  exact opRetrieve_canon g (ammOneOK_holds g.mlt g.k) (Nat.mod_lt _ g.pos)

/-- … in particular from ANY parameter constructor (`MontyParams::new`, `new_vartime`, `impl_modulus!`,
    `BoxedMontyParams::new`), for every limb count `n` and every odd modulus `m < B^n` (`m = 1` included since fix b15470f). -/
theorem pow_bounded_exp_from_constructors (n m : Nat) (hm : m < B ^ n) (hodd : m % 2 = 1)
    (rep : Monty.Rep) (p : Params)
    (hp : p = paramsNew (toLimbs n m) ∨ p = paramsNewVartime (toLimbs n m) ∨ p = paramsConst (toLimbs n m) ∨
          p = paramsBoxed (toLimbs n m))
    (v : Nat) (hv : v < B ^ n) (e : List Nat) (he : WF e) (bits : Nat) :
    opRetrieve { rep := rep, params := p, store := [] }
      (opPow { rep := rep, params := p, store := [] } (opNew { rep := rep, params := p, store := [] } v) e bits)
      = toLimbs n (v ^ (val e % 2 ^ bits) % m) ∧
    opPow { rep := rep, params := p, store := [] } (opNew { rep := rep, params := p, store := [] } v) e bits
      = canon n m (v ^ (val e % 2 ^ bits) % m) := by
  have ⟨a, b, c, d⟩ := CB.P08.constructors_yield_constants n m hm hodd
  have hps : p = paramsSpec n m := by
    rcases hp with h | h | h | h <;> rw [h] <;> assumption
  have g : Good (State.mk rep p []).params n m := hps ▸ good_spec hm hodd
  exact pow_bounded_exp_good g v hv e he bits

/-- consequently the result does not depend on the representation or on the constructor used. -/
theorem pow_representations_agree (n m : Nat) (hm : m < B ^ n) (hodd : m % 2 = 1)
    (rep₁ rep₂ : Monty.Rep) (p₁ p₂ : Params)
    (hp₁ : p₁ = paramsNew (toLimbs n m) ∨ p₁ = paramsNewVartime (toLimbs n m) ∨ p₁ = paramsConst (toLimbs n m) ∨
          p₁ = paramsBoxed (toLimbs n m))
    (hp₂ : p₂ = paramsNew (toLimbs n m) ∨ p₂ = paramsNewVartime (toLimbs n m) ∨ p₂ = paramsConst (toLimbs n m) ∨
          p₂ = paramsBoxed (toLimbs n m))
    (v : Nat) (hv : v < B ^ n) (e : List Nat) (he : WF e) (bits : Nat) :
    opPow { rep := rep₁, params := p₁, store := [] } (opNew { rep := rep₁, params := p₁, store := [] } v) e bits =
    opPow { rep := rep₂, params := p₂, store := [] } (opNew { rep := rep₂, params := p₂, store := [] } v) e bits := by
  rw [(pow_bounded_exp_from_constructors n m hm hodd rep₁ p₁ hp₁ v hv e he bits).2,
      (pow_bounded_exp_from_constructors n m hm hodd rep₂ p₂ hp₂ v hv e he bits).2]

/-- non-vacuity of the hypotheses (`ModOK`, `Rep one 1`, `Rep x X`): 2 limbs, m = 2^64 + 1, k = 2^64 − 1,
    one = R mod m = 1, x = the form of 3 (3·R mod m = 3), exponent 5, 3 bits: 3^5 mod m = 243. -/
example : ∃ ms one x e k X bits, ModOK ms k ∧ Pow.Rep ms one 1 ∧ Pow.Rep ms x X ∧ WF e ∧
    val (retrieveMont (powMont x e bits ms one k) ms k) = 243 :=
  ⟨[1, 1], [1, 0], [3, 0], [5], WMAX, 3, 3,
    ⟨WF_of_all _ (by decide), by decide, by decide⟩,
    ⟨WF_of_all _ (by decide), rfl, by decide⟩, ⟨WF_of_all _ (by decide), rfl, by decide⟩,
    WF_of_all _ (by decide), by decide +kernel⟩

/-! ## T09.4 — `lincomb_vartime` = Σ aᵢ·bᵢ mod m for any number of terms, windowing included -/

/-- One accumulation window of `impl_longa_monty_lincomb!` (DESIGN.md's `H_longa_bound`, PROVED, not assumed): for
    every limb count, every list of at most `B^n / m` pairs of reduced values, no `hi` / `hi_carry` update wraps,
    the accumulator `U = u + hi_carry·B^n` is `< 2m` (so `hi_carry ≤ 1` and ONE conditional subtraction
    suffices) and `U·B^n ≡ Σ aᵢ·bᵢ (mod m)`. -/
theorem longa_window_exact (ms : List Nat) (k : Nat) (terms : List (List Nat × List Nat))
    (hm : ModOK ms k) (hT : TermsOK ms.length (val ms) terms) (hcap : terms.length * val ms ≤ B ^ ms.length) :
    (longa terms ms k).2 ≤ 1 ∧
    val (longa terms ms k).1 + B ^ ms.length * (longa terms ms k).2 < 2 * val ms ∧
    (val (longa terms ms k).1 + B ^ ms.length * (longa terms ms k).2) * B ^ ms.length ≡ valDot terms
      [MOD val ms] := by
  have ⟨_, _, h3, h4, h5⟩ := longa_spec hm hT hcap
  exact ⟨h3, h4, h5⟩

/-- `lincomb_monty_form` / `lincomb_const_monty_form` / `lincomb_boxed_monty_form` on Montgomery forms, for every
    limb count, ANY number of terms (none, one window, many windows) and every `mod_leading_zeros` value `lz` with
    `2^lz·m ≤ B^n`: the result is the canonical Montgomery form of `Σ Aᵢ·Bᵢ`, `retrieve()` returns
    `Σ Aᵢ·Bᵢ mod m`, and the boxed routine returns the same limbs as the fixed-width one. -/
theorem lincomb_exact (ms : List Nat) (k lz : Nat) (terms : List (List Nat × List Nat)) (XYs : List (Nat × Nat))
    (hm : ModOK ms k) (hlz : 2 ^ lz * val ms ≤ B ^ ms.length) (h : List.Forall₂ (PairOK ms) terms XYs) :
    Pow.Rep ms (lincombFixed terms ms k lz) (dotSpec XYs) ∧
    val (retrieveMont (lincombFixed terms ms k lz) ms k) = sumSpec (val ms) XYs ∧
    lincombBoxed terms ms k lz = lincombFixed terms ms k lz := by
  have ⟨hT, hS⟩ := terms_of_pairs hm h
  have ⟨hw, hb⟩ := lincomb_spec (lz := lz) hm hlz hT
  have r := hw.rep hm hS
  exact ⟨r, by rw [(r.retrieve hm).1, sumSpec_eq], hb⟩

/-- the window split itself: more than `2^lz` terms are processed in windows of `2^lz` and recombined with
    `add_mod`; at most `2^lz` terms take the single-window path. Both give the same sum (consequence of
    `lincomb_exact`, stated for the record: the result does not depend on `lz`). -/
theorem lincomb_independent_of_window (ms : List Nat) (k lz₁ lz₂ : Nat) (terms : List (List Nat × List Nat))
    (XYs : List (Nat × Nat)) (hm : ModOK ms k) (h₁ : 2 ^ lz₁ * val ms ≤ B ^ ms.length)
    (h₂ : 2 ^ lz₂ * val ms ≤ B ^ ms.length) (h : List.Forall₂ (PairOK ms) terms XYs) :
    lincombFixed terms ms k lz₁ = lincombFixed terms ms k lz₂ := by
  have a := (lincomb_exact ms k lz₁ terms XYs hm h₁ h).1
  have b := (lincomb_exact ms k lz₂ terms XYs hm h₂ h).1
  exact val_inj a.wf b.wf (by rw [a.len, b.len]) (by rw [a.eq, b.eq])

/-- every constructor's `mod_leading_zeros` (= `min(leading_zeros(m), 63)`, C08 T08.2) satisfies the window
    premise. -/
theorem constructors_window_ok (n m : Nat) (hm : m < B ^ n) (hodd : m % 2 = 1) :
    2 ^ (paramsSpec n m).modLeadingZeros * m ≤ B ^ n :=
  lz_ok hm (by omega)

theorem pairs_of_new {st : State} {n m : Nat} (g : Good st.params n m) (abs : List (Nat × Nat))
    (hv : ∀ ab ∈ abs, ab.1 < B ^ n ∧ ab.2 < B ^ n) :
    List.Forall₂ (PairOK st.params.modulus) (abs.map fun ab => (opNew st ab.1, opNew st ab.2))
      (abs.map fun ab => (ab.1 % m, ab.2 % m)) := by
  induction abs with
  | nil => exact List.Forall₂.nil
  | cons a r ih =>
    have ⟨h1, h2⟩ := hv a (List.mem_cons_self ..)
    refine List.Forall₂.cons ⟨?_, ?_⟩ (ih fun ab hab => hv ab (List.mem_cons_of_mem _ hab))
    · show Pow.Rep _ (opNew st a.1) (a.1 % m)
      rw [opNew_canon g (ammMulOK_holds g.mlt g.k) h1]; exact rep_canon g _
    · show Pow.Rep _ (opNew st a.2) (a.2 % m)
      rw [opNew_canon g (ammMulOK_holds g.mlt g.k) h2]; exact rep_canon g _

/-- API level, on any `Good` parameter set whose `mod_leading_zeros` satisfies the window premise, in ANY of the
    three representations: for every list of integer pairs `(aᵢ, bᵢ)` (each converted with `new`),
    `lincomb_vartime(…)` is the canonical form of `Σ aᵢ·bᵢ mod m` and `retrieve()` returns `Σ aᵢ·bᵢ mod m`. -/
theorem lincomb_good {st : State} {n m : Nat} (g : Good st.params n m)
    (hlz : 2 ^ st.params.modLeadingZeros * m ≤ B ^ n) (abs : List (Nat × Nat))
    (hv : ∀ ab ∈ abs, ab.1 < B ^ n ∧ ab.2 < B ^ n) :
    opLincomb st (abs.map fun ab => (opNew st ab.1, opNew st ab.2)) = canon n m (dotSpec abs % m) ∧
    opRetrieve st (opLincomb st (abs.map fun ab => (opNew st ab.1, opNew st ab.2))) =
      toLimbs n (dotSpec abs % m) := by
  have hmk := modOK_of_good g
  have hv' : val st.params.modulus = m := by rw [g.modulus]; exact val_toLimbs_lt g.mlt
  have hl : st.params.modulus.length = n := by rw [g.modulus]; exact toLimbs_length _ _
  have hp := pairs_of_new g abs hv
  have ⟨r, _, hb⟩ := lincomb_exact _ _ st.params.modLeadingZeros _ _ hmk (by rw [hv', hl]; exact hlz) hp
  have hop : opLincomb st (abs.map fun ab => (opNew st ab.1, opNew st ab.2)) =
      lincombFixed (abs.map fun ab => (opNew st ab.1, opNew st ab.2)) st.params.modulus st.params.modNegInv
        st.params.modLeadingZeros := by
    unfold opLincomb
    split
    · exact hb
    · rfl
  have hcan : opLincomb st (abs.map fun ab => (opNew st ab.1, opNew st ab.2)) = canon n m (dotSpec abs % m) := by
    rw [hop, eq_canon_of_rep g r]
    exact canon_congr ((dotSpec_mod m abs).trans (Nat.mod_modEq _ _).symm)
  refine ⟨hcan, ?_⟩
  rw [hcan]
  exact opRetrieve_canon g (ammOneOK_holds g.mlt g.k) (Nat.mod_lt _ g.pos)

/-- … in particular from ANY parameter constructor, for every limb count `n` and every odd modulus `m < B^n`,
    whatever its number of leading zero bits, and ANY number of terms. `sumSpec` is the driver's L0. -/
theorem lincomb_from_constructors (n m : Nat) (hm : m < B ^ n) (hodd : m % 2 = 1)
    (rep : Monty.Rep) (p : Params)
    (hp : p = paramsNew (toLimbs n m) ∨ p = paramsNewVartime (toLimbs n m) ∨ p = paramsConst (toLimbs n m) ∨
          p = paramsBoxed (toLimbs n m))
    (abs : List (Nat × Nat)) (hv : ∀ ab ∈ abs, ab.1 < B ^ n ∧ ab.2 < B ^ n) :
    opRetrieve { rep := rep, params := p, store := [] }
      (opLincomb { rep := rep, params := p, store := [] }
        (abs.map fun ab => (opNew { rep := rep, params := p, store := [] } ab.1,
                            opNew { rep := rep, params := p, store := [] } ab.2)))
      = toLimbs n (sumSpec m abs) ∧
    opLincomb { rep := rep, params := p, store := [] }
        (abs.map fun ab => (opNew { rep := rep, params := p, store := [] } ab.1,
                            opNew { rep := rep, params := p, store := [] } ab.2))
      = canon n m (sumSpec m abs) := by
  have ⟨a, b, c, d⟩ := CB.P08.constructors_yield_constants n m hm hodd
  have hps : p = paramsSpec n m := by
    rcases hp with h | h | h | h <;> rw [h] <;> assumption
  have g : Good (State.mk rep p []).params n m := hps ▸ good_spec hm hodd
  have hlz : 2 ^ (State.mk rep p []).params.modLeadingZeros * m ≤ B ^ n := by
    show 2 ^ p.modLeadingZeros * m ≤ B ^ n
    rw [hps]; exact constructors_window_ok n m hm hodd
  have ⟨r1, r2⟩ := lincomb_good g hlz abs hv
  rw [sumSpec_eq]
  exact ⟨r2, r1⟩

/-- the driver's L0 reduces the operands first (`new` does); that is the same sum. -/
theorem sumSpec_reduced (m : Nat) (abs : List (Nat × Nat)) :
    sumSpec m (abs.map fun ab => (ab.1 % m, ab.2 % m)) = sumSpec m abs := by
  rw [sumSpec_eq, sumSpec_eq]; exact dotSpec_mod m abs

/-! ## T09.5 (lincomb) — the compile-time, runtime and boxed implementations agree -/

theorem lincomb_representations_agree (n m : Nat) (hm : m < B ^ n) (hodd : m % 2 = 1)
    (rep₁ rep₂ : Monty.Rep) (p₁ p₂ : Params)
    (hp₁ : p₁ = paramsNew (toLimbs n m) ∨ p₁ = paramsNewVartime (toLimbs n m) ∨ p₁ = paramsConst (toLimbs n m) ∨
          p₁ = paramsBoxed (toLimbs n m))
    (hp₂ : p₂ = paramsNew (toLimbs n m) ∨ p₂ = paramsNewVartime (toLimbs n m) ∨ p₂ = paramsConst (toLimbs n m) ∨
          p₂ = paramsBoxed (toLimbs n m))
    (abs : List (Nat × Nat)) (hv : ∀ ab ∈ abs, ab.1 < B ^ n ∧ ab.2 < B ^ n) :
    opLincomb { rep := rep₁, params := p₁, store := [] }
        (abs.map fun ab => (opNew { rep := rep₁, params := p₁, store := [] } ab.1,
                            opNew { rep := rep₁, params := p₁, store := [] } ab.2)) =
    opLincomb { rep := rep₂, params := p₂, store := [] }
        (abs.map fun ab => (opNew { rep := rep₂, params := p₂, store := [] } ab.1,
                            opNew { rep := rep₂, params := p₂, store := [] } ab.2)) := by
  rw [(lincomb_from_constructors n m hm hodd rep₁ p₁ hp₁ abs hv).2,
      (lincomb_from_constructors n m hm hodd rep₂ p₂ hp₂ abs hv).2]

/-- non-vacuity: 1 limb, m = 2^64 − 1 (no leading zero: every term is its own window), three terms
    (m−1)·(m−1) each: Σ = 3 mod m. -/
example : opRetrieve { rep := .dyn, params := paramsNew [WMAX], store := [] }
    (opLincomb { rep := .dyn, params := paramsNew [WMAX], store := [] }
      ([(WMAX - 1, WMAX - 1), (WMAX - 1, WMAX - 1), (WMAX - 1, WMAX - 1)].map fun ab =>
        (opNew { rep := .dyn, params := paramsNew [WMAX], store := [] } ab.1,
         opNew { rep := .dyn, params := paramsNew [WMAX], store := [] } ab.2))) = [3] := by
  decide +kernel

/-- non-vacuity for T09.2 / T09.3 / T09.5: 1 limb, modulus `0x7bde12391ea3c77b` (one leading zero
    bit), base `0x421b341394b24700`, exponent `0x54`, 8 bits — an input whose boxed accumulator is `≥ 2m` when the
    loop exits (both final subtractions fire), and the boxed and fixed ladders still return the same limbs; a two-term
    multi-exponentiation on the same modulus retrieves to the product of the powers. -/
example :
    let ms := [0x7bde12391ea3c77b]
    let p := paramsBoxed ms
    let x := opNew { rep := .boxed, params := p, store := [] } 0x421b341394b24700
    2 ≤ val (bLimbLoop (bComputePowers x ms p.one p.modNegInv) [0x54] ms p.modNegInv (startOf BWINDOW 8)
        ((startOf BWINDOW 8).limb + 1) p.one) / val ms ∧
    bPowMont x [0x54] 8 ms p.one p.modNegInv = powMont x [0x54] 8 ms p.one p.modNegInv ∧
    val (retrieveMont (multiExpArray [(x, [3]), (x, [2])] 8 ms p.one p.modNegInv) ms p.modNegInv) =
      0x421b341394b24700 ^ 5 % 0x7bde12391ea3c77b := by
  decide +kernel

/-! ## modulus 1 on the `exponent_bits = 0` path (was finding C09-modulus-one-pow-zero-bits; repaired by the
     `fix:` commit b15470f, which reduces `params.one`) -/

/-- with `one` as the constructors compute it now (C08's `oneOf` / `oneOfBoxed`), `pow_bounded_exp(_, 0)` for modulus 1
    returns the canonical 0 in every representation, and `retrieve()` gives `x^0 mod 1 = 0`. -/
theorem pow_zero_bits_modulus_one :
    bPowMont [0] [5] 0 [1] (paramsBoxed [1]).one (paramsBoxed [1]).modNegInv = [0] ∧
    bRetrieve (bPowMont [0] [5] 0 [1] (paramsBoxed [1]).one (paramsBoxed [1]).modNegInv) [1]
      (paramsBoxed [1]).modNegInv = [0] ∧
    powMont [0] [5] 0 [1] (paramsNew [1]).one (paramsNew [1]).modNegInv = [0] ∧
    retrieveMont (powMont [0] [5] 0 [1] (paramsNew [1]).one (paramsNew [1]).modNegInv) [1]
      (paramsNew [1]).modNegInv = [0] := by
  decide +kernel

/-! ## coverage round — the crate-internal functions the correspondence run reaches through
     `crypto_bigint::verif_hooks` (`c09.hook.*`): `compute_powers`, `multi_exponentiate_montgomery_form_internal`
     on caller-provided tables, the boxed table, one pass of `impl_longa_monty_lincomb!` (the existing
     `longa_window_exact` is about exactly the `(u, hi_carry)` the hook returns; `boxed_pow_bounded_exp_exact`
     about the boxed `pow_montgomery_form`). -/

/-- `compute_powers(x, m, one, k)` (`c09.hook.compute_powers`): for every limb count, 16 entries, entry `j` the
    canonical Montgomery form of `X^j`. -/
theorem compute_powers_exact (ms one x : List Nat) (k X : Nat)
    (hm : ModOK ms k) (hone : Rep ms one 1) (hx : Rep ms x X) :
    (computePowers x ms one k).length = 16 ∧
    ∀ j, j < 16 → Rep ms ((computePowers x ms one k).getD j []) (X ^ j) :=
  ⟨(computePowers_spec hm hx hone).len, (computePowers_spec hm hx hone).rep⟩

/-- `multi_exponentiate_montgomery_form_internal` (`c09.hook.multi_internal`) on CALLER-PROVIDED tables: whenever
    every table holds the canonical forms of the powers of its base (`TermOK`), for every number of terms and every
    `exponent_bits > 0` the result is the canonical form of `Π Xᵢ ^ (eᵢ mod 2^bits)` and retrieves to `multiSpec`. -/
theorem multi_exp_internal_exact (ms one : List Nat) (k bits : Nat) (hb : 0 < bits)
    (pes : List (List (List Nat) × List Nat)) (XEs : List (Nat × Nat))
    (hm : ModOK ms k) (hone : Rep ms one 1) (h : List.Forall₂ (TermOK ms) pes XEs) :
    Rep ms (multiExpInternal pes bits ms one k) (prodPow (fun e => e % 2 ^ bits) XEs) ∧
    val (retrieveMont (multiExpInternal pes bits ms one k) ms k) = multiSpec (val ms) bits XEs := by
  have r := multiExpInternal_spec hm hone bits hb h
  exact ⟨r, by rw [(r.retrieve hm).1, prodPow_mod]⟩

/-- the table of the boxed ladder: 16 entries, entry `j` congruent to the Montgomery form of `X^j` and almost
    reduced (`< 2m`) — what makes two final subtractions enough. -/
theorem boxed_compute_powers_almost_reduced (ms one x : List Nat) (k X : Nat)
    (hm : ModOK ms k) (hone : Rep ms one 1) (hx : Rep ms x X) :
    (bComputePowers x ms one k).length = 16 ∧
    ∀ j, j < 16 → Cong ms ((bComputePowers x ms one k).getD j []) (X ^ j) ∧
      val ((bComputePowers x ms one k).getD j []) / val ms ≤ 1 :=
  ⟨(bComputePowers_spec hm hx hone).len, (bComputePowers_spec hm hx hone).rep⟩

/-- one pass of `impl_longa_monty_lincomb!` (`c09.hook.longa` / `c09.hook.blonga` return exactly this pair): the
    accumulator is well-formed and `B^n·(u + hi_carry·B^n) = Σ aᵢ·bᵢ + Q·m` for a `Q < B^n` — the interleaved
    reduction adds the multiple of `m` that clears the low `n` limbs, nothing is lost in `hi` / `hi_carry`.
    (`Q` is unique, `m` being odd: `Q = (Σ aᵢ·bᵢ)·(−m⁻¹) mod B^n`, the value the driver prints as L0.) -/
theorem longa_window_quotient (ms : List Nat) (k : Nat) (terms : List (List Nat × List Nat))
    (hm : ModOK ms k) (hT : TermsOK ms.length (val ms) terms) (hcap : terms.length * val ms ≤ B ^ ms.length) :
    WF (longa terms ms k).1 ∧ (longa terms ms k).1.length = ms.length ∧
    ∃ Q, Q < B ^ ms.length ∧
      B ^ ms.length * (val (longa terms ms k).1 + B ^ ms.length * (longa terms ms k).2) = valDot terms + Q * val ms :=
  outerLoop_spec hm hT hcap ms.length 0 (uzero ms.length, 0) (by omega)
    (uzero_WF _) (by simp [uzero]) ⟨0, by simp, by simp [lowDot_zero, val_uzero]⟩

/-- non-vacuity of `TermOK` / `TermsOK`: 2 limbs, m = 2^64 + 1 (k = 2^64 − 1, R mod m = 1): the table of the base 3
    built by `compute_powers` is a `TermOK` table, and two reduced pairs are `TermsOK` within the cap. -/
example : ∃ ms one x e k X, ModOK ms k ∧ Pow.Rep ms one 1 ∧ TermOK ms (computePowers x ms one k, e) (X, val e) ∧
    TermsOK ms.length (val ms) [(x, x), (one, x)] ∧ 2 * val ms ≤ B ^ ms.length :=
  have hm : ModOK [1, 1] WMAX := ⟨WF_of_all _ (by decide), by decide, by decide⟩
  have hone : Pow.Rep [1, 1] [1, 0] 1 := ⟨WF_of_all _ (by decide), rfl, by decide⟩
  have hx : Pow.Rep [1, 1] [3, 0] 3 := ⟨WF_of_all _ (by decide), rfl, by decide⟩
  ⟨[1, 1], [1, 0], [3, 0], [5], WMAX, 3, hm, hone,
    ⟨computePowers_spec hm hx hone, WF_of_all _ (by decide), rfl⟩,
    by
      intro t ht
      simp only [List.mem_cons, List.mem_nil_iff, or_false] at ht
      rcases ht with rfl | rfl <;>
        exact ⟨WF_of_all _ (by decide), WF_of_all _ (by decide), rfl, rfl, by decide, by decide⟩,
    by decide⟩

end CB.P09
