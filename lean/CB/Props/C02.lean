/-
  C02 — unsigned division and remainder are exact (placeholder while the pipeline is brought up)
-/
import CB.Lemmas.Chains
import CB.Model.Div
namespace CB.P02
open CB CB.Div

theorem mulhilo_exact (x y : Nat) : (mulhilo x y).2 + B * (mulhilo x y).1 = x * y := by
  simp only [mulhilo]; exact Nat.mod_add_div _ _

end CB.P02
