/-
  C02 — unsigned division and remainder are exact.
  Property theorems only (helper lemmas live in CB/Lemmas/C02*.lean).  Every theorem quantifies over
  all limb counts (list lengths) and all operand values.

  No hypothesis is carried any more.  Both facts that DESIGN.md §6 planned as named hypotheses are PROVED:
    H_recip (`CB.Div.HRecip`, now the theorem `reciprocal_exact` below = `CB.Div.hrecip`,
      CB/Lemmas/C02Recip*.lean): `reciprocalImpl d = reciprocalSpec d = ⌊(B²−1)/d⌋ − B` for every `B/2 ≤ d < B`
      — the 64-bit Möller–Granlund Newton iteration (table look-up by `decide +kernel` over the 256 values of
      `d >> 55`, three Newton steps as exact residual identities over ℤ, the final adjustment step, and the
      wrapping layer showing that no intermediate overflows except where the code wraps on purpose);
    H_qhat (`div3by2_exact`, `qhat_within_one`).
  Hence every division routine of the model is exact for ALL limb counts and ALL operands with `d ≠ 0`.
-/
import CB.Lemmas.C02LimbDiv
import CB.Lemmas.C02Recip
import CB.Lemmas.C02Rows
import CB.Lemmas.C02Div3by2
import CB.Lemmas.C02Knuth
import CB.Lemmas.C02KnuthCt
import CB.Lemmas.C02Rem
import CB.Lemmas.C02Wide
import CB.Lemmas.C02BoxedLimb
namespace CB.P02
open CB CB.Div

/-- T02.1a multiply-subtract row (`mac` + `sbb` per limb): exact value equation with carry and borrow. -/
theorem mulSubRow_exact {xs ys : List Nat} {quo carry borrow : Nat} (hx : WF xs) (hy : WF ys)
    (hq : quo < B) (hc : carry < B) (hb : borrow < B) (hl : xs.length = ys.length) :
    val (mulSubRow xs ys quo carry borrow).1 + quo * val ys + carry + borrow / HALF =
      val xs + B ^ xs.length * ((mulSubRow xs ys quo carry borrow).2.1 + (mulSubRow xs ys quo carry borrow).2.2 / HALF) ∧
    (mulSubRow xs ys quo carry borrow).2.1 < B ∧ (mulSubRow xs ys quo carry borrow).2.2 < B ∧
    WF (mulSubRow xs ys quo carry borrow).1 ∧ (mulSubRow xs ys quo carry borrow).1.length = xs.length :=
  mulSubRow_spec hx hy hq hc hb hl

/-- T02.1b masked add-back row. -/
theorem addBackRow_exact {xs ys : List Nat} {carry : Nat} (p : Bool) (hx : WF xs) (hy : WF ys)
    (hl : xs.length = ys.length) :
    val (addBackRow xs ys (mask p) carry).1 + B ^ xs.length * (addBackRow xs ys (mask p) carry).2 =
      val xs + (if p then val ys else 0) + carry ∧
    WF (addBackRow xs ys (mask p) carry).1 ∧ (addBackRow xs ys (mask p) carry).1.length = xs.length :=
  addBackRow_spec p hx hy hl

/-- T02.2 `div2by1` (Möller–Granlund Algorithm 4 with both masked corrections and wrapping
    arithmetic) is exact whenever the stored reciprocal is `⌊(B²−1)/d⌋ − B`. -/
theorem div2by1_correct {rc : Reciprocal} {u1 u0 : Nat}
    (hd1 : HALF ≤ rc.divisorNormalized) (hd2 : rc.divisorNormalized < B)
    (hv : rc.reciprocal = reciprocalSpec rc.divisorNormalized)
    (hu1 : u1 < rc.divisorNormalized) (hu0 : u0 < B) :
    div2by1 u1 u0 rc = ((u1 * B + u0) / rc.divisorNormalized, (u1 * B + u0) % rc.divisorNormalized) :=
  div2by1_exact hd1 hd2 hv hu1 hu0

/-- T02.5 (H_qhat, proved) `div3by2` returns `min(⌊(u2 B² + u1 B + u0)/(v1 B + v0)⌋, B − 1)`:
    the `q_maxed` cap and the two correction rounds on the wide remainder. -/
theorem div3by2_correct {rc : Reciprocal} {u2 u1 u0 v0 : Nat}
    (hd1 : HALF ≤ rc.divisorNormalized) (hd2 : rc.divisorNormalized < B)
    (hv : rc.reciprocal = reciprocalSpec rc.divisorNormalized)
    (hu2 : u2 ≤ rc.divisorNormalized) (hu1 : u1 < B) (hu0 : u0 < B) (hv0 : v0 < B) :
    div3by2 u2 u1 u0 rc v0 =
      min (((u2 * B + u1) * B + u0) / (rc.divisorNormalized * B + v0)) (B - 1) :=
  div3by2_exact hd1 hd2 hv hu2 hu1 hu0 hv0

/-- T02.4 (row part) one Knuth digit: given the true digit `q` of the window and an estimate
    `quo ∈ {q, q+1}`, multiply-subtract + borrow test + masked add-back leave exactly `W − q·Y`, and the
    mask says whether the estimate was one too large (so the decrement yields `q`). -/
theorem knuth_row_exact {xs ys : List Nat} {xHi quo q : Nat} (hx : WF xs) (hy : WF ys)
    (hl : xs.length = ys.length) (hxHi : xHi < B) (hq : quo < B)
    (hlo : q * val ys ≤ val xs + B ^ xs.length * xHi)
    (hhi : val xs + B ^ xs.length * xHi < (q + 1) * val ys)
    (hest : quo = q ∨ quo = q + 1) :
    val (knuthRow xs ys xHi quo).1 + q * val ys = val xs + B ^ xs.length * xHi ∧
    (knuthRow xs ys xHi quo).2 = mask (decide (quo = q + 1)) ∧
    WF (knuthRow xs ys xHi quo).1 ∧ (knuthRow xs ys xHi quo).1.length = xs.length :=
  knuthRow_spec hx hy hl hxHi hq hlo hhi hest

/-- **H_recip, proved** (DESIGN §6 carried it as a hypothesis): the 64-bit Newton iteration of `reciprocal`
    (`src/uint/div_limb.rs:47-74`, Möller–Granlund Algorithm 3 as the crate writes it, with its wrapping
    operations and the `x == 0` select) returns exactly `⌊(B² − 1)/d⌋ − B` for EVERY normalised divisor. -/
theorem reciprocal_exact (d : Nat) (hd1 : HALF ≤ d) (hd : d < B) : reciprocalImpl d = reciprocalSpec d :=
  hrecip d hd1 hd

example : reciprocalImpl HALF = WMAX ∧ reciprocalImpl WMAX = 1 := by decide +kernel

/-- T02.3 single-limb division through the reciprocal: exact for EVERY limb count and every
    non-zero limb divisor, including normalisation shift 0 and the final un-shift (H_recip is the proved `reciprocal_exact`). -/
theorem divRemLimb_exact {d : Nat} (hd0 : 0 < d) (hd : d < B)
    {u : List Nat} (hu : WF u) :
    (divRemLimb u d).1 = toLimbs u.length (val u / d) ∧ (divRemLimb u d).2 = val u % d ∧
    remLimb u d = val u % d :=
  divRemLimb_spec hrecip hd0 hd hu

/-- T02.5b the capped 3-by-2 quotient of the top limbs is the true digit or one more (Knuth 4.3.1
    Theorem B, for a normalised two-limb divisor head `v2 ≥ B²/2`): `W = u3·K + wl`, `Y = v2·K + yl`,
    `W < Y·B`.  Together with `div3by2_correct` this is the hypothesis `hest` of `knuth_row_exact`. -/
theorem qhat_within_one {W Y K u3 v2 wl yl : Nat} (hW : W = u3 * K + wl) (hwl : wl < K)
    (hY : Y = v2 * K + yl) (hyl : yl < K) (hv2 : HALF * B ≤ v2) (hWlt : W < Y * B) :
    min (u3 / v2) (B - 1) = W / Y ∨ min (u3 / v2) (B - 1) = W / Y + 1 :=
  CB.Div.qhat_within_one hW hwl hY hyl hv2 hWlt

/-- T02.4 (done part) an iteration whose digit is forced to `0` by the `done` mask is a no-op:
    the row is unchanged and no add-back / decrement is signalled. -/
theorem knuth_row_done_noop {xs ys : List Nat} {xHi : Nat} (hx : WF xs) (hy : WF ys)
    (hl : xs.length = ys.length) (hxHi : xHi < B) : knuthRow xs ys xHi 0 = (xs, 0) :=
  knuthRow_zero hx hy hl hxHi

/-- the normalisation shift `Uint::shl_limb(s)`, `0 ≤ s < 64` (masks make `s = 0` the identity):
    exact value with the shifted-out carry. -/
theorem shlLimb_exact {a : List Nat} {s : Nat} (hs : s < 64) (ha : WF a) :
    val (shlLimb a s).1 + B ^ a.length * (shlLimb a s).2 = val a * 2 ^ s ∧
    WF (shlLimb a s).1 ∧ (shlLimb a s).1.length = a.length ∧ (shlLimb a s).2 < 2 ^ s :=
  shlLimb_spec hs ha

/-- T02.6 (one-limb case, the static `LIMBS == 1` short circuit of `div_rem`) -/
theorem divRemCt_one_limb {n d : Nat} (hn : n < B) (hd0 : 0 < d) (hd : d < B) :
    divRemCt [n] [d] = ([n / d], [n % d]) := by
  have hu : WF [n] := WF_cons.mpr ⟨hn, WF_nil⟩
  have ⟨h1, h2, _⟩ := divRemLimb_spec hrecip hd0 hd hu
  have hv : val [n] = n := by simp [val]
  have hq : n / d < B := Nat.lt_of_le_of_lt (Nat.div_le_self _ _) hn
  have e : divRemCt [n] [d] = ((divRemLimb [n] d).1, [(divRemLimb [n] d).2]) := by
    simp [divRemCt]
  rw [e, h1, h2, hv]
  simp [toLimbs, Nat.mod_eq_of_lt hq]

/-- T02.8a `checked_div` / `checked_rem` are `none` exactly for a zero divisor, and otherwise the
    quotient / remainder of `div_rem`. -/
theorem checked_div_none_iff (n d : List Nat) : checkedDiv n d = none ↔ val d = 0 := by
  unfold checkedDiv; split <;> simp_all
theorem checked_rem_none_iff (n d : List Nat) : checkedRem n d = none ↔ val d = 0 := by
  unfold checkedRem; split <;> simp_all
theorem checked_forms_some {n d : List Nat} (h : val d ≠ 0) :
    checkedDiv n d = some (divRemCt n d).1 ∧ checkedRem n d = some (divRemCt n d).2 := by
  simp [checkedDiv, checkedRem, h]

/-- T02.8b the thin forms (`rem`, `wrapping_div`, `/`, `%`, `/=`, `%=`, `Wrapping`, `rem_vartime`,
    `wrapping_div_vartime`, `wrapping_rem_vartime`, `DivVartime`) are projections of the two
    division routines in the model (the harness checks that every such Rust form returns the
    primary result: the trailing `ok`). -/
theorem thin_forms (n d : List Nat) :
    urem n d = (divRemCt n d).2 ∧ wrappingDiv n d = (divRemCt n d).1 ∧
    remVartime n d = (divRemVartime n d).2 ∧ wrappingDivVartime n d = (divRemVartime n d).1 :=
  ⟨rfl, rfl, rfl, rfl⟩

/-- T02.8c the boxed constant-time forms reject (panic on) a divisor of different precision and
    otherwise run the same routine as the fixed type. -/
theorem boxedDivRem_spec (n d : List Nat) :
    (n.length = d.length → boxedDivRem n d = some (divRemCt n d)) ∧
    (n.length ≠ d.length → boxedDivRem n d = none) := by
  unfold boxedDivRem; constructor <;> intro h <;> simp [h]

/-- T02.4 (digit) one complete Knuth digit on a row of `m ≥ 2` limbs: the 3-by-2 estimate from the
    three top window limbs and the two top divisor limbs, multiply-subtract, masked add-back and the
    decrement (`wrapping_sub(1)` of the vartime routines and `saturating_sub(1)` of the constant-time
    one alike) give exactly `W / Y` and leave `W % Y` in the row, for every window `W < Y·B` and every
    normalised divisor row `Y`; in particular the decrement never saturates / wraps. -/
theorem knuth_digit_exact {rc : Reciprocal} (ok : RcOK rc) {xs ys : List Nat} {xHi m : Nat}
    (hm : 2 ≤ m) (hxl : xs.length = m) (hyl : ys.length = m) (hx : WF xs) (hy : WF ys) (hxHi : xHi < B)
    (hv1 : ys.getD (m - 1) 0 = rc.divisorNormalized)
    (hW : val xs + B ^ m * xHi < val ys * B) :
    val (knuthRow xs ys xHi (div3by2 xHi (xs.getD (m - 1) 0) (xs.getD (m - 2) 0) rc (ys.getD (m - 2) 0))).1
      = (val xs + B ^ m * xHi) % val ys ∧
    WF (knuthRow xs ys xHi (div3by2 xHi (xs.getD (m - 1) 0) (xs.getD (m - 2) 0) rc (ys.getD (m - 2) 0))).1 ∧
    (knuthRow xs ys xHi (div3by2 xHi (xs.getD (m - 1) 0) (xs.getD (m - 2) 0) rc (ys.getD (m - 2) 0))).1.length = m ∧
    selectWord (div3by2 xHi (xs.getD (m - 1) 0) (xs.getD (m - 2) 0) rc (ys.getD (m - 2) 0))
      (wsub (div3by2 xHi (xs.getD (m - 1) 0) (xs.getD (m - 2) 0) rc (ys.getD (m - 2) 0)) 1)
      (knuthRow xs ys xHi (div3by2 xHi (xs.getD (m - 1) 0) (xs.getD (m - 2) 0) rc (ys.getD (m - 2) 0))).2
      = (val xs + B ^ m * xHi) / val ys ∧
    selectWord (div3by2 xHi (xs.getD (m - 1) 0) (xs.getD (m - 2) 0) rc (ys.getD (m - 2) 0))
      ((div3by2 xHi (xs.getD (m - 1) 0) (xs.getD (m - 2) 0) rc (ys.getD (m - 2) 0)) - 1)
      (knuthRow xs ys xHi (div3by2 xHi (xs.getD (m - 1) 0) (xs.getD (m - 2) 0) rc (ys.getD (m - 2) 0))).2
      = (val xs + B ^ m * xHi) / val ys :=
  knuth_digit ok hm hxl hyl hx hy hxHi hv1 hW

/-- T02.4 (loop invariant, vartime) the `loop { … }` of `div_rem_vartime` from pass `k` down to `0`
    on the state `lo ++ win ++ Q` (`k` untouched low limbs, the `yc`-limb window with `x_hi`, the
    digits already stored): it ends with the remainder limbs, the `k + 1` quotient digits and `Q`. -/
theorem vtLoop_exact {rc : Reciprocal} (ok : RcOK rc) {y : List Nat} {yc : Nat}
    (hyc : 2 ≤ yc) (hyl : y.length = yc) (hy : WF y) (hv1 : y.getD (yc - 1) 0 = rc.divisorNormalized)
    (k : Nat) (lo win Q : List Nat) (xHi : Nat) (hlo : lo.length = k) (hwin : win.length = yc)
    (hwlo : WF lo) (hw : WF win) (hxHi : xHi < B) (hW : val win + B ^ yc * xHi < val y * B) :
    ∃ r ds, (vtLoop rc y yc k (lo ++ win ++ Q, xHi)).1 = r ++ ds ++ Q ∧ r.length = yc - 1 ∧
      ds.length = k + 1 ∧ WF r ∧ WF ds ∧ (vtLoop rc y yc k (lo ++ win ++ Q, xHi)).2 < B ∧
      val r + B ^ (yc - 1) * (vtLoop rc y yc k (lo ++ win ++ Q, xHi)).2 =
        (val (lo ++ win) + B ^ (k + yc) * xHi) % val y ∧
      val ds = (val (lo ++ win) + B ^ (k + yc) * xHi) / val y :=
  vtLoop_spec ok hyc hyl hy hv1 k lo win Q xHi hlo hwin hwlo hw hxHi hW

/-- T02.7 `Uint::div_rem_vartime::<RHS_LIMBS>` is exact for EVERY pair of limb counts, every
    dividend and every non-zero divisor (limb-divisor short cut, `yc > LIMBS` short cut, Knuth loop
    with normalisation shift incl. shift 0 and the final un-shift): quotient in the dividend's width,
    remainder in the divisor's width.  No hypothesis is left (H_recip is the proved `reciprocal_exact`). -/
theorem divRemVartime_exact {n d : List Nat} (hn : WF n) (hd : WF d)
    (hd0 : val d ≠ 0) :
    divRemVartime n d = (toLimbs n.length (val n / val d), toLimbs d.length (val n % val d)) :=
  divRemVartime_spec hrecip hn hd hd0

/-- T02.7b the vartime thin forms (`rem_vartime`, `rem_mixed`, `wrapping_div_vartime`,
    `wrapping_rem_vartime`, `DivVartime`) -/
theorem vartime_forms_exact {n d : List Nat} (hn : WF n) (hd : WF d)
    (hd0 : val d ≠ 0) :
    remVartime n d = toLimbs d.length (val n % val d) ∧
    wrappingDivVartime n d = toLimbs n.length (val n / val d) := by
  unfold remVartime wrappingDivVartime
  rw [divRemVartime_spec hrecip hn hd hd0]; exact ⟨rfl, rfl⟩

/-- T02.4 (loop invariant, constant time) the active phase of `while xi > 0` from `xi = low + j`
    down to `low` (`low = max(dwords − 1, 1)`): every iteration is one exact digit; the state that
    reaches the `done` phase holds the partial remainder `R < Y_low` in `r`, `x_hi` and the digits
    `ds` with `W = R + Y_low · val ds`. -/
theorem ctLoop_active_exact {rc : Reciprocal} (ok : RcOK rc) {y : List Nat} {L dwords low Ylow : Nat}
    (hy : WF y) (hyl : y.length = L) (hv1 : y.getD (L - 1) 0 = rc.divisorNormalized)
    (hlow1 : 1 ≤ low) (hlowd : dwords - 1 ≤ low)
    (hY : ∀ xi, low ≤ xi → xi + 1 ≤ L → val (y.drop (L - xi - 1)) = Ylow * B ^ (xi - low))
    (j : Nat) (win Q : List Nat) (xHi : Nat) (hL : low + j + 1 ≤ L) (hwin : win.length = low + j + 1)
    (hw : WF win) (hxHi : xHi < B) (hW : val win + B ^ (low + j + 1) * xHi < Ylow * B ^ j * B) :
    ∃ r ds xHi', ctLoop rc y L dwords (low + j) ⟨win ++ Q, xHi, win.getD (low + j) 0⟩ =
        ctLoop rc y L dwords (low - 1) ⟨r ++ ds ++ Q, xHi', r.getD (low - 1) 0⟩ ∧
      r.length = low ∧ ds.length = j + 1 ∧ WF r ∧ WF ds ∧ xHi' < B ∧
      val r + B ^ low * xHi' < Ylow ∧
      val win + B ^ (low + j + 1) * xHi = val r + B ^ low * xHi' + Ylow * val ds :=
  ctLoop_active ok hy hyl hv1 hlow1 hlowd hY j win Q xHi hL hwin hw hxHi hW

/-- T02.4 (done part, loop) iterations with `xi < dwords − 1` leave the whole state untouched. -/
theorem ctLoop_done_noop {rc : Reciprocal} {y : List Nat} {L dwords : Nat} (hy : WF y) (hyl : y.length = L)
    (xi : Nat) (st : CtState) (h1 : xi < dwords - 1) (h2 : xi + 1 ≤ L) (h3 : WF st.x) (h4 : st.x.length = L)
    (h5 : st.xHi < B) (h6 : st.xLo < B) : ctLoop rc y L dwords xi st = st :=
  ctLoop_done hy hyl xi st h1 h2 h3 h4 h5 h6

/-- T02.6 `Uint::div_rem` (= `BoxedUint::div_rem_unchecked` on equal precisions) is exact for EVERY
    limb count `≥ 1`, every dividend and every non-zero divisor: the `LIMBS == 1` short cut, the
    top-aligned divisor `rhs.shl(BITS − dbits)`, the normalisation `shl_limb`, the constant-time loop
    with its `done` iterations, the single-limb tail through `div2by1` with the zeroed `x_hi`, the
    copy-out loop and the two final right shifts.  No hypothesis is left (H_recip is the proved `reciprocal_exact`). -/
theorem divRemCt_exact {n d : List Nat} (hn : WF n) (hd : WF d)
    (hl : d.length = n.length) (hd0 : val d ≠ 0) :
    divRemCt n d = (toLimbs n.length (val n / val d), toLimbs n.length (val n % val d)) :=
  divRemCt_spec hrecip hn hd hl hd0

/-- T02.6b all constant-time forms: `rem`, `wrapping_div`, operators, `checked_div`, `checked_rem`,
    and the boxed `div_rem` on equal precisions. -/
theorem ct_forms_exact {n d : List Nat} (hn : WF n) (hd : WF d)
    (hl : d.length = n.length) (hd0 : val d ≠ 0) :
    urem n d = toLimbs n.length (val n % val d) ∧ wrappingDiv n d = toLimbs n.length (val n / val d) ∧
    checkedDiv n d = some (toLimbs n.length (val n / val d)) ∧
    checkedRem n d = some (toLimbs n.length (val n % val d)) ∧
    boxedDivRem n d = some (toLimbs n.length (val n / val d), toLimbs n.length (val n % val d)) := by
  have h := divRemCt_spec hrecip hn hd hl hd0
  refine ⟨?_, ?_, ?_, ?_, ?_⟩
  · unfold urem; rw [h]
  · unfold wrappingDiv; rw [h]
  · simp [checkedDiv, hd0, h]
  · simp [checkedRem, hd0, h]
  · simp [boxedDivRem, hl, h]

/-! ### non-vacuity: the hypotheses of the main theorems are satisfiable by non-trivial inputs -/

example : WF [5, 7, 9] ∧ WF [0, 3, 0] ∧ [0, 3, 0].length = [5, 7, 9].length ∧ val [0, 3, 0] ≠ 0 := by
  refine ⟨?_, ?_, rfl, by decide⟩ <;> intro x hx <;> simp at hx <;> rcases hx with rfl | rfl | rfl <;> decide

example : ∃ xs ys : List Nat, ∃ xHi : Nat, xs.length = 2 ∧ ys.length = 2 ∧ WF xs ∧ WF ys ∧ xHi < B ∧
    HALF ≤ ys.getD 1 0 ∧ val xs + B ^ 2 * xHi < val ys * B :=
  ⟨[1, 2], [3, HALF], 5, rfl, rfl, by intro x hx; simp at hx; rcases hx with rfl | rfl <;> decide,
    by intro x hx; simp at hx; rcases hx with rfl | rfl <;> decide, by decide, by decide, by decide⟩

/-- T02.8 `Uint::rem2k_vartime(k)` returns `n mod 2^k` for EVERY `k` — inside a limb, on a limb
    border, `k ≥ BITS` (value unchanged) — and every limb count `≥ 1`.  No hypothesis. -/
theorem rem2k_exact {a : List Nat} (ha : WF a) (hne : a ≠ []) (k : Nat) :
    rem2kVartime a k = toLimbs a.length (val a % 2 ^ k) :=
  rem2kVartime_spec ha hne k

/-- T02.7c `BoxedUint::div_rem_vartime` (hence `wrapping_div_vartime`, `DivVartime`) for ANY two
    precisions: limb short cut, the in-place routine on the low `yc` divisor limbs (incl. its
    `yc > xc` short cut), remainder re-assembled in the divisor's precision. -/
theorem boxedDivRemVartime_exact {n d : List Nat} (hn : WF n) (hd : WF d)
    (hd0 : val d ≠ 0) :
    boxedDivRemVartime n d = (toLimbs n.length (val n / val d), toLimbs d.length (val n % val d)) :=
  boxedDivRemVartime_spec hrecip hn hd hd0

example : rem2kVartime [5, 7] 67 = toLimbs 2 ((5 + B * 7) % 2 ^ 67) := by
  have h : WF [5, 7] := by intro x hx; simp at hx; rcases hx with rfl | rfl <;> decide
  have := rem2k_exact h (by simp) 67
  simpa [val] using this

/-- T02.7d `Uint::rem_wide_vartime((lower, upper), rhs)` returns `(lower + 2^BITS · upper) mod rhs` for
    every limb count, every double-width dividend and every non-zero divisor: the limb short cut
    `rem_limb_with_reciprocal_wide` (two chained limb loops, carry of the low half OR-ed into the high
    half), and for `yc ≥ 2` the first phase (row at the top, shift one limb up, fetch the next low limb)
    and the second phase (the vartime loop with the digits discarded), normalisation and un-shift. -/
theorem remWideVartime_exact {lower upper d : List Nat} (hlo : WF lower)
    (hup : WF upper) (hd : WF d) (hll : lower.length = d.length) (hul : upper.length = d.length)
    (hd0 : val d ≠ 0) :
    remWideVartime lower upper d =
      toLimbs d.length ((val lower + B ^ d.length * val upper) % val d) :=
  remWideVartime_spec hrecip hlo hup hd hll hul hd0

/-- T02.3b `BoxedUint::rem_limb` (`boxed/div_limb.rs::rem_limb_with_reciprocal`, which shifts the limbs
    on the fly instead of calling `shl_limb`) computes exactly what the fixed-width routine computes,
    for every limb count; hence `= n mod d`. -/
theorem boxedRemLimb_exact {d : Nat} (hd0 : 0 < d) (hd : d < B) {u : List Nat}
    (hu : WF u) :
    boxedRemLimb u d = val u % d ∧
    ∀ rc : Reciprocal, boxedRemLimbWithReciprocal u rc = remLimbWithReciprocal u rc :=
  ⟨boxedRemLimb_spec hrecip hd0 hd hu, fun rc => boxedRemLimbWithReciprocal_eq u rc⟩

/-- T02.7e `BoxedUint::rem_vartime` (= `rem_mixed`) for ANY two precisions. -/
theorem boxedRemVartime_exact {n d : List Nat} (hn : WF n) (hd : WF d)
    (hd0 : val d ≠ 0) :
    boxedRemVartime n d = toLimbs d.length (val n % val d) :=
  boxedRemVartime_spec hrecip hn hd hd0

/-! ## coverage round — `short_div`, `Reciprocal::default()` / `conditional_select` (the functions the
     correspondence run now reaches through `c02.hook.*` and `c02.{u,b}.recip_select`) -/

/-- `short_div` on the only inputs the crate feeds it (`reciprocal`'s table value: dividend `2^19 − 3·2^8` of 19
    bits, every 9-bit divisor head `256 ≤ d9 < 512`): the shift-and-subtract loop with its branch-free `lt` /
    `select` returns the quotient.  (The whole contract grid of bit lengths is exercised against `x / y` by
    `c02.hook.short_div`; a proof for all bit lengths is not attempted.) -/
theorem short_div_table_exact (d9 : Nat) (h1 : 256 ≤ d9) (h2 : d9 < 512) :
    shortDiv recipV0Dividend 19 (d9 % U32) 9 = (2 ^ 19 - 3 * 2 ^ 8) / d9 :=
  shortDiv_table d9 h2 h1

/-- `Reciprocal::default()` is, field by field, `Reciprocal::new(Word::MAX)`: divisor `Word::MAX` (already
    normalised, shift 0) with its true reciprocal 1. -/
theorem default_reciprocal_is_new_max : Reciprocal.new WMAX = Reciprocal.dflt := by
  have h1 : leadingZeros WMAX = 0 := by decide +kernel
  have h3 : (WMAX <<< 0) % B = WMAX := by decide
  have h2 : reciprocalImpl WMAX = 1 := by decide +kernel
  show ({ divisorNormalized := (WMAX <<< leadingZeros WMAX) % B, shift := leadingZeros WMAX,
          reciprocal := reciprocalImpl ((WMAX <<< leadingZeros WMAX) % B) } : Reciprocal) = _
  rw [h1, h3, h2]; rfl

/-- hence every single-limb division routine handed the default reciprocal (directly, or selected by
    `ConditionallySelectable::conditional_select`, whose model is the field-wise choice) divides by `Word::MAX`
    exactly, for every limb count: `div_rem_limb_with_reciprocal`, `rem_limb_with_reciprocal`, and the boxed
    `rem_limb_with_reciprocal`. -/
theorem default_reciprocal_exact {u : List Nat} (hu : WF u) :
    (divRemLimbWithReciprocal u Reciprocal.dflt).1 = toLimbs u.length (val u / WMAX) ∧
    (divRemLimbWithReciprocal u Reciprocal.dflt).2 = val u % WMAX ∧
    remLimbWithReciprocal u Reciprocal.dflt = val u % WMAX ∧
    boxedRemLimbWithReciprocal u Reciprocal.dflt = val u % WMAX := by
  have h := divRemLimb_spec hrecip (d := WMAX) (by decide) (by decide) hu
  have hb := boxedRemLimb_spec hrecip (d := WMAX) (by decide) (by decide) hu
  unfold divRemLimb remLimb at h
  unfold boxedRemLimb at hb
  rw [default_reciprocal_is_new_max] at h hb
  exact ⟨h.1, h.2.1, h.2.2, hb⟩

example : divRemLimbWithReciprocal [5, 7] Reciprocal.dflt = ([7, 0], 12) := by decide +kernel

end CB.P02
