/-
  C02 — unsigned division and remainder are exact.
  Property theorems only (helper lemmas live in CB/Lemmas/C02*.lean).  Every theorem quantifies over
  all limb counts (list lengths) and all operand values.

  Hypothesis carried by `_partial` theorems:
    H_recip (`CB.Div.HRecip`): `reciprocalImpl d = reciprocalSpec d` for every `B/2 ≤ d < B`
      (the 64-bit Newton iteration of `reciprocal`; a 2^63-element domain, exercised by the
      correspondence run through `Reciprocal::new`'s Debug output, not proved).
  H_qhat of DESIGN.md is PROVED here (`div3by2_exact`, `qhat_within_one`).
-/
import CB.Lemmas.C02LimbDiv
import CB.Lemmas.C02Rows
import CB.Lemmas.C02Div3by2
namespace CB.P02
open CB CB.Div

/-- T02.1a multiply-subtract row (`mac` + `sbb` per limb): exact value equation with carry and borrow. -/
theorem mulSubRow_exact {xs ys : List Nat} {quo carry borrow : Nat} (hx : WF xs) (hy : WF ys)
    (hq : quo < B) (hc : carry < B) (hb : borrow < B) (hl : xs.length = ys.length) :
    val (mulSubRow xs ys quo carry borrow).1 + quo * val ys + carry + borrow / HALF =
      val xs + B ^ xs.length * ((mulSubRow xs ys quo carry borrow).2.1 + (mulSubRow xs ys quo carry borrow).2.2 / HALF) ∧
    (mulSubRow xs ys quo carry borrow).2.1 < B ∧ (mulSubRow xs ys quo carry borrow).2.2 < B ∧
    WF (mulSubRow xs ys quo carry borrow).1 ∧ (mulSubRow xs ys quo carry borrow).1.length = xs.length :=
  mulSubRow_spec hx hy hq hc hb hl

/-- T02.1b masked add-back row. -/
theorem addBackRow_exact {xs ys : List Nat} {carry : Nat} (p : Bool) (hx : WF xs) (hy : WF ys)
    (hl : xs.length = ys.length) :
    val (addBackRow xs ys (mask p) carry).1 + B ^ xs.length * (addBackRow xs ys (mask p) carry).2 =
      val xs + (if p then val ys else 0) + carry ∧
    WF (addBackRow xs ys (mask p) carry).1 ∧ (addBackRow xs ys (mask p) carry).1.length = xs.length :=
  addBackRow_spec p hx hy hl

/-- T02.2 `div2by1` (Möller–Granlund Algorithm 4 with both masked corrections and wrapping
    arithmetic) is exact whenever the stored reciprocal is `⌊(B²−1)/d⌋ − B`. -/
theorem div2by1_correct {rc : Reciprocal} {u1 u0 : Nat}
    (hd1 : HALF ≤ rc.divisorNormalized) (hd2 : rc.divisorNormalized < B)
    (hv : rc.reciprocal = reciprocalSpec rc.divisorNormalized)
    (hu1 : u1 < rc.divisorNormalized) (hu0 : u0 < B) :
    div2by1 u1 u0 rc = ((u1 * B + u0) / rc.divisorNormalized, (u1 * B + u0) % rc.divisorNormalized) :=
  div2by1_exact hd1 hd2 hv hu1 hu0

/-- T02.5 (H_qhat, proved) `div3by2` returns `min(⌊(u2 B² + u1 B + u0)/(v1 B + v0)⌋, B − 1)`:
    the `q_maxed` cap and the two correction rounds on the wide remainder. -/
theorem div3by2_correct {rc : Reciprocal} {u2 u1 u0 v0 : Nat}
    (hd1 : HALF ≤ rc.divisorNormalized) (hd2 : rc.divisorNormalized < B)
    (hv : rc.reciprocal = reciprocalSpec rc.divisorNormalized)
    (hu2 : u2 ≤ rc.divisorNormalized) (hu1 : u1 < B) (hu0 : u0 < B) (hv0 : v0 < B) :
    div3by2 u2 u1 u0 rc v0 =
      min (((u2 * B + u1) * B + u0) / (rc.divisorNormalized * B + v0)) (B - 1) :=
  div3by2_exact hd1 hd2 hv hu2 hu1 hu0 hv0

/-- T02.4 (row part) one Knuth digit: given the true digit `q` of the window and an estimate
    `quo ∈ {q, q+1}`, multiply-subtract + borrow test + masked add-back leave exactly `W − q·Y`, and the
    mask says whether the estimate was one too large (so the decrement yields `q`). -/
theorem knuth_row_exact {xs ys : List Nat} {xHi quo q : Nat} (hx : WF xs) (hy : WF ys)
    (hl : xs.length = ys.length) (hxHi : xHi < B) (hq : quo < B)
    (hlo : q * val ys ≤ val xs + B ^ xs.length * xHi)
    (hhi : val xs + B ^ xs.length * xHi < (q + 1) * val ys)
    (hest : quo = q ∨ quo = q + 1) :
    val (knuthRow xs ys xHi quo).1 + q * val ys = val xs + B ^ xs.length * xHi ∧
    (knuthRow xs ys xHi quo).2 = mask (decide (quo = q + 1)) ∧
    WF (knuthRow xs ys xHi quo).1 ∧ (knuthRow xs ys xHi quo).1.length = xs.length :=
  knuthRow_spec hx hy hl hxHi hq hlo hhi hest

/-- T02.3 single-limb division through the reciprocal: exact for EVERY limb count and every
    non-zero limb divisor, including normalisation shift 0 and the final un-shift (given H_recip). -/
theorem divRemLimb_exact_partial (H_recip : HRecip) {d : Nat} (hd0 : 0 < d) (hd : d < B)
    {u : List Nat} (hu : WF u) :
    (divRemLimb u d).1 = toLimbs u.length (val u / d) ∧ (divRemLimb u d).2 = val u % d ∧
    remLimb u d = val u % d :=
  divRemLimb_spec H_recip hd0 hd hu

end CB.P02
