/-
  C14 — Every signed division flavour satisfies n = q*d + r with its sign convention.
  Property theorems only.  The unsigned division inside is taken at value level (`val n / val d`,
  `val n % val d`; its refinement by `Uint::div_rem(_vartime)` is property C02).  Statements are on
  `toInt` with Lean's `Int`: `Int.tdiv/tmod` for truncation, `Int.fdiv/fmod` for flooring.
-/
import CB.Lemmas.C14Div
set_option linter.unusedVariables false
namespace CB.P14
open CB CB.SInt CB.IntDiv

/-
  FULL STATEMENT (unproved — it is FALSE of the code, see `floor_signed_full_statement_false`):
  theorem checked_div_rem_floor_spec {n d : List Nat} (hn : WF n) (hd : WF d) (hne : n ≠ []) (hde : d ≠ [])
      (hd0 : toInt d ≠ 0) :
      toInt (iCheckedDivRemFloor n d).2 = Int.fmod (toInt n) (toInt d) ∧
      (iCheckedDivRemFloor n d).1.2 = mask (decide (InRange n.length (Int.fdiv (toInt n) (toInt d)))) ∧
      (InRange n.length (Int.fdiv (toInt n) (toInt d)) →
        toInt (iCheckedDivRemFloor n d).1.1 = Int.fdiv (toInt n) (toInt d))
-/

/-! ### what the two conventions mean (facts about `Int.tdiv/tmod`, `Int.fdiv/fmod`) -/

/-- truncation: `n = q·d + r`, `|r| < |d|`, `sign r ∈ {0, sign n}` -/
theorem trunc_convention (A D : Int) (hD : D ≠ 0) :
    D * Int.tdiv A D + Int.tmod A D = A ∧ (Int.tmod A D).natAbs < D.natAbs ∧
    (0 ≤ A → 0 ≤ Int.tmod A D) ∧ (A ≤ 0 → Int.tmod A D ≤ 0) := tdiv_tmod_facts A D hD

/-- flooring: `n = q·d + r`, `|r| < |d|`, `sign r ∈ {0, sign d}` -/
theorem floor_convention (A D : Int) (hD : D ≠ 0) :
    D * Int.fdiv A D + Int.fmod A D = A ∧ (Int.fmod A D).natAbs < D.natAbs ∧
    (0 < D → 0 ≤ Int.fmod A D) ∧ (D < 0 → Int.fmod A D ≤ 0) := fdiv_fmod_facts A D hD

/-! ### T14.1 truncating division -/

/-- T14.1 `checked_div_rem(_vartime)` (also `checked_div(_vartime)`, `rem(_vartime)`, `CheckedDiv`,
    `/ % /= %=` on `Int` and `Wrapping<Int>`, `Checked<Int> /`), equal and mixed widths: the remainder is
    `tmod`, the quotient is `tdiv`, reported as `none` exactly when `tdiv ∉ [MIN, MAX]`. -/
theorem checked_div_rem_spec {n d : List Nat} (hn : WF n) (hd : WF d) (hne : n ≠ []) (hd0 : toInt d ≠ 0) :
    (iCheckedDivRem n d).1.2 = mask (decide (InRange n.length (Int.tdiv (toInt n) (toInt d)))) ∧
    (InRange n.length (Int.tdiv (toInt n) (toInt d)) →
      toInt (iCheckedDivRem n d).1.1 = Int.tdiv (toInt n) (toInt d)) ∧
    toInt (iCheckedDivRem n d).2 = Int.tmod (toInt n) (toInt d) := by
  obtain ⟨h1, h2, h3⟩ := checkedDivRem_spec hn hd hne hd0
  exact ⟨h1, fun hin => by rw [h2, wrapS_of_inRange hin], h3⟩

/-- T14.1 the quotient is `none` exactly for `MIN / -1` (a zero divisor is not a `NonZero`; the forms that
    take a plain divisor return `none` for it before reaching this code). -/
theorem checked_div_none_iff {n d : List Nat} (hn : WF n) (hd : WF d) (hne : n ≠ []) (hd0 : toInt d ≠ 0) :
    (iCheckedDivRem n d).1.2 =
      mask (decide (¬(2 * toInt n = -((B ^ n.length : Nat) : Int) ∧ toInt d = -1))) := by
  rw [(checkedDivRem_spec hn hd hne hd0).1]
  exact mask_congr (tdiv_inRange_iff (toInt_inRange hn) hd0)

/-- T14.1 `DivVartime::div_vartime` computes the same quotient option (and `expect`s it). -/
theorem div_vartime_eq (n d : List Nat) : iDivVartime n d = (iCheckedDivRem n d).1 := rfl

/-- T14.1u `div_rem_uint(_vartime)` (also `div_uint`, `rem_uint`, `/ % /= %=` by `NonZero<Uint>`):
    quotient `tdiv` (always representable), remainder `tmod` whenever the divisor is at least as wide as the
    dividend — in particular for every equal-width form. -/
theorem div_rem_uint_spec {n d : List Nat} (hn : WF n) (hd : WF d) (hne : n ≠ []) (hd0 : val d ≠ 0)
    (hw : n.length ≤ d.length) :
    toInt (iDivRemUint n d).1 = Int.tdiv (toInt n) (val d : Int) ∧
    toInt (iDivRemUint n d).2 = Int.tmod (toInt n) (val d : Int) := by
  obtain ⟨h1, h2, h3⟩ := divRemUint_spec hn hd hne hd0
  exact ⟨h1, by rw [h2, wrapS_of_inRange (h3 hw)]⟩

/-
  FULL STATEMENT (unproved — FALSE of the code for a divisor narrower than the dividend, see
  `rem_uint_narrow_witness`):
  theorem div_rem_uint_vartime_spec {n d : List Nat} (hn : WF n) (hd : WF d) (hne : n ≠ []) (hd0 : val d ≠ 0) :
      toInt (iDivRemUint n d).1 = Int.tdiv (toInt n) (val d : Int) ∧
      toInt (iDivRemUint n d).2 = Int.tmod (toInt n) (val d : Int)
-/

/-- T14.1u (all widths) the quotient is exact; the remainder is `tmod` modulo `2^RBITS` re-signed, hence
    exact under the explicit hypothesis that `tmod` fits `Int<RHS_LIMBS>`. -/
theorem div_rem_uint_vartime_partial {n d : List Nat} (hn : WF n) (hd : WF d) (hne : n ≠ []) (hd0 : val d ≠ 0)
    (H_fits : InRange d.length (Int.tmod (toInt n) (val d : Int))) :
    toInt (iDivRemUint n d).1 = Int.tdiv (toInt n) (val d : Int) ∧
    toInt (iDivRemUint n d).2 = Int.tmod (toInt n) (val d : Int) := by
  obtain ⟨h1, h2, _⟩ := divRemUint_spec hn hd hne hd0
  exact ⟨h1, by rw [h2, wrapS_of_inRange H_fits]⟩

/-- T14.1u-n the narrow-divisor remainder is wrong on the code: `I128 2^63 rem U64 0x8000000000000003`
    returns `I64::MIN = -2^63`; required `2^63` (not representable in the return type). -/
theorem rem_uint_narrow_witness :
    toInt [HALF, 0] = 9223372036854775808 ∧ val [HALF + 3] = 9223372036854775811 ∧
    toInt (iDivRemUint [HALF, 0] [HALF + 3]).1 = 0 ∧
    toInt (iDivRemUint [HALF, 0] [HALF + 3]).2 = -9223372036854775808 ∧
    Int.tmod 9223372036854775808 9223372036854775811 = 9223372036854775808 := by decide

/-! ### T14.2 flooring division by an unsigned divisor -/

/-- T14.2 `div_rem_floor_uint(_vartime)` (also `div_floor_uint(_vartime)`, `normalized_rem(_vartime)`), equal
    and mixed widths: `q = ⌊n/d⌋`, the remainder is `fmod` as an unsigned value of the divisor's width. -/
theorem div_rem_floor_uint_spec {n d : List Nat} (hn : WF n) (hd : WF d) (hne : n ≠ []) (hd0 : val d ≠ 0) :
    toInt (iDivRemFloorUint n d).1 = Int.fdiv (toInt n) (val d : Int) ∧
    ((val (iDivRemFloorUint n d).2 : Nat) : Int) = Int.fmod (toInt n) (val d : Int) ∧
    WF (iDivRemFloorUint n d).2 ∧ (iDivRemFloorUint n d).2.length = d.length :=
  divRemFloorUint_spec hn hd hne hd0

/-- T14.2 `normalized_rem ∈ [0, d)` and `n = q·d + r` with the returned values. -/
theorem normalized_rem_range {n d : List Nat} (hn : WF n) (hd : WF d) (hne : n ≠ []) (hd0 : val d ≠ 0) :
    val (iDivRemFloorUint n d).2 < val d ∧
    (val d : Int) * toInt (iDivRemFloorUint n d).1 + ((val (iDivRemFloorUint n d).2 : Nat) : Int) = toInt n := by
  obtain ⟨h1, h2, _, _⟩ := divRemFloorUint_spec hn hd hne hd0
  have hdI : ((val d : Nat) : Int) ≠ 0 := by omega
  obtain ⟨f1, f2, f3, _⟩ := fdiv_fmod_facts (toInt n) (val d : Int) hdI
  rw [← h2] at f1 f2 f3
  rw [← h1] at f1
  refine ⟨?_, f1⟩
  have := f3 (by omega)
  omega

/-! ### T14.3 flooring division by a signed divisor -/

/-- T14.3q the floored QUOTIENT is right for all inputs: `⌊n/d⌋`, `none` exactly when it does not fit
    (only `MIN ⌊/⌋ -1`). -/
theorem checked_div_floor_quotient_spec {n d : List Nat} (hn : WF n) (hd : WF d) (hne : n ≠ [])
    (hd0 : toInt d ≠ 0) :
    (iCheckedDivRemFloor n d).1.2 = mask (decide (InRange n.length (Int.fdiv (toInt n) (toInt d)))) ∧
    (InRange n.length (Int.fdiv (toInt n) (toInt d)) →
      toInt (iCheckedDivRemFloor n d).1.1 = Int.fdiv (toInt n) (toInt d)) := by
  obtain ⟨h1, h2, _⟩ := checkedDivRemFloor_spec hn hd hne hd0
  exact ⟨h1, fun hin => by rw [h2, wrapS_of_inRange hin]⟩

/-- T14.3w the floored REMAINDER as the code computes it, for all inputs: `fmod` for a non-negative
    dividend, `-fmod` for a negative one. -/
theorem checked_div_rem_floor_as_written {n d : List Nat} (hn : WF n) (hd : WF d) (hne : n ≠ [])
    (hd0 : toInt d ≠ 0) :
    toInt (iCheckedDivRemFloor n d).2 =
      (if toInt n < 0 then - Int.fmod (toInt n) (toInt d) else Int.fmod (toInt n) (toInt d)) :=
  (checkedDivRemFloor_spec hn hd hne hd0).2.2

/-- T14.3 `_partial`: the full statement (header of this file) holds under the explicit hypothesis that
    the dividend is non-negative or the division is exact. -/
theorem checked_div_rem_floor_partial {n d : List Nat} (hn : WF n) (hd : WF d) (hne : n ≠ [])
    (hd0 : toInt d ≠ 0) (H_nonneg_or_exact : 0 ≤ toInt n ∨ Int.fmod (toInt n) (toInt d) = 0) :
    toInt (iCheckedDivRemFloor n d).2 = Int.fmod (toInt n) (toInt d) ∧
    (iCheckedDivRemFloor n d).1.2 = mask (decide (InRange n.length (Int.fdiv (toInt n) (toInt d)))) ∧
    (InRange n.length (Int.fdiv (toInt n) (toInt d)) →
      toInt (iCheckedDivRemFloor n d).1.1 = Int.fdiv (toInt n) (toInt d)) := by
  obtain ⟨q1, q2⟩ := checked_div_floor_quotient_spec hn hd hne hd0
  refine ⟨?_, q1, q2⟩
  rw [checked_div_rem_floor_as_written hn hd hne hd0]
  rcases H_nonneg_or_exact with h | h
  · rw [if_neg (by omega)]
  · rw [h]; simp

/-- T14.3n (general form) whenever the dividend is negative and the division inexact, the returned
    remainder differs from `fmod`, and `n ≠ q·d + r` for the returned pair. -/
theorem checked_div_rem_floor_defect {n d : List Nat} (hn : WF n) (hd : WF d) (hne : n ≠ [])
    (hd0 : toInt d ≠ 0) (hneg : toInt n < 0) (hinexact : Int.fmod (toInt n) (toInt d) ≠ 0) :
    toInt (iCheckedDivRemFloor n d).2 ≠ Int.fmod (toInt n) (toInt d) := by
  rw [checked_div_rem_floor_as_written hn hd hne hd0, if_pos hneg]
  omega

/-- T14.3n The flooring division by a SIGNED divisor, as the crate computes it, violates the property:
    `-8 ⌊/⌋ 3` returns the remainder `-1` (required: `1 = fmod (-8) 3`), so `n ≠ q·d + r`. -/
theorem floor_signed_witness_neg8_3 :
    toInt [B - 8] = -8 ∧ toInt [3] = 3 ∧
    toInt (iCheckedDivRemFloor [B - 8] [3]).1.1 = -3 ∧ (iCheckedDivRemFloor [B - 8] [3]).1.2 = WMAX ∧
    toInt (iCheckedDivRemFloor [B - 8] [3]).2 = -1 ∧ Int.fmod (-8) 3 = 1 ∧
    (-8 : Int) ≠ (-3) * 3 + (-1) := by decide

/-- T14.3n second witness: `-8 ⌊/⌋ -3` returns the remainder `+2` (required: `-2`). -/
theorem floor_signed_witness_neg8_neg3 :
    toInt [B - 8] = -8 ∧ toInt [B - 3] = -3 ∧
    toInt (iCheckedDivRemFloor [B - 8] [B - 3]).1.1 = 2 ∧
    toInt (iCheckedDivRemFloor [B - 8] [B - 3]).2 = 2 ∧ Int.fmod (-8) (-3) = -2 ∧
    (-8 : Int) ≠ 2 * (-3) + 2 := by decide

/-- T14.3n The full flooring statement for a signed divisor is false of the code. -/
theorem floor_signed_full_statement_false :
    ¬ (∀ n d : List Nat, WF n → WF d → n ≠ [] → n.length = d.length → toInt d ≠ 0 →
        toInt (iCheckedDivRemFloor n d).2 = Int.fmod (toInt n) (toInt d)) := by
  intro h
  have := h [B - 8] [3] (by intro x hx; simp at hx; subst hx; decide)
    (by intro x hx; simp at hx; subst hx; decide) (by simp) rfl (by decide)
  revert this
  decide

/-! ### non-vacuity: concrete non-trivial operands (one limb: `-8 = [B - 8]`, `MIN = [HALF]`, `-1 = [WMAX]`) -/
example : WF [B - 8] ∧ WF [3] ∧ [B - 8] ≠ [] ∧ toInt [3] ≠ 0 ∧ val [3] ≠ 0 := by
  refine ⟨?_, ?_, by simp, by decide, by decide⟩ <;> intro x hx <;> simp at hx <;> subst hx <;> decide
example : iCheckedDivRem [B - 8] [3] = (([B - 2], WMAX), [B - 2]) := by decide              -- -8 / 3 = -2 rem -2
example : iCheckedDivRem [8] [B - 3] = (([B - 2], WMAX), [2]) := by decide                  -- 8 / -3 = -2 rem 2
example : (iCheckedDivRem [HALF] [WMAX]).1.2 = 0 ∧ (iCheckedDivRem [HALF] [WMAX]).2 = [0] := by decide  -- MIN / -1
example : iCheckedDivRem [HALF] [HALF, WMAX] = (([1], WMAX), [0, 0]) := by decide           -- mixed widths: I64::MIN / (I128 -2^63) = 1 rem 0
example : iDivRemUint [B - 8] [3] = ([B - 2], [B - 2]) := by decide
example : iDivRemFloorUint [B - 8] [3] = ([B - 3], [1]) := by decide                        -- -8 ⌊/⌋ 3 = -3 rem 1
example : iDivRemFloorUint [HALF] [1] = ([HALF], [0]) := by decide                          -- MIN ⌊/⌋ 1
example : iCheckedDivRemFloor [8] [B - 3] = (([B - 3], WMAX), [B - 1]) := by decide         -- 8 ⌊/⌋ -3 = -3 rem -1 (right)

end CB.P14
