/-
  C14 — Every signed division flavour satisfies n = q*d + r with its sign convention.
  Property theorems only.  The unsigned division inside is taken at value level (`val n / val d`,
  `val n % val d`; its refinement by `Uint::div_rem(_vartime)` is property C02).  Statements are on
  `toInt` with Lean's `Int`: `Int.tdiv/tmod` for truncation, `Int.fdiv/fmod` for flooring.
-/
import CB.Lemmas.C13Int
import CB.Model.IntDiv
set_option linter.unusedVariables false
namespace CB.P14
open CB CB.SInt CB.IntDiv

/-
  FULL STATEMENT (unproved — it is FALSE of the code, see `floor_signed_full_statement_false`):
  theorem checked_div_rem_floor_spec {n d : List Nat} (hn : WF n) (hd : WF d) (hne : n ≠ []) (hde : d ≠ [])
      (hd0 : toInt d ≠ 0) :
      toInt (iCheckedDivRemFloor n d).2 = Int.fmod (toInt n) (toInt d) ∧
      (iCheckedDivRemFloor n d).1.2 = mask (decide (InRange n.length (Int.fdiv (toInt n) (toInt d)))) ∧
      (InRange n.length (Int.fdiv (toInt n) (toInt d)) →
        toInt (iCheckedDivRemFloor n d).1.1 = Int.fdiv (toInt n) (toInt d))
-/

/-- T14.3n The flooring division by a SIGNED divisor, as the crate computes it, violates the property:
    `-8 ⌊/⌋ 3` returns the remainder `-1` (required: `1 = fmod (-8) 3`), so `n ≠ q·d + r`. -/
theorem floor_signed_witness_neg8_3 :
    toInt [B - 8] = -8 ∧ toInt [3] = 3 ∧
    toInt (iCheckedDivRemFloor [B - 8] [3]).1.1 = -3 ∧ (iCheckedDivRemFloor [B - 8] [3]).1.2 = WMAX ∧
    toInt (iCheckedDivRemFloor [B - 8] [3]).2 = -1 ∧ Int.fmod (-8) 3 = 1 ∧
    (-8 : Int) ≠ (-3) * 3 + (-1) := by decide

/-- T14.3n second witness: `-8 ⌊/⌋ -3` returns the remainder `+2` (required: `-2`). -/
theorem floor_signed_witness_neg8_neg3 :
    toInt [B - 8] = -8 ∧ toInt [B - 3] = -3 ∧
    toInt (iCheckedDivRemFloor [B - 8] [B - 3]).1.1 = 2 ∧
    toInt (iCheckedDivRemFloor [B - 8] [B - 3]).2 = 2 ∧ Int.fmod (-8) (-3) = -2 ∧
    (-8 : Int) ≠ 2 * (-3) + 2 := by decide

/-- T14.3n The full flooring statement for a signed divisor is false of the code. -/
theorem floor_signed_full_statement_false :
    ¬ (∀ n d : List Nat, WF n → WF d → n ≠ [] → n.length = d.length → toInt d ≠ 0 →
        toInt (iCheckedDivRemFloor n d).2 = Int.fmod (toInt n) (toInt d)) := by
  intro h
  have := h [B - 8] [3] (by intro x hx; simp at hx; subst hx; decide)
    (by intro x hx; simp at hx; subst hx; decide) (by simp) rfl (by decide)
  revert this
  decide

end CB.P14
