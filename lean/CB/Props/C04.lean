/-
  C04 — Addition, subtraction, negation: exact result and exact carry / overflow report.
  Property theorems only (helper lemmas live in CB/Lemmas).  Every theorem quantifies over all
  limb counts (list lengths) and all operand values.
-/
import CB.Lemmas.AddSub
import CB.Lemmas.C04Forms
import CB.Lemmas.C04Wrap
import CB.Lemmas.C16Hex
namespace CB.P04
open CB CB.Cmp CB.AddSub

/-- T04.1 `adc` is exact for EVERY carry-in word (no bound on the carry needed). -/
theorem adc_exact (a b c : Nat) :
    (adc a b c).1 + B * (adc a b c).2 = a + b + c ∧ (adc a b c).1 < B := adc_spec a b c

/-- T04.2 `sbb`: only the top bit of the incoming borrow word counts; outgoing borrow is a mask. -/
theorem sbb_exact {a b bw : Nat} (ha : a < B) (hb : b < B) (hbw : bw < B) :
    (sbb a b bw).1 < B ∧ ((sbb a b bw).2 = 0 ∨ (sbb a b bw).2 = WMAX) ∧
    (sbb a b bw).1 + (b + bw / HALF) = a + B * ((sbb a b bw).2 / HALF) := sbb_spec ha hb hbw

/-- T04.1m `mac`: `a + b*c + carry` exactly; the final `hi.wrapping_add(c)` never wraps. -/
theorem mac_exact {a b c carry : Nat} (ha : a < B) (hb : b < B) (hc : c < B) (hk : carry < B) :
    (mac a b c carry).1 + B * (mac a b c carry).2 = a + b * c + carry ∧
    (mac a b c carry).1 < B ∧ (mac a b c carry).2 < B := mac_spec ha hb hc hk

/-- T04.3a limb chain `Uint::adc`, all limb counts, every carry-in. -/
theorem uint_adc_exact (a b : List Nat) (c : Nat) (h : a.length = b.length) :
    val (uadc a b c).1 + B ^ a.length * (uadc a b c).2 = val a + val b + c ∧
    (uadc a b c).1.length = a.length ∧ WF (uadc a b c).1 :=
  ⟨uadc_spec a b c h, uadc_length a b c h, uadc_WF a b c⟩

/-- T04.3b limb chain `Uint::sbb`, all limb counts, every borrow-in word. -/
theorem uint_sbb_exact {a b : List Nat} {bw : Nat} (ha : WF a) (hb : WF b) (hbw : bw < B)
    (h : a.length = b.length) :
    val (usbb a b bw).1 + (val b + bw / HALF) = val a + B ^ a.length * ((usbb a b bw).2 / HALF) ∧
    (a ≠ [] → (usbb a b bw).2 = 0 ∨ (usbb a b bw).2 = WMAX) ∧
    (usbb a b bw).1.length = a.length ∧ WF (usbb a b bw).1 :=
  ⟨(usbb_spec ha hb hbw h).1, (usbb_spec ha hb hbw h).2.2, usbb_length a b bw h, usbb_WF a b bw⟩

/-- T04.5 wrapping addition = sum mod 2^BITS. -/
theorem wrapping_add_spec {a b : List Nat} (h : a.length = b.length) :
    val (wrappingAdd a b) = (val a + val b) % B ^ a.length := (add_value_carry h).1

/-- T04.5 checked addition: `is_some` exactly when the true sum fits; then the value is the sum. -/
theorem checked_add_spec {a b : List Nat} (ha : WF a) (hb : WF b) (h : a.length = b.length) :
    (checkedAdd a b).2 = mask (decide (val a + val b < B ^ a.length)) ∧
    (val a + val b < B ^ a.length → val (checkedAdd a b).1 = val a + val b) := by
  have ⟨hv, hc⟩ := add_value_carry h
  have hc1 := uadc_carry_le_one ha hb (Nat.le_of_lt Nat.zero_lt_one)
  have hcB : (uadc a b 0).2 < B := Nat.lt_of_le_of_lt hc1 (by decide)
  refine ⟨?_, ?_⟩
  · show fromWordEq (uadc a b 0).2 0 = _
    rw [fromWordEq_spec hcB (by decide)]
    congr 1
    rw [hc]
    have : ((val a + val b) / B ^ a.length = 0) ↔ val a + val b < B ^ a.length :=
      Nat.div_eq_zero_iff_lt (Bpow_pos _)
    simp [this]
  · intro hlt
    show val (uadc a b 0).1 = _
    rw [hv, Nat.mod_eq_of_lt hlt]

/-- T04.5 saturating addition returns MAX exactly on overflow, else the sum. -/
theorem saturating_add_spec {a b : List Nat} (ha : WF a) (hb : WF b) (h : a.length = b.length) :
    val (saturatingAdd a b) = min (val a + val b) (B ^ a.length - 1) := by
  have ⟨hv, hc⟩ := add_value_carry h
  have hc1 := uadc_carry_le_one ha hb (Nat.le_of_lt Nat.zero_lt_one)
  have hl := uadc_length a b 0 h
  have hsum : val a + val b < 2 * B ^ a.length := by
    have := val_lt ha; have := val_lt hb; rw [← h] at this; omega
  have hm := val_umax a.length
  by_cases hov : val a + val b < B ^ a.length
  · have hz : (uadc a b 0).2 = 0 := by rw [hc]; exact Nat.div_eq_of_lt hov
    have : fromWordLsb (uadc a b 0).2 = mask false := by rw [hz]; decide
    show val (uselect (uadc a b 0).1 (umax a.length) (fromWordLsb (uadc a b 0).2)) = _
    rw [this, uselect_spec false (uadc_WF a b 0) (umax_WF _) (by simp [hl, umax])]
    simp only [Bool.false_eq_true, if_false]
    rw [hv, Nat.mod_eq_of_lt hov]; omega
  · have hz : (uadc a b 0).2 = 1 := by
      have : 1 ≤ (uadc a b 0).2 := by
        rw [hc]; exact (Nat.le_div_iff_mul_le (Bpow_pos _)).mpr (by omega)
      omega
    have : fromWordLsb (uadc a b 0).2 = mask true := by rw [hz]; decide
    show val (uselect (uadc a b 0).1 (umax a.length) (fromWordLsb (uadc a b 0).2)) = _
    rw [this, uselect_spec true (uadc_WF a b 0) (umax_WF _) (by simp [hl, umax])]
    simp only [if_true]
    omega

/-- T04.5 wrapping subtraction = difference mod 2^BITS. -/
theorem wrapping_sub_spec {a b : List Nat} (ha : WF a) (hb : WF b) (h : a.length = b.length) :
    val (wrappingSub a b) = (val a + B ^ a.length - val b) % B ^ a.length := by
  have ⟨_, hv⟩ := sub_value_borrow ha hb h
  have hva := val_lt ha
  have hvb := val_lt hb; rw [← h] at hvb
  show val (usbb a b 0).1 = _
  rw [hv]
  by_cases hlt : val a < val b
  · simp only [hlt, if_true]; rw [Nat.mod_eq_of_lt (by omega)]
  · simp only [hlt, if_false]
    have : val a + B ^ a.length - val b = (val a - val b) + B ^ a.length := by omega
    rw [this, Nat.add_mod_right, Nat.mod_eq_of_lt (by omega)]

/-- T04.5 checked subtraction: `is_some` exactly when `b ≤ a`; then the value is `a - b`. -/
theorem checked_sub_spec {a b : List Nat} (ha : WF a) (hb : WF b) (h : a.length = b.length) :
    (checkedSub a b).2 = mask (decide (val b ≤ val a)) ∧
    (val b ≤ val a → val (checkedSub a b).1 = val a - val b) := by
  have ⟨hbw, hv⟩ := sub_value_borrow ha hb h
  refine ⟨?_, ?_⟩
  · show fromWordEq (usbb a b 0).2 0 = _
    rw [hbw, fromWordEq_spec (by unfold mask; split <;> decide) (by decide)]
    by_cases hlt : val a < val b
    · have : ¬ val b ≤ val a := by omega
      simp [hlt, this, mask]
    · have : val b ≤ val a := by omega
      simp [hlt, this, mask]
  · intro hle
    show val (usbb a b 0).1 = _
    rw [hv]; simp [show ¬ val a < val b by omega]

/-- T04.5 saturating subtraction returns 0 exactly on underflow (= truncated subtraction). -/
theorem saturating_sub_spec {a b : List Nat} (ha : WF a) (hb : WF b) (h : a.length = b.length) :
    val (saturatingSub a b) = val a - val b := by
  have ⟨hbw, hv⟩ := sub_value_borrow ha hb h
  have hl := usbb_length a b 0 h
  show val (uselect (usbb a b 0).1 (uzero a.length) (fromWordMask (usbb a b 0).2)) = _
  rw [fromWordMask, hbw, uselect_spec _ (usbb_WF a b 0) (uzero_WF _) (by simp [hl, uzero])]
  by_cases hlt : val a < val b
  · simp only [hlt, decide_true, if_true, val_uzero]; omega
  · simp only [hlt, decide_false, Bool.false_eq_true, if_false, hv]

/-- T04.4 negation: two's complement value, and the carry is set exactly for zero. -/
theorem carrying_neg_spec {a : List Nat} (ha : WF a) :
    val (carryingNeg a).1 = (B ^ a.length - val a) % B ^ a.length ∧
    (carryingNeg a).2 = mask (decide (val a = 0)) ∧
    (carryingNeg a).1.length = a.length ∧ WF (carryingNeg a).1 := by
  have ⟨e, hc, hw, hl⟩ := negLoop_spec ha (Nat.le_refl 1)
  have hr := val_lt hw; rw [hl] at hr
  have hva := val_lt ha
  have hp := Bpow_pos a.length
  show val (negLoop a 1).1 = _ ∧ fromWordLsb (negLoop a 1).2 = _ ∧ (negLoop a 1).1.length = _ ∧ WF (negLoop a 1).1
  refine ⟨?_, ?_, hl, hw⟩
  · by_cases hz : val a = 0
    · rw [hz, Nat.sub_zero, Nat.mod_self]
      have : (negLoop a 1).2 = 1 ∨ (negLoop a 1).2 = 0 := by omega
      rcases this with h1 | h1 <;> rw [h1, hz] at e <;> omega
    · have : (negLoop a 1).2 = 0 := by
        rcases (show (negLoop a 1).2 = 1 ∨ (negLoop a 1).2 = 0 by omega) with h1 | h1
        · rw [h1] at e; omega
        · exact h1
      rw [this] at e
      rw [Nat.mod_eq_of_lt (by omega)]; omega
  · by_cases hz : val a = 0
    · have : (negLoop a 1).2 = 1 := by
        rcases (show (negLoop a 1).2 = 1 ∨ (negLoop a 1).2 = 0 by omega) with h1 | h1
        · exact h1
        · rw [h1, hz] at e; omega
      rw [this]; simp [hz, mask]; decide
    · have : (negLoop a 1).2 = 0 := by
        rcases (show (negLoop a 1).2 = 1 ∨ (negLoop a 1).2 = 0 by omega) with h1 | h1
        · rw [h1] at e; omega
        · exact h1
      rw [this]; simp [hz, mask]; decide

/-- T04.4 conditional negation returns exactly `a` or `-a mod 2^BITS`. -/
theorem wrapping_neg_if_spec {a : List Nat} (p : Bool) (ha : WF a) :
    val (wrappingNegIf a (mask p)) = if p then (B ^ a.length - val a) % B ^ a.length else val a := by
  have ⟨hv, _, hl, hw⟩ := carrying_neg_spec ha
  show val (uselect a (carryingNeg a).1 (mask p)) = _
  rw [uselect_spec p ha hw hl.symm]
  cases p <;> simp [hv]


/-! ### T04.6 boxed operands of ANY two precisions -/

/-- `BoxedUint::adc`: exact at the larger precision, every carry-in. -/
theorem boxed_adc_exact (a b : List Nat) (c : Nat) :
    val (badc a b c).1 + B ^ (max a.length b.length) * (badc a b c).2 = val a + val b + c ∧
    (badc a b c).1.length = max a.length b.length := badc_spec a b c

/-- `BoxedUint::sbb`: exact at the larger precision, every borrow-in word. -/
theorem boxed_sbb_exact {a b : List Nat} {bw : Nat} (ha : WF a) (hb : WF b) (hbw : bw < B) :
    val (bsbb a b bw).1 + (val b + bw / HALF) =
      val a + B ^ (max a.length b.length) * ((bsbb a b bw).2 / HALF) ∧
    (bsbb a b bw).1.length = max a.length b.length := bsbb_spec ha hb hbw

/-- the panicking boxed `+`: a value exactly when the true sum fits the larger precision -/
theorem boxed_op_add_spec {a b : List Nat} (ha : WF a) (hb : WF b) :
    (boxedOpAdd a b).isSome = decide (val a + val b < B ^ (max a.length b.length)) ∧
    (∀ r, boxedOpAdd a b = some r → val r = val a + val b ∧ r.length = max a.length b.length) := by
  have ⟨e, hl⟩ := badc_spec a b 0
  have hw : WF (badc a b 0).1 := uadc_WF _ _ _
  have hr := val_lt hw; rw [hl] at hr
  have hp := Bpow_pos (max a.length b.length)
  generalize B ^ (max a.length b.length) = K at *
  unfold boxedOpAdd
  by_cases hc : (badc a b 0).2 = 0
  · rw [hc] at e
    simp only [hc, if_true, Option.isSome_some, Option.some.injEq]
    refine ⟨?_, ?_⟩
    · have : val a + val b < K := by omega
      simp [this]
    · intro r hr'; subst hr'; exact ⟨by omega, hl⟩
  · simp only [hc, if_false, Option.isSome_none]
    refine ⟨?_, by intro r h; cases h⟩
    have h1 : 1 ≤ (badc a b 0).2 := by omega
    have : K * 1 ≤ K * (badc a b 0).2 := Nat.mul_le_mul_left K h1
    have : ¬ val a + val b < K := by omega
    simp [this]

/-! ### T04.7 in-place forms iterate over the receiver's limbs only -/

/-- exact UNDER the documented precondition `rhs` not wider than the receiver -/
theorem adc_assign_exact {self rhs : List Nat} (c : Nat) (h : rhs.length ≤ self.length) :
    val (adcAssign self rhs c).1 + B ^ self.length * (adcAssign self rhs c).2 = val self + val rhs + c ∧
    (adcAssign self rhs c).1.length = self.length := by
  unfold adcAssign
  have ⟨hv, hl⟩ := rhsFor_val h
  have e := uadc_spec self (rhsFor self rhs) c hl.symm
  rw [hv] at e
  exact ⟨e, uadc_length _ _ _ hl.symm⟩

theorem sbb_assign_exact {self rhs : List Nat} {bw : Nat} (hs : WF self) (hr : WF rhs) (hbw : bw < B)
    (h : rhs.length ≤ self.length) :
    val (sbbAssign self rhs bw).1 + (val rhs + bw / HALF) =
      val self + B ^ self.length * ((sbbAssign self rhs bw).2 / HALF) := by
  unfold sbbAssign
  have ⟨hv, hl⟩ := rhsFor_val h
  have e := (usbb_spec hs (rhsFor_WF hr) hbw hl.symm).1
  rw [hv] at e
  exact e

/-- `a += &b` either panics or returns the exact sum at the receiver's precision — for EVERY pair of
    precisions: a wider right-hand side is rejected by the (now unconditional) precision assertion. -/
theorem add_assign_spec {self rhs : List Nat} :
    ∀ r, boxedAddAssign self rhs = some r → val r = val self + val rhs ∧ r.length = self.length := by
  intro r hr
  unfold boxedAddAssign assignPanics at hr
  by_cases hw : self.length < rhs.length
  · simp [hw] at hr
  · have hle : rhs.length ≤ self.length := by omega
    have ⟨e, hl⟩ := adc_assign_exact (self := self) (rhs := rhs) 0 hle
    by_cases hc : (adcAssign self rhs 0).2 = 0
    · simp only [hw, decide_false, Bool.false_eq_true, if_false, hc, if_true, Option.some.injEq] at hr
      subst hr; rw [hc] at e; exact ⟨by omega, hl⟩
    · simp [hw, hc] at hr

/-- `a += &b` panics exactly when `b` is wider than `a` or the true sum does not fit `a`. -/
theorem add_assign_panics_iff {self rhs : List Nat} (hs : WF self) :
    boxedAddAssign self rhs = none ↔
      (self.length < rhs.length ∨ ¬ val self + val rhs < B ^ self.length) := by
  unfold boxedAddAssign assignPanics
  by_cases hw : self.length < rhs.length
  · simp [hw]
  · have hle : rhs.length ≤ self.length := by omega
    have ⟨e, hl⟩ := adc_assign_exact (self := self) (rhs := rhs) 0 hle
    have hwf : WF (adcAssign self rhs 0).1 := uadc_WF _ _ _
    have hr := val_lt hwf; rw [hl] at hr
    have hp := Bpow_pos self.length
    generalize B ^ self.length = K at *
    by_cases hc : (adcAssign self rhs 0).2 = 0
    · rw [hc] at e
      have : val self + val rhs < K := by omega
      simp [hw, hc, this]
    · have h1 : 1 ≤ (adcAssign self rhs 0).2 := by omega
      have : K * 1 ≤ K * (adcAssign self rhs 0).2 := Nat.mul_le_mul_left K h1
      have : ¬ val self + val rhs < K := by omega
      simp [hw, hc, this]

/-! ### T04.8 `Checked<T>`: once none, always none -/

theorem checked_sticky_add (b : Option (List Nat)) : checkedAddO none b = none := by
  cases b <;> rfl
theorem checked_sticky_sub (b : Option (List Nat)) : checkedSubO none b = none := by
  cases b <;> rfl
theorem checked_add_some_spec {a b r : List Nat} (ha : WF a) (hb : WF b) (h : a.length = b.length)
    (hr : checkedAddO (some a) (some b) = some r) : val r = val a + val b := by
  have ⟨hm, hv⟩ := checked_add_spec ha hb h
  unfold checkedAddO at hr
  by_cases hc : (checkedAdd a b).2 = WMAX
  · simp only [hc, if_true, Option.some.injEq] at hr
    subst hr
    apply hv
    rw [hm] at hc
    by_cases hlt : val a + val b < B ^ a.length
    · exact hlt
    · simp [hlt, mask] at hc; exact absurd hc (by decide)
  · simp [hc] at hr

/-! non-vacuity: the hypotheses are met by concrete non-trivial operands -/
example : WF [WMAX, WMAX] ∧ WF [1, 0] ∧ [WMAX, WMAX].length = [1, 0].length := by
  refine ⟨?_, ?_, rfl⟩ <;> intro x hx <;> simp at hx <;> rcases hx with h | h <;> (try subst h) <;> decide
example : (uadc [WMAX, WMAX] [1, 0] 0) = ([0, 0], 1) := by decide
example : (usbb [0, 0] [1, 0] 0) = ([WMAX, WMAX], WMAX) := by decide
example : (carryingNeg [0, 0]) = ([0, 0], WMAX) := by decide
example : badc [WMAX] [1, 5] 0 = ([0, 6], 0) ∧ bsbb [0] [1, 0] 0 = ([WMAX, WMAX], WMAX) := by decide
example : boxedAddAssign [WMAX, 0] [1] = some [0, 1] ∧ boxedAddAssign [0] [0, 1] = none := by decide

/-! ### T04.9 (coverage round) the remaining `Limb`, `Checked<T>` and `Wrapping<T>` forms -/

section coverage
open CB.WrapForms CB.NumTests

/-- `Wrapping<Limb>` `+=` / `-=` (by value and by reference) and `<Limb as WrappingNeg>::wrapping_neg`:
    the result modulo `2^64`. -/
theorem limb_wrapping_assign_spec {a b : Nat} (ha : a < B) (hb : b < B) :
    limbWrappingAddAssign a b = (a + b) % B ∧ limbWrappingSubAssign a b = (a + B - b) % B ∧
    limbWrappingNegTrait a = (B - a) % B := by
  refine ⟨rfl, ?_, ?_⟩
  · show (a + B - b % B) % B = _; rw [Nat.mod_eq_of_lt hb]
  · show (B - a % B) % B = _; rw [Nat.mod_eq_of_lt ha]

/-- `Checked<Limb>` `+=` / `-=`: some exactly when BOTH operands are some (none is sticky) and the true result is
    a word; then the value is exact. -/
theorem limb_checked_assign_spec {a b sa sb : Nat} (ha : a < B) (hb : b < B) (hsa : sa ≤ 1) (hsb : sb ≤ 1) :
    ((limbCheckedAddAssign (a, sa) (b, sb)).2 = (if sa = 1 ∧ sb = 1 ∧ a + b < B then 1 else 0) ∧
      (a + b < B → (limbCheckedAddAssign (a, sa) (b, sb)).1 = a + b)) ∧
    ((limbCheckedSubAssign (a, sa) (b, sb)).2 = (if sa = 1 ∧ sb = 1 ∧ b ≤ a then 1 else 0) ∧
      (b ≤ a → (limbCheckedSubAssign (a, sa) (b, sb)).1 = a - b)) := by
  have h1 := limbCheckedAddAssign_spec ha hb hsa hsb
  exact ⟨⟨h1.1, fun hlt => by rw [h1.2, Nat.mod_eq_of_lt hlt]⟩, limbCheckedSubAssign_spec ha hb hsa hsb⟩

/-- `Checked<T>::conditional_select` returns exactly the chosen operand — value and `is_some` together. -/
theorem checked_select_spec {a b : CtOpt} (p : Bool) (ha : WF a.1) (hb : WF b.1) (h : a.1.length = b.1.length)
    (hsa : a.2 ≤ 1) (hsb : b.2 ≤ 1) :
    ctoptSelect a b (if p then 1 else 0) = if p then b else a := ctoptSelect_spec p ha hb h hsa hsb

/-- `Checked<T>::ct_eq`: true exactly when both are none or both are some with the same value. -/
theorem checked_ct_eq_spec {a b : CtOpt} (ha : WF a.1) (hb : WF b.1) (h : a.1.length = b.1.length)
    (hsa : a.2 ≤ 1) (hsb : b.2 ≤ 1) :
    ctoptEq a b = if view a = view b then 1 else 0 := ctoptEq_spec ha hb h hsa hsb

/-- `Checked::default()` is `some 0`; the `From` conversions hand the option through unchanged. -/
theorem checked_default_conv_spec (n : Nat) (a : CtOpt) :
    view (checkedDefault n) = some 0 ∧ checkedToCtOption a = a ∧ checkedFromCtOption a = a ∧
    (checkedToOption a).map val = view a := by
  refine ⟨by simp [view, checkedDefault, val_uzero], rfl, rfl, ?_⟩
  unfold checkedToOption view
  by_cases h : a.2 = 1 <;> simp [h]

/-- `Wrapping<T>`: `conditional_select` returns the chosen operand, `ct_eq` / `is_zero` / `is_one` decide equality of
    the values with each other / with 0 / with 1, `zero()` and `one()` have the values 0 and 1. -/
theorem wrapping_ct_spec {a b : List Nat} (p : Bool) (ha : WF a) (hb : WF b) (h : a.length = b.length) (hne : a ≠ []) :
    wrappingSelect a b (if p then 1 else 0) = (if p then b else a) ∧
    wrappingCtEq a b = mask (decide (val a = val b)) ∧
    wrappingIsZero a = mask (decide (val a = 0)) ∧ wrappingIsOne a = mask (decide (val a = 1)) ∧
    val (wrappingZero a.length) = 0 ∧ val (wrappingOne a.length) = 1 := by
  obtain ⟨n, hn⟩ : ∃ n, a.length = n + 1 := by
    cases a with
    | nil => exact absurd rfl hne
    | cons x xs => exact ⟨xs.length, rfl⟩
  refine ⟨?_, ueq_spec ha hb h, isZeroNum_spec ha, isOneNum_spec ha hne, val_uzero _, by rw [hn]; exact val_uone n⟩
  unfold wrappingSelect
  rw [maskOfBit_bool, uselect_spec p ha hb h]

/-- `Wrapping<T>` formatting prints the inner value: `Display` / `UpperHex` / `LowerHex` are the `16·LIMBS` hex digits of
    the value, `Binary` its `64·LIMBS` bits (exactness of the inner formatters is C16). -/
theorem wrapping_fmt_spec (upper : Bool) {l : List Nat} (h : WF l) :
    wrappingFmtHex upper false l = Encoding.specHexText upper (16 * l.length) (val l) ∧
    wrappingFmtBin false l = Encoding.specBinText (64 * l.length) (val l) :=
  ⟨Encoding.fmtHex_spec upper h, Encoding.fmtBin_spec h⟩

example : ctoptSelect ([1, 2], 1) ([3, 4], 0) 1 = ([3, 4], 0) ∧ ctoptEq ([1, 2], 0) ([3, 4], 0) = 1 ∧
    ctoptEq ([1, 2], 1) ([1, 2], 0) = 0 ∧ ctoptEq ([1, 2], 1) ([1, 2], 1) = 1 := by decide
example : limbCheckedAddAssign (WMAX, 1) (1, 1) = (0, 0) ∧ limbCheckedAddAssign (5, 1) (7, 0) = (12, 0) ∧
    limbCheckedSubAssign (7, 1) (5, 1) = (2, 1) := by decide
example : wrappingIsOne [1, 0] = WMAX ∧ wrappingIsOne [1, 1] = 0 ∧ wrappingIsZero [0, 1] = 0 := by decide

end coverage

end CB.P04
