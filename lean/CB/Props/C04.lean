/-
  C04 — Addition, subtraction, negation: exact result and exact carry / overflow report.
  Property theorems only (helper lemmas live in CB/Lemmas).  Every theorem quantifies over all
  limb counts (list lengths) and all operand values.
-/
import CB.Lemmas.AddSub
namespace CB.P04
open CB

/-- T04.1 `adc` is exact for EVERY carry-in word (no bound on the carry needed). -/
theorem adc_exact (a b c : Nat) :
    (adc a b c).1 + B * (adc a b c).2 = a + b + c ∧ (adc a b c).1 < B := adc_spec a b c

/-- T04.2 `sbb`: only the top bit of the incoming borrow word counts; outgoing borrow is a mask. -/
theorem sbb_exact {a b bw : Nat} (ha : a < B) (hb : b < B) (hbw : bw < B) :
    (sbb a b bw).1 < B ∧ ((sbb a b bw).2 = 0 ∨ (sbb a b bw).2 = WMAX) ∧
    (sbb a b bw).1 + (b + bw / HALF) = a + B * ((sbb a b bw).2 / HALF) := sbb_spec ha hb hbw

/-- T04.1m `mac`: `a + b*c + carry` exactly; the final `hi.wrapping_add(c)` never wraps. -/
theorem mac_exact {a b c carry : Nat} (ha : a < B) (hb : b < B) (hc : c < B) (hk : carry < B) :
    (mac a b c carry).1 + B * (mac a b c carry).2 = a + b * c + carry ∧
    (mac a b c carry).1 < B ∧ (mac a b c carry).2 < B := mac_spec ha hb hc hk

/-- T04.3a limb chain `Uint::adc`, all limb counts, every carry-in. -/
theorem uint_adc_exact (a b : List Nat) (c : Nat) (h : a.length = b.length) :
    val (uadc a b c).1 + B ^ a.length * (uadc a b c).2 = val a + val b + c ∧
    (uadc a b c).1.length = a.length ∧ WF (uadc a b c).1 :=
  ⟨uadc_spec a b c h, uadc_length a b c h, uadc_WF a b c⟩

/-- T04.3b limb chain `Uint::sbb`, all limb counts, every borrow-in word. -/
theorem uint_sbb_exact {a b : List Nat} {bw : Nat} (ha : WF a) (hb : WF b) (hbw : bw < B)
    (h : a.length = b.length) :
    val (usbb a b bw).1 + (val b + bw / HALF) = val a + B ^ a.length * ((usbb a b bw).2 / HALF) ∧
    (a ≠ [] → (usbb a b bw).2 = 0 ∨ (usbb a b bw).2 = WMAX) ∧
    (usbb a b bw).1.length = a.length ∧ WF (usbb a b bw).1 :=
  ⟨(usbb_spec ha hb hbw h).1, (usbb_spec ha hb hbw h).2.2, usbb_length a b bw h, usbb_WF a b bw⟩

/-- T04.5 wrapping addition = sum mod 2^BITS. -/
theorem wrapping_add_spec {a b : List Nat} (h : a.length = b.length) :
    val (wrappingAdd a b) = (val a + val b) % B ^ a.length := (add_value_carry h).1

/-- T04.5 checked addition: `is_some` exactly when the true sum fits; then the value is the sum. -/
theorem checked_add_spec {a b : List Nat} (ha : WF a) (hb : WF b) (h : a.length = b.length) :
    (checkedAdd a b).2 = mask (decide (val a + val b < B ^ a.length)) ∧
    (val a + val b < B ^ a.length → val (checkedAdd a b).1 = val a + val b) := by
  have ⟨hv, hc⟩ := add_value_carry h
  have hc1 := uadc_carry_le_one ha hb (Nat.le_of_lt Nat.zero_lt_one)
  have hcB : (uadc a b 0).2 < B := Nat.lt_of_le_of_lt hc1 (by decide)
  refine ⟨?_, ?_⟩
  · show fromWordEq (uadc a b 0).2 0 = _
    rw [fromWordEq_spec hcB (by decide)]
    congr 1
    rw [hc]
    have : ((val a + val b) / B ^ a.length = 0) ↔ val a + val b < B ^ a.length :=
      Nat.div_eq_zero_iff_lt (Bpow_pos _)
    simp [this]
  · intro hlt
    show val (uadc a b 0).1 = _
    rw [hv, Nat.mod_eq_of_lt hlt]

/-- T04.5 saturating addition returns MAX exactly on overflow, else the sum. -/
theorem saturating_add_spec {a b : List Nat} (ha : WF a) (hb : WF b) (h : a.length = b.length) :
    val (saturatingAdd a b) = min (val a + val b) (B ^ a.length - 1) := by
  have ⟨hv, hc⟩ := add_value_carry h
  have hc1 := uadc_carry_le_one ha hb (Nat.le_of_lt Nat.zero_lt_one)
  have hl := uadc_length a b 0 h
  have hsum : val a + val b < 2 * B ^ a.length := by
    have := val_lt ha; have := val_lt hb; rw [← h] at this; omega
  have hm := val_umax a.length
  by_cases hov : val a + val b < B ^ a.length
  · have hz : (uadc a b 0).2 = 0 := by rw [hc]; exact Nat.div_eq_of_lt hov
    have : fromWordLsb (uadc a b 0).2 = mask false := by rw [hz]; decide
    show val (uselect (uadc a b 0).1 (umax a.length) (fromWordLsb (uadc a b 0).2)) = _
    rw [this, uselect_spec false (uadc_WF a b 0) (umax_WF _) (by simp [hl, umax])]
    simp only [Bool.false_eq_true, if_false]
    rw [hv, Nat.mod_eq_of_lt hov]; omega
  · have hz : (uadc a b 0).2 = 1 := by
      have : 1 ≤ (uadc a b 0).2 := by
        rw [hc]; exact (Nat.le_div_iff_mul_le (Bpow_pos _)).mpr (by omega)
      omega
    have : fromWordLsb (uadc a b 0).2 = mask true := by rw [hz]; decide
    show val (uselect (uadc a b 0).1 (umax a.length) (fromWordLsb (uadc a b 0).2)) = _
    rw [this, uselect_spec true (uadc_WF a b 0) (umax_WF _) (by simp [hl, umax])]
    simp only [if_true]
    omega

/-- T04.5 wrapping subtraction = difference mod 2^BITS. -/
theorem wrapping_sub_spec {a b : List Nat} (ha : WF a) (hb : WF b) (h : a.length = b.length) :
    val (wrappingSub a b) = (val a + B ^ a.length - val b) % B ^ a.length := by
  have ⟨_, hv⟩ := sub_value_borrow ha hb h
  have hva := val_lt ha
  have hvb := val_lt hb; rw [← h] at hvb
  show val (usbb a b 0).1 = _
  rw [hv]
  by_cases hlt : val a < val b
  · simp only [hlt, if_true]; rw [Nat.mod_eq_of_lt (by omega)]
  · simp only [hlt, if_false]
    have : val a + B ^ a.length - val b = (val a - val b) + B ^ a.length := by omega
    rw [this, Nat.add_mod_right, Nat.mod_eq_of_lt (by omega)]

/-- T04.5 checked subtraction: `is_some` exactly when `b ≤ a`; then the value is `a - b`. -/
theorem checked_sub_spec {a b : List Nat} (ha : WF a) (hb : WF b) (h : a.length = b.length) :
    (checkedSub a b).2 = mask (decide (val b ≤ val a)) ∧
    (val b ≤ val a → val (checkedSub a b).1 = val a - val b) := by
  have ⟨hbw, hv⟩ := sub_value_borrow ha hb h
  refine ⟨?_, ?_⟩
  · show fromWordEq (usbb a b 0).2 0 = _
    rw [hbw, fromWordEq_spec (by unfold mask; split <;> decide) (by decide)]
    by_cases hlt : val a < val b
    · have : ¬ val b ≤ val a := by omega
      simp [hlt, this, mask]
    · have : val b ≤ val a := by omega
      simp [hlt, this, mask]
  · intro hle
    show val (usbb a b 0).1 = _
    rw [hv]; simp [show ¬ val a < val b by omega]

/-- T04.5 saturating subtraction returns 0 exactly on underflow (= truncated subtraction). -/
theorem saturating_sub_spec {a b : List Nat} (ha : WF a) (hb : WF b) (h : a.length = b.length) :
    val (saturatingSub a b) = val a - val b := by
  have ⟨hbw, hv⟩ := sub_value_borrow ha hb h
  have hl := usbb_length a b 0 h
  show val (uselect (usbb a b 0).1 (uzero a.length) (fromWordMask (usbb a b 0).2)) = _
  rw [fromWordMask, hbw, uselect_spec _ (usbb_WF a b 0) (uzero_WF _) (by simp [hl, uzero])]
  by_cases hlt : val a < val b
  · simp only [hlt, decide_true, if_true, val_uzero]; omega
  · simp only [hlt, decide_false, Bool.false_eq_true, if_false, hv]

/-- T04.4 negation: two's complement value, and the carry is set exactly for zero. -/
theorem carrying_neg_spec {a : List Nat} (ha : WF a) :
    val (carryingNeg a).1 = (B ^ a.length - val a) % B ^ a.length ∧
    (carryingNeg a).2 = mask (decide (val a = 0)) ∧
    (carryingNeg a).1.length = a.length ∧ WF (carryingNeg a).1 := by
  have ⟨e, hc, hw, hl⟩ := negLoop_spec ha (Nat.le_refl 1)
  have hr := val_lt hw; rw [hl] at hr
  have hva := val_lt ha
  have hp := Bpow_pos a.length
  show val (negLoop a 1).1 = _ ∧ fromWordLsb (negLoop a 1).2 = _ ∧ (negLoop a 1).1.length = _ ∧ WF (negLoop a 1).1
  refine ⟨?_, ?_, hl, hw⟩
  · by_cases hz : val a = 0
    · rw [hz, Nat.sub_zero, Nat.mod_self]
      have : (negLoop a 1).2 = 1 ∨ (negLoop a 1).2 = 0 := by omega
      rcases this with h1 | h1 <;> rw [h1, hz] at e <;> omega
    · have : (negLoop a 1).2 = 0 := by
        rcases (show (negLoop a 1).2 = 1 ∨ (negLoop a 1).2 = 0 by omega) with h1 | h1
        · rw [h1] at e; omega
        · exact h1
      rw [this] at e
      rw [Nat.mod_eq_of_lt (by omega)]; omega
  · by_cases hz : val a = 0
    · have : (negLoop a 1).2 = 1 := by
        rcases (show (negLoop a 1).2 = 1 ∨ (negLoop a 1).2 = 0 by omega) with h1 | h1
        · exact h1
        · rw [h1, hz] at e; omega
      rw [this]; simp [hz, mask]; decide
    · have : (negLoop a 1).2 = 0 := by
        rcases (show (negLoop a 1).2 = 1 ∨ (negLoop a 1).2 = 0 by omega) with h1 | h1
        · rw [h1] at e; omega
        · exact h1
      rw [this]; simp [hz, mask]; decide

/-- T04.4 conditional negation returns exactly `a` or `-a mod 2^BITS`. -/
theorem wrapping_neg_if_spec {a : List Nat} (p : Bool) (ha : WF a) :
    val (wrappingNegIf a (mask p)) = if p then (B ^ a.length - val a) % B ^ a.length else val a := by
  have ⟨hv, _, hl, hw⟩ := carrying_neg_spec ha
  show val (uselect a (carryingNeg a).1 (mask p)) = _
  rw [uselect_spec p ha hw hl.symm]
  cases p <;> simp [hv]

/-! non-vacuity: the hypotheses are met by concrete non-trivial operands -/
example : WF [WMAX, WMAX] ∧ WF [1, 0] ∧ [WMAX, WMAX].length = [1, 0].length := by
  refine ⟨?_, ?_, rfl⟩ <;> intro x hx <;> simp at hx <;> rcases hx with h | h <;> (try subst h) <;> decide
example : (uadc [WMAX, WMAX] [1, 0] 0) = ([0, 0], 1) := by decide
example : (usbb [0, 0] [1, 0] 0) = ([WMAX, WMAX], WMAX) := by decide
example : (carryingNeg [0, 0]) = ([0, 0], WMAX) := by decide

end CB.P04
