/-
  C01 — Secret-independent execution of every operation not marked vartime.   (claimed: PARTIAL)

  What is proved here: noninterference of the LEAKAGE MODEL (`CB/Model/Leak.lean`, `CB/Model/LeakOps.lean`).
  The model re-expresses the crate's limb-level algorithms over an abstract secret word `Sec` whose only
  operations are the constant-time word instructions; a secret can reach control flow, a memory index, a
  hardware division or a public value only through `branchOn / indexBy / divBy / declassify`, each of which
  leaves an event carrying the secret-derived value in the trace.

  * T01.1 (`*_ni`): for every modelled non-vartime operation, for EVERY limb count `n` and every pair of
    secret operand assignments, the two leakage traces are equal.
  * T01.2 (`*_trace_pub`): for the `_vartime` operations the trace is the same for all secret operands once
    the documented-public operand (shift amount, bit index, `k`, `exponent_bits`) is fixed — and the
    accompanying `example`s show that it really varies with that operand.
  * T01.3 (`*_leaks`, proved by evaluation on a concrete pair): the model is not blind — an early-exit
    comparison, `cmp_vartime`, `bits_vartime`, a direct table index, the run-time `%` of the boxed shift and
    the inner loop of safegcd `jump` all have secret-dependent traces.

  What is NOT proved here, and cannot be: that rustc/LLVM keeps a mask-select a mask-select.  The model says
  "the source, read as straight-line word arithmetic, has no secret-dependent branch"; the optimized binary
  is OBSERVED by `tools/check_c01.py` (valgrind lackey traces of the opt-level-3 build), and that observation
  found branches the compiler introduced in `div_rem`, `neg_mod`, the `pow` table lookup (known findings
  C01-*).  The model is hand-written; it is not mechanically derived from the Rust source.  Precondition
  checks (`expect`/`assert!` on facts that hold for every valid input, e.g. "divisor non-zero") are not
  modelled.

  Property theorems only; the trace calculus and one `_tr` lemma per function live in CB/Lemmas/C01Leak.lean.
-/
import CB.Lemmas.C01Leak
namespace CB.P01
open CB CB.Leak CB.Leak.Sec

/-! ## T01.1 — noninterference of the non-vartime operations, all limb counts -/

/-- `Limb::ct_eq` -/
theorem limb_eq_ni (a₁ b₁ a₂ b₂ : Sec) : (limbEq a₁ b₁).tr = (limbEq a₂ b₂).tr := by simp
/-- `Limb::ct_lt` / `ct_gt` -/
theorem limb_lt_ni (a₁ b₁ a₂ b₂ : Sec) : (limbLt a₁ b₁).tr = (limbLt a₂ b₂).tr := by simp
/-- `Limb::select` -/
theorem limb_select_ni (a₁ b₁ c₁ a₂ b₂ c₂ : Sec) : (limbSelect a₁ b₁ c₁).tr = (limbSelect a₂ b₂ c₂).tr := by simp
/-- `Limb::adc` -/
theorem limb_adc_ni (a₁ b₁ c₁ a₂ b₂ c₂ : Sec) : (limbAdc a₁ b₁ c₁).tr = (limbAdc a₂ b₂ c₂).tr := by simp
/-- `Limb::sbb` -/
theorem limb_sbb_ni (a₁ b₁ c₁ a₂ b₂ c₂ : Sec) : (limbSbb a₁ b₁ c₁).tr = (limbSbb a₂ b₂ c₂).tr := by simp
/-- `Limb::mac` -/
theorem limb_mac_ni (a₁ b₁ c₁ d₁ a₂ b₂ c₂ d₂ : Sec) : (limbMac a₁ b₁ c₁ d₁).tr = (limbMac a₂ b₂ c₂ d₂).tr := by simp
/-- `Limb::bits` / `leading_zeros` -/
theorem limb_bits_ni (a₁ a₂ : Sec) : (limbBits a₁).tr = (limbBits a₂).tr := by simp

/-- `Uint::select` / `ConditionallySelectable` -/
theorem uint_select_ni (n : Nat) (a₁ b₁ a₂ b₂ : List Sec) (c₁ c₂ : Sec) :
    (uselect n a₁ b₁ c₁).tr = (uselect n a₂ b₂ c₂).tr := by simp
/-- `Uint::is_nonzero` / `is_zero` -/
theorem uint_is_nonzero_ni (n : Nat) (a₁ a₂ : List Sec) : (isNonzero n a₁).tr = (isNonzero n a₂).tr := by simp
/-- `Uint::eq` / `ct_eq` / `==` -/
theorem uint_eq_ni (n : Nat) (a₁ b₁ a₂ b₂ : List Sec) : (ueq n a₁ b₁).tr = (ueq n a₂ b₂).tr := by simp
/-- `Uint::lt` / `ct_lt` -/
theorem uint_lt_ni (n : Nat) (a₁ b₁ a₂ b₂ : List Sec) : (ult n a₁ b₁).tr = (ult n a₂ b₂).tr := by simp
/-- `Uint::gt` / `ct_gt` -/
theorem uint_gt_ni (n : Nat) (a₁ b₁ a₂ b₂ : List Sec) : (ugt n a₁ b₁).tr = (ugt n a₂ b₂).tr := by simp
/-- `Uint::cmp` / `Ord::cmp` -/
theorem uint_cmp_ni (n : Nat) (a₁ b₁ a₂ b₂ : List Sec) : (ucmp n a₁ b₁).tr = (ucmp n a₂ b₂).tr := by simp
/-- `Uint::adc` (and `wrapping_add`, `checked_add`, `saturating_add` on top of it) -/
theorem uint_adc_ni (n : Nat) (a₁ b₁ a₂ b₂ : List Sec) (c₁ c₂ : Sec) :
    (uadc n a₁ b₁ c₁).tr = (uadc n a₂ b₂ c₂).tr := by simp
/-- `Uint::sbb` (and `wrapping_sub`, …) -/
theorem uint_sbb_ni (n : Nat) (a₁ b₁ a₂ b₂ : List Sec) (c₁ c₂ : Sec) :
    (usbb n a₁ b₁ c₁).tr = (usbb n a₂ b₂ c₂).tr := by simp
/-- `Uint::carrying_neg` / `wrapping_neg` -/
theorem uint_neg_ni (n : Nat) (a₁ a₂ : List Sec) : (uneg n a₁).tr = (uneg n a₂).tr := by simp

/-- `Uint::overflowing_shl` / `shl` / `wrapping_shl` with a SECRET shift: the ladder of public shifts -/
theorem uint_shl_ni (n : Nat) (a₁ a₂ : List Sec) (s₁ s₂ : Sec) :
    (overflowingShl n a₁ s₁).tr = (overflowingShl n a₂ s₂).tr := by simp
/-- `Uint::overflowing_shr` / `shr` / `wrapping_shr` with a SECRET shift -/
theorem uint_shr_ni (n : Nat) (a₁ a₂ : List Sec) (s₁ s₂ : Sec) :
    (overflowingShr n a₁ s₁).tr = (overflowingShr n a₂ s₂).tr := by simp
/-- `Uint::shl_limb` with a SECRET sub-limb shift (zero-shift masked by `nz`) -/
theorem uint_shl_limb_ni (n : Nat) (a₁ a₂ : List Sec) (s₁ s₂ : Sec) :
    (shlLimb n a₁ s₁).tr = (shlLimb n a₂ s₂).tr := by simp
/-- `Uint::shr1` -/
theorem uint_shr1_ni (n : Nat) (a₁ a₂ : List Sec) : (shr1 n a₁).tr = (shr1 n a₂).tr := by simp

/-- `Uint::bit` with a SECRET index -/
theorem uint_bit_ni (n : Nat) (a₁ a₂ : List Sec) (i₁ i₂ : Sec) : (bit n a₁ i₁).tr = (bit n a₂ i₂).tr := by simp
/-- `Uint::set_bit` with SECRET index and value -/
theorem uint_set_bit_ni (n : Nat) (a₁ a₂ : List Sec) (i₁ i₂ v₁ v₂ : Sec) :
    (setBit n a₁ i₁ v₁).tr = (setBit n a₂ i₂ v₂).tr := by simp
/-- `Uint::leading_zeros` -/
theorem uint_leading_zeros_ni (n : Nat) (a₁ a₂ : List Sec) : (leadingZeros n a₁).tr = (leadingZeros n a₂).tr := by simp
/-- `Uint::trailing_zeros` / `trailing_ones` -/
theorem uint_trailing_zeros_ni (n : Nat) (a₁ a₂ : List Sec) : (trailingZeros n a₁).tr = (trailingZeros n a₂).tr := by simp
/-- `Uint::bits` -/
theorem uint_bits_ni (n : Nat) (a₁ a₂ : List Sec) : (bits n a₁).tr = (bits n a₂).tr := by simp

/-- `Uint::add_mod` (modulus secret too) -/
theorem uint_add_mod_ni (n : Nat) (a₁ b₁ p₁ a₂ b₂ p₂ : List Sec) :
    (addMod n a₁ b₁ p₁).tr = (addMod n a₂ b₂ p₂).tr := by simp
/-- `Uint::sub_mod` -/
theorem uint_sub_mod_ni (n : Nat) (a₁ b₁ p₁ a₂ b₂ p₂ : List Sec) :
    (subMod n a₁ b₁ p₁).tr = (subMod n a₂ b₂ p₂).tr := by simp
/-- `Uint::neg_mod`: the zero test is a mask at source level (the opt-level-3 build branches on it: finding
C01-neg-mod-zero-branch — the model cannot see that, the binary observation does) -/
theorem uint_neg_mod_ni (n : Nat) (a₁ p₁ a₂ p₂ : List Sec) : (negMod n a₁ p₁).tr = (negMod n a₂ p₂).tr := by simp

/-- schoolbook multiplication `n × m` limbs (`split_mul`, `wrapping_mul`, `checked_mul`) -/
theorem uint_mul_ni (n m : Nat) (a₁ b₁ a₂ b₂ : List Sec) :
    (mulSchoolbook n m a₁ b₁).tr = (mulSchoolbook n m a₂ b₂).tr := by simp

/-- `reciprocal` (Möller–Granlund; `short_div` has a constant trip count) -/
theorem reciprocal_ni (d₁ d₂ : Sec) : (reciprocal d₁).tr = (reciprocal d₂).tr := by simp
/-- `div3by2`: both correction rounds always run -/
theorem div3by2_ni (a₁ b₁ c₁ d₁ e₁ f₁ a₂ b₂ c₂ d₂ e₂ f₂ : Sec) :
    (div3by2 a₁ b₁ c₁ d₁ e₁ f₁).tr = (div3by2 a₂ b₂ c₂ d₂ e₂ f₂).tr := by simp
/-- `Uint::div_rem_limb` / `rem_limb` (divisor limb secret) -/
theorem uint_div_rem_limb_ni (n : Nat) (u₁ u₂ : List Sec) (d₁ d₂ : Sec) :
    (divRemLimb n u₁ d₁).tr = (divRemLimb n u₂ d₂).tr := by simp
/-- `Uint::div_rem` / `rem` / `wrapping_div` / `checked_div`: the constant-time Knuth loop — fixed trip count,
`done` / `ct_borrow` / `limb_div` / `from_u32_lt(i, dwords)` are masks; the divisor's bit length only feeds
ladders and masks (at source level; the opt-level-3 build branches on them: finding
C01-div-rem-compiled-branches) -/
theorem uint_div_rem_ni (n : Nat) (a₁ d₁ a₂ d₂ : List Sec) : (divRem n a₁ d₁).tr = (divRem n a₂ d₂).tr := by simp

/-- `Uint::inv_mod2k(k)` with SECRET `k`: `BITS` iterations, the surplus ones are dummies -/
theorem uint_inv_mod2k_ni (n : Nat) (a₁ a₂ : List Sec) (k₁ k₂ : Sec) :
    (invMod2k n a₁ k₁).tr = (invMod2k n a₂ k₂).tr := by simp

/-- `montgomery_reduction` -/
theorem montgomery_reduction_ni (n : Nat) (l₁ u₁ m₁ l₂ u₂ m₂ : List Sec) (v₁ v₂ : Sec) :
    (montgomeryReduction n l₁ u₁ m₁ v₁).tr = (montgomeryReduction n l₂ u₂ m₂ v₂).tr := by simp
/-- `mul_montgomery_form` (MontyForm / ConstMontyForm `mul`, `square`; here even the modulus is secret) -/
theorem monty_mul_ni (n : Nat) (a₁ b₁ m₁ a₂ b₂ m₂ : List Sec) (v₁ v₂ : Sec) :
    (mulMont n a₁ b₁ m₁ v₁).tr = (mulMont n a₂ b₂ m₂ v₂).tr := by simp
/-- the masked table lookup of `pow`: all 16 entries read, the window value only enters masks -/
theorem pow_lookup_ni (n : Nat) (p₁ p₂ : List (List Sec)) (i₁ i₂ : Sec) :
    (powLookup n p₁ i₁).tr = (powLookup n p₂ i₂).tr := by simp
/-- `MontyForm::pow` / `ConstMontyForm::pow` (full-width exponent): base, exponent (and modulus) secret -/
theorem pow_ni (n : Nat) (x₁ e₁ m₁ o₁ x₂ e₂ m₂ o₂ : List Sec) (v₁ v₂ : Sec) :
    (pow n x₁ e₁ m₁ o₁ v₁).tr = (pow n x₂ e₂ m₂ o₂ v₂).tr := by simp

/-- `Uint::sqrt` (constant-time variant): `LOG2_BITS + 2` Newton rounds of constant-time division -/
theorem uint_sqrt_ni (n : Nat) (a₁ a₂ : List Sec) : (sqrt n a₁).tr = (sqrt n a₂).tr := by simp

/-- `BoxedUint::ct_select` -/
theorem boxed_select_ni (n : Nat) (a₁ b₁ a₂ b₂ : List Sec) (c₁ c₂ : Sec) :
    (boxedCtSelect n a₁ b₁ c₁).tr = (boxedCtSelect n a₂ b₂ c₂).tr := by simp [boxedCtSelect]
/-- `BoxedUint::ct_assign` -/
theorem boxed_assign_ni (n : Nat) (a₁ b₁ a₂ b₂ : List Sec) (c₁ c₂ : Sec) :
    (boxedCtAssign n a₁ b₁ c₁).tr = (boxedCtAssign n a₂ b₂ c₂).tr := by simp
/-- `BoxedUint::ct_swap` -/
theorem boxed_swap_ni (n : Nat) (a₁ b₁ a₂ b₂ : List Sec) (c₁ c₂ : Sec) :
    (boxedCtSwap n a₁ b₁ c₁).tr = (boxedCtSwap n a₂ b₂ c₂).tr := by simp

/-! ## T01.2 — `_vartime` operations: the trace is a function of the documented-public operand only -/

/-- `shl_vartime(shift)`: for a fixed shift the trace does not depend on the value -/
theorem shl_vartime_trace_pub (n shift : Nat) (a₁ a₂ : List Sec) :
    (shlVartime n a₁ shift).tr = (shlVartime n a₂ shift).tr := by simp
/-- `shr_vartime(shift)` -/
theorem shr_vartime_trace_pub (n shift : Nat) (a₁ a₂ : List Sec) :
    (shrVartime n a₁ shift).tr = (shrVartime n a₂ shift).tr := by simp
/-- `bit_vartime(index)` -/
theorem bit_vartime_trace_pub (n index : Nat) (a₁ a₂ : List Sec) :
    (bitVartime n a₁ index).tr = (bitVartime n a₂ index).tr := by simp
/-- `inv_mod2k_vartime(k)` -/
theorem inv_mod2k_vartime_trace_pub (n k : Nat) (a₁ a₂ : List Sec) :
    (invMod2kVartime n a₁ k).tr = (invMod2kVartime n a₂ k).tr := by simp
/-- `pow_bounded_exp(exponent, exponent_bits)`: base and exponent secret, `exponent_bits` public -/
theorem pow_bounded_exp_trace_pub (n ebits : Nat) (x₁ e₁ m₁ o₁ x₂ e₂ m₂ o₂ : List Sec) (v₁ v₂ : Sec) :
    (powBoundedExp n x₁ e₁ ebits m₁ o₁ v₁).tr = (powBoundedExp n x₂ e₂ ebits m₂ o₂ v₂).tr := by simp

-- … and the public operand really shows (the statements above are not vacuous "trace = []"):
example : (shlVartime 2 [] 1).tr ≠ (shlVartime 2 [] 64).tr := by decide
example : (shrVartime 2 [] 1).tr ≠ (shrVartime 2 [] 65).tr := by decide
example : (bitVartime 2 [] 3).tr ≠ (bitVartime 2 [] 64).tr := by decide
example : (invMod2kVartime 1 [] 1).tr ≠ (invMod2kVartime 1 [] 2).tr := by decide
example : (powBoundedExp 1 [] [] 4 [] [] zero).tr ≠ (powBoundedExp 1 [] [] 5 [] [] zero).tr := by decide +kernel
example : (uselect 3 [ofNat 1, ofNat 2, ofNat 3] [] max).tr = [.pubIndex 0, .pubIndex 1, .pubIndex 2] := by decide
example : (powBoundedExp 1 [] [] 0 [] [] zero).tr ≠ (powBoundedExp 1 [] [] 1 [] [] zero).tr := by decide +kernel
example : (divRem 2 [ofNat 7, ofNat 9] [ofNat 3]).tr.length = 220 := by decide +kernel

/-! ## T01.3 — the model catches secret-dependent control flow, addressing and division operands -/

/-- An equality test that returns at the first differing limb has different traces for equal and for
unequal operands. -/
theorem eq_early_exit_leaks :
    (eqEarlyExit 2 [ofNat 1, ofNat 2] [ofNat 1, ofNat 2]).tr ≠ (eqEarlyExit 2 [ofNat 1, ofNat 2] [ofNat 5, ofNat 2]).tr := by
  decide

/-- `Uint::cmp_vartime` (documented variable-time in both operands): the number of limbs scanned shows. -/
theorem cmp_vartime_leaks :
    (cmpVartime 2 [ofNat 1, ofNat 2] [ofNat 1, ofNat 2]).tr ≠ (cmpVartime 2 [ofNat 1, ofNat 2] [ofNat 1, ofNat 3]).tr := by
  decide

/-- `Uint::bits_vartime` (documented variable-time in `self`) -/
theorem bits_vartime_leaks :
    (bitsVartime 2 [ofNat 1, ofNat 0]).tr ≠ (bitsVartime 2 [ofNat 1, ofNat 1]).tr := by decide

/-- indexing the table of powers directly by the secret window (what `pow` must not do) -/
theorem pow_lookup_leaky_leaks :
    (powLookupLeaky [] (ofNat 3)).tr ≠ (powLookupLeaky [] (ofNat 4)).tr := by decide

/-- `BoxedUint::overflowing_shl_assign` as written: `shift % self.bits_precision()` with a run-time precision
feeds the SECRET shift to a hardware division (finding C01-boxed-shift-modulo-hw-div); `Uint` does not, its
`BITS` is a compile-time constant (`uint_shl_ni`). -/
theorem boxed_shl_feeds_secret_to_div :
    (boxedOverflowingShl 1 [ofNat 1] (ofNat 0)).tr ≠ (boxedOverflowingShl 1 [ofNat 1] (ofNat 1)).tr := by decide

/-- safegcd `jump` (behind the NON-vartime `inv_mod`, `inv_odd_mod`, `gcd`, `MontyForm::inv`): the trip count
follows the trailing zeros of `g` and the body branches on the sign of `delta`
(finding C01-safegcd-jump-vartime; the anchor of the property names exactly this loop). -/
theorem jump_leaks : (jump (ofNat 1) (ofNat 2) one).tr ≠ (jump (ofNat 1) (ofNat 4) one).tr := by decide

/-! ## the instrumented model computes what the crate computes (samples; `reveal` is used ONLY here) -/

private def toN (l : List Sec) : Nat := val (l.map Sec.reveal)
private def ofN (n x : Nat) : List Sec := (toLimbs n x).map Sec.ofNat

example : toN (divRem 2 (ofN 2 123456789012345678901234567890) (ofN 2 98765432109876543)).val.1
    = 123456789012345678901234567890 / 98765432109876543 := by decide +kernel
example : toN (divRem 2 (ofN 2 123456789012345678901234567890) (ofN 2 98765432109876543)).val.2
    = 123456789012345678901234567890 % 98765432109876543 := by decide +kernel
example : toN (sqrt 2 (ofN 2 (10 ^ 30))).val = 10 ^ 15 := by decide +kernel
example : toN (overflowingShl 2 (ofN 2 12345) (ofNat 70)).val.1 = 12345 * 2 ^ 70 := by decide +kernel
example : toN (invMod2k 2 (ofN 2 12345) (ofNat 100)).val.1 * 12345 % 2 ^ 100 = 1 := by decide +kernel
example : (bit 2 (ofN 2 (2 ^ 70)) (ofNat 70)).val.reveal = WMAX := by decide +kernel
-- Montgomery exponentiation: modulus m = 2^127 - 25, R = 2^128; operands in Montgomery form; result = x^e·R mod m
example : toN (powBoundedExp 2 (ofN 2 6172839456172839456172839450) (ofN 2 1051570404360395033547316) 80 (ofN 2 170141183460469231731687303715884105703) (ofN 2 50) (ofNat 10330176681277348905)).val
    = 105763472912920239630218373136686542717 := by decide +kernel
example : toN (powBoundedExp 2 (ofN 2 6172839456172839456172839450) (ofN 2 1051570404360395033547316) 13 (ofN 2 170141183460469231731687303715884105703) (ofN 2 50) (ofNat 10330176681277348905)).val
    = 53920603389226841134055357806869035313 := by decide +kernel
example : toN (addMod 2 (ofN 2 90) (ofN 2 20) (ofN 2 97)).val = 13 := by decide +kernel
example : toN (negMod 2 (ofN 2 0) (ofN 2 97)).val = 0 := by decide +kernel
example : (divRemLimb 2 (ofN 2 (2 ^ 127 + 12345)) (ofNat 77)).val.2.reveal = (2 ^ 127 + 12345) % 77 := by decide +kernel

end CB.P01
