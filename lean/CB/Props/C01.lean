/-
  C01 — Secret-independent execution of every operation not marked vartime.   (claimed: PARTIAL)

  What is proved here: noninterference of the LEAKAGE MODEL (`CB/Model/Leak.lean`, `CB/Model/LeakOps.lean`).
  The model re-expresses the crate's limb-level algorithms over an abstract secret word `Sec` whose only
  operations are the constant-time word instructions; a secret can reach control flow, a memory index, a
  hardware division or a public value only through `branchOn / indexBy / divBy / declassify`, each of which
  leaves an event carrying the secret-derived value in the trace.

  * T01.1 (`*_ni`): for every modelled non-vartime operation, for EVERY limb count `n` and every pair of
    secret operand assignments, the two leakage traces are equal.
  * T01.2 (`*_trace_pub`): for the `_vartime` operations the trace is the same for all secret operands once
    the documented-public operand (shift amount, bit index, `k`, `exponent_bits`) is fixed — and the
    accompanying `example`s show that it really varies with that operand.
  * T01.3 (`*_leaks`, proved by evaluation on a concrete pair): the model is not blind — an early-exit
    comparison, `cmp_vartime`, `bits_vartime`, a direct table index, the run-time `%` of the boxed shift and
    the inner loop of safegcd `jump` all have secret-dependent traces.

  What is NOT proved here, and cannot be: that rustc/LLVM keeps a mask-select a mask-select.  The model says
  "the source, read as straight-line word arithmetic, has no secret-dependent branch"; the optimized binary
  is OBSERVED by `tools/check_c01.py` (valgrind lackey traces of the opt-level-3 build), and that observation
  found branches the compiler introduced in `div_rem`, `neg_mod`, the `pow` table lookup (known findings
  C01-*).  The model is hand-written; it is not mechanically derived from the Rust source.  Precondition
  checks (`expect`/`assert!` on facts that hold for every valid input, e.g. "divisor non-zero") are not
  modelled.

  Property theorems only; the trace calculus and one `_tr` lemma per function live in CB/Lemmas/C01Leak.lean.
-/
import CB.Lemmas.C01Leak
import CB.Lemmas.C01Leak2
import CB.Lemmas.C01Leak3
import CB.Lemmas.C01Leak4
import CB.Lemmas.C01Leak5
import CB.Lemmas.C01Leak6
import CB.Model.Extracted
namespace CB.P01
open CB CB.Leak CB.Leak.Sec

/-! ## T01.1 — noninterference of the non-vartime operations, all limb counts -/

/-- `Limb::ct_eq` -/
theorem limb_eq_ni (a₁ b₁ a₂ b₂ : Sec) : (limbEq a₁ b₁).tr = (limbEq a₂ b₂).tr := by simp
/-- `Limb::ct_lt` / `ct_gt` -/
theorem limb_lt_ni (a₁ b₁ a₂ b₂ : Sec) : (limbLt a₁ b₁).tr = (limbLt a₂ b₂).tr := by simp
/-- `Limb::select` -/
theorem limb_select_ni (a₁ b₁ c₁ a₂ b₂ c₂ : Sec) : (limbSelect a₁ b₁ c₁).tr = (limbSelect a₂ b₂ c₂).tr := by simp
/-- `Limb::adc` -/
theorem limb_adc_ni (a₁ b₁ c₁ a₂ b₂ c₂ : Sec) : (limbAdc a₁ b₁ c₁).tr = (limbAdc a₂ b₂ c₂).tr := by simp
/-- `Limb::sbb` -/
theorem limb_sbb_ni (a₁ b₁ c₁ a₂ b₂ c₂ : Sec) : (limbSbb a₁ b₁ c₁).tr = (limbSbb a₂ b₂ c₂).tr := by simp
/-- `Limb::mac` -/
theorem limb_mac_ni (a₁ b₁ c₁ d₁ a₂ b₂ c₂ d₂ : Sec) : (limbMac a₁ b₁ c₁ d₁).tr = (limbMac a₂ b₂ c₂ d₂).tr := by simp
/-- `Limb::bits` / `leading_zeros` -/
theorem limb_bits_ni (a₁ a₂ : Sec) : (limbBits a₁).tr = (limbBits a₂).tr := by simp

/-- `Uint::select` / `ConditionallySelectable` -/
theorem uint_select_ni (n : Nat) (a₁ b₁ a₂ b₂ : List Sec) (c₁ c₂ : Sec) :
    (uselect n a₁ b₁ c₁).tr = (uselect n a₂ b₂ c₂).tr := by simp
/-- `Uint::is_nonzero` / `is_zero` -/
theorem uint_is_nonzero_ni (n : Nat) (a₁ a₂ : List Sec) : (isNonzero n a₁).tr = (isNonzero n a₂).tr := by simp
/-- `Uint::eq` / `ct_eq` / `==` -/
theorem uint_eq_ni (n : Nat) (a₁ b₁ a₂ b₂ : List Sec) : (ueq n a₁ b₁).tr = (ueq n a₂ b₂).tr := by simp
/-- `Uint::lt` / `ct_lt` -/
theorem uint_lt_ni (n : Nat) (a₁ b₁ a₂ b₂ : List Sec) : (ult n a₁ b₁).tr = (ult n a₂ b₂).tr := by simp
/-- `Uint::gt` / `ct_gt` -/
theorem uint_gt_ni (n : Nat) (a₁ b₁ a₂ b₂ : List Sec) : (ugt n a₁ b₁).tr = (ugt n a₂ b₂).tr := by simp
/-- `Uint::cmp` / `Ord::cmp` -/
theorem uint_cmp_ni (n : Nat) (a₁ b₁ a₂ b₂ : List Sec) : (ucmp n a₁ b₁).tr = (ucmp n a₂ b₂).tr := by simp
/-- `Uint::adc` (and `wrapping_add`, `checked_add`, `saturating_add` on top of it) -/
theorem uint_adc_ni (n : Nat) (a₁ b₁ a₂ b₂ : List Sec) (c₁ c₂ : Sec) :
    (uadc n a₁ b₁ c₁).tr = (uadc n a₂ b₂ c₂).tr := by simp
/-- `Uint::sbb` (and `wrapping_sub`, …) -/
theorem uint_sbb_ni (n : Nat) (a₁ b₁ a₂ b₂ : List Sec) (c₁ c₂ : Sec) :
    (usbb n a₁ b₁ c₁).tr = (usbb n a₂ b₂ c₂).tr := by simp
/-- `Uint::carrying_neg` / `wrapping_neg` -/
theorem uint_neg_ni (n : Nat) (a₁ a₂ : List Sec) : (uneg n a₁).tr = (uneg n a₂).tr := by simp

/-- `Uint::overflowing_shl` / `shl` / `wrapping_shl` with a SECRET shift: the ladder of public shifts -/
theorem uint_shl_ni (n : Nat) (a₁ a₂ : List Sec) (s₁ s₂ : Sec) :
    (overflowingShl n a₁ s₁).tr = (overflowingShl n a₂ s₂).tr := by simp
/-- `Uint::overflowing_shr` / `shr` / `wrapping_shr` with a SECRET shift -/
theorem uint_shr_ni (n : Nat) (a₁ a₂ : List Sec) (s₁ s₂ : Sec) :
    (overflowingShr n a₁ s₁).tr = (overflowingShr n a₂ s₂).tr := by simp
/-- `Uint::shl_limb` with a SECRET sub-limb shift (zero-shift masked by `nz`) -/
theorem uint_shl_limb_ni (n : Nat) (a₁ a₂ : List Sec) (s₁ s₂ : Sec) :
    (shlLimb n a₁ s₁).tr = (shlLimb n a₂ s₂).tr := by simp
/-- `Uint::shr1` -/
theorem uint_shr1_ni (n : Nat) (a₁ a₂ : List Sec) : (shr1 n a₁).tr = (shr1 n a₂).tr := by simp

/-- `Uint::bit` with a SECRET index -/
theorem uint_bit_ni (n : Nat) (a₁ a₂ : List Sec) (i₁ i₂ : Sec) : (bit n a₁ i₁).tr = (bit n a₂ i₂).tr := by simp
/-- `Uint::set_bit` with SECRET index and value -/
theorem uint_set_bit_ni (n : Nat) (a₁ a₂ : List Sec) (i₁ i₂ v₁ v₂ : Sec) :
    (setBit n a₁ i₁ v₁).tr = (setBit n a₂ i₂ v₂).tr := by simp
/-- `Uint::leading_zeros` -/
theorem uint_leading_zeros_ni (n : Nat) (a₁ a₂ : List Sec) : (leadingZeros n a₁).tr = (leadingZeros n a₂).tr := by simp
/-- `Uint::trailing_zeros` / `trailing_ones` -/
theorem uint_trailing_zeros_ni (n : Nat) (a₁ a₂ : List Sec) : (trailingZeros n a₁).tr = (trailingZeros n a₂).tr := by simp
/-- `Uint::bits` -/
theorem uint_bits_ni (n : Nat) (a₁ a₂ : List Sec) : (bits n a₁).tr = (bits n a₂).tr := by simp

/-- `Uint::add_mod` (modulus secret too) -/
theorem uint_add_mod_ni (n : Nat) (a₁ b₁ p₁ a₂ b₂ p₂ : List Sec) :
    (addMod n a₁ b₁ p₁).tr = (addMod n a₂ b₂ p₂).tr := by simp
/-- `Uint::sub_mod` -/
theorem uint_sub_mod_ni (n : Nat) (a₁ b₁ p₁ a₂ b₂ p₂ : List Sec) :
    (subMod n a₁ b₁ p₁).tr = (subMod n a₂ b₂ p₂).tr := by simp
/-- `Uint::neg_mod`: the zero test is a mask at source level (the opt-level-3 build branches on it: finding
C01-neg-mod-zero-branch — the model cannot see that, the binary observation does) -/
theorem uint_neg_mod_ni (n : Nat) (a₁ p₁ a₂ p₂ : List Sec) : (negMod n a₁ p₁).tr = (negMod n a₂ p₂).tr := by simp

/-- schoolbook multiplication `n × m` limbs (`split_mul`, `wrapping_mul`, `checked_mul`) -/
theorem uint_mul_ni (n m : Nat) (a₁ b₁ a₂ b₂ : List Sec) :
    (mulSchoolbook n m a₁ b₁).tr = (mulSchoolbook n m a₂ b₂).tr := by simp

/-- `reciprocal` (Möller–Granlund; `short_div` has a constant trip count) -/
theorem reciprocal_ni (d₁ d₂ : Sec) : (reciprocal d₁).tr = (reciprocal d₂).tr := by simp
/-- `div3by2`: both correction rounds always run -/
theorem div3by2_ni (a₁ b₁ c₁ d₁ e₁ f₁ a₂ b₂ c₂ d₂ e₂ f₂ : Sec) :
    (div3by2 a₁ b₁ c₁ d₁ e₁ f₁).tr = (div3by2 a₂ b₂ c₂ d₂ e₂ f₂).tr := by simp
/-- `Uint::div_rem_limb` / `rem_limb` (divisor limb secret) -/
theorem uint_div_rem_limb_ni (n : Nat) (u₁ u₂ : List Sec) (d₁ d₂ : Sec) :
    (divRemLimb n u₁ d₁).tr = (divRemLimb n u₂ d₂).tr := by simp
/-- `Uint::div_rem` / `rem` / `wrapping_div` / `checked_div`: the constant-time Knuth loop — fixed trip count,
`done` / `ct_borrow` / `limb_div` / `from_u32_lt(i, dwords)` are masks; the divisor's bit length only feeds
ladders and masks (at source level; the opt-level-3 build branches on them: finding
C01-div-rem-compiled-branches) -/
theorem uint_div_rem_ni (n : Nat) (a₁ d₁ a₂ d₂ : List Sec) : (divRem n a₁ d₁).tr = (divRem n a₂ d₂).tr := by simp

/-- `Uint::inv_mod2k(k)` with SECRET `k`: `BITS` iterations, the surplus ones are dummies -/
theorem uint_inv_mod2k_ni (n : Nat) (a₁ a₂ : List Sec) (k₁ k₂ : Sec) :
    (invMod2k n a₁ k₁).tr = (invMod2k n a₂ k₂).tr := by simp

/-- `montgomery_reduction` -/
theorem montgomery_reduction_ni (n : Nat) (l₁ u₁ m₁ l₂ u₂ m₂ : List Sec) (v₁ v₂ : Sec) :
    (montgomeryReduction n l₁ u₁ m₁ v₁).tr = (montgomeryReduction n l₂ u₂ m₂ v₂).tr := by simp
/-- `mul_montgomery_form` (MontyForm / ConstMontyForm `mul`, `square`; here even the modulus is secret) -/
theorem monty_mul_ni (n : Nat) (a₁ b₁ m₁ a₂ b₂ m₂ : List Sec) (v₁ v₂ : Sec) :
    (mulMont n a₁ b₁ m₁ v₁).tr = (mulMont n a₂ b₂ m₂ v₂).tr := by simp
/-- the masked table lookup of `pow`: all 16 entries read, the window value only enters masks -/
theorem pow_lookup_ni (n : Nat) (p₁ p₂ : List (List Sec)) (i₁ i₂ : Sec) :
    (powLookup n p₁ i₁).tr = (powLookup n p₂ i₂).tr := by simp
/-- `MontyForm::pow` / `ConstMontyForm::pow` (full-width exponent): base, exponent (and modulus) secret -/
theorem pow_ni (n : Nat) (x₁ e₁ m₁ o₁ x₂ e₂ m₂ o₂ : List Sec) (v₁ v₂ : Sec) :
    (pow n x₁ e₁ m₁ o₁ v₁).tr = (pow n x₂ e₂ m₂ o₂ v₂).tr := by simp

/-- `Uint::sqrt` (constant-time variant): `LOG2_BITS + 2` Newton rounds of constant-time division -/
theorem uint_sqrt_ni (n : Nat) (a₁ a₂ : List Sec) : (sqrt n a₁).tr = (sqrt n a₂).tr := by simp

/-- `BoxedUint::ct_select` -/
theorem boxed_select_ni (n : Nat) (a₁ b₁ a₂ b₂ : List Sec) (c₁ c₂ : Sec) :
    (boxedCtSelect n a₁ b₁ c₁).tr = (boxedCtSelect n a₂ b₂ c₂).tr := by simp [boxedCtSelect]
/-- `BoxedUint::ct_assign` -/
theorem boxed_assign_ni (n : Nat) (a₁ b₁ a₂ b₂ : List Sec) (c₁ c₂ : Sec) :
    (boxedCtAssign n a₁ b₁ c₁).tr = (boxedCtAssign n a₂ b₂ c₂).tr := by simp
/-- `BoxedUint::ct_swap` -/
theorem boxed_swap_ni (n : Nat) (a₁ b₁ a₂ b₂ : List Sec) (c₁ c₂ : Sec) :
    (boxedCtSwap n a₁ b₁ c₁).tr = (boxedCtSwap n a₂ b₂ c₂).tr := by simp

/-! ### extension round: multiplication (schoolbook squaring, fixed-size Karatsuba, size dispatch) -/

/-- `Uint::not`, `Uint::bitxor`, `Uint::wrapping_sub`, `Uint::wrapping_neg_if` -/
theorem uint_not_ni (n : Nat) (a₁ a₂ : List Sec) : (unot n a₁).tr = (unot n a₂).tr := by simp
theorem uint_bitxor_ni (n : Nat) (a₁ b₁ a₂ b₂ : List Sec) : (ubitxor n a₁ b₁).tr = (ubitxor n a₂ b₂).tr := by simp
theorem uint_wrapping_sub_ni (n : Nat) (a₁ b₁ a₂ b₂ : List Sec) : (wrappingSub n a₁ b₁).tr = (wrappingSub n a₂ b₂).tr := by simp
theorem uint_wrapping_neg_if_ni (n : Nat) (a₁ a₂ : List Sec) (c₁ c₂ : Sec) :
    (wrappingNegIf n a₁ c₁).tr = (wrappingNegIf n a₂ c₂).tr := by simp

/-- `concat_mixed` / `split_mixed` / `resize`: only the (public) limb counts show -/
theorem uint_concat_ni (l h o : Nat) (a₁ b₁ a₂ b₂ : List Sec) :
    (concatMixed l h o a₁ b₁).tr = (concatMixed l h o a₂ b₂).tr := by simp
theorem uint_split_ni (n l h : Nat) (a₁ a₂ : List Sec) : (splitMixed n l h a₁).tr = (splitMixed n l h a₂).tr := by simp
theorem uint_resize_ni (n t : Nat) (a₁ a₂ : List Sec) : (resize n t a₁).tr = (resize n t a₂).tr := by simp

/-- `schoolbook_squaring` (`uint_square_limbs`, `square_limbs`): triangle, doubling, diagonal — all loop bounds
and the lo/hi placement tests are functions of the limb count -/
theorem uint_square_schoolbook_ni (n : Nat) (a₁ a₂ : List Sec) :
    (squareSchoolbook n a₁).tr = (squareSchoolbook n a₂).tr := by simp

/-- one Karatsuba `reduce` step over ANY half-size multiplier that is itself noninterferent: |x0−x1|, |y1−y0|,
the sign mask `z1_neg`, the conditional complement and the adc chain add no secret dependence -/
theorem karatsuba_mul_step_ni (h : Nat) (m : List Sec → List Sec → L (List Sec × List Sec))
    (hm : ∀ a b a' b', (m a b).tr = (m a' b').tr) (x₁ y₁ x₂ y₂ : List Sec) :
    (karaMulStep h m x₁ y₁).tr = (karaMulStep h m x₂ y₂).tr := by
  rw [karaMulStep_tr h m (m [] []).tr (fun a b => hm a b [] []), karaMulStep_tr h m (m [] []).tr (fun a b => hm a b [] [])]
/-- the squaring step likewise -/
theorem karatsuba_square_step_ni (h : Nat) (m : List Sec → L (List Sec × List Sec))
    (hm : ∀ a a', (m a).tr = (m a').tr) (x₁ x₂ : List Sec) :
    (karaSqStep h m x₁).tr = (karaSqStep h m x₂).tr := by
  rw [karaSqStep_tr h m (m []).tr (fun a => hm a []), karaSqStep_tr h m (m []).tr (fun a => hm a [])]

/-- `UintKaratsubaMul::<N>::multiply` for EVERY chain of sizes (the crate instantiates 128, 64, 32, 16, 8) -/
theorem karatsuba_mul_ni (chain : List Nat) (x₁ y₁ x₂ y₂ : List Sec) :
    (karaMulChain chain x₁ y₁).tr = (karaMulChain chain x₂ y₂).tr := by simp
/-- `UintKaratsubaMul::<N>::square` for every chain of sizes (the crate: 128, 64, 32) -/
theorem karatsuba_square_ni (chain : List Nat) (x₁ x₂ : List Sec) :
    (karaSqChain chain x₁).tr = (karaSqChain chain x₂).tr := by simp

/-- `Uint::split_mul` (`widening_mul`, `wrapping_mul`, `mul`): the Karatsuba/schoolbook dispatch is on the two limb
counts; all limb counts `n`, `m` -/
theorem uint_split_mul_ni (n m : Nat) (a₁ b₁ a₂ b₂ : List Sec) : (splitMul n m a₁ b₁).tr = (splitMul n m a₂ b₂).tr := by simp
/-- `Uint::square_wide` (`square`, `widening_square`, `wrapping_square`) -/
theorem uint_square_wide_ni (n : Nat) (a₁ a₂ : List Sec) : (squareWide n a₁).tr = (squareWide n a₂).tr := by simp
/-- `Uint::wrapping_mul` -/
theorem uint_wrapping_mul_ni (n m : Nat) (a₁ b₁ a₂ b₂ : List Sec) : (wrappingMul n m a₁ b₁).tr = (wrappingMul n m a₂ b₂).tr := by simp
/-- `CheckedMul for Uint` -/
theorem uint_checked_mul_ni (n m : Nat) (a₁ b₁ a₂ b₂ : List Sec) : (checkedMul n m a₁ b₁).tr = (checkedMul n m a₂ b₂).tr := by simp
/-- `Uint::saturating_mul` -/
theorem uint_saturating_mul_ni (n m : Nat) (a₁ b₁ a₂ b₂ : List Sec) :
    (saturatingMul n m a₁ b₁).tr = (saturatingMul n m a₂ b₂).tr := by simp
/-- `Uint::checked_square` -/
theorem uint_checked_square_ni (n : Nat) (a₁ a₂ : List Sec) : (checkedSquare n a₁).tr = (checkedSquare n a₂).tr := by simp

/-! ### extension round: `Int` (sign-magnitude forms; every sign decision is a mask) -/

/-- `Int::is_negative` -/
theorem int_is_negative_ni (n : Nat) (a₁ a₂ : List Sec) : (intIsNegative n a₁).tr = (intIsNegative n a₂).tr := by simp
/-- `Int::abs_sign` / `abs` -/
theorem int_abs_sign_ni (n : Nat) (a₁ a₂ : List Sec) : (intAbsSign n a₁).tr = (intAbsSign n a₂).tr := by simp
/-- `Int::new_from_abs_sign` (magnitude and sign both secret) -/
theorem int_new_from_abs_sign_ni (n : Nat) (a₁ a₂ : List Sec) (c₁ c₂ : Sec) :
    (intNewFromAbsSign n a₁ c₁).tr = (intNewFromAbsSign n a₂ c₂).tr := by simp
/-- `Int::overflowing_add` / `checked_add` / `+`: the overflow flag is `(msb = msb) & (msb ≠ msb)` on masks -/
theorem int_overflowing_add_ni (n : Nat) (a₁ b₁ a₂ b₂ : List Sec) :
    (intOverflowingAdd n a₁ b₁).tr = (intOverflowingAdd n a₂ b₂).tr := by simp
theorem int_checked_add_ni (n : Nat) (a₁ b₁ a₂ b₂ : List Sec) : (intCheckedAdd n a₁ b₁).tr = (intCheckedAdd n a₂ b₂).tr := by simp
/-- `CheckedSub for Int` / `-` -/
theorem int_checked_sub_ni (n : Nat) (a₁ b₁ a₂ b₂ : List Sec) : (intCheckedSub n a₁ b₁).tr = (intCheckedSub n a₂ b₂).tr := by simp
/-- `Int::overflowing_neg` / `wrapping_neg` / `checked_neg` -/
theorem int_overflowing_neg_ni (n : Nat) (a₁ a₂ : List Sec) : (intOverflowingNeg n a₁).tr = (intOverflowingNeg n a₂).tr := by simp
theorem int_checked_neg_ni (n : Nat) (a₁ a₂ : List Sec) : (intCheckedNeg n a₁).tr = (intCheckedNeg n a₂).tr := by simp
/-- `Int::lt` / `ct_lt`, `Int::gt` / `ct_gt`, `Int::cmp` / `Ord`: unsigned comparison after flipping the sign bit -/
theorem int_lt_ni (n : Nat) (a₁ b₁ a₂ b₂ : List Sec) : (intLt n a₁ b₁).tr = (intLt n a₂ b₂).tr := by simp
theorem int_gt_ni (n : Nat) (a₁ b₁ a₂ b₂ : List Sec) : (intGt n a₁ b₁).tr = (intGt n a₂ b₂).tr := by simp
theorem int_cmp_ni (n : Nat) (a₁ b₁ a₂ b₂ : List Sec) : (intCmp n a₁ b₁).tr = (intCmp n a₂ b₂).tr := by simp
/-- `Int::split_mul` (sign-magnitude multiplication), all pairs of limb counts -/
theorem int_split_mul_ni (n m : Nat) (a₁ b₁ a₂ b₂ : List Sec) : (intSplitMul n m a₁ b₁).tr = (intSplitMul n m a₂ b₂).tr := by simp
/-- `CheckedMul<Int<m>> for Int<n>` / `*`: `new_from_abs_sign` + subtle's `and_then` (mask-select of the default) -/
theorem int_checked_mul_ni (n m : Nat) (a₁ b₁ a₂ b₂ : List Sec) : (intCheckedMul n m a₁ b₁).tr = (intCheckedMul n m a₂ b₂).tr := by simp
/-- `CheckedMul<Uint<m>> for Int<n>` -/
theorem int_checked_mul_uint_ni (n m : Nat) (a₁ b₁ a₂ b₂ : List Sec) :
    (intCheckedMulUint n m a₁ b₁).tr = (intCheckedMulUint n m a₂ b₂).tr := by simp
/-- `Int::widening_mul` -/
theorem int_widening_mul_ni (n m : Nat) (a₁ b₁ a₂ b₂ : List Sec) :
    (intWideningMul n m a₁ b₁).tr = (intWideningMul n m a₂ b₂).tr := by simp
/-- `Int::overflowing_shr` / `shr` / `>>` with a SECRET shift: ladder of public arithmetic shifts + select -/
theorem int_shr_ni (n : Nat) (a₁ a₂ : List Sec) (s₁ s₂ : Sec) :
    (intOverflowingShr n a₁ s₁).tr = (intOverflowingShr n a₂ s₂).tr := by simp
/-- `Int::wrapping_shr` -/
theorem int_wrapping_shr_ni (n : Nat) (a₁ a₂ : List Sec) (s₁ s₂ : Sec) :
    (intWrappingShr n a₁ s₁).tr = (intWrappingShr n a₂ s₂).tr := by simp
/-- `Int::checked_div_rem` / `rem` / `/` by `NonZero<Int>`: unsigned constant-time division of the magnitudes,
re-signed under masks (at source level; the compiled division branches: findings C01-int-div-*) -/
theorem int_checked_div_rem_ni (n : Nat) (a₁ d₁ a₂ d₂ : List Sec) :
    (intCheckedDivRem n a₁ d₁).tr = (intCheckedDivRem n a₂ d₂).tr := by simp
/-- `Int::checked_div(&Int)` INCLUDING a zero divisor: `NonZero::new(rhs).and_then(…)` substitutes `ONE` under a
mask — the option handling adds no secret dependence -/
theorem int_checked_div_ni (n : Nat) (a₁ d₁ a₂ d₂ : List Sec) : (intCheckedDiv n a₁ d₁).tr = (intCheckedDiv n a₂ d₂).tr := by simp
/-- `Int::checked_div_rem_floor` / `checked_div_floor` -/
theorem int_checked_div_rem_floor_ni (n : Nat) (a₁ d₁ a₂ d₂ : List Sec) :
    (intCheckedDivRemFloor n a₁ d₁).tr = (intCheckedDivRemFloor n a₂ d₂).tr := by simp
/-- `Int::div_rem_uint` / `div_uint` / `rem_uint` -/
theorem int_div_rem_uint_ni (n : Nat) (a₁ d₁ a₂ d₂ : List Sec) : (intDivRemUint n a₁ d₁).tr = (intDivRemUint n a₂ d₂).tr := by simp
/-- `Int::div_rem_floor_uint` / `div_floor_uint` / `normalized_rem` -/
theorem int_div_rem_floor_uint_ni (n : Nat) (a₁ d₁ a₂ d₂ : List Sec) :
    (intDivRemFloorUint n a₁ d₁).tr = (intDivRemFloorUint n a₂ d₂).tr := by simp

/-! ### extension round: `BoxedUint` arithmetic — the two precisions `na`, `nb` are public, the limbs are not -/

/-- `BoxedUint::adc` / `sbb` with different precisions (zero padding by a bounds test on the public index) -/
theorem boxed_adc_ni (na nb : Nat) (a₁ b₁ a₂ b₂ : List Sec) (c₁ c₂ : Sec) :
    (boxedAdc na nb a₁ b₁ c₁).tr = (boxedAdc na nb a₂ b₂ c₂).tr := by simp
theorem boxed_sbb_ni (na nb : Nat) (a₁ b₁ a₂ b₂ : List Sec) (c₁ c₂ : Sec) :
    (boxedSbb na nb a₁ b₁ c₁).tr = (boxedSbb na nb a₂ b₂ c₂).tr := by simp
/-- `adc_assign` / `sbb_assign` / `conditional_adc_assign` / `conditional_sbb_assign` (choice secret) -/
theorem boxed_adc_assign_ni (n m : Nat) (a₁ b₁ a₂ b₂ : List Sec) (c₁ c₂ : Sec) :
    (boxedAdcAssign n m a₁ b₁ c₁).tr = (boxedAdcAssign n m a₂ b₂ c₂).tr := by simp
theorem boxed_sbb_assign_ni (n m : Nat) (a₁ b₁ a₂ b₂ : List Sec) (c₁ c₂ : Sec) :
    (boxedSbbAssign n m a₁ b₁ c₁).tr = (boxedSbbAssign n m a₂ b₂ c₂).tr := by simp
theorem boxed_conditional_adc_assign_ni (n m : Nat) (a₁ b₁ a₂ b₂ : List Sec) (c₁ c₂ : Sec) :
    (boxedCondAdcAssign n m a₁ b₁ c₁).tr = (boxedCondAdcAssign n m a₂ b₂ c₂).tr := by simp
theorem boxed_conditional_sbb_assign_ni (n m : Nat) (a₁ b₁ a₂ b₂ : List Sec) (c₁ c₂ : Sec) :
    (boxedCondSbbAssign n m a₁ b₁ c₁).tr = (boxedCondSbbAssign n m a₂ b₂ c₂).tr := by simp
/-- `BoxedUint::wrapping_neg`, `conditional_negate` -/
theorem boxed_wrapping_neg_ni (n : Nat) (a₁ a₂ : List Sec) : (boxedWrappingNeg n a₁).tr = (boxedWrappingNeg n a₂).tr := by simp
theorem boxed_conditional_negate_ni (n : Nat) (a₁ a₂ : List Sec) (c₁ c₂ : Sec) :
    (boxedConditionalNegate n a₁ c₁).tr = (boxedConditionalNegate n a₂ c₂).tr := by simp
/-- `BoxedUint::is_zero` -/
theorem boxed_is_zero_ni (n : Nat) (a₁ a₂ : List Sec) : (boxedIsZero n a₁).tr = (boxedIsZero n a₂).tr := by simp
/-- `ct_eq` / `==`, `ct_lt`, `ct_gt`, `Ord::cmp` of values with DIFFERENT precisions: the zero padding is steered by
the two limb counts only -/
theorem boxed_ct_eq_ni (na nb : Nat) (a₁ b₁ a₂ b₂ : List Sec) : (boxedCtEq na nb a₁ b₁).tr = (boxedCtEq na nb a₂ b₂).tr := by simp
theorem boxed_ct_lt_ni (na nb : Nat) (a₁ b₁ a₂ b₂ : List Sec) : (boxedCtLt na nb a₁ b₁).tr = (boxedCtLt na nb a₂ b₂).tr := by simp
theorem boxed_ct_gt_ni (na nb : Nat) (a₁ b₁ a₂ b₂ : List Sec) : (boxedCtGt na nb a₁ b₁).tr = (boxedCtGt na nb a₂ b₂).tr := by simp
theorem boxed_cmp_ni (na nb : Nat) (a₁ b₁ a₂ b₂ : List Sec) : (boxedCmp na nb a₁ b₁).tr = (boxedCmp na nb a₂ b₂).tr := by simp
/-- `BoxedUint::shr1` -/
theorem boxed_shr1_ni (n : Nat) (a₁ a₂ : List Sec) : (boxedShr1 n a₁).tr = (boxedShr1 n a₂).tr := by simp
/-- `BoxedUint::add_mod` / `sub_mod` / `neg_mod` (modulus secret too) -/
theorem boxed_add_mod_ni (n : Nat) (a₁ b₁ p₁ a₂ b₂ p₂ : List Sec) : (boxedAddMod n a₁ b₁ p₁).tr = (boxedAddMod n a₂ b₂ p₂).tr := by simp
theorem boxed_sub_mod_ni (n : Nat) (a₁ b₁ p₁ a₂ b₂ p₂ : List Sec) : (boxedSubMod n a₁ b₁ p₁).tr = (boxedSubMod n a₂ b₂ p₂).tr := by simp
theorem boxed_neg_mod_ni (n : Nat) (a₁ p₁ a₂ p₂ : List Sec) : (boxedNegMod n a₁ p₁).tr = (boxedNegMod n a₂ p₂).tr := by simp
/-- bit operations of `BoxedUint` (the slice functions shared with `Uint`) and `trailing_ones` -/
theorem boxed_set_bit_ni (n : Nat) (a₁ a₂ : List Sec) (i₁ i₂ v₁ v₂ : Sec) :
    (boxedSetBit n a₁ i₁ v₁).tr = (boxedSetBit n a₂ i₂ v₂).tr := by simp
theorem boxed_leading_zeros_ni (n : Nat) (a₁ a₂ : List Sec) : (boxedLeadingZeros n a₁).tr = (boxedLeadingZeros n a₂).tr := by simp
theorem boxed_trailing_zeros_ni (n : Nat) (a₁ a₂ : List Sec) : (boxedTrailingZeros n a₁).tr = (boxedTrailingZeros n a₂).tr := by simp
theorem boxed_bits_ni (n : Nat) (a₁ a₂ : List Sec) : (boxedBits n a₁).tr = (boxedBits n a₂).tr := by simp
theorem boxed_bit_ni (n : Nat) (a₁ a₂ : List Sec) (i₁ i₂ : Sec) : (boxedBit n a₁ i₁).tr = (boxedBit n a₂ i₂).tr := by simp
theorem trailing_ones_ni (n : Nat) (a₁ a₂ : List Sec) : (trailingOnes n a₁).tr = (trailingOnes n a₂).tr := by simp
/-- `BoxedUint::inv_mod2k(k)` with SECRET `k` -/
theorem boxed_inv_mod2k_ni (n : Nat) (a₁ a₂ : List Sec) (k₁ k₂ : Sec) :
    (boxedInvMod2k n a₁ k₁).tr = (boxedInvMod2k n a₂ k₂).tr := by simp
/-- `adc_mul_limbs`, `conditional_wrapping_neg_assign` (boxed Karatsuba helpers) -/
theorem adc_mul_limbs_ni (nl nr : Nat) (l₁ r₁ o₁ l₂ r₂ o₂ : List Sec) :
    (adcMulLimbs nl nr l₁ r₁ o₁).tr = (adcMulLimbs nl nr l₂ r₂ o₂).tr := by simp
theorem conditional_wrapping_neg_assign_ni (n : Nat) (l₁ l₂ : List Sec) (c₁ c₂ : Sec) :
    (condNegAssign n l₁ c₁).tr = (condNegAssign n l₂ c₂).tr := by simp
/-- `karatsuba_mul_limbs`: for every recursion budget and every pair of lengths the trace is the same for all limb
values — the recursion, the split sizes and the trailing passes follow the lengths only -/
theorem karatsuba_mul_limbs_ni (fuel nl nr : Nat) (l₁ r₁ l₂ r₂ : List Sec) :
    (karaMulLimbs fuel nl nr l₁ r₁).tr = (karaMulLimbs fuel nl nr l₂ r₂).tr := by simp
/-- `karatsuba_square_limbs` -/
theorem karatsuba_square_limbs_ni (fuel n : Nat) (a₁ a₂ : List Sec) :
    (karaSquareLimbs fuel n a₁).tr = (karaSquareLimbs fuel n a₂).tr := by simp
/-- `BoxedUint::mul` / `square` / `wrapping_mul` / `checked_mul`, all precisions -/
theorem boxed_mul_ni (na nb : Nat) (a₁ b₁ a₂ b₂ : List Sec) : (boxedMul na nb a₁ b₁).tr = (boxedMul na nb a₂ b₂).tr := by simp
theorem boxed_square_ni (n : Nat) (a₁ a₂ : List Sec) : (boxedSquare n a₁).tr = (boxedSquare n a₂).tr := by simp
theorem boxed_wrapping_mul_ni (na nb : Nat) (a₁ b₁ a₂ b₂ : List Sec) :
    (boxedWrappingMul na nb a₁ b₁).tr = (boxedWrappingMul na nb a₂ b₂).tr := by simp
theorem boxed_checked_mul_ni (na nb : Nat) (a₁ b₁ a₂ b₂ : List Sec) :
    (boxedCheckedMul na nb a₁ b₁).tr = (boxedCheckedMul na nb a₂ b₂).tr := by simp

/-! ### extension round: safegcd — the `UnsatInt` arithmetic that IS constant-time -/

/-- `UnsatInt::add`, `neg`, `shr`, `eq`, `is_negative`, `select`, `bits` / `leading_zeros` -/
theorem unsat_add_ni (n : Nat) (a₁ b₁ a₂ b₂ : List Sec) : (unsatAdd n a₁ b₁).tr = (unsatAdd n a₂ b₂).tr := by simp
theorem unsat_neg_ni (n : Nat) (a₁ a₂ : List Sec) : (unsatNeg n a₁).tr = (unsatNeg n a₂).tr := by simp
theorem unsat_shr_ni (n : Nat) (a₁ a₂ : List Sec) : (unsatShr n a₁).tr = (unsatShr n a₂).tr := by simp
theorem unsat_eq_ni (n : Nat) (a₁ b₁ a₂ b₂ : List Sec) : (unsatEq n a₁ b₁).tr = (unsatEq n a₂ b₂).tr := by simp
theorem unsat_is_negative_ni (n : Nat) (a₁ a₂ : List Sec) : (unsatIsNegative n a₁).tr = (unsatIsNegative n a₂).tr := by simp
theorem unsat_select_ni (n : Nat) (a₁ b₁ a₂ b₂ : List Sec) (c₁ c₂ : Sec) :
    (unsatSelect n a₁ b₁ c₁).tr = (unsatSelect n a₂ b₂ c₂).tr := by simp
theorem unsat_bits_ni (n : Nat) (a₁ a₂ : List Sec) : (unsatBits n a₁).tr = (unsatBits n a₂).tr := by simp
/-- `UnsatInt::from_uint` / `to_uint` (`impl_limb_convert!`): the bit positions visited are a function of the two limb counts -/
theorem unsat_from_uint_ni (n u : Nat) (a₁ a₂ : List Sec) : (unsatFromUint n u a₁).tr = (unsatFromUint n u a₂).tr := by simp
theorem unsat_to_uint_ni (u n : Nat) (a₁ a₂ : List Sec) : (unsatToUint u n a₁).tr = (unsatToUint u n a₂).tr := by simp
/-- `inv_mod2_62` -/
theorem inv_mod2_62_ni (v₁ v₂ : Sec) : (invMod262 v₁).tr = (invMod262 v₂).tr := by simp
/-- `SafeGcdInverter::norm` -/
theorem unsat_norm_ni (n : Nat) (m₁ v₁ m₂ v₂ : List Sec) (c₁ c₂ : Sec) :
    (unsatNorm n m₁ v₁ c₁).tr = (unsatNorm n m₂ v₂ c₂).tr := by simp

/-- the parts of `Uint::gcd` and `Uint::inv_mod` around the safegcd call: the power-of-two bookkeeping (`trailing_zeros`,
shifts by the SECRET count `k`, `inv_mod2k(k)`, the Garner step) is mask arithmetic -/
theorem uint_gcd_operands_ni (n : Nat) (a₁ b₁ a₂ b₂ : List Sec) : (ugcdOperands n a₁ b₁).tr = (ugcdOperands n a₂ b₂).tr := by simp
theorem uint_gcd_finish_ni (n : Nat) (r₁ r₂ : List Sec) (k₁ k₂ : Sec) : (ugcdFinish n r₁ k₁).tr = (ugcdFinish n r₂ k₂).tr := by simp
theorem uint_inv_mod_split_ni (n : Nat) (m₁ m₂ : List Sec) : (uinvModSplit n m₁).tr = (uinvModSplit n m₂).tr := by simp
theorem uint_inv_mod_finish_ni (n : Nat) (a₁ s₁ a₂ s₂ : List Sec) (k₁ k₂ : Sec) (ma₁ ma₂ : List Sec × Sec) :
    (uinvModFinish n a₁ s₁ k₁ ma₁).tr = (uinvModFinish n a₂ s₂ k₂ ma₂).tr := by simp

/-! ### extension round: special-modulus forms, `mul_mod`, `div_by_2`, linear combinations -/

/-- `Uint::add_mod_special` / `sub_mod_special` / `mul_mod_special` (modulus `2^BITS − c`, `c` secret too), `double_mod` -/
theorem uint_add_mod_special_ni (n : Nat) (a₁ b₁ a₂ b₂ : List Sec) (c₁ c₂ : Sec) :
    (addModSpecial n a₁ b₁ c₁).tr = (addModSpecial n a₂ b₂ c₂).tr := by simp
theorem uint_sub_mod_special_ni (n : Nat) (a₁ b₁ a₂ b₂ : List Sec) (c₁ c₂ : Sec) :
    (subModSpecial n a₁ b₁ c₁).tr = (subModSpecial n a₂ b₂ c₂).tr := by simp
theorem uint_mul_mod_special_ni (n : Nat) (a₁ b₁ a₂ b₂ : List Sec) (c₁ c₂ : Sec) :
    (mulModSpecial n a₁ b₁ c₁).tr = (mulModSpecial n a₂ b₂ c₂).tr := by simp
theorem uint_double_mod_ni (n : Nat) (a₁ p₁ a₂ p₂ : List Sec) : (doubleMod n a₁ p₁).tr = (doubleMod n a₂ p₂).tr := by simp
/-- `mac_by_limb`, `Uint::rem_limb` / `mul_rem` -/
theorem mac_by_limb_ni (n : Nat) (a₁ b₁ a₂ b₂ : List Sec) (c₁ d₁ c₂ d₂ : Sec) :
    (macByLimb n a₁ b₁ c₁ d₁).tr = (macByLimb n a₂ b₂ c₂ d₂).tr := by simp
theorem uint_rem_limb_ni (n : Nat) (u₁ u₂ : List Sec) (d₁ d₂ : Sec) : (remLimb n u₁ d₁).tr = (remLimb n u₂ d₂).tr := by simp
/-- `MontyParams::new` (the constant-time constructor): at source level not even the modulus shows (the compiled
divisions by the modulus do: finding C01-modulus-division-compiled-branches) -/
theorem monty_params_new_ni (n : Nat) (m₁ m₂ : List Sec) : (montyParamsNew n m₁).tr = (montyParamsNew n m₂).tr := by simp
/-- `MontyForm::new`, `MontyForm::retrieve` -/
theorem monty_form_new_ni (n : Nat) (x₁ r₁ m₁ x₂ r₂ m₂ : List Sec) (v₁ v₂ : Sec) :
    (montyFormNew n x₁ r₁ m₁ v₁).tr = (montyFormNew n x₂ r₂ m₂ v₂).tr := by simp
theorem monty_retrieve_ni (n : Nat) (x₁ m₁ x₂ m₂ : List Sec) (v₁ v₂ : Sec) :
    (montyRetrieve n x₁ m₁ v₁).tr = (montyRetrieve n x₂ m₂ v₂).tr := by simp
/-- `square_montgomery_form` (MontyForm `square`) -/
theorem monty_square_ni (n : Nat) (a₁ m₁ a₂ m₂ : List Sec) (v₁ v₂ : Sec) :
    (squareMont n a₁ m₁ v₁).tr = (squareMont n a₂ m₂ v₂).tr := by simp
/-- the inherent `Uint::mul_mod(rhs, p)` (through Montgomery form): factors AND modulus secret -/
theorem uint_mul_mod_ni (n : Nat) (a₁ b₁ p₁ a₂ b₂ p₂ : List Sec) : (mulMod n a₁ b₁ p₁).tr = (mulMod n a₂ b₂ p₂).tr := by simp
/-- `div_by_2` (`MontyForm::div_by_2`, `ConstMontyForm::div_by_2`) and the boxed form -/
theorem div_by_2_ni (n : Nat) (a₁ m₁ a₂ m₂ : List Sec) : (divBy2 n a₁ m₁).tr = (divBy2 n a₂ m₂).tr := by simp
theorem div_by_2_boxed_ni (n : Nat) (a₁ m₁ a₂ m₂ : List Sec) : (divBy2Boxed n a₁ m₁).tr = (divBy2Boxed n a₂ m₂).tr := by simp
/-- `impl_longa_monty_lincomb!` over `len` products (a public count) -/
theorem longa_lincomb_ni (n len : Nat) (ab₁ ab₂ : List (List Sec × List Sec)) (u₁ m₁ u₂ m₂ : List Sec) (v₁ v₂ : Sec) :
    (longaLincomb n len ab₁ u₁ m₁ v₁).tr = (longaLincomb n len ab₂ u₂ m₂ v₂).tr := by simp
/-- `lincomb_monty_form` / `lincomb_const_monty_form` (`MontyForm::lincomb_vartime` is variable-time in the NUMBER of
products only): for a given number of products and `mod_leading_zeros` of the public modulus the trace is fixed -/
theorem lincomb_monty_ni (n len mlz : Nat) (ab₁ ab₂ : List (List Sec × List Sec)) (m₁ m₂ : List Sec) (v₁ v₂ : Sec) :
    (lincombMonty n len ab₁ m₁ v₁ mlz).tr = (lincombMonty n len ab₂ m₂ v₂ mlz).tr := by simp

/-! ## T01.2 — `_vartime` operations: the trace is a function of the documented-public operand only -/

/-- `shl_vartime(shift)`: for a fixed shift the trace does not depend on the value -/
theorem shl_vartime_trace_pub (n shift : Nat) (a₁ a₂ : List Sec) :
    (shlVartime n a₁ shift).tr = (shlVartime n a₂ shift).tr := by simp
/-- `shr_vartime(shift)` -/
theorem shr_vartime_trace_pub (n shift : Nat) (a₁ a₂ : List Sec) :
    (shrVartime n a₁ shift).tr = (shrVartime n a₂ shift).tr := by simp
/-- `bit_vartime(index)` -/
theorem bit_vartime_trace_pub (n index : Nat) (a₁ a₂ : List Sec) :
    (bitVartime n a₁ index).tr = (bitVartime n a₂ index).tr := by simp
/-- `inv_mod2k_vartime(k)` -/
theorem inv_mod2k_vartime_trace_pub (n k : Nat) (a₁ a₂ : List Sec) :
    (invMod2kVartime n a₁ k).tr = (invMod2kVartime n a₂ k).tr := by simp
/-- `pow_bounded_exp(exponent, exponent_bits)`: base and exponent secret, `exponent_bits` public -/
theorem pow_bounded_exp_trace_pub (n ebits : Nat) (x₁ e₁ m₁ o₁ x₂ e₂ m₂ o₂ : List Sec) (v₁ v₂ : Sec) :
    (powBoundedExp n x₁ e₁ ebits m₁ o₁ v₁).tr = (powBoundedExp n x₂ e₂ ebits m₂ o₂ v₂).tr := by simp

/-- `Int::overflowing_shr_vartime(shift)` / `shr_vartime`: for a fixed shift the trace depends neither on the value nor on its sign -/
theorem int_shr_vartime_trace_pub (n shift : Nat) (a₁ a₂ : List Sec) :
    (intShrVartime n a₁ shift).tr = (intShrVartime n a₂ shift).tr := by simp
/-- `BoxedUint::shr_vartime(shift)` -/
theorem boxed_shr_vartime_trace_pub (n shift : Nat) (a₁ d₁ a₂ d₂ : List Sec) :
    (boxedShrVartimeInto n a₁ d₁ shift).tr = (boxedShrVartimeInto n a₂ d₂ shift).tr := by simp
/-- `BoxedUint::inv_mod2k_vartime(k)` -/
theorem boxed_inv_mod2k_vartime_trace_pub (n k : Nat) (a₁ a₂ : List Sec) :
    (boxedInvMod2kVartime n a₁ k).tr = (boxedInvMod2kVartime n a₂ k).tr := by simp
/-- `BoxedUint::overflowing_shl / overflowing_shr` AS WRITTEN (not vartime by name): the trace is a function of the
precision and of the SHIFT — which reaches the hardware division of `shift % bits_precision` — but not of the
shifted value (finding C01-boxed-shift-modulo-hw-div is exactly the dependence on the shift) -/
theorem boxed_shl_trace_of_shift (n : Nat) (s : Sec) (a₁ a₂ : List Sec) :
    (boxedOverflowingShl n a₁ s).tr = (boxedOverflowingShl n a₂ s).tr := by
  rw [boxedOverflowingShl_tr, boxedOverflowingShl_tr]
theorem boxed_shr_trace_of_shift (n : Nat) (s : Sec) (a₁ a₂ : List Sec) :
    (boxedOverflowingShr n a₁ s).tr = (boxedOverflowingShr n a₂ s).tr := by
  rw [boxedOverflowingShr_tr, boxedOverflowingShr_tr]

/-- `divsteps(e, f_0, g, inverse)`: two constant-time `bits()`, the DECLASSIFIED trip count `iterations(f_0.bits(), g.bits())`,
then that many trips (each: `divsteps_trip_trace`) -/
theorem divsteps_trace (n : Nat) (e f0 g : List Sec) (inv : Sec) :
    (divsteps n e f0 g inv).tr =
      unsatBitsT n ++ (unsatBitsT n ++
        ((declassify (iterations (unsatBits n f0).val (unsatBits n g).val)).tr ++
         (forN (declassify (iterations (unsatBits n f0).val (unsatBits n g).val)).val
            (fun _ st => divstepsTrip n f0 inv st) (one, f0, g, zeros n, e)).tr)) := divsteps_tr n e f0 g inv
/-- `Uint::inv_odd_mod` (`SafeGcdInverter::new(m, ONE).inv(v)`) = public conversions ++ `divsteps` ++ public tail
(`eq`, `norm`, `to_uint`): whatever depends on the operands is inside `divsteps` -/
theorem safegcd_inv_trace (n : Nat) (m v : List Sec) :
    (safegcdInv n m v).tr = safegcdInvPreT n ++
      ((divsteps (unsatLimbs n) (unsatFromUint n (unsatLimbs n) (uone n)).val (unsatFromUint n (unsatLimbs n) m).val
          (unsatFromUint n (unsatLimbs n) v).val (invMod262 (limb m 0)).val).tr ++ safegcdInvPostT (unsatLimbs n) n) :=
  safegcdInv_tr n m v
/-- `SafeGcdInverter::gcd` likewise -/
theorem safegcd_gcd_trace (n : Nat) (f g : List Sec) :
    (safegcdGcd n f g).tr = safegcdGcdPreT n ++
      ((divsteps (unsatLimbs n) (unsatOne (unsatLimbs n)) (unsatFromUint n (unsatLimbs n) f).val
          (unsatFromUint n (unsatLimbs n) g).val (invMod262 (limb f 0)).val).tr ++ safegcdGcdPostT (unsatLimbs n) n) :=
  safegcdGcd_tr n f g
/-- `Uint::gcd` = a public prefix ++ the safegcd of the stripped operands ++ a public suffix -/
theorem uint_gcd_trace (n : Nat) (a b : List Sec) :
    (ugcd n a b).tr = ugcdOperandsT n ++
      ((safegcdGcd n (ugcdOperands n a b).val.1 (ugcdOperands n a b).val.2.1).tr ++ ugcdFinishT n) := ugcd_tr n a b
/-- `Uint::inv_mod` (any modulus) = a public prefix ++ `inv_odd_mod` modulo the odd part ++ a public suffix -/
theorem uint_inv_mod_trace (n : Nat) (a m : List Sec) :
    (uinvMod n a m).tr = uinvModSplitT n ++ ((safegcdInv n (uinvModSplit n m).val.1 a).tr ++ uinvModFinishT n) :=
  uinvMod_tr n a m

/-- `multi_exponentiate_bounded_exp` (`cnt` bases, `exponent_bits` public): bases and exponents secret -/
theorem multi_exponentiate_trace_pub (n cnt ebits : Nat) (bes₁ bes₂ : List (List Sec × List Sec)) (m₁ o₁ m₂ o₂ : List Sec) (v₁ v₂ : Sec) :
    (multiExp n cnt bes₁ ebits m₁ o₁ v₁).tr = (multiExp n cnt bes₂ ebits m₂ o₂ v₂).tr := by simp
/-- `Uint::div_rem_vartime` / `rem_vartime` ("variable only with respect to `rhs`"): for a fixed divisor the trace does not
depend on the dividend; and once the divisor's bit length is fixed it depends on neither operand -/
theorem div_rem_vartime_trace_pub (n : Nat) (d a₁ a₂ : List Sec) : (divRemVartime n a₁ d).tr = (divRemVartime n a₂ d).tr := by
  rw [divRemVartime_tr, divRemVartime_tr]
theorem div_rem_vartime_trace_of_bits (n dbits : Nat) (a₁ d₁ a₂ d₂ : List Sec) :
    (divRemVartimeBody n dbits a₁ d₁).tr = (divRemVartimeBody n dbits a₂ d₂).tr := by simp
/-- `rem_wide_vartime` once the divisor's bit length `dbits` is fixed: constant-time in dividend AND divisor -/
theorem rem_wide_vartime_trace_of_bits (n dbits : Nat) (lo₁ hi₁ d₁ lo₂ hi₂ d₂ : List Sec) :
    (remWideBody n dbits lo₁ hi₁ d₁).tr = (remWideBody n dbits lo₂ hi₂ d₂).tr := by simp
/-- `Uint::rem_wide_vartime(lo_hi, rhs)` ("variable only with respect to `rhs`"): for a fixed divisor the trace does not
depend on the dividend -/
theorem rem_wide_vartime_trace_pub (n : Nat) (d lo₁ hi₁ lo₂ hi₂ : List Sec) :
    (remWideVartime n lo₁ hi₁ d).tr = (remWideVartime n lo₂ hi₂ d).tr := by
  rw [remWideVartime_tr, remWideVartime_tr]
/-- `Uint::mul_mod_vartime(rhs, p)` — and `<Uint as MulMod>::mul_mod`, which forwards to it without `_vartime` in its
name: the trace is a function of the modulus `p` only, not of the two factors -/
theorem mul_mod_vartime_trace_pub (n : Nat) (p a₁ b₁ a₂ b₂ : List Sec) :
    (mulModVartime n a₁ b₁ p).tr = (mulModVartime n a₂ b₂ p).tr := by
  rw [mulModVartime_tr, mulModVartime_tr]

/-- `random_mod_core`: one trip of the rejection loop decomposes into the trace of the high-word loop (which branches on
`hi_word > hi_word_modulus` per drawn word), a public copy loop, the constant-time comparison `n < modulus` and the
declassified verdict.  So the trace of `random_mod` is a function of the modulus' bit length and of the accept / reject
pattern of the RNG stream -/
theorem random_mod_trip_trace (n nl fuel : Nat) (modulus : List Sec) (mask : Sec) (st : List Sec × Sec × List Sec × Bool)
    (h : st.2.2.2 = false) :
    (rmTrip n nl fuel modulus mask st).tr =
      Event.pubIndex (nl - 1) :: ((rmHiLoop fuel (limb modulus (nl - 1)) mask st.2.1 st.2.2.1).tr ++
        (rmLowLoopT nl ++ (usbbT n ++
          (declassify (ult n (rmLowLoop nl (rmHiLoop fuel (limb modulus (nl - 1)) mask st.2.1 st.2.2.1).val.2
              ((zeros n).set (nl - 1) (rmHiLoop fuel (limb modulus (nl - 1)) mask st.2.1 st.2.2.1).val.1)).val modulus).val).tr))) :=
  rmTrip_tr n nl fuel modulus mask st h

/-! ### safegcd: what the traces of `UnsatInt::mul`, `fg`, `de` and of one trip of `divsteps` are functions of -/

/-- `UnsatInt::mul(other: i64)` branches on `other < 0` at source level: for multipliers of EQUAL SIGN the traces are
equal, whatever the long operand and the magnitude of the multiplier are -/
theorem unsat_mul_trace_of_sign (n : Nat) (a₁ a₂ : List Sec) (o₁ o₂ : Sec) (h : maskMsb o₁ = maskMsb o₂) :
    (unsatMul n a₁ o₁).tr = (unsatMul n a₂ o₂).tr := by
  rw [unsatMul_tr, unsatMul_tr, h]

/-- `fg(f, g, t)` is constant-time in `f`, `g` and in the magnitudes of the matrix entries: its trace is a function of
the four SIGN masks of `t` -/
theorem fg_trace_of_matrix_signs (n : Nat) (f₁ g₁ f₂ g₂ : List Sec) (a₁ b₁ c₁ d₁ a₂ b₂ c₂ d₂ : Sec)
    (ha : maskMsb a₁ = maskMsb a₂) (hb : maskMsb b₁ = maskMsb b₂) (hc : maskMsb c₁ = maskMsb c₂) (hd : maskMsb d₁ = maskMsb d₂) :
    (fgStep n f₁ g₁ a₁ b₁ c₁ d₁).tr = (fgStep n f₂ g₂ a₂ b₂ c₂ d₂).tr := by
  rw [fgStep_tr, fgStep_tr, ha, hb, hc, hd]

/-- `de(modulus, inverse, t, d, e)`: a function of the sign masks of `t` and of the two words `md`, `me` -/
theorem de_trace_of_signs (n : Nat) (m₁ d₁ e₁ m₂ d₂ e₂ : List Sec) (i₁ i₂ a₁ b₁ c₁ q₁ a₂ b₂ c₂ q₂ : Sec)
    (ha : maskMsb a₁ = maskMsb a₂) (hb : maskMsb b₁ = maskMsb b₂) (hc : maskMsb c₁ = maskMsb c₂) (hq : maskMsb q₁ = maskMsb q₂)
    (hmd : maskMsb (deMdOf n a₁ b₁ i₁ d₁ e₁) = maskMsb (deMdOf n a₂ b₂ i₂ d₂ e₂))
    (hme : maskMsb (deMdOf n c₁ q₁ i₁ d₁ e₁) = maskMsb (deMdOf n c₂ q₂ i₂ d₂ e₂)) :
    (deStep n m₁ i₁ a₁ b₁ c₁ q₁ d₁ e₁).tr = (deStep n m₂ i₂ a₂ b₂ c₂ q₂ d₂ e₂).tr := by
  rw [deStep_tr, deStep_tr, ha, hb, hc, hq, hmd, hme]

/-- ONE TRIP of the outer loop of `divsteps` decomposes: the trace of `jump` on the low words, then `fg` and `de` on what
`jump` returned.  Together with the two theorems above: beyond `jump` (and the trip count) the only thing the outer loop
shows is the signs of the transition matrix and of `md`, `me` -/
theorem divsteps_trip_trace (n : Nat) (f0 : List Sec) (inv : Sec) (st : Sec × List Sec × List Sec × List Sec × List Sec) :
    (divstepsTrip n f0 inv st).tr =
      Event.pubIndex 0 :: ((jumpFull (limb st.2.1 0) (limb st.2.2.1 0) st.1).tr ++
        ((fgStep n st.2.1 st.2.2.1 (jumpFull (limb st.2.1 0) (limb st.2.2.1 0) st.1).val.2.1
            (jumpFull (limb st.2.1 0) (limb st.2.2.1 0) st.1).val.2.2.1 (jumpFull (limb st.2.1 0) (limb st.2.2.1 0) st.1).val.2.2.2.1
            (jumpFull (limb st.2.1 0) (limb st.2.2.1 0) st.1).val.2.2.2.2).tr ++
         (deStep n f0 inv (jumpFull (limb st.2.1 0) (limb st.2.2.1 0) st.1).val.2.1
            (jumpFull (limb st.2.1 0) (limb st.2.2.1 0) st.1).val.2.2.1 (jumpFull (limb st.2.1 0) (limb st.2.2.1 0) st.1).val.2.2.2.1
            (jumpFull (limb st.2.1 0) (limb st.2.2.1 0) st.1).val.2.2.2.2 st.2.2.2.1 st.2.2.2.2).tr)) := by
  rw [divstepsTrip_tr, fgStep_tr]

-- … and the public operand really shows (the statements above are not vacuous "trace = []"):
example : (shlVartime 2 [] 1).tr ≠ (shlVartime 2 [] 64).tr := by decide
example : (shrVartime 2 [] 1).tr ≠ (shrVartime 2 [] 65).tr := by decide
example : (bitVartime 2 [] 3).tr ≠ (bitVartime 2 [] 64).tr := by decide
example : (invMod2kVartime 1 [] 1).tr ≠ (invMod2kVartime 1 [] 2).tr := by decide
example : (powBoundedExp 1 [] [] 4 [] [] zero).tr ≠ (powBoundedExp 1 [] [] 5 [] [] zero).tr := by decide +kernel
example : (uselect 3 [ofNat 1, ofNat 2, ofNat 3] [] max).tr = [.pubIndex 0, .pubIndex 1, .pubIndex 2] := by decide
example : (powBoundedExp 1 [] [] 0 [] [] zero).tr ≠ (powBoundedExp 1 [] [] 1 [] [] zero).tr := by decide +kernel
example : (divRem 2 [ofNat 7, ofNat 9] [ofNat 3]).tr.length = 220 := by decide +kernel

example : (intShrVartime 2 [] 1).tr ≠ (intShrVartime 2 [] 64).tr := by decide
example : (boxedShrVartimeInto 2 [] [] 1).tr ≠ (boxedShrVartimeInto 2 [] [] 64).tr := by decide
example : (boxedInvMod2kVartime 1 [] 1).tr ≠ (boxedInvMod2kVartime 1 [] 2).tr := by decide
-- the public limb counts do show: Karatsuba vs schoolbook dispatch, mixed boxed precisions
example : (splitMul 16 16 [] []).tr.length = 889 := by decide +kernel
example : (splitMul 16 16 [] []).tr ≠ (mulSchoolbook 16 16 [] []).tr := by decide +kernel
example : (boxedCtEq 1 2 [] []).tr ≠ (boxedCtEq 2 2 [] []).tr := by decide
example : (boxedAdc 1 3 [] [] zero).tr ≠ (boxedAdc 2 3 [] [] zero).tr := by decide
-- the size constants of the model are the ones extracted from the Rust source (tools/extract.py)
example : karaMulSizes = [Extracted.karaMulChain0, Extracted.karaMulChain1, Extracted.karaMulChain2,
    Extracted.karaMulChain3, Extracted.karaMulChain4] := by decide
example : karaSqSizes = [Extracted.karaSqChain0, Extracted.karaSqChain1, Extracted.karaSqChain2] := by decide
example : splitMulDispatchSizes = [Extracted.splitMulDispatch0, Extracted.splitMulDispatch1,
    Extracted.splitMulDispatch2, Extracted.splitMulDispatch3] := by decide
example : squareWideDispatchSizes = [Extracted.squareWideDispatch0, Extracted.squareWideDispatch1] := by decide
example : Extracted.karatsubaMaxReduceLimbs = 24 ∧ Extracted.karatsubaMinStartingLimbs = 32 ∧
    Extracted.karaSquareReduceFactor = 2 ∧ Extracted.boxedSquareStartFactor = 2 := by decide

example : (divRemVartime 2 [] [ofNat 3, ofNat 0]).tr ≠ (divRemVartime 2 [] [ofNat 3, ofNat 1]).tr := by decide +kernel
example : (multiExp 1 1 [] 4 [] [] zero).tr ≠ (multiExp 1 2 [] 4 [] [] zero).tr := by decide +kernel
example : (remWideBody 2 64 [] [] []).tr ≠ (remWideBody 2 65 [] [] []).tr := by decide +kernel
example : (lincombMonty 1 2 [] [] zero 0).tr ≠ (lincombMonty 1 2 [] [] zero 1).tr := by decide +kernel

/-! ## T01.3 — the model catches secret-dependent control flow, addressing and division operands -/

/-- An equality test that returns at the first differing limb has different traces for equal and for
unequal operands. -/
theorem eq_early_exit_leaks :
    (eqEarlyExit 2 [ofNat 1, ofNat 2] [ofNat 1, ofNat 2]).tr ≠ (eqEarlyExit 2 [ofNat 1, ofNat 2] [ofNat 5, ofNat 2]).tr := by
  decide

/-- `Uint::cmp_vartime` (documented variable-time in both operands): the number of limbs scanned shows. -/
theorem cmp_vartime_leaks :
    (cmpVartime 2 [ofNat 1, ofNat 2] [ofNat 1, ofNat 2]).tr ≠ (cmpVartime 2 [ofNat 1, ofNat 2] [ofNat 1, ofNat 3]).tr := by
  decide

/-- `Uint::bits_vartime` (documented variable-time in `self`) -/
theorem bits_vartime_leaks :
    (bitsVartime 2 [ofNat 1, ofNat 0]).tr ≠ (bitsVartime 2 [ofNat 1, ofNat 1]).tr := by decide

/-- indexing the table of powers directly by the secret window (what `pow` must not do) -/
theorem pow_lookup_leaky_leaks :
    (powLookupLeaky [] (ofNat 3)).tr ≠ (powLookupLeaky [] (ofNat 4)).tr := by decide

/-- `BoxedUint::overflowing_shl_assign` as written: `shift % self.bits_precision()` with a run-time precision
feeds the SECRET shift to a hardware division (finding C01-boxed-shift-modulo-hw-div); `Uint` does not, its
`BITS` is a compile-time constant (`uint_shl_ni`). -/
theorem boxed_shl_feeds_secret_to_div :
    (boxedOverflowingShl 1 [ofNat 1] (ofNat 0)).tr ≠ (boxedOverflowingShl 1 [ofNat 1] (ofNat 1)).tr := by decide

/-- `BoxedUint::overflowing_shr_assign` has the same run-time `%` as the left shift -/
theorem boxed_shr_feeds_secret_to_div :
    (boxedOverflowingShr 1 [ofNat 1] (ofNat 0)).tr ≠ (boxedOverflowingShr 1 [ofNat 1] (ofNat 1)).tr := by decide

/-- safegcd `jump` (behind the NON-vartime `inv_mod`, `inv_odd_mod`, `gcd`, `MontyForm::inv`): the trip count
follows the trailing zeros of `g` and the body branches on the sign of `delta`
(finding C01-safegcd-jump-vartime; the anchor of the property names exactly this loop). -/
theorem jump_leaks : (jump (ofNat 1) (ofNat 2) one).tr ≠ (jump (ofNat 1) (ofNat 4) one).tr := by decide

/-- `UnsatInt::mul` (inside `fg` / `de`, behind the NON-vartime `inv_odd_mod`, `gcd`): multiplying by `+1` and by `−1` gives
different traces — the sign of a transition-matrix entry (secret-derived) steers a branch at source level -/
theorem unsat_mul_sign_leaks :
    (unsatMul 2 [ofNat 5, ofNat 0] (ofNat 1)).tr ≠ (unsatMul 2 [ofNat 5, ofNat 0] Sec.max).tr := by decide

/-- the full `jump` (complete state: i128 `g`, matrix): trip count and branches depend on the operands -/
theorem jump_full_leaks : (jumpFull (ofNat 1) (ofNat 2) one).tr ≠ (jumpFull (ofNat 1) (ofNat 4) one).tr := by decide

/-- `divsteps`: the number of outer trips `iterations(f.bits(), g.bits())` is a loop bound computed from the operands'
bit lengths — the third event of the trace is `declassify 9` for `g = 0` and `declassify 151` for `g = 2^50`
(one unsaturated limb) -/
theorem divsteps_trip_count_leaks :
    (divsteps 1 [one] [ofNat 3] [ofNat 0] (ofNat 5)).tr.getD 2 (.pubIndex 0) ≠
    (divsteps 1 [one] [ofNat 3] [ofNat (2 ^ 50)] (ofNat 5)).tr.getD 2 (.pubIndex 0) := by
  decide +kernel
example : (divsteps 1 [one] [ofNat 3] [ofNat (2 ^ 50)] (ofNat 5)).tr.getD 2 (.pubIndex 0) = .declassify 151 := by decide +kernel

/-- `<Uint as MulMod>::mul_mod(&a, &b, &p)` (src/uint/mul_mod.rs:64-70) is not marked vartime but forwards to
`mul_mod_vartime` → `rem_wide_vartime`: a one-limb modulus and a two-limb modulus give different traces for the same
factors (PROPOSED finding C01-mulmod-trait-vartime-modulus) -/
theorem mul_mod_trait_leaks_modulus :
    (mulModVartime 2 [ofNat 5, ofNat 0] [ofNat 7, ofNat 0] [ofNat 3, ofNat 0]).tr ≠
    (mulModVartime 2 [ofNat 5, ofNat 0] [ofNat 7, ofNat 0] [ofNat 3, ofNat 1]).tr := by decide +kernel

/-- `random_mod`: a stream whose first candidate is accepted and one whose first candidate is rejected give different traces … -/
theorem random_mod_reject_pattern_leaks :
    (randomMod 1 4 [ofNat 5] [ofNat 1, ofNat 2, ofNat 3]).tr ≠ (randomMod 1 4 [ofNat 5] [ofNat 7, ofNat 2, ofNat 3]).tr := by decide
/-- … while two streams with the same accept / reject pattern (different values) give the same trace up to the values
carried by the `branchOn` events of the comparison mask -/
example : (randomMod 1 4 [ofNat 5] [ofNat 1, ofNat 2, ofNat 3]).tr = (randomMod 1 4 [ofNat 5] [ofNat 4, ofNat 9, ofNat 3]).tr := by decide

/-! ## the instrumented model computes what the crate computes (samples; `reveal` is used ONLY here) -/

private def toN (l : List Sec) : Nat := val (l.map Sec.reveal)
private def ofN (n x : Nat) : List Sec := (toLimbs n x).map Sec.ofNat

example : toN (divRem 2 (ofN 2 123456789012345678901234567890) (ofN 2 98765432109876543)).val.1
    = 123456789012345678901234567890 / 98765432109876543 := by decide +kernel
example : toN (divRem 2 (ofN 2 123456789012345678901234567890) (ofN 2 98765432109876543)).val.2
    = 123456789012345678901234567890 % 98765432109876543 := by decide +kernel
example : toN (sqrt 2 (ofN 2 (10 ^ 30))).val = 10 ^ 15 := by decide +kernel
example : toN (overflowingShl 2 (ofN 2 12345) (ofNat 70)).val.1 = 12345 * 2 ^ 70 := by decide +kernel
example : toN (invMod2k 2 (ofN 2 12345) (ofNat 100)).val.1 * 12345 % 2 ^ 100 = 1 := by decide +kernel
example : (bit 2 (ofN 2 (2 ^ 70)) (ofNat 70)).val.reveal = WMAX := by decide +kernel
-- Montgomery exponentiation: modulus m = 2^127 - 25, R = 2^128; operands in Montgomery form; result = x^e·R mod m
example : toN (powBoundedExp 2 (ofN 2 6172839456172839456172839450) (ofN 2 1051570404360395033547316) 80 (ofN 2 170141183460469231731687303715884105703) (ofN 2 50) (ofNat 10330176681277348905)).val
    = 105763472912920239630218373136686542717 := by decide +kernel
example : toN (powBoundedExp 2 (ofN 2 6172839456172839456172839450) (ofN 2 1051570404360395033547316) 13 (ofN 2 170141183460469231731687303715884105703) (ofN 2 50) (ofNat 10330176681277348905)).val
    = 53920603389226841134055357806869035313 := by decide +kernel
example : toN (addMod 2 (ofN 2 90) (ofN 2 20) (ofN 2 97)).val = 13 := by decide +kernel
example : toN (negMod 2 (ofN 2 0) (ofN 2 97)).val = 0 := by decide +kernel
example : (divRemLimb 2 (ofN 2 (2 ^ 127 + 12345)) (ofNat 77)).val.2.reveal = (2 ^ 127 + 12345) % 77 := by decide +kernel

end CB.P01
