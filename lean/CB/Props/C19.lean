/-
  C19 — Random sampling respects its range, is unbiased, and is width-independent.

  Model: CB/Model/Rand.lean (`CB.Rand`): the RNG is the byte-stream fixture of the harness; every
  theorem below quantifies over ALL byte streams `r.rest` (well-formed: bytes `< 256`) and all limb
  counts. Helper lemmas: CB/Lemmas/C19Rand.lean.

  T19.1  range: `random_mod` returns a well-formed value of the modulus' width, `< modulus`
         (`random_mod_range`); `random_bits` returns the consumed bytes mod `2^bit_length`
         (`random_bits_spec`, `random_bits_range`); error kinds exactly as documented
         (`bits_err_*`, `boxed_bits_err_*`, RNG failure iff the stream is shorter than the bytes needed);
         totality of the fuel-indexed loops (`random_mod_total`).
  T19.2  counting: the limb-level sampler equals the value-level rejection sampler on every stream
         (`random_mod_refines`); at value level: acceptance ⇔ candidate `< m` (`spec_accept_lt`,
         definition of `specModLoop`), early rejection discards only candidates `≥ m`
         (`early_reject_sound`), accepted candidates ↔ `[0, m)` is a bijection
         (`candidate_bijection`, `low_bytes_bijection`), and the mask has equal-sized fibres
         (`mask_uniform_fibres`, `modulus_mask_facts`).
         PROSE (not formalised): under an i.i.d. uniform byte stream each round's candidate is
         uniform on `[0, (mhi+1)·B^(k-1)) ⊇ [0, m)` (uniform masked top word conditioned on `≤ mhi`,
         independent uniform low limbs), rounds read disjoint bytes, a round is accepted iff the
         candidate is `< m`; hence the output is uniform on `[0, m)`. For `random_bits` the output
         is `(uniform 8k-byte string) mod 2^bit_length`, uniform on `[0, 2^bit_length)`.
  T19.3  fixed = boxed: `boxed_eq_fixed_mod`, `boxed_eq_fixed_bits` (same value, same consumption,
         same errors, for every stream).
  T19.4  `NonZero` / `Odd`: invariant and exact consumption (`nonzero_*`, `odd_*`); `Limb::random_mod`
         range and refinement of the byte-wise sampler (`limb_random_mod_*`).
  Refinements used as mathematical functions (other properties): bit length of a value, `is_zero`,
  Montgomery round trip of `ConstMontyForm` (C08).
-/
import CB.Lemmas.C19Rand
namespace CB.P19
open CB CB.Rand

/-! ## T19.1 / T19.2 modular sampling -/

/-- T19.1: whatever the stream, an `Ok` result of `Uint::random_mod` is a well-formed value of the
    modulus' width strictly below the modulus. -/
theorem random_mod_range {m : List Nat} (hm : WF m) (h0 : val m ≠ 0) (fuel : Nat) (r : Rng)
    (hr : WFB r.rest) {v : List Nat} {r' : Rng} (h : uintRandomMod fuel r m = .ok v r') :
    v.length = m.length ∧ WF v ∧ val v < val m := by
  unfold uintRandomMod randomModCore at h
  by_cases h8 : 8 ≤ r.rest.length
  · rw [nextU64_eq_some h8] at h
    simp only at h
    have ctx := modCtx_of hm h0
    have hnl : (bitsVartime m + 63) / 64 = nLimbs (val m) := rfl
    rw [hnl] at h
    rw [ctx.msk] at h
    have := modLoop_ok_shape _ ctx fuel (uzero m.length) _ ⟨r.rest.drop 8, r.used + 8⟩
      (uzero_length _) (uzero_drop _ _) (mod_two_pow_lt_B ctx.b64 _) (WFB_drop hr 8) h
    exact ⟨this.1, this.2.1, this.2.2.1⟩
  · rw [nextU64_eq_none (Nat.lt_of_not_le h8)] at h; cases h

/-- the fuel-indexed model is total: with more fuel than remaining bytes it never stops for lack of
    fuel (the driver uses `fuel = length + 2`) -/
theorem random_mod_total (m : List Nat) (fuel : Nat) (r : Rng) (hr : WFB r.rest)
    (hf : r.rest.length < fuel) : uintRandomMod fuel r m ≠ .fuel := by
  unfold uintRandomMod randomModCore
  by_cases h8 : 8 ≤ r.rest.length
  · rw [nextU64_eq_some h8]
    exact modLoop_fuel _ _ _ _ _ _ _ _ (WFB_drop hr 8) (by simp [List.length_drop]; omega)
  · rw [nextU64_eq_none (Nat.lt_of_not_le h8)]; intro h; cases h

/-- T19.2 (refinement): on every stream the limb-level sampler (mask, early rejection, borrow-chain
    comparison, buffer writes) returns exactly the value and consumption of the value-level
    rejection sampler `specRandomMod` (printed as `L0` by the driver). -/
theorem random_mod_refines {m : List Nat} (hm : WF m) (h0 : val m ≠ 0) (fuel : Nat) (bs : List Nat)
    (hb : WFB bs) :
    toSpec (uintRandomMod fuel ⟨bs, 0⟩ m) = specRandomMod fuel (val m) bs := by
  have ctx := modCtx_of hm h0
  have ⟨e, _, _⟩ := mhi_facts hm h0
  unfold uintRandomMod randomModCore specRandomMod
  have hnl : (bitsVartime m + 63) / 64 = nLimbs (val m) := rfl
  have hnl' : (bitLen (val m) + 63) / 64 = nLimbs (val m) := rfl
  simp only [hnl, hnl']
  rw [← e]
  by_cases h8 : 8 ≤ bs.length
  · rw [nextU64_eq_some (r := ⟨bs, 0⟩) h8]
    simp only [specDraw, Nat.not_lt.mpr h8, if_false]
    rw [ctx.msk]
    exact modLoop_refines _ ctx fuel (uzero m.length) _ ⟨bs.drop 8, 0 + 8⟩
      (uzero_length _) (uzero_drop _ _) (mod_two_pow_lt_B ctx.b64 _) (WFB_drop hb 8)
  · rw [nextU64_eq_none (r := ⟨bs, 0⟩) (Nat.lt_of_not_le h8)]
    simp only [specDraw, Nat.lt_of_not_le h8, if_true]
    rfl

/-- T19.2: the value-level sampler accepts only candidates below `m` (and by definition accepts the
    first candidate `c` with `c < m`: the test in `specModLoop` is literally `c < m`). -/
theorem spec_accept_lt (m k mhi b f hi : Nat) (bs : List Nat) (used : Nat) {c u : Nat}
    (h : specModLoop m k mhi b f hi bs used = some (c, u)) : c < m := by
  induction f generalizing hi bs used with
  | zero => simp [specModLoop] at h
  | succ f ih =>
    unfold specModLoop at h
    split at h
    · split at h
      · cases h
      · exact ih _ _ _ h
    · split at h
      · cases h
      · split at h
        · rename_i hlt
          cases h; exact hlt
        · split at h
          · cases h
          · exact ih _ _ _ h

/-- T19.2: early rejection is sound — a top word above the modulus' top limb makes the candidate
    `≥ m` whatever the low limbs are, so only never-acceptable candidates are discarded early. -/
theorem early_reject_sound {m K hi lo : Nat} (hK : 0 < K) (h : hi > m / K) : m ≤ lo + K * hi := by
  have h1 : m < K * (m / K + 1) := Nat.lt_mul_div_succ m hK
  have h2 : K * (m / K + 1) ≤ K * hi := Nat.mul_le_mul_left K h
  omega

/-- T19.2: candidates not rejected early (`lo < K = B^(k-1)`, `hi ≤ mhi = m / K`) that are accepted
    are in bijection with `[0, m)`: every `v < m` is the value of exactly one of them. -/
theorem candidate_bijection {m K : Nat} (hK : 0 < K) {v : Nat} (hv : v < m) :
    (v % K < K ∧ v / K ≤ m / K ∧ v % K + K * (v / K) = v) ∧
    ∀ lo hi, lo < K → lo + K * hi = v → lo = v % K ∧ hi = v / K := by
  refine ⟨⟨Nat.mod_lt _ hK, Nat.div_le_div_right (Nat.le_of_lt hv), Nat.mod_add_div v K⟩, ?_⟩
  intro lo hi hlo e
  have := (Nat.div_mod_unique (a := v) (b := K) (c := lo) (d := hi) hK).mpr ⟨e, hlo⟩
  exact ⟨this.2.symm, this.1.symm⟩

/-- T19.2: the low limbs of a candidate are the next `n` bytes read little-endian, and byte strings
    of length `n` are in bijection with `[0, 256^n)` (`n = 8(k-1)`, `256^n = B^(k-1)`). -/
theorem low_bytes_bijection (n : Nat) {lo : Nat} (hlo : lo < 256 ^ n) :
    (WFB (toBytes n lo) ∧ (toBytes n lo).length = n ∧ leBytes (toBytes n lo) = lo) ∧
    ∀ bs, WFB bs → bs.length = n → leBytes bs = lo → bs = toBytes n lo := by
  refine ⟨⟨toBytes_WFB n lo, toBytes_length n lo, by rw [leBytes_toBytes, Nat.mod_eq_of_lt hlo]⟩, ?_⟩
  intro bs hw hl hv
  rw [← hv, ← hl]
  exact (toBytes_leBytes hw).symm

/-- T19.2: masking a uniform word gives a uniform `b`-bit value: the words mapped to a given `h < 2^b`
    are exactly `h + 2^b·t`, `t < 2^(64-b)` — every fibre has `2^(64-b)` elements. -/
theorem mask_uniform_fibres {b : Nat} (hb : b ≤ 64) {h : Nat} (hh : h < 2 ^ b) (w : Nat) :
    (w < B ∧ w % 2 ^ b = h) ↔ ∃ t, t < 2 ^ (64 - b) ∧ w = h + 2 ^ b * t :=
  mask_fibre hb hh w

/-- T19.2: the parameters the code derives from a non-zero modulus: the mask is `w ↦ w mod 2^b`
    with `b` the bit length of the top significant limb `mhi = m / B^(k-1)`; `mhi` itself survives
    the mask (`mhi < 2^b`) and at least half of the masked words pass the early test
    (`2^b ≤ 2·mhi + 1`... stated as `2^(b-1) ≤ mhi`). -/
theorem modulus_mask_facts {m : List Nat} (hm : WF m) (h0 : val m ≠ 0) :
    let k := nLimbs (val m)
    let mhi := m.getD (k - 1) 0
    1 ≤ k ∧ k ≤ m.length ∧ mhi = val m / B ^ (k - 1) ∧ 0 < mhi ∧ mhi < 2 ^ bitLen mhi ∧
    2 ^ (bitLen mhi - 1) ≤ mhi ∧ bitLen mhi ≤ 64 ∧
    ∀ x, x &&& (WMAX >>> leadingZeros64 mhi) = x % 2 ^ bitLen mhi := by
  have ctx := modCtx_of hm h0
  have ⟨e, hlt, hpos⟩ := mhi_facts hm h0
  refine ⟨ctx.nl1, ctx.nlN, e, by rw [e]; exact hpos, lt_two_pow_bitLen _, ?_, ctx.b64, ctx.msk⟩
  apply two_pow_bitLen_le
  rw [e]; omega

/-! ## T19.1 bit-bounded sampling and its errors -/

/-- errors exactly as documented (fixed width): precision mismatch is reported first … -/
theorem bits_err_precision (r : Rng) (n bl bp : Nat) (h : bp ≠ 64 * n) :
    uintRandomBitsWP r n bl bp = .precisionMismatch bp (64 * n) := by
  simp [uintRandomBitsWP, h]

/-- … then a bit length above the width … -/
theorem bits_err_length (r : Rng) (n bl : Nat) (h : bl > 64 * n) :
    uintRandomBitsWP r n bl (64 * n) = .bitLengthTooLarge bl (64 * n) := by
  simp [uintRandomBitsWP, h]

/-- … and otherwise the sampler runs (no other error kind exists). -/
theorem bits_no_err (r : Rng) (n bl : Nat) (h : bl ≤ 64 * n) :
    uintRandomBitsWP r n bl (64 * n) = .out (randomBitsCore r (uzero n) bl) := by
  simp [uintRandomBitsWP, Nat.not_lt.mpr h]

theorem bits_default_precision (r : Rng) (n bl : Nat) :
    uintRandomBits r n bl = uintRandomBitsWP r n bl (64 * n) := rfl

/-- boxed: the only documented error is `bit_length > bits_precision` -/
theorem boxed_bits_err_length (r : Rng) (bl bp : Nat) (h : bl > bp) :
    boxedRandomBitsWP r bl bp = .bitLengthTooLarge bl bp := by
  simp [boxedRandomBitsWP, h]

theorem boxed_bits_no_err (r : Rng) (bl bp : Nat) (h : bl ≤ bp) :
    boxedRandomBitsWP r bl bp = .out (randomBitsCore r (zeroWithPrecision bp) bl) := by
  simp [boxedRandomBitsWP, Nat.not_lt.mpr h]

/-- `BoxedUint::try_random_bits(rng, bl)` never reports a length error -/
theorem boxed_bits_default (r : Rng) (bl : Nat) :
    boxedRandomBits r bl = .out (randomBitsCore r (zeroWithPrecision bl) bl) :=
  boxed_bits_no_err r bl bl (Nat.le_refl _)

/-- T19.1 + T19.2 for `random_bits_core`: on every stream with at least `bitsBytes bl` bytes the
    result is a well-formed `N`-limb value equal to the consumed bytes read little-endian, reduced
    mod `2^bl` (so `< 2^bl`, and uniform for a uniform stream: `x ↦ x mod 2^bl` on `[0, 256^k)` has
    equal fibres); exactly `bitsBytes bl` bytes are consumed (the 4-byte tail rule); with fewer
    bytes the RNG error surfaces after the whole words that could be served. -/
theorem random_bits_spec (r : Rng) (hr : WFB r.rest) (N bl : Nat) (hbl : bl ≤ 64 * N) :
    (bitsBytes bl ≤ r.rest.length →
      ∃ v r', randomBitsCore r (uzero N) bl = .ok v r' ∧ v.length = N ∧ WF v ∧
        val v = leBytes (r.rest.take (bitsBytes bl)) % 2 ^ bl ∧
        r'.used = r.used + bitsBytes bl ∧ r'.rest = r.rest.drop (bitsBytes bl)) ∧
    (r.rest.length < bitsBytes bl →
      ∃ r', randomBitsCore r (uzero N) bl = .rngErr r' ∧
        r'.used = r.used + 8 * min ((bl + 63) / 64 - 1) (r.rest.length / 8)) :=
  randomBitsCore_spec r hr N bl hbl

/-- the same against the `L0` function printed by the driver -/
theorem random_bits_refines (bs : List Nat) (hb : WFB bs) (N bl : Nat) (hbl : bl ≤ 64 * N) :
    (toSpec (randomBitsCore ⟨bs, 0⟩ (uzero N) bl)).map (·.1) = specRandomBits bl bs := by
  unfold specRandomBits
  by_cases hl : bitsBytes bl ≤ bs.length
  · have ⟨v, r', e, _, _, vv, _, _⟩ := (randomBitsCore_spec ⟨bs, 0⟩ hb N bl hbl).1 hl
    rw [e]; simp [toSpec, vv, Nat.not_lt.mpr hl]
  · have ⟨r', e, _⟩ := (randomBitsCore_spec ⟨bs, 0⟩ hb N bl hbl).2 (Nat.lt_of_not_le hl)
    rw [e]; simp [toSpec, Nat.lt_of_not_le hl]

/-- T19.1: bit-bounded sampling returns a value below `2^bit_length` -/
theorem random_bits_range (r : Rng) (hr : WFB r.rest) (N bl : Nat) (hbl : bl ≤ 64 * N)
    {v : List Nat} {r' : Rng} (h : randomBitsCore r (uzero N) bl = .ok v r') :
    v.length = N ∧ WF v ∧ val v < 2 ^ bl := by
  by_cases hl : bitsBytes bl ≤ r.rest.length
  · have ⟨v', r'', e, l, w, vv, _, _⟩ := (randomBitsCore_spec r hr N bl hbl).1 hl
    rw [e] at h; cases h
    exact ⟨l, w, by rw [vv]; exact Nat.mod_lt _ (Nat.two_pow_pos _)⟩
  · have ⟨r'', e, _⟩ := (randomBitsCore_spec r hr N bl hbl).2 (Nat.lt_of_not_le hl)
    rw [e] at h; cases h

/-- the RNG error of `random_bits` arises exactly when the stream is shorter than `bitsBytes bl` -/
theorem random_bits_rng_err_iff (r : Rng) (hr : WFB r.rest) (N bl : Nat) (hbl : bl ≤ 64 * N) :
    (∃ r', randomBitsCore r (uzero N) bl = .rngErr r') ↔ r.rest.length < bitsBytes bl := by
  constructor
  · intro ⟨r', e⟩
    by_cases hl : bitsBytes bl ≤ r.rest.length
    · have ⟨_, _, e', _⟩ := (randomBitsCore_spec r hr N bl hbl).1 hl
      rw [e'] at e; cases e
    · exact Nat.lt_of_not_le hl
  · intro hl
    have ⟨r', e, _⟩ := (randomBitsCore_spec r hr N bl hbl).2 hl
    exact ⟨r', e⟩

/-! ## T19.3 fixed and boxed integers of the same width -/

/-- T19.3: `BoxedUint::random_mod` with an `n`-limb modulus is the same function of the stream as
    `Uint::<n>::random_mod`: same value, same bytes consumed, same failure point. -/
theorem boxed_eq_fixed_mod {m : List Nat} (hm : WF m) (hl : 1 ≤ m.length) (fuel : Nat) (r : Rng) :
    boxedRandomMod fuel r m = uintRandomMod fuel r m := by
  unfold boxedRandomMod uintRandomMod
  rw [zeroWithPrecision_limbs hl, boxedBits_eq hm]

/-- T19.3: `BoxedUint::try_random_bits_with_precision(_, bl, 64n)` = `Uint::<n>::try_random_bits(_, bl)`,
    including the error cases. -/
theorem boxed_eq_fixed_bits (r : Rng) {n : Nat} (hn : 1 ≤ n) (bl : Nat) :
    boxedRandomBitsWP r bl (64 * n) = uintRandomBits r n bl := by
  unfold boxedRandomBitsWP uintRandomBits uintRandomBitsWP
  rw [zeroWithPrecision_limbs hn]
  simp

/-! ## T19.4 `NonZero`, `Odd`, `Limb`, `ConstMontyForm` -/

/-- `NonZero::<Uint>::random` never returns zero, on any stream -/
theorem nonzero_uint_invariant (fuel : Nat) (r : Rng) (N : Nat) {v : List Nat} {r' : Rng}
    (h : nonZeroUintRandom fuel r N = .ok v r') : val v ≠ 0 := by
  have := nonZeroLoop_ok _ _ fuel r h
  simpa using this

theorem nonzero_limb_invariant (fuel : Nat) (r : Rng) {v : Nat} {r' : Rng}
    (h : nonZeroLimbRandom fuel r = .ok v r') : v ≠ 0 := by
  have := nonZeroLoop_ok _ _ fuel r h
  simpa using this

/-- `NonZero::<Uint<N>>::random` returns the first non-zero `N`-word candidate of the stream and
    consumes exactly `i + 1` candidates (`8N(i+1)` bytes) when that candidate is at position `i`. -/
theorem nonzero_uint_first (N i fuel : Nat) (r : Rng) (hr : WFB r.rest)
    (hz : ∀ j, j < i → leBytes ((r.rest.drop (8 * N * j)).take (8 * N)) = 0)
    (hnz : leBytes ((r.rest.drop (8 * N * i)).take (8 * N)) ≠ 0)
    (hlen : 8 * N * (i + 1) ≤ r.rest.length) (hf : i < fuel) :
    ∃ v r', nonZeroUintRandom fuel r N = .ok v r' ∧ v.length = N ∧ WF v ∧
      val v = leBytes ((r.rest.drop (8 * N * i)).take (8 * N)) ∧
      r'.used = r.used + 8 * N * (i + 1) :=
  nonZeroUint_first N i fuel r hr hz hnz hlen hf

/-- `Uint::<N>::random`: the next `8N` bytes read little-endian, exactly `8N` bytes consumed -/
theorem uint_random_spec (N : Nat) (r : Rng) (hr : WFB r.rest) (hl : 8 * N ≤ r.rest.length) :
    ∃ v r', uintRandom r N = .ok v r' ∧ v.length = N ∧ WF v ∧
      val v = leBytes (r.rest.take (8 * N)) ∧ r'.used = r.used + 8 * N := by
  have ⟨ws, r', e, l, w, v, _, u⟩ := (lowLoop_spec N r hr).1 hl
  exact ⟨ws, r', e, l, w, v, u⟩

/-- `Odd::<Uint<N>>::random` (`N ≥ 1`): the result is odd, well formed, equals the raw candidate with
    bit 0 forced (`2⌊x/2⌋+1`: each odd value has exactly the two preimages `v-1`, `v`), and exactly
    one candidate (`8N` bytes) is consumed. -/
theorem odd_uint_spec (N : Nat) (hN : 1 ≤ N) (r : Rng) (hr : WFB r.rest) (hl : 8 * N ≤ r.rest.length) :
    ∃ v r', oddUintRandom r N = .ok v r' ∧ v.length = N ∧ WF v ∧ val v % 2 = 1 ∧
      val v = 2 * (leBytes (r.rest.take (8 * N)) / 2) + 1 ∧ r'.used = r.used + 8 * N := by
  have ⟨ws, r', e, l, w, v, _, u⟩ := (lowLoop_spec N r hr).1 hl
  have hne : ws ≠ [] := by intro h; rw [h] at l; simp at l; omega
  have ⟨sl, sw, sv⟩ := setLowBit_facts w hne
  refine ⟨setLowBit ws, r', ?_, by rw [sl, l], sw, by rw [sv]; omega, by rw [sv, v], u⟩
  unfold oddUintRandom uintRandom
  rw [e]; rfl

/-- odd invariant for every outcome (no stream-length assumption) -/
theorem odd_uint_invariant (N : Nat) (hN : 1 ≤ N) (r : Rng) (hr : WFB r.rest) {v : List Nat} {r' : Rng}
    (h : oddUintRandom r N = .ok v r') : val v % 2 = 1 := by
  by_cases hl : 8 * N ≤ r.rest.length
  · have ⟨v', r'', e, _, _, o, _, _⟩ := odd_uint_spec N hN r hr hl
    rw [e] at h; cases h; exact o
  · have ⟨r'', e, _, _⟩ := (lowLoop_spec N r hr).2 (Nat.lt_of_not_le hl)
    unfold oddUintRandom uintRandom at h
    rw [e] at h; cases h

/-- `ConstMontyForm::random` draws exactly like `Uint::random_mod` with the constant modulus
    (the Montgomery round trip observed through `retrieve()` is the identity: C08). -/
theorem const_monty_random_eq (fuel : Nat) (r : Rng) (m : List Nat) :
    constMontyRandom fuel r m = uintRandomMod fuel r m := rfl

/-- `Limb::random_mod`: the byte-buffer loop (buffer kept across iterations, top byte masked) equals,
    on every stream, the byte-wise value-level sampler: each candidate is the next `⌈bits m / 8⌉`
    bytes little-endian reduced mod `2^(bits m)`, accepted iff `< m` (`ct_lt` = `from_word_lt`);
    same value, same bytes consumed. Uniformity follows as for `random_mod`. -/
theorem limb_random_mod_refines {m : Nat} (h0 : m ≠ 0) (hm : m < B) (fuel : Nat) (bs : List Nat)
    (hb : WFB bs) :
    toSpecL (limbRandomMod fuel ⟨bs, 0⟩ m) = specLimbRandomMod fuel m bs :=
  limbRandomMod_refines h0 hm fuel bs hb

/-- `Limb::random_mod` result `< m` on every stream -/
theorem limb_random_mod_range {m : Nat} (hm : m < B) (fuel : Nat) (r : Rng) (hr : WFB r.rest)
    {v : Nat} {r' : Rng} (h : limbRandomMod fuel r m = .ok v r') : v < m := by
  unfold limbRandomMod at h
  have hb : bitLen m ≤ 64 := bitLen_le (by rw [← B_eq_pow]; exact hm)
  exact limbModLoop_ok hm (by omega) rfl (by intro x hx; simp at hx; omega) hr h

/-! ## the hypotheses are satisfiable: concrete runs -/

/-- two-limb modulus `2^64 + 1`: top word `1`, low word `0` → candidate `2^64 < m`, 16 bytes -/
example : toSpec (uintRandomMod 50 ⟨[1,0,0,0,0,0,0,0, 0,0,0,0,0,0,0,0, 9], 0⟩ [1, 1])
    = some (18446744073709551616, 16) := by decide +kernel

/-- modulus 42: `0xff & 0x3f = 63 > 42` rejected, then `41` accepted: 16 bytes -/
example : toSpec (uintRandomMod 50 ⟨[255,0,0,0,0,0,0,0, 41,0,0,0,0,0,0,0], 0⟩ [42])
    = some (41, 16) := by decide +kernel

/-- 33 bits into two limbs: 8 bytes consumed, bit 32 kept -/
example : specRandomBits 33 [1,2,3,4,5,6,7,8,9] = some 4362273281 := by decide +kernel
example : bitsBytes 65 = 12 ∧ bitsBytes 97 = 16 ∧ bitsBytes 64 = 8 ∧ bitsBytes 32 = 4 := by decide

end CB.P19
