/-
  C20 — the integer square root is the exact floor for every input.
  Property theorems only (helper lemmas: CB/Lemmas/C20Newton.lean, CB/Lemmas/C20Model.lean).
  Every theorem quantifies over all limb counts `a.length ≥ 1` and all operand values.

  Model: CB/Model/Sqrt.lean.  Value-level calls inside the model are discharged elsewhere:
  division `v / x` by C02, `bits`/`shl`/`shr1` by C05, wrapping addition by C04, select / compare /
  `ct_eq` by C06, `wrapping_mul` by C03.

  T20.1  Newton step lemmas and the vartime forms (full).
  T20.2  constant-time forms (full): the fixed round count `⌊log₂ BITS⌋ + k` of the code suffices
         for every `k ≥ 1`; the code's `k` is read from the source (`CB.Extracted.sqrtExtraRounds`,
         `sqrtExtraRoundsBoxed`) and `rounds_suffice` / `rounds_suffice_boxed` are the only places the
         proof depends on it.  (`H_sqrt_conv` of DESIGN.md is therefore proved, not assumed.)
  T20.3  checked forms are `some` exactly on perfect squares; wrapping aliases; `s² ≤ x < (s+1)²`.
-/
import CB.Lemmas.C20Model
namespace CB.P20
open CB CB.Sqrt

/-! ### T20.1 — Newton step lemmas -/

/-- every step from a positive point lands at or above `⌊√v⌋` -/
theorem newton_ge_sqrt {v x : Nat} (hx : 0 < x) : Nat.sqrt v ≤ newton v x := sqrt_le_newton hx

/-- above `⌊√v⌋` the step strictly decreases -/
theorem newton_decreases {v x : Nat} (h : Nat.sqrt v < x) : newton v x < x := newton_lt h

/-- at or above `⌊√v⌋`, a step fails to decrease exactly at `⌊√v⌋` -/
theorem newton_nondecrease_iff {v x : Nat} (hx : 0 < x) (h : Nat.sqrt v ≤ x) :
    x ≤ newton v x ↔ x = Nat.sqrt v := by
  constructor
  · intro hle
    rcases Nat.eq_or_lt_of_le h with e | hlt
    · exact e.symm
    · have := newton_lt hlt; omega
  · intro e
    exact le_newton hx (Nat.le_of_eq e)

/-- iterates from a start `≥ ⌊√v⌋` stay `≥ ⌊√v⌋` -/
theorem iterates_ge_sqrt (v x0 : Nat) (h0 : Nat.sqrt v ≤ x0) (k : Nat) :
    Nat.sqrt v ≤ newtonIter v x0 k := by
  rcases Nat.eq_zero_or_pos v with hv | hv
  · subst hv
    have : Nat.sqrt 0 = 0 := by decide
    omega
  · induction k with
    | zero => exact h0
    | succ k ih =>
      exact sqrt_le_newton (Nat.lt_of_lt_of_le (sqrt_pos_of_pos hv) ih)

/-- the sequence decreases strictly until it reaches `⌊√v⌋` -/
theorem iterates_strictly_decrease (v x0 k : Nat) (h : Nat.sqrt v < newtonIter v x0 k) :
    newtonIter v x0 (k + 1) < newtonIter v x0 k := newton_lt h

/-- the first non-decrease happens exactly at `⌊√v⌋` -/
theorem first_nondecrease_at_sqrt {v x0 : Nat} (hv : 0 < v) (h0 : Nat.sqrt v ≤ x0) (k : Nat) :
    newtonIter v x0 k ≤ newtonIter v x0 (k + 1) ↔ newtonIter v x0 k = Nat.sqrt v := by
  have hge := iterates_ge_sqrt v x0 h0 k
  exact newton_nondecrease_iff (Nat.lt_of_lt_of_le (sqrt_pos_of_pos hv) hge) hge

/-- the code's initial guess `2^⌈bits/2⌉` is above `⌊√v⌋` and at most `2·√v` -/
theorem initial_guess_bounds {v : Nat} (hv : 0 < v) :
    Nat.sqrt v < 2 ^ sqrtShift v ∧ 2 ^ sqrtShift v * 2 ^ sqrtShift v ≤ 4 * v :=
  ⟨sqrt_lt_iff.mpr (start_bounds hv).1, (start_bounds hv).2⟩

/-! ### the round count -/

/-- quadratic convergence: `⌊log₂ BITS⌋ + 1` Newton steps from the code's initial guess reach
    `⌊√v⌋` for every non-zero `v < 2^BITS`. -/
theorem converges_within_log2_bits_plus_one {n v : Nat} (hv : v < B ^ n) (hv0 : 0 < v) :
    ∃ j, j ≤ log2Bits n + 1 ∧ newtonIter v (2 ^ sqrtShift v) j = Nat.sqrt v :=
  hit_within_log2Bits hv hv0

/-- the round count written in `Uint::sqrt` (`LOG2_BITS + 2`, the `2` regenerated from the source)
    is at least the proved bound. This is the only use of the extracted constant. -/
theorem rounds_suffice (n : Nat) : log2Bits n + 1 ≤ sqrtRounds n := by
  have : 1 ≤ Extracted.sqrtExtraRounds := by decide
  unfold sqrtRounds; omega

/-- same for `BoxedUint::sqrt` (`self.log2_bits() + 2`). -/
theorem rounds_suffice_boxed (n : Nat) : log2Bits n + 1 ≤ sqrtRoundsBoxed n := by
  have : 1 ≤ Extracted.sqrtExtraRoundsBoxed := by decide
  unfold sqrtRoundsBoxed; omega

set_option exponentiation.threshold 600 in
/-- `⌊log₂ BITS⌋` rounds alone (the count suggested by the `TODO (#378)` in the source) are NOT
    enough: for this 7-limb operand the 8th and 9th iterates are `s + 1`, `s`, so `min(x_7, x_8)`
    would be `s + 1`. -/
theorem log2_bits_rounds_not_enough :
    let v := 2 ^ 444 + 2 ^ 224 + 3
    let s := 2 ^ 222 + 1
    s * s ≤ v ∧ v < (s + 1) * (s + 1) ∧ v < B ^ 7 ∧ log2Bits 7 = 8 ∧ 2 ^ sqrtShift v = 2 ^ 223 ∧
    newtonIter v (2 ^ 223) 7 > s + 1 ∧ newtonIter v (2 ^ 223) 8 = s + 1 ∧
    newtonIter v (2 ^ 223) 9 = s := by
  decide

/-! ### results as limb lists -/

theorem sqrt_lt_Bpow {n v : Nat} (hv : v < B ^ n) : Nat.sqrt v < B ^ n := by
  have h1 := sqrt_sq_le v
  have h2 : Nat.sqrt v ≤ Nat.sqrt v * Nat.sqrt v := Nat.le_mul_self _
  omega

/-- the limb list printed for `⌊√v⌋` has the operand's limb count, is well formed and has value `⌊√v⌋` -/
theorem root_limbs {a : List Nat} (ha : WF a) :
    (toLimbs a.length (Nat.sqrt (val a))).length = a.length ∧
    WF (toLimbs a.length (Nat.sqrt (val a))) ∧
    val (toLimbs a.length (Nat.sqrt (val a))) = Nat.sqrt (val a) :=
  ⟨toLimbs_length _ _, toLimbs_WF _ _, by
    rw [val_toLimbs, Nat.mod_eq_of_lt (sqrt_lt_Bpow (val_lt ha))]⟩

theorem length_pos_of_ne_nil {a : List Nat} (h : a ≠ []) : 1 ≤ a.length := by
  cases a with
  | nil => exact absurd rfl h
  | cons x xs => simp

/-! ### T20.1 — vartime forms -/

/-- T20.1 `Uint::sqrt_vartime` returns `⌊√x⌋` for every operand (never panics; the loop ends
    within `BITS` iterations). -/
theorem sqrt_vartime_exact {a : List Nat} (ha : WF a) (hne : a ≠ []) :
    uintSqrtVartime a = some (toLimbs a.length (Nat.sqrt (val a))) := by
  have hn := length_pos_of_ne_nil hne
  have hv := val_lt ha
  unfold uintSqrtVartime
  simp only []
  by_cases hv0 : val a = 0
  · rw [if_pos hv0, hv0]; rfl
  · have hpos : 0 < val a := by omega
    rw [if_neg hv0, sqrtInit_eq hn hv]
    simp only []
    obtain ⟨j, hj, e⟩ := hit_within_log2Bits hv hpos
    have hf := log2Bits_fuel hn
    have := sqrtVtLoop_eq hn hv hpos (sqrtFuel a.length) 0 ⟨j, by omega, by omega, e⟩
    rw [newtonIter_zero] at this
    rw [this]

/-- T20.1 `BoxedUint::sqrt_vartime` returns `⌊√x⌋` for every operand. -/
theorem boxed_sqrt_vartime_exact {a : List Nat} (ha : WF a) (hne : a ≠ []) :
    boxedSqrtVartime a = some (toLimbs a.length (Nat.sqrt (val a))) := by
  have hn := length_pos_of_ne_nil hne
  have hv := val_lt ha
  unfold boxedSqrtVartime
  simp only []
  rw [bsqrtInit_eq hn hv]
  by_cases hv0 : val a = 0
  · rw [hv0, sqrtShift_zero]
    have hf : sqrtFuel a.length = (sqrtFuel a.length - 2) + 1 + 1 := by unfold sqrtFuel; omega
    rw [hf, sqrtVtLoop_succ]
    have h1 : (1 + 0 / 1) % B ^ a.length / 2 = 0 := by
      simp [Nat.mod_eq_of_lt (one_lt_Bpow hn)]
    simp only [Nat.pow_zero, h1]
    rw [if_neg (by decide), if_pos (by decide), sqrtVtLoop_succ, if_pos rfl]
    rfl
  · have hpos : 0 < val a := by omega
    obtain ⟨j, hj, e⟩ := hit_within_log2Bits hv hpos
    have hf := log2Bits_fuel hn
    have := sqrtVtLoop_eq hn hv hpos (sqrtFuel a.length) 0 ⟨j, by omega, by omega, e⟩
    rw [newtonIter_zero] at this
    rw [this]
    simp only [bne_iff_ne, ne_eq, hv0, not_false_eq_true, if_true]

/-! ### T20.2 — constant-time forms -/

/-- the constant-time loop followed by the `min` selection yields `⌊√v⌋` for ANY round count
    `R ≥ ⌊log₂ BITS⌋ + 1`. -/
theorem ct_loop_min {n v R : Nat} (hn : 1 ≤ n) (hv : v < B ^ n) (hR : log2Bits n + 1 ≤ R) :
    (if (sqrtCtLoop n v R (2 ^ sqrtShift v) (2 ^ sqrtShift v)).1 >
        (sqrtCtLoop n v R (2 ^ sqrtShift v) (2 ^ sqrtShift v)).2
      then (sqrtCtLoop n v R (2 ^ sqrtShift v) (2 ^ sqrtShift v)).2
      else (sqrtCtLoop n v R (2 ^ sqrtShift v) (2 ^ sqrtShift v)).1) = Nat.sqrt v := by
  obtain ⟨r, rfl⟩ : ∃ r, R = r + 1 := ⟨R - 1, by omega⟩
  rcases Nat.eq_zero_or_pos v with hv0 | hv0
  · subst hv0
    rw [sqrtShift_zero]
    have : Nat.sqrt 0 = 0 := by decide
    rcases sqrtCtLoop_zero hn r with h | h <;> simp [h, this]
  · have h := sqrtCtLoop_eq hn hv hv0 r 0 (2 ^ sqrtShift v)
    rw [newtonIter_zero] at h
    rw [h]
    simp only [Nat.zero_add]
    obtain ⟨j, hj, e⟩ := hit_within_log2Bits hv hv0
    exact newton_min hv0 (sqrt_lt_iff.mpr (start_bounds hv0).1) ⟨j, by omega, e⟩

theorem boxed_ct_loop_min {n v R : Nat} (hn : 1 ≤ n) (hv : v < B ^ n) (hR : log2Bits n + 1 ≤ R) :
    (if (bsqrtCtLoop n v R (2 ^ sqrtShift v) (2 ^ sqrtShift v) (2 ^ sqrtShift v)).1 >
        (bsqrtCtLoop n v R (2 ^ sqrtShift v) (2 ^ sqrtShift v) (2 ^ sqrtShift v)).2
      then (bsqrtCtLoop n v R (2 ^ sqrtShift v) (2 ^ sqrtShift v) (2 ^ sqrtShift v)).2
      else (bsqrtCtLoop n v R (2 ^ sqrtShift v) (2 ^ sqrtShift v) (2 ^ sqrtShift v)).1) =
      Nat.sqrt v := by
  obtain ⟨r, rfl⟩ : ∃ r, R = r + 1 := ⟨R - 1, by omega⟩
  rcases Nat.eq_zero_or_pos v with hv0 | hv0
  · subst hv0
    rw [sqrtShift_zero]
    have : Nat.sqrt 0 = 0 := by decide
    rcases bsqrtCtLoop_zero hn r with h | h <;> simp [h, this]
  · have h := bsqrtCtLoop_eq hn hv hv0 r 0 (2 ^ sqrtShift v) (2 ^ sqrtShift v)
    rw [newtonIter_zero] at h
    rw [h]
    simp only [Nat.zero_add]
    obtain ⟨j, hj, e⟩ := hit_within_log2Bits hv hv0
    exact newton_min hv0 (sqrt_lt_iff.mpr (start_bounds hv0).1) ⟨j, by omega, e⟩

/-- T20.2 `Uint::sqrt` (constant time, fixed round count, zero-divisor masking, `min` selection)
    returns `⌊√x⌋` for every operand and never panics. -/
theorem sqrt_exact {a : List Nat} (ha : WF a) (hne : a ≠ []) :
    uintSqrt a = some (toLimbs a.length (Nat.sqrt (val a))) := by
  have hn := length_pos_of_ne_nil hne
  have hv := val_lt ha
  unfold uintSqrt
  simp only []
  rw [sqrtInit_eq hn hv]
  simp only []
  rw [ct_loop_min hn hv (rounds_suffice _)]

/-- T20.2 `BoxedUint::sqrt` returns `⌊√x⌋` for every operand. -/
theorem boxed_sqrt_exact {a : List Nat} (ha : WF a) (hne : a ≠ []) :
    boxedSqrt a = toLimbs a.length (Nat.sqrt (val a)) := by
  have hn := length_pos_of_ne_nil hne
  have hv := val_lt ha
  unfold boxedSqrt
  simp only []
  rw [bsqrtInit_eq hn hv, boxed_ct_loop_min hn hv (rounds_suffice_boxed _)]

/-! ### T20.3 — bracket, wrapping aliases, checked forms -/

/-- the returned `s` is the unique number with `s² ≤ x < (s+1)²` -/
theorem floor_sqrt_bracket (v s : Nat) :
    s = Nat.sqrt v ↔ s * s ≤ v ∧ v < (s + 1) * (s + 1) := by
  constructor
  · intro e; subst e; exact ⟨sqrt_sq_le v, lt_sqrt_succ_sq v⟩
  · intro ⟨h1, h2⟩; exact sqrt_unique h1 h2

/-- all four square-root forms of `Uint` and `BoxedUint` return a limb list `r` with
    `(val r)² ≤ val a < (val r + 1)²`. -/
theorem sqrt_results_bracket {a : List Nat} (ha : WF a) (hne : a ≠ []) :
    ∃ r, uintSqrt a = some r ∧ uintSqrtVartime a = some r ∧ boxedSqrt a = r ∧
      boxedSqrtVartime a = some r ∧ r.length = a.length ∧ WF r ∧
      val r * val r ≤ val a ∧ val a < (val r + 1) * (val r + 1) := by
  obtain ⟨h1, h2, h3⟩ := root_limbs ha
  refine ⟨_, sqrt_exact ha hne, sqrt_vartime_exact ha hne, boxed_sqrt_exact ha hne,
    boxed_sqrt_vartime_exact ha hne, h1, h2, ?_, ?_⟩
  · rw [h3]; exact sqrt_sq_le _
  · rw [h3]; exact lt_sqrt_succ_sq _

theorem wrapping_sqrt_alias (a : List Nat) :
    uintWrappingSqrt a = uintSqrt a ∧ uintWrappingSqrtVartime a = uintSqrtVartime a ∧
    boxedWrappingSqrt a = boxedSqrt a ∧ boxedWrappingSqrtVartime a = boxedSqrtVartime a :=
  ⟨rfl, rfl, rfl, rfl⟩

/-- the `CtOption` wrapper around the exact root is `some` exactly for perfect squares
    (the squaring `r.wrapping_mul(&r)` never wraps). -/
theorem checkedOf_root {a : List Nat} (ha : WF a) :
    (checkedOf a (toLimbs a.length (Nat.sqrt (val a)))).1 = toLimbs a.length (Nat.sqrt (val a)) ∧
    ((checkedOf a (toLimbs a.length (Nat.sqrt (val a)))).2 = true ↔ ∃ t, t * t = val a) := by
  obtain ⟨_, _, h3⟩ := root_limbs ha
  refine ⟨rfl, ?_⟩
  unfold checkedOf
  simp only [h3, beq_iff_eq]
  have hle := sqrt_sq_le (val a)
  rw [Nat.mod_eq_of_lt (Nat.lt_of_le_of_lt hle (val_lt ha))]
  constructor
  · intro h; exact ⟨_, h⟩
  · intro ⟨t, ht⟩
    have : t = Nat.sqrt (val a) := sqrt_unique (by omega) (by rw [← ht]; nlinarith)
    rw [← this]; exact ht

/-- T20.3 `checked_sqrt` / `checked_sqrt_vartime` of `Uint` and `BoxedUint`: the value is `⌊√x⌋`
    and `is_some` holds exactly when `x` is a perfect square. -/
theorem checked_sqrt_some_iff_square {a : List Nat} (ha : WF a) (hne : a ≠ []) :
    ∃ ok : Bool, (ok = true ↔ ∃ t, t * t = val a) ∧
      uintCheckedSqrt a = some (toLimbs a.length (Nat.sqrt (val a)), ok) ∧
      uintCheckedSqrtVartime a = some (toLimbs a.length (Nat.sqrt (val a)), ok) ∧
      boxedCheckedSqrt a = (toLimbs a.length (Nat.sqrt (val a)), ok) ∧
      boxedCheckedSqrtVartime a = some (toLimbs a.length (Nat.sqrt (val a)), ok) := by
  obtain ⟨h1, h2⟩ := checkedOf_root ha
  refine ⟨(checkedOf a (toLimbs a.length (Nat.sqrt (val a)))).2, h2, ?_, ?_, ?_, ?_⟩
  · unfold uintCheckedSqrt; rw [sqrt_exact ha hne]; rfl
  · unfold uintCheckedSqrtVartime; rw [sqrt_vartime_exact ha hne]; rfl
  · unfold boxedCheckedSqrt; rw [boxed_sqrt_exact ha hne]; rfl
  · unfold boxedCheckedSqrtVartime; rw [boxed_sqrt_vartime_exact ha hne]; rfl

/-! ### non-vacuity: the hypotheses are satisfiable and the model computes on concrete operands -/

example : WF [3, 2 ^ 63] ∧ [3, 2 ^ 63] ≠ [] := by
  constructor
  · intro x hx; simp at hx; rcases hx with h | h <;> subst h <;> decide
  · simp

/-- `⌊√(2^128 - 1)⌋ = 2^64 - 1` through every form of the model (two limbs). -/
example : uintSqrt [WMAX, WMAX] = some [WMAX, 0] ∧ uintSqrtVartime [WMAX, WMAX] = some [WMAX, 0] ∧
    boxedSqrt [WMAX, WMAX] = [WMAX, 0] ∧ boxedSqrtVartime [WMAX, WMAX] = some [WMAX, 0] ∧
    uintCheckedSqrt [WMAX, WMAX] = some ([WMAX, 0], false) ∧
    uintCheckedSqrt [0, 1] = some ([4294967296, 0], true) := by decide

end CB.P20
