/-
  C07 — theorems about the SOURCE of the modular add / sub / neg layer this property rests on, regenerated from /repo on
  every run by tools/translate.py (CB/Gen/Modular.lean, on top of the limb chains of CB/Gen/Chains.lean).  Kept in a module
  of its own (nothing imports it) so that a change in one of these Rust functions breaks exactly this property's
  obligations and no other module's build.  Audited together with CB/Props/C07.lean by tools/runner.py.
-/
import CB.Props.C07
import CB.Lemmas.GenModular
namespace CB.P07G
open CB CB.ModArith

/-! ## T07.G — the SOURCE of `Uint::{add_mod, double_mod, add_mod_special, sub_mod, sub_mod_with_carry, sub_mod_special,
neg_mod, neg_mod_special}`, of the helpers they call (`Uint::{bitand_limb, from_word, overflowing_shl1}`,
`Limb::{bitand, bitor, not, wrapping_neg, shl1}`) and of `modular::{add,double,sub}_montgomery_form`

`Gen.Modular.Uint.add_mod LIMBS self rhs p` is the Lean translation of what src/uint/add_mod.rs says NOW: a `Uint<LIMBS>` is
the list of its limbs (`List (BitVec 64)`, little endian), `LIMBS` an explicit argument, `self.adc(..)` / `w.sbb(..)` /
`wrapping_add` the translated chains of CB/Gen/Chains.lean, every `while i < LIMBS` loop a recursive auxiliary definition
that re-tests `i < LIMBS` each round.  The theorems below are about those definitions, for EVERY limb count;
`GenChains.nats l` is `l.map BitVec.toNat` (the limbs as the model's words). -/

/-- the hand-written model of the modular layer (what T07.1 / T07.2 of CB/Props/C07.lean are proved about) IS the
    translated source: for every limb count, all operands of equal width, every carry / constant word -/
theorem modular_model_is_translated_source (a b p : List (BitVec 64)) (c carry : BitVec 64)
    (hab : a.length = b.length) (hap : a.length = p.length) :
    addMod (GenChains.nats a) (GenChains.nats b) (GenChains.nats p) =
      GenChains.nats (Gen.Modular.Uint.add_mod a.length a b p) ∧
    doubleMod (GenChains.nats a) (GenChains.nats p) = GenChains.nats (Gen.Modular.Uint.double_mod a.length a p) ∧
    addModSpecial (GenChains.nats a) (GenChains.nats b) c.toNat =
      GenChains.nats (Gen.Modular.Uint.add_mod_special a.length a b c) ∧
    subMod (GenChains.nats a) (GenChains.nats b) (GenChains.nats p) =
      GenChains.nats (Gen.Modular.Uint.sub_mod a.length a b p) ∧
    subModWithCarry (GenChains.nats a) carry.toNat (GenChains.nats b) (GenChains.nats p) =
      GenChains.nats (Gen.Modular.Uint.sub_mod_with_carry a.length a carry b p) ∧
    subModSpecial (GenChains.nats a) (GenChains.nats b) c.toNat =
      GenChains.nats (Gen.Modular.Uint.sub_mod_special a.length a b c) ∧
    negMod (GenChains.nats a) (GenChains.nats p) = GenChains.nats (Gen.Modular.Uint.neg_mod a.length a p) ∧
    negModSpecial (GenChains.nats a) c.toNat = GenChains.nats (Gen.Modular.Uint.neg_mod_special a.length a c) :=
  ⟨GenModular.addMod_bridge a b p hab hap, GenModular.doubleMod_bridge a p hap,
   GenModular.addModSpecial_bridge a b c hab, GenModular.subMod_bridge a b p hab hap,
   GenModular.subModWithCarry_bridge a carry b p hab hap, GenModular.subModSpecial_bridge a b c hab,
   GenModular.negMod_bridge a p hap, GenModular.negModSpecial_bridge a c⟩

/-- the helpers the layer is built from: `bitand_limb` (every limb `& rhs`), `from_word`, `overflowing_shl1` of the model are
    the translated source; the translated `Uint::bitand` is the limb-wise `&` -/
theorem helper_model_is_translated_source (a b : List (BitVec 64)) (m : BitVec 64) (L : Nat) (h : a.length = b.length) :
    bitandLimb (GenChains.nats a) m.toNat = GenChains.nats (Gen.Modular.Uint.bitand_limb a.length a m) ∧
    fromWord L m.toNat = GenChains.nats (Gen.Modular.Uint.from_word L m) ∧
    overflowingShl1 (GenChains.nats a) =
      (GenChains.nats (Gen.Modular.Uint.overflowing_shl1 a.length a).1,
       (Gen.Modular.Uint.overflowing_shl1 a.length a).2.toNat) ∧
    Gen.Modular.Uint.bitand a.length a b = List.zipWith (· &&& ·) a b :=
  ⟨GenModular.bitandLimb_bridge a m, GenModular.fromWord_bridge L m, GenModular.overflowingShl1_bridge a,
   GenModular.bitand_meaning a b h⟩

/-- `Limb::{bitand, bitor, not, wrapping_neg, shl1}` of the source are the word operations, on all words -/
theorem src_limb_bitwise (a m : BitVec 64) :
    Gen.Modular.Limb.bitand a m = a &&& m ∧ Gen.Modular.Limb.bitor a m = a ||| m ∧
    Gen.Modular.Limb.not a = ~~~a ∧ Gen.Modular.Limb.wrapping_neg a = -a ∧
    Gen.Modular.Limb.shl1 a = (a <<< 1, a >>> 63) :=
  ⟨GenBits.mlimb_bitand_eq a m, GenBits.mlimb_bitor_eq a m, GenBits.mlimb_not_eq a, GenBits.mlimb_wrapping_neg_eq a,
   GenBits.mlimb_shl1_eq a⟩

/-- the Montgomery-form forwarders of src/modular/{add,sub}.rs are `add_mod` / `double_mod` / `sub_mod` on the modulus -/
theorem src_montgomery_form_forwarders (L : Nat) (a b m : List (BitVec 64)) :
    Gen.Modular.Form.add_montgomery_form L a b m = Gen.Modular.Uint.add_mod L a b m ∧
    Gen.Modular.Form.double_montgomery_form L a m = Gen.Modular.Uint.double_mod L a m ∧
    Gen.Modular.Form.sub_montgomery_form L a b m = Gen.Modular.Uint.sub_mod L a b m :=
  ⟨GenBits.add_montgomery_form_eq L a b m, GenBits.double_montgomery_form_eq L a m,
   GenBits.sub_montgomery_form_eq L a b m⟩

/-! ### the value theorems of T07.1 / T07.2 restated for the translated functions (same preconditions, `WF` is automatic) -/

theorem nats_length_eq {a b : List (BitVec 64)} (h : a.length = b.length) :
    (GenChains.nats a).length = (GenChains.nats b).length := by
  rw [GenChains.nats_length, GenChains.nats_length, h]

/-- the TRANSLATED `Uint::add_mod`: for `a, b < p` the result is `(a + b) mod p`, `< p`, `LIMBS` limbs -/
theorem src_add_mod_exact (a b p : List (BitVec 64)) (hab : a.length = b.length) (hap : a.length = p.length)
    (hlta : val (GenChains.nats a) < val (GenChains.nats p)) (hltb : val (GenChains.nats b) < val (GenChains.nats p)) :
    val (GenChains.nats (Gen.Modular.Uint.add_mod a.length a b p)) =
      (val (GenChains.nats a) + val (GenChains.nats b)) % val (GenChains.nats p) ∧
    val (GenChains.nats (Gen.Modular.Uint.add_mod a.length a b p)) < val (GenChains.nats p) ∧
    (Gen.Modular.Uint.add_mod a.length a b p).length = a.length := by
  have ⟨e, l, _, n⟩ := P07.add_mod_spec (GenChains.nats_WF a) (GenChains.nats_WF b) (GenChains.nats_WF p)
    (nats_length_eq hab) (nats_length_eq hap) hlta hltb
  rw [GenModular.addMod_bridge a b p hab hap] at e l n
  exact ⟨e, l, by simpa [GenChains.nats] using n⟩

/-- the TRANSLATED `Uint::double_mod`: for `a < p` the result is `2a mod p`, `< p` -/
theorem src_double_mod_exact (a p : List (BitVec 64)) (hap : a.length = p.length)
    (hlta : val (GenChains.nats a) < val (GenChains.nats p)) :
    val (GenChains.nats (Gen.Modular.Uint.double_mod a.length a p)) =
      (2 * val (GenChains.nats a)) % val (GenChains.nats p) ∧
    val (GenChains.nats (Gen.Modular.Uint.double_mod a.length a p)) < val (GenChains.nats p) ∧
    (Gen.Modular.Uint.double_mod a.length a p).length = a.length := by
  have ⟨e, l, _, n⟩ := P07.double_mod_spec (GenChains.nats_WF a) (GenChains.nats_WF p) (nats_length_eq hap) hlta
  rw [GenModular.doubleMod_bridge a p hap] at e l n
  exact ⟨e, l, by simpa [GenChains.nats] using n⟩

/-- the TRANSLATED `Uint::sub_mod`: for `a, b < p` the result is `(a - b) mod p` (written `a + p - b`), `< p` -/
theorem src_sub_mod_exact (a b p : List (BitVec 64)) (hab : a.length = b.length) (hap : a.length = p.length)
    (hlta : val (GenChains.nats a) < val (GenChains.nats p)) (hltb : val (GenChains.nats b) < val (GenChains.nats p)) :
    val (GenChains.nats (Gen.Modular.Uint.sub_mod a.length a b p)) =
      (val (GenChains.nats a) + val (GenChains.nats p) - val (GenChains.nats b)) % val (GenChains.nats p) ∧
    val (GenChains.nats (Gen.Modular.Uint.sub_mod a.length a b p)) < val (GenChains.nats p) ∧
    (Gen.Modular.Uint.sub_mod a.length a b p).length = a.length := by
  have ⟨e, l, _, n⟩ := P07.sub_mod_spec (GenChains.nats_WF a) (GenChains.nats_WF b) (GenChains.nats_WF p)
    (nats_length_eq hab) (nats_length_eq hap) hlta hltb
  rw [GenModular.subMod_bridge a b p hab hap] at e l n
  exact ⟨e, l, by simpa [GenChains.nats] using n⟩

/-- the TRANSLATED `Uint::sub_mod_with_carry` (the last step of Montgomery reduction): for a carry bit and
    `-p ≤ (a + carry·2^BITS) - b < p` the result is that difference mod `p` -/
theorem src_sub_mod_with_carry_exact (a b p : List (BitVec 64)) (carry : BitVec 64)
    (hab : a.length = b.length) (hap : a.length = p.length) (hc : carry.toNat ≤ 1)
    (hlo : val (GenChains.nats b) ≤ val (GenChains.nats a) + B ^ a.length * carry.toNat + val (GenChains.nats p))
    (hhi : val (GenChains.nats a) + B ^ a.length * carry.toNat < val (GenChains.nats b) + val (GenChains.nats p)) :
    val (GenChains.nats (Gen.Modular.Uint.sub_mod_with_carry a.length a carry b p)) =
      (val (GenChains.nats a) + B ^ a.length * carry.toNat + val (GenChains.nats p) - val (GenChains.nats b))
        % val (GenChains.nats p) ∧
    val (GenChains.nats (Gen.Modular.Uint.sub_mod_with_carry a.length a carry b p)) < val (GenChains.nats p) := by
  have h := P07.sub_mod_with_carry_spec (carry := carry.toNat) (GenChains.nats_WF a) (GenChains.nats_WF b)
    (GenChains.nats_WF p) (nats_length_eq hab) (nats_length_eq hap) hc (by rw [GenChains.nats_length]; exact hlo)
    (by rw [GenChains.nats_length]; exact hhi)
  rw [GenModular.subModWithCarry_bridge a carry b p hab hap, GenChains.nats_length] at h
  exact h

/-- the TRANSLATED `Uint::neg_mod`: for `a < p` the result is `(-a) mod p` (`0 ↦ 0`), `< p` -/
theorem src_neg_mod_exact (a p : List (BitVec 64)) (hap : a.length = p.length)
    (hlta : val (GenChains.nats a) < val (GenChains.nats p)) :
    val (GenChains.nats (Gen.Modular.Uint.neg_mod a.length a p)) =
      (val (GenChains.nats p) - val (GenChains.nats a)) % val (GenChains.nats p) ∧
    val (GenChains.nats (Gen.Modular.Uint.neg_mod a.length a p)) < val (GenChains.nats p) ∧
    (val (GenChains.nats a) = 0 → val (GenChains.nats (Gen.Modular.Uint.neg_mod a.length a p)) = 0) ∧
    (Gen.Modular.Uint.neg_mod a.length a p).length = a.length := by
  have ⟨e, l, z, _, n⟩ := P07.neg_mod_spec (GenChains.nats_WF a) (GenChains.nats_WF p) (nats_length_eq hap) hlta
  rw [GenModular.negMod_bridge a p hap] at e l z n
  exact ⟨e, l, z, by simpa [GenChains.nats] using n⟩

/-- the TRANSLATED `Uint::add_mod_special`: for `p = 2^BITS - c`, `1 ≤ c`, `a, b < p` the result is `(a + b) mod p`, `< p` -/
theorem src_add_mod_special_exact (a b : List (BitVec 64)) (c : BitVec 64) (hab : a.length = b.length)
    (hc1 : 1 ≤ c.toNat)
    (hlta : val (GenChains.nats a) < B ^ a.length - c.toNat) (hltb : val (GenChains.nats b) < B ^ a.length - c.toNat) :
    val (GenChains.nats (Gen.Modular.Uint.add_mod_special a.length a b c)) =
      (val (GenChains.nats a) + val (GenChains.nats b)) % (B ^ a.length - c.toNat) ∧
    val (GenChains.nats (Gen.Modular.Uint.add_mod_special a.length a b c)) < B ^ a.length - c.toNat ∧
    (Gen.Modular.Uint.add_mod_special a.length a b c).length = a.length := by
  have ⟨e, l, _, n⟩ := P07.add_mod_special_spec (c := c.toNat) (GenChains.nats_WF a) (GenChains.nats_WF b) (nats_length_eq hab)
    hc1 (toNat_lt_B c) (by rw [GenChains.nats_length]; exact hlta) (by rw [GenChains.nats_length]; exact hltb)
  rw [GenModular.addModSpecial_bridge a b c hab, GenChains.nats_length] at e l n
  exact ⟨e, l, by simpa [GenChains.nats] using n⟩

/-- the TRANSLATED `Uint::sub_mod_special`: for `p = 2^BITS - c`, `a, b < p` the result is `(a - b) mod p`, `< p` -/
theorem src_sub_mod_special_exact (a b : List (BitVec 64)) (c : BitVec 64) (hab : a.length = b.length)
    (hc1 : 1 ≤ c.toNat)
    (hlta : val (GenChains.nats a) < B ^ a.length - c.toNat) (hltb : val (GenChains.nats b) < B ^ a.length - c.toNat) :
    val (GenChains.nats (Gen.Modular.Uint.sub_mod_special a.length a b c)) =
      (val (GenChains.nats a) + (B ^ a.length - c.toNat) - val (GenChains.nats b)) % (B ^ a.length - c.toNat) ∧
    val (GenChains.nats (Gen.Modular.Uint.sub_mod_special a.length a b c)) < B ^ a.length - c.toNat ∧
    (Gen.Modular.Uint.sub_mod_special a.length a b c).length = a.length := by
  have ⟨e, l, _, n⟩ := P07.sub_mod_special_spec (c := c.toNat) (GenChains.nats_WF a) (GenChains.nats_WF b) (nats_length_eq hab)
    hc1 (toNat_lt_B c) (by rw [GenChains.nats_length]; exact hlta) (by rw [GenChains.nats_length]; exact hltb)
  rw [GenModular.subModSpecial_bridge a b c hab, GenChains.nats_length] at e l n
  exact ⟨e, l, by simpa [GenChains.nats] using n⟩

/-- the TRANSLATED `Uint::neg_mod_special`: for `p = 2^BITS - c`, `a < p` the result is `(-a) mod p` (`0 ↦ 0`), `< p` -/
theorem src_neg_mod_special_exact (a : List (BitVec 64)) (c : BitVec 64) (hc1 : 1 ≤ c.toNat)
    (hlta : val (GenChains.nats a) < B ^ a.length - c.toNat) :
    val (GenChains.nats (Gen.Modular.Uint.neg_mod_special a.length a c)) =
      ((B ^ a.length - c.toNat) - val (GenChains.nats a)) % (B ^ a.length - c.toNat) ∧
    val (GenChains.nats (Gen.Modular.Uint.neg_mod_special a.length a c)) < B ^ a.length - c.toNat ∧
    (Gen.Modular.Uint.neg_mod_special a.length a c).length = a.length := by
  have ⟨e, l, _, n⟩ := P07.neg_mod_special_spec (c := c.toNat) (GenChains.nats_WF a) hc1 (toNat_lt_B c)
    (by rw [GenChains.nats_length]; exact hlta)
  rw [GenModular.negModSpecial_bridge a c, GenChains.nats_length] at e l n
  exact ⟨e, l, by simpa [GenChains.nats] using n⟩

/-- the TRANSLATED Montgomery-form add / double / sub return the canonical residue (operands `< modulus`) -/
theorem src_montgomery_form_addsub_exact (a b m : List (BitVec 64)) (hab : a.length = b.length) (ham : a.length = m.length)
    (hlta : val (GenChains.nats a) < val (GenChains.nats m)) (hltb : val (GenChains.nats b) < val (GenChains.nats m)) :
    val (GenChains.nats (Gen.Modular.Form.add_montgomery_form a.length a b m)) =
      (val (GenChains.nats a) + val (GenChains.nats b)) % val (GenChains.nats m) ∧
    val (GenChains.nats (Gen.Modular.Form.double_montgomery_form a.length a m)) =
      (2 * val (GenChains.nats a)) % val (GenChains.nats m) ∧
    val (GenChains.nats (Gen.Modular.Form.sub_montgomery_form a.length a b m)) =
      (val (GenChains.nats a) + val (GenChains.nats m) - val (GenChains.nats b)) % val (GenChains.nats m) := by
  rw [GenBits.add_montgomery_form_eq, GenBits.double_montgomery_form_eq, GenBits.sub_montgomery_form_eq]
  exact ⟨(src_add_mod_exact a b m hab ham hlta hltb).1, (src_double_mod_exact a m ham hlta).1,
    (src_sub_mod_exact a b m hab ham hlta hltb).1⟩

/-- non-vacuity / evaluation: the translated functions run — over two limbs, modulo `p = 2^64 + 3` (`[3, 1]`):
    `(2^64 + 2) + 5 ≡ 4`, `2·(2^64 + 2) ≡ 2^64 + 1`, `1 − 2 ≡ 2^64 + 2`, `−1 ≡ 2^64 + 2`, `−0 = 0`;
    modulo `2^128 − 5`: `(2^128 − 6) + 3 ≡ 2`, `0 − 1 ≡ 2^128 − 6` -/
example : Gen.Modular.Uint.add_mod 2 [2#64, 1#64] [5#64, 0#64] [3#64, 1#64] = [4#64, 0#64] := by decide
example : Gen.Modular.Uint.double_mod 2 [2#64, 1#64] [3#64, 1#64] = [1#64, 1#64] := by decide
example : Gen.Modular.Uint.sub_mod 2 [1#64, 0#64] [2#64, 0#64] [3#64, 1#64] = [2#64, 1#64] := by decide
example : Gen.Modular.Uint.neg_mod 2 [1#64, 0#64] [3#64, 1#64] = [2#64, 1#64] := by decide
example : Gen.Modular.Uint.neg_mod 2 [0#64, 0#64] [3#64, 1#64] = [0#64, 0#64] := by decide
example : Gen.Modular.Uint.add_mod_special 2 [~~~0#64 - 5#64, ~~~0#64] [3#64, 0#64] 5#64 = [2#64, 0#64] := by decide
example : Gen.Modular.Uint.neg_mod_special 2 [1#64, 0#64] 5#64 = [~~~0#64 - 5#64, ~~~0#64] := by decide

end CB.P07G
