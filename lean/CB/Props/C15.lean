/-
  C15 — all routes to the same operation give bit-identical results.

  Route-equality theorems over the EXISTING limb-level model functions of the other properties (the same
  functions the C15 driver prints as L1).  "Bit-identical" is stated as equality of the limb LISTS (and of the
  carry / mask / option), not merely of values; "documented precision" is the length of the result list.
  Every theorem quantifies over all limb counts and all operand values.

  Most statements are short corollaries of the exactness theorems of C03–C07, C10, C14, C19, C20 (both routes
  equal the same `Nat` expression, `val_inj` turns that into equal limbs) or of the boxed-loop lemmas
  (`pad`-to-the-same-length is the identity).  Where an exactness theorem is still carried on a named
  hypothesis by its own property, the route theorem is `_partial` and carries the same hypothesis:

    (C02's `H_recip` and the exactness of both full-width division loops are PROVED now: the division routes
     `div_rem_ct_eq_vartime`, `rem_limb_eq_div_rem_limb` are full)
    OddGcdSpec og w    (C10) — the odd-operand safegcd result: `gcd` ct vs vartime

  §1 constant-time = `_vartime`      §2 boxed (precision P) = fixed of the same width, result precision
  §3 forwarding forms with their own model function      §4 squaring = multiplying by itself
  §5 precomputed = one-shot
-/
import CB.Props.C02
import CB.Props.C03
import CB.Props.C04
import CB.Props.C05
import CB.Props.C06
import CB.Props.C07
import CB.Props.C08
import CB.Props.C10
import CB.Props.C14
import CB.Props.C16
import CB.Props.C19
import CB.Props.C20
import CB.Lemmas.C02LimbDiv
import CB.Lemmas.C15Routes
namespace CB.P15
open CB CB.Cmp CB.AddSub CB.Routes

/-! ## §1 constant-time = vartime -/

/-- `shl` = `shl_vartime`, `overflowing_shl` = `overflowing_shl_vartime`, `wrapping_shl` =
    `wrapping_shl_vartime`: ladder vs limb move, value AND panic / `is_some` behaviour, every width, every
    shift amount (corollary of T05.2). -/
theorem shl_ct_eq_vartime {a : List Nat} (ha : WF a) (hn0 : a ≠ []) (hn : 64 * a.length < Shift.TWO32)
    {s : Nat} (hs : s < Shift.TWO32) :
    Shift.ushl a s = Shift.ushlVartime a s ∧
    Shift.overflowingShl a s = some (Shift.overflowingShlVartime a s) ∧
    Shift.wrappingShlU a s = some (Shift.wrappingShlVartimeU a s) :=
  ⟨(P05.shl_spec ha hn0 hn hs).1, P05.shl_ladder_eq_vartime ha hn0 hn hs, (P05.wrapping_shl_spec ha hn0 hn hs).1⟩

theorem shr_ct_eq_vartime {a : List Nat} (ha : WF a) (hn0 : a ≠ []) (hn : 64 * a.length < Shift.TWO32)
    {s : Nat} (hs : s < Shift.TWO32) :
    Shift.ushr a s = Shift.ushrVartime a s ∧
    Shift.overflowingShr a s = some (Shift.overflowingShrVartime a s) ∧
    Shift.wrappingShrU a s = some (Shift.wrappingShrVartimeU a s) :=
  ⟨(P05.shr_spec ha hn0 hn hs).1, P05.shr_ladder_eq_vartime ha hn0 hn hs, (P05.wrapping_shr_spec ha hn0 hn hs).1⟩

/-- `Int::shr` = `Int::shr_vartime`, `wrapping_shr` = `wrapping_shr_vartime` (T05.4c) -/
theorem int_shr_ct_eq_vartime {a : List Nat} (ha : WF a) (hn0 : a ≠ []) (hn : 64 * a.length < Shift.TWO32)
    {s : Nat} (hs : s < Shift.TWO32) :
    Shift.intShr a s = Shift.intShrVartime a s ∧
    Shift.intWrappingShr a s = some (Shift.intWrappingShrVartime a s) :=
  ⟨(P05.int_shr_forms ha hn0 hn hs).1, (P05.int_shr_forms ha hn0 hn hs).2.2.2.1⟩

/-- `bits_vartime` = `bits`, `leading_zeros_vartime` = `leading_zeros` (neither panics) -/
theorem bits_ct_eq_vartime {a : List Nat} (ha : WF a) (hne : a ≠ []) :
    Bits.bitsVartime a = some (Bits.ubits a) ∧ Bits.leadingZerosVartime a = some (Bits.leadingZeros a) :=
  ⟨(P05.bits_spec ha hne).2.1, (P05.bits_spec ha hne).2.2.2⟩

/-- `trailing_zeros_vartime` = `trailing_zeros`, `trailing_ones_vartime` = `trailing_ones` -/
theorem trailing_ct_eq_vartime {a : List Nat} (ha : WF a) :
    Bits.trailingZerosVartime a = Bits.trailingZeros a ∧ Bits.trailingOnesVartime a = Bits.trailingOnes a :=
  ⟨(P05.trailing_zeros_spec ha).1.symm, (P05.trailing_ones_spec ha).1.symm⟩

/-- `bit` (masked scan) = `bit_vartime` (indexing), every index incl. out of range -/
theorem bit_ct_eq_vartime {a : List Nat} (ha : WF a) (hn : a.length ≤ Shift.TWO32) {i : Nat}
    (hi : i < Shift.TWO32) : Bits.bitCt a i = mask (Bits.bitVartime a i) := by
  rw [(P05.bit_spec ha hn hi).1, (P05.bit_spec ha hn hi).2]

/-- `set_bit_vartime` = `set_bit`, every index incl. out of range (T05.5f) -/
theorem set_bit_ct_eq_vartime {a : List Nat} (ha : WF a) (hn : a.length ≤ Shift.TWO32) {i : Nat}
    (hi : i < Shift.TWO32) (v : Bool) : Bits.setBitVartime a i v = Bits.setBit a i (mask v) :=
  (P05.set_bit_vartime_eq ha hn hi v).1

/-- `cmp_vartime` = `cmp` -/
theorem cmp_ct_eq_vartime {a b : List Nat} (ha : WF a) (hb : WF b) (h : a.length = b.length) :
    ucmpVartime a b = ucmp a b := (P06.uint_cmp_spec ha hb h).2

/-- `sqrt` = `sqrt_vartime` (fixed), `sqrt` = `sqrt_vartime` (boxed), checked forms likewise: the fixed
    round count and the run-until-non-decreasing loop return the same limbs (T20; no hypothesis left). -/
theorem sqrt_ct_eq_vartime {a : List Nat} (ha : WF a) (hne : a ≠ []) :
    Sqrt.uintSqrt a = Sqrt.uintSqrtVartime a ∧ Sqrt.boxedSqrtVartime a = some (Sqrt.boxedSqrt a) ∧
    Sqrt.uintCheckedSqrt a = Sqrt.uintCheckedSqrtVartime a ∧
    Sqrt.boxedCheckedSqrtVartime a = some (Sqrt.boxedCheckedSqrt a) := by
  have h1 := P20.sqrt_exact ha hne
  have h2 := P20.sqrt_vartime_exact ha hne
  have h3 := P20.boxed_sqrt_exact ha hne
  have h4 := P20.boxed_sqrt_vartime_exact ha hne
  refine ⟨by rw [h1, h2], by rw [h3, h4], ?_, ?_⟩
  · unfold Sqrt.uintCheckedSqrt Sqrt.uintCheckedSqrtVartime; rw [h1, h2]
  · unfold Sqrt.boxedCheckedSqrtVartime Sqrt.boxedCheckedSqrt; rw [h3, h4]; rfl

/-- `mul_mod` = `mul_mod_vartime` at the value level (the C07 model calls the mathematical function for
    both; the refinement of their bodies is C03 ∘ C02, exercised by the correspondence run) -/
theorem mul_mod_ct_eq_vartime (a b p : List Nat) : ModArith.mulMod a b p = ModArith.mulModVartime a b p := rfl

/-- `inv_mod2k_vartime`, the boxed vartime form and `inv_mod2k_full_vartime` = `inv_mod2k` (T10.1) -/
theorem inv_mod2k_ct_eq_vartime (w a k : Nat) (hk : k ≤ w) :
    InvMod2k.invMod2kVartime w a k = some (InvMod2k.invMod2k w a k) ∧
    InvMod2k.invMod2kVartimeBoxed w a k = InvMod2k.invMod2k w a k ∧
    InvMod2k.invMod2kFullVartime w a k =
      (if (InvMod2k.invMod2k w a k).2 then some (InvMod2k.invMod2k w a k).1 else none) :=
  P10.inv_mod2k_variants_agree w a k hk

/-- `Int` division: `DivVartime::div_vartime` = the quotient of `checked_div_rem` (T14.1) -/
theorem int_div_ct_eq_vartime (n d : List Nat) : IntDiv.iDivVartime n d = (IntDiv.iCheckedDivRem n d).1 :=
  P14.div_vartime_eq n d

/-- `Uint::gcd_vartime` = `Uint::gcd`, GIVEN the odd-operand safegcd spec for both inner routines
    (`OddGcdSpec`, C10's carried hypothesis behind `H_divsteps_done`) -/
theorem gcd_ct_eq_vartime_partial (og ogv : Nat → Nat → Nat) (w a b : Nat) (H_odd_gcd : Gcd.OddGcdSpec og w)
    (H_odd_gcd_vartime : Gcd.OddGcdSpec ogv w) (ha : a < 2 ^ w) (hb : b < 2 ^ w) :
    Gcd.gcdVartimeWith og ogv w a b = Gcd.gcdWith og w a b :=
  P10.gcd_ct_vartime_agree og ogv w a b H_odd_gcd H_odd_gcd_vartime ha hb

/-- exactness of a full-width division routine (what C02 is to prove for `divRemCt` and `divRemVartime`) -/
def DivRemExact (f : List Nat → List Nat → List Nat × List Nat) : Prop :=
  ∀ n d : List Nat, WF n → WF d → n.length = d.length → 0 < val d →
    f n d = (toLimbs n.length (val n / val d), toLimbs d.length (val n % val d))

/-- C02 proves `DivRemExact` for both full-width routines (no hypothesis left there: `P02.reciprocal_exact`). -/
theorem divRemCt_is_exact : DivRemExact Div.divRemCt := by
  intro n d hn hd hl hd0
  rw [P02.divRemCt_exact hn hd hl.symm (by omega), hl]

theorem divRemVartime_is_exact : DivRemExact Div.divRemVartime := by
  intro n d hn hd _ hd0
  exact P02.divRemVartime_exact hn hd (by omega)

/-- `div_rem` = `div_rem_vartime` (and hence `rem` / `wrapping_div` and their vartime forms): both loops are
    exact (C02: `divRemCt_exact`, `divRemVartime_exact`), so they return the same limbs. FULL (the statement
    DESIGN §6 C15 planned as `_partial` while C02 still carried `H_recip`). -/
theorem div_rem_ct_eq_vartime {n d : List Nat} (hn : WF n) (hd : WF d)
    (hl : n.length = d.length) (hd0 : 0 < val d) :
    Div.divRemCt n d = Div.divRemVartime n d ∧ Div.urem n d = Div.remVartime n d ∧
    Div.wrappingDiv n d = Div.wrappingDivVartime n d := by
  have e : Div.divRemCt n d = Div.divRemVartime n d := by
    rw [divRemCt_is_exact n d hn hd hl hd0, divRemVartime_is_exact n d hn hd hl hd0]
  exact ⟨e, by unfold Div.urem Div.remVartime; rw [e], by unfold Div.wrappingDiv Div.wrappingDivVartime; rw [e]⟩

/-! ## §2 boxed (precision P) = fixed of the same width; documented precision of boxed results -/

/-- `BoxedUint::adc / sbb` = `Uint::adc / sbb` limb for limb incl. the carry / borrow word, and for ANY two
    precisions the result has `max` of them (the documented "widest of the two") -/
theorem boxed_adc_sbb_eq_fixed {a b : List Nat} (c : Nat) (h : a.length = b.length) :
    badc a b c = uadc a b c ∧ bsbb a b c = usbb a b c :=
  ⟨badc_eq_uadc c h, bsbb_eq_usbb c h⟩

theorem boxed_adc_sbb_precision {a b : List Nat} (c : Nat) (ha : WF a) (hb : WF b) (hc : c < B) :
    (badc a b c).1.length = max a.length b.length ∧ (bsbb a b c).1.length = max a.length b.length :=
  ⟨(P04.boxed_adc_exact a b c).2, (P04.boxed_sbb_exact ha hb hc).2⟩

/-- boxed `wrapping_add/sub`, `checked_add/sub` and the panicking operators are the fixed forms -/
theorem boxed_add_sub_forms_eq_fixed {a b : List Nat} (h : a.length = b.length) :
    (badc a b 0).1 = wrappingAdd a b ∧ (bsbb a b 0).1 = wrappingSub a b ∧
    fromWordEq (badc a b 0).2 0 = (checkedAdd a b).2 ∧ fromWordEq (bsbb a b 0).2 0 = (checkedSub a b).2 := by
  rw [badc_eq_uadc 0 h, bsbb_eq_usbb 0 h]; exact ⟨rfl, rfl, rfl, rfl⟩

/-- the in-place boxed forms (`adc_assign`, `+=`, `Wrapping +=`, `+= Uint<N>`) at equal precision are the
    fixed loop and never hit the precision assertion; the receiver keeps its precision -/
theorem boxed_assign_eq_fixed {a b : List Nat} (c : Nat) (h : a.length = b.length) :
    adcAssign a b c = uadc a b c ∧ sbbAssign a b c = usbb a b c ∧ assignPanics a b = false ∧
    boxedWrappingAddAssign a b = some (wrappingAdd a b) ∧ boxedWrappingSubAssign a b = some (wrappingSub a b) ∧
    boxedAddAssign a b = boxedOpAdd a b ∧ boxedSubAssign a b = boxedOpSub a b := by
  have hp : assignPanics a b = false := by unfold assignPanics; simp [h]
  have e1 : adcAssign a b c = uadc a b c := by unfold adcAssign; rw [rhsFor_self h]
  have e2 : sbbAssign a b c = usbb a b c := by unfold sbbAssign; rw [rhsFor_self h]
  have e10 : adcAssign a b 0 = uadc a b 0 := by unfold adcAssign; rw [rhsFor_self h]
  have e20 : sbbAssign a b 0 = usbb a b 0 := by unfold sbbAssign; rw [rhsFor_self h]
  refine ⟨e1, e2, hp, ?_, ?_, ?_, ?_⟩
  · unfold boxedWrappingAddAssign; rw [hp, e10]; rfl
  · unfold boxedWrappingSubAssign; rw [hp, e20]; rfl
  · unfold boxedAddAssign boxedOpAdd; rw [hp, e10, badc_eq_uadc 0 h]; rfl
  · unfold boxedSubAssign boxedOpSub; rw [hp, e20, bsbb_eq_usbb 0 h]; rfl

theorem boxed_assign_precision {a b r : List Nat} (h : boxedAddAssign a b = some r) : r.length = a.length :=
  (P04.add_assign_spec r h).2

/-- boxed shifts = fixed shifts: `shl`/`shr` (same panic condition), `overflowing_*` (same value, overflow
    flag = negated `is_some`), `shl_vartime -> Option` = `Uint::shl_vartime` with `None` for the panic,
    the wrapping forms; the result keeps the operand's precision (T05.7 + T05.2) -/
theorem boxed_shl_eq_fixed {a : List Nat} (ha : WF a) (hn0 : a ≠ []) (hn : 64 * a.length < Shift.TWO32)
    {s : Nat} (hs : s < Shift.TWO32) :
    Shift.boxedShl a s = Shift.ushl a s ∧ Shift.boxedShlVartime a s = Shift.ushlVartime a s ∧
    Shift.boxedOverflowingShl a s =
      some ((Shift.overflowingShlVartime a s).1, decide (64 * a.length ≤ s)) ∧
    val (Shift.boxedWrappingShlVartime a s) = val (Shift.wrappingShlVartimeU a s) ∧
    (∀ r, Shift.boxedShl a s = some r → r.length = a.length) := by
  have hle : 64 * a.length ≤ Shift.TWO32 := Nat.le_of_lt hn
  have e1 := (P05.boxed_shl_shr_spec ha hn0 hle s).1
  have e2 := (P05.shl_spec ha hn0 hn hs).1
  have e3 : Shift.ushlVartime a s = _ := expect_shlV ha s
  have e4 := (P05.boxed_vartime_spec ha s).1
  refine ⟨by rw [e1, e2, e3], by rw [e4, e3], Shift.boxedOverflowingShl_spec ha hn0 hle s, ?_, ?_⟩
  · rw [(P05.boxed_vartime_spec ha s).2.2.1, (P05.wrapping_shl_spec ha hn0 hn hs).2.1]
  · intro r hr
    rw [e1] at hr
    by_cases h : s < 64 * a.length
    · rw [if_pos h] at hr; cases hr; exact (Shift.shlV_val ha s).2.1
    · rw [if_neg h] at hr; cases hr

theorem boxed_shr_eq_fixed {a : List Nat} (ha : WF a) (hn0 : a ≠ []) (hn : 64 * a.length < Shift.TWO32)
    {s : Nat} (hs : s < Shift.TWO32) :
    Shift.boxedShr a s = Shift.ushr a s ∧ Shift.boxedShrVartime a s = Shift.ushrVartime a s ∧
    Shift.boxedOverflowingShr a s =
      some ((Shift.overflowingShrVartime a s).1, decide (64 * a.length ≤ s)) ∧
    val (Shift.boxedWrappingShrVartime a s) = val (Shift.wrappingShrVartimeU a s) ∧
    (∀ r, Shift.boxedShr a s = some r → r.length = a.length) := by
  have hle : 64 * a.length ≤ Shift.TWO32 := Nat.le_of_lt hn
  have e1 := (P05.boxed_shl_shr_spec ha hn0 hle s).2
  have e2 := (P05.shr_spec ha hn0 hn hs).1
  have e3 : Shift.ushrVartime a s = _ := expect_shrV ha s
  have e4 := (P05.boxed_vartime_spec ha s).2.1
  refine ⟨by rw [e1, e2, e3], by rw [e4, e3], Shift.boxedOverflowingShr_spec ha hn0 hle s, ?_, ?_⟩
  · rw [(P05.boxed_vartime_spec ha s).2.2.2, (P05.wrapping_shr_spec ha hn0 hn hs).2.1]
  · intro r hr
    rw [e1] at hr
    by_cases h : s < 64 * a.length
    · rw [if_pos h] at hr; cases hr; exact (Shift.shrV_val ha s).2.1
    · rw [if_neg h] at hr; cases hr

/-- boxed `& | ^` (`map_limbs`, also `|=` after fix e52b2f3) at equal precision = the fixed zips; for ANY two
    precisions the result has the larger one; the bit queries `bits`, `leading/trailing_*`, `bit`, `set_bit`
    and `!` run the SAME model function for `Uint` and `BoxedUint` (one slice implementation in the crate) -/
theorem boxed_bitops_eq_fixed {a b : List Nat} (h : a.length = b.length) :
    Bits.mapLimbs (· &&& ·) a b = Bits.ubitand a b ∧ Bits.mapLimbs (· ||| ·) a b = Shift.ubitor a b ∧
    Bits.mapLimbs (· ^^^ ·) a b = Bits.ubitxor a b ∧ Bits.orAssign a b = Shift.ubitor a b :=
  ⟨mapLimbs_and h, mapLimbs_or h, mapLimbs_xor h, mapLimbs_or h⟩

theorem boxed_bitops_precision (f : Nat → Nat → Nat) (a b : List Nat) :
    (Bits.mapLimbs f a b).length = max a.length b.length ∧
    (Bits.orAssign a b).length = max a.length b.length :=
  ⟨mapLimbs_length f a b, mapLimbs_length _ a b⟩

/-- boxed comparison (zero-padded `sbb` chain, `ct_eq` fold, `Ord` from `ct_gt`/`ct_lt`) = fixed comparison
    at equal precision: same masks, same `Ordering`; `cmp_vartime` is the same model function for both -/
theorem boxed_cmp_eq_fixed {a b : List Nat} (ha : WF a) (hb : WF b) (h : a.length = b.length) :
    bcmp a b = ucmp a b ∧ bctLt a b = ult a b ∧ bctGt a b = ugt a b ∧
    (bctEq a b = 1 ↔ ueq a b = WMAX) := by
  refine ⟨by rw [P06.boxed_cmp_spec ha hb, (P06.uint_cmp_spec ha hb h).1],
          by rw [P06.boxed_lt_spec ha hb, P06.uint_lt_spec ha hb h],
          by rw [P06.boxed_gt_spec ha hb, P06.uint_gt_spec ha hb h], ?_⟩
  rw [P06.boxed_eq_spec ha hb, P06.uint_eq_spec ha hb h]
  by_cases e : val a = val b
  · simp [e, mask]
  · simp [e, mask]; decide

/-- `BoxedUint::mul` (schoolbook below the threshold, recursive Karatsuba above — src/uint/boxed/mul.rs,
    src/uint/mul/karatsuba.rs) returns limb for limb the concatenation `lo ++ hi` of `Uint::split_mul`
    (schoolbook or the fixed-size Karatsuba chain) — for ALL limb counts of both operands, so in particular
    where the two dispatches pick different algorithms; its precision is the SUM of the operands' precisions.
    `wrapping_mul` and `checked_mul` agree likewise (value limbs and `is_some`). -/
theorem boxed_mul_eq_fixed (x y : List Nat) (hx : WF x) (hy : WF y) :
    Karatsuba.boxedMul x y = Mul.concatPair (Karatsuba.splitMul x y) ∧
    (Karatsuba.boxedMul x y).length = x.length + y.length ∧
    Karatsuba.boxedWrappingMul x y = Mul.wrappingOfPair (Karatsuba.splitMul x y) ∧
    (Karatsuba.boxedCheckedMul x y).1 = (Mul.checkedOfPair (Karatsuba.splitMul x y)).1 ∧
    (Karatsuba.boxedCheckedMul x y).2 = (Mul.checkedOfPair (Karatsuba.splitMul x y)).2 := by
  obtain ⟨b1, b2, b3⟩ := P03.boxed_mul_exact x y hx hy
  have f := P03.split_mul_exact x y hx hy
  have hc : (Mul.concatPair (Karatsuba.splitMul x y)).length = x.length + y.length := by
    unfold Mul.concatPair; rw [List.length_append, f.2.2.1, f.2.2.2.1]
  have hwf : WF (Mul.concatPair (Karatsuba.splitMul x y)) := by
    unfold Mul.concatPair
    intro z hz
    rcases List.mem_append.mp hz with h | h
    · exact f.1 z h
    · exact f.2.1 z h
  have e : Karatsuba.boxedMul x y = Mul.concatPair (Karatsuba.splitMul x y) :=
    val_inj b2 hwf (by rw [b3, hc]) (by rw [b1, (P03.uint_mul_forms x y hx hy).1])
  have hl : (Karatsuba.splitMul x y).1.length = x.length := f.2.2.1
  have etake : (Karatsuba.boxedMul x y).take x.length = (Karatsuba.splitMul x y).1 := by
    rw [e]; unfold Mul.concatPair; rw [← hl]; exact List.take_left
  refine ⟨e, b3, ?_, ?_, ?_⟩
  · unfold Karatsuba.boxedWrappingMul Mul.wrappingOfPair; exact etake
  · unfold Karatsuba.boxedCheckedMul Mul.checkedOfPair; exact etake
  · rw [(P03.boxed_forms x y hx hy).2.2.1, (P03.uint_mul_forms x y hx hy).2.2.1]

/-- `BoxedUint::square` = `lo ++ hi` of `Uint::square_wide`, every limb count; precision `2·P` -/
theorem boxed_square_eq_fixed (x : List Nat) (hx : WF x) :
    Karatsuba.boxedSquare x = Mul.concatPair (Karatsuba.squareWide x) ∧
    (Karatsuba.boxedSquare x).length = 2 * x.length := by
  have e1 := P03.boxed_square_eq_mul_self x hx
  have e2 := P03.square_wide_eq_split_mul_self x hx
  have e3 := (boxed_mul_eq_fixed x x hx hx).1
  exact ⟨by rw [e1, e2, e3], (P03.boxed_square_exact x hx).2.2⟩

/-- boxed modular arithmetic = fixed modular arithmetic limb for limb (the boxed bodies are separate source
    files: `conditional_adc_assign`, `is_zero` folds, in-place `sbb_assign`), same precision as the operands -/
theorem boxed_mod_eq_fixed {a b p : List Nat} (ha : WF a) (hb : WF b) (hp : WF p)
    (hab : a.length = b.length) (hap : a.length = p.length) :
    ModArith.bAddMod a b p = ModArith.addMod a b p ∧ ModArith.bSubMod a b p = ModArith.subMod a b p ∧
    ModArith.bDoubleMod a p = ModArith.doubleMod a p ∧ ModArith.bNegMod a p = ModArith.negMod a p :=
  ⟨ModArith.bAddMod_eq ha hb hp hab hap, ModArith.bSubMod_eq ha hb hab hap,
   ModArith.bDoubleMod_eq ha hp hap, ModArith.bNegMod_eq ha hp hap⟩

theorem boxed_mod_special_eq_fixed {a b : List Nat} (c : Nat) (hab : a.length = b.length) (hc : c < B)
    (hn : 1 ≤ a.length) :
    ModArith.bSubModSpecial a b c = ModArith.subModSpecial a b c ∧
    ModArith.bNegModSpecial a c = ModArith.negModSpecial a c ∧
    ModArith.bMulModSpecial a b c = ModArith.mulModSpecial a b c :=
  ⟨ModArith.bSubModSpecial_eq c hab hn, ModArith.bNegModSpecial_eq a c hn, ModArith.bMulModSpecial_eq c hab hc hn⟩

/-- boxed square root (in-place loop with `ct_assign` / early-exit on a zero divisor) = fixed square root,
    all four forms, result at the operand's precision -/
theorem boxed_sqrt_eq_fixed {a : List Nat} (ha : WF a) (hne : a ≠ []) :
    Sqrt.uintSqrt a = some (Sqrt.boxedSqrt a) ∧ Sqrt.uintSqrtVartime a = Sqrt.boxedSqrtVartime a ∧
    Sqrt.uintCheckedSqrt a = some (Sqrt.boxedCheckedSqrt a) ∧ (Sqrt.boxedSqrt a).length = a.length := by
  have h1 := P20.sqrt_exact ha hne
  have h2 := P20.sqrt_vartime_exact ha hne
  have h3 := P20.boxed_sqrt_exact ha hne
  have h4 := P20.boxed_sqrt_vartime_exact ha hne
  refine ⟨by rw [h1, h3], by rw [h2, h4], ?_, by rw [h3]; exact toLimbs_length _ _⟩
  unfold Sqrt.uintCheckedSqrt Sqrt.boxedCheckedSqrt; rw [h1, h3]; rfl

/-- boxed division at equal precision IS the fixed constant-time routine (`div_rem_unchecked` runs the same
    loop); `checked_div` likewise; quotient and remainder keep the operands' precision -/
theorem boxed_div_eq_fixed {n d : List Nat} (h : n.length = d.length) (hd0 : val d ≠ 0) :
    Div.boxedDivRem n d = some (Div.divRemCt n d) ∧
    Div.boxedCheckedDiv n d = some (Div.checkedDiv n d) := by
  refine ⟨by unfold Div.boxedDivRem; simp [h], ?_⟩
  unfold Div.boxedCheckedDiv Div.checkedDiv
  have ht : d.take n.length = d := by rw [h]; exact List.take_length
  simp [h, hd0, ht]

/-- `BoxedUint::random_mod` / `try_random_bits_with_precision` = the fixed forms on every byte stream: same
    value, same bytes consumed, same failure point (T19.3) -/
theorem boxed_random_eq_fixed {m : List Nat} (hm : WF m) (hl : 1 ≤ m.length) (fuel : Nat) (r : Rand.Rng)
    {n : Nat} (hn : 1 ≤ n) (bl : Nat) :
    Rand.boxedRandomMod fuel r m = Rand.uintRandomMod fuel r m ∧
    Rand.boxedRandomBitsWP r bl (64 * n) = Rand.uintRandomBits r n bl :=
  ⟨P19.boxed_eq_fixed_mod hm hl fuel r, P19.boxed_eq_fixed_bits r hn bl⟩

/-! ## §3 forwarding forms that have their own model function -/

/-- `wrapping_add` is `adc(.., 0).0`, `checked_add` reports `carry.is_zero()`, `Checked<T> + Checked<T>` is the
    checked form with sticky `none`, the panicking operator is the checked form `expect`ed (definitional) -/
theorem add_forms (a b : List Nat) :
    wrappingAdd a b = (uadc a b 0).1 ∧ (checkedAdd a b).1 = wrappingAdd a b ∧
    checkedAddO (some a) (some b) = (if (checkedAdd a b).2 = WMAX then some (checkedAdd a b).1 else none) ∧
    wrappingSub a b = (usbb a b 0).1 ∧ (checkedSub a b).1 = wrappingSub a b ∧
    checkedSubO (some a) (some b) = (if (checkedSub a b).2 = WMAX then some (checkedSub a b).1 else none) :=
  ⟨rfl, rfl, rfl, rfl, rfl, rfl⟩

/-- negation routes: `wrapping_neg` = `carrying_neg().0` = `wrapping_neg_if(TRUE)` = `0.wrapping_sub(x)` -/
theorem neg_forms {a : List Nat} (ha : WF a) :
    wrappingNeg a = (carryingNeg a).1 ∧ wrappingNegIf a WMAX = wrappingNeg a ∧
    wrappingSub (uzero a.length) a = wrappingNeg a := by
  have ⟨hv, _, hl, hw⟩ := P04.carrying_neg_spec ha
  refine ⟨rfl, ?_, ?_⟩
  · have := uselect_spec true ha hw hl.symm
    have hm : mask true = WMAX := rfl
    rw [hm] at this
    simpa [wrappingNegIf, wrappingNeg] using this
  · have hz : (uzero a.length).length = a.length := by simp [uzero]
    have hwf : WF (wrappingSub (uzero a.length) a) := usbb_WF _ _ _
    have hlen : (wrappingSub (uzero a.length) a).length = a.length := by
      show (usbb (uzero a.length) a 0).1.length = _
      rw [usbb_length _ _ _ hz, hz]
    apply val_inj hwf hw (by rw [hlen]; exact hl.symm)
    have := P04.wrapping_sub_spec (uzero_WF a.length) ha hz
    rw [this, hz, val_uzero, Nat.zero_add]; exact hv.symm

/-- `Limb` arithmetic = the one-limb `Uint` chain (`U64`): wrapping add / sub on words are the `U64` forms -/
theorem limb_forms_eq_u64 (a b : Nat) :
    wrappingAdd [a] [b] = [(adc a b 0).1] ∧ wrappingSub [a] [b] = [(sbb a b 0).1] ∧
    (adc a b 0).1 = wadd a b := ⟨rfl, rfl, rfl⟩

/-- multiplication forms are projections of the one wide product: `wrapping_mul` = `split_mul().0`,
    `checked_mul` = `(lo, hi.is_zero())`, `widening_mul` = `lo ++ hi` (definitional) -/
theorem mul_forms (x y : List Nat) :
    Mul.wrappingOfPair (Karatsuba.splitMul x y) = (Karatsuba.splitMul x y).1 ∧
    (Mul.checkedOfPair (Karatsuba.splitMul x y)).1 = (Karatsuba.splitMul x y).1 ∧
    Mul.concatPair (Karatsuba.splitMul x y) = (Karatsuba.splitMul x y).1 ++ (Karatsuba.splitMul x y).2 :=
  ⟨rfl, rfl, rfl⟩

/-! ## §4 squaring = multiplying by itself -/

/-- `square_wide x = split_mul x x`, `BoxedUint::square x = BoxedUint::mul x x`, and hence every derived form
    (`wrapping_square` = `wrapping_mul(x, x)`, `checked_square` = `checked_mul(x, x)`, `saturating_*`),
    limb for limb at every width — whatever algorithm either dispatch picks (T03.6, T03.7) -/
theorem square_eq_mul_self (x : List Nat) (hx : WF x) :
    Karatsuba.squareWide x = Karatsuba.splitMul x x ∧ Karatsuba.boxedSquare x = Karatsuba.boxedMul x x ∧
    Mul.wrappingOfPair (Karatsuba.squareWide x) = Mul.wrappingOfPair (Karatsuba.splitMul x x) ∧
    Mul.checkedSquareOfPair (Karatsuba.squareWide x) = Mul.checkedOfPair (Karatsuba.splitMul x x) ∧
    Mul.saturatingOfPair (Karatsuba.squareWide x) = Mul.saturatingOfPair (Karatsuba.splitMul x x) := by
  have e := P03.square_wide_eq_split_mul_self x hx
  refine ⟨e, P03.boxed_square_eq_mul_self x hx, by rw [e], ?_, by rw [e]⟩
  rw [e]; rfl

/-- `double_mod a p = add_mod a a p` (shift-by-one route vs adder route), `neg_mod a p = sub_mod 0 a p` on
    values, inside the documented precondition `a < p` -/
theorem double_eq_add_self {a p : List Nat} (ha : WF a) (hp : WF p) (hap : a.length = p.length)
    (hlt : val a < val p) : ModArith.doubleMod a p = ModArith.addMod a a p := by
  have h1 := P07.double_mod_spec ha hp hap hlt
  have h2 := P07.add_mod_spec ha ha hp rfl hap hlt hlt
  apply val_inj h1.2.2.1 h2.2.2.1 (by rw [h1.2.2.2, h2.2.2.2])
  rw [h1.1, h2.1]; congr 1; omega

/-! ## §5 precomputed = one-shot -/

/-- `div_rem_limb(d)` IS `div_rem_limb_with_reciprocal(Reciprocal::new(d))`, `rem_limb` likewise (definitional:
    the one-shot forms build the reciprocal and forward) -/
theorem limb_div_precomputed_eq_oneshot (u : List Nat) (d : Nat) :
    Div.divRemLimb u d = Div.divRemLimbWithReciprocal u (Div.Reciprocal.new d) ∧
    Div.remLimb u d = Div.remLimbWithReciprocal u (Div.Reciprocal.new d) ∧
    Div.boxedRemLimb u d = Div.boxedRemLimbWithReciprocal u (Div.Reciprocal.new d) := ⟨rfl, rfl, rfl⟩

/-- the remainder-only loop returns the remainder of the quotient loop (`rem_limb` = `div_rem_limb().1`),
    (C02's former hypothesis `H_recip` on the 64-bit reciprocal Newton iteration is proved: `P02.reciprocal_exact`) -/
theorem rem_limb_eq_div_rem_limb {d : Nat} (hd0 : 0 < d) (hd : d < B)
    {u : List Nat} (hu : WF u) : Div.remLimb u d = (Div.divRemLimb u d).2 := by
  have h := P02.divRemLimb_exact hd0 hd hu
  rw [h.2.2, h.2.1]


/-! ## §6 further routes: Int, inverters, Montgomery constants, encodings -/

/-- `Int::cmp_vartime` = `Int::cmp` (both are the order on the signed values, T06.3) -/
theorem int_cmp_ct_eq_vartime {a b : List Nat} (ha : WF a) (hb : WF b) (h : a.length = b.length) (hne : a ≠ []) :
    icmpVartime a b = icmp a b := by
  rw [(P06.int_cmp_spec ha hb h hne).1, (P06.int_cmp_spec ha hb h hne).2]

/-- the `Int` wrapping forms ARE the `Uint` forms on the two's-complement limbs (definitional): `Wrapping<Int>`,
    `WrappingAdd/Sub for Int` and `wrapping_neg_if` forward to the unsigned chains -/
theorem int_forms_forward (a b : List Nat) (c : Nat) :
    SInt.iWrappingAdd a b = wrappingAdd a b ∧ SInt.iWrappingSub a b = wrappingSub a b ∧
    SInt.iWrappingNegIf a c = wrappingNegIf a c ∧ SInt.iWrappingNeg a = (SInt.iOverflowingNeg a).1 :=
  ⟨rfl, rfl, rfl, rfl⟩

/-- precomputed inverter, constant-time vs vartime (`SafeGcdInverter::inv` vs `inv_vartime` on the SAME
    precomputed state; the one-shot `inv_odd_mod` is `SafeGcdInverter::new(m, ONE).inv(a)` in model and code):
    same `is_some`, same value — GIVEN `H_divsteps_done` for both loops (C10's carried hypothesis) -/
theorem inverter_ct_eq_vartime_partial (sat : Nat) (hsat : 1 ≤ sat) (mw aw vw : List Nat)
    (hmw : WF mw) (haw : WF aw) (hvw : WF vw) (lm : mw.length = sat) (la : aw.length = sat) (lv : vw.length = sat)
    (hodd : val mw % 2 = 1) (hadj : val aw < val mw)
    (H_divsteps_done : ((SafeGcd.Inverter.new sat mw aw).inv sat vw).gZero = true)
    (H_divsteps_done_vartime : ((SafeGcd.Inverter.new sat mw aw).invVartime sat vw).gZero = true) :
    ((SafeGcd.Inverter.new sat mw aw).inv sat vw).isSome = ((SafeGcd.Inverter.new sat mw aw).invVartime sat vw).isSome ∧
    (((SafeGcd.Inverter.new sat mw aw).inv sat vw).isSome = true →
      val ((SafeGcd.Inverter.new sat mw aw).inv sat vw).value =
        val ((SafeGcd.Inverter.new sat mw aw).invVartime sat vw).value) :=
  P10.safegcd_ct_vartime_agree_partial sat hsat mw aw vw hmw haw hvw lm la lv hodd hadj
    H_divsteps_done H_divsteps_done_vartime

/-- const-evaluated Montgomery constants (`impl_modulus!`) = `MontyParams::new` = `new_vartime` =
    `BoxedMontyParams::new`, all six fields, every odd modulus incl. 1 (T08.2) -/
theorem monty_const_eq_runtime (n m : Nat) (hm : m < B ^ n) (hodd : m % 2 = 1) :
    Monty.paramsNew (toLimbs n m) = Monty.paramsNewVartime (toLimbs n m) ∧
    Monty.paramsNew (toLimbs n m) = Monty.paramsConst (toLimbs n m) ∧
    Monty.paramsNew (toLimbs n m) = Monty.paramsBoxed (toLimbs n m) :=
  P08.constructors_agree n m hm hodd

/-- byte encodings: little endian reversed = big endian; the boxed decoder at precision `64·n` accepts exactly
    what the fixed `n`-limb decoder accepts for `8·n` bytes and returns the same limbs (`n` of them) -/
theorem encoding_routes {l : List Nat} (h : WF l) :
    Encoding.uintToBeBytes l = (Encoding.uintToLeBytes l).reverse := P16.be_is_reversed_le h

theorem boxed_decode_eq_fixed {n : Nat} {bs : List Nat} (hb : Encoding.Bytes bs) (hn : 1 ≤ n)
    (hl : bs.length = 8 * n) :
    Encoding.boxedFromBeSlice bs (64 * n) = .ok (toLimbs n (Encoding.beVal bs)) ∧
    Encoding.fromBeSlice n bs = some (toLimbs n (Encoding.beVal bs)) := by
  have hlt : Encoding.beVal bs < 2 ^ (64 * n) := by
    rw [Encoding.beVal_eq]
    have := Encoding.leVal_lt (Encoding.Bytes_reverse.mpr hb)
    rw [List.length_reverse, hl] at this
    have e : (256 : Nat) ^ (8 * n) = 2 ^ (64 * n) := by
      rw [show (256 : Nat) = 2 ^ 8 from by decide, ← Nat.pow_mul]; congr 1; omega
    rwa [e] at this
  have h2 := (P16.boxed_ok_iff bs (64 * n) hb).2.1 (by omega) hlt
  have hm : max 1 ((64 * n + 63) / 64) = n := by omega
  rw [hm] at h2
  refine ⟨h2, ?_⟩
  rw [P16.decode_be_exact hb, if_pos hl]

/-! ## non-vacuity: the hypotheses are met by concrete non-trivial operands -/

example : badc [WMAX, 1] [1, 2] 0 = uadc [WMAX, 1] [1, 2] 0 ∧ (badc [WMAX] [1, 5] 0).1.length = 2 := by decide
example : Bits.mapLimbs (· &&& ·) [5, 6] [3, 4] = Bits.ubitand [5, 6] [3, 4] :=
  (boxed_bitops_eq_fixed (a := [5, 6]) (b := [3, 4]) rfl).1
example : Karatsuba.boxedMul [WMAX, WMAX] [WMAX] = Mul.concatPair (Karatsuba.splitMul [WMAX, WMAX] [WMAX]) := by
  decide +kernel
example : Div.boxedDivRem [7, 1] [3, 0] = some (Div.divRemCt [7, 1] [3, 0]) := by decide +kernel
example : DivRemExact (fun n d => (toLimbs n.length (val n / val d), toLimbs d.length (val n % val d))) :=
  fun _ _ _ _ _ _ => rfl

end CB.P15
