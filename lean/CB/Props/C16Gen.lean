/-
  C16 — theorems about the SOURCE of the word-level helpers this property rests on, regenerated from /repo on every
  run by tools/translate.py (CB/Gen/Encoding.lean).  Kept in a module of its own (nothing imports it) so that a change
  in one of these Rust functions breaks exactly this property's obligations and no other module's build.
  Audited together with CB/Props/C16.lean by tools/runner.py.
-/
import CB.Props.C16
import CB.Lemmas.GenBitsHex
namespace CB.P16G
open CB CB.Encoding

/-! ## T16.G — the SOURCE of the constant-time hex decoder, regenerated on every run
(tools/translate.py → CB/Gen/Encoding.lean: `decode_nibble`, `decode_hex_byte` of src/uint/encoding.rs)

These theorems are about `CB.Gen.Encoding.*`: the Lean translation of what src/uint/encoding.rs says NOW (statement for
statement over `BitVec`, the `i16` arithmetic with the arithmetic shift), not about a hand copy.  The meanings are decided
by `bv_decide` (CB/Lemmas/GenBitsHex.lean), so an equivalent rewrite of the Rust still passes and a changed constant /
mask / shift fails.  The bridges tie the hand-written `Nat` model (`decodeNibble`, `decodeHexByte`), on which every hex
theorem of CB/Props/C16.lean is built, to the translated source. -/

/-- `decode_nibble` of the source, on ALL 256 bytes: the value of the hex digit (`0-9A-Fa-f`), and the error pattern
    `0xFFFF` for EVERY other byte -/
theorem src_decode_nibble_exact (c : BitVec 8) :
    (Gen.Encoding.decode_nibble c).toNat = (match hexVal? c.toNat with | some d => d | none => 65535) := by
  rw [GenBits.decode_nibble_meaning]; exact (GenBits.hexVal?_bridge c).1.symm

/-- strictness per nibble: a byte that is not a hex digit always yields a word with a non-zero high byte -/
theorem src_decode_nibble_strict (c : BitVec 8) (hn : isHexDigit c.toNat = false) :
    Gen.Encoding.decode_nibble c = 0xFFFF#16 ∧ Gen.Encoding.decode_nibble c >>> 8 ≠ 0#16 := by
  have h : GenBits.isHexB c = false := by
    rw [← (GenBits.hexVal?_bridge c).2]; exact hn
  exact (GenBits.decode_nibble_range c).2 h

/-- … and a hex digit yields its value, below 16 -/
theorem src_decode_nibble_accepts (c : BitVec 8) {d : Nat} (hv : hexVal? c.toNat = some d) :
    (Gen.Encoding.decode_nibble c).toNat = d ∧ d < 16 := by
  rw [src_decode_nibble_exact, hv]; exact ⟨rfl, hexVal?_lt hv⟩

/-- the hand-written models ARE the translated source functions, on every byte / pair of bytes -/
theorem model_is_translated_source (a b : BitVec 8) :
    decodeNibble a.toNat = (Gen.Encoding.decode_nibble a).toNat ∧
    decodeHexByte a.toNat b.toNat =
      ((Gen.Encoding.decode_hex_byte (a, b)).1.toNat, (Gen.Encoding.decode_hex_byte (a, b)).2.toNat) :=
  ⟨GenBits.decodeNibble_bridge a, GenBits.decodeHexByte_bridge a b⟩

/-- `decode_hex_byte` of the source: the error word is zero EXACTLY when both characters are hex digits, and then the
    byte is `16·hi + lo` -/
theorem src_decode_hex_byte_exact (a b : BitVec 8) :
    ((Gen.Encoding.decode_hex_byte (a, b)).2 = 0#16 ↔ isHexDigit a.toNat = true ∧ isHexDigit b.toNat = true) ∧
    (∀ x y, hexVal? a.toNat = some x → hexVal? b.toNat = some y →
      (Gen.Encoding.decode_hex_byte (a, b)).1.toNat = 16 * x + y ∧ (Gen.Encoding.decode_hex_byte (a, b)).2 = 0#16) := by
  have hm := (CB.P16.hex_byte_exact a.isLt b.isLt)
  have hb := GenBits.decodeHexByte_bridge a b
  have h2 : (Gen.Encoding.decode_hex_byte (a, b)).2 = 0#16 ↔ (decodeHexByte a.toNat b.toNat).2 = 0 := by
    rw [hb]; exact ⟨fun h => by rw [h]; rfl, fun h => BitVec.eq_of_toNat_eq h⟩
  refine ⟨h2.trans hm.1, ?_⟩
  intro x y hx hy
  have h := hm.2 x y hx hy
  rw [hb] at h
  injection h with h1 h0
  exact ⟨h1, BitVec.eq_of_toNat_eq h0⟩

/-- strictness of the source: a non-hex character in either position is ALWAYS reported (error word non-zero) -/
theorem src_decode_hex_byte_strict (a b : BitVec 8)
    (hn : isHexDigit a.toNat = false ∨ isHexDigit b.toNat = false) :
    (Gen.Encoding.decode_hex_byte (a, b)).2 ≠ 0#16 := by
  intro h
  have := ((src_decode_hex_byte_exact a b).1).1 h
  rcases hn with hn | hn
  · rw [this.1] at hn; cases hn
  · rw [this.2] at hn; cases hn

/-- the same in pure `BitVec` terms (no model involved): `err = 0 ↔ both bytes in 0-9A-Fa-f`, then
    `result = 16·value(hi) + value(lo)` -/
theorem src_decode_hex_byte_bits (a b : BitVec 8) :
    ((Gen.Encoding.decode_hex_byte (a, b)).2 = 0#16 ↔ (GenBits.isHexB a = true ∧ GenBits.isHexB b = true)) ∧
    (GenBits.isHexB a = true → GenBits.isHexB b = true →
      (Gen.Encoding.decode_hex_byte (a, b)).1 =
        (GenBits.hexValB a).setWidth 8 * 16#8 + (GenBits.hexValB b).setWidth 8) :=
  ⟨GenBits.decode_hex_byte_err a b, GenBits.decode_hex_byte_val a b⟩

/-- hypotheses are satisfiable: `"7f"` decodes to `0x7f`, `"7g"` is reported -/
example : Gen.Encoding.decode_hex_byte (0x37#8, 0x66#8) = (0x7f#8, 0#16) ∧
    (Gen.Encoding.decode_hex_byte (0x37#8, 0x67#8)).2 ≠ 0#16 := by decide

end CB.P16G
