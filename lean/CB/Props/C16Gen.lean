/-
  C16 — theorems about the SOURCE of the word-level helpers this property rests on, regenerated from /repo on every
  run by tools/translate.py (CB/Gen/Encoding.lean).  Kept in a module of its own (nothing imports it) so that a change
  in one of these Rust functions breaks exactly this property's obligations and no other module's build.
  Audited together with CB/Props/C16.lean by tools/runner.py.
-/
import CB.Props.C16
import CB.Lemmas.GenBitsHex
import CB.Lemmas.GenEncodingFrom
namespace CB.P16G
open CB CB.Encoding

/-! ## T16.G — the SOURCE of the constant-time hex decoder, regenerated on every run
(tools/translate.py → CB/Gen/Encoding.lean: `decode_nibble`, `decode_hex_byte` of src/uint/encoding.rs)

These theorems are about `CB.Gen.Encoding.*`: the Lean translation of what src/uint/encoding.rs says NOW (statement for
statement over `BitVec`, the `i16` arithmetic with the arithmetic shift), not about a hand copy.  The meanings are decided
by `bv_decide` (CB/Lemmas/GenBitsHex.lean), so an equivalent rewrite of the Rust still passes and a changed constant /
mask / shift fails.  The bridges tie the hand-written `Nat` model (`decodeNibble`, `decodeHexByte`), on which every hex
theorem of CB/Props/C16.lean is built, to the translated source. -/

/-- `decode_nibble` of the source, on ALL 256 bytes: the value of the hex digit (`0-9A-Fa-f`), and the error pattern
    `0xFFFF` for EVERY other byte -/
theorem src_decode_nibble_exact (c : BitVec 8) :
    (Gen.Encoding.decode_nibble c).toNat = (match hexVal? c.toNat with | some d => d | none => 65535) := by
  rw [GenBits.decode_nibble_meaning]; exact (GenBits.hexVal?_bridge c).1.symm

/-- strictness per nibble: a byte that is not a hex digit always yields a word with a non-zero high byte -/
theorem src_decode_nibble_strict (c : BitVec 8) (hn : isHexDigit c.toNat = false) :
    Gen.Encoding.decode_nibble c = 0xFFFF#16 ∧ Gen.Encoding.decode_nibble c >>> 8 ≠ 0#16 := by
  have h : GenBits.isHexB c = false := by
    rw [← (GenBits.hexVal?_bridge c).2]; exact hn
  exact (GenBits.decode_nibble_range c).2 h

/-- … and a hex digit yields its value, below 16 -/
theorem src_decode_nibble_accepts (c : BitVec 8) {d : Nat} (hv : hexVal? c.toNat = some d) :
    (Gen.Encoding.decode_nibble c).toNat = d ∧ d < 16 := by
  rw [src_decode_nibble_exact, hv]; exact ⟨rfl, hexVal?_lt hv⟩

/-- the hand-written models ARE the translated source functions, on every byte / pair of bytes -/
theorem model_is_translated_source (a b : BitVec 8) :
    decodeNibble a.toNat = (Gen.Encoding.decode_nibble a).toNat ∧
    decodeHexByte a.toNat b.toNat =
      ((Gen.Encoding.decode_hex_byte (a, b)).1.toNat, (Gen.Encoding.decode_hex_byte (a, b)).2.toNat) :=
  ⟨GenBits.decodeNibble_bridge a, GenBits.decodeHexByte_bridge a b⟩

/-- `decode_hex_byte` of the source: the error word is zero EXACTLY when both characters are hex digits, and then the
    byte is `16·hi + lo` -/
theorem src_decode_hex_byte_exact (a b : BitVec 8) :
    ((Gen.Encoding.decode_hex_byte (a, b)).2 = 0#16 ↔ isHexDigit a.toNat = true ∧ isHexDigit b.toNat = true) ∧
    (∀ x y, hexVal? a.toNat = some x → hexVal? b.toNat = some y →
      (Gen.Encoding.decode_hex_byte (a, b)).1.toNat = 16 * x + y ∧ (Gen.Encoding.decode_hex_byte (a, b)).2 = 0#16) := by
  have hm := (CB.P16.hex_byte_exact a.isLt b.isLt)
  have hb := GenBits.decodeHexByte_bridge a b
  have h2 : (Gen.Encoding.decode_hex_byte (a, b)).2 = 0#16 ↔ (decodeHexByte a.toNat b.toNat).2 = 0 := by
    rw [hb]; exact ⟨fun h => by rw [h]; rfl, fun h => BitVec.eq_of_toNat_eq h⟩
  refine ⟨h2.trans hm.1, ?_⟩
  intro x y hx hy
  have h := hm.2 x y hx hy
  rw [hb] at h
  injection h with h1 h0
  exact ⟨h1, BitVec.eq_of_toNat_eq h0⟩

/-- strictness of the source: a non-hex character in either position is ALWAYS reported (error word non-zero) -/
theorem src_decode_hex_byte_strict (a b : BitVec 8)
    (hn : isHexDigit a.toNat = false ∨ isHexDigit b.toNat = false) :
    (Gen.Encoding.decode_hex_byte (a, b)).2 ≠ 0#16 := by
  intro h
  have := ((src_decode_hex_byte_exact a b).1).1 h
  rcases hn with hn | hn
  · rw [this.1] at hn; cases hn
  · rw [this.2] at hn; cases hn

/-- the same in pure `BitVec` terms (no model involved): `err = 0 ↔ both bytes in 0-9A-Fa-f`, then
    `result = 16·value(hi) + value(lo)` -/
theorem src_decode_hex_byte_bits (a b : BitVec 8) :
    ((Gen.Encoding.decode_hex_byte (a, b)).2 = 0#16 ↔ (GenBits.isHexB a = true ∧ GenBits.isHexB b = true)) ∧
    (GenBits.isHexB a = true → GenBits.isHexB b = true →
      (Gen.Encoding.decode_hex_byte (a, b)).1 =
        (GenBits.hexValB a).setWidth 8 * 16#8 + (GenBits.hexValB b).setWidth 8) :=
  ⟨GenBits.decode_hex_byte_err a b, GenBits.decode_hex_byte_val a b⟩

/-- hypotheses are satisfiable: `"7f"` decodes to `0x7f`, `"7g"` is reported -/
example : Gen.Encoding.decode_hex_byte (0x37#8, 0x66#8) = (0x7f#8, 0#16) ∧
    (Gen.Encoding.decode_hex_byte (0x37#8, 0x67#8)).2 ≠ 0#16 := by decide

/-! ## T16.G2 — the SOURCE of the primitive conversions `Uint::from_u8/u16/u32/u64/from_word/from_wide_word`
(src/uint/from.rs → CB/Gen/Encoding.lean, namespace `CB.Gen.Encoding.Uint`; every `assert!` of a function is the
generated `<fn>_asserts`), for EVERY limb count -/

open CB.GenChains in
/-- the hand-written `fromWord` / `fromU128` ARE the translated source: `none` (the panic) exactly when the translated
    `assert!`s fail, otherwise the limbs the translated body builds -/
theorem model_is_translated_source_from (L : Nat) (a : BitVec 8) (b : BitVec 16) (c : BitVec 32) (d : BitVec 64)
    (e : BitVec 128) :
    (fromWord L a.toNat = if Gen.Encoding.Uint.from_u8_asserts L a then some (nats (Gen.Encoding.Uint.from_u8 L a)) else none) ∧
    (fromWord L b.toNat = if Gen.Encoding.Uint.from_u16_asserts L b then some (nats (Gen.Encoding.Uint.from_u16 L b)) else none) ∧
    (fromWord L c.toNat = if Gen.Encoding.Uint.from_u32_asserts L c then some (nats (Gen.Encoding.Uint.from_u32 L c)) else none) ∧
    (fromWord L d.toNat = if Gen.Encoding.Uint.from_u64_asserts L d then some (nats (Gen.Encoding.Uint.from_u64 L d)) else none) ∧
    (fromWord L d.toNat = if Gen.Encoding.Uint.from_word_asserts L d then some (nats (Gen.Encoding.Uint.from_word L d)) else none) ∧
    (fromU128 L e.toNat =
      if Gen.Encoding.Uint.from_wide_word_asserts L e then some (nats (Gen.Encoding.Uint.from_wide_word L e)) else none) :=
  ⟨GenEncoding.from_u8_bridge L a, GenEncoding.from_u16_bridge L b, GenEncoding.from_u32_bridge L c,
   GenEncoding.from_u64_bridge L d, GenEncoding.from_word_bridge L d, GenEncoding.from_wide_word_bridge L e⟩

open CB.GenChains in
/-- a bridge in the shape `model = if asserts then some (nats src) else none`, with the model's value theorem, gives
    the value theorem of the source -/
theorem src_of_bridge {m : Option (List Nat)} {as : Bool} {r : List (BitVec 64)} {v n : Nat}
    (hb : m = if as then some (nats r) else none)
    (hm : ∃ l, m = some l ∧ val l = v ∧ WF l ∧ l.length = n) :
    as = true ∧ val (nats r) = v ∧ r.length = n := by
  obtain ⟨l, h1, h2, _, h4⟩ := hm
  cases as with
  | false => rw [h1] at hb; cases hb
  | true =>
    rw [h1] at hb
    simp only [if_true, Option.some.injEq] at hb
    subst hb
    exact ⟨rfl, h2, by rw [← h4, nats_length]⟩

open CB.GenChains in
/-- primitive conversions of the source are LOSSLESS for every limb count the `assert!` admits: the assertions pass, the
    result has `LIMBS` limbs and its value is the primitive; and they panic (assertion false) for too few limbs -/
theorem src_from_primitive_exact (L : Nat) (a : BitVec 8) (b : BitVec 16) (c : BitVec 32) (d : BitVec 64)
    (e : BitVec 128) :
    (Gen.Encoding.Uint.from_u8_asserts (L + 1) a = true ∧ val (nats (Gen.Encoding.Uint.from_u8 (L + 1) a)) = a.toNat ∧
      (Gen.Encoding.Uint.from_u8 (L + 1) a).length = L + 1) ∧
    (Gen.Encoding.Uint.from_u16_asserts (L + 1) b = true ∧ val (nats (Gen.Encoding.Uint.from_u16 (L + 1) b)) = b.toNat ∧
      (Gen.Encoding.Uint.from_u16 (L + 1) b).length = L + 1) ∧
    (Gen.Encoding.Uint.from_u32_asserts (L + 1) c = true ∧ val (nats (Gen.Encoding.Uint.from_u32 (L + 1) c)) = c.toNat ∧
      (Gen.Encoding.Uint.from_u32 (L + 1) c).length = L + 1) ∧
    (Gen.Encoding.Uint.from_u64_asserts (L + 1) d = true ∧ val (nats (Gen.Encoding.Uint.from_u64 (L + 1) d)) = d.toNat ∧
      (Gen.Encoding.Uint.from_u64 (L + 1) d).length = L + 1) ∧
    (Gen.Encoding.Uint.from_word_asserts (L + 1) d = true ∧ val (nats (Gen.Encoding.Uint.from_word (L + 1) d)) = d.toNat ∧
      (Gen.Encoding.Uint.from_word (L + 1) d).length = L + 1) ∧
    (Gen.Encoding.Uint.from_wide_word_asserts (L + 2) e = true ∧
      val (nats (Gen.Encoding.Uint.from_wide_word (L + 2) e)) = e.toNat ∧
      (Gen.Encoding.Uint.from_wide_word (L + 2) e).length = L + 2) := by
  have hB : ∀ {w : Nat} (x : BitVec w), w ≤ 64 → x.toNat < B := fun x h =>
    Nat.lt_of_lt_of_le x.isLt (by rw [B_def]; exact Nat.pow_le_pow_right (by decide) h)
  have hBB : e.toNat < B * B := by have := e.isLt; rw [B_def]; omega
  exact ⟨src_of_bridge (GenEncoding.from_u8_bridge _ a) (fromWord_spec L _ (hB a (by decide))),
    src_of_bridge (GenEncoding.from_u16_bridge _ b) (fromWord_spec L _ (hB b (by decide))),
    src_of_bridge (GenEncoding.from_u32_bridge _ c) (fromWord_spec L _ (hB c (by decide))),
    src_of_bridge (GenEncoding.from_u64_bridge _ d) (fromWord_spec L _ (hB d (by decide))),
    src_of_bridge (GenEncoding.from_word_bridge _ d) (fromWord_spec L _ (hB d (by decide))),
    src_of_bridge (GenEncoding.from_wide_word_bridge _ e) (fromU128_spec L _ hBB)⟩

/-- the panics of the source: one-word conversions refuse `LIMBS = 0`, `from_wide_word` refuses `LIMBS < 2` -/
theorem src_from_primitive_panics (a : BitVec 8) (b : BitVec 16) (c : BitVec 32) (d : BitVec 64) (e : BitVec 128) :
    Gen.Encoding.Uint.from_u8_asserts 0 a = false ∧ Gen.Encoding.Uint.from_u16_asserts 0 b = false ∧
    Gen.Encoding.Uint.from_u32_asserts 0 c = false ∧ Gen.Encoding.Uint.from_u64_asserts 0 d = false ∧
    Gen.Encoding.Uint.from_word_asserts 0 d = false ∧ Gen.Encoding.Uint.from_wide_word_asserts 0 e = false ∧
    Gen.Encoding.Uint.from_wide_word_asserts 1 e = false := by
  have h1 := GenEncoding.from_u8_bridge 0 a
  have h2 := GenEncoding.from_u16_bridge 0 b
  have h3 := GenEncoding.from_u32_bridge 0 c
  have h4 := GenEncoding.from_u64_bridge 0 d
  have h5 := GenEncoding.from_word_bridge 0 d
  have h6 := GenEncoding.from_wide_word_bridge 0 e
  have h7 := GenEncoding.from_wide_word_bridge 1 e
  have key : ∀ {as : Bool} {r : List Nat}, (none : Option (List Nat)) = (if as then some r else none) → as = false := by
    intro as r h; cases as with
    | false => rfl
    | true => cases h
  exact ⟨key h1, key h2, key h3, key h4, key h5, key h6, key h7⟩

end CB.P16G
