/-
  C06 — Comparison, equality, hashing and conditional selection are mutually coherent.
  Property theorems only.  All statements quantify over every limb count and every operand.
-/
import CB.Lemmas.C06Cmp
import CB.Lemmas.C06Num
namespace CB.P06
open CB CB.Cmp

/-! ### T06.1 limb predicates (the Hacker's-Delight bit tricks of const_choice.rs) -/

theorem word_lt_spec {x y : Nat} (hx : x < B) (hy : y < B) :
    fromWordLt x y = mask (decide (x < y)) := fromWordLt_spec hx hy
theorem word_gt_spec {x y : Nat} (hx : x < B) (hy : y < B) :
    fromWordGt x y = mask (decide (y < x)) := fromWordLt_spec hy hx
theorem word_le_spec {x y : Nat} (hx : x < B) (hy : y < B) :
    fromWordLe x y = mask (decide (x ≤ y)) := fromWordLe_spec hx hy
theorem word_eq_spec {x y : Nat} (hx : x < B) (hy : y < B) :
    fromWordEq x y = mask (decide (x = y)) := fromWordEq_spec hx hy
theorem word_nonzero_spec {x : Nat} (hx : x < B) :
    fromWordNonzero x = mask (decide (x ≠ 0)) := fromWordNonzero_spec hx

/-- `Limb: Ord` agrees with the order on words. -/
theorem limb_cmp_spec {x y : Nat} (hx : x < B) (hy : y < B) : limbCmp x y = cmp3 x y := by
  unfold limbCmp cmp3
  simp only []
  rw [fromWordEq_spec hx hy, fromWordGt, fromWordLt_spec hy hx]
  have hW : (0 : Nat) ≠ WMAX := by decide
  by_cases h1 : x < y
  · have n1 : ¬ x = y := by omega
    have n2 : ¬ y < x := by omega
    simp [h1, n1, n2, mask, hW]
  · by_cases h2 : x = y
    · subst h2; simp [mask, hW]
    · have : y < x := by omega
      simp [h1, h2, this, mask]

/-! ### T06.1 / T06.2 fixed-width unsigned: every predicate is the order on values -/

theorem uint_eq_spec {a b : List Nat} (ha : WF a) (hb : WF b) (h : a.length = b.length) :
    ueq a b = mask (decide (val a = val b)) := ueq_spec ha hb h
theorem uint_lt_spec {a b : List Nat} (ha : WF a) (hb : WF b) (h : a.length = b.length) :
    ult a b = mask (decide (val a < val b)) := ult_spec ha hb h
theorem uint_gt_spec {a b : List Nat} (ha : WF a) (hb : WF b) (h : a.length = b.length) :
    ugt a b = mask (decide (val b < val a)) := ugt_spec ha hb h
theorem uint_lte_spec {a b : List Nat} (ha : WF a) (hb : WF b) (h : a.length = b.length) :
    ulte a b = mask (decide (val a ≤ val b)) := ulte_spec ha hb h
/-- `cmp` ∈ {-1,0,1} is the three-way order, and `cmp_vartime` returns the same. -/
theorem uint_cmp_spec {a b : List Nat} (ha : WF a) (hb : WF b) (h : a.length = b.length) :
    ucmp a b = cmp3 (val a) (val b) ∧ ucmpVartime a b = ucmp a b := by
  rw [ucmp_spec ha hb h, ucmpVartime_spec ha hb h]; exact ⟨rfl, rfl⟩
theorem uint_is_nonzero_spec {a : List Nat} (ha : WF a) :
    isNonzero a = mask (decide (val a ≠ 0)) := isNonzero_spec ha
/-- `is_odd` is the parity of the value. -/
theorem uint_is_odd_spec {x : Nat} {xs : List Nat} (hx : x < B) :
    isOdd (x :: xs) = mask (decide (val (x :: xs) % 2 = 1)) := by
  have hpar : val (x :: xs) % 2 = x % 2 := by
    simp only [val_cons, B_def]; omega
  have hand : x &&& 1 = x % 2 := by
    have := Nat.and_two_pow_sub_one_eq_mod x 1; simpa using this
  unfold isOdd
  simp only [List.headD_cons, hand, hpar]
  rcases Nat.mod_two_eq_zero_or_one x with h | h <;> rw [h] <;> decide

/-- mutual coherence: `cmp` decides `eq`, `lt`, `gt` (T06.2). -/
theorem uint_cmp_coherent {a b : List Nat} (ha : WF a) (hb : WF b) (h : a.length = b.length) :
    (ucmp a b = 0 ↔ ueq a b = WMAX) ∧ (ucmp a b = -1 ↔ ult a b = WMAX) ∧ (ucmp a b = 1 ↔ ugt a b = WMAX) := by
  rw [ucmp_spec ha hb h, ueq_spec ha hb h, ult_spec ha hb h, ugt_spec ha hb h]
  unfold cmp3
  have hW : (0 : Nat) ≠ WMAX := by decide
  by_cases h1 : val a < val b
  · have n1 : ¬ val a = val b := by omega
    have n2 : ¬ val b < val a := by omega
    simp [h1, n1, n2, mask, hW]
  · by_cases h2 : val a = val b
    · simp [h2, mask, hW]
    · have : val b < val a := by omega
      simp [h1, h2, this, mask, hW]

/-! ### signed: comparison through the flipped sign bit is the order on `toInt` -/

theorem int_lt_spec {a b : List Nat} (ha : WF a) (hb : WF b) (h : a.length = b.length) (hne : a ≠ []) :
    ilt a b = mask (decide (toInt a < toInt b)) := ilt_spec ha hb h hne
theorem int_gt_spec {a b : List Nat} (ha : WF a) (hb : WF b) (h : a.length = b.length) (hne : a ≠ []) :
    igt a b = mask (decide (toInt b < toInt a)) := igt_spec ha hb h hne
theorem int_cmp_spec {a b : List Nat} (ha : WF a) (hb : WF b) (h : a.length = b.length) (hne : a ≠ []) :
    icmp a b = cmp3i (toInt a) (toInt b) ∧ icmpVartime a b = cmp3i (toInt a) (toInt b) :=
  icmp_spec ha hb h hne
/-- signed equality is equality of the limbs, hence of the signed values -/
theorem int_eq_spec {a b : List Nat} (ha : WF a) (hb : WF b) (h : a.length = b.length) (hne : a ≠ []) :
    ueq a b = mask (decide (toInt a = toInt b)) := by
  have hnb : b ≠ [] := by intro e; subst e; cases a <;> simp_all
  rw [ueq_spec ha hb h]
  congr 1
  have ⟨a1, _, _⟩ := invertMsb_spec ha hne
  have ⟨b1, _, _⟩ := invertMsb_spec hb hnb
  have hiff : (val a = val b) ↔ toInt a = toInt b := by
    constructor
    · intro e; have := val_inj ha hb h e; rw [this]
    · intro e
      have : (val (invertMsb a) : Int) = val (invertMsb b) := by rw [a1, b1, e, h]
      have hv : val (invertMsb a) = val (invertMsb b) := by exact_mod_cast this
      have hia := (invertMsb_spec ha hne).2
      have hib := (invertMsb_spec hb hnb).2
      have := val_inj hia.1 hib.1 (by rw [hia.2, hib.2, h]) hv
      have hinv : ∀ l : List Nat, WF l → invertMsb (invertMsb l) = l := by
        intro l
        induction l with
        | nil => intro _; rfl
        | cons x xs ih =>
          intro hl
          have ⟨hx, hxs⟩ := WF_cons.mp hl
          cases xs with
          | nil =>
            show [x ^^^ HALF ^^^ HALF] = [x]
            rw [Nat.xor_assoc, Nat.xor_self, Nat.xor_zero]
          | cons y ys =>
            have hne' : (y :: ys) ≠ [] := by simp
            rw [invertMsb_cons hne']
            have : invertMsb (y :: ys) ≠ [] := by
              intro e
              have := (invertMsb_spec hxs hne').2.2
              rw [e] at this; simp at this
            rw [invertMsb_cons this, ih hxs]
      rw [← hinv a ha, ← hinv b hb, this]
  simp only [hiff]

/-- `is_negative` is the sign of the signed value -/
theorem int_is_negative_spec {a : List Nat} (ha : WF a) :
    isNegative a = mask (decide (toInt a < 0)) := by
  unfold isNegative toInt
  have hlast : a.getLastD 0 < B := by
    cases a with
    | nil => decide
    | cons x xs =>
      have := List.getLastD_mem_cons (l := xs) (a := x)
      rw [List.getLastD_cons]
      exact ha _ (by simpa using this)
  have hv := val_lt ha
  by_cases hh : a.getLastD 0 ≥ HALF
  · have : a.getLastD 0 / HALF = 1 := by simp only [HALF_def, B_def] at *; omega
    rw [this]
    simp only [hh, if_true]
    have hneg : ((val a : Int) - ((B ^ a.length : Nat) : Int) < 0) := by
      have : (val a : Int) < ((B ^ a.length : Nat) : Int) := by exact_mod_cast hv
      omega
    have e1 : fromWordLsb 1 = WMAX := by decide
    rw [e1, decide_eq_true hneg]; rfl
  · have : a.getLastD 0 / HALF = 0 := by simp only [HALF_def, B_def] at *; omega
    rw [this]
    simp only [hh, if_false]
    have hnn : ¬ ((val a : Int) < 0) := by omega
    have e0 : fromWordLsb 0 = 0 := by decide
    rw [e0, decide_eq_false hnn]; rfl

/-! ### T06.3 selection returns exactly the chosen operand, never a mixture -/

theorem select_spec {a b : List Nat} (p : Bool) (ha : WF a) (hb : WF b) (h : a.length = b.length) :
    uselect a b (mask p) = if p then b else a := uselect_spec p ha hb h
theorem swap_spec {a b : List Nat} (p : Bool) (ha : WF a) (hb : WF b) (h : a.length = b.length) :
    uswap a b (mask p) = if p then (b, a) else (a, b) := by
  unfold uswap
  rw [uselect_spec p ha hb h, uselect_spec p hb ha h.symm]
  cases p <;> rfl
theorem word_select_spec {a b : Nat} (p : Bool) (ha : a < B) (hb : b < B) :
    selectWord a b (mask p) = if p then b else a := selectWord_spec p ha hb
/-- the mask built from a choice bit -/
theorem maskOfBit_spec (p : Bool) : maskOfBit (if p then 1 else 0) = mask p := by
  cases p <;> decide

/-! ### T06.4 equal values hash equally (fixed width) -/

theorem hash_fixed_coherent {a b : List Nat} (ha : WF a) (hb : WF b) (h : a.length = b.length)
    (heq : ueq a b = WMAX) : hashInputFixed a = hashInputFixed b := by
  rw [ueq_spec ha hb h] at heq
  have : val a = val b := by
    by_cases hv : val a = val b
    · exact hv
    · simp [hv, mask] at heq; exact absurd heq (by decide)
  exact val_inj ha hb h this

/-! ### T06.5 boxed comparison: zero padding gives the order on values for ANY two precisions -/

theorem boxed_lt_spec {a b : List Nat} (ha : WF a) (hb : WF b) :
    bctLt a b = mask (decide (val a < val b)) := bctLt_spec ha hb
theorem boxed_gt_spec {a b : List Nat} (ha : WF a) (hb : WF b) :
    bctGt a b = mask (decide (val b < val a)) := bctGt_spec ha hb
theorem boxed_eq_spec {a b : List Nat} (ha : WF a) (hb : WF b) :
    bctEq a b = if val a = val b then 1 else 0 := bctEq_spec ha hb
theorem boxed_cmp_spec {a b : List Nat} (ha : WF a) (hb : WF b) :
    bcmp a b = cmp3 (val a) (val b) := bcmp_spec ha hb

/- FULL STATEMENT (false of the code, see `boxed_hash_incoherent`):
   ∀ a b, WF a → WF b → bctEq a b = 1 → hashInputBoxed a = hashInputBoxed b -/
/-- boxed values that compare equal hash equally PROVIDED they have the same precision. -/
theorem boxed_hash_coherent_partial {a b : List Nat} (ha : WF a) (hb : WF b)
    (H_same_precision : a.length = b.length) (heq : bctEq a b = 1) :
    hashInputBoxed a = hashInputBoxed b := by
  rw [bctEq_spec ha hb] at heq
  have : val a = val b := by
    by_cases hv : val a = val b
    · exact hv
    · simp [hv] at heq
  unfold hashInputBoxed
  rw [val_inj ha hb H_same_precision this]

/-- T06.6n (negative, witness): 5 at 64-bit precision and 5 at 128-bit precision compare equal but
    feed different bytes to the hasher (derived `Hash` over the raw limb slice). -/
theorem boxed_hash_incoherent :
    bctEq [5] [5, 0] = 1 ∧ hashInputBoxed [5] ≠ hashInputBoxed [5, 0] := by decide

/-! non-vacuity -/
example : ult [0, 1] [WMAX, 1] = WMAX ∧ ucmp [0, 1] [WMAX, 1] = -1 ∧ ucmpVartime [0, 1] [WMAX, 1] = -1 := by decide
example : ilt [0, HALF] [0, 0] = WMAX ∧ toInt [0, HALF] < toInt [0, 0] := by decide
example : bctLt [5] [0, 1] = WMAX ∧ bcmp [7, 0, 0] [7] = 0 := by decide

/-! ### T06.7 (coverage round) num-traits style zero / one tests and constructors, provided trait methods,
    comparisons through `Odd` / `NonZero`, `ConstChoice ==` -/

section coverage
open CB.NumTests

/-- `num_traits::Zero::is_zero` / `One::is_one` of `Uint` (= `ct_eq` with `ZERO` / `ONE`): the value is 0 / is 1. -/
theorem num_is_zero_spec {a : List Nat} (ha : WF a) : isZeroNum a = mask (decide (val a = 0)) :=
  isZeroNum_spec ha
theorem num_is_one_spec {a : List Nat} (ha : WF a) (hne : a ≠ []) : isOneNum a = mask (decide (val a = 1)) :=
  isOneNum_spec ha hne

/-- the same tests on `Int` (they compare the inner `Uint`s) decide the SIGNED value. -/
theorem int_num_is_zero_spec {a : List Nat} (ha : WF a) (hne : a ≠ []) :
    isZeroNum a = mask (decide (toInt a = 0)) := int_isZeroNum_spec ha hne
theorem int_num_is_one_spec {a : List Nat} (ha : WF a) (hne : a ≠ []) :
    isOneNum a = mask (decide (toInt a = 1)) := by
  obtain ⟨n, hn⟩ : ∃ n, a.length = n + 1 := by
    cases a with
    | nil => exact absurd rfl hne
    | cons x xs => exact ⟨xs.length, rfl⟩
  unfold isOneNum
  rw [int_eq_spec ha (uone_WF _) (uone_length _).symm hne, hn, toInt_uone]

/-- `Limb`: `is_zero` / `is_one`. -/
theorem limb_num_tests_spec {x : Nat} (hx : x < B) :
    limbIsZero x = mask (decide (x = 0)) ∧ limbIsOne x = mask (decide (x = 1)) :=
  ⟨fromWordEq_spec hx (by decide), fromWordEq_spec hx (by decide)⟩

/-- constructors: `zero()`, `one()`, `from_limb_like(l, _)` have the values 0, 1, `l` at the requested width. -/
theorem constructors_spec {n l : Nat} (hn : 0 < n) (hl : l < B) :
    (val (uzero n) = 0 ∧ (uzero n).length = n) ∧ (val (uone n) = 1 ∧ (uone n).length = n) ∧
    (val (fromLimbLike n l) = l ∧ (fromLimbLike n l).length = n ∧ WF (fromLimbLike n l)) := by
  obtain ⟨k, rfl⟩ : ∃ k, n = k + 1 := ⟨n - 1, by omega⟩
  exact ⟨⟨val_uzero _, uzero_length _⟩, ⟨val_uone k, uone_length _⟩, fromLimbLike_spec hn hl⟩

/-- provided methods `one_like`, `set_zero`, `zero_like`: the values 1 / 0 / 0 at the precision of the argument
    (for `BoxedUint`, whose `set_zero` is its own loop, as well). -/
theorem like_spec {a : List Nat} (hne : a ≠ []) :
    (val (oneLike a) = 1 ∧ (oneLike a).length = a.length) ∧
    (val (setZero a) = 0 ∧ (setZero a).length = a.length) ∧
    (val (zeroLike a) = 0 ∧ (zeroLike a).length = a.length) ∧
    bSetZero a = setZero a := by
  have hpos : 0 < a.length := List.length_pos_iff.mpr hne
  have h1 := fromLimbLike_spec hpos (show 1 < B by decide)
  exact ⟨⟨h1.1, h1.2.1⟩, ⟨val_uzero _, uzero_length _⟩, ⟨val_uzero _, uzero_length _⟩, bSetZero_eq a⟩

/-- `BoxedUint::is_zero` (the fold over `limb.is_zero()`) and `BoxedUint::is_one`, every limb count incl. none. -/
theorem boxed_is_zero_spec (a : List Nat) : bIsZero a = if val a = 0 then 1 else 0 := bIsZero_spec a
theorem boxed_is_one_spec {a : List Nat} (ha : WF a) : bIsOne a = if val a = 1 then 1 else 0 := bIsOne_spec ha
theorem boxed_from_limb_like_spec {a : List Nat} {l : Nat} (hne : a ≠ []) (hl : l < B) :
    val (bFromLimbLike l a) = l ∧ (bFromLimbLike l a).length = a.length :=
  ⟨(fromLimbLike_spec (List.length_pos_iff.mpr hne) hl).1, (fromLimbLike_spec (List.length_pos_iff.mpr hne) hl).2.1⟩

/-- the PROVIDED `ConstantTimeSelect::ct_assign` / `ct_swap` (built from `ct_select` alone) return exactly the chosen
    operand(s), never a mixture. -/
theorem default_assign_swap_spec {a b : List Nat} (p : Bool) (ha : WF a) (hb : WF b) (h : a.length = b.length) :
    defaultCtAssign a b (mask p) = (if p then b else a) ∧
    defaultCtSwap a b (mask p) = if p then (b, a) else (a, b) := by
  refine ⟨uselect_spec p ha hb h, ?_⟩
  show (uselect a b (mask p), uselect b a (mask p)) = _
  rw [uselect_spec p ha hb h, uselect_spec p hb ha h.symm]
  cases p <;> rfl

/-- `Odd<T>::ct_eq`, `NonZero<T>::ct_eq`, `Uint == Odd<Uint>`, `Uint.partial_cmp(&Odd<Uint>)`: the order of the values. -/
theorem wrapped_cmp_spec {a b : List Nat} (ha : WF a) (hb : WF b) (h : a.length = b.length) :
    wrappedCtEq a b = mask (decide (val a = val b)) ∧ eqOdd a b = mask (decide (val a = val b)) ∧
    cmpOdd a b = cmp3 (val a) (val b) :=
  ⟨ueq_spec ha hb h, ueq_spec ha hb h, ucmp_spec ha hb h⟩
/-- boxed twins, any two precisions -/
theorem boxed_wrapped_cmp_spec {a b : List Nat} (ha : WF a) (hb : WF b) :
    bWrappedCtEq a b = (if val a = val b then 1 else 0) ∧ bEqOdd a b = (if val a = val b then 1 else 0) ∧
    bCmpOdd a b = cmp3 (val a) (val b) :=
  ⟨bctEq_spec ha hb, bctEq_spec ha hb, bcmp_spec ha hb⟩

/-- `ConstChoice: PartialEq` compares the mask words: equal exactly for equal truth values. -/
theorem choice_eq_spec (p q : Bool) : choiceEq (mask p) (mask q) = (p == q) := by
  cases p <;> cases q <;> decide

example : isZeroNum [0, 0] = WMAX ∧ isZeroNum [0, 1] = 0 ∧ isOneNum [1, 0] = WMAX ∧ isOneNum [1, 1] = 0 := by decide
example : bIsOne [1, 0, 0] = 1 ∧ bIsOne [1, 0, 1] = 0 ∧ bIsZero [0, 0] = 1 ∧ bIsOne [] = 0 := by decide
example : defaultCtSwap [1, 2] [3, 4] WMAX = ([3, 4], [1, 2]) ∧ defaultCtSwap [1, 2] [3, 4] 0 = ([1, 2], [3, 4]) := by decide
example : toInt [WMAX, WMAX] = -1 ∧ isOneNum [WMAX, WMAX] = 0 ∧ isZeroNum [WMAX, WMAX] = 0 := by decide

end coverage

end CB.P06
