/-
  C06 — theorems about the SOURCE of the word-level functions this property rests on, regenerated from /repo on
  every run by tools/translate.py (CB/Gen/Prim.lean).  Kept in a module of its own (nothing imports it) so that a
  change in one of these Rust functions breaks exactly this property's obligations and no other module's build.
  Audited together with CB/Props/C06.lean by tools/runner.py.
-/
import CB.Props.C06
import CB.Lemmas.GenBitsChoice
import CB.Lemmas.GenChainsCmp
import CB.Lemmas.GenCmpMore
namespace CB.P06G
open CB

/-! ## T06.G — the SOURCE of `impl ConstChoice`, regenerated on every run (tools/translate.py → CB/Gen/Prim.lean)

These theorems are about `CB.Gen.Choice.*`: the Lean translation of what src/const_choice.rs says NOW
(statement for statement over `BitVec`), not about a hand copy.  `bv_decide` decides each meaning, so an equivalent
rewrite of the Rust still passes and a changed predicate fails.  The last one ties the hand-written `Nat` model used
by every other theorem of this file to the translated source. -/

/-- comparison predicates of the source: all-ones mask exactly when the relation holds (64-bit, 32-bit, wide) -/
theorem src_predicates (x y : BitVec 64) (u v : BitVec 32) (a b : BitVec 128) :
    Gen.Choice.from_word_lt x y = GenBits.ofBool (decide (x < y)) ∧
    Gen.Choice.from_word_gt x y = GenBits.ofBool (decide (y < x)) ∧
    Gen.Choice.from_word_le x y = GenBits.ofBool (decide (x ≤ y)) ∧
    Gen.Choice.from_word_eq x y = GenBits.ofBool (x == y) ∧
    Gen.Choice.from_word_nonzero x = GenBits.ofBool (x != 0#64) ∧
    Gen.Choice.from_word_msb x = GenBits.ofBool x.msb ∧
    Gen.Choice.from_u64_lt x y = GenBits.ofBool (decide (x < y)) ∧
    Gen.Choice.from_u64_gt x y = GenBits.ofBool (decide (y < x)) ∧
    Gen.Choice.from_u64_eq x y = GenBits.ofBool (x == y) ∧
    Gen.Choice.from_u64_nonzero x = GenBits.ofBool (x != 0#64) ∧
    Gen.Choice.from_u32_lt u v = GenBits.ofBool (decide (u < v)) ∧
    Gen.Choice.from_u32_le u v = GenBits.ofBool (decide (u ≤ v)) ∧
    Gen.Choice.from_u32_eq u v = GenBits.ofBool (u == v) ∧
    Gen.Choice.from_u32_nonzero u = GenBits.ofBool (u != 0#32) ∧
    Gen.Choice.from_wide_word_le a b = GenBits.ofBool (decide (a ≤ b)) :=
  ⟨GenBits.from_word_lt_meaning x y, GenBits.from_word_gt_meaning x y, GenBits.from_word_le_meaning x y,
   GenBits.from_word_eq_meaning x y, GenBits.from_word_nonzero_meaning x, GenBits.from_word_msb_meaning x,
   GenBits.from_u64_lt_meaning x y, GenBits.from_u64_gt_meaning x y, GenBits.from_u64_eq_meaning x y,
   GenBits.from_u64_nonzero_meaning x, GenBits.from_u32_lt_meaning u v, GenBits.from_u32_le_meaning u v,
   GenBits.from_u32_eq_meaning u v, GenBits.from_u32_nonzero_meaning u, GenBits.from_wide_word_le_meaning a b⟩

/-- mask constructors, the boolean algebra of choices, selection and the conversions of the source -/
theorem src_choice_ops (p q : Bool) :
    Gen.Choice.from_word_lsb (if p then 1#64 else 0#64) = GenBits.ofBool p ∧
    Gen.Choice.from_u32_lsb (if p then 1#32 else 0#32) = GenBits.ofBool p ∧
    Gen.Choice.from_u64_lsb (if p then 1#64 else 0#64) = GenBits.ofBool p ∧
    Gen.Choice.from_wide_word_lsb (if p then 1#128 else 0#128) = GenBits.ofBool p ∧
    Gen.Choice.from_word_mask (GenBits.ofBool p) = GenBits.ofBool p ∧
    Gen.Choice.not (GenBits.ofBool p) = GenBits.ofBool (!p) ∧
    Gen.Choice.or (GenBits.ofBool p) (GenBits.ofBool q) = GenBits.ofBool (p || q) ∧
    Gen.Choice.and (GenBits.ofBool p) (GenBits.ofBool q) = GenBits.ofBool (p && q) ∧
    Gen.Choice.xor (GenBits.ofBool p) (GenBits.ofBool q) = GenBits.ofBool (p != q) ∧
    Gen.Choice.ne (GenBits.ofBool p) (GenBits.ofBool q) = GenBits.ofBool (p != q) ∧
    Gen.Choice.eq (GenBits.ofBool p) (GenBits.ofBool q) = GenBits.ofBool (p == q) ∧
    (∀ a b : BitVec 64, Gen.Choice.select_word (GenBits.ofBool p) a b = if p then b else a) ∧
    (∀ a b : BitVec 128, Gen.Choice.select_wide_word (GenBits.ofBool p) a b = if p then b else a) ∧
    (∀ a b : BitVec 32, Gen.Choice.select_u32 (GenBits.ofBool p) a b = if p then b else a) ∧
    (∀ a b : BitVec 64, Gen.Choice.select_u64 (GenBits.ofBool p) a b = if p then b else a) ∧
    (∀ x : BitVec 64, Gen.Choice.if_true_word (GenBits.ofBool p) x = if p then x else 0#64) ∧
    (∀ x : BitVec 32, Gen.Choice.if_true_u32 (GenBits.ofBool p) x = if p then x else 0#32) ∧
    Gen.Choice.is_true_vartime (GenBits.ofBool p) = p ∧ Gen.Choice.to_bool_vartime (GenBits.ofBool p) = p ∧
    Gen.Choice.to_u8 (GenBits.ofBool p) = (if p then 1#8 else 0#8) := by
  obtain ⟨a1, a2, a3, a4, a5, a6⟩ := GenBits.choice_algebra p q
  obtain ⟨s1, s2, s3, s4, s5, s6⟩ := GenBits.select_meaning p
  obtain ⟨b1, b2, b3, _, _⟩ := GenBits.to_bool_meaning p
  exact ⟨GenBits.from_word_lsb_meaning p, GenBits.from_u32_lsb_meaning p, GenBits.from_u64_lsb_meaning p,
    GenBits.from_wide_word_lsb_meaning p, GenBits.from_word_mask_meaning p, a1, a2, a3, a4, a5, a6,
    s1, s2, s3, s4, s5, s6, b1, b2, b3⟩

/-- the hand-written `Nat` model of the predicates (what `limb_lt_spec`, `uint_lt_spec`, … above are built on)
    IS the translated source function, on every pair of words -/
theorem model_is_translated_source (x y : BitVec 64) (p : Bool) :
    fromWordLt x.toNat y.toNat = (Gen.Choice.from_word_lt x y).toNat ∧
    fromWordLe x.toNat y.toNat = (Gen.Choice.from_word_le x y).toNat ∧
    fromWordEq x.toNat y.toNat = (Gen.Choice.from_word_eq x y).toNat ∧
    fromWordNonzero x.toNat = (Gen.Choice.from_word_nonzero x).toNat ∧
    selectWord x.toNat y.toNat (mask p) = (Gen.Choice.select_word (GenBits.ofBool p) x y).toNat :=
  ⟨GenBits.fromWordLt_bridge x y, GenBits.fromWordLe_bridge x y, GenBits.fromWordEq_bridge x y,
   GenBits.fromWordNonzero_bridge x, GenBits.selectWord_bridge p x y⟩

/-! ## T06.G2 — the SOURCE of the limb loops `Uint::{is_nonzero, eq, lt, gt, lte}`, regenerated on every run
(tools/translate.py → CB/Gen/Chains.lean: src/uint/cmp.rs over the `Uint::sbb` of src/uint/sub.rs)

A `Uint<LIMBS>` is the list of its limbs (`List (BitVec 64)`, little endian), `LIMBS` an explicit argument, each
`while i < LIMBS` loop a recursive auxiliary definition; `GenChains.nats l` is `l.map BitVec.toNat`.  For EVERY limb count. -/

/-- the hand-written model of the comparisons (what `uint_eq_spec`, `uint_lt_spec`, … of CB/Props/C06.lean are proved about)
    IS the translated source -/
theorem chain_model_is_translated_source (a b : List (BitVec 64)) (h : a.length = b.length) :
    isNonzero (GenChains.nats a) = (Gen.Chains.Uint.is_nonzero a.length a).toNat ∧
    ueq (GenChains.nats a) (GenChains.nats b) = (Gen.Chains.Uint.eq a.length a b).toNat ∧
    ult (GenChains.nats a) (GenChains.nats b) = (Gen.Chains.Uint.lt a.length a b).toNat ∧
    ugt (GenChains.nats a) (GenChains.nats b) = (Gen.Chains.Uint.gt a.length a b).toNat ∧
    ulte (GenChains.nats a) (GenChains.nats b) = (Gen.Chains.Uint.lte a.length a b).toNat :=
  ⟨GenChains.isNonzero_bridge a, GenChains.ueq_bridge a b h, GenChains.ult_bridge a b h, GenChains.ugt_bridge a b h,
   GenChains.ulte_bridge a b h⟩

/-- the TRANSLATED `Uint::lt` (borrow of the `sbb` chain) is the order on values: truthy exactly when `val a < val b` -/
theorem src_uint_lt_exact (a b : List (BitVec 64)) (h : a.length = b.length) :
    Gen.Chains.Uint.lt a.length a b = GenBits.ofBool (decide (val (GenChains.nats a) < val (GenChains.nats b))) := by
  have hl : (GenChains.nats a).length = (GenChains.nats b).length := by
    rw [GenChains.nats_length, GenChains.nats_length, h]
  apply BitVec.eq_of_toNat_eq
  rw [GenBits.ofBool_toNat, ← GenChains.ult_bridge a b h]
  exact P06.uint_lt_spec (GenChains.nats_WF a) (GenChains.nats_WF b) hl

/-- the TRANSLATED `Uint::gt`, `Uint::lte` -/
theorem src_uint_gt_lte_exact (a b : List (BitVec 64)) (h : a.length = b.length) :
    Gen.Chains.Uint.gt a.length a b = GenBits.ofBool (decide (val (GenChains.nats b) < val (GenChains.nats a))) ∧
    Gen.Chains.Uint.lte a.length a b = GenBits.ofBool (decide (val (GenChains.nats a) ≤ val (GenChains.nats b))) := by
  have hl : (GenChains.nats a).length = (GenChains.nats b).length := by
    rw [GenChains.nats_length, GenChains.nats_length, h]
  constructor <;> apply BitVec.eq_of_toNat_eq <;> rw [GenBits.ofBool_toNat]
  · rw [← GenChains.ugt_bridge a b h]
    exact P06.uint_gt_spec (GenChains.nats_WF a) (GenChains.nats_WF b) hl
  · rw [← GenChains.ulte_bridge a b h]
    exact P06.uint_lte_spec (GenChains.nats_WF a) (GenChains.nats_WF b) hl

/-- the TRANSLATED `Uint::eq`: truthy exactly when the values are equal -/
theorem src_uint_eq_exact (a b : List (BitVec 64)) (h : a.length = b.length) :
    Gen.Chains.Uint.eq a.length a b = GenBits.ofBool (decide (val (GenChains.nats a) = val (GenChains.nats b))) := by
  have hl : (GenChains.nats a).length = (GenChains.nats b).length := by
    rw [GenChains.nats_length, GenChains.nats_length, h]
  apply BitVec.eq_of_toNat_eq
  rw [GenBits.ofBool_toNat, ← GenChains.ueq_bridge a b h]
  exact P06.uint_eq_spec (GenChains.nats_WF a) (GenChains.nats_WF b) hl

/-- the TRANSLATED `Uint::is_nonzero`: truthy exactly when the value is not zero -/
theorem src_uint_is_nonzero_exact (a : List (BitVec 64)) :
    Gen.Chains.Uint.is_nonzero a.length a = GenBits.ofBool (decide (val (GenChains.nats a) ≠ 0)) := by
  apply BitVec.eq_of_toNat_eq
  rw [GenBits.ofBool_toNat, ← GenChains.isNonzero_bridge a]
  exact P06.uint_is_nonzero_spec (GenChains.nats_WF a)

/-- evaluation: the translated functions run (two limbs: `2^64 < 2^64 + 1`, equal values, a non-zero value) -/
example : Gen.Chains.Uint.lt 2 [0#64, 1#64] [1#64, 1#64] = ~~~0#64 := by decide
example : Gen.Chains.Uint.eq 2 [5#64, 1#64] [5#64, 1#64] = ~~~0#64 := by decide
example : Gen.Chains.Uint.is_nonzero 2 [0#64, 4#64] = ~~~0#64 := by decide

/-! ## T06.G3 — the SOURCE of `Uint::{is_odd, cmp, cmp_vartime}`, regenerated on every run
(tools/translate.py → CB/Gen/CmpMore.lean: src/uint/cmp.rs)

`core::cmp::Ordering` and the `i8` of `Uint::cmp` are a `BitVec 8` (the discriminant: `Less = -1`, `Equal = 0`, `Greater = 1`),
read with `BitVec.toInt`.  `cmp_vartime` is a `loop` that is left only by `return` (early, at the first differing limb from the
top, or with `Equal` when the counter is 0): translated by structural recursion on the counter.  (`Uint` has no `const fn`
swap: `ct_swap` / `conditional_swap` live in the non-const trait impls of src/traits.rs, outside the translated subset.) -/

/-- the hand-written model of `is_odd`, `cmp`, `cmp_vartime` (what `uint_is_odd_spec`, `uint_cmp_spec`, `uint_cmp_coherent` of
    CB/Props/C06.lean are proved about) IS the translated source, for every limb count -/
theorem cmp_more_model_is_translated_source (a b : List (BitVec 64)) (h : a.length = b.length) :
    isOdd (GenChains.nats a) = (Gen.CmpMore.Uint.is_odd a.length a).toNat ∧
    ucmp (GenChains.nats a) (GenChains.nats b) = (Gen.CmpMore.Uint.cmp a.length a b).toInt ∧
    ucmpVartime (GenChains.nats a) (GenChains.nats b) = (Gen.CmpMore.Uint.cmp_vartime a.length a b).toInt ∧
    (∀ x y : BitVec 64, Gen.CmpMore.Limb.eq_vartime x y = (x == y)) :=
  ⟨GenCmpMore.isOdd_bridge a, GenCmpMore.ucmp_bridge a b h, GenCmpMore.ucmpVartime_bridge a b h, GenBits.cm_limb_eq_vartime_eq⟩

/-- the TRANSLATED `Uint::cmp`: the three-way order of the values as -1 / 0 / 1 -/
theorem src_uint_cmp_exact (a b : List (BitVec 64)) (h : a.length = b.length) :
    (Gen.CmpMore.Uint.cmp a.length a b).toInt = cmp3 (val (GenChains.nats a)) (val (GenChains.nats b)) := by
  have hl : (GenChains.nats a).length = (GenChains.nats b).length := by
    rw [GenChains.nats_length, GenChains.nats_length, h]
  rw [← GenCmpMore.ucmp_bridge a b h]
  exact (P06.uint_cmp_spec (GenChains.nats_WF a) (GenChains.nats_WF b) hl).1

/-- the TRANSLATED `Uint::cmp_vartime`: the `Ordering` it returns is `compare (val a) (val b)`; it agrees with `Uint::cmp` -/
theorem src_uint_cmp_vartime_exact (a b : List (BitVec 64)) (h : a.length = b.length) :
    (Gen.CmpMore.Uint.cmp_vartime a.length a b).toInt = cmp3 (val (GenChains.nats a)) (val (GenChains.nats b)) ∧
    Gen.CmpMore.Uint.cmp_vartime a.length a b =
      (match compare (val (GenChains.nats a)) (val (GenChains.nats b)) with
        | .lt => -1#8 | .eq => 0#8 | .gt => 1#8) ∧
    Gen.CmpMore.Uint.cmp_vartime a.length a b = Gen.CmpMore.Uint.cmp a.length a b := by
  have hl : (GenChains.nats a).length = (GenChains.nats b).length := by
    rw [GenChains.nats_length, GenChains.nats_length, h]
  have hs := P06.uint_cmp_spec (GenChains.nats_WF a) (GenChains.nats_WF b) hl
  have e1 : (Gen.CmpMore.Uint.cmp_vartime a.length a b).toInt = cmp3 (val (GenChains.nats a)) (val (GenChains.nats b)) := by
    rw [← GenCmpMore.ucmpVartime_bridge a b h, hs.2, hs.1]
  refine ⟨e1, ?_, BitVec.eq_of_toInt_eq (by rw [e1, src_uint_cmp_exact a b h])⟩
  apply BitVec.eq_of_toInt_eq
  rw [e1]
  unfold cmp3
  rcases Nat.lt_trichotomy (val (GenChains.nats a)) (val (GenChains.nats b)) with hlt | heq | hgt
  · rw [Nat.compare_eq_lt.mpr hlt, if_pos hlt]; decide
  · rw [Nat.compare_eq_eq.mpr heq, if_neg (by omega), if_pos heq]; decide
  · rw [Nat.compare_eq_gt.mpr hgt, if_neg (by omega), if_neg (by omega)]; decide

/-- the TRANSLATED `Uint::is_odd`: truthy exactly when the value is odd (`LIMBS ≥ 1`: the source reads `limbs[0]`) -/
theorem src_uint_is_odd_exact (a : List (BitVec 64)) (hne : a ≠ []) :
    Gen.CmpMore.Uint.is_odd a.length a = GenBits.ofBool (decide (val (GenChains.nats a) % 2 = 1)) := by
  apply BitVec.eq_of_toNat_eq
  rw [GenBits.ofBool_toNat, ← GenCmpMore.isOdd_bridge a]
  cases a with
  | nil => exact absurd rfl hne
  | cons x xs => exact P06.uint_is_odd_spec (toNat_lt_B x)

/-- evaluation: the translated functions run (three limbs; the top limbs are equal, the middle limb decides) -/
example : Gen.CmpMore.Uint.cmp_vartime 3 [9#64, 1#64, 7#64] [0#64, 2#64, 7#64] = -1#8 := by decide
example : Gen.CmpMore.Uint.cmp_vartime 3 [9#64, 2#64, 7#64] [0#64, 2#64, 7#64] = 1#8 := by decide
example : Gen.CmpMore.Uint.cmp_vartime 2 [5#64, 1#64] [5#64, 1#64] = 0#8 := by decide
example : Gen.CmpMore.Uint.cmp 3 [9#64, 1#64, 7#64] [0#64, 2#64, 7#64] = -1#8 := by decide
example : Gen.CmpMore.Uint.is_odd 2 [5#64, 0#64] = ~~~0#64 := by decide

end CB.P06G
