/-
  C06 — theorems about the SOURCE of the word-level functions this property rests on, regenerated from /repo on
  every run by tools/translate.py (CB/Gen/Prim.lean).  Kept in a module of its own (nothing imports it) so that a
  change in one of these Rust functions breaks exactly this property's obligations and no other module's build.
  Audited together with CB/Props/C06.lean by tools/runner.py.
-/
import CB.Props.C06
import CB.Lemmas.GenBitsChoice
namespace CB.P06G
open CB

/-! ## T06.G — the SOURCE of `impl ConstChoice`, regenerated on every run (tools/translate.py → CB/Gen/Prim.lean)

These theorems are about `CB.Gen.Choice.*`: the Lean translation of what src/const_choice.rs says NOW
(statement for statement over `BitVec`), not about a hand copy.  `bv_decide` decides each meaning, so an equivalent
rewrite of the Rust still passes and a changed predicate fails.  The last one ties the hand-written `Nat` model used
by every other theorem of this file to the translated source. -/

/-- comparison predicates of the source: all-ones mask exactly when the relation holds (64-bit, 32-bit, wide) -/
theorem src_predicates (x y : BitVec 64) (u v : BitVec 32) (a b : BitVec 128) :
    Gen.Choice.from_word_lt x y = GenBits.ofBool (decide (x < y)) ∧
    Gen.Choice.from_word_gt x y = GenBits.ofBool (decide (y < x)) ∧
    Gen.Choice.from_word_le x y = GenBits.ofBool (decide (x ≤ y)) ∧
    Gen.Choice.from_word_eq x y = GenBits.ofBool (x == y) ∧
    Gen.Choice.from_word_nonzero x = GenBits.ofBool (x != 0#64) ∧
    Gen.Choice.from_word_msb x = GenBits.ofBool x.msb ∧
    Gen.Choice.from_u64_lt x y = GenBits.ofBool (decide (x < y)) ∧
    Gen.Choice.from_u64_gt x y = GenBits.ofBool (decide (y < x)) ∧
    Gen.Choice.from_u64_eq x y = GenBits.ofBool (x == y) ∧
    Gen.Choice.from_u64_nonzero x = GenBits.ofBool (x != 0#64) ∧
    Gen.Choice.from_u32_lt u v = GenBits.ofBool (decide (u < v)) ∧
    Gen.Choice.from_u32_le u v = GenBits.ofBool (decide (u ≤ v)) ∧
    Gen.Choice.from_u32_eq u v = GenBits.ofBool (u == v) ∧
    Gen.Choice.from_u32_nonzero u = GenBits.ofBool (u != 0#32) ∧
    Gen.Choice.from_wide_word_le a b = GenBits.ofBool (decide (a ≤ b)) :=
  ⟨GenBits.from_word_lt_meaning x y, GenBits.from_word_gt_meaning x y, GenBits.from_word_le_meaning x y,
   GenBits.from_word_eq_meaning x y, GenBits.from_word_nonzero_meaning x, GenBits.from_word_msb_meaning x,
   GenBits.from_u64_lt_meaning x y, GenBits.from_u64_gt_meaning x y, GenBits.from_u64_eq_meaning x y,
   GenBits.from_u64_nonzero_meaning x, GenBits.from_u32_lt_meaning u v, GenBits.from_u32_le_meaning u v,
   GenBits.from_u32_eq_meaning u v, GenBits.from_u32_nonzero_meaning u, GenBits.from_wide_word_le_meaning a b⟩

/-- mask constructors, the boolean algebra of choices, selection and the conversions of the source -/
theorem src_choice_ops (p q : Bool) :
    Gen.Choice.from_word_lsb (if p then 1#64 else 0#64) = GenBits.ofBool p ∧
    Gen.Choice.from_u32_lsb (if p then 1#32 else 0#32) = GenBits.ofBool p ∧
    Gen.Choice.from_u64_lsb (if p then 1#64 else 0#64) = GenBits.ofBool p ∧
    Gen.Choice.from_wide_word_lsb (if p then 1#128 else 0#128) = GenBits.ofBool p ∧
    Gen.Choice.from_word_mask (GenBits.ofBool p) = GenBits.ofBool p ∧
    Gen.Choice.not (GenBits.ofBool p) = GenBits.ofBool (!p) ∧
    Gen.Choice.or (GenBits.ofBool p) (GenBits.ofBool q) = GenBits.ofBool (p || q) ∧
    Gen.Choice.and (GenBits.ofBool p) (GenBits.ofBool q) = GenBits.ofBool (p && q) ∧
    Gen.Choice.xor (GenBits.ofBool p) (GenBits.ofBool q) = GenBits.ofBool (p != q) ∧
    Gen.Choice.ne (GenBits.ofBool p) (GenBits.ofBool q) = GenBits.ofBool (p != q) ∧
    Gen.Choice.eq (GenBits.ofBool p) (GenBits.ofBool q) = GenBits.ofBool (p == q) ∧
    (∀ a b : BitVec 64, Gen.Choice.select_word (GenBits.ofBool p) a b = if p then b else a) ∧
    (∀ a b : BitVec 128, Gen.Choice.select_wide_word (GenBits.ofBool p) a b = if p then b else a) ∧
    (∀ a b : BitVec 32, Gen.Choice.select_u32 (GenBits.ofBool p) a b = if p then b else a) ∧
    (∀ a b : BitVec 64, Gen.Choice.select_u64 (GenBits.ofBool p) a b = if p then b else a) ∧
    (∀ x : BitVec 64, Gen.Choice.if_true_word (GenBits.ofBool p) x = if p then x else 0#64) ∧
    (∀ x : BitVec 32, Gen.Choice.if_true_u32 (GenBits.ofBool p) x = if p then x else 0#32) ∧
    Gen.Choice.is_true_vartime (GenBits.ofBool p) = p ∧ Gen.Choice.to_bool_vartime (GenBits.ofBool p) = p ∧
    Gen.Choice.to_u8 (GenBits.ofBool p) = (if p then 1#8 else 0#8) := by
  obtain ⟨a1, a2, a3, a4, a5, a6⟩ := GenBits.choice_algebra p q
  obtain ⟨s1, s2, s3, s4, s5, s6⟩ := GenBits.select_meaning p
  obtain ⟨b1, b2, b3, _, _⟩ := GenBits.to_bool_meaning p
  exact ⟨GenBits.from_word_lsb_meaning p, GenBits.from_u32_lsb_meaning p, GenBits.from_u64_lsb_meaning p,
    GenBits.from_wide_word_lsb_meaning p, GenBits.from_word_mask_meaning p, a1, a2, a3, a4, a5, a6,
    s1, s2, s3, s4, s5, s6, b1, b2, b3⟩

/-- the hand-written `Nat` model of the predicates (what `limb_lt_spec`, `uint_lt_spec`, … above are built on)
    IS the translated source function, on every pair of words -/
theorem model_is_translated_source (x y : BitVec 64) (p : Bool) :
    fromWordLt x.toNat y.toNat = (Gen.Choice.from_word_lt x y).toNat ∧
    fromWordLe x.toNat y.toNat = (Gen.Choice.from_word_le x y).toNat ∧
    fromWordEq x.toNat y.toNat = (Gen.Choice.from_word_eq x y).toNat ∧
    fromWordNonzero x.toNat = (Gen.Choice.from_word_nonzero x).toNat ∧
    selectWord x.toNat y.toNat (mask p) = (Gen.Choice.select_word (GenBits.ofBool p) x y).toNat :=
  ⟨GenBits.fromWordLt_bridge x y, GenBits.fromWordLe_bridge x y, GenBits.fromWordEq_bridge x y,
   GenBits.fromWordNonzero_bridge x, GenBits.selectWord_bridge p x y⟩


end CB.P06G
