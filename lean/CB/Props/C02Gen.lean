/-
  C02 — theorems about the SOURCE of the word-level division layer `src/uint/div_limb.rs` (64-bit configuration:
  `reciprocal`, `short_div` with `lt`/`select`, `div2by1`, `div3by2`, `Reciprocal::{new, default}`), regenerated from
  /repo on every run by tools/translate.py (CB/Gen/DivLimb.lean).  Kept in a module of its own (nothing imports it) so
  that a change in one of these Rust functions breaks exactly this property's obligations and no other module's build.
  Audited together with CB/Props/C02.lean by tools/runner.py.
-/
import CB.Props.C02
import CB.Lemmas.GenBitsDiv
import CB.Lemmas.GenDivLimbLoops
import CB.Lemmas.GenDivLimbVartime
namespace CB.P02G
open CB CB.Div

/-! ## T02.G — the SOURCE of `reciprocal`, `short_div`, `div2by1`, `div3by2`, `Reciprocal::new`, regenerated on every
run (tools/translate.py → CB/Gen/DivLimb.lean; the bridges are proved in CB/Lemmas/GenBitsDiv.lean).
`GenBits.rcNat rc` is the model's view of a translated `Reciprocal` (its three fields as `Nat`s). -/

/-- the hand-written `Nat` model of the word-level division layer (what every theorem of CB/Props/C02.lean about
    `reciprocal`, `div2by1`, `div3by2`, `Reciprocal::new` and the limb loops above them is built on) IS the translated
    source function: on every word for `reciprocal`, `div2by1`, `div3by2`, `Reciprocal::new`, `Reciprocal::default`,
    `lt`, `select`; on the whole domain of `short_div` (`divisor_bits ≤ dividend_bits`, difference below 32) -/
theorem model_is_translated_source :
    (∀ d : BitVec 64, reciprocalImpl d.toNat = (Gen.DivLimb.reciprocal d).toNat) ∧
    (∀ (u1 u0 : BitVec 64) (rc : Gen.DivLimb.Reciprocal),
      div2by1 u1.toNat u0.toNat (GenBits.rcNat rc) =
        ((Gen.DivLimb.div2by1 u1 u0 rc).1.toNat, (Gen.DivLimb.div2by1 u1 u0 rc).2.toNat)) ∧
    (∀ (u2 u1 u0 : BitVec 64) (rc : Gen.DivLimb.Reciprocal) (v0 : BitVec 64),
      div3by2 u2.toNat u1.toNat u0.toNat (GenBits.rcNat rc) v0.toNat = (Gen.DivLimb.div3by2 u2 u1 u0 rc v0).toNat) ∧
    (∀ x db y vb : BitVec 32, vb.toNat ≤ db.toNat → db.toNat - vb.toNat < 32 →
      shortDiv x.toNat db.toNat y.toNat vb.toNat = (Gen.DivLimb.short_div x db y vb).toNat) ∧
    (∀ a b c : BitVec 32, lt32 a.toNat b.toNat = (Gen.DivLimb.lt a b).toNat ∧
      select32 a.toNat b.toNat c.toNat = (Gen.DivLimb.select a b c).toNat) ∧
    (∀ x : BitVec 64, Reciprocal.new x.toNat = GenBits.rcNat (Gen.DivLimb.Reciprocal.new x)) ∧
    Reciprocal.dflt = GenBits.rcNat Gen.DivLimb.Reciprocal.default :=
  ⟨GenBits.reciprocal_bridge, GenBits.div2by1_bridge, GenBits.div3by2_bridge, GenBits.shortDiv_bridge,
    fun a b c => ⟨GenBits.lt32_bridge a b, GenBits.select32_bridge a b c⟩, GenBits.new_bridge, GenBits.default_bridge⟩

/-- `lt` / `select` of the source mean what their doc comments say -/
theorem src_lt_select (a b : BitVec 32) :
    Gen.DivLimb.lt a b = (if a < b then ~~~0#32 else 0#32) ∧
    Gen.DivLimb.select a b 0#32 = a ∧ Gen.DivLimb.select a b (~~~0#32) = b :=
  ⟨GenBits.lt_meaning a b, GenBits.select_meaning32 a b⟩

/-- `short_div` of the source on the only inputs the crate feeds it (`reciprocal`'s table value: dividend
    `2^19 − 3·2^8` of 19 bits, every 9-bit divisor head `256 ≤ d9 < 512`) returns the quotient -/
theorem src_short_div_table (d9 : BitVec 32) (h1 : 256 ≤ d9.toNat) (h2 : d9.toNat < 512) :
    (Gen.DivLimb.short_div ((1#32 <<< 19) - 3#32 * (1#32 <<< 8)) 19#32 d9 9#32).toNat = (2 ^ 19 - 3 * 2 ^ 8) / d9.toNat := by
  have hb := GenBits.shortDiv_bridge ((1#32 <<< 19) - 3#32 * (1#32 <<< 8)) 19#32 d9 9#32 (by decide) (by decide)
  have ht := P02.short_div_table_exact d9.toNat h1 h2
  rw [Nat.mod_eq_of_lt (by simp only [U32]; omega)] at ht
  rw [← hb, ← ht]; rfl

/-- `reciprocal` of the source (the `target_pointer_width = "64"` version: its `short_div` table value, the Newton
    steps with their constants, the wrapping operations and the `x == 0` select) returns `⌊(2^128 − 1)/d⌋ − 2^64`
    for EVERY normalised divisor word (`P02.reciprocal_exact` carried to the translated source) -/
theorem src_reciprocal_exact (d : BitVec 64) (hd : 2 ^ 63 ≤ d.toNat) :
    (Gen.DivLimb.reciprocal d).toNat = (2 ^ 128 - 1) / d.toNat - 2 ^ 64 := by
  rw [← GenBits.reciprocal_bridge, P02.reciprocal_exact d.toNat hd (toNat_lt_B d)]
  rfl

/-- `div2by1` of the source (both masked corrections, wrapping arithmetic) returns the quotient and remainder of
    `(u1, u0)` by the normalised divisor whenever the stored reciprocal is `⌊(2^128 − 1)/d⌋ − 2^64` and `u1 < d` -/
theorem src_div2by1_correct (u1 u0 : BitVec 64) (rc : Gen.DivLimb.Reciprocal)
    (hd : 2 ^ 63 ≤ rc.divisor_normalized.toNat)
    (hv : rc.reciprocal.toNat = (2 ^ 128 - 1) / rc.divisor_normalized.toNat - 2 ^ 64)
    (hu : u1.toNat < rc.divisor_normalized.toNat) :
    (Gen.DivLimb.div2by1 u1 u0 rc).1.toNat = (u1.toNat * 2 ^ 64 + u0.toNat) / rc.divisor_normalized.toNat ∧
    (Gen.DivLimb.div2by1 u1 u0 rc).2.toNat = (u1.toNat * 2 ^ 64 + u0.toNat) % rc.divisor_normalized.toNat := by
  have hb := GenBits.div2by1_bridge u1 u0 rc
  have hc := P02.div2by1_correct (rc := GenBits.rcNat rc) (u1 := u1.toNat) (u0 := u0.toNat) hd
    (toNat_lt_B _) hv hu (toNat_lt_B u0)
  rw [hb] at hc
  exact ⟨congrArg Prod.fst hc, congrArg Prod.snd hc⟩

/-- the same with the reciprocal computed by the source's own `reciprocal` -/
theorem src_div2by1_with_src_reciprocal (u1 u0 d : BitVec 64) (sh : BitVec 32) (hd : 2 ^ 63 ≤ d.toNat)
    (hu : u1.toNat < d.toNat) :
    (Gen.DivLimb.div2by1 u1 u0 ⟨d, sh, Gen.DivLimb.reciprocal d⟩).1.toNat = (u1.toNat * 2 ^ 64 + u0.toNat) / d.toNat ∧
    (Gen.DivLimb.div2by1 u1 u0 ⟨d, sh, Gen.DivLimb.reciprocal d⟩).2.toNat = (u1.toNat * 2 ^ 64 + u0.toNat) % d.toNat :=
  src_div2by1_correct u1 u0 ⟨d, sh, Gen.DivLimb.reciprocal d⟩ hd (src_reciprocal_exact d hd) hu

/-- `div3by2` of the source (the `q_maxed` cap, `div2by1`, the two unrolled correction rounds on the wide remainder)
    returns `min(⌊(u2·2^128 + u1·2^64 + u0)/(v1·2^64 + v0)⌋, 2^64 − 1)` whenever `u2 ≤ v1` -/
theorem src_div3by2_correct (u2 u1 u0 v0 : BitVec 64) (rc : Gen.DivLimb.Reciprocal)
    (hd : 2 ^ 63 ≤ rc.divisor_normalized.toNat)
    (hv : rc.reciprocal.toNat = (2 ^ 128 - 1) / rc.divisor_normalized.toNat - 2 ^ 64)
    (hu : u2.toNat ≤ rc.divisor_normalized.toNat) :
    (Gen.DivLimb.div3by2 u2 u1 u0 rc v0).toNat =
      min (((u2.toNat * 2 ^ 64 + u1.toNat) * 2 ^ 64 + u0.toNat) / (rc.divisor_normalized.toNat * 2 ^ 64 + v0.toNat))
        (2 ^ 64 - 1) := by
  rw [← GenBits.div3by2_bridge]
  exact P02.div3by2_correct (rc := GenBits.rcNat rc) hd (toNat_lt_B _) hv hu (toNat_lt_B u1) (toNat_lt_B u0) (toNat_lt_B v0)

/-- `Reciprocal::new` of the source, for every non-zero divisor word: the divisor shifted left by its leading-zero
    count (`shift < 64`, top bit set) together with its exact reciprocal -/
theorem src_new_ok (x : BitVec 64) (hx : x ≠ 0#64) :
    (Gen.DivLimb.Reciprocal.new x).shift.toNat < 64 ∧
    (Gen.DivLimb.Reciprocal.new x).divisor_normalized.toNat = x.toNat * 2 ^ (Gen.DivLimb.Reciprocal.new x).shift.toNat ∧
    2 ^ 63 ≤ (Gen.DivLimb.Reciprocal.new x).divisor_normalized.toNat ∧
    (Gen.DivLimb.Reciprocal.new x).reciprocal.toNat =
      (2 ^ 128 - 1) / (Gen.DivLimb.Reciprocal.new x).divisor_normalized.toNat - 2 ^ 64 := by
  have h0 : 0 < x.toNat := by
    rcases Nat.eq_zero_or_pos x.toNat with h | h
    · exact absurd (BitVec.eq_of_toNat_eq (by simpa using h)) hx
    · exact h
  have ⟨ok, e1, e2⟩ := Reciprocal_new_ok hrecip h0 (toNat_lt_B x)
  have ⟨l1, _, _⟩ := leadingZeros_spec h0 (toNat_lt_B x)
  rw [GenBits.new_bridge] at ok e1 e2
  have hs : (Gen.DivLimb.Reciprocal.new x).shift.toNat = leadingZeros x.toNat := e2
  refine ⟨by rw [hs]; exact l1, by rw [hs]; exact e1, ok.h1, ok.hv⟩

/-! non-vacuity: the hypotheses are satisfiable by non-trivial words, and the translated functions compute -/
example : (Gen.DivLimb.reciprocal (1#64 <<< 63)).toNat = 2 ^ 64 - 1 ∧ Gen.DivLimb.reciprocal (~~~0#64) = 1#64 := by
  decide +kernel
example : Gen.DivLimb.div2by1 5#64 7#64 (Gen.DivLimb.Reciprocal.new 11#64) = (7#64, (3#64 <<< 60) + 7#64) := by
  decide +kernel
example : Gen.DivLimb.short_div 0x7fd00#32 19#32 300#32 9#32 = 1745#32 := by decide +kernel

/-! ## T02.G2 — the SOURCE of division by a LIMB (translator round 4, G17): the count-down `div2by1` loops
`div_rem_limb_with_reciprocal`, `rem_limb_with_reciprocal`, `rem_limb_with_reciprocal_wide`, `mul_rem` of src/uint/div_limb.rs
and the wrappers `Uint::{div_rem_limb_with_reciprocal, div_rem_limb, rem_limb_with_reciprocal, rem_limb}` of src/uint/div.rs,
regenerated on every run (tools/translate.py → CB/Gen/DivLimbLoops.lean; rounds read in CB/Lemmas/GenBitsDivLimbLoops.lean,
inductions over the limb count in CB/Lemmas/GenDivLimbLoops.lean).  `GenShifts.nats l` is `l.map BitVec.toNat`; a
`Uint<L>` is the list `u` of its limbs with `L = u.length`. -/

/-- the hand-written model of division by a limb (what T02.3 `divRemLimb_exact` and the wide remainder `remLimbWide_spec`
    are proved about) IS the translated source, for EVERY limb count, every input and every reciprocal whose `shift` is below
    64 (`Reciprocal::new` of a non-zero limb: `GenDivLimbLoops.new_shift_lt`) -/
theorem div_limb_loops_model_is_translated_source :
    (∀ (u : List (BitVec 64)) (rc : Gen.DivLimb.Reciprocal), rc.shift.toNat < 64 →
      divRemLimbWithReciprocal (GenShifts.nats u) (GenBits.rcNat rc) =
        (GenShifts.nats (Gen.DivLimbLoops.div_rem_limb_with_reciprocal u.length u rc).1,
         (Gen.DivLimbLoops.div_rem_limb_with_reciprocal u.length u rc).2.toNat)) ∧
    (∀ (u : List (BitVec 64)) (rc : Gen.DivLimb.Reciprocal), rc.shift.toNat < 64 →
      remLimbWithReciprocal (GenShifts.nats u) (GenBits.rcNat rc) =
        (Gen.DivLimbLoops.rem_limb_with_reciprocal u.length u rc).toNat) ∧
    (∀ (lo hi : List (BitVec 64)) (rc : Gen.DivLimb.Reciprocal), rc.shift.toNat < 64 → hi.length = lo.length →
      remLimbWithReciprocalWide (GenShifts.nats lo) (GenShifts.nats hi) (GenBits.rcNat rc) =
        (Gen.DivLimbLoops.rem_limb_with_reciprocal_wide lo.length (lo, hi) rc).toNat) ∧
    (∀ (u : List (BitVec 64)) (d : BitVec 64), d ≠ 0#64 →
      divRemLimb (GenShifts.nats u) d.toNat =
        (GenShifts.nats (Gen.DivLimbLoops.Uint.div_rem_limb u.length u d).1,
         (Gen.DivLimbLoops.Uint.div_rem_limb u.length u d).2.toNat)) ∧
    (∀ (u : List (BitVec 64)) (d : BitVec 64), d ≠ 0#64 →
      remLimb (GenShifts.nats u) d.toNat = (Gen.DivLimbLoops.Uint.rem_limb u.length u d).toNat) ∧
    (∀ (u : List (BitVec 64)) (rc : Gen.DivLimb.Reciprocal),
      Gen.DivLimbLoops.Uint.div_rem_limb_with_reciprocal u.length u rc =
        Gen.DivLimbLoops.div_rem_limb_with_reciprocal u.length u rc ∧
      Gen.DivLimbLoops.Uint.rem_limb_with_reciprocal u.length u rc = Gen.DivLimbLoops.rem_limb_with_reciprocal u.length u rc) ∧
    (∀ a b d : BitVec 64, d ≠ 0#64 →
      remLimb [(mulhilo a.toNat b.toNat).2, (mulhilo a.toNat b.toNat).1] d.toNat =
        (Gen.DivLimbLoops.MulRem.mul_rem a b d).toNat) :=
  ⟨GenDivLimbLoops.divRemLimbWithReciprocal_bridge, GenDivLimbLoops.remLimbWithReciprocal_bridge,
    GenDivLimbLoops.remLimbWide_bridge, GenDivLimbLoops.divRemLimb_bridge, GenDivLimbLoops.remLimb_bridge,
    fun u rc => ⟨GenBits.uint_div_rem_limb_with_reciprocal_eq _ u rc, GenBits.uint_rem_limb_with_reciprocal_eq _ u rc⟩,
    GenDivLimbLoops.mulRem_bridge⟩

/-- `div_rem_limb_with_reciprocal` of the source with the source's own `Reciprocal::new(d)`: for EVERY limb count, every `u`
    and every non-zero limb `d` the returned limbs are the limbs of `⌊u/d⌋`, the returned limb is `u mod d`; hence
    `u = q·d + r` with `r < d` (`P02.divRemLimb_exact` carried to the translated source; its preconditions `0 < d < 2^64`
    and well-formed limbs hold for every `BitVec` input) -/
theorem src_div_rem_limb_exact (u : List (BitVec 64)) (d : BitVec 64) (hd : d ≠ 0#64) :
    GenShifts.nats (Gen.DivLimbLoops.div_rem_limb_with_reciprocal u.length u (Gen.DivLimb.Reciprocal.new d)).1 =
      toLimbs u.length (val (GenShifts.nats u) / d.toNat) ∧
    (Gen.DivLimbLoops.div_rem_limb_with_reciprocal u.length u (Gen.DivLimb.Reciprocal.new d)).2.toNat =
      val (GenShifts.nats u) % d.toNat ∧
    val (GenShifts.nats u) =
      val (GenShifts.nats (Gen.DivLimbLoops.div_rem_limb_with_reciprocal u.length u (Gen.DivLimb.Reciprocal.new d)).1) * d.toNat +
        (Gen.DivLimbLoops.div_rem_limb_with_reciprocal u.length u (Gen.DivLimb.Reciprocal.new d)).2.toNat ∧
    (Gen.DivLimbLoops.div_rem_limb_with_reciprocal u.length u (Gen.DivLimb.Reciprocal.new d)).2.toNat < d.toNat := by
  have hd0 := GenDivLimbLoops.toNat_pos_of_ne d hd
  have ⟨h1, h2, _⟩ := P02.divRemLimb_exact hd0 (toNat_lt_B d) (GenShifts.nats_WF u)
  have hb := GenDivLimbLoops.divRemLimbWithReciprocal_bridge u _ (GenDivLimbLoops.new_shift_lt d hd)
  rw [← GenBits.new_bridge] at hb
  have e1 : (divRemLimb (GenShifts.nats u) d.toNat).1 = _ := congrArg Prod.fst hb
  have e2 : (divRemLimb (GenShifts.nats u) d.toNat).2 = _ := congrArg Prod.snd hb
  simp only [] at e1 e2
  rw [GenShifts.nats_length] at h1
  rw [← e1, ← e2, h1, h2]
  have hq : val (GenShifts.nats u) / d.toNat < B ^ u.length := by
    have := val_lt (GenShifts.nats_WF u)
    rw [GenShifts.nats_length] at this
    exact Nat.lt_of_le_of_lt (Nat.div_le_self _ _) this
  refine ⟨rfl, rfl, ?_, Nat.mod_lt _ hd0⟩
  rw [val_toLimbs, Nat.mod_eq_of_lt hq]
  exact (Nat.div_add_mod' _ _).symm

/-- the same for the public wrapper `Uint::div_rem_limb(rhs)` of src/uint/div.rs -/
theorem src_uint_div_rem_limb_exact (u : List (BitVec 64)) (d : BitVec 64) (hd : d ≠ 0#64) :
    GenShifts.nats (Gen.DivLimbLoops.Uint.div_rem_limb u.length u d).1 = toLimbs u.length (val (GenShifts.nats u) / d.toNat) ∧
    (Gen.DivLimbLoops.Uint.div_rem_limb u.length u d).2.toNat = val (GenShifts.nats u) % d.toNat := by
  rw [GenBits.uint_div_rem_limb_eq]
  exact ⟨(src_div_rem_limb_exact u d hd).1, (src_div_rem_limb_exact u d hd).2.1⟩

/-- `rem_limb_with_reciprocal` (and the wrapper `Uint::rem_limb`) of the source: `u mod d` for every limb count, every `u`,
    every non-zero limb `d` -/
theorem src_rem_limb_exact (u : List (BitVec 64)) (d : BitVec 64) (hd : d ≠ 0#64) :
    (Gen.DivLimbLoops.rem_limb_with_reciprocal u.length u (Gen.DivLimb.Reciprocal.new d)).toNat =
      val (GenShifts.nats u) % d.toNat ∧
    (Gen.DivLimbLoops.Uint.rem_limb u.length u d).toNat = val (GenShifts.nats u) % d.toNat := by
  have hd0 := GenDivLimbLoops.toNat_pos_of_ne d hd
  have ⟨_, _, h3⟩ := P02.divRemLimb_exact hd0 (toNat_lt_B d) (GenShifts.nats_WF u)
  have hb := GenDivLimbLoops.remLimb_bridge u d hd
  rw [h3] at hb
  refine ⟨?_, hb.symm⟩
  rw [← GenBits.uint_rem_limb_eq]; exact hb.symm

/-- `rem_limb_with_reciprocal_wide((lo, hi), Reciprocal::new(d))` of the source: `(lo + 2^(64·L)·hi) mod d` for every limb
    count `L ≥ 1` (both halves of `L` limbs) and every non-zero limb `d` (`remLimbWide_spec` carried to the translated source) -/
theorem src_rem_limb_wide_exact (lo hi : List (BitVec 64)) (d : BitVec 64) (hd : d ≠ 0#64)
    (hlen : hi.length = lo.length) (hne : hi ≠ []) :
    (Gen.DivLimbLoops.rem_limb_with_reciprocal_wide lo.length (lo, hi) (Gen.DivLimb.Reciprocal.new d)).toNat =
      (val (GenShifts.nats lo) + B ^ lo.length * val (GenShifts.nats hi)) % d.toNat := by
  have hd0 := GenDivLimbLoops.toNat_pos_of_ne d hd
  have ⟨ok, e1, e2⟩ := Reciprocal_new_ok hrecip hd0 (toNat_lt_B d)
  have ⟨l1, _, _⟩ := leadingZeros_spec hd0 (toNat_lt_B d)
  have hs := remLimbWide_spec ok (d := d.toNat) (by rw [e2]; exact l1) (by rw [e1, e2]) hd0
    (GenShifts.nats_WF lo) (GenShifts.nats_WF hi) (by simp [hlen]) (by simpa using hne)
  rw [GenShifts.nats_length] at hs
  rw [← hs, GenBits.new_bridge]
  exact (GenDivLimbLoops.remLimbWide_bridge lo hi _ (GenDivLimbLoops.new_shift_lt d hd) hlen).symm

/-- `mul_rem(a, b, d)` of the source is `(a·b) mod d` for all words `a`, `b` and every non-zero `d` -/
theorem src_mul_rem_exact (a b d : BitVec 64) (hd : d ≠ 0#64) :
    (Gen.DivLimbLoops.MulRem.mul_rem a b d).toNat = (a.toNat * b.toNat) % d.toNat := by
  have hd0 := GenDivLimbLoops.toNat_pos_of_ne d hd
  have hab : a.toNat * b.toNat < B * B := Nat.mul_lt_mul'' (toNat_lt_B a) (toNat_lt_B b)
  have hB : 0 < B := by decide
  have hw : WF [(mulhilo a.toNat b.toNat).2, (mulhilo a.toNat b.toNat).1] := by
    refine WF_cons.mpr ⟨Nat.mod_lt _ hB, WF_cons.mpr ⟨?_, WF_nil⟩⟩
    exact Nat.div_lt_of_lt_mul hab
  have ⟨_, _, h3⟩ := P02.divRemLimb_exact hd0 (toNat_lt_B d) hw
  rw [← GenDivLimbLoops.mulRem_bridge a b d hd, h3]
  congr 1
  show (a.toNat * b.toNat) % B + B * ((a.toNat * b.toNat) / B + B * 0) = _
  rw [Nat.mul_zero, Nat.add_zero, Nat.add_comm]
  exact Nat.div_add_mod _ _

/-! non-vacuity: the translated loops compute (three limbs, shift 60; the wide form; `mul_rem`) -/
example : Gen.DivLimbLoops.div_rem_limb_with_reciprocal 3 [5#64, 7#64, 1#64] (Gen.DivLimb.Reciprocal.new 11#64) =
    ([0x1745d1745d1745d1#64, 0x1745d1745d1745d2#64, 0#64], 10#64) := by decide +kernel
example : Gen.DivLimbLoops.Uint.rem_limb 3 [5#64, 7#64, 1#64] 11#64 = 10#64 := by decide +kernel
example : Gen.DivLimbLoops.rem_limb_with_reciprocal_wide 1 ([5#64], [7#64]) (Gen.DivLimb.Reciprocal.new 11#64) = 7#64 := by
  decide +kernel
example : Gen.DivLimbLoops.MulRem.mul_rem (~~~0#64) (~~~0#64) 1000003#64 = 301656#64 := by decide +kernel

/-! ## T02.G3 — the private sub-limb shifts of `div_rem_vartime`: `Uint::shl_limb_vartime`, `Uint::shr_limb_vartime`
(src/uint/div.rs; CB/Gen/DivLimbLoops.lean, namespace `CB.Gen.DivLimbLoops.Vartime`; bridges in CB/Lemmas/GenDivLimbVartime.lean) -/

/-- the model's `shlLimbVartime` / `shrLimbVartime` (on which the normalisation and un-normalisation steps of
    `div_rem_vartime` / `rem_wide_vartime` are proved) ARE the translated source, for every limb count, every
    `1 ≤ limbs_num ≤ LIMBS` (for `limbs_num = 0` the source panics: `limbs_num - 1`) and every shift below 64 -/
theorem limb_vartime_shifts_model_is_translated_source :
    (∀ (a : List (BitVec 64)) (s : BitVec 32) (k : Nat), s.toNat < 64 → 1 ≤ k → k ≤ a.length →
      shlLimbVartime (GenShifts.nats a) s.toNat k =
        (GenShifts.nats (Gen.DivLimbLoops.Vartime.shl_limb_vartime a.length a s k).1,
         (Gen.DivLimbLoops.Vartime.shl_limb_vartime a.length a s k).2.toNat)) ∧
    (∀ (a : List (BitVec 64)) (s : BitVec 32) (k : Nat), s.toNat < 64 → 1 ≤ k → k ≤ a.length →
      shrLimbVartime (GenShifts.nats a) s.toNat k =
        GenShifts.nats (Gen.DivLimbLoops.Vartime.shr_limb_vartime a.length a s k)) :=
  ⟨GenDivLimbVartime.shlLimbVartime_bridge, GenDivLimbVartime.shrLimbVartime_bridge⟩

/-- `shl_limb_vartime(shift, LIMBS)` of the source over all limbs: `result + 2^(64·L)·carry = a·2^shift`, `carry < 2^shift` -/
theorem src_shl_limb_vartime_full (a : List (BitVec 64)) (s : BitVec 32) (hs : s.toNat < 64) (hne : a ≠ []) :
    val (GenShifts.nats (Gen.DivLimbLoops.Vartime.shl_limb_vartime a.length a s a.length).1) +
        B ^ a.length * (Gen.DivLimbLoops.Vartime.shl_limb_vartime a.length a s a.length).2.toNat =
      val (GenShifts.nats a) * 2 ^ s.toNat ∧
    (Gen.DivLimbLoops.Vartime.shl_limb_vartime a.length a s a.length).2.toNat < 2 ^ s.toNat := by
  have hpos : 1 ≤ a.length := by
    cases a with
    | nil => exact absurd rfl hne
    | cons x xs => simp
  have hb := GenDivLimbVartime.shlLimbVartime_bridge a s a.length hs hpos (Nat.le_refl _)
  have ⟨h1, _, _, h4⟩ := shlLimbVartime_full hs (GenShifts.nats_WF a) (a := GenShifts.nats a) (by simpa using hne)
  rw [GenShifts.nats_length, hb] at h1 h4
  exact ⟨h1, h4⟩

/-- `shr_limb_vartime(shift, limbs_num)` of the source on a value that fits its low `limbs_num` limbs: `⌊a / 2^shift⌋` -/
theorem src_shr_limb_vartime_low (a : List (BitVec 64)) (s : BitVec 32) (k : Nat) (hs : s.toNat < 64) (hk1 : 1 ≤ k)
    (hk : k ≤ a.length) (hz : val ((GenShifts.nats a).drop k) = 0) :
    val (GenShifts.nats (Gen.DivLimbLoops.Vartime.shr_limb_vartime a.length a s k)) = val (GenShifts.nats a) / 2 ^ s.toNat := by
  have hb := GenDivLimbVartime.shrLimbVartime_bridge a s k hs hk1 hk
  have ⟨h1, _, _⟩ := shrLimbVartime_low hs (GenShifts.nats_WF a) (a := GenShifts.nats a) (m := k)
    (by rw [GenShifts.nats_length]; exact hk) hz
  rw [hb] at h1
  exact h1

example : Gen.DivLimbLoops.Vartime.shl_limb_vartime 3 [~~~0#64, 1#64, 0#64] 4#32 2 = ([~~~0#64 <<< 4, 31#64, 0#64], 0#64) := by
  decide +kernel
example : Gen.DivLimbLoops.Vartime.shr_limb_vartime 3 [5#64, 3#64, 0#64] 1#32 2 = ([(1#64 <<< 63) + 2#64, 1#64, 0#64]) := by
  decide +kernel

end CB.P02G
