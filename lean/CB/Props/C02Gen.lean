/-
  C02 — theorems about the SOURCE of the word-level division layer `src/uint/div_limb.rs` (64-bit configuration:
  `reciprocal`, `short_div` with `lt`/`select`, `div2by1`, `div3by2`, `Reciprocal::{new, default}`), regenerated from
  /repo on every run by tools/translate.py (CB/Gen/DivLimb.lean).  Kept in a module of its own (nothing imports it) so
  that a change in one of these Rust functions breaks exactly this property's obligations and no other module's build.
  Audited together with CB/Props/C02.lean by tools/runner.py.
-/
import CB.Props.C02
import CB.Lemmas.GenBitsDiv
namespace CB.P02G
open CB CB.Div

/-! ## T02.G — the SOURCE of `reciprocal`, `short_div`, `div2by1`, `div3by2`, `Reciprocal::new`, regenerated on every
run (tools/translate.py → CB/Gen/DivLimb.lean; the bridges are proved in CB/Lemmas/GenBitsDiv.lean).
`GenBits.rcNat rc` is the model's view of a translated `Reciprocal` (its three fields as `Nat`s). -/

/-- the hand-written `Nat` model of the word-level division layer (what every theorem of CB/Props/C02.lean about
    `reciprocal`, `div2by1`, `div3by2`, `Reciprocal::new` and the limb loops above them is built on) IS the translated
    source function: on every word for `reciprocal`, `div2by1`, `div3by2`, `Reciprocal::new`, `Reciprocal::default`,
    `lt`, `select`; on the whole domain of `short_div` (`divisor_bits ≤ dividend_bits`, difference below 32) -/
theorem model_is_translated_source :
    (∀ d : BitVec 64, reciprocalImpl d.toNat = (Gen.DivLimb.reciprocal d).toNat) ∧
    (∀ (u1 u0 : BitVec 64) (rc : Gen.DivLimb.Reciprocal),
      div2by1 u1.toNat u0.toNat (GenBits.rcNat rc) =
        ((Gen.DivLimb.div2by1 u1 u0 rc).1.toNat, (Gen.DivLimb.div2by1 u1 u0 rc).2.toNat)) ∧
    (∀ (u2 u1 u0 : BitVec 64) (rc : Gen.DivLimb.Reciprocal) (v0 : BitVec 64),
      div3by2 u2.toNat u1.toNat u0.toNat (GenBits.rcNat rc) v0.toNat = (Gen.DivLimb.div3by2 u2 u1 u0 rc v0).toNat) ∧
    (∀ x db y vb : BitVec 32, vb.toNat ≤ db.toNat → db.toNat - vb.toNat < 32 →
      shortDiv x.toNat db.toNat y.toNat vb.toNat = (Gen.DivLimb.short_div x db y vb).toNat) ∧
    (∀ a b c : BitVec 32, lt32 a.toNat b.toNat = (Gen.DivLimb.lt a b).toNat ∧
      select32 a.toNat b.toNat c.toNat = (Gen.DivLimb.select a b c).toNat) ∧
    (∀ x : BitVec 64, Reciprocal.new x.toNat = GenBits.rcNat (Gen.DivLimb.Reciprocal.new x)) ∧
    Reciprocal.dflt = GenBits.rcNat Gen.DivLimb.Reciprocal.default :=
  ⟨GenBits.reciprocal_bridge, GenBits.div2by1_bridge, GenBits.div3by2_bridge, GenBits.shortDiv_bridge,
    fun a b c => ⟨GenBits.lt32_bridge a b, GenBits.select32_bridge a b c⟩, GenBits.new_bridge, GenBits.default_bridge⟩

/-- `lt` / `select` of the source mean what their doc comments say -/
theorem src_lt_select (a b : BitVec 32) :
    Gen.DivLimb.lt a b = (if a < b then ~~~0#32 else 0#32) ∧
    Gen.DivLimb.select a b 0#32 = a ∧ Gen.DivLimb.select a b (~~~0#32) = b :=
  ⟨GenBits.lt_meaning a b, GenBits.select_meaning32 a b⟩

/-- `short_div` of the source on the only inputs the crate feeds it (`reciprocal`'s table value: dividend
    `2^19 − 3·2^8` of 19 bits, every 9-bit divisor head `256 ≤ d9 < 512`) returns the quotient -/
theorem src_short_div_table (d9 : BitVec 32) (h1 : 256 ≤ d9.toNat) (h2 : d9.toNat < 512) :
    (Gen.DivLimb.short_div ((1#32 <<< 19) - 3#32 * (1#32 <<< 8)) 19#32 d9 9#32).toNat = (2 ^ 19 - 3 * 2 ^ 8) / d9.toNat := by
  have hb := GenBits.shortDiv_bridge ((1#32 <<< 19) - 3#32 * (1#32 <<< 8)) 19#32 d9 9#32 (by decide) (by decide)
  have ht := P02.short_div_table_exact d9.toNat h1 h2
  rw [Nat.mod_eq_of_lt (by simp only [U32]; omega)] at ht
  rw [← hb, ← ht]; rfl

/-- `reciprocal` of the source (the `target_pointer_width = "64"` version: its `short_div` table value, the Newton
    steps with their constants, the wrapping operations and the `x == 0` select) returns `⌊(2^128 − 1)/d⌋ − 2^64`
    for EVERY normalised divisor word (`P02.reciprocal_exact` carried to the translated source) -/
theorem src_reciprocal_exact (d : BitVec 64) (hd : 2 ^ 63 ≤ d.toNat) :
    (Gen.DivLimb.reciprocal d).toNat = (2 ^ 128 - 1) / d.toNat - 2 ^ 64 := by
  rw [← GenBits.reciprocal_bridge, P02.reciprocal_exact d.toNat hd (toNat_lt_B d)]
  rfl

/-- `div2by1` of the source (both masked corrections, wrapping arithmetic) returns the quotient and remainder of
    `(u1, u0)` by the normalised divisor whenever the stored reciprocal is `⌊(2^128 − 1)/d⌋ − 2^64` and `u1 < d` -/
theorem src_div2by1_correct (u1 u0 : BitVec 64) (rc : Gen.DivLimb.Reciprocal)
    (hd : 2 ^ 63 ≤ rc.divisor_normalized.toNat)
    (hv : rc.reciprocal.toNat = (2 ^ 128 - 1) / rc.divisor_normalized.toNat - 2 ^ 64)
    (hu : u1.toNat < rc.divisor_normalized.toNat) :
    (Gen.DivLimb.div2by1 u1 u0 rc).1.toNat = (u1.toNat * 2 ^ 64 + u0.toNat) / rc.divisor_normalized.toNat ∧
    (Gen.DivLimb.div2by1 u1 u0 rc).2.toNat = (u1.toNat * 2 ^ 64 + u0.toNat) % rc.divisor_normalized.toNat := by
  have hb := GenBits.div2by1_bridge u1 u0 rc
  have hc := P02.div2by1_correct (rc := GenBits.rcNat rc) (u1 := u1.toNat) (u0 := u0.toNat) hd
    (toNat_lt_B _) hv hu (toNat_lt_B u0)
  rw [hb] at hc
  exact ⟨congrArg Prod.fst hc, congrArg Prod.snd hc⟩

/-- the same with the reciprocal computed by the source's own `reciprocal` -/
theorem src_div2by1_with_src_reciprocal (u1 u0 d : BitVec 64) (sh : BitVec 32) (hd : 2 ^ 63 ≤ d.toNat)
    (hu : u1.toNat < d.toNat) :
    (Gen.DivLimb.div2by1 u1 u0 ⟨d, sh, Gen.DivLimb.reciprocal d⟩).1.toNat = (u1.toNat * 2 ^ 64 + u0.toNat) / d.toNat ∧
    (Gen.DivLimb.div2by1 u1 u0 ⟨d, sh, Gen.DivLimb.reciprocal d⟩).2.toNat = (u1.toNat * 2 ^ 64 + u0.toNat) % d.toNat :=
  src_div2by1_correct u1 u0 ⟨d, sh, Gen.DivLimb.reciprocal d⟩ hd (src_reciprocal_exact d hd) hu

/-- `div3by2` of the source (the `q_maxed` cap, `div2by1`, the two unrolled correction rounds on the wide remainder)
    returns `min(⌊(u2·2^128 + u1·2^64 + u0)/(v1·2^64 + v0)⌋, 2^64 − 1)` whenever `u2 ≤ v1` -/
theorem src_div3by2_correct (u2 u1 u0 v0 : BitVec 64) (rc : Gen.DivLimb.Reciprocal)
    (hd : 2 ^ 63 ≤ rc.divisor_normalized.toNat)
    (hv : rc.reciprocal.toNat = (2 ^ 128 - 1) / rc.divisor_normalized.toNat - 2 ^ 64)
    (hu : u2.toNat ≤ rc.divisor_normalized.toNat) :
    (Gen.DivLimb.div3by2 u2 u1 u0 rc v0).toNat =
      min (((u2.toNat * 2 ^ 64 + u1.toNat) * 2 ^ 64 + u0.toNat) / (rc.divisor_normalized.toNat * 2 ^ 64 + v0.toNat))
        (2 ^ 64 - 1) := by
  rw [← GenBits.div3by2_bridge]
  exact P02.div3by2_correct (rc := GenBits.rcNat rc) hd (toNat_lt_B _) hv hu (toNat_lt_B u1) (toNat_lt_B u0) (toNat_lt_B v0)

/-- `Reciprocal::new` of the source, for every non-zero divisor word: the divisor shifted left by its leading-zero
    count (`shift < 64`, top bit set) together with its exact reciprocal -/
theorem src_new_ok (x : BitVec 64) (hx : x ≠ 0#64) :
    (Gen.DivLimb.Reciprocal.new x).shift.toNat < 64 ∧
    (Gen.DivLimb.Reciprocal.new x).divisor_normalized.toNat = x.toNat * 2 ^ (Gen.DivLimb.Reciprocal.new x).shift.toNat ∧
    2 ^ 63 ≤ (Gen.DivLimb.Reciprocal.new x).divisor_normalized.toNat ∧
    (Gen.DivLimb.Reciprocal.new x).reciprocal.toNat =
      (2 ^ 128 - 1) / (Gen.DivLimb.Reciprocal.new x).divisor_normalized.toNat - 2 ^ 64 := by
  have h0 : 0 < x.toNat := by
    rcases Nat.eq_zero_or_pos x.toNat with h | h
    · exact absurd (BitVec.eq_of_toNat_eq (by simpa using h)) hx
    · exact h
  have ⟨ok, e1, e2⟩ := Reciprocal_new_ok hrecip h0 (toNat_lt_B x)
  have ⟨l1, _, _⟩ := leadingZeros_spec h0 (toNat_lt_B x)
  rw [GenBits.new_bridge] at ok e1 e2
  have hs : (Gen.DivLimb.Reciprocal.new x).shift.toNat = leadingZeros x.toNat := e2
  refine ⟨by rw [hs]; exact l1, by rw [hs]; exact e1, ok.h1, ok.hv⟩

/-! non-vacuity: the hypotheses are satisfiable by non-trivial words, and the translated functions compute -/
example : (Gen.DivLimb.reciprocal (1#64 <<< 63)).toNat = 2 ^ 64 - 1 ∧ Gen.DivLimb.reciprocal (~~~0#64) = 1#64 := by
  decide +kernel
example : Gen.DivLimb.div2by1 5#64 7#64 (Gen.DivLimb.Reciprocal.new 11#64) = (7#64, (3#64 <<< 60) + 7#64) := by
  decide +kernel
example : Gen.DivLimb.short_div 0x7fd00#32 19#32 300#32 9#32 = 1745#32 := by decide +kernel

end CB.P02G
