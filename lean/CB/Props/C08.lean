/-
  CB.Props.C08 — Montgomery-form values stay canonical and track ℤ/m over any operation history.

  Refinements taken from other properties (value-level calls in `CB.Model.Monty`): wide multiplication (C03),
  wide/ordinary remainders (C02), `inv_mod2k(64)` (C10; here the Newton word inverse `inv64`, proved below),
  shifts / leading zeros (C05).
-/
import CB.Lemmas.C08Params
import CB.Lemmas.C08Old
import CB.Lemmas.C08X
namespace CB.P08
open CB CB.Monty

/-! ## T08.1 — Montgomery reduction (src/modular/reduction.rs), all limb counts -/

/-- `montgomery_reduction_inner` (lower/upper arrays, `meta_carry`): for `k·m ≡ −1 (mod 2^64)` (so `m` is odd)
    and `T = lower + B^n·upper < m·B^n`, the value `X = upper' + B^n·meta_carry` satisfies
    `X·B^n = T + U·m` for some `U < B^n`, `X < 2m` and `meta_carry ≤ 1`:
    **one** conditional subtraction of `m` suffices. -/
theorem redc_inner_spec (lo hi ms : List Nat) (k : Nat) (hlo : WF lo) (hhi : WF hi) (hms : WF ms)
    (hll : lo.length = ms.length) (hhl : hi.length = ms.length)
    (hk : (k * val ms + 1) % B = 0)
    (hT : val lo + B ^ ms.length * val hi < val ms * B ^ ms.length) :
    ∃ U, U < B ^ ms.length ∧
      (val (redcInner hi lo ms k).1 + B ^ ms.length * (redcInner hi lo ms k).2) * B ^ ms.length
        = val lo + B ^ ms.length * val hi + U * val ms ∧
      val (redcInner hi lo ms k).1 + B ^ ms.length * (redcInner hi lo ms k).2 < 2 * val ms ∧
      WF (redcInner hi lo ms k).1 ∧ (redcInner hi lo ms k).1.length = ms.length ∧
      (redcInner hi lo ms k).2 ≤ 1 :=
  redcInner_spec hlo hhi hms hll hhl hk hT

/-- `montgomery_reduction` (inner loop + final `sub_mod_with_carry`): the result `r` is canonical and
    `r·B^n ≡ T (mod m)`. -/
theorem redc_spec (lo hi ms : List Nat) (k : Nat) (hlo : WF lo) (hhi : WF hi) (hms : WF ms)
    (hll : lo.length = ms.length) (hhl : hi.length = ms.length)
    (hk : (k * val ms + 1) % B = 0)
    (hT : val lo + B ^ ms.length * val hi < val ms * B ^ ms.length) :
    val (montgomeryReduction lo hi ms k) < val ms ∧
    (val (montgomeryReduction lo hi ms k) * B ^ ms.length) % val ms
      = (val lo + B ^ ms.length * val hi) % val ms ∧
    WF (montgomeryReduction lo hi ms k) ∧ (montgomeryReduction lo hi ms k).length = ms.length :=
  montgomeryReduction_spec hlo hhi hms hll hhl hk hT

/-- `k·m ≡ −1 (mod 2^64)` forces `m` odd (the code's `Odd<…>` precondition is implied by `hk`). -/
theorem neg_inv_forces_odd (k m : Nat) (hk : (k * m + 1) % B = 0) : m % 2 = 1 := by
  have h2 : (k * m + 1) % 2 = 0 := by
    have : (k * m + 1) % B % 2 = (k * m + 1) % 2 := Nat.mod_mod_of_dvd _ (by decide)
    rw [hk] at this; omega
  rcases Nat.mod_two_eq_zero_or_one m with h | h
  · exfalso
    have : (k * m) % 2 = 0 := by rw [Nat.mul_mod, h]; simp
    omega
  · exact h

/-- hypotheses of `redc_spec` are satisfiable: 2 limbs, m = 2^64 + 1 (k = 2^64 − 1), T = m·B² − 1. -/
example : ∃ lo hi ms k, WF lo ∧ WF hi ∧ WF ms ∧ lo.length = ms.length ∧ hi.length = ms.length ∧
    (k * val ms + 1) % B = 0 ∧ val lo + B ^ ms.length * val hi < val ms * B ^ ms.length ∧
    val (montgomeryReduction lo hi ms k) = 18446744073709551616 :=
  ⟨[WMAX, WMAX], [0, 1], [1, 1], WMAX, WF_of_all _ (by decide), WF_of_all _ (by decide),
    WF_of_all _ (by decide), rfl, rfl, by decide, by decide, by decide +kernel⟩

/-! ## T08.2 — the parameter constructors (`MontyParams::new`, `new_vartime`, `impl_modulus!`,
     `BoxedMontyParams::new`/`new_vartime`) yield the defined constants, for every limb count

  `paramsSpec n m` = { modulus = m, one = B^n mod m, r2 = B^(2n) mod m, r3 = B^(3n) mod m,
                       mod_neg_inv = −(m mod 2^64)⁻¹ mod 2^64, mod_leading_zeros = min(lz, 63) }.
  Wide products / remainders / leading zeros inside the constructors are value-level calls (C03 / C02 / C05);
  the word inverse is the Newton iteration `inv64`, proved correct in `CB/Lemmas/C08Inv64.lean`. -/

/-- the word inverse used by the constructors is an inverse: `m₀·inv64 m₀ ≡ 1 (mod 2^64)` for odd `m₀`. -/
theorem inv64_is_inverse (m0 : Nat) (hodd : m0 % 2 = 1) : (m0 * inv64 m0) % B = 1 := inv64_spec m0 hodd

/-- every constructor yields exactly the defined constants, for every odd modulus `m < B^n` — `m = 1` included
    (since fix commit b15470f the constructors reduce `one`; the old formula is kept in `CB/Lemmas/C08Old.lean`). -/
theorem constructors_yield_constants (n m : Nat) (hm : m < B ^ n) (hodd : m % 2 = 1) :
    paramsNew (toLimbs n m) = paramsSpec n m ∧ paramsNewVartime (toLimbs n m) = paramsSpec n m ∧
    paramsConst (toLimbs n m) = paramsSpec n m ∧ paramsBoxed (toLimbs n m) = paramsSpec n m :=
  params_eq_spec hm hodd

/-- … hence the constant-time, vartime, compile-time and boxed constructors are identical. -/
theorem constructors_agree (n m : Nat) (hm : m < B ^ n) (hodd : m % 2 = 1) :
    paramsNew (toLimbs n m) = paramsNewVartime (toLimbs n m) ∧
    paramsNew (toLimbs n m) = paramsConst (toLimbs n m) ∧
    paramsNew (toLimbs n m) = paramsBoxed (toLimbs n m) := by
  have ⟨a, b, c, d⟩ := params_eq_spec hm hodd
  exact ⟨a.trans b.symm, a.trans c.symm, a.trans d.symm⟩

/-- the constants satisfy their defining equations: `one`, `r2`, `r3` are the residues `R mod m`, `R² mod m`,
    `R³ mod m` (in particular `< m`) and `k·m ≡ −1 (mod 2^64)`. -/
theorem constants_defining_equations (n m : Nat) (hm : m < B ^ n) (hodd : m % 2 = 1) :
    val (paramsSpec n m).one = B ^ n % m ∧ val (paramsSpec n m).r2 = B ^ (2 * n) % m ∧
    val (paramsSpec n m).r3 = B ^ (3 * n) % m ∧ ((paramsSpec n m).modNegInv * m + 1) % B = 0 ∧
    (paramsSpec n m).modLeadingZeros = Nat.min (64 * n - bitLen m) 63 := by
  have hpos : 0 < m := by omega
  have hlt : ∀ x, x % m < B ^ n := fun x => Nat.lt_trans (Nat.mod_lt _ hpos) hm
  exact ⟨val_toLimbs_lt (hlt _), val_toLimbs_lt (hlt _), val_toLimbs_lt (hlt _),
    (good_spec hm hodd).k, rfl⟩

/-- non-vacuity of T08.2 at the boundary: the one-limb modulus 1 (`one = r2 = r3 = 0`, `k = 2^64 − 1`, 63 leading zeros). -/
example : paramsNew (toLimbs 1 1) = paramsSpec 1 1 ∧ (paramsSpec 1 1).one = [0] ∧
    (paramsSpec 1 1).modNegInv = WMAX ∧ (paramsSpec 1 1).modLeadingZeros = 63 :=
  ⟨(params_eq_spec (n := 1) (m := 1) (by decide) (by decide)).1, by decide +kernel, by decide +kernel, by decide +kernel⟩

/-! ## T08.4 — almost-Montgomery multiplication (src/modular/boxed_monty_form/mul.rs), all limb counts -/

/-- `almost_montgomery_mul` on ARBITRARY (unreduced) `n`-limb inputs: `z·B^n ≡ x·y (mod m)`, `z` is an
    `n`-limb value (`z < B^n`), and `z·B^n < x·y + B^n·m`. -/
theorem amm_congruence_and_bound (x y ms : List Nat) (k : Nat) (hx : WF x) (hy : WF y) (hms : WF ms)
    (hxl : x.length = ms.length) (hyl : y.length = ms.length) (hk : (k * val ms + 1) % B = 0) :
    (val (almostMontgomeryMul x y ms k) * B ^ ms.length) % val ms = (val x * val y) % val ms ∧
    val (almostMontgomeryMul x y ms k) * B ^ ms.length < val x * val y + B ^ ms.length * val ms ∧
    WF (almostMontgomeryMul x y ms k) ∧ (almostMontgomeryMul x y ms k).length = ms.length :=
  amm_spec hx hy hms hxl hyl hk

/-- property 1 of the source comment ("discovered via randomized tests, not proven"):
    `⌊AMM(x,y)/m⌋ ≤ min(⌊x/m⌋, ⌊y/m⌋) + 1`. -/
theorem amm_reduction_error (x y ms : List Nat) (k : Nat) (hx : WF x) (hy : WF y) (hms : WF ms)
    (hxl : x.length = ms.length) (hyl : y.length = ms.length) (hk : (k * val ms + 1) % B = 0) :
    val (almostMontgomeryMul x y ms k) / val ms ≤ min (val x / val ms) (val y / val ms) + 1 :=
  amm_floor_bound hx hy hms hxl hyl hk

/-- boxed `mul` / `square` / `new` (AMM followed by ONE `sub_assign_mod_with_carry`) return the canonical
    product as soon as one operand is reduced. -/
theorem boxed_mul_canonical (n m k : Nat) (hm : m < B ^ n) (hk : (k * m + 1) % B = 0)
    (a b : List Nat) (ha : WF a) (hb : WF b) (hal : a.length = n) (hbl : b.length = n)
    (hab : val a < m ∨ val b < m) :
    val (bMul a b (toLimbs n m) k) < m ∧ (val (bMul a b (toLimbs n m) k) * B ^ n) % m = (val a * val b) % m ∧
    WF (bMul a b (toLimbs n m) k) ∧ (bMul a b (toLimbs n m) k).length = n :=
  ammMulOK_holds hm hk a b ha hb hal hbl hab

/-- property 2 for reduced inputs: boxed `retrieve` (`mul_by_one`, no final subtraction) is fully reduced. -/
theorem boxed_retrieve_reduced (n m k : Nat) (hm : m < B ^ n) (hk : (k * m + 1) % B = 0)
    (a : List Nat) (ha : WF a) (hal : a.length = n) (hav : val a < m) :
    val (bRetrieve a (toLimbs n m) k) < m ∧ (val (bRetrieve a (toLimbs n m) k) * B ^ n) % m = val a % m ∧
    WF (bRetrieve a (toLimbs n m) k) ∧ (bRetrieve a (toLimbs n m) k).length = n :=
  ammOneOK_holds hm hk a ha hal hav

/-- non-vacuity of T08.4 and necessity of the final subtraction: one limb, `m = 2^63 + 1`, REDUCED `x`, `y` whose
    almost-Montgomery product is NOT reduced (`m ≤ AMM(x, y)`, i.e. `f(AMM) = 1`), while `bMul` is canonical. -/
example : WF [3872982626502034966] ∧ WF [8999366892653588108] ∧ WF [9223372036854775809] ∧
    (9223372036854775807 * val [9223372036854775809] + 1) % B = 0 ∧
    val [3872982626502034966] < val [9223372036854775809] ∧ val [8999366892653588108] < val [9223372036854775809] ∧
    val [9223372036854775809] ≤
      val (almostMontgomeryMul [3872982626502034966] [8999366892653588108] [9223372036854775809] 9223372036854775807) ∧
    val (bMul [3872982626502034966] [8999366892653588108] [9223372036854775809] 9223372036854775807)
      < val [9223372036854775809] :=
  ⟨WF_of_all _ (by decide), WF_of_all _ (by decide), WF_of_all _ (by decide), by decide, by decide, by decide,
    by decide +kernel, by decide +kernel⟩

/-- The source comment states properties 2 and 3 "regardless of f(x)"; literally they are false:
    `AMM(m, 1) = m` (not fully reduced) and, for `m = 3`, `⌊AMM(x, x)/m⌋` is huge for `x = 2^64 − 1`.
    (Neither input is reachable from canonical values; recorded because the comment is cited as the
    justification for skipping reductions.) -/
theorem source_comment_claims_2_3_need_reduced_inputs :
    bRetrieve [3] [3] (negInvOf [3]) = [3] ∧
    1 < val (almostMontgomeryMul [WMAX] [WMAX] [3] (negInvOf [3])) / 3 := by
  decide +kernel

/-! ## T08.3 — history invariant: every prefix state is canonical and `retrieve` returns the denotation

  `Good p n m` : the parameter set holds the defined constants for the odd modulus `0 < m < B^n`
                 (true of every constructor by T08.2).
  `Inv n m st sp` : `st.store = sp.map (canon n m)` and every residue in `sp` is `< m`, where
                 `canon n m x = toLimbs n (x·B^n mod m)` and `sp` is the same history evaluated in ℤ/m (`stepSpec`).
  `wt n op`     : the integer given to `new` is an `n`-limb value (it is a `Uint<n>` / `BoxedUint` of that precision).
  The state machine covers `new, zero, one, add, sub, neg, double, mul, square, div_by_2`, their assigning and
  multiplier-object forms, `select`, `copy_montgomery_from` and the conversions const → dyn → boxed.
-/

/-- one step preserves the invariant, in all three representations. -/
theorem history_step {st : State} {sp : List Nat} {n m : Nat} {op : MontyOp}
    (g : Good st.params n m) (h : Inv n m st sp) (hw : wt n op) :
    Inv n m (step st op) (stepSpec m sp op) ∧ (step st op).params = st.params :=
  ⟨step_inv g (ammMulOK_holds g.mlt g.k) h hw, step_params op⟩

/-- the empty store satisfies the invariant -/
theorem history_init (rep : Rep) (p : Params) (n m : Nat) :
    Inv n m { rep := rep, params := p, store := [] } [] :=
  ⟨rfl, fun _ h => by cases h⟩

/-- For every operation list, every prefix state satisfies the invariant. -/
theorem history_invariant {rep : Rep} {p : Params} {n m : Nat} (g : Good p n m)
    (ops : List MontyOp) (hw : ∀ op ∈ ops, wt n op) (k : Nat) :
    Inv n m (run { rep := rep, params := p, store := [] } (ops.take k)) (runSpec m [] (ops.take k)) :=
  (run_inv (ops.take k) (st := { rep := rep, params := p, store := [] }) g (ammMulOK_holds g.mlt g.k)
    (history_init rep p n m) (fun op ho => hw op (List.mem_of_mem_take ho))).1

/-- Consequently every stored value of every prefix state is canonical (`< m`, equal to `x·B^n mod m`) and
    `retrieve()` returns exactly the value of the same expression evaluated in ℤ/m. -/
theorem history_canonical_and_retrieve {rep : Rep} {p : Params} {n m : Nat} (g : Good p n m)
    (ops : List MontyOp) (hw : ∀ op ∈ ops, wt n op) (k i : Nat) :
    let st := run { rep := rep, params := p, store := [] } (ops.take k)
    let sp := runSpec m [] (ops.take k)
    val (st.get i) < m ∧ st.get i = canon n m (sget sp i) ∧ sget sp i < m ∧
    opRetrieve st (st.get i) = toLimbs n (sget sp i) := by
  intro st sp
  have ⟨hinv, hpar⟩ := run_inv (ops.take k) (st := { rep := rep, params := p, store := [] }) g
    (ammMulOK_holds g.mlt g.k) (history_init rep p n m) (fun op ho => hw op (List.mem_of_mem_take ho))
  have g' : Good st.params n m := by rw [show st.params = p from hpar]; exact g
  have ⟨e, lt⟩ := get_canon g' hinv i
  refine ⟨?_, e, lt, ?_⟩
  · rw [e]; exact canon_lt g.mlt g'.pos _
  · rw [e]
    exact opRetrieve_canon g' (ammOneOK_holds g'.mlt g'.k) lt

/-- The whole property for histories started from ANY of the constructors, for every limb count, every odd
    modulus `m < B^n` (1 included), every operation list and every prefix. -/
theorem history_from_constructors (n m : Nat) (hm : m < B ^ n) (hodd : m % 2 = 1)
    (rep : Rep) (p : Params)
    (hp : p = paramsNew (toLimbs n m) ∨ p = paramsNewVartime (toLimbs n m) ∨ p = paramsConst (toLimbs n m) ∨
          p = paramsBoxed (toLimbs n m))
    (ops : List MontyOp) (hw : ∀ op ∈ ops, wt n op) (k i : Nat) :
    let st := run { rep := rep, params := p, store := [] } (ops.take k)
    let sp := runSpec m [] (ops.take k)
    val (st.get i) < m ∧ st.get i = canon n m (sget sp i) ∧ opRetrieve st (st.get i) = toLimbs n (sget sp i) := by
  have ⟨a, b, c, d⟩ := params_eq_spec hm hodd
  have hps : p = paramsSpec n m := by
    rcases hp with h | h | h | h <;> (rw [h]; assumption)
  have g : Good p n m := hps ▸ good_spec hm hodd
  intro st sp
  have ⟨h1, h2, _, h4⟩ := history_canonical_and_retrieve (rep := rep) g ops hw k i
  exact ⟨h1, h2, h4⟩

/-- modulus 1 in particular (the case that was broken before fix commit b15470f): at every width, after any
    history started from any constructor, every stored form is 0 and `retrieve()` returns 0. -/
theorem history_modulus_one (n : Nat) (hn : 0 < n) (rep : Rep) (p : Params)
    (hp : p = paramsNew (toLimbs n 1) ∨ p = paramsNewVartime (toLimbs n 1) ∨ p = paramsConst (toLimbs n 1) ∨
          p = paramsBoxed (toLimbs n 1))
    (ops : List MontyOp) (hw : ∀ op ∈ ops, wt n op) (k i : Nat) :
    let st := run { rep := rep, params := p, store := [] } (ops.take k)
    st.get i = uzero n ∧ opRetrieve st (st.get i) = uzero n := by
  have hm : 1 < B ^ n := Nat.one_lt_pow (by omega) (by decide)
  intro st
  have ⟨_, h2, h4⟩ := history_from_constructors n 1 hm (by decide) rep p hp ops hw k i
  refine ⟨?_, ?_⟩
  · rw [h2]; simp only [canon, Nat.mod_one]; exact toLimbs_zero n
  · rw [h4]
    have h0 : sget (runSpec 1 [] (ops.take k)) i = 0 := by
      have := (history_canonical_and_retrieve (rep := rep) (p := paramsSpec n 1) (good_spec hm (by decide)) ops hw k i).2.2.1
      omega
    rw [h0]; exact toLimbs_zero n

/-! ## T08.5 — conversions const → dyn → boxed (`MontyForm::from(&ConstMontyForm)`, `from_const_params`,
     `BoxedMontyForm::from_montgomery(to_montgomery())`) reuse the stored parameters and representatives -/

/-- a conversion changes neither any parameter field nor any stored Montgomery form; only the representation
    tag (which selects the fixed-width or the boxed algorithms for the FOLLOWING operations) moves one step along
    const → dyn → boxed. That the following operations still return canonical values is `history_step`. -/
theorem conversion_keeps_fields_and_values (st : State) :
    (step st .conv).params = st.params ∧ (step st .conv).store = st.store ∧
    (step st .conv).rep = (match st.rep with | .const => .dyn | .dyn => .boxed | .boxed => .boxed) := by
  cases h : st.rep <;> simp [step, h]

/-- non-vacuity: the hypotheses hold for the 2-limb modulus 2^64 + 1 and a concrete history. -/
example : ∃ n m, m < B ^ n ∧ m % 2 = 1 ∧ 1 < m ∧
    (∀ op ∈ [MontyOp.new 5, .one, .mul 0 1, .div2 2, .conv, .conv, .square 3], wt n op) :=
  ⟨2, 18446744073709551617, by decide, by decide, by decide, by
    intro op h
    simp only [List.mem_cons, List.not_mem_nil, or_false] at h
    rcases h with h | h | h | h | h | h | h <;> (subst h; simp only [wt]; try decide)⟩

/-! ## T08.6 — coverage round: the remaining public forms of `MontyForm`, `ConstMontyForm`, `BoxedMontyForm`
     as operations of the history (`CB.Model.MontyX`: `XOp`, `stepX`, `stepSpecX`)

  Forwarding forms share the model function of the form they forward to, so the theorems above already speak about
  them: `Monty::new` / `BoxedMontyForm::new_with_arc` = `.new`; `Monty::zero`, `Default::default`, `Zero::zero` =
  `.zero`; `Monty::one` = `.one`; `Monty::new_params_vartime` = `paramsNewVartime` / `paramsBoxed`;
  `Retrieve::retrieve` = `opRetrieve`; `Monty::as_montgomery`, `to_montgomery` = `State.get`; `params()`,
  `Monty::params()` = `State.params` (unchanged by every step: `ext_history_step`).  The correspondence run calls each
  of them through its own path (`new.t`, `new.arc`, `zero.t`, `zero.d`, `zero.z`, `one.t`, `obs.*`, kinds `dynt`/`boxedt`)
  and compares the stored limbs with the same model function.
  New model content: `from_montgomery` / `as_montgomery_mut` (a caller-supplied representative is stored as it is; the
  property speaks about canonical ones, `wtX`), `Monty::lincomb_vartime` (value-level call; the limb-level routine and
  its exactness are C09's `lincomb_exact`), `Zeroize`, and the predicates `is_zero` / `ct_eq`. -/

/-- `unMont n m v` — the plain-arithmetic L0 of a caller-supplied representative (`64·n` halvings in ℤ/m) — is the
    unique residue `x < m` with `x·B^n ≡ v (mod m)`, i.e. `v·R⁻¹ mod m`. -/
theorem unmont_is_times_r_inverse (n m v : Nat) (hodd : m % 2 = 1) :
    unMont n m v < m ∧ (unMont n m v * B ^ n) % m = v % m ∧
    ∀ x, x < m → (x * B ^ n) % m = v % m → x = unMont n m v :=
  ⟨(unMont_spec hodd v).1, (unMont_spec hodd v).2, fun _ hx h => unMont_unique hodd v hx h⟩

/-- one step of the extended machine preserves the invariant, in all three representations, and leaves the
    parameter set untouched. -/
theorem ext_history_step {st : State} {sp : List Nat} {n m : Nat} {op : XOp}
    (g : Good st.params n m) (h : Inv n m st sp) (hw : wtX n m op) :
    Inv n m (stepX st op) (stepSpecX n m sp op) ∧ (stepX st op).params = st.params :=
  ⟨stepX_inv g (ammMulOK_holds g.mlt g.k) h hw, stepX_params op⟩

/-- the extended machine on original operations IS the original machine (so T08.3 is the special case). -/
theorem ext_machine_extends_base (ops : List MontyOp) (st : State) (n m : Nat) (sp : List Nat) :
    runX st (ops.map XOp.base) = run st ops ∧ runSpecX n m sp (ops.map XOp.base) = runSpec m sp ops :=
  ⟨runX_base ops st, runSpecX_base ops n m sp⟩

/-- For every extended operation list, every prefix state satisfies the invariant. -/
theorem ext_history_invariant {rep : Rep} {p : Params} {n m : Nat} (g : Good p n m)
    (ops : List XOp) (hw : ∀ op ∈ ops, wtX n m op) (k : Nat) :
    Inv n m (runX { rep := rep, params := p, store := [] } (ops.take k)) (runSpecX n m [] (ops.take k)) :=
  (runX_inv (ops.take k) (st := { rep := rep, params := p, store := [] }) g (ammMulOK_holds g.mlt g.k)
    (history_init rep p n m) (fun op ho => hw op (List.mem_of_mem_take ho))).1

/-- … hence after construction from a (canonical) Montgomery representative, writes through `as_montgomery_mut`,
    trait-level linear combinations, zeroization and any of the original operations, in any order: every stored
    value of every prefix state is canonical and `retrieve()` returns the value of the same history in ℤ/m. -/
theorem ext_history_canonical_and_retrieve {rep : Rep} {p : Params} {n m : Nat} (g : Good p n m)
    (ops : List XOp) (hw : ∀ op ∈ ops, wtX n m op) (k i : Nat) :
    let st := runX { rep := rep, params := p, store := [] } (ops.take k)
    let sp := runSpecX n m [] (ops.take k)
    val (st.get i) < m ∧ st.get i = canon n m (sget sp i) ∧ sget sp i < m ∧
    opRetrieve st (st.get i) = toLimbs n (sget sp i) := by
  intro st sp
  have ⟨hinv, hpar⟩ := runX_inv (ops.take k) (st := { rep := rep, params := p, store := [] }) g
    (ammMulOK_holds g.mlt g.k) (history_init rep p n m) (fun op ho => hw op (List.mem_of_mem_take ho))
  have g' : Good st.params n m := by rw [show st.params = p from hpar]; exact g
  have ⟨e, lt⟩ := get_canon g' hinv i
  refine ⟨?_, e, lt, ?_⟩
  · rw [e]; exact canon_lt g.mlt g'.pos _
  · rw [e]
    exact opRetrieve_canon g' (ammOneOK_holds g'.mlt g'.k) lt

/-- the same from ANY parameter constructor (`Monty::new_params_vartime` is `paramsNewVartime` / `paramsBoxed`), every
    limb count, every odd modulus `m < B^n` (1 included). -/
theorem ext_history_from_constructors (n m : Nat) (hm : m < B ^ n) (hodd : m % 2 = 1)
    (rep : Rep) (p : Params)
    (hp : p = paramsNew (toLimbs n m) ∨ p = paramsNewVartime (toLimbs n m) ∨ p = paramsConst (toLimbs n m) ∨
          p = paramsBoxed (toLimbs n m))
    (ops : List XOp) (hw : ∀ op ∈ ops, wtX n m op) (k i : Nat) :
    let st := runX { rep := rep, params := p, store := [] } (ops.take k)
    let sp := runSpecX n m [] (ops.take k)
    val (st.get i) < m ∧ st.get i = canon n m (sget sp i) ∧ opRetrieve st (st.get i) = toLimbs n (sget sp i) ∧
    st.params = paramsSpec n m := by
  have ⟨a, b, c, d⟩ := params_eq_spec hm hodd
  have hps : p = paramsSpec n m := by
    rcases hp with h | h | h | h <;> (rw [h]; assumption)
  have g : Good p n m := hps ▸ good_spec hm hodd
  intro st sp
  have ⟨h1, h2, _, h4⟩ := ext_history_canonical_and_retrieve (rep := rep) g ops hw k i
  have hpar := (runX_inv (ops.take k) (st := { rep := rep, params := p, store := [] }) g
    (ammMulOK_holds g.mlt g.k) (history_init rep p n m) (fun op ho => hw op (List.mem_of_mem_take ho))).2
  exact ⟨h1, h2, h4, hpar.trans hps⟩

/-- `from_montgomery(v)` / `*as_montgomery_mut() = v` with a canonical `v` (`< m`): the stored limbs are exactly `v`
    (nothing is reduced or converted), the denoted residue is `v·R⁻¹ mod m`, and `retrieve()` returns it. -/
theorem written_representative_kept {st : State} {n m : Nat} (g : Good st.params n m) (v : Nat) (hv : v < m) :
    (stepX st (.fromMont v)).get st.store.length = toLimbs n v ∧
    (∀ i, i < st.store.length → (stepX st (.setMont i v)).get i = toLimbs n v) ∧
    toLimbs n v = canon n m (unMont n m v) ∧
    opRetrieve st (toLimbs n v) = toLimbs n (unMont n m v) := by
  refine ⟨?_, ?_, (canon_unMont g.modd hv).symm, ?_⟩
  · simp only [stepX, State.push, State.get, g.n_eq, List.getD_eq_getElem?_getD, List.getElem?_append_right (Nat.le_refl _)]
    simp
  · intro i hi
    simp only [stepX, State.put, State.get, g.n_eq, List.getD_eq_getElem?_getD]
    rw [List.getElem?_set_self hi]; rfl
  · rw [← canon_unMont g.modd hv]
    exact opRetrieve_canon g (ammOneOK_holds g.mlt g.k) (unMont_spec g.modd v).1

/-- `Monty::lincomb_vartime` on stored (canonical) values: the result is the canonical representative of
    `Σ xᵢ·yᵢ mod m` and `retrieve()` returns that sum.  (The trait method forwards to the inherent
    `lincomb_vartime`; that the limb-level routine computes this value is C09's `lincomb_exact`.) -/
theorem trait_lincomb_canonical {st : State} {sp : List Nat} {n m : Nat} (g : Good st.params n m)
    (h : Inv n m st sp) (ps : List (Nat × Nat)) :
    lincombVal st (ps.map fun p => (st.get p.1, st.get p.2)) = canon n m (dotRes m sp ps) ∧
    dotRes m sp ps < m ∧
    opRetrieve st (lincombVal st (ps.map fun p => (st.get p.1, st.get p.2))) = toLimbs n (dotRes m sp ps) := by
  have e := lincombVal_canon g h ps
  refine ⟨e, dotRes_lt g.pos ps, ?_⟩
  rw [e]
  exact opRetrieve_canon g (ammOneOK_holds g.mlt g.k) (dotRes_lt g.pos ps)

/-- `is_zero()` / `Zero::is_zero` (a test on the stored limbs) decides whether the denoted residue is zero, and
    `ct_eq` / `==` (a comparison of stored limbs and, for `MontyForm`, of the parameter fields) decides equality of
    the denoted residues — because stored values are canonical. -/
theorem is_zero_and_ct_eq_decide_residues {st : State} {sp : List Nat} {n m : Nat} (g : Good st.params n m)
    (h : Inv n m st sp) (i j : Nat) :
    (formIsZero (st.get i) = true ↔ sget sp i = 0) ∧
    (formCtEq st (st.get i) (st.get j) = true ↔ sget sp i = sget sp j) := by
  have ⟨a, ha⟩ := get_canon g h i
  have ⟨b, hb⟩ := get_canon g h j
  constructor
  · simp only [formIsZero, decide_eq_true_eq, a]
    exact canon_val_eq_zero_iff g.mlt g.modd ha
  · have key : val (st.get i) = val (st.get j) ↔ sget sp i = sget sp j := by
      rw [a, b]
      exact ⟨canon_inj g.mlt g.modd ha hb, fun e => by rw [e]⟩
    cases hr : st.rep <;> simp only [formCtEq, hr, paramsCtEq_refl, Bool.and_true, decide_eq_true_eq] <;> exact key

/-- `ConstantTimeEq for MontyParams` (which compares `modulus`, `one`, `r2`, `r3`, `mod_neg_inv` but not
    `mod_leading_zeros`) on constructor outputs: equal iff the moduli are equal. -/
theorem params_ct_eq_iff_same_modulus (n m₁ m₂ : Nat) (h₁ : m₁ < B ^ n) (h₂ : m₂ < B ^ n)
    (o₁ : m₁ % 2 = 1) (o₂ : m₂ % 2 = 1) :
    paramsCtEq (paramsNew (toLimbs n m₁)) (paramsNewVartime (toLimbs n m₂)) = true ↔ m₁ = m₂ := by
  rw [(params_eq_spec h₁ o₁).1, (params_eq_spec h₂ o₂).2.1]
  exact paramsCtEq_spec_iff h₁ h₂

/-- `Zeroize`: the stored representative becomes the zero limbs (the canonical form of residue 0, so the value
    stays inside the invariant: `ext_history_step`), and `Zeroize for MontyParams` clears every field. -/
theorem zeroize_clears (st : State) (i : Nat) (hi : i < st.store.length) (p : Params) :
    (stepX st (.zeroize i)).get i = uzero st.n ∧
    val (zeroizeParams p).modulus = 0 ∧ val (zeroizeParams p).one = 0 ∧ val (zeroizeParams p).r2 = 0 ∧
    val (zeroizeParams p).r3 = 0 ∧ (zeroizeParams p).modNegInv = 0 ∧ (zeroizeParams p).modLeadingZeros = 0 := by
  refine ⟨?_, val_uzero _, val_uzero _, val_uzero _, val_uzero _, rfl, rfl⟩
  simp only [stepX, State.put, State.get, List.getD_eq_getElem?_getD]
  rw [List.getElem?_set_self hi]; rfl

/-- non-vacuity of T08.6: the hypotheses hold for the 2-limb modulus 2^64 + 1 and a concrete extended history
    (a written representative, an overwrite, a linear combination, a zeroization, conversions in between). -/
example : ∃ n m, m < B ^ n ∧ m % 2 = 1 ∧ 1 < m ∧
    (∀ op ∈ [XOp.base (.new 5), .fromMont 7, .setMont 0 18446744073709551616, .lincomb [(0, 1), (1, 1)],
             .base .conv, .zeroize 0, .observe 2, .base (.mul 1 2)], wtX n m op) :=
  ⟨2, 18446744073709551617, by decide, by decide, by decide, by
    intro op h
    simp only [List.mem_cons, List.not_mem_nil, or_false] at h
    rcases h with h | h | h | h | h | h | h | h <;> (subst h; simp only [wtX, wt]; try decide)⟩

/-- … and the L0 of that history's written representative is what it should be: `7·R⁻¹ mod m` for `R = 2^128`,
    `m = 2^64 + 1` is `7` (`R ≡ 1`). -/
example : unMont 2 18446744073709551617 7 = 7 := by decide +kernel

/-! ## the modulus-1 defect found by this check (DESIGN §7-14), repaired in /repo by fix commit b15470f

  The old formula (`one = (MAX mod m) + 1`, unreduced) stays machine-checked in `CB/Lemmas/C08Old.lean`
  (`old_one_is_modulus_for_modulus_one`, `old_retrieve_one_modulus_one`); the current behaviour is
  `history_modulus_one` above. -/

/-- the old formula was wrong exactly as recorded: at every width `one` = the modulus (not `< m`), and the one-limb
    boxed `retrieve()` of it returned 1. -/
theorem old_one_formula_wrong_for_modulus_one (n : Nat) (hn : 0 < n) :
    val (oneOfOld (toLimbs n 1)) = 1 ∧ ¬ val (oneOfOld (toLimbs n 1)) < val (toLimbs n 1) ∧
    bRetrieve (oneOfOld [1]) [1] (negInvOf [1]) = [1] :=
  ⟨(old_one_is_modulus_for_modulus_one n hn).2.2.1, (old_one_is_modulus_for_modulus_one n hn).2.2.2,
    old_retrieve_one_modulus_one.1⟩

end CB.P08
