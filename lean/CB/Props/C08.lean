/-
  CB.Props.C08 — Montgomery-form values stay canonical and track ℤ/m over any operation history.
-/
import CB.Model.Monty
import CB.Lemmas.Chains
namespace CB.P08
open CB CB.Monty

/-- DESIGN §7-14 as a theorem about the model: for modulus 1 every constructor yields `one = 1`,
    which is not a canonical representative (`¬ 1 < 1`). -/
theorem one_not_canonical_modulus_one :
    (paramsNew [1]).one = [1] ∧ (paramsNewVartime [1]).one = [1] ∧ (paramsConst [1]).one = [1] ∧
    (paramsBoxed [1]).one = [1] ∧ ¬ val (paramsNew [1]).one < val [1] := by
  decide +kernel

/-- … and the boxed `retrieve()` of that value is 1, not the residue 0, while the fixed-width one is 0. -/
theorem retrieve_one_modulus_one :
    bRetrieve (paramsBoxed [1]).one [1] (paramsBoxed [1]).modNegInv = [1] ∧
    retrieveMont (paramsNew [1]).one [1] (paramsNew [1]).modNegInv = [0] := by
  decide +kernel

end CB.P08
