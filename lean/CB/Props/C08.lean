/-
  CB.Props.C08 — Montgomery-form values stay canonical and track ℤ/m over any operation history.

  Refinements taken from other properties (value-level calls in `CB.Model.Monty`): wide multiplication (C03),
  wide/ordinary remainders (C02), `inv_mod2k(64)` (C10; here the Newton word inverse `inv64`, proved below),
  shifts / leading zeros (C05).
-/
import CB.Lemmas.C08Inv
namespace CB.P08
open CB CB.Monty

/-! ## T08.1 — Montgomery reduction (src/modular/reduction.rs), all limb counts -/

/-- `montgomery_reduction_inner` (lower/upper arrays, `meta_carry`): for `k·m ≡ −1 (mod 2^64)` (so `m` is odd)
    and `T = lower + B^n·upper < m·B^n`, the value `X = upper' + B^n·meta_carry` satisfies
    `X·B^n = T + U·m` for some `U < B^n`, `X < 2m` and `meta_carry ≤ 1`:
    **one** conditional subtraction of `m` suffices. -/
theorem redc_inner_spec (lo hi ms : List Nat) (k : Nat) (hlo : WF lo) (hhi : WF hi) (hms : WF ms)
    (hll : lo.length = ms.length) (hhl : hi.length = ms.length)
    (hk : (k * val ms + 1) % B = 0)
    (hT : val lo + B ^ ms.length * val hi < val ms * B ^ ms.length) :
    ∃ U, U < B ^ ms.length ∧
      (val (redcInner hi lo ms k).1 + B ^ ms.length * (redcInner hi lo ms k).2) * B ^ ms.length
        = val lo + B ^ ms.length * val hi + U * val ms ∧
      val (redcInner hi lo ms k).1 + B ^ ms.length * (redcInner hi lo ms k).2 < 2 * val ms ∧
      WF (redcInner hi lo ms k).1 ∧ (redcInner hi lo ms k).1.length = ms.length ∧
      (redcInner hi lo ms k).2 ≤ 1 :=
  redcInner_spec hlo hhi hms hll hhl hk hT

/-- `montgomery_reduction` (inner loop + final `sub_mod_with_carry`): the result `r` is canonical and
    `r·B^n ≡ T (mod m)`. -/
theorem redc_spec (lo hi ms : List Nat) (k : Nat) (hlo : WF lo) (hhi : WF hi) (hms : WF ms)
    (hll : lo.length = ms.length) (hhl : hi.length = ms.length)
    (hk : (k * val ms + 1) % B = 0)
    (hT : val lo + B ^ ms.length * val hi < val ms * B ^ ms.length) :
    val (montgomeryReduction lo hi ms k) < val ms ∧
    (val (montgomeryReduction lo hi ms k) * B ^ ms.length) % val ms
      = (val lo + B ^ ms.length * val hi) % val ms ∧
    WF (montgomeryReduction lo hi ms k) ∧ (montgomeryReduction lo hi ms k).length = ms.length :=
  montgomeryReduction_spec hlo hhi hms hll hhl hk hT

/-- `k·m ≡ −1 (mod 2^64)` forces `m` odd (the code's `Odd<…>` precondition is implied by `hk`). -/
theorem neg_inv_forces_odd (k m : Nat) (hk : (k * m + 1) % B = 0) : m % 2 = 1 := by
  have h2 : (k * m + 1) % 2 = 0 := by
    have : (k * m + 1) % B % 2 = (k * m + 1) % 2 := Nat.mod_mod_of_dvd _ (by decide)
    rw [hk] at this; omega
  rcases Nat.mod_two_eq_zero_or_one m with h | h
  · exfalso
    have : (k * m) % 2 = 0 := by rw [Nat.mul_mod, h]; simp
    omega
  · exact h

/-- hypotheses of `redc_spec` are satisfiable: 2 limbs, m = 2^64 + 1 (k = 2^64 − 1), T = m·B² − 1. -/
example : ∃ lo hi ms k, WF lo ∧ WF hi ∧ WF ms ∧ lo.length = ms.length ∧ hi.length = ms.length ∧
    (k * val ms + 1) % B = 0 ∧ val lo + B ^ ms.length * val hi < val ms * B ^ ms.length ∧
    val (montgomeryReduction lo hi ms k) = 18446744073709551616 :=
  ⟨[WMAX, WMAX], [0, 1], [1, 1], WMAX, WF_of_all _ (by decide), WF_of_all _ (by decide),
    WF_of_all _ (by decide), rfl, rfl, by decide, by decide, by decide +kernel⟩

/-! ## T08.3 — history invariant: every prefix state is canonical and `retrieve` returns the denotation

  `Good p n m` : the parameter set holds the defined constants for the odd modulus `1 < m < B^n`
                 (established for every constructor by T08.2 below).
  `Inv n m st sp` : `st.store = sp.map (canon n m)` and every residue in `sp` is `< m`, where
                 `canon n m x = toLimbs n (x·B^n mod m)` and `sp` is the same history evaluated in ℤ/m (`stepSpec`).
  `wt n op`     : the integer given to `new` is an `n`-limb value (it is a `Uint<n>` / `BoxedUint` of that precision).
  The state machine covers `new, zero, one, add, sub, neg, double, mul, square, div_by_2`, their assigning and
  multiplier-object forms, `select`, `copy_montgomery_from` and the conversions const → dyn → boxed.
-/

/- FULL STATEMENT (unproved only in its boxed multiplication branch):
   theorem history_step : Good st.params n m → Inv n m st sp → wt n op → Inv n m (step st op) (stepSpec m sp op)
   The proof below is complete for every operation in the compile-time and runtime representations and for
   add/sub/neg/double/div_by_2/select/copy/conversion in the boxed one; the boxed `mul`/`square`/`new` need the
   almost-Montgomery-multiplication facts `H_amm_mul` (T08.4), carried as a named hypothesis. -/
theorem history_step_partial {st : State} {sp : List Nat} {n m : Nat} {op : MontyOp}
    (g : Good st.params n m) (H_amm_mul : AmmMulOK n m st.params.modNegInv)
    (h : Inv n m st sp) (hw : wt n op) :
    Inv n m (step st op) (stepSpec m sp op) ∧ (step st op).params = st.params :=
  ⟨step_inv g H_amm_mul h hw, step_params op⟩

/-- the empty store satisfies the invariant -/
theorem history_init (rep : Rep) (p : Params) (n m : Nat) :
    Inv n m { rep := rep, params := p, store := [] } [] :=
  ⟨rfl, fun _ h => by cases h⟩

/- FULL STATEMENT (unproved part as above): the same without `H_amm_mul`. -/
/-- For every operation list, every prefix state satisfies the invariant. -/
theorem history_invariant_partial {rep : Rep} {p : Params} {n m : Nat} (g : Good p n m)
    (H_amm_mul : AmmMulOK n m p.modNegInv) (ops : List MontyOp) (hw : ∀ op ∈ ops, wt n op) (k : Nat) :
    Inv n m (run { rep := rep, params := p, store := [] } (ops.take k)) (runSpec m [] (ops.take k)) :=
  (run_inv (ops.take k) (st := { rep := rep, params := p, store := [] }) g H_amm_mul
    (history_init rep p n m) (fun op ho => hw op (List.mem_of_mem_take ho))).1

/- FULL STATEMENT (unproved part: `H_amm_mul`, `H_amm_one`): the same without the two hypotheses. -/
/-- Consequently every stored value of every prefix state is canonical (`< m`) and `retrieve()` returns exactly
    the value of the same expression evaluated in ℤ/m. -/
theorem history_canonical_and_retrieve_partial {rep : Rep} {p : Params} {n m : Nat} (g : Good p n m)
    (H_amm_mul : AmmMulOK n m p.modNegInv) (H_amm_one : AmmOneOK n m p.modNegInv)
    (ops : List MontyOp) (hw : ∀ op ∈ ops, wt n op) (k i : Nat) :
    let st := run { rep := rep, params := p, store := [] } (ops.take k)
    let sp := runSpec m [] (ops.take k)
    val (st.get i) < m ∧ st.get i = canon n m (sget sp i) ∧ sget sp i < m ∧
    opRetrieve st (st.get i) = toLimbs n (sget sp i) := by
  intro st sp
  have ⟨hinv, hpar⟩ := run_inv (ops.take k) (st := { rep := rep, params := p, store := [] }) g H_amm_mul
    (history_init rep p n m) (fun op ho => hw op (List.mem_of_mem_take ho))
  have g' : Good st.params n m := by rw [show st.params = p from hpar]; exact g
  have ⟨e, lt⟩ := get_canon g' hinv i
  refine ⟨?_, e, lt, ?_⟩
  · rw [e]; exact canon_lt g.mlt g'.pos _
  · rw [e]
    exact opRetrieve_canon g' (by rw [show st.params = p from hpar]; exact H_amm_one) lt

/-! ## the modulus-1 defect (DESIGN §7-14) as theorems about the model -/

/-- For modulus 1 every constructor yields `one = 1`, which is not a canonical representative (`¬ 1 < 1`). -/
theorem one_not_canonical_modulus_one :
    (paramsNew [1]).one = [1] ∧ (paramsNewVartime [1]).one = [1] ∧ (paramsConst [1]).one = [1] ∧
    (paramsBoxed [1]).one = [1] ∧ ¬ val (paramsNew [1]).one < val [1] := by
  decide +kernel

/-- … and the boxed `retrieve()` of that value is 1, not the residue 0, while the fixed-width one is 0. -/
theorem retrieve_one_modulus_one :
    bRetrieve (paramsBoxed [1]).one [1] (paramsBoxed [1]).modNegInv = [1] ∧
    retrieveMont (paramsNew [1]).one [1] (paramsNew [1]).modNegInv = [0] := by
  decide +kernel

end CB.P08
