/-
  C03 — Multiplication and squaring return the exact product for all widths.
  Property theorems only (helper lemmas live in CB/Lemmas/C03*.lean).  Every theorem quantifies
  over all limb counts (list lengths) and all operand values unless a size is named.
-/
import CB.Lemmas.C03BoxedKara
import CB.Lemmas.C03Int
namespace CB.P03
open CB CB.Mul CB.Karatsuba

/-! ### T03.1 multiply-accumulate -/

/-- T03.1 `mac`: `lo + B·hi = a + b·c + carry`; `hi` is a word (the final `hi.wrapping_add(c)` of
    `primitives::mac` cannot overflow). -/
theorem mac_exact {a b c carry : Nat} (ha : a < B) (hb : b < B) (hc : c < B) (hk : carry < B) :
    (mac a b c carry).1 + B * (mac a b c carry).2 = a + b * c + carry ∧
    (mac a b c carry).1 < B ∧ (mac a b c carry).2 < B := mac_spec ha hb hc hk

/-- a whole mac row over a window of any length is exact and its carry-out is a word -/
theorem mac_row_exact {xi : Nat} (hxi : xi < B) (w ys : List Nat) (c : Nat)
    (hw : WF w) (hy : WF ys) (hc : c < B) (hl : w.length = ys.length) :
    val (macRow xi w ys c).1 + B ^ w.length * (macRow xi w ys c).2 = val w + xi * val ys + c ∧
    (macRow xi w ys c).2 < B :=
  ⟨(macRow_spec hxi w ys c hw hy hc hl).1, (macRow_spec hxi w ys c hw hy hc hl).2.2.1⟩

/-! ### T03.2 / T03.3 schoolbook multiplication and squaring, all lengths -/

/-- T03.2 `schoolbook_multiplication` (on zeroed `lo`/`hi`): every limb of `x·y`, for ALL limb counts
    of `x` and `y`, equal or not, including 0. -/
theorem schoolbook_mul_exact (x y : List Nat) (hx : WF x) (hy : WF y) :
    val (schoolbookMul x y) = val x * val y ∧ WF (schoolbookMul x y) ∧
    (schoolbookMul x y).length = x.length + y.length := schoolbookMul_spec x y hx hy

/-- `uint_mul_limbs`: `lo` (|x| limbs) and `hi` (|y| limbs) are the product's remainder and quotient by `2^BITS` -/
theorem uint_mul_limbs_exact (x y : List Nat) (hx : WF x) (hy : WF y) :
    ExactPair (uintMulLimbs x y) x.length y.length (val x * val y) := by
  have ⟨h1, h2, h3⟩ := schoolbookMul_spec x y hx hy
  exact exactPair_of_list h2 h3 h1

theorem uint_mul_limbs_lo_hi (x y : List Nat) (hx : WF x) (hy : WF y) :
    val (uintMulLimbs x y).1 = (val x * val y) % B ^ x.length ∧
    val (uintMulLimbs x y).2 = (val x * val y) / B ^ x.length ∧
    (uintMulLimbs x y).1.length = x.length ∧ (uintMulLimbs x y).2.length = y.length :=
  let h := uint_mul_limbs_exact x y hx hy
  ⟨h.lo_eq, h.hi_eq, h.2.2.1, h.2.2.2.1⟩

/-- T03.3 `schoolbook_squaring` (half grid, doubling, diagonal): every limb of `x²`, all limb counts;
    includes "the final carry of the diagonal loop, which the code drops, is 0". -/
theorem schoolbook_square_exact (x : List Nat) (hx : WF x) :
    val (schoolbookSquare x) = val x * val x ∧ WF (schoolbookSquare x) ∧
    (schoolbookSquare x).length = 2 * x.length := schoolbookSquare_spec x hx

theorem uint_square_limbs_exact (x : List Nat) (hx : WF x) :
    ExactPair (uintSquareLimbs x) x.length x.length (val x * val x) := by
  have ⟨h1, h2, h3⟩ := schoolbookSquare_spec x hx
  exact exactPair_of_list h2 (by rw [h3]; omega) h1

/-- squaring IS multiplying by itself — limb for limb, not only in value -/
theorem schoolbook_square_eq_mul_self (x : List Nat) (hx : WF x) :
    schoolbookSquare x = schoolbookMul x x := by
  have ⟨a1, a2, a3⟩ := schoolbookSquare_spec x hx
  have ⟨b1, b2, b3⟩ := schoolbookMul_spec x x hx hx
  exact val_inj a2 b2 (by rw [a3, b3]; omega) (by rw [a1, b1])

/-! ### T03.8 API shapes, for ANY `(lo, hi)` pair holding an exact product `P` in `n + m` limbs
    (instantiated below by every multiplication routine) -/

/-- widening / `concat` forms return every limb of the product -/
theorem widening_shape {p : List Nat × List Nat} {n m P : Nat} (h : ExactPair p n m P) :
    val (concatPair p) = P ∧ (concatPair p).length = n + m := ⟨h.concat.1, h.concat.2.2⟩

/-- split forms: `lo = P mod 2^BITS`, `hi = P div 2^BITS` -/
theorem split_shape {p : List Nat × List Nat} {n m P : Nat} (h : ExactPair p n m P) :
    val p.1 = P % B ^ n ∧ val p.2 = P / B ^ n := ⟨h.lo_eq, h.hi_eq⟩

/-- wrapping forms return `P mod 2^BITS` -/
theorem wrapping_shape {p : List Nat × List Nat} {n m P : Nat} (h : ExactPair p n m P) :
    val (wrappingOfPair p) = P % B ^ n := h.wrapping

/-- checked forms are `some` exactly when `P` fits, and then hold `P`
    (the panicking operators `expect` this option: they panic exactly on overflow) -/
theorem checked_shape {p : List Nat × List Nat} {n m P : Nat} (h : ExactPair p n m P) :
    (checkedOfPair p).2 = mask (decide (P < B ^ n)) ∧ (P < B ^ n → val (checkedOfPair p).1 = P) :=
  h.checked

theorem checked_square_shape {p : List Nat × List Nat} {n m P : Nat} (h : ExactPair p n m P) :
    (checkedSquareOfPair p).2 = mask (decide (P < B ^ n)) ∧
    (P < B ^ n → val (checkedSquareOfPair p).1 = P) := h.checkedSquare

/-- saturating forms return `MAX` exactly on overflow, else `P` -/
theorem saturating_shape {p : List Nat × List Nat} {n m P : Nat} (h : ExactPair p n m P) :
    val (saturatingOfPair p) = min P (B ^ n - 1) := h.saturating

/-! ### `Limb` multiplications -/

theorem limb_mul_wide_exact (a b : Nat) :
    (mulWide a b).1 + B * (mulWide a b).2 = a * b ∧ (mulWide a b).1 < B :=
  ⟨Nat.mod_add_div _ _, Nat.mod_lt _ B_pos⟩

theorem limb_wrapping_mul_spec (a b : Nat) : limbWrappingMul a b = (a * b) % B := rfl

theorem limb_saturating_mul_spec (a b : Nat) : limbSaturatingMul a b = min (a * b) (B - 1) := by
  unfold limbSaturatingMul
  split
  · omega
  · simp only [WMAX_def, B_def] at *; omega

theorem limb_checked_mul_spec {a b : Nat} (ha : a < B) (hb : b < B) :
    (limbCheckedMul a b).2 = mask (decide (a * b < B)) ∧
    (a * b < B → (limbCheckedMul a b).1 = a * b) := by
  have hhi : (a * b) / B < B := by
    have : a * b < B * B := Nat.mul_lt_mul'' ha hb
    exact Nat.div_lt_of_lt_mul this
  refine ⟨?_, fun h => Nat.mod_eq_of_lt h⟩
  show fromWordEq ((a * b) / B) 0 = _
  rw [fromWordEq_spec hhi (by decide)]
  congr 1
  simp only [Nat.div_eq_zero_iff_lt B_pos]

/-! ### T03.4 / T03.5 fixed-size Karatsuba -/

/-- T03.4 the eight `adc` calls of the fixed Karatsuba step: the recombined `4h` limbs plus the final
    carry equal the exact sum of their inputs, and no `carry.wrapping_add(carry2)` wraps (the proof
    bounds every carry by 9 — `addChain` is the model's step with the `wadd`s as written). -/
theorem kara_step_carries_exact {h : Nat} {r0 r1 r2 r3 z0l z0h z2l z2h : List Nat} {carry : Nat}
    (hr0 : WF r0) (hr1 : WF r1) (hr2 : WF r2) (hr3 : WF r3)
    (hz0l : WF z0l) (hz0h : WF z0h) (hz2l : WF z2l) (hz2h : WF z2h)
    (lr0 : r0.length = h) (lr1 : r1.length = h) (lr2 : r2.length = h) (lr3 : r3.length = h)
    (lz0l : z0l.length = h) (lz0h : z0h.length = h) (lz2l : z2l.length = h) (lz2h : z2h.length = h)
    (hc : carry ≤ 1) :
    val (addChain r0 r1 r2 r3 z0l z0h z2l z2h carry).1.1
        + B ^ (2 * h) * val (addChain r0 r1 r2 r3 z0l z0h z2l z2h carry).1.2
        + B ^ (4 * h) * (addChain r0 r1 r2 r3 z0l z0h z2l z2h carry).2 =
      (val r0 + B ^ h * val r1 + B ^ (2 * h) * val r2 + B ^ (3 * h) * val r3) + carry
        + (1 + B ^ h) * (val z0l + B ^ h * val z0h) + (B ^ h + B ^ (2 * h)) * (val z2l + B ^ h * val z2h) :=
  (addChain_spec hr0 hr1 hr2 hr3 hz0l hz0h hz2l hz2h lr0 lr1 lr2 lr3 lz0l lz0h lz2l lz2h hc).1

/-- T03.4 one fixed Karatsuba level (`|x0-x1|·|y1-y0|`, sign mask, ones'-complement of the middle term,
    the eight `adc` calls) is exact for EVERY half size `h`, given a half multiplier exact on `h` limbs.
    Inside: the wrapping carry additions never wrap, and the discarded final carry is exactly the sign
    bit `z1_neg` (0 when the middle term is added; 1 when its complement is added, where it cancels
    the `2^(4h·64)` of the complement). -/
theorem kara_mul_step_exact (h : Nat) (f : List Nat → List Nat → List Nat × List Nat)
    (hf : ExactMul h f) (x y : List Nat) (hx : WF x) (hy : WF y)
    (hlx : x.length = 2 * h) (hly : y.length = 2 * h) :
    ExactPair (karaMulStep h f x y) (2 * h) (2 * h) (val x * val y) :=
  karaMulStep_spec h f hf x y hx hy hlx hly

/-- the schoolbook base of the chain is exact at every size -/
theorem kara_base_exact (h : Nat) : ExactMul h uintMulLimbs := uintMulLimbs_exactMul h

/-- T03.5 `UintKaratsubaMul::<n>::multiply` as generated by the macro chain read from the source
    (`128, 64, 32, 16, 8`: every size twice the next — checked here on the extracted numbers) is exact
    at every size `n`, by iterating T03.4 from the schoolbook base. -/
theorem kara_mul_chain_exact (n : Nat) : ExactMul n (karaMulChain (chainFrom n karaMulSizes)) :=
  karaMulChain_from_exact karaMulSizes_halving n

/-- T03.5 `Uint::split_mul` — schoolbook or Karatsuba as the size tests of the source dispatch — returns
    `(lo, hi)` of the exact product for ALL limb counts of both operands (so in particular at the
    dispatch widths 16, 32, 64, 128 and at every mixed width). -/
theorem split_mul_exact (x y : List Nat) (hx : WF x) (hy : WF y) :
    ExactPair (splitMul x y) x.length y.length (val x * val y) := by
  unfold splitMul
  split
  · rename_i hc
    have := kara_mul_chain_exact x.length x y hx hy rfl hc.1.symm
    rwa [← hc.1]
  · exact uint_mul_limbs_exact x y hx hy

/-- the dispatch widths named by the property are routed to the Karatsuba chain (not vacuous) -/
theorem split_mul_dispatch_widths : splitMulDispatchSizes = [128, 64, 32, 16] ∧
    karaMulSizes = [128, 64, 32, 16, 8] := by decide

/-- T03.8 for the real entry points: all multiplication forms of `Uint` (`split_mul`,
    `widening_mul`, `wrapping_mul`, `checked_mul`, the panicking operators, `saturating_mul`) -/
theorem uint_mul_forms (x y : List Nat) (hx : WF x) (hy : WF y) :
    val (concatPair (splitMul x y)) = val x * val y ∧
    val (wrappingOfPair (splitMul x y)) = (val x * val y) % B ^ x.length ∧
    (checkedOfPair (splitMul x y)).2 = mask (decide (val x * val y < B ^ x.length)) ∧
    (val x * val y < B ^ x.length → val (checkedOfPair (splitMul x y)).1 = val x * val y) ∧
    val (saturatingOfPair (splitMul x y)) = min (val x * val y) (B ^ x.length - 1) :=
  let h := split_mul_exact x y hx hy
  ⟨h.concat.1, h.wrapping, h.checked.1, h.checked.2, h.saturating⟩

/-! ### T03.6 fixed-size Karatsuba squaring -/

/-- a squaring routine exact on `h`-limb inputs gives, through one `reduce` level of
    `UintKaratsubaMul::square`, the exact square of every `2h`-limb input: the carry dropped by
    `(res.3, _) = z2.1.adc(&ZERO, carry + carry2)` and the final borrow dropped by the last `sbb` are 0,
    and `carry.wrapping_add(carry2)` does not wrap. -/
theorem kara_sq_step_exact (h : Nat) (f : List Nat → List Nat × List Nat) (hf : ExactSq h f)
    (x : List Nat) (hx : WF x) (hlx : x.length = 2 * h) :
    ExactPair (karaSqStep h f x) (2 * h) (2 * h) (val x * val x) := karaSqStep_spec h f hf x hx hlx

/-- the dropped carry and borrow of the squaring recombination are 0 -/
theorem kara_sq_step_dropped_zero {h : Nat} {z0 z2 z1 : List Nat × List Nat} {P0 P2 P1 Q : Nat}
    (hz0 : ExactPair z0 h h P0) (hz2 : ExactPair z2 h h P2) (hz1 : ExactPair z1 h h P1)
    (hfit : (1 + B ^ h) * (P0 + B ^ h * P2) < B ^ h * B ^ h * B ^ h * B ^ h)
    (hid : (1 + B ^ h) * (P0 + B ^ h * P2) = Q + B ^ h * P1) :
    (sqChain h z0 z2 z1).2.1 = 0 ∧ (sqChain h z0 z2 z1).2.2 / HALF = 0 :=
  (sqChain_spec hz0 hz2 hz1 hfit hid).2

/-- T03.6 `UintKaratsubaMul::<n>::square` from the extracted chain `128, 64, 32` is exact at every size -/
theorem kara_sq_chain_exact (n : Nat) : ExactSq n (karaSqChain (chainFrom n karaSqSizes)) :=
  karaSqChain_from_exact karaSqSizes_halving n

/-- T03.6 `Uint::square_wide` (schoolbook, or Karatsuba at the widths the source tests for) is the exact
    square for ALL limb counts. -/
theorem square_wide_exact (x : List Nat) (hx : WF x) :
    ExactPair (squareWide x) x.length x.length (val x * val x) := by
  unfold squareWide
  split
  · exact kara_sq_chain_exact x.length x hx rfl
  · exact uint_square_limbs_exact x hx

theorem square_wide_dispatch_widths : squareWideDispatchSizes = [128, 64] ∧ karaSqSizes = [128, 64, 32] := by
  decide

/-- squaring always equals multiplying the value by itself: `square_wide x = split_mul x x`, limb for
    limb, at every width (whatever algorithms the two dispatches pick) -/
theorem square_wide_eq_split_mul_self (x : List Nat) (hx : WF x) : squareWide x = splitMul x x := by
  have a := square_wide_exact x hx
  have b := split_mul_exact x x hx hx
  have e1 : (squareWide x).1 = (splitMul x x).1 :=
    val_inj a.1 b.1 (by rw [a.2.2.1, b.2.2.1]) (by rw [a.lo_eq, b.lo_eq])
  have e2 : (squareWide x).2 = (splitMul x x).2 :=
    val_inj a.2.1 b.2.1 (by rw [a.2.2.2.1, b.2.2.2.1]) (by rw [a.hi_eq, b.hi_eq])
  exact Prod.ext e1 e2

/-- T03.8 all squaring forms of `Uint` -/
theorem uint_square_forms (x : List Nat) (hx : WF x) :
    val (concatPair (squareWide x)) = val x * val x ∧
    val (wrappingOfPair (squareWide x)) = (val x * val x) % B ^ x.length ∧
    (checkedSquareOfPair (squareWide x)).2 = mask (decide (val x * val x < B ^ x.length)) ∧
    (val x * val x < B ^ x.length → val (checkedSquareOfPair (squareWide x)).1 = val x * val x) ∧
    val (saturatingOfPair (squareWide x)) = min (val x * val x) (B ^ x.length - 1) :=
  let h := square_wide_exact x hx
  ⟨h.concat.1, h.wrapping, h.checkedSquare.1, h.checkedSquare.2, h.saturating⟩

/-! ### T03.7 boxed multiplication (`BoxedUint`), after fix commit a99029b in `adc_mul_limbs` -/

/-- `adc_mul_limbs(lhs, rhs, out)` adds the schoolbook product to ANY accumulator exactly, for all
    lengths: `out' + B^|out|·carry = out + lhs·rhs`, carry ≤ 1.  (Before the fix this was false:
    `carry.wrapping_add(carry2)` could wrap — former finding C03-boxed-mul-trailing-carry.) -/
theorem adc_mul_limbs_exact (x y out : List Nat) (hx : WF x) (hy : WF y) (ho : WF out)
    (hl : out.length = x.length + y.length) :
    val (adcMulLimbs x y out).1 + B ^ out.length * (adcMulLimbs x y out).2 = val out + val x * val y ∧
    WF (adcMulLimbs x y out).1 ∧ (adcMulLimbs x y out).1.length = out.length ∧
    (adcMulLimbs x y out).2 ≤ 1 := adcMulLimbs_spec x y out hx hy ho hl

/-- `out.fill(ZERO); adc_mul_limbs(lhs, rhs, out)` — the fallback of `karatsuba_mul_limbs` — is the
    exact product and returns carry 0 -/
theorem adc_mul_limbs_zero_exact (x y : List Nat) (hx : WF x) (hy : WF y) :
    val (adcMulLimbs x y (uzero (x.length + y.length))).1 = val x * val y ∧
    (adcMulLimbs x y (uzero (x.length + y.length))).2 = 0 :=
  ⟨(adcMulLimbs_zero x y hx hy).1, (adcMulLimbs_zero x y hx hy).2.2.2⟩

/-- `BoxedUint::mul` below the Karatsuba threshold (some operand shorter than
    `KARATSUBA_MIN_STARTING_LIMBS`) is the exact product, all lengths incl. unequal and 0 -/
theorem boxed_mul_small_exact (x y : List Nat) (hx : WF x) (hy : WF y)
    (hs : min x.length y.length < Extracted.karatsubaMinStartingLimbs) :
    val (boxedMul x y) = val x * val y ∧ WF (boxedMul x y) ∧
    (boxedMul x y).length = x.length + y.length := by
  unfold boxedMul
  rw [if_neg (by omega)]
  exact schoolbookMul_spec x y hx hy

/-- T03.7 (full) `karatsuba_mul_limbs` is the exact product for ALL lengths of both operands (equal,
    unequal, odd, trailing `xt` / `yt` passes) and every fuel, by induction over the recursion:
    `|x0-x1|`, `|y1-y0|`, the conditionally negated middle product in the zeroed buffer, the six addition
    loops (`carry`/`carry2`, no `wrapping_add` wraps, dropped final carry), both trailing passes with
    their dropped / propagated carries (shown 0 because the product fits the buffer). -/
theorem kara_mul_limbs_exact (fuel : Nat) (x y : List Nat) (hx : WF x) (hy : WF y) :
    val (karaMulLimbs fuel x y) = val x * val y ∧ WF (karaMulLimbs fuel x y) ∧
    (karaMulLimbs fuel x y).length = x.length + y.length := karaMulLimbs_spec fuel x y hx hy

/-- T03.7 (full) `BoxedUint::mul` (and the by-value operators, `*=`, `WideningMul`) returns every limb
    of the exact product for ALL limb counts of both operands. -/
theorem boxed_mul_exact (x y : List Nat) (hx : WF x) (hy : WF y) :
    val (boxedMul x y) = val x * val y ∧ WF (boxedMul x y) ∧
    (boxedMul x y).length = x.length + y.length := by
  unfold boxedMul
  split
  · exact karaMulLimbs_spec _ x y hx hy
  · exact schoolbookMul_spec x y hx hy

/-- boxed API shapes: `wrapping_mul` = product mod `2^BITS(self)`; `checked_mul` is `some` exactly when
    the product fits `self`'s precision (the `&a * &b` operator panics otherwise) -/
theorem boxed_forms (x y : List Nat) (hx : WF x) (hy : WF y) :
    val (boxedWrappingMul x y) = (val x * val y) % B ^ x.length ∧
    (boxedWrappingMul x y).length = x.length ∧
    (boxedCheckedMul x y).2 = mask (decide (val x * val y < B ^ x.length)) ∧
    (val x * val y < B ^ x.length → val (boxedCheckedMul x y).1 = val x * val y) := by
  obtain ⟨h1, h2, h3⟩ := boxed_mul_exact x y hx hy
  have hp := exactPair_of_list (n := x.length) (m := y.length) h2 h3 h1
  refine ⟨hp.lo_eq, hp.2.2.1, ?_, fun hlt => ?_⟩
  · show allZeroMask ((boxedMul x y).drop x.length) = _
    rw [allZeroMask_spec hp.2.1]; congr 1
    simp only [hp.hi_zero_iff]
  · show val ((boxedMul x y).take x.length) = _
    rw [hp.lo_eq, Nat.mod_eq_of_lt hlt]

/-- T03.7 (squaring, full) `karatsuba_square_limbs` is the exact square for ALL lengths and every fuel, by
    induction over the recursion: `|x0 - x1|`, the complemented middle square, the six addition loops with
    `carry`/`carry2` (no `wrapping_add` wraps), the dropped final carry. -/
theorem kara_square_limbs_exact (fuel : Nat) (x : List Nat) (hx : WF x) :
    val (karaSquareLimbs fuel x) = val x * val x ∧ WF (karaSquareLimbs fuel x) ∧
    (karaSquareLimbs fuel x).length = 2 * x.length := karaSquareLimbs_spec fuel x hx

/-- T03.7 (squaring, full) `BoxedUint::square` is the exact square for ALL limb counts -/
theorem boxed_square_exact (x : List Nat) (hx : WF x) :
    val (boxedSquare x) = val x * val x ∧ WF (boxedSquare x) ∧ (boxedSquare x).length = 2 * x.length := by
  unfold boxedSquare
  split
  · exact karaSquareLimbs_spec _ x hx
  · exact schoolbookSquare_spec x hx

/-- boxed squaring IS boxed multiplication by itself, limb for limb, at every length -/
theorem boxed_square_eq_mul_self (x : List Nat) (hx : WF x) : boxedSquare x = boxedMul x x := by
  have ⟨a1, a2, a3⟩ := boxed_square_exact x hx
  have ⟨b1, b2, b3⟩ := boxed_mul_exact x x hx hx
  exact val_inj a2 b2 (by rw [a3, b3]; omega) (by rw [a1, b1])

/-! ### `Int` products (sign–magnitude, `src/int/mul.rs`) -/

/-- `Int::split_mul`: `(lo, hi)` is the exact product of the magnitudes `|a|·|b| = |a·b|` and `negate`
    is set exactly when the operands' signs differ (as documented, also when the magnitude is zero).
    The unsigned product inside is `split_mul_exact` (this property).
    Not proved here: `Int::widening_mul` / `CheckedMul for Int` re-signing (`wrapping_neg_if`,
    `new_from_abs_sign`) — exercised by the correspondence run against the `Int` oracle. -/
theorem int_split_mul_exact (a b : List Nat) (ha : WF a) (hb : WF b) (hna : a ≠ []) (hnb : b ≠ []) :
    ExactPair ((intSplitMul splitMul a b).1, (intSplitMul splitMul a b).2.1) a.length b.length
      (absVal a * absVal b) ∧
    (intSplitMul splitMul a b).2.2 = mask (isNeg a != isNeg b) ∧
    (toInt a * toInt b).natAbs = absVal a * absVal b := by
  have ⟨sa, wa, la, va⟩ := intAbsSign_spec a ha hna
  have ⟨sb, wb, lb, vb⟩ := intAbsSign_spec b hb hnb
  have h := split_mul_exact _ _ wa wb
  rw [la, lb, va, vb] at h
  refine ⟨h, ?_, ?_⟩
  · show (intAbsSign a).2 ^^^ (intAbsSign b).2 = _
    rw [sa, sb, mask_xor]
  · rw [Int.natAbs_mul, toInt_natAbs a ha, toInt_natAbs b hb]

/-! ### non-vacuity -/

example : val (schoolbookMul [WMAX, WMAX, 5] [WMAX, 7]) = val [WMAX, WMAX, 5] * val [WMAX, 7] :=
  (schoolbook_mul_exact _ _ (wf_of_all _ (by decide)) (wf_of_all _ (by decide))).1
example : schoolbookSquare [WMAX, 3, WMAX] = schoolbookMul [WMAX, 3, WMAX] [WMAX, 3, WMAX] :=
  schoolbook_square_eq_mul_self _ (wf_of_all _ (by decide))
example : ExactPair (uintMulLimbs [WMAX, 1] [2]) 2 1 (val [WMAX, 1] * val [2]) :=
  uint_mul_limbs_exact _ _ (wf_of_all _ (by decide)) (wf_of_all _ (by decide))

end CB.P03
