/-
  C10 — theorems about the SOURCE of the word-level core of safegcd (`iterations`, `inv_mod2_62`, `jump` of
  src/modular/safegcd.rs, 64-bit configuration), regenerated from /repo on every run by tools/translate.py
  (CB/Gen/SafeGcd.lean).  Kept in a module of its own (nothing imports it) so that a change in one of these Rust
  functions breaks exactly this property's obligations and no other module's build.
  Audited together with CB/Props/C10.lean by tools/runner.py.
-/
import CB.Props.C10
import CB.Lemmas.GenBitsSafeGcd
import CB.Lemmas.GenSafeGcdJump
import CB.Lemmas.GenSafeGcdLimbs
import CB.Lemmas.GenSafeGcdDivsteps
import CB.Lemmas.GenBitsSafeGcdConv
import CB.Lemmas.GenSafeGcdInverter
namespace CB.P10G
open CB CB.SafeGcd

/-! ## T10.G — the SOURCE of `iterations`, `inv_mod2_62`, `jump`

`Gen.SafeGcd.jump f g delta` is the Lean translation of what src/modular/safegcd.rs says NOW: the slices are the lists of
their words, `i64` / `i128` values are `BitVec 64` / `BitVec 128` patterns with the wrapping release semantics of
`+ - * <<`, the arithmetic `>>`, signed comparisons; `Matrix = [[i64; 2]; 2]` is a pair of pairs; the
`loop { .. if steps == 0 { break; } .. }` is the fuel-recursive `Gen.SafeGcd.jump_loop1` called with fuel 64. -/

/-- `iterations` of the source: `(49·max(f,g) + (80 if max < 46 else 57)) / 17` in `u32` arithmetic on ALL inputs, and the
    model's `iterations` (hence T10's trip-count formula `iterations_formula`) on the exact range where the `u32`
    arithmetic does not wrap, `max(f, g) ≤ 87652392` (the first wrapping input, 87652393, is exhibited) -/
theorem src_iterations_exact (f g : BitVec 32) :
    Gen.SafeGcd.iterations f g =
      ((49#32 * (if f < g then g else f) + (if (if f < g then g else f) < 46#32 then 80#32 else 57#32)) / 17#32).setWidth 64 ∧
    (f.toNat ≤ 87652392 → g.toNat ≤ 87652392 →
      (Gen.SafeGcd.iterations f g).toNat = iterations f.toNat g.toNat ∧
      (Gen.SafeGcd.iterations f g).toNat =
        (49 * max f.toNat g.toNat + (if max f.toNat g.toNat < 46 then 80 else 57)) / 17) ∧
    (Gen.SafeGcd.iterations (BitVec.ofNat 32 87652393) 0#32).toNat ≠ iterations 87652393 0 := by
  refine ⟨GenBits.iterations_meaning f g, fun hf hg => ?_, GenBits.iterations_wraps_beyond⟩
  have h := GenBits.iterations_bridge f g hf hg
  exact ⟨h, by rw [h]; exact P10.iterations_formula _ _⟩

/-- `inv_mod2_62` of the source is the model's `invMod2_62` on every slice of words; for an odd lowest word the result
    (an `i64`) lies in `[0, 2^62)` and inverts that word modulo `2^62` -/
theorem src_inv_mod2_62_exact (value : List (BitVec 64)) :
    (Gen.SafeGcd.inv_mod2_62 value).toInt = invMod2_62 (value.map BitVec.toNat) ∧
    (∀ v rest, value = v :: rest → v.toNat % 2 = 1 →
      0 ≤ (Gen.SafeGcd.inv_mod2_62 value).toInt ∧ (Gen.SafeGcd.inv_mod2_62 value).toInt < 2 ^ 62 ∧
      ((Gen.SafeGcd.inv_mod2_62 value).toInt * (v.toNat : Int)) % 2 ^ 62 = 1) := by
  refine ⟨GenBits.inv_mod2_62_bridge value, ?_⟩
  intro v rest hv hodd
  rw [GenBits.inv_mod2_62_bridge value, hv]
  exact invMod2_62_spec v.toNat (rest.map BitVec.toNat) hodd

/-- `jump` of the source returns the model's `(delta, matrix)`: under the callers' guarantees — low words `< 2^62` (62-bit
    limbs), `f` odd or `delta > 0`, `|delta| ≤ 2^62` — every component of the translated result, read as a signed integer,
    IS the corresponding component of `CB.SafeGcd.jump` on the same words; no `i64` / `i128` operation of the source wraps
    on the way (the bridge is a ring-homomorphic image with bounds at `trailing_zeros`, `>>`, `min`, `delta > 0`, `as i128`). -/
theorem src_jump_exact (f g : List (BitVec 64)) (delta : BitVec 64)
    (hfl : (f.getD 0 0#64).toNat < 2 ^ 62) (hgl : (g.getD 0 0#64).toNat < 2 ^ 62)
    (hpre : (f.getD 0 0#64).toNat % 2 = 1 ∨ 0 < delta.toInt)
    (hd1 : -(2 ^ 62) ≤ delta.toInt) (hd2 : delta.toInt ≤ 2 ^ 62) :
    (Gen.SafeGcd.jump f g delta).1.toInt = (jump (f.map BitVec.toNat) (g.map BitVec.toNat) delta.toInt).1 ∧
    (Gen.SafeGcd.jump f g delta).2.1.1.toInt = (jump (f.map BitVec.toNat) (g.map BitVec.toNat) delta.toInt).2.t00 ∧
    (Gen.SafeGcd.jump f g delta).2.1.2.toInt = (jump (f.map BitVec.toNat) (g.map BitVec.toNat) delta.toInt).2.t01 ∧
    (Gen.SafeGcd.jump f g delta).2.2.1.toInt = (jump (f.map BitVec.toNat) (g.map BitVec.toNat) delta.toInt).2.t10 ∧
    (Gen.SafeGcd.jump f g delta).2.2.2.toInt = (jump (f.map BitVec.toNat) (g.map BitVec.toNat) delta.toInt).2.t11 :=
  GenSafeGcd.jump_bridge_toInt f g delta hfl hgl hpre hd1 hd2

/-- hence the matrix the SOURCE returns is the matrix of 62 divsteps on the low words (`jump_matrix` of T10.4 restated for
    the translated function): `T·(fl, gl) = 2^62·(f', g')`, `det T = 2^62`, both rows of absolute sum `≤ 2^62` -/
theorem src_jump_matrix (f g : List (BitVec 64)) (delta : BitVec 64)
    (hfl : (f.getD 0 0#64).toNat < 2 ^ 62) (hgl : (g.getD 0 0#64).toNat < 2 ^ 62)
    (hpre : (f.getD 0 0#64).toNat % 2 = 1 ∨ 0 < delta.toInt)
    (hd1 : -(2 ^ 62) ≤ delta.toInt) (hd2 : delta.toInt ≤ 2 ^ 62) :
    ∃ f' g' : Int,
      (Gen.SafeGcd.jump f g delta).2.1.1.toInt * ((f.getD 0 0#64).toNat : Int) +
        (Gen.SafeGcd.jump f g delta).2.1.2.toInt * ((g.getD 0 0#64).toNat : Int) = 2 ^ 62 * f' ∧
      (Gen.SafeGcd.jump f g delta).2.2.1.toInt * ((f.getD 0 0#64).toNat : Int) +
        (Gen.SafeGcd.jump f g delta).2.2.2.toInt * ((g.getD 0 0#64).toNat : Int) = 2 ^ 62 * g' ∧
      |(Gen.SafeGcd.jump f g delta).2.1.1.toInt| + |(Gen.SafeGcd.jump f g delta).2.1.2.toInt| ≤ 2 ^ 62 ∧
      |(Gen.SafeGcd.jump f g delta).2.2.1.toInt| + |(Gen.SafeGcd.jump f g delta).2.2.2.toInt| ≤ 2 ^ 62 ∧
      (Gen.SafeGcd.jump f g delta).2.1.1.toInt * (Gen.SafeGcd.jump f g delta).2.2.2.toInt -
        (Gen.SafeGcd.jump f g delta).2.1.2.toInt * (Gen.SafeGcd.jump f g delta).2.2.1.toInt = 2 ^ 62 := by
  obtain ⟨_, e00, e01, e10, e11⟩ := src_jump_exact f g delta hfl hgl hpre hd1 hd2
  have hhf : (f.map BitVec.toNat).headD 0 = (f.getD 0 0#64).toNat := by cases f <;> simp
  have hhg : (g.map BitVec.toNat).headD 0 = (g.getD 0 0#64).toNat := by cases g <;> simp
  obtain ⟨f', g', h0, h1, b0, b1, hdet, _⟩ := P10.jump_matrix (f.map BitVec.toNat) (g.map BitVec.toNat) delta.toInt
    (by rw [hhf]; exact hfl) (by rw [hhg]; exact hgl) (by rw [hhf]; exact hpre)
  rw [hhf, hhg] at h0 h1
  rw [e00, e01, e10, e11]
  exact ⟨f', g', h0, h1, b0, b1, hdet⟩

/-- the fuel 64 of the translated `loop` suffices: the `break` is reached within it (`steps == 0` at the end) and every
    larger fuel returns the same state -/
theorem src_jump_fuel_suffices (fw gw delta : BitVec 64) (hfl : fw.toNat < 2 ^ 62) (hgl : gw.toNat < 2 ^ 62)
    (hpre : fw.toNat % 2 = 1 ∨ 0 < delta.toInt) (hd1 : -(2 ^ 62) ≤ delta.toInt) (hd2 : delta.toInt ≤ 2 ^ 62) (k : Nat) :
    Gen.SafeGcd.jump_loop1 (64 + k) fw (gw.setWidth 128) delta 62#64 ((1#64, 0#64), (0#64, 1#64)) =
      Gen.SafeGcd.jump_loop1 64 fw (gw.setWidth 128) delta 62#64 ((1#64, 0#64), (0#64, 1#64)) ∧
    (Gen.SafeGcd.jump_loop1 64 fw (gw.setWidth 128) delta 62#64 ((1#64, 0#64), (0#64, 1#64))).2.2.2.1 = 0#64 :=
  GenSafeGcd.jump_fuel_suffices fw gw delta hfl hgl hpre hd1 hd2 k

/-- the hand-written models of the word-level core of safegcd (what T10.4 is proved about) ARE the translated source:
    `iterations` (no-wrap range), `inv_mod2_62` (all slices), `jump` (callers' bounds; patterns of the model's result) -/
theorem safegcd_words_are_translated_source :
    (∀ f g : BitVec 32, f.toNat ≤ 87652392 → g.toNat ≤ 87652392 →
      (Gen.SafeGcd.iterations f g).toNat = iterations f.toNat g.toNat) ∧
    (∀ value : List (BitVec 64), (Gen.SafeGcd.inv_mod2_62 value).toInt = invMod2_62 (value.map BitVec.toNat)) ∧
    (∀ (f g : List (BitVec 64)) (delta : BitVec 64), (f.getD 0 0#64).toNat < 2 ^ 62 → (g.getD 0 0#64).toNat < 2 ^ 62 →
      ((f.getD 0 0#64).toNat % 2 = 1 ∨ 0 < delta.toInt) → -(2 ^ 62) ≤ delta.toInt → delta.toInt ≤ 2 ^ 62 →
      Gen.SafeGcd.jump f g delta =
        (BitVec.ofInt 64 (jump (f.map BitVec.toNat) (g.map BitVec.toNat) delta.toInt).1,
          GenSafeGcd.bmat (jump (f.map BitVec.toNat) (g.map BitVec.toNat) delta.toInt).2)) :=
  ⟨fun f g hf hg => GenBits.iterations_bridge f g hf hg, GenBits.inv_mod2_62_bridge,
    fun f g delta h1 h2 h3 h4 h5 => (GenSafeGcd.jump_bridge f g delta h1 h2 h3 h4 h5).1⟩

/-- non-vacuity: the translated source on f = 7, g = 12, δ = 1 (the example of T10.4), and `iterations(256, 256)` -/
example : (Gen.SafeGcd.jump [7#64] [12#64] 1#64).2.1.1.toInt * 7 + (Gen.SafeGcd.jump [7#64] [12#64] 1#64).2.1.2.toInt * 12
      = 2 ^ 62 * 1 ∧ (Gen.SafeGcd.iterations 256#32 256#32).toNat = 741 := by
  decide +kernel

/-! ## T10.G (limbs) — the SOURCE of `impl UnsatInt<LIMBS>` and of `fg`, `de`

`Gen.SafeGcdLimbs.UnsatInt.{add, mul, neg, shr, eq, is_negative, lowest, select}` and `Gen.SafeGcdLimbs.{fg, de}` are the
Lean translations of what src/modular/safegcd.rs says NOW (CB/Gen/SafeGcdLimbs.lean): an `UnsatInt<LIMBS>` is the list of
its 62-bit words (`List (BitVec 64)`, `LIMBS` an explicit argument), each `while i < LIMBS` loop a fuel-recursive
`*_loop1`, `u64` / `i64` / `u128` arithmetic the wrapping `BitVec` operations.  `nats` reads the words as the model's
`Nat`s, `WFw` is the model's representation invariant (`WF62`: every word `< 2^62`), `uvalN` / `uval` the unsigned /
two's-complement value of a word list, `Q = 2^62`. -/

open CB.GenChains (nats) in
open CB.GenSafeGcdLimbs (WFw) in
/-- `UnsatInt::add` of the source is the model's `uadd` for every limb count, and adds the values modulo `2^(62·LIMBS)` -/
theorem src_unsat_add_exact (a b : List (BitVec 64)) (h : a.length = b.length) (wa : WFw a) (wb : WFw b) :
    nats (Gen.SafeGcdLimbs.UnsatInt.add a.length a b) = uadd (nats a) (nats b) ∧
    (Gen.SafeGcdLimbs.UnsatInt.add a.length a b).length = a.length ∧
    WFw (Gen.SafeGcdLimbs.UnsatInt.add a.length a b) ∧
    uvalN (nats (Gen.SafeGcdLimbs.UnsatInt.add a.length a b)) = (uvalN (nats a) + uvalN (nats b)) % Q ^ a.length := by
  obtain ⟨e, w, l⟩ := GenSafeGcdLimbs.add_ok a b h wa wb
  refine ⟨e, l, w, ?_⟩
  rw [e, (uadd_spec (nats a) (nats b) (by simp [nats, h])).2.2]
  simp [nats]

open CB.GenChains (nats) in
open CB.GenSafeGcdLimbs (WFw) in
/-- `UnsatInt::mul(i64)` of the source is the model's `umul` for every limb count and every multiplier except `i64::MIN`
    (where the source's `-other` overflows), and multiplies the value modulo `2^(62·LIMBS)` -/
theorem src_unsat_mul_exact (a : List (BitVec 64)) (o : BitVec 64) (wa : WFw a) (ho : -(2 ^ 63) < o.toInt) :
    nats (Gen.SafeGcdLimbs.UnsatInt.mul a.length a o) = umul (nats a) o.toInt ∧
    (Gen.SafeGcdLimbs.UnsatInt.mul a.length a o).length = a.length ∧
    WFw (Gen.SafeGcdLimbs.UnsatInt.mul a.length a o) ∧
    ((uvalN (nats (Gen.SafeGcdLimbs.UnsatInt.mul a.length a o)) : Nat) : Int) ≡
      (uvalN (nats a) : Nat) * o.toInt [ZMOD ((Q ^ a.length : Nat) : Int)] := by
  obtain ⟨e, w, l⟩ := GenSafeGcdLimbs.mul_ok a o wa ho
  refine ⟨e, l, w, ?_⟩
  have := (umul_spec (nats a) o.toInt ((GenSafeGcdLimbs.WFw_iff a).mp wa) (GenSafeGcdLimbs.toInt_bounds o).1
    (GenSafeGcdLimbs.toInt_bounds o).2).2.2
  rw [e]
  simpa [nats] using this

open CB.GenChains (nats) in
open CB.GenSafeGcdLimbs (WFw) in
/-- `UnsatInt::neg` of the source is the model's `uneg` for every limb count, and negates the value modulo `2^(62·LIMBS)` -/
theorem src_unsat_neg_exact (a : List (BitVec 64)) (wa : WFw a) :
    nats (Gen.SafeGcdLimbs.UnsatInt.neg a.length a) = uneg (nats a) ∧
    uvalN (nats (Gen.SafeGcdLimbs.UnsatInt.neg a.length a)) = (Q ^ a.length - uvalN (nats a)) % Q ^ a.length := by
  have e := (GenSafeGcdLimbs.uneg_bridge a wa).symm
  refine ⟨e, ?_⟩
  rw [e, (uneg_spec (nats a) ((GenSafeGcdLimbs.WFw_iff a).mp wa)).2.2]
  simp [nats]

open CB.GenChains (nats) in
open CB.GenSafeGcdLimbs (WFw) in
/-- `UnsatInt::shr` of the source is the model's `ushr` for every limb count `≥ 1`; for `≥ 2` limbs it is the exact
    arithmetic shift of the two's-complement value by 62 bits.  `is_negative` is the mask of the sign of that value,
    `lowest` the lowest word. -/
theorem src_unsat_shr_exact (a : List (BitVec 64)) (hne : a ≠ []) (wa : WFw a) :
    nats (Gen.SafeGcdLimbs.UnsatInt.shr a.length a) = ushr (nats a) ∧
    (2 ≤ a.length → uval (nats (Gen.SafeGcdLimbs.UnsatInt.shr a.length a)) = uval (nats a) / (Q : Int)) ∧
    Gen.SafeGcdLimbs.UnsatInt.is_negative a.length a = GenBits.ofBool (decide (uval (nats a) < 0)) ∧
    (Gen.SafeGcdLimbs.UnsatInt.lowest a.length a).toNat = ulowest (nats a) := by
  have e := (GenSafeGcdLimbs.ushr_bridge a hne).symm
  have wa' := (GenSafeGcdLimbs.WFw_iff a).mp wa
  have hne' : nats a ≠ [] := by simpa [nats] using hne
  refine ⟨e, fun h2 => ?_, ?_, (GenSafeGcdLimbs.ulowest_bridge a).symm⟩
  · rw [e]; exact (ushr_spec (nats a) wa' (by simpa [nats] using h2)).2.2
  · rw [GenSafeGcdLimbs.uisNeg_bridge]
    congr 1
    have := (P10.unsat_eq_is_negative (nats a) (nats a) wa' wa' rfl hne').2
    rw [Bool.eq_iff_iff, this]; simp

open CB.GenChains (nats) in
open CB.GenSafeGcdLimbs (WFw) in
/-- `UnsatInt::eq` / `UnsatInt::select` of the source are the model's `ueq` / `uselect`; `eq` is the mask of equality of the
    two's-complement values -/
theorem src_unsat_eq_select_exact (a b : List (BitVec 64)) (h : a.length = b.length) (hne : a ≠ []) (wa : WFw a) (wb : WFw b)
    (p : Bool) :
    Gen.SafeGcdLimbs.UnsatInt.eq a.length a b = GenBits.ofBool (decide (uval (nats a) = uval (nats b))) ∧
    nats (Gen.SafeGcdLimbs.UnsatInt.select a.length a b (GenBits.ofBool p)) = (if p then nats b else nats a) := by
  have hne' : nats a ≠ [] := by simpa [nats] using hne
  refine ⟨?_, ?_⟩
  · rw [GenSafeGcdLimbs.ueq_bridge a b h]
    congr 1
    have := (P10.unsat_eq_is_negative (nats a) (nats b) ((GenSafeGcdLimbs.WFw_iff a).mp wa)
      ((GenSafeGcdLimbs.WFw_iff b).mp wb) (by simp [nats, h]) hne').1
    rw [Bool.eq_iff_iff, this]; simp
  · rw [← GenSafeGcdLimbs.uselect_bridge a b p h]; rfl

open CB.GenChains (nats) in
open CB.GenSafeGcdLimbs (WFw) in
/-- `UnsatInt::leading_zeros` / `UnsatInt::bits` of the source (the inputs of `iterations` in `divsteps`) are the model's `ulz` /
    `ubits` for every limb count whose bit length `62·LIMBS` fits the `u32` arithmetic of the source -/
theorem src_unsat_bits_exact (a : List (BitVec 64)) (wa : WFw a) (hL : 62 * a.length < 2 ^ 32) :
    (Gen.SafeGcdLimbs.UnsatInt.leading_zeros a.length a).toNat = ulz (nats a) ∧
    (Gen.SafeGcdLimbs.UnsatInt.bits a.length a).toNat = ubits (nats a) :=
  GenSafeGcdLimbs.ulz_bridge a wa hL

open CB.GenChains (nats) in
open CB.GenSafeGcdLimbs (WFw matOf) in
/-- `fg` of the source: T10.4(d) `fg_exact` restated for the translated function — for well-formed `n ≥ 2`-limb operands, a
    matrix whose rows have absolute sum `≤ 2^62` and `T·(F, G)` within the signed range of the limbs, the words the SOURCE
    returns are well formed and represent exactly `⌊(t00·F + t01·G)/2^62⌋`, `⌊(t10·F + t11·G)/2^62⌋` -/
theorem src_fg_exact (f g : List (BitVec 64)) (t : (BitVec 64 × BitVec 64) × (BitVec 64 × BitVec 64))
    (wf : WFw f) (wg : WFw g) (hl : f.length = g.length) (hlen : 2 ≤ f.length)
    (hb0 : |t.1.1.toInt| + |t.1.2.toInt| ≤ 2 ^ 62) (hb1 : |t.2.1.toInt| + |t.2.2.toInt| ≤ 2 ^ 62)
    (hr0a : -((Q ^ f.length : Nat) : Int) ≤ 2 * (t.1.1.toInt * uval (nats f) + t.1.2.toInt * uval (nats g)))
    (hr0b : 2 * (t.1.1.toInt * uval (nats f) + t.1.2.toInt * uval (nats g)) < ((Q ^ f.length : Nat) : Int))
    (hr1a : -((Q ^ f.length : Nat) : Int) ≤ 2 * (t.2.1.toInt * uval (nats f) + t.2.2.toInt * uval (nats g)))
    (hr1b : 2 * (t.2.1.toInt * uval (nats f) + t.2.2.toInt * uval (nats g)) < ((Q ^ f.length : Nat) : Int)) :
    (nats (Gen.SafeGcdLimbs.fg f.length f g t).1, nats (Gen.SafeGcdLimbs.fg f.length f g t).2) =
      fg (nats f) (nats g) (matOf t) ∧
    (Gen.SafeGcdLimbs.fg f.length f g t).1.length = f.length ∧ WFw (Gen.SafeGcdLimbs.fg f.length f g t).1 ∧
    uval (nats (Gen.SafeGcdLimbs.fg f.length f g t).1) =
      (t.1.1.toInt * uval (nats f) + t.1.2.toInt * uval (nats g)) / (Q : Int) ∧
    (Gen.SafeGcdLimbs.fg f.length f g t).2.length = f.length ∧ WFw (Gen.SafeGcdLimbs.fg f.length f g t).2 ∧
    uval (nats (Gen.SafeGcdLimbs.fg f.length f g t).2) =
      (t.2.1.toInt * uval (nats f) + t.2.2.toInt * uval (nats g)) / (Q : Int) := by
  have hne : f ≠ [] := by intro h0; rw [h0] at hlen; simp at hlen
  have e00 := abs_le.mp (le_trans (le_add_of_nonneg_right (abs_nonneg t.1.2.toInt)) hb0)
  have e01 := abs_le.mp (le_trans (le_add_of_nonneg_left (abs_nonneg t.1.1.toInt)) hb0)
  have e10 := abs_le.mp (le_trans (le_add_of_nonneg_right (abs_nonneg t.2.2.toInt)) hb1)
  have e11 := abs_le.mp (le_trans (le_add_of_nonneg_left (abs_nonneg t.2.1.toInt)) hb1)
  have hbr := GenSafeGcdLimbs.fg_bridge f g t hl hne wf wg (by omega) (by omega) (by omega) (by omega)
  have hnl : (nats f).length = f.length := by simp [nats]
  obtain ⟨p1, p2, p3, p4, p5, p6⟩ := P10.fg_exact (nats f) (nats g) (matOf t) ((GenSafeGcdLimbs.WFw_iff f).mp wf)
    ((GenSafeGcdLimbs.WFw_iff g).mp wg) (by simp [nats, hl]) (by rw [hnl]; exact hlen) hb0 hb1
    (by rw [hnl]; exact hr0a) (by rw [hnl]; exact hr0b) (by rw [hnl]; exact hr1a) (by rw [hnl]; exact hr1b)
  rw [hbr] at p1 p2 p3 p4 p5 p6
  simp only [hnl] at p1 p4
  refine ⟨hbr.symm, ?_, (GenSafeGcdLimbs.WFw_iff _).mpr p2, p3, ?_, (GenSafeGcdLimbs.WFw_iff _).mpr p5, p6⟩
  · simpa [nats] using p1
  · simpa [nats] using p4

open CB.GenChains (nats) in
open CB.GenSafeGcdLimbs (WFw matOf) in
/-- `de` of the source: T10.4(d) `de_exact` restated for the translated function — with `d, e ∈ (-2M, M)`,
    `inverse·M ≡ 1 (mod 2^62)` and `2^64·M ≤ 2^(62n)`, the words the SOURCE returns satisfy
    `2^62·d' = t00·d + t01·e + md·M`, `2^62·e' = t10·d + t11·e + me·M` exactly for some integers `md`, `me`, and
    `d', e' ∈ (-2M, M)` again -/
theorem src_de_exact (m d e : List (BitVec 64)) (inv : BitVec 64) (t : (BitVec 64 × BitVec 64) × (BitVec 64 × BitVec 64))
    (wd : WFw d) (we : WFw e) (wm : WFw m) (hle : e.length = d.length) (hlm : m.length = d.length) (hlen : 2 ≤ d.length)
    (hb0 : |t.1.1.toInt| + |t.1.2.toInt| ≤ 2 ^ 62) (hb1 : |t.2.1.toInt| + |t.2.2.toInt| ≤ 2 ^ 62)
    (hM : 0 < uval (nats m)) (hD1 : -(2 * uval (nats m)) < uval (nats d)) (hD2 : uval (nats d) < uval (nats m))
    (hE1 : -(2 * uval (nats m)) < uval (nats e)) (hE2 : uval (nats e) < uval (nats m))
    (hcap : 2 ^ 64 * uval (nats m) ≤ ((Q ^ d.length : Nat) : Int))
    (hinv : inv.toInt * uval (nats m) ≡ 1 [ZMOD 2 ^ 62]) :
    (nats (Gen.SafeGcdLimbs.de d.length m inv t d e).1, nats (Gen.SafeGcdLimbs.de d.length m inv t d e).2) =
      de (nats m) inv.toInt (matOf t) (nats d) (nats e) ∧
    ∃ md me : Int,
      WFw (Gen.SafeGcdLimbs.de d.length m inv t d e).1 ∧ WFw (Gen.SafeGcdLimbs.de d.length m inv t d e).2 ∧
      2 ^ 62 * uval (nats (Gen.SafeGcdLimbs.de d.length m inv t d e).1) =
        t.1.1.toInt * uval (nats d) + t.1.2.toInt * uval (nats e) + md * uval (nats m) ∧
      2 ^ 62 * uval (nats (Gen.SafeGcdLimbs.de d.length m inv t d e).2) =
        t.2.1.toInt * uval (nats d) + t.2.2.toInt * uval (nats e) + me * uval (nats m) ∧
      -(2 * uval (nats m)) < uval (nats (Gen.SafeGcdLimbs.de d.length m inv t d e).1) ∧
      uval (nats (Gen.SafeGcdLimbs.de d.length m inv t d e).1) < uval (nats m) ∧
      -(2 * uval (nats m)) < uval (nats (Gen.SafeGcdLimbs.de d.length m inv t d e).2) ∧
      uval (nats (Gen.SafeGcdLimbs.de d.length m inv t d e).2) < uval (nats m) := by
  have hne : d ≠ [] := by intro h0; rw [h0] at hlen; simp at hlen
  have hbr := GenSafeGcdLimbs.de_bridge m d e inv t hle hlm hne wm wd we hb0 hb1
  have hnl : (nats d).length = d.length := by simp [nats]
  obtain ⟨md, me, p1, p2, p3, p4, p5, p6, p7, p8, p9, p10⟩ :=
    P10.de_exact (nats m) (nats d) (nats e) inv.toInt (matOf t) ((GenSafeGcdLimbs.WFw_iff d).mp wd)
      ((GenSafeGcdLimbs.WFw_iff e).mp we) ((GenSafeGcdLimbs.WFw_iff m).mp wm) (by simp [nats, hle]) (by simp [nats, hlm])
      (by rw [hnl]; exact hlen) hb0 hb1 hM hD1 hD2 hE1 hE2 (by rw [hnl]; exact hcap) hinv
  rw [hbr] at p2 p4 p5 p6 p7 p8 p9 p10
  exact ⟨hbr.symm, md, me, (GenSafeGcdLimbs.WFw_iff _).mpr p2, (GenSafeGcdLimbs.WFw_iff _).mpr p4, p5, p6, p7, p8, p9, p10⟩

open CB.GenChains (nats) in
open CB.GenSafeGcdLimbs (WFw matOf) in
/-- the hand-written models of the LIMB arithmetic of safegcd (what T10.4(d) and the loop theorems are proved about) ARE
    the translated source, for every limb count: `add`, `neg`, `mul` (multiplier `≠ i64::MIN`), `shr` (`LIMBS ≥ 1`),
    `is_negative`, `lowest`, `eq`, `select` of `UnsatInt`, and `fg`, `de` (rows of the matrix of absolute sum `≤ 2^62`);
    `leading_zeros` / `bits`: `src_unsat_bits_exact` -/
theorem safegcd_limbs_are_translated_source :
    (∀ a b : List (BitVec 64), a.length = b.length → WFw a → WFw b →
      uadd (nats a) (nats b) = nats (Gen.SafeGcdLimbs.UnsatInt.add a.length a b)) ∧
    (∀ a : List (BitVec 64), WFw a → uneg (nats a) = nats (Gen.SafeGcdLimbs.UnsatInt.neg a.length a)) ∧
    (∀ (a : List (BitVec 64)) (o : BitVec 64), -(2 ^ 63) < o.toInt →
      umul (nats a) o.toInt = nats (Gen.SafeGcdLimbs.UnsatInt.mul a.length a o)) ∧
    (∀ a : List (BitVec 64), a ≠ [] → ushr (nats a) = nats (Gen.SafeGcdLimbs.UnsatInt.shr a.length a)) ∧
    (∀ a : List (BitVec 64), Gen.SafeGcdLimbs.UnsatInt.is_negative a.length a = GenBits.ofBool (uisNeg (nats a))) ∧
    (∀ a : List (BitVec 64), ulowest (nats a) = (Gen.SafeGcdLimbs.UnsatInt.lowest a.length a).toNat) ∧
    (∀ a b : List (BitVec 64), a.length = b.length →
      Gen.SafeGcdLimbs.UnsatInt.eq a.length a b = GenBits.ofBool (SafeGcd.ueq (nats a) (nats b))) ∧
    (∀ (a b : List (BitVec 64)) (p : Bool), a.length = b.length →
      SafeGcd.uselect (nats a) (nats b) p = nats (Gen.SafeGcdLimbs.UnsatInt.select a.length a b (GenBits.ofBool p))) ∧
    (∀ (f g : List (BitVec 64)) (t : (BitVec 64 × BitVec 64) × (BitVec 64 × BitVec 64)), f.length = g.length → f ≠ [] →
      WFw f → WFw g → -(2 ^ 63) < t.1.1.toInt → -(2 ^ 63) < t.1.2.toInt → -(2 ^ 63) < t.2.1.toInt → -(2 ^ 63) < t.2.2.toInt →
      fg (nats f) (nats g) (matOf t) =
        (nats (Gen.SafeGcdLimbs.fg f.length f g t).1, nats (Gen.SafeGcdLimbs.fg f.length f g t).2)) ∧
    (∀ (m d e : List (BitVec 64)) (inv : BitVec 64) (t : (BitVec 64 × BitVec 64) × (BitVec 64 × BitVec 64)),
      e.length = d.length → m.length = d.length → d ≠ [] → WFw m → WFw d → WFw e →
      |t.1.1.toInt| + |t.1.2.toInt| ≤ 2 ^ 62 → |t.2.1.toInt| + |t.2.2.toInt| ≤ 2 ^ 62 →
      de (nats m) inv.toInt (matOf t) (nats d) (nats e) =
        (nats (Gen.SafeGcdLimbs.de d.length m inv t d e).1, nats (Gen.SafeGcdLimbs.de d.length m inv t d e).2)) :=
  ⟨GenSafeGcdLimbs.uadd_bridge, GenSafeGcdLimbs.uneg_bridge, GenSafeGcdLimbs.umul_bridge, GenSafeGcdLimbs.ushr_bridge,
    GenSafeGcdLimbs.uisNeg_bridge, GenSafeGcdLimbs.ulowest_bridge, GenSafeGcdLimbs.ueq_bridge, GenSafeGcdLimbs.uselect_bridge,
    GenSafeGcdLimbs.fg_bridge, GenSafeGcdLimbs.de_bridge⟩

open CB.GenChains (nats) in
open CB.GenSafeGcdLimbs (WFw dsOf) in
/-- `divsteps` of the source (the outer loop `while i < iterations(f_0.bits(), g.bits())`: `jump`, `fg`, `de` per trip) IS the
    model's `divsteps` for every limb count `2 ≤ LIMBS ≤ 1413748` (where the `u32` bit counts do not wrap), on every initial
    state that satisfies the loop invariants of T10.5 (`FGI`: `f_0`, `g` well formed within `Bd`, `f_0` odd; `DEI`: `d = 0`,
    `e ∈ (-2M, M)` well formed) — what `SafeGcdInverter::inv` and `gcd` establish before the call; `jump` moves `delta` by at
    most 62 per trip (`jump_delta_bound`), so no `i64` of the loop wraps within the `< 2^32` trips.
    Hence `FGI` / `DEI` hold for the words the SOURCE returns (T10.5 `dsLoop_inv` restated). -/
theorem src_divsteps_exact (Bd : Int) (gs : Nat) (x adj : Int) (e f0 g : List (BitVec 64)) (inv : BitVec 64)
    (hn : 2 ≤ f0.length) (hL : f0.length ≤ 1413748) (hcap : 2 ^ 64 * Bd ≤ ((Q ^ f0.length : Nat) : Int))
    (w0 : WFw f0) (hM : 0 < uval (nats f0)) (hModd : uval (nats f0) % 2 = 1) (hMB : uval (nats f0) ≤ Bd)
    (hinv : inv.toInt * uval (nats f0) ≡ 1 [ZMOD 2 ^ 62])
    (hfg : FGI f0.length Bd gs (dsOf e g (List.replicate f0.length 0#64) f0 1#64))
    (hde : DEI f0.length (nats f0) x adj (dsOf e g (List.replicate f0.length 0#64) f0 1#64)) :
    (nats (Gen.SafeGcdLimbs.divsteps f0.length e f0 g inv).1, nats (Gen.SafeGcdLimbs.divsteps f0.length e f0 g inv).2) =
      ((divsteps false (nats e) (nats f0) (nats g) inv.toInt).d, (divsteps false (nats e) (nats f0) (nats g) inv.toInt).f) ∧
    (Gen.SafeGcd.iterations (Gen.SafeGcdLimbs.UnsatInt.bits f0.length f0) (Gen.SafeGcdLimbs.UnsatInt.bits f0.length g)).toNat =
      iterations (ubits (nats f0)) (ubits (nats g)) ∧
    WFw (Gen.SafeGcdLimbs.divsteps f0.length e f0 g inv).1 ∧ WFw (Gen.SafeGcdLimbs.divsteps f0.length e f0 g inv).2 ∧
    -(2 * uval (nats f0)) < uval (nats (Gen.SafeGcdLimbs.divsteps f0.length e f0 g inv).1) ∧
    uval (nats (Gen.SafeGcdLimbs.divsteps f0.length e f0 g inv).1) < uval (nats f0) ∧
    uval (nats (Gen.SafeGcdLimbs.divsteps f0.length e f0 g inv).2) % 2 = 1 ∧
    uval (nats (Gen.SafeGcdLimbs.divsteps f0.length e f0 g inv).1) * x ≡
      uval (nats (Gen.SafeGcdLimbs.divsteps f0.length e f0 g inv).2) * adj [ZMOD uval (nats f0)] := by
  have hb := GenSafeGcdLimbs.divsteps_bridge Bd gs x adj e f0 g inv hn hL hcap w0 hM hModd hMB hinv hfg hde
  have lg : g.length = f0.length := by have := hfg.lg; simpa [dsOf, nats] using this
  have htr := GenSafeGcdLimbs.trips_bridge f0 g w0 ((GenSafeGcdLimbs.WFw_iff g).mpr hfg.wg) lg hL
  have h1 : (1#64 : BitVec 64).toInt = 1 := by decide
  have hinit : dsOf e g (List.replicate f0.length 0#64) f0 1#64 = ⟨1, nats f0, nats g, SafeGcd.uzero (nats f0).length, nats e⟩ := by
    simp [dsOf, h1, SafeGcd.uzero, nats]
  obtain ⟨i1, i2⟩ := dsLoop_inv f0.length Bd gs hn hcap (nats f0) inv.toInt x adj ((GenSafeGcdLimbs.WFw_iff f0).mp w0)
    (by simp [nats]) hM hModd hMB hinv (iterations (ubits (nats f0)) (ubits (nats g))) _ hfg hde
  rw [hinit] at i1 i2
  have hd : (divsteps false (nats e) (nats f0) (nats g) inv.toInt) =
      dsLoop (nats f0) inv.toInt (iterations (ubits (nats f0)) (ubits (nats g))) ⟨1, nats f0, nats g, SafeGcd.uzero (nats f0).length, nats e⟩ := by
    simp [divsteps]
  rw [← hd] at i1 i2
  have e1 := congrArg Prod.fst hb
  have e2 := congrArg Prod.snd hb
  simp only at e1 e2
  refine ⟨hb, htr, (GenSafeGcdLimbs.WFw_iff _).mpr (e1 ▸ i2.wd), (GenSafeGcdLimbs.WFw_iff _).mpr (e2 ▸ i1.wf), ?_, ?_, ?_, ?_⟩
  · rw [e1]; exact i2.d1
  · rw [e1]; exact i2.d2
  · rw [e2]; exact i1.odd
  · rw [e1, e2]; exact i2.cd

open CB.GenChains (nats) in
open CB.GenSafeGcdLimbs (WFw) in
/-- `SafeGcdInverter::norm` of the source (`&self` = the tuple of the fields `(modulus, adjuster, inverse)`) is the model's
    `norm` for every limb count; hence (`inverter_norm_exact` restated) for `value ∈ (−2M, M)` and both values of `negate` the
    words the SOURCE returns are well formed and represent `±value mod M` in `[0, M)` -/
theorem src_inverter_norm_exact (m adj v : List (BitVec 64)) (inv : BitVec 64) (negate : Bool) (hl : m.length = v.length)
    (wv : WFw v) (wm : WFw m) (hne : v ≠ []) (hM : 0 < uval (nats m))
    (h1 : -(2 * uval (nats m)) < uval (nats v)) (h2 : uval (nats v) < uval (nats m))
    (hcap : 4 * uval (nats m) ≤ ((Q ^ v.length : Nat) : Int)) :
    nats (Gen.SafeGcdLimbs.Inverter.norm v.length (m, adj, inv) v (GenBits.ofBool negate)) = norm (nats m) (nats v) negate ∧
    (Gen.SafeGcdLimbs.Inverter.norm v.length (m, adj, inv) v (GenBits.ofBool negate)).length = v.length ∧
    WFw (Gen.SafeGcdLimbs.Inverter.norm v.length (m, adj, inv) v (GenBits.ofBool negate)) ∧
    uval (nats (Gen.SafeGcdLimbs.Inverter.norm v.length (m, adj, inv) v (GenBits.ofBool negate))) =
      (if negate then -uval (nats v) else uval (nats v)) % uval (nats m) := by
  obtain ⟨e, w, l⟩ := GenSafeGcdLimbs.norm_bridge m adj v inv negate hl wv wm
  have hnl : (nats v).length = v.length := by simp [nats]
  obtain ⟨_, _, p3⟩ := P10.inverter_norm_exact (nats m) (nats v) negate ((GenSafeGcdLimbs.WFw_iff m).mp wm)
    ((GenSafeGcdLimbs.WFw_iff v).mp wv) (by simp [nats, hl]) (by simpa [nats] using hne) hM h1 h2 (by rw [hnl]; exact hcap)
  exact ⟨e.symm, l, w, by rw [← e]; exact p3⟩

/-- non-vacuity: the translated source on three 62-bit limbs — `7 + (−9) = −2`, `(−9)·(−3) = 27`, `−(−9) = 9`,
    `(−9·2^62) >> 62 = −9`, and one `fg` step with the matrix `[[1, 0], [−1, 1]]` on `f = 7·2^62`, `g = 12·2^62`: `(7, 5)` -/
example :
    Gen.SafeGcdLimbs.UnsatInt.add 3 [7#64, 0#64, 0#64] (Gen.SafeGcdLimbs.UnsatInt.neg 3 [9#64, 0#64, 0#64]) =
      Gen.SafeGcdLimbs.UnsatInt.neg 3 [2#64, 0#64, 0#64] ∧
    Gen.SafeGcdLimbs.UnsatInt.mul 3 (Gen.SafeGcdLimbs.UnsatInt.neg 3 [9#64, 0#64, 0#64]) (-3#64) = [27#64, 0#64, 0#64] ∧
    Gen.SafeGcdLimbs.UnsatInt.neg 3 (Gen.SafeGcdLimbs.UnsatInt.neg 3 [9#64, 0#64, 0#64]) = [9#64, 0#64, 0#64] ∧
    Gen.SafeGcdLimbs.UnsatInt.shr 3 (Gen.SafeGcdLimbs.UnsatInt.neg 3 [0#64, 9#64, 0#64]) =
      Gen.SafeGcdLimbs.UnsatInt.neg 3 [9#64, 0#64, 0#64] ∧
    Gen.SafeGcdLimbs.fg 3 [0#64, 7#64, 0#64] [0#64, 12#64, 0#64] ((1#64, 0#64), (-1#64, 1#64)) =
      ([7#64, 0#64, 0#64], [5#64, 0#64, 0#64]) := by
  decide +kernel

end CB.P10G

/-! ## T10.G (conversion) — the SOURCE of `UnsatInt::from_uint` / `UnsatInt::to_uint` (the macro `impl_limb_convert!` expanded)

`Gen.SafeGcdLimbs.Convert.from_uint LIMBS SAT_LIMBS input` / `.to_uint LIMBS SAT_LIMBS self` are the Lean translations of what
src/modular/safegcd.rs and src/modular/safegcd/macros.rs say NOW: tools/translate.py substitutes the macro's parameters into its
body (`$input` → `input.as_words()`, `$input_bits` → `Word::BITS as usize`, `$output_bits` → `62`, ..) and translates the result
— the `while bits < total` loop over two bit cursors with the data-dependent step `min(64 - i, 62 - o)` (fuel `total`), then the
count-down masking loop.  The guard `if LIMBS != safegcd_nlimbs!(SAT_LIMBS * Limb::BITS) { panic!(..) }` is a precondition. -/
namespace CB.P10G
open CB CB.SafeGcd
open CB.GenChains (nats)
open CB.GenSafeGcdLimbs (WFw)

/-- `UnsatInt::from_uint` of the source IS the model's `fromUint` on EVERY input; when the unsaturated limbs can hold the
    input (`64·len ≤ 62·LIMBS`) it returns `LIMBS` words, each `< 2^62`, of the SAME value; the source's own limb count
    `LIMBS = safegcd_nlimbs!(64·SAT_LIMBS)` (the case in which it does not panic) satisfies that -/
theorem src_unsat_from_uint_exact (L S : Nat) (x : List (BitVec 64)) :
    nats (Gen.SafeGcdLimbs.Convert.from_uint L S x) = fromUint (nats x) L ∧
    (64 * x.length ≤ 62 * L →
      (Gen.SafeGcdLimbs.Convert.from_uint L S x).length = L ∧ WFw (Gen.SafeGcdLimbs.Convert.from_uint L S x) ∧
      uvalN (nats (Gen.SafeGcdLimbs.Convert.from_uint L S x)) = CB.val (nats x)) ∧
    (x.length = S → L = nlimbsFor (S * 64) → 64 * x.length ≤ 62 * L) := by
  have e := GenBits.fromUint_bridge L S x
  refine ⟨e, fun hfit => ?_, fun hS hL => ?_⟩
  · obtain ⟨h1, h2, h3⟩ := fromUint_spec (nats x) L (CB.GenChains.nats_WF x) (by rw [CB.GenChains.nats_length]; exact hfit)
    rw [← e] at h1 h2 h3
    exact ⟨by rw [CB.GenChains.nats_length] at h1; exact h1, (GenSafeGcdLimbs.WFw_iff _).mpr h2, h3⟩
  · have := nlimbs_geometry (S * 64)
    rw [hS, hL]; omega

/-- `UnsatInt::to_uint` of the source IS the model's `toUint` on EVERY input; for words `< 2^62` and `64·SAT_LIMBS ≤ 62·len`
    it returns `SAT_LIMBS` words whose value is the limb value modulo `2^(64·SAT_LIMBS)` -/
theorem src_unsat_to_uint_exact (L S : Nat) (u : List (BitVec 64)) :
    nats (Gen.SafeGcdLimbs.Convert.to_uint L S u) = toUint (nats u) S ∧
    (WFw u → 64 * S ≤ 62 * u.length →
      (Gen.SafeGcdLimbs.Convert.to_uint L S u).length = S ∧
      CB.val (nats (Gen.SafeGcdLimbs.Convert.to_uint L S u)) = uvalN (nats u) % 2 ^ (64 * S)) := by
  have e := GenBits.toUint_bridge L S u
  refine ⟨e, fun wu hfit => ?_⟩
  obtain ⟨h1, _, h3⟩ := toUint_spec (nats u) S ((GenSafeGcdLimbs.WFw_iff u).mp wu) (by rw [CB.GenChains.nats_length]; exact hfit)
  rw [← e] at h1 h3
  exact ⟨by rw [CB.GenChains.nats_length] at h1; exact h1, h3⟩

/-- T10.4(a) for the SOURCE: converting to 62-bit words and back returns the input words -/
theorem src_unsat_convert_roundtrip (L S : Nat) (x : List (BitVec 64)) (hfit : 64 * x.length ≤ 62 * L) :
    Gen.SafeGcdLimbs.Convert.to_uint L x.length (Gen.SafeGcdLimbs.Convert.from_uint L S x) = x := by
  apply List.map_injective_iff.mpr (fun a b h => BitVec.eq_of_toNat_eq h)
  show nats _ = nats x
  rw [(src_unsat_to_uint_exact L x.length _).1, (src_unsat_from_uint_exact L S x).1]
  have := toUint_fromUint (nats x) L (CB.GenChains.nats_WF x) (by rw [CB.GenChains.nats_length]; exact hfit)
  rwa [CB.GenChains.nats_length] at this

/-- the two conversions collected: the hand-written model of `impl_limb_convert!` is the translated source -/
theorem safegcd_convert_is_translated_source :
    (∀ (L S : Nat) (x : List (BitVec 64)), nats (Gen.SafeGcdLimbs.Convert.from_uint L S x) = fromUint (nats x) L) ∧
    (∀ (L S : Nat) (u : List (BitVec 64)), nats (Gen.SafeGcdLimbs.Convert.to_uint L S u) = toUint (nats u) S) :=
  ⟨GenBits.fromUint_bridge, GenBits.toUint_bridge⟩

/-- non-vacuity: the translated source on two 64-bit words / three 62-bit words — `2^64 - 1 + 5·2^64` -/
example :
    Gen.SafeGcdLimbs.Convert.from_uint 3 2 [0xFFFFFFFFFFFFFFFF#64, 5#64] = [0x3FFFFFFFFFFFFFFF#64, 23#64, 0#64] ∧
    Gen.SafeGcdLimbs.Convert.to_uint 3 2 [0x3FFFFFFFFFFFFFFF#64, 23#64, 0#64] = [0xFFFFFFFFFFFFFFFF#64, 5#64] := by
  decide +kernel

end CB.P10G

/-! ## T10.G (inverter) — the SOURCE of `SafeGcdInverter::{new, inv}`

`Gen.SafeGcdLimbs.InverterApi.new UNSAT_LIMBS SAT_LIMBS modulus adjuster` is the tuple `(modulus, adjuster, inverse)` of the
struct's fields; `InverterApi.inv UNSAT_LIMBS SAT_LIMBS self value` the pair (value, `is_some` mask) of the `ConstCtOption`.
`UNSAT_LIMBS = safegcd_nlimbs!(64·SAT_LIMBS)` is the one limb count for which `from_uint` / `to_uint` do not panic; the
bound `UNSAT_LIMBS ≤ 1413748` (`SAT_LIMBS ≤ 1369567`, i.e. moduli up to 87 million bits) is where the `u32` bit counts of
`divsteps` do not wrap (G18's `src_divsteps_exact`). -/
namespace CB.P10G
open CB CB.SafeGcd
open CB.GenChains (nats)

/-- `SafeGcdInverter::new` of the source is the model's `Inverter.new` (all limb counts, all inputs) -/
theorem src_inverter_new_exact (S : Nat) (mw aw : List (BitVec 64)) :
    (⟨nats (Gen.SafeGcdLimbs.InverterApi.new (nlimbsFor (S * 64)) S mw aw).1,
      nats (Gen.SafeGcdLimbs.InverterApi.new (nlimbsFor (S * 64)) S mw aw).2.1,
      (Gen.SafeGcdLimbs.InverterApi.new (nlimbsFor (S * 64)) S mw aw).2.2.toInt⟩ : Inverter) = Inverter.new S (nats mw) (nats aw) :=
  GenSafeGcdInverter.new_bridge _ S mw aw

/-- `SafeGcdInverter::new(M, adj).inv(v)` of the source IS the model's: the returned words are the model's `value`, the
    returned mask is `is_some` -/
theorem src_inverter_inv_exact (sat : Nat) (hsat : 1 ≤ sat) (mw aw vw : List (BitVec 64))
    (lm : mw.length = sat) (la : aw.length = sat) (lv : vw.length = sat)
    (hodd : CB.val (nats mw) % 2 = 1) (hadj : CB.val (nats aw) < CB.val (nats mw)) (hL : nlimbsFor (sat * 64) ≤ 1413748) :
    nats (Gen.SafeGcdLimbs.InverterApi.inv (nlimbsFor (sat * 64)) sat
        (Gen.SafeGcdLimbs.InverterApi.new (nlimbsFor (sat * 64)) sat mw aw) vw).1 =
      ((Inverter.new sat (nats mw) (nats aw)).inv sat (nats vw)).value ∧
    (Gen.SafeGcdLimbs.InverterApi.inv (nlimbsFor (sat * 64)) sat
        (Gen.SafeGcdLimbs.InverterApi.new (nlimbsFor (sat * 64)) sat mw aw) vw).2 =
      GenBits.ofBool ((Inverter.new sat (nats mw) (nats aw)).inv sat (nats vw)).isSome := by
  have hn := geometry sat
  simp only [Inverter.new]
  generalize nlimbsFor (sat * 64) = L at *
  have em := GenBits.fromUint_bridge L sat mw
  have ea := GenBits.fromUint_bridge L sat aw
  have hml : (Gen.SafeGcdLimbs.Convert.from_uint L sat mw).length = L :=
    ((src_unsat_from_uint_exact L sat mw).2.1 (by rw [lm]; omega)).1
  rw [GenBits.inverter_new_eq]
  generalize Gen.SafeGcdLimbs.Convert.from_uint L sat mw = m at *
  generalize Gen.SafeGcdLimbs.Convert.from_uint L sat aw = a at *
  subst hml
  exact GenSafeGcdInverter.inv_core sat hsat (nats mw) (nats aw) (nats vw) (CB.GenChains.nats_WF _) (CB.GenChains.nats_WF _)
    (CB.GenChains.nats_WF _) (by rw [CB.GenChains.nats_length]; exact lm) (by rw [CB.GenChains.nats_length]; exact la)
    (by rw [CB.GenChains.nats_length]; exact lv) hodd hadj m a vw (Gen.SafeGcd.inv_mod2_62 mw) hn hL em ea rfl
    (GenBits.inv_mod2_62_bridge mw) sat

/-- T10.7 for the TRANSLATED `inv` — UNCONDITIONAL soundness (no hypothesis on the trip count / on `g`), under exactly the
    hypotheses of `safegcd_inv_sound` (plus the `u32` range of the limb count): the mask the source returns is a proper
    `ConstChoice`, and whenever it is truthy the words the source returns are `< M` and `value·v ≡ adjuster (mod M)` -/
theorem src_safegcd_inv_sound (sat : Nat) (hsat : 1 ≤ sat) (mw aw vw : List (BitVec 64))
    (lm : mw.length = sat) (la : aw.length = sat) (lv : vw.length = sat)
    (hodd : CB.val (nats mw) % 2 = 1) (hadj : CB.val (nats aw) < CB.val (nats mw)) (hL : nlimbsFor (sat * 64) ≤ 1413748) :
    ((Gen.SafeGcdLimbs.InverterApi.inv (nlimbsFor (sat * 64)) sat
        (Gen.SafeGcdLimbs.InverterApi.new (nlimbsFor (sat * 64)) sat mw aw) vw).2 = 0#64 ∨
     (Gen.SafeGcdLimbs.InverterApi.inv (nlimbsFor (sat * 64)) sat
        (Gen.SafeGcdLimbs.InverterApi.new (nlimbsFor (sat * 64)) sat mw aw) vw).2 = ~~~0#64) ∧
    ((Gen.SafeGcdLimbs.InverterApi.inv (nlimbsFor (sat * 64)) sat
        (Gen.SafeGcdLimbs.InverterApi.new (nlimbsFor (sat * 64)) sat mw aw) vw).2 ≠ 0#64 →
      CB.val (nats (Gen.SafeGcdLimbs.InverterApi.inv (nlimbsFor (sat * 64)) sat
        (Gen.SafeGcdLimbs.InverterApi.new (nlimbsFor (sat * 64)) sat mw aw) vw).1) < CB.val (nats mw) ∧
      CB.val (nats (Gen.SafeGcdLimbs.InverterApi.inv (nlimbsFor (sat * 64)) sat
        (Gen.SafeGcdLimbs.InverterApi.new (nlimbsFor (sat * 64)) sat mw aw) vw).1) * CB.val (nats vw)
        ≡ CB.val (nats aw) [MOD CB.val (nats mw)]) := by
  obtain ⟨e1, e2⟩ := src_inverter_inv_exact sat hsat mw aw vw lm la lv hodd hadj hL
  obtain ⟨_, s2⟩ := P10.safegcd_inv_sound sat hsat (nats mw) (nats aw) (nats vw) (CB.GenChains.nats_WF _) (CB.GenChains.nats_WF _)
    (CB.GenChains.nats_WF _) (by rw [CB.GenChains.nats_length]; exact lm) (by rw [CB.GenChains.nats_length]; exact la)
    (by rw [CB.GenChains.nats_length]; exact lv) hodd hadj
  rw [e1, e2]
  cases h : ((Inverter.new sat (nats mw) (nats aw)).inv sat (nats vw)).isSome with
  | false => exact ⟨Or.inl (by decide), fun hne => absurd (by decide) hne⟩
  | true => exact ⟨Or.inr (by decide), fun _ => s2 h⟩

/-- the inverter collected: the hand-written model of `SafeGcdInverter::{new, inv}` is the translated source -/
theorem safegcd_inverter_is_translated_source :
    (∀ (S : Nat) (mw aw : List (BitVec 64)),
      (⟨nats (Gen.SafeGcdLimbs.InverterApi.new (nlimbsFor (S * 64)) S mw aw).1,
        nats (Gen.SafeGcdLimbs.InverterApi.new (nlimbsFor (S * 64)) S mw aw).2.1,
        (Gen.SafeGcdLimbs.InverterApi.new (nlimbsFor (S * 64)) S mw aw).2.2.toInt⟩ : Inverter) = Inverter.new S (nats mw) (nats aw)) ∧
    (∀ (sat : Nat), 1 ≤ sat → ∀ (mw aw vw : List (BitVec 64)), mw.length = sat → aw.length = sat → vw.length = sat →
      CB.val (nats mw) % 2 = 1 → CB.val (nats aw) < CB.val (nats mw) → nlimbsFor (sat * 64) ≤ 1413748 →
      nats (Gen.SafeGcdLimbs.InverterApi.inv (nlimbsFor (sat * 64)) sat
          (Gen.SafeGcdLimbs.InverterApi.new (nlimbsFor (sat * 64)) sat mw aw) vw).1 =
        ((Inverter.new sat (nats mw) (nats aw)).inv sat (nats vw)).value ∧
      (Gen.SafeGcdLimbs.InverterApi.inv (nlimbsFor (sat * 64)) sat
          (Gen.SafeGcdLimbs.InverterApi.new (nlimbsFor (sat * 64)) sat mw aw) vw).2 =
        GenBits.ofBool ((Inverter.new sat (nats mw) (nats aw)).inv sat (nats vw)).isSome) :=
  ⟨src_inverter_new_exact, fun sat hsat mw aw vw lm la lv hodd hadj hL =>
    src_inverter_inv_exact sat hsat mw aw vw lm la lv hodd hadj hL⟩

/-- non-vacuity: the translated source, one 64-bit limb (three 62-bit limbs): `3⁻¹ mod 7 = 5` is reported with a truthy mask,
    `3` is not invertible modulo `9` (falsy mask), and with the adjuster `2` the result is `2·3⁻¹ = 3 (mod 7)` -/
example :
    Gen.SafeGcdLimbs.InverterApi.inv 3 1 (Gen.SafeGcdLimbs.InverterApi.new 3 1 [7#64] [1#64]) [3#64] = ([5#64], ~~~0#64) ∧
    (Gen.SafeGcdLimbs.InverterApi.inv 3 1 (Gen.SafeGcdLimbs.InverterApi.new 3 1 [9#64] [1#64]) [3#64]).2 = 0#64 ∧
    Gen.SafeGcdLimbs.InverterApi.inv 3 1 (Gen.SafeGcdLimbs.InverterApi.new 3 1 [7#64] [2#64]) [3#64] = ([3#64], ~~~0#64) := by
  decide +kernel

end CB.P10G
