/-
  C10 — theorems about the SOURCE of the word-level core of safegcd (`iterations`, `inv_mod2_62`, `jump` of
  src/modular/safegcd.rs, 64-bit configuration), regenerated from /repo on every run by tools/translate.py
  (CB/Gen/SafeGcd.lean).  Kept in a module of its own (nothing imports it) so that a change in one of these Rust
  functions breaks exactly this property's obligations and no other module's build.
  Audited together with CB/Props/C10.lean by tools/runner.py.
-/
import CB.Props.C10
import CB.Lemmas.GenBitsSafeGcd
import CB.Lemmas.GenSafeGcdJump
namespace CB.P10G
open CB CB.SafeGcd

/-! ## T10.G — the SOURCE of `iterations`, `inv_mod2_62`, `jump`

`Gen.SafeGcd.jump f g delta` is the Lean translation of what src/modular/safegcd.rs says NOW: the slices are the lists of
their words, `i64` / `i128` values are `BitVec 64` / `BitVec 128` patterns with the wrapping release semantics of
`+ - * <<`, the arithmetic `>>`, signed comparisons; `Matrix = [[i64; 2]; 2]` is a pair of pairs; the
`loop { .. if steps == 0 { break; } .. }` is the fuel-recursive `Gen.SafeGcd.jump_loop1` called with fuel 64. -/

/-- `iterations` of the source: `(49·max(f,g) + (80 if max < 46 else 57)) / 17` in `u32` arithmetic on ALL inputs, and the
    model's `iterations` (hence T10's trip-count formula `iterations_formula`) on the exact range where the `u32`
    arithmetic does not wrap, `max(f, g) ≤ 87652392` (the first wrapping input, 87652393, is exhibited) -/
theorem src_iterations_exact (f g : BitVec 32) :
    Gen.SafeGcd.iterations f g =
      ((49#32 * (if f < g then g else f) + (if (if f < g then g else f) < 46#32 then 80#32 else 57#32)) / 17#32).setWidth 64 ∧
    (f.toNat ≤ 87652392 → g.toNat ≤ 87652392 →
      (Gen.SafeGcd.iterations f g).toNat = iterations f.toNat g.toNat ∧
      (Gen.SafeGcd.iterations f g).toNat =
        (49 * max f.toNat g.toNat + (if max f.toNat g.toNat < 46 then 80 else 57)) / 17) ∧
    (Gen.SafeGcd.iterations (BitVec.ofNat 32 87652393) 0#32).toNat ≠ iterations 87652393 0 := by
  refine ⟨GenBits.iterations_meaning f g, fun hf hg => ?_, GenBits.iterations_wraps_beyond⟩
  have h := GenBits.iterations_bridge f g hf hg
  exact ⟨h, by rw [h]; exact P10.iterations_formula _ _⟩

/-- `inv_mod2_62` of the source is the model's `invMod2_62` on every slice of words; for an odd lowest word the result
    (an `i64`) lies in `[0, 2^62)` and inverts that word modulo `2^62` -/
theorem src_inv_mod2_62_exact (value : List (BitVec 64)) :
    (Gen.SafeGcd.inv_mod2_62 value).toInt = invMod2_62 (value.map BitVec.toNat) ∧
    (∀ v rest, value = v :: rest → v.toNat % 2 = 1 →
      0 ≤ (Gen.SafeGcd.inv_mod2_62 value).toInt ∧ (Gen.SafeGcd.inv_mod2_62 value).toInt < 2 ^ 62 ∧
      ((Gen.SafeGcd.inv_mod2_62 value).toInt * (v.toNat : Int)) % 2 ^ 62 = 1) := by
  refine ⟨GenBits.inv_mod2_62_bridge value, ?_⟩
  intro v rest hv hodd
  rw [GenBits.inv_mod2_62_bridge value, hv]
  exact invMod2_62_spec v.toNat (rest.map BitVec.toNat) hodd

/-- `jump` of the source returns the model's `(delta, matrix)`: under the callers' guarantees — low words `< 2^62` (62-bit
    limbs), `f` odd or `delta > 0`, `|delta| ≤ 2^62` — every component of the translated result, read as a signed integer,
    IS the corresponding component of `CB.SafeGcd.jump` on the same words; no `i64` / `i128` operation of the source wraps
    on the way (the bridge is a ring-homomorphic image with bounds at `trailing_zeros`, `>>`, `min`, `delta > 0`, `as i128`). -/
theorem src_jump_exact (f g : List (BitVec 64)) (delta : BitVec 64)
    (hfl : (f.getD 0 0#64).toNat < 2 ^ 62) (hgl : (g.getD 0 0#64).toNat < 2 ^ 62)
    (hpre : (f.getD 0 0#64).toNat % 2 = 1 ∨ 0 < delta.toInt)
    (hd1 : -(2 ^ 62) ≤ delta.toInt) (hd2 : delta.toInt ≤ 2 ^ 62) :
    (Gen.SafeGcd.jump f g delta).1.toInt = (jump (f.map BitVec.toNat) (g.map BitVec.toNat) delta.toInt).1 ∧
    (Gen.SafeGcd.jump f g delta).2.1.1.toInt = (jump (f.map BitVec.toNat) (g.map BitVec.toNat) delta.toInt).2.t00 ∧
    (Gen.SafeGcd.jump f g delta).2.1.2.toInt = (jump (f.map BitVec.toNat) (g.map BitVec.toNat) delta.toInt).2.t01 ∧
    (Gen.SafeGcd.jump f g delta).2.2.1.toInt = (jump (f.map BitVec.toNat) (g.map BitVec.toNat) delta.toInt).2.t10 ∧
    (Gen.SafeGcd.jump f g delta).2.2.2.toInt = (jump (f.map BitVec.toNat) (g.map BitVec.toNat) delta.toInt).2.t11 :=
  GenSafeGcd.jump_bridge_toInt f g delta hfl hgl hpre hd1 hd2

/-- hence the matrix the SOURCE returns is the matrix of 62 divsteps on the low words (`jump_matrix` of T10.4 restated for
    the translated function): `T·(fl, gl) = 2^62·(f', g')`, `det T = 2^62`, both rows of absolute sum `≤ 2^62` -/
theorem src_jump_matrix (f g : List (BitVec 64)) (delta : BitVec 64)
    (hfl : (f.getD 0 0#64).toNat < 2 ^ 62) (hgl : (g.getD 0 0#64).toNat < 2 ^ 62)
    (hpre : (f.getD 0 0#64).toNat % 2 = 1 ∨ 0 < delta.toInt)
    (hd1 : -(2 ^ 62) ≤ delta.toInt) (hd2 : delta.toInt ≤ 2 ^ 62) :
    ∃ f' g' : Int,
      (Gen.SafeGcd.jump f g delta).2.1.1.toInt * ((f.getD 0 0#64).toNat : Int) +
        (Gen.SafeGcd.jump f g delta).2.1.2.toInt * ((g.getD 0 0#64).toNat : Int) = 2 ^ 62 * f' ∧
      (Gen.SafeGcd.jump f g delta).2.2.1.toInt * ((f.getD 0 0#64).toNat : Int) +
        (Gen.SafeGcd.jump f g delta).2.2.2.toInt * ((g.getD 0 0#64).toNat : Int) = 2 ^ 62 * g' ∧
      |(Gen.SafeGcd.jump f g delta).2.1.1.toInt| + |(Gen.SafeGcd.jump f g delta).2.1.2.toInt| ≤ 2 ^ 62 ∧
      |(Gen.SafeGcd.jump f g delta).2.2.1.toInt| + |(Gen.SafeGcd.jump f g delta).2.2.2.toInt| ≤ 2 ^ 62 ∧
      (Gen.SafeGcd.jump f g delta).2.1.1.toInt * (Gen.SafeGcd.jump f g delta).2.2.2.toInt -
        (Gen.SafeGcd.jump f g delta).2.1.2.toInt * (Gen.SafeGcd.jump f g delta).2.2.1.toInt = 2 ^ 62 := by
  obtain ⟨_, e00, e01, e10, e11⟩ := src_jump_exact f g delta hfl hgl hpre hd1 hd2
  have hhf : (f.map BitVec.toNat).headD 0 = (f.getD 0 0#64).toNat := by cases f <;> simp
  have hhg : (g.map BitVec.toNat).headD 0 = (g.getD 0 0#64).toNat := by cases g <;> simp
  obtain ⟨f', g', h0, h1, b0, b1, hdet, _⟩ := P10.jump_matrix (f.map BitVec.toNat) (g.map BitVec.toNat) delta.toInt
    (by rw [hhf]; exact hfl) (by rw [hhg]; exact hgl) (by rw [hhf]; exact hpre)
  rw [hhf, hhg] at h0 h1
  rw [e00, e01, e10, e11]
  exact ⟨f', g', h0, h1, b0, b1, hdet⟩

/-- the fuel 64 of the translated `loop` suffices: the `break` is reached within it (`steps == 0` at the end) and every
    larger fuel returns the same state -/
theorem src_jump_fuel_suffices (fw gw delta : BitVec 64) (hfl : fw.toNat < 2 ^ 62) (hgl : gw.toNat < 2 ^ 62)
    (hpre : fw.toNat % 2 = 1 ∨ 0 < delta.toInt) (hd1 : -(2 ^ 62) ≤ delta.toInt) (hd2 : delta.toInt ≤ 2 ^ 62) (k : Nat) :
    Gen.SafeGcd.jump_loop1 (64 + k) fw (gw.setWidth 128) delta 62#64 ((1#64, 0#64), (0#64, 1#64)) =
      Gen.SafeGcd.jump_loop1 64 fw (gw.setWidth 128) delta 62#64 ((1#64, 0#64), (0#64, 1#64)) ∧
    (Gen.SafeGcd.jump_loop1 64 fw (gw.setWidth 128) delta 62#64 ((1#64, 0#64), (0#64, 1#64))).2.2.2.1 = 0#64 :=
  GenSafeGcd.jump_fuel_suffices fw gw delta hfl hgl hpre hd1 hd2 k

/-- the hand-written models of the word-level core of safegcd (what T10.4 is proved about) ARE the translated source:
    `iterations` (no-wrap range), `inv_mod2_62` (all slices), `jump` (callers' bounds; patterns of the model's result) -/
theorem safegcd_words_are_translated_source :
    (∀ f g : BitVec 32, f.toNat ≤ 87652392 → g.toNat ≤ 87652392 →
      (Gen.SafeGcd.iterations f g).toNat = iterations f.toNat g.toNat) ∧
    (∀ value : List (BitVec 64), (Gen.SafeGcd.inv_mod2_62 value).toInt = invMod2_62 (value.map BitVec.toNat)) ∧
    (∀ (f g : List (BitVec 64)) (delta : BitVec 64), (f.getD 0 0#64).toNat < 2 ^ 62 → (g.getD 0 0#64).toNat < 2 ^ 62 →
      ((f.getD 0 0#64).toNat % 2 = 1 ∨ 0 < delta.toInt) → -(2 ^ 62) ≤ delta.toInt → delta.toInt ≤ 2 ^ 62 →
      Gen.SafeGcd.jump f g delta =
        (BitVec.ofInt 64 (jump (f.map BitVec.toNat) (g.map BitVec.toNat) delta.toInt).1,
          GenSafeGcd.bmat (jump (f.map BitVec.toNat) (g.map BitVec.toNat) delta.toInt).2)) :=
  ⟨fun f g hf hg => GenBits.iterations_bridge f g hf hg, GenBits.inv_mod2_62_bridge,
    fun f g delta h1 h2 h3 h4 h5 => (GenSafeGcd.jump_bridge f g delta h1 h2 h3 h4 h5).1⟩

/-- non-vacuity: the translated source on f = 7, g = 12, δ = 1 (the example of T10.4), and `iterations(256, 256)` -/
example : (Gen.SafeGcd.jump [7#64] [12#64] 1#64).2.1.1.toInt * 7 + (Gen.SafeGcd.jump [7#64] [12#64] 1#64).2.1.2.toInt * 12
      = 2 ^ 62 * 1 ∧ (Gen.SafeGcd.iterations 256#32 256#32).toNat = 741 := by
  decide +kernel

end CB.P10G
