/-
  CB.Props.C10 — modular inversion and gcd (property C10).

  T10.1  inversion modulo 2^k (all widths `w`, i.e. all limb counts `w = 64·LIMBS`)      — full
  (further sections are appended below as they are proved)
-/
import CB.Lemmas.C10InvMod2k
namespace CB.P10
open CB.InvMod2k

/-! ## T10.1 — `inv_mod2k`, `inv_mod2k_vartime`, `inv_mod2k_full_vartime` (fixed and boxed) -/

/-- `a` odd ⇒ the result is reported present, is `< 2^k`, and `a·x ≡ 1 (mod 2^k)`, for every
    `k ≤ BITS` (`BITS = w`, any width). -/
theorem inv_mod2k_correct (w a k : Nat) (hk : k ≤ w) (ha : a % 2 = 1) :
    (invMod2k w a k).2 = true ∧ (invMod2k w a k).1 < 2 ^ k ∧
    a * (invMod2k w a k).1 ≡ 1 [MOD 2 ^ k] := by
  refine ⟨by simp [invMod2k, ha], ?_⟩
  rw [ct_eq_ref hk]
  exact ref_spec hk ha

/-- `is_some` exactly when `k = 0` or `a` is odd (no hypothesis on `k`). -/
theorem inv_mod2k_is_some_iff (w a k : Nat) :
    (invMod2k w a k).2 = true ↔ (k = 0 ∨ a % 2 = 1) := by
  simp [invMod2k]

/-- `k = 0`: the result is `0` (the unique residue modulo 1). -/
theorem inv_mod2k_zero (w a : Nat) : (invMod2k w a 0).1 = 0 := by
  rw [ct_eq_ref (Nat.zero_le w)]; rfl

/-- The variants agree for every `a` (odd or even) and every `k ≤ BITS`: `inv_mod2k_vartime`
    does not panic and returns the same pair; the boxed vartime form returns the same pair;
    `inv_mod2k_full_vartime` returns the same value exactly when `is_some` holds. -/
theorem inv_mod2k_variants_agree (w a k : Nat) (hk : k ≤ w) :
    invMod2kVartime w a k = some (invMod2k w a k) ∧
    invMod2kVartimeBoxed w a k = invMod2k w a k ∧
    invMod2kFullVartime w a k =
      (if (invMod2k w a k).2 then some (invMod2k w a k).1 else none) := by
  have h1 := vtLoop_eq w a k 0 0 1 (by simp) (by omega)
  have h2 := vtLoopBoxed_eq w a k 0 0 1 (by simp) (by omega)
  have h3 := fullLoop_eq w a k 0 0 1 (by simp)
  have hc := ct_eq_ref (a := a) hk
  refine ⟨?_, ?_, ?_⟩
  · unfold invMod2kVartime; rw [h1]; simp only []
    rw [← hc]; rfl
  · unfold invMod2kVartimeBoxed; rw [h2, ← hc]; rfl
  · unfold invMod2kFullVartime; rw [h3, ← hc]
    by_cases h : k ≠ 0 ∧ a % 2 = 0
    · have : (invMod2k w a k).2 = false := by
        simp [invMod2k]; omega
      simp [h, this]
    · have : (invMod2k w a k).2 = true := by
        simp [invMod2k]; omega
      simp [h, this]

/-- non-vacuity: a 2-limb odd value inverted modulo 2^100 -/
example : (invMod2k 128 0xfffffffffffffffffffffffefffffc2f 100).2 = true ∧
    (0xfffffffffffffffffffffffefffffc2f * (invMod2k 128 0xfffffffffffffffffffffffefffffc2f 100).1) % 2 ^ 100 = 1 := by
  decide +kernel

end CB.P10
