/-
  CB.Props.C10 — modular inversion and gcd (property C10).

  T10.1  inversion modulo 2^k (all widths `w`, i.e. all limb counts `w = 64·LIMBS`)      — full
  T10.2  `inv_mod` for `m = s·2^k` (CRT recombination), given the odd-modulus inverter spec   — full
         (+ modulus 0: both forms answer `none` — DESIGN §7 row 8, repaired by /repo be88d84)
  T10.3  `gcd = 2^k · gcd(f, g)` incl. zeros, given the odd-operand gcd spec                   — full
  T10.4  safegcd: (a) `UnsatInt` 62-bit <-> 64-bit limb conversions value preserving, mutually inverse — full;
         (b) `inv_mod2_62` — full; (c) `jump`: matrix identity, det, no wrap, termination in
         fuel, gcd preservation for the full-width operands — full
         (d) `fg` / `de` exact on unsaturated limbs (incl. the `(-2M, M)` range of `d`, `e`) — full
         (e) loop invariant through ANY number of trips (oddness, gcd, size of `f, g`; range and Bézout
             congruences of `d, e`), and from `g = 0`: `|f| = gcd`, `norm(d)` is the inverse in `[0, M)`,
             `is_some ↔ f = ±1 ↔ gcd = 1`, read back through `to_uint` — full, GIVEN `g = 0`:
             `safegcd_inv_partial`, `safegcd_inv_vartime_partial`, `safegcd_gcd_partial`,
             `safegcd_gcd_any_f_partial` (even `f`, odd `g`), and composed with T10.3: `uint_gcd_partial`
         (f) `H_divsteps_done` (the fixed trip count `iterations(..)` reaches `g = 0`; for the vartime
             loop: it ends within the model's fuel) — NOT proved; carried as the named hypothesis
  T10.5  Montgomery-form inversion (adjuster `R²`): the retrieved inverse times the retrieved value is 1 — `_partial` (same H)
  T10.6  constant-time and vartime inverters / gcd agree — `_partial` (same H for both)
  T10.7  SOUNDNESS of the inverters WITHOUT `H_divsteps_done` ("never a wrong inverse"): whenever `inv` / `inv_vartime`
         report `is_some`, `gcd(v, M) = 1`, the value is `< M` and `value·v ≡ adjuster (mod M)`; `to_uint`'s non-negativity
         assertion never fires — full: `safegcd_inv_sound`, `safegcd_inv_vartime_sound`, `safegcd_inv_sound_gcd`,
         `safegcd_inv_vartime_sound_gcd`, `monty_inv_sound`, `safegcd_ct_vartime_agree_sound`.  Only COMPLETENESS
         (`gcd = 1 ⇒ is_some`) still needs the iteration bound (T10.4 (f)).
-/
import CB.Lemmas.C10Gcd
import CB.Lemmas.C10Jump
import CB.Lemmas.C10De
import CB.Lemmas.C10Conv
import CB.Lemmas.C10Final
import CB.Lemmas.C10Sound
import CB.Lemmas.C10Even
namespace CB.P10
open CB.InvMod2k CB.Gcd CB.SafeGcd

/-! ## T10.1 — `inv_mod2k`, `inv_mod2k_vartime`, `inv_mod2k_full_vartime` (fixed and boxed) -/

/-- `a` odd ⇒ the result is reported present, is `< 2^k`, and `a·x ≡ 1 (mod 2^k)`, for every
    `k ≤ BITS` (`BITS = w`, any width). -/
theorem inv_mod2k_correct (w a k : Nat) (hk : k ≤ w) (ha : a % 2 = 1) :
    (invMod2k w a k).2 = true ∧ (invMod2k w a k).1 < 2 ^ k ∧
    a * (invMod2k w a k).1 ≡ 1 [MOD 2 ^ k] := by
  refine ⟨by simp [invMod2k, ha], ?_⟩
  rw [ct_eq_ref hk]
  exact ref_spec hk ha

/-- `is_some` exactly when `k = 0` or `a` is odd (no hypothesis on `k`). -/
theorem inv_mod2k_is_some_iff (w a k : Nat) :
    (invMod2k w a k).2 = true ↔ (k = 0 ∨ a % 2 = 1) := by
  simp [invMod2k]

/-- `k = 0`: the result is `0` (the unique residue modulo 1). -/
theorem inv_mod2k_zero (w a : Nat) : (invMod2k w a 0).1 = 0 := by
  rw [ct_eq_ref (Nat.zero_le w)]; rfl

/-- The variants agree for every `a` (odd or even) and every `k ≤ BITS`: `inv_mod2k_vartime`
    does not panic and returns the same pair; the boxed vartime form returns the same pair;
    `inv_mod2k_full_vartime` returns the same value exactly when `is_some` holds. -/
theorem inv_mod2k_variants_agree (w a k : Nat) (hk : k ≤ w) :
    invMod2kVartime w a k = some (invMod2k w a k) ∧
    invMod2kVartimeBoxed w a k = invMod2k w a k ∧
    invMod2kFullVartime w a k =
      (if (invMod2k w a k).2 then some (invMod2k w a k).1 else none) := by
  have h1 := vtLoop_eq w a k 0 0 1 (by simp) (by omega)
  have h2 := vtLoopBoxed_eq w a k 0 0 1 (by simp) (by omega)
  have h3 := fullLoop_eq w a k 0 0 1 (by simp)
  have hc := ct_eq_ref (a := a) hk
  refine ⟨?_, ?_, ?_⟩
  · unfold invMod2kVartime; rw [h1]; simp only []
    rw [← hc]; rfl
  · unfold invMod2kVartimeBoxed; rw [h2, ← hc]; rfl
  · unfold invMod2kFullVartime; rw [h3, ← hc]
    by_cases h : k ≠ 0 ∧ a % 2 = 0
    · have : (invMod2k w a k).2 = false := by
        simp [invMod2k]; omega
      simp [h, this]
    · have : (invMod2k w a k).2 = true := by
        simp [invMod2k]; omega
      simp [h, this]

/-- Beyond the property's `k ≤ BITS` (since /repo 8dd1192 `inv_mod2k_vartime` no longer panics there):
    for every `k ≥ BITS` the fixed and boxed vartime forms still agree with `inv_mod2k` — the rounds
    `i ≥ BITS` contribute nothing, all return the inverse modulo `2^BITS`. -/
theorem inv_mod2k_variants_agree_beyond (w a k : Nat) (hk : w ≤ k) :
    invMod2kVartime w a k = some (invMod2k w a k) ∧
    invMod2kVartimeBoxed w a k = invMod2k w a k := by
  have hc := ct_eq_ref_beyond (a := a) hk
  refine ⟨?_, ?_⟩
  · unfold invMod2kVartime; rw [vt_eq_ref_beyond hk]; simp only []
    rw [← hc]; rfl
  · unfold invMod2kVartimeBoxed; rw [vtBoxed_eq_ref_beyond hk, ← hc]; rfl

/-- non-vacuity: a 2-limb odd value inverted modulo 2^100 -/
example : (invMod2k 128 0xfffffffffffffffffffffffefffffc2f 100).2 = true ∧
    (0xfffffffffffffffffffffffefffffc2f * (invMod2k 128 0xfffffffffffffffffffffffefffffc2f 100).1) % 2 ^ 100 = 1 := by
  decide +kernel


/-! ## T10.2 — `Uint::inv_mod` / `BoxedUint::inv_mod`: CRT recombination for `m = s·2^k`

The odd-modulus inverter (`inv_odd_mod`, safegcd — T10.4) enters as the hypothesis
`OddInvSpec inv w`: for odd `s < 2^w`, `inv a s = some x` iff `gcd(a, s) = 1`, and then `x < s` (for the unit
modulus `s = 1` also `x = 1` is admitted: the real inverter returns 1 for `a = 1`, `s = 1`),
`a·x ≡ 1 (mod s)`.  Callee exactness (`wrapping_mul/sub/add`, shifts, `trailing_zeros`) is C03–C05. -/

/-- for every modulus `1 ≤ m < 2^BITS` and every `a`: never panics, `is_some ↔ gcd(a, m) = 1`,
    and then `x < m` for `m ≥ 2` (the property's range clause; for `m = 1` the code may return 0 or 1)
    and `a·x ≡ 1 (mod m)`. -/
theorem inv_mod_crt (inv : Nat → Nat → Option Nat) (w a m : Nat) (H : OddInvSpec inv w)
    (ha : a < 2 ^ w) (hm0 : 0 < m) (hm : m < 2 ^ w) :
    match invModWith inv w a m with
    | R.some x => Nat.gcd a m = 1 ∧ (2 ≤ m → x < m) ∧ x ≤ m ∧ a * x ≡ 1 [MOD m]
    | R.none => Nat.gcd a m ≠ 1
    | R.panic => False := by
  have := invModWith_spec inv w a m H ha hm0 hm
  cases h : invModWith inv w a m with
  | some x =>
    rw [h] at this
    obtain ⟨g, b, c⟩ := this
    exact ⟨g, fun h2 => by omega, by omega, c⟩
  | none => rw [h] at this; exact this
  | panic => rw [h] at this; exact this

/-- the boxed duplicate (equal precisions) -/
theorem boxed_inv_mod_crt (inv : Nat → Nat → Option Nat) (w a m : Nat) (H : OddInvSpec inv w)
    (ha : a < 2 ^ w) (hm0 : 0 < m) (hm : m < 2 ^ w) :
    match invModBoxedWith inv w a m with
    | R.some x => Nat.gcd a m = 1 ∧ (2 ≤ m → x < m) ∧ x ≤ m ∧ a * x ≡ 1 [MOD m]
    | R.none => Nat.gcd a m ≠ 1
    | R.panic => False := by
  have := invModBoxedWith_spec inv w a m H ha hm0 hm
  cases h : invModBoxedWith inv w a m with
  | some x =>
    rw [h] at this
    obtain ⟨g, b, c⟩ := this
    exact ⟨g, fun h2 => by omega, by omega, c⟩
  | none => rw [h] at this; exact this
  | panic => rw [h] at this; exact this

/-- DESIGN §7 row 8, after the repair /repo be88d84 (`.expect("inverse mod 2^k exists")` →
    `.unwrap_or(ZERO)`): the option-returning `Uint::inv_mod` is total — with modulus 0 (`s = 0`,
    `k = BITS`) it answers `none` for every `a` and every inverter.  (Before the repair the model proved
    `R.panic` here; modulus 0 is outside C10's domain `m ≥ 1`, totality is C11's.) -/
theorem inv_mod_zero_modulus_none (inv : Nat → Nat → Option Nat) (w a : Nat) :
    (match invModWith inv w a 0 with | R.none => True | _ => False) :=
  invModWith_zero_modulus inv w a

/-- … and so does `BoxedUint::inv_mod(a, 0)`. -/
theorem boxed_inv_mod_zero_modulus_none (inv : Nat → Nat → Option Nat) (w a : Nat) :
    (match invModBoxedWith inv w a 0 with | R.none => True | _ => False) :=
  invModBoxedWith_zero_modulus inv w a

/-- non-vacuity: an inverter satisfying `OddInvSpec` exists (search below `s`), so the hypotheses
    of `inv_mod_crt` are satisfiable; concrete instance 7⁻¹ mod 40 = 23 with the table inverter. -/
example : (match invModWith (fun a s => (List.range s).find? (fun x => a * x % s == 1 % s)) 64 7 40 with
    | R.some x => decide (x = 23) | _ => false) = true := by decide +kernel

/-! ## T10.3 — `Uint::gcd`: common power of two and odd-operand selection

`og f g` stands for `SafeGcdInverter::gcd(&f, &g)`; hypothesis `OddGcdSpec og w`: `og f g = gcd(f, g)`
whenever at least one of `f`, `g` is odd.  (As written the code hands over an EVEN `f` whenever `s2`
is even — then `g` is odd; safegcd's first divstep swaps. See notes/C10.md.) -/

/-- `gcd(a, b)` for all `a, b < 2^BITS`, including zeros, equal values and powers of two. -/
theorem gcd_reduction (og : Nat → Nat → Nat) (w a b : Nat) (H : OddGcdSpec og w)
    (ha : a < 2 ^ w) (hb : b < 2 ^ w) : gcdWith og w a b = Nat.gcd a b :=
  gcdWith_spec og w a b H ha hb

/-- the `Gcd` trait's `gcd_vartime` (odd `self` → `Odd::gcd_vartime`, else the ct path) -/
theorem gcd_vartime_reduction (og ogv : Nat → Nat → Nat) (w a b : Nat) (H : OddGcdSpec og w)
    (Hv : OddGcdSpec ogv w) (ha : a < 2 ^ w) (hb : b < 2 ^ w) :
    gcdVartimeWith og ogv w a b = Nat.gcd a b :=
  gcdVartimeWith_spec og ogv w a b H Hv ha hb

/-- constant-time and vartime forms agree -/
theorem gcd_ct_vartime_agree (og ogv : Nat → Nat → Nat) (w a b : Nat) (H : OddGcdSpec og w)
    (Hv : OddGcdSpec ogv w) (ha : a < 2 ^ w) (hb : b < 2 ^ w) :
    gcdVartimeWith og ogv w a b = gcdWith og w a b := by
  rw [gcd_vartime_reduction og ogv w a b H Hv ha hb, gcd_reduction og w a b H ha hb]

/-- non-vacuity: `Nat.gcd` satisfies `OddGcdSpec`; gcd(48, 36) = 12 through the reduction -/
example : OddGcdSpec Nat.gcd 64 ∧ gcdWith Nat.gcd 64 48 36 = 12 :=
  ⟨fun _ _ _ _ _ => rfl, by decide +kernel⟩


/-! ## T10.4 — safegcd (src/modular/safegcd.rs) -/

/-- (b) `inv_mod2_62`: for an odd low word the result is in `[0, 2^62)` and inverts it modulo `2^62`. -/
theorem inv_mod2_62_correct (v : Nat) (rest : List Nat) (hv : v % 2 = 1) :
    0 ≤ invMod2_62 (v :: rest) ∧ invMod2_62 (v :: rest) < 2 ^ 62 ∧
    (invMod2_62 (v :: rest) * (v : Int)) % 2 ^ 62 = 1 :=
  invMod2_62_spec v rest hv

/-- (c) one `jump` on low limbs `fl, gl < 2^62` with `fl` odd or `delta > 0`: the inner loop ends
    (`steps = 0`) within its fuel of 64 trips; the returned `T` satisfies
    `T·(fl, gl) = 2^62·(f', g')`, `det T = 2^62`, and both rows have absolute sum `≤ 2^62`, which is the
    statement that no `i64` shift/multiply/add in the loop wrapped; oddness of the full-width `f`
    survives the batch. -/
theorem jump_matrix (f g : List Nat) (delta : Int) (hfl : f.headD 0 < 2 ^ 62) (hgl : g.headD 0 < 2 ^ 62)
    (hpre : f.headD 0 % 2 = 1 ∨ 0 < delta) :
    ∃ f' g' : Int,
      (jump f g delta).2.t00 * (f.headD 0 : Nat) + (jump f g delta).2.t01 * (g.headD 0 : Nat) = 2 ^ 62 * f' ∧
      (jump f g delta).2.t10 * (f.headD 0 : Nat) + (jump f g delta).2.t11 * (g.headD 0 : Nat) = 2 ^ 62 * g' ∧
      |(jump f g delta).2.t00| + |(jump f g delta).2.t01| ≤ 2 ^ 62 ∧
      |(jump f g delta).2.t10| + |(jump f g delta).2.t11| ≤ 2 ^ 62 ∧
      (jump f g delta).2.t00 * (jump f g delta).2.t11 - (jump f g delta).2.t01 * (jump f g delta).2.t10 = 2 ^ 62 ∧
      (∀ A B : Int, f.headD 0 % 2 = 1 →
        (f' + ((jump f g delta).2.t00 * A + (jump f g delta).2.t01 * B)) % 2 = 1) :=
  jump_spec f g delta hfl hgl hpre

/-- (c) for the full-width operands `F = fl + 2^62·A`, `G = gl + 2^62·B` (any high parts): `T·(F, G)`
    is exactly divisible by `2^62`; with `F` odd the quotient keeps `F'` odd and
    `gcd(F', G') = gcd(F, G)`. -/
theorem jump_preserves_gcd (f g : List Nat) (delta : Int) (hfl : f.headD 0 < 2 ^ 62)
    (hgl : g.headD 0 < 2 ^ 62) (A B : Int) (hodd : f.headD 0 % 2 = 1) :
    ∃ F' G' : Int,
      (jump f g delta).2.t00 * ((f.headD 0 : Nat) + 2 ^ 62 * A) + (jump f g delta).2.t01 * ((g.headD 0 : Nat) + 2 ^ 62 * B) = 2 ^ 62 * F' ∧
      (jump f g delta).2.t10 * ((f.headD 0 : Nat) + 2 ^ 62 * A) + (jump f g delta).2.t11 * ((g.headD 0 : Nat) + 2 ^ 62 * B) = 2 ^ 62 * G' ∧
      F' % 2 = 1 ∧
      Int.gcd F' G' = Int.gcd ((f.headD 0 : Nat) + 2 ^ 62 * A) ((g.headD 0 : Nat) + 2 ^ 62 * B) :=
  jump_full f g delta hfl hgl A B hodd

/-- non-vacuity: the matrix of one batch for f = 7, g = 12, δ = 1 -/
example : (jump [7] [12] 1).2.t00 * 7 + (jump [7] [12] 1).2.t01 * 12 = 2 ^ 62 * 1 ∧
    (jump [7] [12] 1).2.t10 * 7 + (jump [7] [12] 1).2.t11 * 12 = 0 := by decide +kernel


/-- (d) `fg`: for well-formed `n ≥ 2`-limb operands, a matrix whose rows have absolute sum `≤ 2^62`
    (what `jump_matrix` guarantees) and `T·(F, G)` within the signed range of the limbs, the outputs
    are well formed and are exactly `⌊(t00·F + t01·G)/2^62⌋`, `⌊(t10·F + t11·G)/2^62⌋`
    (`uval` = two's-complement value; `Q = 2^62`). -/
theorem fg_exact (f g : List Nat) (t : Mat) (hf : WF62 f) (hg : WF62 g) (hl : f.length = g.length)
    (hlen : 2 ≤ f.length)
    (hb0 : |t.t00| + |t.t01| ≤ 2 ^ 62) (hb1 : |t.t10| + |t.t11| ≤ 2 ^ 62)
    (hr0a : -((Q ^ f.length : Nat) : Int) ≤ 2 * (t.t00 * uval f + t.t01 * uval g))
    (hr0b : 2 * (t.t00 * uval f + t.t01 * uval g) < ((Q ^ f.length : Nat) : Int))
    (hr1a : -((Q ^ f.length : Nat) : Int) ≤ 2 * (t.t10 * uval f + t.t11 * uval g))
    (hr1b : 2 * (t.t10 * uval f + t.t11 * uval g) < ((Q ^ f.length : Nat) : Int)) :
    (fg f g t).1.length = f.length ∧ WF62 (fg f g t).1 ∧
    uval (fg f g t).1 = (t.t00 * uval f + t.t01 * uval g) / (Q : Int) ∧
    (fg f g t).2.length = f.length ∧ WF62 (fg f g t).2 ∧
    uval (fg f g t).2 = (t.t10 * uval f + t.t11 * uval g) / (Q : Int) :=
  fg_spec f g t hf hg hl hlen hb0 hb1 hr0a hr0b hr1a hr1b

/-- (d) `de`: with `d, e ∈ (-2M, M)`, `inverse·M ≡ 1 (mod 2^62)` (from `inv_mod2_62_correct`) and
    `2^64·M ≤ 2^(62n)` (the limb geometry `bits + 64 ≤ 62n`), there are integers `md`, `me` with
    `2^62·d' = t00·d + t01·e + md·M` and `2^62·e' = t10·d + t11·e + me·M` EXACTLY, and
    `d', e' ∈ (-2M, M)` again. -/
theorem de_exact (modulus d e : List Nat) (inverse : Int) (t : Mat)
    (hd : WF62 d) (he : WF62 e) (hm : WF62 modulus)
    (hl : d.length = e.length) (hl2 : d.length = modulus.length) (hlen : 2 ≤ d.length)
    (hb0 : |t.t00| + |t.t01| ≤ 2 ^ 62) (hb1 : |t.t10| + |t.t11| ≤ 2 ^ 62)
    (hM : 0 < uval modulus) (hD1 : -(2 * uval modulus) < uval d) (hD2 : uval d < uval modulus)
    (hE1 : -(2 * uval modulus) < uval e) (hE2 : uval e < uval modulus)
    (hcap : 2 ^ 64 * uval modulus ≤ ((Q ^ d.length : Nat) : Int))
    (hinv : inverse * uval modulus ≡ 1 [ZMOD 2 ^ 62]) :
    ∃ md me : Int,
      (de modulus inverse t d e).1.length = d.length ∧ WF62 (de modulus inverse t d e).1 ∧
      (de modulus inverse t d e).2.length = d.length ∧ WF62 (de modulus inverse t d e).2 ∧
      2 ^ 62 * uval (de modulus inverse t d e).1 = t.t00 * uval d + t.t01 * uval e + md * uval modulus ∧
      2 ^ 62 * uval (de modulus inverse t d e).2 = t.t10 * uval d + t.t11 * uval e + me * uval modulus ∧
      -(2 * uval modulus) < uval (de modulus inverse t d e).1 ∧ uval (de modulus inverse t d e).1 < uval modulus ∧
      -(2 * uval modulus) < uval (de modulus inverse t d e).2 ∧ uval (de modulus inverse t d e).2 < uval modulus :=
  de_spec modulus d e inverse t hd he hm hl hl2 hlen hb0 hb1 hM hD1 hD2 hE1 hE2 hcap hinv

/-- the `UnsatInt` primitives behind (d): wrapping add / mul-by-`i64` / neg modulo `2^(62n)` and the
    exact 62-bit arithmetic shift -/
theorem unsat_arith (a b : List Nat) (t : Int) (ha : WF62 a) (hl : a.length = b.length)
    (ht1 : -(2 ^ 63) ≤ t) (ht2 : t ≤ 2 ^ 63) :
    uvalN (uadd a b) = (uvalN a + uvalN b) % Q ^ a.length ∧
    ((uvalN (umul a t) : Nat) : Int) ≡ (uvalN a : Nat) * t [ZMOD ((Q ^ a.length : Nat) : Int)] ∧
    uvalN (uneg a) = (Q ^ a.length - uvalN a) % Q ^ a.length ∧
    (2 ≤ a.length → uval (ushr a) = uval a / (Q : Int)) :=
  ⟨(uadd_spec a b hl).2.2, (umul_spec a t ha ht1 ht2).2.2, (uneg_spec a ha).2.2,
   fun h => (ushr_spec a ha h).2.2⟩

/-- non-vacuity of (d): one `fg` step on 3-limb operands f = 7, g = 12 with the matrix of the batch -/
example : uval (fg [7, 0, 0] [12, 0, 0] (jump [7] [12] 1).2).1 = 1 ∧
    uval (fg [7, 0, 0] [12, 0, 0] (jump [7] [12] 1).2).2 = 0 := by decide +kernel


/-- (a) `from_uint` (the `impl_limb_convert!` bit loop as written): `n` well-formed 62-bit limbs with
    the same value, whenever they can hold the input (`64·LIMBS ≤ 62·n`). -/
theorem from_uint_value (x : List Nat) (n : Nat) (hx : CB.WF x) (hfit : 64 * x.length ≤ 62 * n) :
    (fromUint x n).length = n ∧ WF62 (fromUint x n) ∧ uvalN (fromUint x n) = CB.val x :=
  fromUint_spec x n hx hfit

/-- (a) `to_uint`: `sat` well-formed 64-bit words holding the low `64·sat` bits of the limb value. -/
theorem to_uint_value (u : List Nat) (sat : Nat) (hu : WF62 u) (hfit : 64 * sat ≤ 62 * u.length) :
    (toUint u sat).length = sat ∧ CB.WF (toUint u sat) ∧
    CB.val (toUint u sat) = uvalN u % 2 ^ (64 * sat) :=
  toUint_spec u sat hu hfit

/-- (a) the conversions are inverse bijections between `Uint<LIMBS>` values and the non-negative
    unsaturated integers below `2^(64·LIMBS)`; the crate's limb count `safegcd_nlimbs!` satisfies the
    side condition with 64 bits to spare. -/
theorem unsat_conversions_inverse (x u : List Nat) (n sat : Nat) (hx : CB.WF x) (hu : WF62 u)
    (hfx : 64 * x.length ≤ 62 * n) (hfu : 64 * sat ≤ 62 * u.length) (hval : uvalN u < 2 ^ (64 * sat)) :
    toUint (fromUint x n) x.length = x ∧ fromUint (toUint u sat) u.length = u ∧
    (∀ bits, bits + 64 ≤ 62 * nlimbsFor bits) :=
  ⟨toUint_fromUint x n hx hfx, fromUint_toUint u sat hu hfu hval, nlimbs_geometry⟩

/-- non-vacuity of (a): a 2-word value through 4 unsaturated limbs and back -/
example : uvalN (fromUint [0xfedcba9876543210, 0x0123456789abcdef] 4) = 0x0123456789abcdeffedcba9876543210 ∧
    toUint (fromUint [0xfedcba9876543210, 0x0123456789abcdef] 4) 2 =
      [0xfedcba9876543210, 0x0123456789abcdef] := by decide +kernel


/-! ## T10.4 (e), (f) — the whole inverter / gcd, given that the loop reached `g = 0`

`H_divsteps_done` is exactly the crate's `debug_assert!(g.eq(&UnsatInt::ZERO))` after the fixed-count loop
(`safegcd.rs:234`; it runs on every executed line in the `dbgchk` profile), as reported by the model's `.gZero`.
Operands: `sat ≥ 1` 64-bit words each; modulus odd; adjuster `< modulus` (`ONE` for `inv_odd_mod` with
`M ≥ 3`, `R² mod M` for the Montgomery forms with any odd `M ≥ 1`). -/

/- FULL STATEMENT (unproved): `safegcd_inv_full`, `safegcd_gcd_full` — the three theorems below WITHOUT the
   hypothesis `H_divsteps_done`, i.e. additionally
     ∀ sat mw aw vw, … → ((Inverter.new sat mw aw).inv sat vw).gZero = true
     ∀ sat fw gw, …    → (gcdFixed false sat fw gw).gZero = true
   (the Bernstein–Yang iteration bound `iterations(bits) = (49·d + 80 or 57)/17` batches of 62 divsteps;
   the published proof of the bound is computer-assisted). -/

/-- `SafeGcdInverter::new(M, adj).inv(v)` (constant-time form): reports `is_some` exactly when `gcd(v, M) = 1`;
    the `to_uint` non-negativity assertion does not fire; the value is `< M` and `value·v ≡ adj (mod M)`. -/
theorem safegcd_inv_partial (sat : Nat) (hsat : 1 ≤ sat)
    (mw aw vw : List Nat) (hmw : CB.WF mw) (haw : CB.WF aw) (hvw : CB.WF vw)
    (lm : mw.length = sat) (la : aw.length = sat) (lv : vw.length = sat)
    (hodd : CB.val mw % 2 = 1) (hadj : CB.val aw < CB.val mw)
    (H_divsteps_done : ((Inverter.new sat mw aw).inv sat vw).gZero = true) :
    (((Inverter.new sat mw aw).inv sat vw).isSome = true ↔ Nat.gcd (CB.val vw) (CB.val mw) = 1) ∧
    ((Inverter.new sat mw aw).inv sat vw).negative = false ∧
    (((Inverter.new sat mw aw).inv sat vw).isSome = true →
      CB.val ((Inverter.new sat mw aw).inv sat vw).value < CB.val mw ∧
      CB.val ((Inverter.new sat mw aw).inv sat vw).value * CB.val vw ≡ CB.val aw [MOD CB.val mw]) :=
  inv_fixed_spec sat hsat mw aw vw hmw haw hvw lm la lv hodd hadj H_divsteps_done

/-- `inv_vartime`: the same, given that the `while g != 0` loop ends within the model's fuel
    (`iterations(62n, 62n) + 1` trips — implied by the bound behind `H_divsteps_done`). -/
theorem safegcd_inv_vartime_partial (sat : Nat) (hsat : 1 ≤ sat)
    (mw aw vw : List Nat) (hmw : CB.WF mw) (haw : CB.WF aw) (hvw : CB.WF vw)
    (lm : mw.length = sat) (la : aw.length = sat) (lv : vw.length = sat)
    (hodd : CB.val mw % 2 = 1) (hadj : CB.val aw < CB.val mw)
    (H_divsteps_done : ((Inverter.new sat mw aw).invVartime sat vw).gZero = true) :
    (((Inverter.new sat mw aw).invVartime sat vw).isSome = true ↔ Nat.gcd (CB.val vw) (CB.val mw) = 1) ∧
    ((Inverter.new sat mw aw).invVartime sat vw).negative = false ∧
    (((Inverter.new sat mw aw).invVartime sat vw).isSome = true →
      CB.val ((Inverter.new sat mw aw).invVartime sat vw).value < CB.val mw ∧
      CB.val ((Inverter.new sat mw aw).invVartime sat vw).value * CB.val vw ≡ CB.val aw [MOD CB.val mw]) :=
  inv_vartime_spec sat hsat mw aw vw hmw haw hvw lm la lv hodd hadj H_divsteps_done

/-- `SafeGcdInverter::gcd(f, g)` / `gcd_vartime` with an ODD `f` (`Odd<Uint>::gcd_vartime`, `Uint::gcd` when
    it hands over an odd `f`): the mathematical gcd, for every `g` including 0.
    (`Uint::gcd` handing over an EVEN `f` with an odd `g`: `safegcd_gcd_any_f_partial` below.) -/
theorem safegcd_gcd_partial (vartime : Bool) (sat : Nat) (hsat : 1 ≤ sat)
    (fw gw : List Nat) (hfw : CB.WF fw) (hgw : CB.WF gw) (lf : fw.length = sat) (lg : gw.length = sat)
    (hodd : CB.val fw % 2 = 1)
    (H_divsteps_done : (gcdFixed vartime sat fw gw).gZero = true) :
    (gcdFixed vartime sat fw gw).negative = false ∧
    CB.val (gcdFixed vartime sat fw gw).value = Nat.gcd (CB.val fw) (CB.val gw) :=
  gcd_fixed_spec vartime sat hsat fw gw hfw hgw lf lg hodd H_divsteps_done

/-- … and with an ODD `g` and `f` of ANY parity — what `Uint::gcd` hands over when `s2` is even
    (`delta = 1 > 0` and `g` odd: the first divstep swaps, `f` is odd from then on). -/
theorem safegcd_gcd_any_f_partial (vartime : Bool) (sat : Nat) (hsat : 1 ≤ sat)
    (fw gw : List Nat) (hfw : CB.WF fw) (hgw : CB.WF gw) (lf : fw.length = sat) (lg : gw.length = sat)
    (hodd : CB.val gw % 2 = 1)
    (H_divsteps_done : (gcdFixed vartime sat fw gw).gZero = true) :
    (gcdFixed vartime sat fw gw).negative = false ∧
    CB.val (gcdFixed vartime sat fw gw).value = Nat.gcd (CB.val fw) (CB.val gw) :=
  gcd_fixed_spec_pos vartime sat hsat fw gw hfw hgw lf lg hodd H_divsteps_done

/-- T10.3 + T10.4 composed: `Uint::<n>::gcd(a, b)` — the reduction by the common power of two with the
    safegcd instance `SafeGcdInverter::<n, _>::gcd` plugged in (`CB.Gcd.uintGcd`, the function the driver
    runs as L1) — is `Nat.gcd a b` for ALL `a, b < 2^(64n)`, zeros included; the only hypothesis left is
    `H_divsteps_done` for the operand pairs handed to safegcd. -/
theorem uint_gcd_partial (n : Nat) (hn : 1 ≤ n)
    (H_divsteps_done : ∀ f g, f < 2 ^ (64 * n) → g < 2 ^ (64 * n) →
      (gcdFixed false n (CB.toLimbs n f) (CB.toLimbs n g)).gZero = true)
    (a b : Nat) (ha : a < 2 ^ (64 * n)) (hb : b < 2 ^ (64 * n)) :
    uintGcd n a b = Nat.gcd a b := by
  apply gcd_reduction _ (64 * n) a b _ ha hb
  intro f g hf hg hor
  have e64 : (2 : Nat) ^ (64 * n) = CB.B ^ n := by rw [CB.B_def, pow_mul]; norm_num
  have vf : CB.val (CB.toLimbs n f) = f := by
    rw [CB.val_toLimbs, Nat.mod_eq_of_lt (by rw [← e64]; exact hf)]
  have vg : CB.val (CB.toLimbs n g) = g := by
    rw [CB.val_toLimbs, Nat.mod_eq_of_lt (by rw [← e64]; exact hg)]
  show CB.val (gcdFixed false n (CB.toLimbs n f) (CB.toLimbs n g)).value = Nat.gcd f g
  rcases hor with ho | ho
  · have := (safegcd_gcd_partial false n hn _ _ (CB.toLimbs_WF n f) (CB.toLimbs_WF n g)
      (CB.toLimbs_length n f) (CB.toLimbs_length n g) (by rw [vf]; exact ho) (H_divsteps_done f g hf hg)).2
    rw [this, vf, vg]
  · have := (safegcd_gcd_any_f_partial false n hn _ _ (CB.toLimbs_WF n f) (CB.toLimbs_WF n g)
      (CB.toLimbs_length n f) (CB.toLimbs_length n g) (by rw [vg]; exact ho) (H_divsteps_done f g hf hg)).2
    rw [this, vf, vg]

/-! ## T10.6 — constant-time and vartime forms agree (given `H_divsteps_done` for both) -/

theorem safegcd_ct_vartime_agree_partial (sat : Nat) (hsat : 1 ≤ sat)
    (mw aw vw : List Nat) (hmw : CB.WF mw) (haw : CB.WF aw) (hvw : CB.WF vw)
    (lm : mw.length = sat) (la : aw.length = sat) (lv : vw.length = sat)
    (hodd : CB.val mw % 2 = 1) (hadj : CB.val aw < CB.val mw)
    (H_divsteps_done : ((Inverter.new sat mw aw).inv sat vw).gZero = true)
    (H_divsteps_done_vt : ((Inverter.new sat mw aw).invVartime sat vw).gZero = true) :
    ((Inverter.new sat mw aw).inv sat vw).isSome = ((Inverter.new sat mw aw).invVartime sat vw).isSome ∧
    (((Inverter.new sat mw aw).inv sat vw).isSome = true →
      CB.val ((Inverter.new sat mw aw).inv sat vw).value = CB.val ((Inverter.new sat mw aw).invVartime sat vw).value) := by
  obtain ⟨a1, _, c1⟩ := safegcd_inv_partial sat hsat mw aw vw hmw haw hvw lm la lv hodd hadj H_divsteps_done
  obtain ⟨a2, _, c2⟩ := safegcd_inv_vartime_partial sat hsat mw aw vw hmw haw hvw lm la lv hodd hadj H_divsteps_done_vt
  have hiff : ((Inverter.new sat mw aw).inv sat vw).isSome = true ↔
      ((Inverter.new sat mw aw).invVartime sat vw).isSome = true := a1.trans a2.symm
  refine ⟨Bool.eq_iff_iff.mpr hiff, fun h => ?_⟩
  obtain ⟨l1, m1⟩ := c1 h
  obtain ⟨l2, m2⟩ := c2 (hiff.mp h)
  have hcop : Nat.Coprime (CB.val mw) (CB.val vw) := by
    have := a1.mp h; rw [Nat.gcd_comm] at this; exact this
  have := Nat.ModEq.cancel_right_of_coprime hcop (m1.trans m2.symm)
  unfold Nat.ModEq at this
  rwa [Nat.mod_eq_of_lt l1, Nat.mod_eq_of_lt l2] at this

/-- gcd: both forms return `Nat.gcd` -/
theorem safegcd_gcd_ct_vartime_agree_partial (sat : Nat) (hsat : 1 ≤ sat)
    (fw gw : List Nat) (hfw : CB.WF fw) (hgw : CB.WF gw) (lf : fw.length = sat) (lg : gw.length = sat)
    (hodd : CB.val fw % 2 = 1)
    (H_divsteps_done : (gcdFixed false sat fw gw).gZero = true)
    (H_divsteps_done_vt : (gcdFixed true sat fw gw).gZero = true) :
    CB.val (gcdFixed false sat fw gw).value = CB.val (gcdFixed true sat fw gw).value := by
  rw [(safegcd_gcd_partial false sat hsat fw gw hfw hgw lf lg hodd H_divsteps_done).2,
      (safegcd_gcd_partial true sat hsat fw gw hfw hgw lf lg hodd H_divsteps_done_vt).2]

/-! ## T10.5 — Montgomery-form inversion: adjuster `R² mod M`, operand `a·R mod M`

`MontyForm::inv` hands the Montgomery representation `v = a·R mod M` to the inverter built with adjuster
`R² mod M` (`monty_form/inv.rs:20-33, 84-87`); the result `x` is again a Montgomery representation.  Retrieving
(multiplying by `R⁻¹`, exactness: C08) gives the inverse of `a`: "the retrieved values multiply to 1". -/

theorem monty_inv_partial (sat : Nat) (hsat : 1 ≤ sat)
    (mw aw vw : List Nat) (hmw : CB.WF mw) (haw : CB.WF aw) (hvw : CB.WF vw)
    (lm : mw.length = sat) (la : aw.length = sat) (lv : vw.length = sat)
    (hodd : CB.val mw % 2 = 1)
    (a R Rinv : Nat) (hR : R * Rinv ≡ 1 [MOD CB.val mw])
    (hv : CB.val vw = a * R % CB.val mw) (hadjv : CB.val aw = R * R % CB.val mw)
    (H_divsteps_done : ((Inverter.new sat mw aw).inv sat vw).gZero = true) :
    (((Inverter.new sat mw aw).inv sat vw).isSome = true ↔ Nat.gcd a (CB.val mw) = 1) ∧
    (((Inverter.new sat mw aw).inv sat vw).isSome = true →
      (CB.val ((Inverter.new sat mw aw).inv sat vw).value * Rinv % CB.val mw) * (a % CB.val mw)
        ≡ 1 [MOD CB.val mw]) := by
  have hMpos : 0 < CB.val mw := by omega
  have hadj : CB.val aw < CB.val mw := by rw [hadjv]; exact Nat.mod_lt _ hMpos
  obtain ⟨a1, _, c1⟩ := safegcd_inv_partial sat hsat mw aw vw hmw haw hvw lm la lv hodd hadj H_divsteps_done
  have hRcop : Nat.Coprime R (CB.val mw) := Nat.coprime_of_mul_modEq_one Rinv hR
  have hgcd : Nat.gcd (CB.val vw) (CB.val mw) = Nat.gcd a (CB.val mw) := by
    rw [hv, (Nat.mod_modEq (a * R) (CB.val mw)).gcd_eq]
    exact Nat.Coprime.gcd_mul_right_cancel a hRcop
  rw [hgcd] at a1
  refine ⟨a1, fun h => ?_⟩
  obtain ⟨_, m1⟩ := c1 h
  generalize CB.val ((Inverter.new sat mw aw).inv sat vw).value = X at *
  generalize CB.val mw = M at *
  have h1 : X * (a * R) ≡ R * R [MOD M] := by
    have e1 : X * CB.val vw ≡ X * (a * R) [MOD M] := by
      rw [hv]; exact Nat.ModEq.mul_left _ (Nat.mod_modEq _ _)
    have e2 : CB.val aw ≡ R * R [MOD M] := by rw [hadjv]; exact Nat.mod_modEq _ _
    exact e1.symm.trans (m1.trans e2)
  have h2 : (X * Rinv % M) * (a % M) ≡ X * Rinv * a [MOD M] :=
    Nat.ModEq.mul (Nat.mod_modEq _ _) (Nat.mod_modEq _ _)
  refine h2.trans ?_
  calc X * Rinv * a = X * Rinv * a * 1 := by ring
    _ ≡ X * Rinv * a * (R * Rinv) [MOD M] := Nat.ModEq.mul_left _ hR.symm
    _ = X * (a * R) * (Rinv * Rinv) := by ring
    _ ≡ R * R * (Rinv * Rinv) [MOD M] := Nat.ModEq.mul_right _ h1
    _ = (R * Rinv) * (R * Rinv) := by ring
    _ ≡ 1 * 1 [MOD M] := Nat.ModEq.mul hR hR

/-- non-vacuity: 3⁻¹ mod 7 through the whole constant-time inverter (one word, adjuster ONE): the
    hypothesis `H_divsteps_done` holds and the result is 5 -/
example : ((Inverter.new 1 [7] [1]).inv 1 [3]).gZero = true ∧
    ((Inverter.new 1 [7] [1]).inv 1 [3]).isSome = true ∧
    ((Inverter.new 1 [7] [1]).inv 1 [3]).value = [5] := by decide +kernel

/-- non-vacuity: gcd(21, 14) = 7 through `SafeGcdInverter::gcd` -/
example : (gcdFixed false 1 [21] [14]).gZero = true ∧ (gcdFixed false 1 [21] [14]).value = [7] := by
  decide +kernel

/-! ## coverage round — the safegcd building blocks the correspondence run reaches through
     `crypto_bigint::verif_hooks` (`c10.hook.*`).  `inv_mod2_62_correct`, `jump_matrix`, `jump_preserves_gcd`,
     `fg_exact`, `de_exact`, `unsat_arith`, `from_uint_value`, `to_uint_value` above are statements about exactly
     the functions the hook ops call; the remaining ones follow. -/

/-- `iterations(f_bits, g_bits)` with the constants regenerated from the source (`CB.Extracted`) is the bound of
    Bernstein–Yang Figure 11.1 on `d = max(f_bits, g_bits)`: `⌊(49 d + 80)/17⌋` below 46 bits, `⌊(49 d + 57)/17⌋`
    from 46 bits on. -/
theorem iterations_formula (f g : Nat) :
    iterations f g = (49 * max f g + (if max f g < 46 then 80 else 57)) / 17 := by
  have hm : (if f < g then g else f) = max f g := by
    rw [Nat.max_def]; split <;> split <;> omega
  unfold iterations
  simp only [hm]
  rfl

/-- `UnsatInt::eq` and `UnsatInt::is_negative` decide equality and the sign of the two's-complement value. -/
theorem unsat_eq_is_negative (a b : List Nat) (ha : WF62 a) (hb : WF62 b) (hl : a.length = b.length)
    (hne : a ≠ []) :
    (SafeGcd.ueq a b = true ↔ uval a = uval b) ∧ (uisNeg a = true ↔ uval a < 0) := by
  refine ⟨ueq_uval a b ha hb hl hne, ?_⟩
  have hlt : ((uvalN a : Nat) : Int) < ((Q ^ a.length : Nat) : Int) := by exact_mod_cast uvalN_lt ha
  have h0 : (0 : Int) ≤ ((uvalN a : Nat) : Int) := Int.natCast_nonneg _
  rw [uval_eq]
  cases h : uisNeg a
  · simp only [Bool.false_eq_true, if_false, false_iff]; omega
  · simp only [if_true, true_iff]; omega

/-- `SafeGcdInverter::norm` / `BoxedSafeGcdInverter::norm` (`c10.hook.norm`, `c10.hook.bnorm`): for every limb
    count, every `value ∈ (−2M, M)` and both values of `negate`, the result is the representative of `±value` in
    `[0, M)`. -/
theorem inverter_norm_exact (m v : List Nat) (negate : Bool) (hm : WF62 m) (hv : WF62 v) (hl : v.length = m.length)
    (hne : v ≠ []) (hM : 0 < uval m) (h1 : -(2 * uval m) < uval v) (h2 : uval v < uval m)
    (hcap : 4 * uval m ≤ ((Q ^ v.length : Nat) : Int)) :
    (norm m v negate).length = v.length ∧ WF62 (norm m v negate) ∧
    uval (norm m v negate) = (if negate then -uval v else uval v) % uval m := by
  obtain ⟨l, w, p0, p1, c⟩ := norm_spec m v negate hm hv hl hne hM h1 h2 hcap
  refine ⟨l, w, ?_⟩
  have := Int.emod_emod_of_dvd (uval (norm m v negate)) (dvd_refl (uval m))
  rw [← Int.emod_eq_of_lt p0 p1]
  exact c

/-- the boxed `leading_zeros` AS WRITTEN (it walks up from the least significant limb and stops after the first
    ZERO limb): whenever the lowest limb is zero the answer is 62, whatever the value — e.g. `2^62·x` in any
    number of limbs. `bits()` is then `62·n − 62`. (Documented as an observation in notes/C10.md: the function
    only feeds `iterations`, whose 62-fold margin hides it.) -/
theorem boxed_leading_zeros_low_limb_zero (l : List Nat) : ulzBoxed (0 :: l) = 62 := by
  have hf : ∀ (l : List Nat) (c : Nat), ulzGoBoxed l false c = c := by
    intro l
    induction l with
    | nil => intro c; rfl
    | cons x xs ih => intro c; show ulzGoBoxed xs (false && x != 0) (c + 0) = c; simpa using ih c
  show ulzGoBoxed l (true && (0 : Nat) != 0) (0 + (lz64 0 - 2)) = 62
  have : (true && (0 : Nat) != 0) = false := by decide
  rw [this, hf]
  decide

/-- witnesses: the value 1 in three limbs has 185 leading zeros, the boxed routine says 123; limbs `[1, 1, 1]`
    (a 125-bit value, 61 leading zeros): the boxed routine says 183, i.e. `bits() = 3`. -/
example : ulz [1, 0, 0] = 185 ∧ ulzBoxed [1, 0, 0] = 123 ∧ ulz [1, 1, 1] = 61 ∧ ulzBoxed [1, 1, 1] = 183 ∧
    ubitsBoxed [1, 1, 1] = 3 := by decide

/-- non-vacuity of `inverter_norm_exact` / `unsat_eq_is_negative`: M = 7 in three limbs, value −9 ∈ (−14, 7):
    `norm` gives 5, and 2 with `negate`. -/
example : uval (uneg [9, 0, 0]) = -9 ∧ uisNeg (uneg [9, 0, 0]) = true ∧
    norm [7, 0, 0] (uneg [9, 0, 0]) false = [5, 0, 0] ∧ norm [7, 0, 0] (uneg [9, 0, 0]) true = [2, 0, 0] := by
  decide +kernel

/-! ## T10.7 — soundness of the inverters with NO hypothesis about the trip count ("never a wrong inverse")

`is_some = f.eq(ONE) | f.eq(MINUS_ONE)` (`safegcd.rs`, `SafeGcdInverter::inv`) does not look at `g`, and the loop invariants
`d·v ≡ f·adj (mod M)`, `d ∈ (−2M, M)`, `gcd(f, g) = gcd(M, v)` hold after ANY number of batches (T10.4 (e)).  So the half
"`is_some` ⇒ the value is the inverse" needs no iteration bound: the theorems below are the `_partial` theorems' soundness
clauses WITHOUT `H_divsteps_done` — for every limb count, every odd modulus, every adjuster `< M`, every `v`.  What still
needs `H_divsteps_done` is only completeness (`gcd(v, M) = 1 ⇒ is_some`): were the fixed trip count too small, the inverter
could answer `none` for an invertible `v`, but it could never answer `some(wrong)`.
`negative = false` (the `to_uint` assertion) is also unconditional: `norm` maps every `d ∈ (−2M, M)` into `[0, M)`. -/

/-- `SafeGcdInverter::new(M, adj).inv(v)` (constant-time form), NO hypothesis on `gZero`: the `to_uint` non-negativity
    assertion never fires, and whenever `is_some` is reported the value is `< M` and `value·v ≡ adj (mod M)`. -/
theorem safegcd_inv_sound (sat : Nat) (hsat : 1 ≤ sat)
    (mw aw vw : List Nat) (hmw : CB.WF mw) (haw : CB.WF aw) (hvw : CB.WF vw)
    (lm : mw.length = sat) (la : aw.length = sat) (lv : vw.length = sat)
    (hodd : CB.val mw % 2 = 1) (hadj : CB.val aw < CB.val mw) :
    ((Inverter.new sat mw aw).inv sat vw).negative = false ∧
    (((Inverter.new sat mw aw).inv sat vw).isSome = true →
      CB.val ((Inverter.new sat mw aw).inv sat vw).value < CB.val mw ∧
      CB.val ((Inverter.new sat mw aw).inv sat vw).value * CB.val vw ≡ CB.val aw [MOD CB.val mw]) := by
  obtain ⟨a, b⟩ := inv_fixed_sound sat hsat mw aw vw hmw haw hvw lm la lv hodd hadj
  exact ⟨a, fun h => (b h).2⟩

/-- `inv_vartime`: the same, whether or not the `while g != 0` loop ended within the model's fuel (the lemma behind it,
    `inv_vartime_sound_fuel`, holds for ANY fuel). -/
theorem safegcd_inv_vartime_sound (sat : Nat) (hsat : 1 ≤ sat)
    (mw aw vw : List Nat) (hmw : CB.WF mw) (haw : CB.WF aw) (hvw : CB.WF vw)
    (lm : mw.length = sat) (la : aw.length = sat) (lv : vw.length = sat)
    (hodd : CB.val mw % 2 = 1) (hadj : CB.val aw < CB.val mw) :
    ((Inverter.new sat mw aw).invVartime sat vw).negative = false ∧
    (((Inverter.new sat mw aw).invVartime sat vw).isSome = true →
      CB.val ((Inverter.new sat mw aw).invVartime sat vw).value < CB.val mw ∧
      CB.val ((Inverter.new sat mw aw).invVartime sat vw).value * CB.val vw ≡ CB.val aw [MOD CB.val mw]) := by
  obtain ⟨a, b⟩ := inv_vartime_sound sat hsat mw aw vw hmw haw hvw lm la lv hodd hadj
  exact ⟨a, fun h => (b h).2⟩

/-- `is_some` is never reported for a non-invertible `v`: `is_some ⇒ gcd(v, M) = 1`, NO hypothesis on `gZero`.
    Stated for EVERY adjuster `< M` (it comes from the loop invariant `gcd(f, g) = gcd(M, v)` with `f = ±1`, not from the
    congruence); the adjuster `ONE` of `inv_odd_mod` (`CB.val aw = 1`, `M ≥ 3`) is the instance where, by
    `safegcd_inv_sound`, the value is moreover the true inverse `value·v ≡ 1 (mod M)`. -/
theorem safegcd_inv_sound_gcd (sat : Nat) (hsat : 1 ≤ sat)
    (mw aw vw : List Nat) (hmw : CB.WF mw) (haw : CB.WF aw) (hvw : CB.WF vw)
    (lm : mw.length = sat) (la : aw.length = sat) (lv : vw.length = sat)
    (hodd : CB.val mw % 2 = 1) (hadj : CB.val aw < CB.val mw) :
    ((Inverter.new sat mw aw).inv sat vw).isSome = true → Nat.gcd (CB.val vw) (CB.val mw) = 1 :=
  fun h => ((inv_fixed_sound sat hsat mw aw vw hmw haw hvw lm la lv hodd hadj).2 h).1

/-- … and for `inv_vartime`. -/
theorem safegcd_inv_vartime_sound_gcd (sat : Nat) (hsat : 1 ≤ sat)
    (mw aw vw : List Nat) (hmw : CB.WF mw) (haw : CB.WF aw) (hvw : CB.WF vw)
    (lm : mw.length = sat) (la : aw.length = sat) (lv : vw.length = sat)
    (hodd : CB.val mw % 2 = 1) (hadj : CB.val aw < CB.val mw) :
    ((Inverter.new sat mw aw).invVartime sat vw).isSome = true → Nat.gcd (CB.val vw) (CB.val mw) = 1 :=
  fun h => ((inv_vartime_sound sat hsat mw aw vw hmw haw hvw lm la lv hodd hadj).2 h).1

/-- the adjuster-`ONE` reading (`inv_odd_mod`; `CB.val aw = 1` forces `M ≥ 3` with `M` odd): whenever `is_some` is
    reported, the value is a true inverse in `[0, M)` and `v` is a unit. -/
theorem safegcd_inv_sound_one (sat : Nat) (hsat : 1 ≤ sat)
    (mw aw vw : List Nat) (hmw : CB.WF mw) (haw : CB.WF aw) (hvw : CB.WF vw)
    (lm : mw.length = sat) (la : aw.length = sat) (lv : vw.length = sat)
    (hodd : CB.val mw % 2 = 1) (hone : CB.val aw = 1) (hm3 : 3 ≤ CB.val mw) :
    ((Inverter.new sat mw aw).inv sat vw).isSome = true →
      Nat.gcd (CB.val vw) (CB.val mw) = 1 ∧
      CB.val ((Inverter.new sat mw aw).inv sat vw).value < CB.val mw ∧
      CB.val ((Inverter.new sat mw aw).inv sat vw).value * CB.val vw ≡ 1 [MOD CB.val mw] := by
  intro h
  have := (inv_fixed_sound sat hsat mw aw vw hmw haw hvw lm la lv hodd (by omega)).2 h
  rwa [hone] at this

/-- T10.5 without `H_divsteps_done` — Montgomery-form inversion (adjuster `R² mod M`, operand `a·R mod M`): whenever the
    inverter reports `is_some`, `a` is a unit, the result is `< M`, and the retrieved result times the retrieved operand is
    `1 (mod M)`. -/
theorem monty_inv_sound (sat : Nat) (hsat : 1 ≤ sat)
    (mw aw vw : List Nat) (hmw : CB.WF mw) (haw : CB.WF aw) (hvw : CB.WF vw)
    (lm : mw.length = sat) (la : aw.length = sat) (lv : vw.length = sat)
    (hodd : CB.val mw % 2 = 1)
    (a R Rinv : Nat) (hR : R * Rinv ≡ 1 [MOD CB.val mw])
    (hv : CB.val vw = a * R % CB.val mw) (hadjv : CB.val aw = R * R % CB.val mw) :
    ((Inverter.new sat mw aw).inv sat vw).isSome = true →
      Nat.gcd a (CB.val mw) = 1 ∧
      CB.val ((Inverter.new sat mw aw).inv sat vw).value < CB.val mw ∧
      (CB.val ((Inverter.new sat mw aw).inv sat vw).value * Rinv % CB.val mw) * (a % CB.val mw)
        ≡ 1 [MOD CB.val mw] := by
  intro h
  have hMpos : 0 < CB.val mw := by omega
  have hadj : CB.val aw < CB.val mw := by rw [hadjv]; exact Nat.mod_lt _ hMpos
  obtain ⟨g1, l1, m1⟩ := (inv_fixed_sound sat hsat mw aw vw hmw haw hvw lm la lv hodd hadj).2 h
  have hRcop : Nat.Coprime R (CB.val mw) := Nat.coprime_of_mul_modEq_one Rinv hR
  have hgcd : Nat.gcd (CB.val vw) (CB.val mw) = Nat.gcd a (CB.val mw) := by
    rw [hv, (Nat.mod_modEq (a * R) (CB.val mw)).gcd_eq]
    exact Nat.Coprime.gcd_mul_right_cancel a hRcop
  exact ⟨hgcd ▸ g1, l1, monty_retrieved_one _ _ _ _ a R Rinv hR hv hadjv m1⟩

/-- T10.6 without `H_divsteps_done`: whenever BOTH forms report `is_some`, they return the same value (each is the unique
    `x < M` with `x·v ≡ adj`, `v` a unit).  (That they report `is_some` for the same inputs is completeness: `_partial`.) -/
theorem safegcd_ct_vartime_agree_sound (sat : Nat) (hsat : 1 ≤ sat)
    (mw aw vw : List Nat) (hmw : CB.WF mw) (haw : CB.WF aw) (hvw : CB.WF vw)
    (lm : mw.length = sat) (la : aw.length = sat) (lv : vw.length = sat)
    (hodd : CB.val mw % 2 = 1) (hadj : CB.val aw < CB.val mw) :
    ((Inverter.new sat mw aw).inv sat vw).isSome = true →
    ((Inverter.new sat mw aw).invVartime sat vw).isSome = true →
      CB.val ((Inverter.new sat mw aw).inv sat vw).value = CB.val ((Inverter.new sat mw aw).invVartime sat vw).value := by
  intro h1 h2
  obtain ⟨g1, l1, m1⟩ := (inv_fixed_sound sat hsat mw aw vw hmw haw hvw lm la lv hodd hadj).2 h1
  obtain ⟨_, l2, m2⟩ := (inv_vartime_sound sat hsat mw aw vw hmw haw hvw lm la lv hodd hadj).2 h2
  have hcop : Nat.Coprime (CB.val mw) (CB.val vw) := by rw [Nat.Coprime, Nat.gcd_comm]; exact g1
  have := Nat.ModEq.cancel_right_of_coprime hcop (m1.trans m2.symm)
  unfold Nat.ModEq at this
  rwa [Nat.mod_eq_of_lt l1, Nat.mod_eq_of_lt l2] at this

/-- non-vacuity (two words): `M = 2^64 + 13`, adjuster ONE, `v = 5`: the constant-time inverter reports `is_some` with the
    value `3689348814741910326` (`5·value = 2^64 + 14`), and `inv_vartime` inverts the two-word `v = 2^64 + 0xfedcba9876543210`. -/
example : ((Inverter.new 2 [13, 1] [1, 0]).inv 2 [5, 0]).isSome = true ∧
    ((Inverter.new 2 [13, 1] [1, 0]).inv 2 [5, 0]).value = [3689348814741910326, 0] ∧
    ((Inverter.new 2 [13, 1] [1, 0]).invVartime 2 [0xfedcba9876543210, 1]).isSome = true ∧
    ((Inverter.new 2 [13, 1] [1, 0]).invVartime 2 [0xfedcba9876543210, 1]).value = [4097515905738953832, 0] := by
  decide +kernel

/-- non-vacuity: every hypothesis of `safegcd_inv_sound` / `safegcd_inv_sound_gcd` / `safegcd_inv_sound_one` is
    dischargeable on that instance, and the conclusions are the concrete facts `value·5 ≡ 1`, `gcd(5, 2^64+13) = 1`. -/
example : CB.val ((Inverter.new 2 [13, 1] [1, 0]).inv 2 [5, 0]).value * 5 ≡ 1 [MOD 2 ^ 64 + 13] ∧
    Nat.gcd 5 (2 ^ 64 + 13) = 1 := by
  have h : ((Inverter.new 2 [13, 1] [1, 0]).inv 2 [5, 0]).isSome = true := by decide +kernel
  have hw1 : CB.WF [13, 1] := by unfold CB.WF; decide
  have hw2 : CB.WF [1, 0] := by unfold CB.WF; decide
  have hw3 : CB.WF [5, 0] := by unfold CB.WF; decide
  have hm : CB.val [13, 1] = 2 ^ 64 + 13 := by decide
  have hv : CB.val [5, 0] = 5 := by decide
  have ha : CB.val [1, 0] = 1 := by decide
  have s1 := ((safegcd_inv_sound 2 (by decide) [13, 1] [1, 0] [5, 0] hw1 hw2 hw3 rfl rfl rfl (by decide) (by decide)).2 h).2
  have s2 := safegcd_inv_sound_gcd 2 (by decide) [13, 1] [1, 0] [5, 0] hw1 hw2 hw3 rfl rfl rfl (by decide) (by decide) h
  rw [hm, hv] at s2
  rw [hm, hv, ha] at s1
  exact ⟨s1, s2⟩

/-- non-vacuity of `safegcd_inv_vartime_sound` / `safegcd_ct_vartime_agree_sound`: both forms on `3⁻¹ mod 7`. -/
example : ((Inverter.new 1 [7] [1]).invVartime 1 [3]).isSome = true ∧
    ((Inverter.new 1 [7] [1]).invVartime 1 [3]).negative = false ∧
    ((Inverter.new 1 [7] [1]).invVartime 1 [3]).value = [5] ∧
    ((Inverter.new 1 [7] [1]).inv 1 [3]).value = [5] := by decide +kernel

/-- non-vacuity of `monty_inv_sound`: `M = 7`, `R = 2^64 mod 7 = 2`, `R⁻¹ = 4`, `a = 3`: operand `aR = 6`, adjuster
    `R² = 4`; the inverter reports `is_some` with `x = 3` (`3·6 ≡ 4`), retrieved `3·4 mod 7 = 5 = 3⁻¹`. -/
example : ((Inverter.new 1 [7] [4]).inv 1 [6]).isSome = true ∧ ((Inverter.new 1 [7] [4]).inv 1 [6]).value = [3] ∧
    (2 * 4) % 7 = 1 ∧ CB.val [6] = 3 * 2 % CB.val [7] ∧ CB.val [4] = 2 * 2 % CB.val [7] ∧
    (CB.val [3] * 4 % 7) * (3 % 7) % 7 = 1 := by decide +kernel

/-- a reported `none` for a non-unit (soundness says nothing about it, and must not): `gcd(14, 21) = 7`. -/
example : ((Inverter.new 1 [21] [1]).inv 1 [14]).isSome = false := by decide +kernel

end CB.P10
