/-
  CB.Props.C10 — modular inversion and gcd (property C10).

  T10.1  inversion modulo 2^k (all widths `w`, i.e. all limb counts `w = 64·LIMBS`)      — full
  T10.2  `inv_mod` for `m = s·2^k` (CRT recombination), given the odd-modulus inverter spec   — full
         (+ proved negation for modulus 0: the fixed-width form panics — DESIGN §7 row 8)
  T10.3  `gcd = 2^k · gcd(f, g)` incl. zeros, given the odd-operand gcd spec                   — full
  T10.4  safegcd: (b) `inv_mod2_62` — full; (c) `jump`: matrix identity, det, no wrap, termination in
         fuel, gcd preservation for the full-width operands — full
  (further sections are appended below as they are proved)
-/
import CB.Lemmas.C10Gcd
import CB.Lemmas.C10Jump
namespace CB.P10
open CB.InvMod2k CB.Gcd CB.SafeGcd

/-! ## T10.1 — `inv_mod2k`, `inv_mod2k_vartime`, `inv_mod2k_full_vartime` (fixed and boxed) -/

/-- `a` odd ⇒ the result is reported present, is `< 2^k`, and `a·x ≡ 1 (mod 2^k)`, for every
    `k ≤ BITS` (`BITS = w`, any width). -/
theorem inv_mod2k_correct (w a k : Nat) (hk : k ≤ w) (ha : a % 2 = 1) :
    (invMod2k w a k).2 = true ∧ (invMod2k w a k).1 < 2 ^ k ∧
    a * (invMod2k w a k).1 ≡ 1 [MOD 2 ^ k] := by
  refine ⟨by simp [invMod2k, ha], ?_⟩
  rw [ct_eq_ref hk]
  exact ref_spec hk ha

/-- `is_some` exactly when `k = 0` or `a` is odd (no hypothesis on `k`). -/
theorem inv_mod2k_is_some_iff (w a k : Nat) :
    (invMod2k w a k).2 = true ↔ (k = 0 ∨ a % 2 = 1) := by
  simp [invMod2k]

/-- `k = 0`: the result is `0` (the unique residue modulo 1). -/
theorem inv_mod2k_zero (w a : Nat) : (invMod2k w a 0).1 = 0 := by
  rw [ct_eq_ref (Nat.zero_le w)]; rfl

/-- The variants agree for every `a` (odd or even) and every `k ≤ BITS`: `inv_mod2k_vartime`
    does not panic and returns the same pair; the boxed vartime form returns the same pair;
    `inv_mod2k_full_vartime` returns the same value exactly when `is_some` holds. -/
theorem inv_mod2k_variants_agree (w a k : Nat) (hk : k ≤ w) :
    invMod2kVartime w a k = some (invMod2k w a k) ∧
    invMod2kVartimeBoxed w a k = invMod2k w a k ∧
    invMod2kFullVartime w a k =
      (if (invMod2k w a k).2 then some (invMod2k w a k).1 else none) := by
  have h1 := vtLoop_eq w a k 0 0 1 (by simp) (by omega)
  have h2 := vtLoopBoxed_eq w a k 0 0 1 (by simp) (by omega)
  have h3 := fullLoop_eq w a k 0 0 1 (by simp)
  have hc := ct_eq_ref (a := a) hk
  refine ⟨?_, ?_, ?_⟩
  · unfold invMod2kVartime; rw [h1]; simp only []
    rw [← hc]; rfl
  · unfold invMod2kVartimeBoxed; rw [h2, ← hc]; rfl
  · unfold invMod2kFullVartime; rw [h3, ← hc]
    by_cases h : k ≠ 0 ∧ a % 2 = 0
    · have : (invMod2k w a k).2 = false := by
        simp [invMod2k]; omega
      simp [h, this]
    · have : (invMod2k w a k).2 = true := by
        simp [invMod2k]; omega
      simp [h, this]

/-- non-vacuity: a 2-limb odd value inverted modulo 2^100 -/
example : (invMod2k 128 0xfffffffffffffffffffffffefffffc2f 100).2 = true ∧
    (0xfffffffffffffffffffffffefffffc2f * (invMod2k 128 0xfffffffffffffffffffffffefffffc2f 100).1) % 2 ^ 100 = 1 := by
  decide +kernel


/-! ## T10.2 — `Uint::inv_mod` / `BoxedUint::inv_mod`: CRT recombination for `m = s·2^k`

The odd-modulus inverter (`inv_odd_mod`, safegcd — T10.4) enters as the hypothesis
`OddInvSpec inv w`: for odd `s < 2^w`, `inv a s = some x` iff `gcd(a, s) = 1`, and then `x < s`,
`a·x ≡ 1 (mod s)`.  Callee exactness (`wrapping_mul/sub/add`, shifts, `trailing_zeros`) is C03–C05. -/

/-- for every modulus `1 ≤ m < 2^BITS` and every `a`: never panics, `is_some ↔ gcd(a, m) = 1`,
    and then `x < m` (also for `m = 1`) and `a·x ≡ 1 (mod m)`. -/
theorem inv_mod_crt (inv : Nat → Nat → Option Nat) (w a m : Nat) (H : OddInvSpec inv w)
    (ha : a < 2 ^ w) (hm0 : 0 < m) (hm : m < 2 ^ w) :
    match invModWith inv w a m with
    | R.some x => Nat.gcd a m = 1 ∧ x < m ∧ a * x ≡ 1 [MOD m]
    | R.none => Nat.gcd a m ≠ 1
    | R.panic => False :=
  invModWith_spec inv w a m H ha hm0 hm

/-- the boxed duplicate (equal precisions) -/
theorem boxed_inv_mod_crt (inv : Nat → Nat → Option Nat) (w a m : Nat) (H : OddInvSpec inv w)
    (ha : a < 2 ^ w) (hm0 : 0 < m) (hm : m < 2 ^ w) :
    match invModBoxedWith inv w a m with
    | R.some x => Nat.gcd a m = 1 ∧ x < m ∧ a * x ≡ 1 [MOD m]
    | R.none => Nat.gcd a m ≠ 1
    | R.panic => False :=
  invModBoxedWith_spec inv w a m H ha hm0 hm

/- FULL STATEMENT (unproved, FALSE of the code): the option-returning `Uint::inv_mod` is total,
   i.e. `invModWith inv w a 0 = R.none`.  The proved negation: -/

/-- DESIGN §7 row 8: with modulus 0 the fixed-width `inv_mod` reaches
    `s.inv_mod2k(k).expect("inverse mod 2^k exists")` with `s = 0`, `k = BITS`: it panics for
    every `a` and every inverter. -/
theorem inv_mod_zero_modulus_panics (inv : Nat → Nat → Option Nat) (w a : Nat) (hw : 0 < w) :
    (match invModWith inv w a 0 with | R.panic => True | _ => False) :=
  invModWith_zero_modulus inv w a hw

/-- … while `BoxedUint::inv_mod(a, 0)` answers `none`. -/
theorem boxed_inv_mod_zero_modulus_none (inv : Nat → Nat → Option Nat) (w a : Nat) :
    (match invModBoxedWith inv w a 0 with | R.none => True | _ => False) :=
  invModBoxedWith_zero_modulus inv w a

/-- non-vacuity: an inverter satisfying `OddInvSpec` exists (search below `s`), so the hypotheses
    of `inv_mod_crt` are satisfiable; concrete instance 7⁻¹ mod 40 = 23 with the table inverter. -/
example : (match invModWith (fun a s => (List.range s).find? (fun x => a * x % s == 1 % s)) 64 7 40 with
    | R.some x => decide (x = 23) | _ => false) = true := by decide +kernel

/-! ## T10.3 — `Uint::gcd`: common power of two and odd-operand selection

`og f g` stands for `SafeGcdInverter::gcd(&f, &g)`; hypothesis `OddGcdSpec og w`: `og f g = gcd(f, g)`
whenever at least one of `f`, `g` is odd.  (As written the code hands over an EVEN `f` whenever `s2`
is even — then `g` is odd; safegcd's first divstep swaps. See notes/C10.md.) -/

/-- `gcd(a, b)` for all `a, b < 2^BITS`, including zeros, equal values and powers of two. -/
theorem gcd_reduction (og : Nat → Nat → Nat) (w a b : Nat) (H : OddGcdSpec og w)
    (ha : a < 2 ^ w) (hb : b < 2 ^ w) : gcdWith og w a b = Nat.gcd a b :=
  gcdWith_spec og w a b H ha hb

/-- the `Gcd` trait's `gcd_vartime` (odd `self` → `Odd::gcd_vartime`, else the ct path) -/
theorem gcd_vartime_reduction (og ogv : Nat → Nat → Nat) (w a b : Nat) (H : OddGcdSpec og w)
    (Hv : OddGcdSpec ogv w) (ha : a < 2 ^ w) (hb : b < 2 ^ w) :
    gcdVartimeWith og ogv w a b = Nat.gcd a b :=
  gcdVartimeWith_spec og ogv w a b H Hv ha hb

/-- constant-time and vartime forms agree -/
theorem gcd_ct_vartime_agree (og ogv : Nat → Nat → Nat) (w a b : Nat) (H : OddGcdSpec og w)
    (Hv : OddGcdSpec ogv w) (ha : a < 2 ^ w) (hb : b < 2 ^ w) :
    gcdVartimeWith og ogv w a b = gcdWith og w a b := by
  rw [gcd_vartime_reduction og ogv w a b H Hv ha hb, gcd_reduction og w a b H ha hb]

/-- non-vacuity: `Nat.gcd` satisfies `OddGcdSpec`; gcd(48, 36) = 12 through the reduction -/
example : OddGcdSpec Nat.gcd 64 ∧ gcdWith Nat.gcd 64 48 36 = 12 :=
  ⟨fun _ _ _ _ _ => rfl, by decide +kernel⟩


/-! ## T10.4 — safegcd (src/modular/safegcd.rs) -/

/-- (b) `inv_mod2_62`: for an odd low word the result is in `[0, 2^62)` and inverts it modulo `2^62`. -/
theorem inv_mod2_62_correct (v : Nat) (rest : List Nat) (hv : v % 2 = 1) :
    0 ≤ invMod2_62 (v :: rest) ∧ invMod2_62 (v :: rest) < 2 ^ 62 ∧
    (invMod2_62 (v :: rest) * (v : Int)) % 2 ^ 62 = 1 :=
  invMod2_62_spec v rest hv

/-- (c) one `jump` on low limbs `fl, gl < 2^62` with `fl` odd or `delta > 0`: the inner loop ends
    (`steps = 0`) within its fuel of 64 trips; the returned `T` satisfies
    `T·(fl, gl) = 2^62·(f', g')`, `det T = 2^62`, and both rows have absolute sum `≤ 2^62`, which is the
    statement that no `i64` shift/multiply/add in the loop wrapped; oddness of the full-width `f`
    survives the batch. -/
theorem jump_matrix (f g : List Nat) (delta : Int) (hfl : f.headD 0 < 2 ^ 62) (hgl : g.headD 0 < 2 ^ 62)
    (hpre : f.headD 0 % 2 = 1 ∨ 0 < delta) :
    ∃ f' g' : Int,
      (jump f g delta).2.t00 * (f.headD 0 : Nat) + (jump f g delta).2.t01 * (g.headD 0 : Nat) = 2 ^ 62 * f' ∧
      (jump f g delta).2.t10 * (f.headD 0 : Nat) + (jump f g delta).2.t11 * (g.headD 0 : Nat) = 2 ^ 62 * g' ∧
      |(jump f g delta).2.t00| + |(jump f g delta).2.t01| ≤ 2 ^ 62 ∧
      |(jump f g delta).2.t10| + |(jump f g delta).2.t11| ≤ 2 ^ 62 ∧
      (jump f g delta).2.t00 * (jump f g delta).2.t11 - (jump f g delta).2.t01 * (jump f g delta).2.t10 = 2 ^ 62 ∧
      (∀ A B : Int, f.headD 0 % 2 = 1 →
        (f' + ((jump f g delta).2.t00 * A + (jump f g delta).2.t01 * B)) % 2 = 1) :=
  jump_spec f g delta hfl hgl hpre

/-- (c) for the full-width operands `F = fl + 2^62·A`, `G = gl + 2^62·B` (any high parts): `T·(F, G)`
    is exactly divisible by `2^62`; with `F` odd the quotient keeps `F'` odd and
    `gcd(F', G') = gcd(F, G)`. -/
theorem jump_preserves_gcd (f g : List Nat) (delta : Int) (hfl : f.headD 0 < 2 ^ 62)
    (hgl : g.headD 0 < 2 ^ 62) (A B : Int) (hodd : f.headD 0 % 2 = 1) :
    ∃ F' G' : Int,
      (jump f g delta).2.t00 * ((f.headD 0 : Nat) + 2 ^ 62 * A) + (jump f g delta).2.t01 * ((g.headD 0 : Nat) + 2 ^ 62 * B) = 2 ^ 62 * F' ∧
      (jump f g delta).2.t10 * ((f.headD 0 : Nat) + 2 ^ 62 * A) + (jump f g delta).2.t11 * ((g.headD 0 : Nat) + 2 ^ 62 * B) = 2 ^ 62 * G' ∧
      F' % 2 = 1 ∧
      Int.gcd F' G' = Int.gcd ((f.headD 0 : Nat) + 2 ^ 62 * A) ((g.headD 0 : Nat) + 2 ^ 62 * B) :=
  jump_full f g delta hfl hgl A B hodd

/-- non-vacuity: the matrix of one batch for f = 7, g = 12, δ = 1 -/
example : (jump [7] [12] 1).2.t00 * 7 + (jump [7] [12] 1).2.t01 * 12 = 2 ^ 62 * 1 ∧
    (jump [7] [12] 1).2.t10 * 7 + (jump [7] [12] 1).2.t11 * 12 = 0 := by decide +kernel

end CB.P10
