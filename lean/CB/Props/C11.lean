/-
  CB.Props.C11 — property C11 (totality: panics, overflow traps and assertion failures only where
  documented), the LOGIC half.  The checked twins `fD` of `CB.Model.Panic` make every `debug_assert!`,
  plain `+ - * <<`, slice index and `expect/assert!` of the Rust source explicit, indexed by the build
  profile `p` (`release` / `dbgchk`).

    T11.1  for every in-domain input and BOTH profiles  `fD p x = .ok (f x)`
    T11.2  option/result-returning operations: `fD` is `.ok` for EVERY argument — or, where the code
           really panics, the exact panic condition is proved together with a witness (`…_witness`),
           replayed on the real crate by `./check C11` (corpus/C11.txt) and recorded as a known finding
    T11.D  documented panics: the twin panics exactly when the panic table `panics` says so
    T11.3  loops: the twins' loops are structural / fuel = the Rust loop bound

  What the two REAL builds do is not provable here: it is observed by tools/check_c11.py
  (catch_unwind + watchdog, two profiles, every op line of every property).  Hence "partial".
-/
import CB.Lemmas.C11Div3
namespace CB.P11
open CB CB.Div CB.Panic

/-! ## T11.1 — no debug assertion, overflow trap or index failure on the documented domain -/

/-- `ConstChoice::from_word_mask` on a mask -/
theorem T11_1_fromWordMask (p : Profile) {w : Nat} (h : w = 0 ∨ w = WMAX) :
    fromWordMaskD p w = .ok (fromWordMask w) := fromWordMaskD_ok p h

/-- `ConstChoice::from_word_lsb` on a bit -/
theorem T11_1_fromWordLsb (p : Profile) {w : Nat} (h : w = 0 ∨ w = 1) :
    fromWordLsbD p w = .ok (fromWordLsb w) :=
  fromWordLsbD_of_lt_two p (by omega)

/-- the derived constructors are TOTAL on words: their inner `from_word_lsb` assertion never fires -/
theorem T11_1_fromWordMsb (p : Profile) {w : Nat} (hw : w < B) :
    fromWordMsbD p w = .ok (fromWordLsb (w / HALF)) := fromWordMsbD_total p hw
theorem T11_1_fromWordNonzero (p : Profile) {x : Nat} (hx : x < B) :
    fromWordNonzeroD p x = .ok (fromWordNonzero x) := fromWordNonzeroD_total p hx
theorem T11_1_fromWordEq (p : Profile) {x y : Nat} (hx : x < B) (hy : y < B) :
    fromWordEqD p x y = .ok (fromWordEq x y) := fromWordEqD_total p hx hy
theorem T11_1_fromWordLt (p : Profile) {x y : Nat} (hy : y < B) :
    fromWordLtD p x y = .ok (fromWordLt x y) := fromWordLtD_total p hy
theorem T11_1_fromWordLe (p : Profile) {x y : Nat} (hy : y < B) :
    fromWordLeD p x y = .ok (fromWordLe x y) := fromWordLeD_total p hy

/-- **`div2by1`**: on its domain (normalised divisor, exact reciprocal, `u1 < d`) none of the three debug
    assertions fires — in particular `r < d || q1 < Word::MAX`, which protects the DISCARDED side of the
    second masked correction — and the masks' `from_word_lsb` assertions hold.  Both builds. -/
theorem T11_1_div2by1 (p : Profile) {rc : Reciprocal} {u1 u0 : Nat}
    (hd1 : HALF ≤ rc.divisorNormalized) (hd2 : rc.divisorNormalized < B)
    (hv : rc.reciprocal = reciprocalSpec rc.divisorNormalized)
    (hu1 : u1 < rc.divisorNormalized) (hu0 : u0 < B) :
    div2by1D p u1 u0 rc = .ok (div2by1 u1 u0 rc) := div2by1D_ok p hd1 hd2 hv hu1 hu0

/-- **`div3by2`**: on its domain (`shift = 0`, `u2 ≤ v1`) neither entry assertion fires, the nested
    `div2by1` is called in ITS domain also when `u2 = v1` (operand masked to 0 on the discarded side),
    and the plain `WideWord` `+` / `*` of both correction rounds cannot overflow.  Both builds. -/
theorem T11_1_div3by2 (p : Profile) {rc : Reciprocal} {u2 u1 u0 v0 : Nat}
    (hsh : rc.shift = 0)
    (hd1 : HALF ≤ rc.divisorNormalized) (hd2 : rc.divisorNormalized < B)
    (hv : rc.reciprocal = reciprocalSpec rc.divisorNormalized)
    (hu2 : u2 ≤ rc.divisorNormalized) (hu1 : u1 < B) (hu0 : u0 < B) (hv0 : v0 < B) :
    div3by2D p u2 u1 u0 rc v0 = .ok (div3by2 u2 u1 u0 rc v0) :=
  div3by2D_ok p hsh hd1 hd2 hv hu2 hu1 hu0 hv0

/-- outside the domain the assertion is real: `u1 = d` trips `debug_assert!(u1 < d)` with debug
    assertions, and only then (this is why `div_rem` masks `x_hi` before its final `div2by1`) -/
theorem T11_1_div2by1_out_of_domain_witness :
    isPanic (div2by1D dbgchk WMAX 0 Reciprocal.dflt) = true ∧
    isPanic (div2by1D release WMAX 0 Reciprocal.dflt) = false := by
  constructor <;> rfl

/-- **`shl_limb`**: for `shift < 64` (all limb counts) the plain `<<`, `>>` and `BITS - shift` never trap -/
theorem T11_1_shlLimb (p : Profile) (a : List Nat) {shift : Nat} (h : shift < 64) :
    shlLimbD p a shift = .ok (Div.shlLimb a shift) := by
  cases a with
  | nil => rfl
  | cons x0 xs =>
    have hs : shift ≤ 64 := by omega
    have hr : (if shift = 0 then 0 else 64 - shift) < 64 := by
      split <;> omega
    have e : (if shift = 0 then 0 else (64 - shift) % 4294967296) = (if shift = 0 then 0 else 64 - shift) := by
      split <;> omega
    simp only [shlLimbD, subU_ok p 4294967296 hs, shlW_ok p x0 h, shlLimbLoopD_ok p (nzMask shift) h hr xs x0,
      bind, Except.bind, pure, Except.pure, Div.shlLimb, e]

/-- **`mul_mod_special`, the `(carry + 1) * c` step after fix a301fd3**: never traps, any carry word -/
theorem T11_1_specialRhs (p : Profile) {carry c : Nat} (hc : carry < B) (hcc : c < B) :
    specialRhsD p carry c = .ok ((carry + 1) * c) := by
  have h1 : carry + 1 < B * B := by
    have : B + 1 ≤ B * B := by decide
    omega
  have h2 : (carry + 1) * c < B * B := mul_lt_BB (by omega) hcc
  simp [specialRhsD, addWW_ok p h1, mulWW_ok p h2, bind, Except.bind]

/-- the form before the fix traps (overflow checks) resp. wraps to 0 (release) at `carry = Word::MAX` -/
theorem T11_1_specialRhsOld_witness :
    isPanic (specialRhsOldD dbgchk WMAX 5) = true ∧ specialRhsOldD release WMAX 5 = .ok 0 := by
  constructor <;> rfl

/-! ## T11.2 — option / result returning operations: total, or the exact panic condition -/

/-- **DER decode (after fix 6217c78)**: the fixed-size copy cannot fail whatever the two lengths are;
    an over-long INTEGER gives `Err` (`none`) -/
theorem T11_2_derCopy (arrayLen bytesLen : Nat) :
    derCopyD arrayLen bytesLen = .ok (if bytesLen > arrayLen then none else some ()) := by
  unfold derCopyD
  by_cases h : bytesLen > arrayLen
  · simp [h, pure, Except.pure]
  · have h1 : decide (arrayLen - bytesLen ≤ arrayLen) = true := by simp
    have h2 : (arrayLen - (arrayLen - bytesLen) == bytesLen) = true := by
      simp; omega
    simp [h, copyFromSliceD, check, h2, bind, Except.bind, pure, Except.pure]

/-- before the fix an INTEGER longer than the target panicked in `copy_from_slice` -/
theorem T11_2_derCopyOld_witness : isPanic (derCopyOldD 8 16) = true := rfl

/-- **`set_bit_vartime` (after fix d309eb6)** is total: any index, any limb count, both builds -/
theorem T11_2_setBitVartime (p : Profile) (a : List Nat) (index : Nat) (v : Bool) :
    isPanic (setBitVartimeD p a index v) = false := by
  unfold setBitVartimeD
  by_cases h : index / 64 ≥ a.length
  · simp [h, isPanic, pure, Except.pure]
  · have h' : index / 64 < a.length := by omega
    have hs : index % 64 < 64 := Nat.mod_lt _ (by decide)
    simp [h, idx_ok h', shlW_ok p 1 hs, isPanic, bind, Except.bind, pure, Except.pure]

theorem T11_2_setBitVartimeOld_witness (p : Profile) : isPanic (setBitVartimeOldD p [0] 64 true) = true := by
  cases p with | mk d => cases d <;> rfl

/-- **`Uint::inv_mod2k_vartime(k)`** (a `ConstCtOption`) after fix 8dd1192: nothing is `expect`ed any more,
    whatever `k` is (the statement is about the twin that mirrors the repaired code: `unwrap_or`) -/
theorem T11_2_invMod2kVartime (w k : Nat) : isPanic (invMod2kVartimeD w k) = false := rfl

/-- before the fix it panicked EXACTLY when `k > BITS` … -/
theorem T11_2_invMod2kVartimeOld (w k : Nat) :
    isPanic (invMod2kVartimeOldD w k 0) = decide (w < k) := by
  have h := invMod2kVartimeOldD_isPanic w k 0 (Nat.zero_le _)
  rwa [Nat.zero_add] at h

/-- … against the documentation: witness `U64::from(3).inv_mod2k_vartime(65)` (found by this check) -/
theorem T11_2_invMod2kVartimeOld_witness :
    panics (.uintInvMod2k 64 65) = false ∧ isPanic (invMod2kVartimeOldD 64 65 0) = true := by
  constructor
  · rfl
  · rw [T11_2_invMod2kVartimeOld]; decide

/-- **`Uint::inv_mod(a, modulus)`** (a `ConstCtOption`) after fix be88d84: nothing is `expect`ed any more -/
theorem T11_2_invMod (w m : Nat) : isPanic (invModExpectD w m) = false := rfl

/-- before the fix the `expect("inverse mod 2^k exists")` fired EXACTLY for `modulus = 0` (for a non-zero
    modulus the odd part `s` is odd, so its inverse mod `2^k` exists) … -/
theorem T11_2_invModOld {w : Nat} (hw : 0 < w) {m : Nat} (hm : m < 2 ^ w) :
    isPanic (invModExpectOldD w m) = decide (m = 0) := by
  unfold invModExpectOldD
  by_cases h0 : m = 0
  · subst h0
    have hw' : ¬ w = 0 := by omega
    simp [tzW_zero w, check, isPanic, hw']
  · obtain ⟨h1, h2⟩ := tzW_spec w m (by omega) hm
    simp [h1, h2, check, isPanic, h0]

/-- … against the documentation: witness `Uint::inv_mod(&3, &ZERO)` (DESIGN §7 row 8) -/
theorem T11_2_invModOld_witness :
    panics (.uintInvMod 64 0) = false ∧ isPanic (invModExpectOldD 64 0) = true := by
  constructor
  · rfl
  · rw [T11_2_invModOld (by decide) (by decide)]; rfl

/-- **`BoxedUint::from_be_hex`** after fix 01d03c6 never yields a zero-limb value (the last public
    constructor that did; a47b355 repaired `From<&[Limb]>`, `from_words` and parsing "0") -/
theorem T11_2_boxedFromBeHexLimbs_pos (bitsPrecision : Nat) : 1 ≤ boxedFromBeHexLimbs bitsPrecision := by
  unfold boxedFromBeHexLimbs; split <;> omega

theorem T11_2_boxedFromBeHexLimbsOld_witness : boxedFromBeHexLimbsOld 0 = 0 := rfl

/-- **`bits_vartime` on a limb slice**: no trap for a non-empty slice … -/
theorem T11_2_bitsVartime (p : Profile) {l : List Nat} (h : l ≠ []) : isPanic (bitsVartimeD p l) = false := by
  have hl : 0 < l.length := List.length_pos_iff.mpr h
  have hs : 1 ≤ l.length := hl
  have hi : bitsScan l l.length (l.length - 1) < l.length :=
    Nat.lt_of_le_of_lt (bitsScan_le l _ _) (by omega)
  simp [bitsVartimeD, subU_ok p B hs, idx_ok hi, isPanic, bind, Except.bind, pure, Except.pure]

/-- … and a panic in BOTH builds on an EMPTY slice (a zero-limb `BoxedUint` was constructible through the
    public API — DESIGN §7 row 5 — until a47b355 / 01d03c6; nothing documents this panic) -/
theorem T11_2_bitsVartime_zero_limb_witness (p : Profile) :
    panics (.boxedMethod 0) = false ∧ isPanic (bitsVartimeD p []) = true := by
  cases p with | mk d => cases d <;> exact ⟨rfl, rfl⟩

/-- **boxed `overflowing_shl/shr_assign` prologue**: fine for `1 ≤ nlimbs` (below 2^26 limbs) … -/
theorem T11_2_boxedShiftPrologue (p : Profile) {nlimbs : Nat} (shift : Nat) (h1 : 1 ≤ nlimbs)
    (h2 : nlimbs * 64 < 4294967296) : isPanic (boxedShiftPrologueD p nlimbs shift) = false := by
  have e : (nlimbs * 64) % 4294967296 = nlimbs * 64 := Nat.mod_eq_of_lt h2
  have hs : 1 ≤ nlimbs * 64 := by omega
  have hne : (nlimbs * 64 != 0) = true := by simp; omega
  simp [boxedShiftPrologueD, e, subU_ok p 4294967296 hs, check_of hne, isPanic, bind, Except.bind, pure,
    Except.pure]

/-- … and a panic in both builds for zero limbs (`bits_precision() - 1` / `% bits_precision()`) -/
theorem T11_2_boxedShiftPrologue_zero_limb_witness (p : Profile) (shift : Nat) :
    isPanic (boxedShiftPrologueD p 0 shift) = true := by
  cases p with | mk d => cases d <;> rfl

/-- **`BoxedUint::from_be_hex`** (a `CtOption`): panics EXACTLY when the text length is not
    `16 · (bits_precision / 64)`; the documentation mentions no panic -/
theorem T11_2_boxedFromBeHex (hexLen bitsPrecision : Nat) :
    isPanic (boxedFromBeHexLenD hexLen bitsPrecision) = !(hexLen == 8 * (bitsPrecision / 64) * 2) := by
  unfold boxedFromBeHexLenD check
  split <;> simp_all [isPanic]

theorem T11_2_boxedFromBeHex_witness :
    panics (.boxedFromBeHex 2 64) = false ∧ isPanic (boxedFromBeHexLenD 2 64) = true := ⟨rfl, rfl⟩

/-! ## T11.D — documented panics happen exactly where documented -/

/-- `Limb::shl` / `Limb::shr` WITH overflow checks panic exactly when documented (`shift ≥ 64`) … -/
theorem T11_D_limbShift_dbgchk (x s : Nat) :
    isPanic (limbShlD dbgchk x s) = panics (.limbShift s) ∧
    isPanic (limbShrD dbgchk x s) = panics (.limbShift s) := by
  by_cases h : s < 64
  · have h' : ¬ 64 ≤ s := by omega
    simp [limbShlD, limbShrD, shlW, shrW, h, h', isPanic, panics]
  · have h' : 64 ≤ s := by omega
    simp [limbShlD, limbShrD, shlW, shrW, h, h', isPanic, panics, dbgchk]

/-- … but WITHOUT them they never panic: for `shift ≥ 64` the documented panic does not happen and a
    value (`x << (shift mod 64)`) is returned (known finding, C05) -/
theorem T11_D_limbShift_release_never (x s : Nat) :
    isPanic (limbShlD release x s) = false ∧ isPanic (limbShrD release x s) = false := by
  by_cases h : s < 64 <;> simp [limbShlD, limbShrD, shlW, shrW, h, isPanic, release]

theorem T11_D_limbShift_release_witness :
    panics (.limbShift 64) = true ∧ limbShlD release 1 64 = .ok 1 := ⟨rfl, rfl⟩

/-- `BoxedUint += / -=` (after fix 06768a9): panics exactly in the documented case (wider rhs), both builds -/
theorem T11_D_boxedAssign (p : Profile) (selfLimbs rhsLimbs : Nat) :
    isPanic (boxedAssignPrecisionD p selfLimbs rhsLimbs) = panics (.boxedAddAssign selfLimbs rhsLimbs) := by
  by_cases h : rhsLimbs ≤ selfLimbs
  · have h' : ¬ selfLimbs < rhsLimbs := by omega
    simp [boxedAssignPrecisionD, check, h, h', isPanic, panics]
  · have h' : selfLimbs < rhsLimbs := by omega
    simp [boxedAssignPrecisionD, check, h, h', isPanic, panics]

/-- before the fix the release build never panicked (it dropped the high limbs) -/
theorem T11_D_boxedAssignOld_witness :
    panics (.boxedAddAssign 1 2) = true ∧ isPanic (boxedAssignPrecisionOldD release 1 2) = false := ⟨rfl, rfl⟩

/-- `BoxedUint::inv_mod` (after fix fb50dbc): panics exactly in the documented case (precisions differ), both builds -/
theorem T11_D_boxedInvMod (p : Profile) (selfLimbs modLimbs : Nat) :
    isPanic (boxedInvModPrecisionD p selfLimbs modLimbs) = panics (.boxedInvMod selfLimbs modLimbs) := by
  by_cases h : selfLimbs = modLimbs <;> simp [boxedInvModPrecisionD, check, h, isPanic, panics]

/-- before the fix the documented panic existed only with debug assertions (found by this check) -/
theorem T11_D_boxedInvModOld_witness :
    panics (.boxedInvMod 1 2) = true ∧ isPanic (boxedInvModPrecisionOldD release 1 2) = false ∧
    isPanic (boxedInvModPrecisionOldD dbgchk 1 2) = true := ⟨rfl, rfl, rfl⟩

/-- `BoxedUint::widen`: exactly the documented panic -/
theorem T11_D_widen (curBits newBits : Nat) :
    isPanic (widenD curBits newBits) = panics (.boxedWiden curBits newBits) := by
  by_cases h : curBits ≤ newBits
  · have h' : ¬ newBits < curBits := by omega
    simp [widenD, check, h, h', isPanic, panics]
  · have h' : newBits < curBits := by omega
    simp [widenD, check, h, h', isPanic, panics]

/-- `BoxedUint::shorten` on a value with at least one limb: exactly the documented panic … -/
theorem T11_D_shorten {curLimbs : Nat} (h1 : 1 ≤ curLimbs) (newBits : Nat) :
    isPanic (shortenD curLimbs newBits) = panics (.boxedShorten (64 * curLimbs) newBits) := by
  by_cases h : newBits ≤ 64 * curLimbs
  · have h' : ¬ 64 * curLimbs < newBits := by omega
    have h2 : limbsForPrecision newBits ≤ curLimbs := by
      unfold limbsForPrecision; split <;> omega
    simp [shortenD, check, h, h', h2, isPanic, panics, bind, Except.bind]
  · have h' : 64 * curLimbs < newBits := by omega
    simp [shortenD, check, h, h', isPanic, panics, bind, Except.bind]

/-- … but on the zero-limb value `shorten(0)` panics although `0 ≤ 0` bits is allowed -/
theorem T11_D_shorten_zero_limb_witness :
    panics (.boxedShorten 0 0) = false ∧ isPanic (shortenD 0 0) = true := ⟨rfl, rfl⟩

/-! ## non-vacuity: the hypotheses of the in-domain theorems are satisfiable -/

example : div2by1D dbgchk 5 7 Reciprocal.dflt = .ok (div2by1 5 7 Reciprocal.dflt) :=
  T11_1_div2by1 dbgchk (by decide) (by decide) (by decide) (by decide) (by decide)

example : div3by2D dbgchk WMAX 3 9 Reciprocal.dflt 11 = .ok (div3by2 WMAX 3 9 Reciprocal.dflt 11) :=
  T11_1_div3by2 dbgchk rfl (by decide) (by decide) (by decide) (by decide) (by decide) (by decide) (by decide)

example : shlLimbD dbgchk [WMAX, 1, HALF] 63 = .ok (Div.shlLimb [WMAX, 1, HALF] 63) :=
  T11_1_shlLimb dbgchk _ (by decide)

example : isPanic (invModExpectOldD 128 (2 ^ 100)) = false := by
  rw [T11_2_invModOld (by decide) (by decide)]; decide

end CB.P11
