/-
  C04 — theorems about the SOURCE of the word-level functions this property rests on, regenerated from /repo on
  every run by tools/translate.py (CB/Gen/Prim.lean).  Kept in a module of its own (nothing imports it) so that a
  change in one of these Rust functions breaks exactly this property's obligations and no other module's build.
  Audited together with CB/Props/C04.lean by tools/runner.py.
-/
import CB.Props.C04
import CB.Lemmas.GenBitsAdd
import CB.Lemmas.GenChains
namespace CB.P04G
open CB

/-! ## T04.G — the SOURCE of `primitives::{adc, sbb, overflowing_add}`, regenerated on every run
(tools/translate.py → CB/Gen/Prim.lean; see the note at T06.G in CB/Props/C06.lean) -/

/-- `adc` of the source: `lo + 2^64·hi = lhs + rhs + carry` for ANY carry word; `overflowing_add` likewise;
    `sbb` of the source: wrapping difference consuming only the top bit of `borrow`, new borrow = all-ones mask
    exactly when `lhs < rhs + borrow_bit` -/
theorem src_adc_sbb (a b c : BitVec 64) :
    (((Gen.Prim.adc a b c).2.setWidth 128 <<< 64) ||| (Gen.Prim.adc a b c).1.setWidth 128 =
        a.setWidth 128 + b.setWidth 128 + c.setWidth 128) ∧
    (((Gen.Prim.overflowing_add a b).2.setWidth 128 <<< 64) ||| (Gen.Prim.overflowing_add a b).1.setWidth 128 =
        a.setWidth 128 + b.setWidth 128) ∧
    (Gen.Prim.sbb a b c).1 = a - b - (c >>> 63) ∧
    (Gen.Prim.sbb a b c).2 = GenBits.ofBool (decide (a.setWidth 128 < b.setWidth 128 + (c >>> 63).setWidth 128)) :=
  ⟨GenBits.adc_meaning a b c, GenBits.overflowing_add_meaning a b, (GenBits.sbb_meaning a b c).1, (GenBits.sbb_meaning a b c).2⟩

/-- the hand-written `Nat` model of `adc` / `sbb` / `overflowing_add` (what every chain theorem above is built on)
    IS the translated source function, on every triple of words -/
theorem model_is_translated_source (a b c : BitVec 64) :
    CB.adc a.toNat b.toNat c.toNat = ((Gen.Prim.adc a b c).1.toNat, (Gen.Prim.adc a b c).2.toNat) ∧
    CB.sbb a.toNat b.toNat c.toNat = ((Gen.Prim.sbb a b c).1.toNat, (Gen.Prim.sbb a b c).2.toNat) ∧
    CB.overflowingAdd a.toNat b.toNat = ((Gen.Prim.overflowing_add a b).1.toNat, (Gen.Prim.overflowing_add a b).2.toNat) :=
  ⟨GenBits.adc_bridge a b c, GenBits.sbb_bridge a b c, GenBits.overflowingAdd_bridge a b⟩

/-! ## T04.G2 — the SOURCE of the limb chains `Uint::{adc, sbb, wrapping_add, wrapping_sub, carrying_neg, wrapping_neg}`
and of the `Limb::{adc, sbb, mac}` wrappers, regenerated on every run (tools/translate.py → CB/Gen/Chains.lean)

`Gen.Chains.Uint.adc LIMBS self rhs carry` is the Lean translation of what src/uint/add.rs says NOW: a `Uint<LIMBS>` is the
list of its limbs (`List (BitVec 64)`, little endian), `LIMBS` an explicit argument, the `while i < LIMBS` loop a
recursive auxiliary definition that re-tests `i < LIMBS` every round, `limbs[i] = w` a `List.set`.  The theorems below are
about those definitions, for EVERY limb count; `GenChains.nats l` is `l.map BitVec.toNat` (the limbs as the model's words). -/

/-- `Limb::adc / sbb / mac` of the source are the primitives, hence the model's word functions, on all words -/
theorem src_limb_wrappers (a b c k : BitVec 64) :
    CB.adc a.toNat b.toNat c.toNat = ((Gen.Chains.Limb.adc a b c).1.toNat, (Gen.Chains.Limb.adc a b c).2.toNat) ∧
    CB.sbb a.toNat b.toNat c.toNat = ((Gen.Chains.Limb.sbb a b c).1.toNat, (Gen.Chains.Limb.sbb a b c).2.toNat) ∧
    Gen.Chains.Limb.mac a b c k = Gen.Prim.mac a b c k := by
  rw [GenBits.limb_adc_eq, GenBits.limb_sbb_eq]
  exact ⟨GenBits.adc_bridge a b c, GenBits.sbb_bridge a b c, GenBits.limb_mac_eq a b c k⟩

/-- the hand-written chain model (what T04.3–T04.5 above are proved about) IS the translated source, for every limb
    count, every carry / borrow word -/
theorem chain_model_is_translated_source (a b : List (BitVec 64)) (c : BitVec 64) (h : a.length = b.length) :
    uadc (GenChains.nats a) (GenChains.nats b) c.toNat =
      (GenChains.nats (Gen.Chains.Uint.adc a.length a b c).1, (Gen.Chains.Uint.adc a.length a b c).2.toNat) ∧
    usbb (GenChains.nats a) (GenChains.nats b) c.toNat =
      (GenChains.nats (Gen.Chains.Uint.sbb a.length a b c).1, (Gen.Chains.Uint.sbb a.length a b c).2.toNat) ∧
    wrappingAdd (GenChains.nats a) (GenChains.nats b) = GenChains.nats (Gen.Chains.Uint.wrapping_add a.length a b) ∧
    wrappingSub (GenChains.nats a) (GenChains.nats b) = GenChains.nats (Gen.Chains.Uint.wrapping_sub a.length a b) ∧
    carryingNeg (GenChains.nats a) =
      (GenChains.nats (Gen.Chains.Uint.carrying_neg a.length a).1, (Gen.Chains.Uint.carrying_neg a.length a).2.toNat) ∧
    wrappingNeg (GenChains.nats a) = GenChains.nats (Gen.Chains.Uint.wrapping_neg a.length a) :=
  ⟨GenChains.uadc_bridge a b c h, GenChains.usbb_bridge a b c h, GenChains.wrappingAdd_bridge a b h,
   GenChains.wrappingSub_bridge a b h, GenChains.carryingNeg_bridge a, GenChains.wrappingNeg_bridge a⟩

/-- the TRANSLATED `Uint::adc` is exact: `val r + B^LIMBS · carry_out = val a + val b + carry_in`, for every limb count and
    every carry-in word; the result has `LIMBS` limbs -/
theorem src_uint_adc_exact (a b : List (BitVec 64)) (c : BitVec 64) (h : a.length = b.length) :
    val (GenChains.nats (Gen.Chains.Uint.adc a.length a b c).1) + B ^ a.length * (Gen.Chains.Uint.adc a.length a b c).2.toNat =
      val (GenChains.nats a) + val (GenChains.nats b) + c.toNat ∧
    (Gen.Chains.Uint.adc a.length a b c).1.length = a.length := by
  have hl : (GenChains.nats a).length = (GenChains.nats b).length := by
    rw [GenChains.nats_length, GenChains.nats_length, h]
  have ⟨e, l, _⟩ := P04.uint_adc_exact (GenChains.nats a) (GenChains.nats b) c.toNat hl
  rw [GenChains.uadc_bridge a b c h, GenChains.nats_length] at e l
  dsimp only at e l
  exact ⟨e, by simpa [GenChains.nats] using l⟩

/-- the TRANSLATED `Uint::sbb` is exact: `val r + val b + borrow_in_bit = val a + B^LIMBS · borrow_out_bit` (only the top bit
    of the incoming borrow word counts), the outgoing borrow is a mask, the result has `LIMBS` limbs -/
theorem src_uint_sbb_exact (a b : List (BitVec 64)) (c : BitVec 64) (h : a.length = b.length) :
    val (GenChains.nats (Gen.Chains.Uint.sbb a.length a b c).1) + (val (GenChains.nats b) + c.toNat / HALF) =
      val (GenChains.nats a) + B ^ a.length * ((Gen.Chains.Uint.sbb a.length a b c).2.toNat / HALF) ∧
    (a ≠ [] → (Gen.Chains.Uint.sbb a.length a b c).2 = 0#64 ∨ (Gen.Chains.Uint.sbb a.length a b c).2 = ~~~0#64) ∧
    (Gen.Chains.Uint.sbb a.length a b c).1.length = a.length := by
  have hl : (GenChains.nats a).length = (GenChains.nats b).length := by
    rw [GenChains.nats_length, GenChains.nats_length, h]
  have ⟨e, m, l, _⟩ := P04.uint_sbb_exact (GenChains.nats_WF a) (GenChains.nats_WF b) (toNat_lt_B c) hl
  rw [GenChains.usbb_bridge a b c h, GenChains.nats_length] at e l
  rw [GenChains.usbb_bridge a b c h] at m
  dsimp only at e m
  refine ⟨e, fun hne => ?_, by simpa [GenChains.nats] using l⟩
  have hne' : GenChains.nats a ≠ [] := by
    cases a with
    | nil => exact absurd rfl hne
    | cons _ _ => simp [GenChains.nats]
  rcases m hne' with m0 | m1
  · exact Or.inl (BitVec.eq_of_toNat_eq m0)
  · exact Or.inr (BitVec.eq_of_toNat_eq (by rw [m1]; decide))

/-- the TRANSLATED wrapping forms: sum / difference modulo `2^BITS` -/
theorem src_uint_wrapping_exact (a b : List (BitVec 64)) (h : a.length = b.length) :
    val (GenChains.nats (Gen.Chains.Uint.wrapping_add a.length a b)) =
      (val (GenChains.nats a) + val (GenChains.nats b)) % B ^ a.length ∧
    val (GenChains.nats (Gen.Chains.Uint.wrapping_sub a.length a b)) =
      (val (GenChains.nats a) + B ^ a.length - val (GenChains.nats b)) % B ^ a.length := by
  have hl : (GenChains.nats a).length = (GenChains.nats b).length := by
    rw [GenChains.nats_length, GenChains.nats_length, h]
  have e1 := P04.wrapping_add_spec hl
  have e2 := P04.wrapping_sub_spec (GenChains.nats_WF a) (GenChains.nats_WF b) hl
  rw [GenChains.wrappingAdd_bridge a b h, GenChains.nats_length] at e1
  rw [GenChains.wrappingSub_bridge a b h, GenChains.nats_length] at e2
  exact ⟨e1, e2⟩

/-- the TRANSLATED `Uint::carrying_neg`: two's complement value, and the returned choice is truthy exactly for zero -/
theorem src_uint_carrying_neg_exact (a : List (BitVec 64)) :
    val (GenChains.nats (Gen.Chains.Uint.carrying_neg a.length a).1) =
      (B ^ a.length - val (GenChains.nats a)) % B ^ a.length ∧
    (Gen.Chains.Uint.carrying_neg a.length a).2 = GenBits.ofBool (decide (val (GenChains.nats a) = 0)) ∧
    val (GenChains.nats (Gen.Chains.Uint.wrapping_neg a.length a)) =
      (B ^ a.length - val (GenChains.nats a)) % B ^ a.length := by
  have ⟨e, m, _, _⟩ := P04.carrying_neg_spec (GenChains.nats_WF a)
  rw [GenChains.carryingNeg_bridge a, GenChains.nats_length] at e
  rw [GenChains.carryingNeg_bridge a] at m
  dsimp only at e m
  refine ⟨e, BitVec.eq_of_toNat_eq (by rw [m, GenBits.ofBool_toNat]), ?_⟩
  rw [← GenChains.wrappingNeg_bridge a]
  show val (carryingNeg (GenChains.nats a)).1 = _
  rw [GenChains.carryingNeg_bridge a]
  exact e

/-- non-vacuity / evaluation: the translated functions run — `(2^128 − 1) + 1` over two limbs carries out, `0 − 1` borrows -/
example : Gen.Chains.Uint.adc 2 [~~~0#64, ~~~0#64] [1#64, 0#64] 0#64 = ([0#64, 0#64], 1#64) := by decide
example : Gen.Chains.Uint.sbb 2 [0#64, 0#64] [1#64, 0#64] 0#64 = ([~~~0#64, ~~~0#64], ~~~0#64) := by decide
example : Gen.Chains.Uint.carrying_neg 2 [0#64, 0#64] = ([0#64, 0#64], ~~~0#64) := by decide


end CB.P04G
