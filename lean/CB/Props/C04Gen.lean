/-
  C04 — theorems about the SOURCE of the word-level functions this property rests on, regenerated from /repo on
  every run by tools/translate.py (CB/Gen/Prim.lean).  Kept in a module of its own (nothing imports it) so that a
  change in one of these Rust functions breaks exactly this property's obligations and no other module's build.
  Audited together with CB/Props/C04.lean by tools/runner.py.
-/
import CB.Props.C04
import CB.Lemmas.GenBitsAdd
namespace CB.P04G
open CB

/-! ## T04.G — the SOURCE of `primitives::{adc, sbb, overflowing_add}`, regenerated on every run
(tools/translate.py → CB/Gen/Prim.lean; see the note at T06.G in CB/Props/C06.lean) -/

/-- `adc` of the source: `lo + 2^64·hi = lhs + rhs + carry` for ANY carry word; `overflowing_add` likewise;
    `sbb` of the source: wrapping difference consuming only the top bit of `borrow`, new borrow = all-ones mask
    exactly when `lhs < rhs + borrow_bit` -/
theorem src_adc_sbb (a b c : BitVec 64) :
    (((Gen.Prim.adc a b c).2.setWidth 128 <<< 64) ||| (Gen.Prim.adc a b c).1.setWidth 128 =
        a.setWidth 128 + b.setWidth 128 + c.setWidth 128) ∧
    (((Gen.Prim.overflowing_add a b).2.setWidth 128 <<< 64) ||| (Gen.Prim.overflowing_add a b).1.setWidth 128 =
        a.setWidth 128 + b.setWidth 128) ∧
    (Gen.Prim.sbb a b c).1 = a - b - (c >>> 63) ∧
    (Gen.Prim.sbb a b c).2 = GenBits.ofBool (decide (a.setWidth 128 < b.setWidth 128 + (c >>> 63).setWidth 128)) :=
  ⟨GenBits.adc_meaning a b c, GenBits.overflowing_add_meaning a b, (GenBits.sbb_meaning a b c).1, (GenBits.sbb_meaning a b c).2⟩

/-- the hand-written `Nat` model of `adc` / `sbb` / `overflowing_add` (what every chain theorem above is built on)
    IS the translated source function, on every triple of words -/
theorem model_is_translated_source (a b c : BitVec 64) :
    CB.adc a.toNat b.toNat c.toNat = ((Gen.Prim.adc a b c).1.toNat, (Gen.Prim.adc a b c).2.toNat) ∧
    CB.sbb a.toNat b.toNat c.toNat = ((Gen.Prim.sbb a b c).1.toNat, (Gen.Prim.sbb a b c).2.toNat) ∧
    CB.overflowingAdd a.toNat b.toNat = ((Gen.Prim.overflowing_add a b).1.toNat, (Gen.Prim.overflowing_add a b).2.toNat) :=
  ⟨GenBits.adc_bridge a b c, GenBits.sbb_bridge a b c, GenBits.overflowingAdd_bridge a b⟩


end CB.P04G
