/-
  C16 — Byte, hex, word and primitive conversions are lossless, positional and strict.
  Property theorems only (helper lemmas: CB/Lemmas/C16{Digits,Bytes,Hex,Boxed,Prim}.lean).
  Every theorem quantifies over ALL limb counts (list lengths) and all inputs.

  Model: CB/Model/Encoding.lean (namespace CB.Encoding).  `Bytes bs` = every entry `< 256`;
  `none` of a fixed decoder = the Rust `assert!` panics.
  Exactness of `bits()` used by the boxed precision check is C05; `is_odd` / `NonZero::new` are C12.
-/
import CB.Lemmas.C16Hex
import CB.Lemmas.C16Boxed
import CB.Lemmas.C16Prim
import CB.Lemmas.C16Cover
namespace CB.P16
open CB CB.Encoding

/-! ## T16.1 — positional, mutually inverse byte encodings (all limb counts) -/

/-- big-endian encoding: the whole output equals the positional byte list -/
theorem be_bytes_positional {l : List Nat} (h : WF l) :
    uintToBeBytes l = specBeBytes (8 * l.length) (val l) := by
  rw [uintToBeBytes_eq h, specBeBytes_eq]

theorem le_bytes_positional {l : List Nat} (h : WF l) :
    uintToLeBytes l = specLeBytes (8 * l.length) (val l) := by
  rw [uintToLeBytes_eq h, specLeBytes_eq]

/-- byte `i` of the `n`-byte big-endian encoding of `x` is `x / 256^(n-1-i) % 256` -/
theorem be_byte_at {l : List Nat} (h : WF l) {i : Nat} (hi : i < 8 * l.length) :
    (uintToBeBytes l)[i]? = some (val l / 256 ^ (8 * l.length - 1 - i) % 256) := by
  rw [be_bytes_positional h]
  simp [specBeBytes, hi]

/-- little-endian mirrored: byte `i` is `x / 256^i % 256` -/
theorem le_byte_at {l : List Nat} (h : WF l) {i : Nat} (hi : i < 8 * l.length) :
    (uintToLeBytes l)[i]? = some (val l / 256 ^ i % 256) := by
  rw [le_bytes_positional h]
  simp [specLeBytes, hi]

theorem be_is_reversed_le {l : List Nat} (h : WF l) : uintToBeBytes l = (uintToLeBytes l).reverse :=
  uintToBeBytes_reverse h

theorem encoding_length {l : List Nat} (h : WF l) :
    (uintToBeBytes l).length = 8 * l.length ∧ (uintToLeBytes l).length = 8 * l.length := by
  rw [uintToBeBytes_eq h, uintToLeBytes_eq h]; simp

/-- fixed big-endian decoder: accepts exactly the strings of `8·LIMBS` bytes, value = Σ bᵢ·256^(n-1-i) -/
theorem decode_be_exact {n : Nat} {bs : List Nat} (hb : Bytes bs) :
    fromBeSlice n bs = if bs.length = 8 * n then some (toLimbs n (beVal bs)) else none :=
  fromBeSlice_spec hb

theorem decode_le_exact {n : Nat} {bs : List Nat} (hb : Bytes bs) :
    fromLeSlice n bs = if bs.length = 8 * n then some (toLimbs n (beVal bs.reverse)) else none := by
  rw [fromLeSlice_spec hb, beVal_eq, List.reverse_reverse]

/-- the size assertion: a panic exactly for a wrong length (any contents) -/
theorem decode_panics_iff (n : Nat) (bs : List Nat) :
    (fromBeSlice n bs = none ↔ bs.length ≠ 8 * n) ∧ (fromLeSlice n bs = none ↔ bs.length ≠ 8 * n) := by
  unfold fromBeSlice fromLeSlice
  by_cases h : bs.length = 8 * n <;> simp [h]

/-- the decoded value never wraps: it is `< 2^BITS` and equals the positional value exactly -/
theorem decode_be_value {n : Nat} {bs l : List Nat} (hb : Bytes bs) (h : fromBeSlice n bs = some l) :
    val l = beVal bs ∧ WF l ∧ l.length = n := by
  rw [decode_be_exact hb] at h
  by_cases hl : bs.length = 8 * n
  · rw [if_pos hl] at h
    injection h with h
    subst h
    refine ⟨?_, toLimbs_WF _ _, toLimbs_length _ _⟩
    rw [val_toLimbs]
    apply Nat.mod_eq_of_lt
    rw [beVal_eq]
    have := leVal_lt (Bytes_reverse.mpr hb)
    rw [List.length_reverse, hl, Nat.pow_mul, B_eq_256] at this
    exact this
  · rw [if_neg hl] at h; cases h

theorem decode_encode_be {l : List Nat} (h : WF l) : fromBeSlice l.length (uintToBeBytes l) = some l :=
  fromBeSlice_toBe h
theorem decode_encode_le {l : List Nat} (h : WF l) : fromLeSlice l.length (uintToLeBytes l) = some l :=
  fromLeSlice_toLe h
theorem encode_decode_be {n : Nat} {bs l : List Nat} (hb : Bytes bs) (h : fromBeSlice n bs = some l) :
    uintToBeBytes l = bs := toBe_fromBeSlice hb h
theorem encode_decode_le {n : Nat} {bs l : List Nat} (hb : Bytes bs) (h : fromLeSlice n bs = some l) :
    uintToLeBytes l = bs := toLe_fromLeSlice hb h

/-- single limb (`Limb: Encoding`) -/
theorem limb_bytes {w : Nat} (h : w < B) :
    wordToBeBytes w = specBeBytes 8 w ∧ wordToLeBytes w = specLeBytes 8 w ∧
    wordFromBeBytes (wordToBeBytes w) = w ∧ wordFromLeBytes (wordToLeBytes w) = w := by
  refine ⟨?_, ?_, wordFromBe_toBe h, wordFromLe_toLe h⟩
  · rw [specBeBytes_eq]; rfl
  · rw [specLeBytes_eq]; rfl

/-- serde (binary form): length prefix + little-endian bytes; deserialisation inverts serialisation -/
theorem serde_roundtrip {l : List Nat} (h : WF l) (hn : 8 * l.length < B) :
    serdeSerialize l = specLeBytes 8 (8 * l.length) ++ specLeBytes (8 * l.length) (val l) ∧
    serdeDeserialize l.length (serdeSerialize l) = some l := by
  constructor
  · unfold serdeSerialize
    rw [le_bytes_positional h, specLeBytes_eq, specLeBytes_eq]
  · have key : ∀ pre body : List Nat, pre.length = 8 → leVal pre = 8 * l.length →
        body.length = 8 * l.length → serdeDeserialize l.length (pre ++ body) = fromLeSlice l.length body := by
      intro pre body hp hv hb
      unfold serdeDeserialize
      have h1 : ¬ ((pre ++ body).length < 8) := by rw [List.length_append, hp]; omega
      simp only [List.take_left' hp, List.drop_left' hp, hv]
      rw [if_neg h1, if_neg (by omega), if_neg (fun hne => hne rfl), ← hb, List.take_length]
    unfold serdeSerialize
    rw [key _ _ (by simp) ?_ (encoding_length h).2]
    · exact decode_encode_le h
    · unfold leVal
      rw [digitsVal_digitsLe, B_eq_256]; exact Nat.mod_eq_of_lt hn

/-! ## T16.2 — the hex decoders: nibble table for ALL 256 bytes, strictness, value -/

/-- the branch-free `decode_nibble`: valid digits (either case) give their value, EVERY other byte
    gives the error pattern `0xFFFF` — checked for all 256 bytes by kernel evaluation -/
theorem nibble_table {c : Nat} (h : c < 256) :
    decodeNibble c = (match hexVal? c with | some d => d | none => 65535) := decodeNibble_table h

theorem nibble_rejects {c : Nat} (h : c < 256) (hn : isHexDigit c = false) : decodeNibble c = 65535 := by
  rw [nibble_table h]
  unfold isHexDigit at hn
  cases hv : hexVal? c with
  | none => rfl
  | some d => rw [hv] at hn; cases hn

theorem nibble_accepts {c d : Nat} (h : c < 256) (hv : hexVal? c = some d) : decodeNibble c = d ∧ d < 16 := by
  rw [nibble_table h, hv]; exact ⟨rfl, hexVal?_lt hv⟩

/-- the characters named by the property — `/ : @ G ` g` — and the digit range ends -/
theorem nibble_neighbours :
    decodeNibble 0x2f = 65535 ∧ decodeNibble 0x3a = 65535 ∧ decodeNibble 0x40 = 65535 ∧
    decodeNibble 0x47 = 65535 ∧ decodeNibble 0x60 = 65535 ∧ decodeNibble 0x67 = 65535 ∧
    decodeNibble 0x30 = 0 ∧ decodeNibble 0x39 = 9 ∧ decodeNibble 0x41 = 10 ∧ decodeNibble 0x46 = 15 ∧
    decodeNibble 0x61 = 10 ∧ decodeNibble 0x66 = 15 := by decide

/-- `decode_hex_byte`: error word zero ⇔ both characters are hex digits; then the byte is `16·hi + lo` -/
theorem hex_byte_exact {a b : Nat} (ha : a < 256) (hb : b < 256) :
    ((decodeHexByte a b).2 = 0 ↔ isHexDigit a = true ∧ isHexDigit b = true) ∧
    (∀ x y, hexVal? a = some x → hexVal? b = some y → decodeHexByte a b = (16 * x + y, 0)) := by
  have hs := decodeHexByte_spec ha hb
  unfold isHexDigit
  cases hx : hexVal? a with
  | none => simp only [hx] at hs; simp [hs]
  | some x =>
    cases hy : hexVal? b with
    | none => simp only [hx, hy] at hs; simp [hs]
    | some y =>
      simp only [hx, hy] at hs
      refine ⟨by simp [hs], ?_⟩
      intro x' y' hx' hy'
      injection hx' with hx'; injection hy' with hy'
      subst hx' hy'
      exact hs

/-- fixed big-endian hex decoder = positional spec: panics (`none`) exactly for a wrong length or a
    non-hex character, otherwise the value is Σ dⱼ·16^(k-1-j) -/
theorem hex_be_exact {n : Nat} {hex : List Nat} (hc : Bytes hex) :
    fromBeHex n hex = (specFromBeHex n hex).map (toLimbs n) := fromBeHex_spec hc

theorem hex_be_panics_iff {n : Nat} {hex : List Nat} (hc : Bytes hex) :
    fromBeHex n hex = none ↔ (hex.length ≠ 16 * n ∨ ∃ c ∈ hex, isHexDigit c = false) := by
  rw [hex_be_exact hc]
  unfold specFromBeHex
  by_cases hl : hex.length = 16 * n
  · rw [if_pos hl]
    simp only [Option.map_eq_none_iff, hexDigits?_none_iff]
    constructor
    · intro h; exact Or.inr h
    · rintro (h | h)
      · exact absurd hl h
      · exact h
  · rw [if_neg hl]; simp [hl]

/-- little-endian hex: byte `j` of the text has weight `256^j` -/
theorem hex_le_exact {n : Nat} {hex : List Nat} (hc : Bytes hex) :
    (fromLeHex n hex).map val = specFromLeHex n hex ∧
    (∀ l, fromLeHex n hex = some l → WF l ∧ l.length = n) := fromLeHex_spec hc

theorem hex_le_panics_iff {n : Nat} {hex : List Nat} (hc : Bytes hex) :
    fromLeHex n hex = none ↔ (hex.length ≠ 16 * n ∨ ∃ c ∈ hex, isHexDigit c = false) := by
  have h := (hex_le_exact (n := n) hc).1
  have e : fromLeHex n hex = none ↔ specFromLeHex n hex = none := by
    rw [← h]; simp
  rw [e]
  unfold specFromLeHex
  by_cases hl : hex.length = 16 * n
  · rw [if_pos hl]
    simp only [Option.map_eq_none_iff, hexDigits?_none_iff]
    constructor
    · intro h; exact Or.inr h
    · rintro (h | h)
      · exact absurd hl h
      · exact h
  · rw [if_neg hl]; simp [hl]

/-- formatting is positional: character `j` of `{:x}` / `{:X}` is the digit of weight `16^(k-1-j)` -/
theorem fmt_hex_positional (upper : Bool) {l : List Nat} (h : WF l) :
    fmtHex upper false l = specHexText upper (16 * l.length) (val l) := fmtHex_spec upper h

theorem fmt_bin_positional {l : List Nat} (h : WF l) :
    fmtBin false l = specBinText (64 * l.length) (val l) := fmtBin_spec h

/-- the alternate flag only prepends the prefix -/
theorem fmt_alternate (upper : Bool) (l : List Nat) :
    fmtHex upper true l = [48, 120] ++ fmtHex upper false l ∧ fmtBin true l = [48, 98] ++ fmtBin false l := by
  constructor <;> rfl

/-- `from_be_hex(format!("{:x}", v)) = v` and the same for `{:X}` -/
theorem hex_roundtrip (upper : Bool) {l : List Nat} (h : WF l) :
    fromBeHex l.length (fmtHex upper false l) = some l := fromBeHex_fmtHex upper h

/-- boxed hex decoder: panics iff the length is not `16·⌊precision/64⌋`; `is_some` iff all characters
    are hex digits -/
theorem boxed_hex_exact {hex : List Nat} (bp : Nat) (hc : Bytes hex) :
    (boxedFromBeHex hex bp = none ↔ hex.length ≠ 16 * (bp / 64)) ∧
    (∀ l ok, boxedFromBeHex hex bp = some (l, ok) →
      (ok = true ↔ ∀ c ∈ hex, isHexDigit c = true) ∧
      (ok = true → some l = (specFromBeHex (bp / 64) hex).map (toLimbs (bp / 64)))) := by
  unfold boxedFromBeHex
  by_cases hl : hex.length = 16 * (bp / 64)
  · simp only [hl, if_true, ne_eq, not_true_eq_false, reduceCtorEq, true_and]
    intro l ok h
    injection h with h
    injection h with h1 h2
    have hs := decodeHexBytes_spec (8 * (bp / 64)) hex (by omega) hc
    have hx := fromBeHex_spec (n := bp / 64) hc
    unfold fromBeHex at hx
    rw [if_pos hl] at hx
    have hnone := hexDigits?_none_iff hex
    cases hd : hexDigits? hex with
    | none =>
      simp only [hd] at hs
      have hok : ok = false := by rw [← h2]; simp [hs]
      obtain ⟨c, hc', hne⟩ := hnone.mp hd
      subst hok
      refine ⟨⟨fun h => absurd h (by decide), fun hall => ?_⟩, fun h => absurd h (by decide)⟩
      rw [hall c hc'] at hne; cases hne
    | some ds =>
      simp only [hd] at hs
      have hok : ok = true := by rw [← h2]; simp [hs]
      subst hok
      refine ⟨⟨fun _ c hc' => ?_, fun _ => rfl⟩, fun _ => ?_⟩
      · cases hcd : isHexDigit c with
        | true => rfl
        | false =>
          have := hnone.mpr ⟨c, hc', hcd⟩
          rw [hd] at this; cases this
      · rw [← hx, ← h1]
        simp [hs]
  · simp [hl]


/-! ### `Odd::<Uint>::from_be_hex` / `from_le_hex` (DESIGN §7 row 2, repaired by fix dd30bc0; the
    `NonZero` byte-array twin, row 9 / fix ad61352, is `decode_le_exact` + `NonZero::new`, C12) -/

/-- `Odd::from_le_hex` = the LITTLE-endian positional value of the text, accepted iff it is odd
    (panic for a wrong length, a non-hex character or an even value) -/
theorem odd_from_le_hex_exact {n : Nat} {hex : List Nat} (hc : Bytes hex) :
    (oddFromLeHex n hex).map val = (specFromLeHex n hex).bind oddOnly ∧
    (∀ l, oddFromLeHex n hex = some l → WF l ∧ l.length = n) := by
  have ⟨hv, hw⟩ := hex_le_exact (n := n) hc
  unfold oddFromLeHex
  rw [← hv]
  cases h : fromLeHex n hex with
  | none => exact ⟨rfl, fun l hl => by cases hl⟩
  | some l =>
    simp only [Option.map_some, Option.bind_some, oddOnly, headD_mod_two l]
    by_cases ho : val l % 2 = 1
    · simp only [ho, if_true, Option.map_some, true_and]
      intro l' hl'; injection hl' with hl'; subst hl'; exact hw l h
    · simp only [ho, if_false, Option.map_none, true_and]
      intro l' hl'; cases hl'

/-- `Odd::from_be_hex`: the big-endian positional value, accepted iff odd -/
theorem odd_from_be_hex_exact {n : Nat} {hex : List Nat} (hc : Bytes hex) :
    (oddFromBeHex n hex).map val = (specFromBeHex n hex).bind oddOnly := by
  unfold oddFromBeHex
  rw [← fromBeHex_val hc]
  cases h : fromBeHex n hex with
  | none => rfl
  | some l =>
    simp only [Option.map_some, Option.bind_some, oddOnly, headD_mod_two l]
    by_cases ho : val l % 2 = 1 <;> simp [ho]

/-- the former witnesses of the defect, now accepted / rejected by the little-endian reading:
    LE text "0100000000000000" is the odd value 1; LE text "0000000000000001" is 2^56, even -/
theorem odd_from_le_hex_witness :
    oddFromLeHex 1 ([48, 49] ++ List.replicate 14 48) = some [1] ∧
    oddFromLeHex 1 (List.replicate 14 48 ++ [48, 49]) = none ∧
    oddFromBeHex 1 (List.replicate 14 48 ++ [48, 49]) = some [1] := by decide +kernel

/-! ## T16.3 — boxed decoders: documented errors exactly -/

theorem boxed_be_exact (bytes : List Nat) (bp : Nat) (hb : Bytes bytes) :
    boxedFromBeSlice bytes bp =
      boxedOfSpec (specBoxedDecode bytes.length bp (beVal bytes)) := boxedFromBeSlice_spec bytes bp hb

theorem boxed_le_exact (bytes : List Nat) (bp : Nat) (hb : Bytes bytes) :
    boxedFromLeSlice bytes bp =
      boxedOfSpec (specBoxedDecode bytes.length bp (beVal bytes.reverse)) := by
  rw [boxedFromLeSlice_spec bytes bp hb, beVal_eq, List.reverse_reverse]

/-- `InputSize` ⇔ `len > ⌈precision / 8⌉` -/
theorem boxed_input_size_iff (bytes : List Nat) (bp : Nat) (hb : Bytes bytes) :
    boxedFromBeSlice bytes bp = .error .InputSize ↔ bytes.length > (bp + 7) / 8 := by
  rw [boxed_be_exact bytes bp hb]
  unfold specBoxedDecode boxedOfSpec
  by_cases h1 : bytes.length > (bp + 7) / 8
  · simp [h1]
  · rw [if_neg h1]
    by_cases h2 : beVal bytes ≥ 2 ^ bp
    · simp [h2, h1]
    · simp [h2, h1]

/-- `Precision` ⇔ the length is admissible and `value ≥ 2^precision` -/
theorem boxed_precision_iff (bytes : List Nat) (bp : Nat) (hb : Bytes bytes) :
    boxedFromBeSlice bytes bp = .error .Precision ↔
      (bytes.length ≤ (bp + 7) / 8 ∧ beVal bytes ≥ 2 ^ bp) := by
  rw [boxed_be_exact bytes bp hb]
  unfold specBoxedDecode boxedOfSpec
  by_cases h1 : bytes.length > (bp + 7) / 8
  · simp [h1] <;> omega
  · rw [if_neg h1]
    by_cases h2 : beVal bytes ≥ 2 ^ bp
    · simp [h2] <;> omega
    · simp [h2] <;> omega

/-- success ⇔ admissible length and `value < 2^precision`; then the value is exact, with
    `max 1 ⌈precision/64⌉` limbs; no other error kind is ever produced -/
theorem boxed_ok_iff (bytes : List Nat) (bp : Nat) (hb : Bytes bytes) :
    (∀ l, boxedFromBeSlice bytes bp = .ok l →
      bytes.length ≤ (bp + 7) / 8 ∧ beVal bytes < 2 ^ bp ∧
      l = toLimbs (max 1 ((bp + 63) / 64)) (beVal bytes)) ∧
    (bytes.length ≤ (bp + 7) / 8 → beVal bytes < 2 ^ bp →
      boxedFromBeSlice bytes bp = .ok (toLimbs (max 1 ((bp + 63) / 64)) (beVal bytes))) ∧
    boxedFromBeSlice bytes bp ≠ .error .Empty ∧ boxedFromBeSlice bytes bp ≠ .error .InvalidDigit := by
  rw [boxed_be_exact bytes bp hb]
  unfold specBoxedDecode boxedOfSpec
  by_cases h1 : bytes.length > (bp + 7) / 8
  · simp [h1] <;> omega
  · rw [if_neg h1]
    by_cases h2 : beVal bytes ≥ 2 ^ bp
    · simp [h2] <;> omega
    · simp [h2]
      exact ⟨by omega, by omega⟩

theorem boxed_le_errors_iff (bytes : List Nat) (bp : Nat) (hb : Bytes bytes) :
    (boxedFromLeSlice bytes bp = .error .InputSize ↔ bytes.length > (bp + 7) / 8) ∧
    (boxedFromLeSlice bytes bp = .error .Precision ↔
      (bytes.length ≤ (bp + 7) / 8 ∧ beVal bytes.reverse ≥ 2 ^ bp)) := by
  rw [boxed_le_exact bytes bp hb]
  unfold specBoxedDecode boxedOfSpec
  by_cases h1 : bytes.length > (bp + 7) / 8
  · simp [h1] <;> omega
  · rw [if_neg h1]
    by_cases h2 : beVal bytes.reverse ≥ 2 ^ bp
    · simp [h2] <;> omega
    · simp [h2] <;> omega

/-- the stored value of a successful boxed decode is the positional value (never wrapped) -/
theorem boxed_ok_value (bytes : List Nat) (bp : Nat) (hb : Bytes bytes) {l : List Nat}
    (h : boxedFromBeSlice bytes bp = .ok l) :
    val l = beVal bytes ∧ WF l ∧ l.length = max 1 ((bp + 63) / 64) := by
  have ⟨_, hlt, hl⟩ := (boxed_ok_iff bytes bp hb).1 l h
  subst hl
  refine ⟨?_, toLimbs_WF _ _, toLimbs_length _ _⟩
  rw [val_toLimbs]
  apply Nat.mod_eq_of_lt
  refine Nat.lt_of_lt_of_le hlt ?_
  rw [B_eq_pow, ← Nat.pow_mul]
  exact Nat.pow_le_pow_right (by decide) (by omega)

/-- boxed encoders share the fixed-width loops -/
theorem boxed_encode {l : List Nat} (h : WF l) :
    uintToBeBytes l = specBeBytes (8 * l.length) (val l) ∧ uintToLeBytes l = specLeBytes (8 * l.length) (val l) :=
  ⟨be_bytes_positional h, le_bytes_positional h⟩

theorem boxed_widen_exact {l : List Nat} (h : WF l) (hl : 1 ≤ l.length) (bp : Nat) :
    boxedWiden l bp = if bp ≥ 64 * l.length
      then some (toLimbs (max 1 ((bp + 63) / 64)) (val l)) else none := boxedWiden_spec h hl bp

theorem boxed_shorten_exact {l : List Nat} (h : WF l) (hl : 1 ≤ l.length) (bp : Nat) :
    boxedShorten l bp = if bp ≤ 64 * l.length
      then some (toLimbs (max 1 ((bp + 63) / 64)) (val l % B ^ (max 1 ((bp + 63) / 64)))) else none :=
  boxedShorten_spec h hl bp

/-- `From<Vec<Limb>>` / `From<Uint<N>>` / `From<u8..u128> for BoxedUint`: the value is kept; only an
    empty vector is padded to one zero limb -/
theorem boxed_of_vec_exact (l : List Nat) :
    val (boxedOfVec l) = val l ∧ (boxedOfVec l).length = max 1 l.length ∧ (l ≠ [] → boxedOfVec l = l) := by
  cases l with
  | nil => exact ⟨rfl, rfl, fun h => absurd rfl h⟩
  | cons x xs =>
    refine ⟨rfl, ?_, fun _ => rfl⟩
    show (x :: xs).length = _
    simp only [List.length_cons]; omega


/-- the API result (since /repo fix 01d03c6 the decoded vector is wrapped by `From<Vec<Limb>>`): same
    panic condition and `is_some` flag as the decoding loop, the same value, and always at least one limb -/
theorem boxed_hex_api_exact (hex : List Nat) (bp : Nat) :
    (boxedFromBeHexApi hex bp = none ↔ boxedFromBeHex hex bp = none) ∧
    (∀ l ok, boxedFromBeHex hex bp = some (l, ok) →
      ∃ l', boxedFromBeHexApi hex bp = some (l', ok) ∧ val l' = val l ∧ l'.length = max 1 l.length ∧
        (l ≠ [] → l' = l)) := by
  unfold boxedFromBeHexApi
  constructor
  · cases boxedFromBeHex hex bp <;> simp
  · intro l ok h
    rw [h]
    exact ⟨boxedOfVec l, rfl, (boxed_of_vec_exact l).1, (boxed_of_vec_exact l).2.1, (boxed_of_vec_exact l).2.2⟩

/-- a zero-limb `BoxedUint` prints exactly like one zero limb -/
theorem boxed_fmt_empty (upper alt : Bool) :
    boxedFmtHex upper alt [] = fmtHex false alt [0] ∧ boxedFmtBin alt [] = fmtBin alt [0] := ⟨rfl, rfl⟩

/-! ## T16.4 — words, primitives, concat / split / resize -/

theorem words_identity (l : List Nat) : toWords l = l ∧ fromWords l = l ∧ toWords (fromWords l) = l :=
  ⟨toWords_id l, fromWords_id l, by rw [fromWords_id, toWords_id]⟩

/-- `from_u8 … from_u64`, `from_word`: value preserved for every limb count ≥ 1; zero limbs panic -/
theorem from_word_exact (n w : Nat) (hw : w < B) :
    (∃ l, fromWord (n + 1) w = some l ∧ val l = w ∧ WF l ∧ l.length = n + 1) ∧ fromWord 0 w = none :=
  ⟨fromWord_spec n w hw, rfl⟩

/-- `from_u128` / `from_wide_word`: value preserved for every limb count ≥ 2; fewer limbs panic -/
theorem from_u128_exact (n x : Nat) (hx : x < B * B) :
    (∃ l, fromU128 (n + 2) x = some l ∧ val l = x ∧ WF l ∧ l.length = n + 2) ∧
    fromU128 0 x = none ∧ fromU128 1 x = none :=
  ⟨fromU128_spec n x hx, rfl, rfl⟩

theorem to_primitive_exact {l0 l1 : Nat} (h0 : l0 < B) (h1 : l1 < B) :
    toU64 [l0] = val [l0] ∧ toU128 [l0, l1] = val [l0, l1] :=
  ⟨toU64_spec l0, toU128_spec h0 h1⟩

/-- `Int::from_i8 … from_i64`: the signed value is preserved (sign-extended) for every limb count ≥ 1 -/
theorem int_from_prim_exact {bits v : Nat} (n : Nat) (hb1 : 1 ≤ bits) (hb : bits ≤ 64) (hv : v < 2 ^ bits) :
    ∃ l, intFromPrim bits (n + 1) v = some l ∧ toInt l = signedVal bits v ∧ WF l ∧ l.length = n + 1 :=
  intFromPrim_spec n hb1 hb hv

/-- `Int::from_i128`: the signed value is preserved for every limb count ≥ 2, and narrower types are refused (the
    limb-count assertion added by /repo 77eeede; before it `Int::<1>::from_i128` silently truncated — the former
    `int_from_i128_partial` / `int_from_i128_violates`, kept below about the old formula). FULL. -/
theorem int_from_i128_exact {v : Nat} (n : Nat) (hv : v < 2 ^ 128) :
    ∃ l, intFromI128 (n + 2) v = some l ∧ toInt l = signedVal 128 v ∧ WF l ∧ l.length = n + 2 :=
  intFromI128_spec n hv

theorem int_from_i128_refuses_narrow (v : Nat) : intFromI128 1 v = none ∧ intFromI128 0 v = none :=
  intFromI128_narrow v

/-- for the record: the constructor as written BEFORE the repair changed the value (witnesses `i128::MAX`, `2^64`) -/
theorem int_from_i128_old_violated :
    intFromI128Old 1 (2 ^ 127 - 1) = [(2 ^ 127 - 1) % B] ∧
    toInt (intFromI128Old 1 (2 ^ 127 - 1)) = -1 ∧ signedVal 128 (2 ^ 127 - 1) = 2 ^ 127 - 1 ∧
    toInt (intFromI128Old 1 (2 ^ 64)) = 0 ∧ signedVal 128 (2 ^ 64) = 2 ^ 64 := by
  refine ⟨intFromI128Old_one _, ?_⟩
  decide +kernel

/-- `concat` / `concat_mixed`: `lo + 2^(64·L) · hi`, exactly -/
theorem concat_exact {lo hi : List Nat} (hl : WF lo) (hh : WF hi) :
    val (concatMixed (lo.length + hi.length) lo hi) = val lo + B ^ lo.length * val hi ∧
    WF (concatMixed (lo.length + hi.length) lo hi) ∧
    (concatMixed (lo.length + hi.length) lo hi).length = lo.length + hi.length := by
  have ⟨e, hv, hw⟩ := concatMixed_spec hl hh
  exact ⟨hv, hw, by rw [e]; simp⟩

/-- `split` / `split_mixed`: `(x mod 2^(64·L), x div 2^(64·L))`, exactly -/
theorem split_exact {x : List Nat} (ll hl : Nat) (hx : WF x) (hlen : x.length = ll + hl) :
    val (splitMixed ll hl x).1 = val x % B ^ ll ∧ val (splitMixed ll hl x).2 = val x / B ^ ll ∧
    (splitMixed ll hl x).1.length = ll ∧ (splitMixed ll hl x).2.length = hl := by
  have ⟨_, h1, h2, h3, h4⟩ := splitMixed_spec ll hl hx hlen
  exact ⟨h1, h2, h3, h4⟩

theorem split_concat {lo hi : List Nat} (hl : WF lo) (hh : WF hi) :
    splitMixed lo.length hi.length (concatMixed (lo.length + hi.length) lo hi) = (lo, hi) := by
  have ⟨e, _, hw⟩ := concatMixed_spec hl hh
  rw [e] at hw ⊢
  rw [(splitMixed_spec lo.length hi.length hw (by simp)).1]
  simp

/-- `Uint::resize`: truncation mod `2^(64·T)`; widening preserves the value -/
theorem resize_exact {l : List Nat} (t : Nat) (h : WF l) :
    val (uintResize t l) = val l % B ^ t ∧ WF (uintResize t l) ∧ (uintResize t l).length = t ∧
    (l.length ≤ t → val (uintResize t l) = val l) :=
  ⟨(uintResize_spec t h).1, (uintResize_spec t h).2.1, (uintResize_spec t h).2.2, uintResize_widen t h⟩

/-- `Int::resize`: widening sign-extends (two's-complement value preserved), shortening keeps the low limbs -/
theorem int_resize_exact {l : List Nat} (t : Nat) (h : WF l) (h1 : 1 ≤ l.length) :
    (l.length ≤ t → toInt (intResize t l) = toInt l ∧ WF (intResize t l) ∧ (intResize t l).length = t) ∧
    (t ≤ l.length → intResize t l = l.take t ∧ val (intResize t l) = val l % B ^ t) :=
  ⟨intResize_widen t h h1, intResize_shorten t h⟩

/-- `Int::resize` in one formula (what the driver prints as L0): the `T`-limb two's-complement pattern
    of the signed value, for every source and target limb count -/
theorem int_resize_pattern {l : List Nat} (t : Nat) (h : WF l) (h1 : 1 ≤ l.length) :
    val (intResize t l) = ofInt t (toInt l) := intResize_ofInt t h h1

/-! ## coverage round — serde of `Limb`, `Wrapping`, `Checked`, `ConstMontyForm`; mutable word views;
    `From<Limb>` / `From<Odd<Uint>>`; formatting forwarded by `NonZero` / `Odd` -/

/-- `Uint` deserialisation (binary form) on ANY byte string: exactly the frames `len = 8·LIMBS` (little-endian
    `u64`) followed by at least `8·LIMBS` bytes are accepted — every wrong-length input fails — and the value is the
    little-endian positional value of the payload -/
theorem serde_de_exact (n : Nat) {bs : List Nat} (hb : Bytes bs) :
    serdeDeserialize n bs =
      if bs.length < 8 + 8 * n ∨ beVal (bs.take 8).reverse ≠ 8 * n then none
      else some (toLimbs n (beVal ((bs.drop 8).take (8 * n)).reverse)) := by
  rw [serdeDeserialize_spec n hb, beVal_eq, beVal_eq, List.reverse_reverse, List.reverse_reverse]

/-- trailing bytes after a well-formed frame are ignored -/
theorem serde_de_trailing {l : List Nat} (h : WF l) (hn : 8 * l.length < B) (tail : List Nat) :
    serdeDeserialize l.length (serdeSerialize l ++ tail) = some l := serdeDeserialize_append h hn tail

/-- `Limb` serde: 8 little-endian bytes; decoding inverts encoding, ignores trailing bytes, and fails exactly on
    fewer than 8 bytes -/
theorem limb_serde_exact {w : Nat} (h : w < B) (tail : List Nat) :
    limbSerialize w = specLeBytes 8 w ∧ limbDeserialize (limbSerialize w ++ tail) = some w := by
  refine ⟨by rw [specLeBytes_eq]; rfl, ?_⟩
  have hl : (limbSerialize w).length = 8 := by simp [limbSerialize, wordToLeBytes]
  unfold limbDeserialize
  rw [if_neg (by rw [List.length_append, hl]; omega), List.take_left' hl]
  exact congrArg some (wordFromLe_toLe h)

theorem limb_de_exact (bs : List Nat) :
    limbDeserialize bs = if bs.length < 8 then none else some (beVal (bs.take 8).reverse) := by
  unfold limbDeserialize wordFromLeBytes
  rw [beVal_eq, List.reverse_reverse]

/-- `Wrapping<T>` (de)serialises as `T` -/
theorem wrapping_serde_exact {l : List Nat} (h : WF l) (hn : 8 * l.length < B) :
    wrappingSerialize l = specLeBytes 8 (8 * l.length) ++ specLeBytes (8 * l.length) (val l) ∧
    wrappingDeserialize l.length (wrappingSerialize l) = some l ∧
    (∀ n bs, wrappingDeserialize n bs = serdeDeserialize n bs) :=
  ⟨(serde_roundtrip h hn).1, (serde_roundtrip h hn).2, fun _ _ => rfl⟩

/-- `Checked<T>`: the absent value is the single byte 0, a present value is the byte 1 followed by `T`'s encoding -/
theorem checked_serde_layout {l : List Nat} (h : WF l) :
    checkedSerialize none = [0] ∧
    checkedSerialize (some l) = 1 :: (specLeBytes 8 (8 * l.length) ++ specLeBytes (8 * l.length) (val l)) := by
  refine ⟨rfl, ?_⟩
  show 1 :: serdeSerialize l = _
  unfold serdeSerialize
  rw [le_bytes_positional h, specLeBytes_eq, specLeBytes_eq]

theorem checked_serde_roundtrip {l : List Nat} (h : WF l) (hn : 8 * l.length < B) (tail : List Nat) :
    checkedDeserialize l.length (checkedSerialize (some l) ++ tail) = some (some l) ∧
    (∀ n, checkedDeserialize n (checkedSerialize none ++ tail) = some none) := by
  constructor
  · show checkedDeserialize l.length (1 :: (serdeSerialize l ++ tail)) = _
    unfold checkedDeserialize
    simp only [if_neg (show (1 : Nat) ≠ 0 by decide), if_true]
    rw [serde_de_trailing h hn tail]; rfl
  · intro n; rfl

/-- strictness: no tag byte, or a tag other than 0 / 1, is an error; a present value is produced only from tag 1
    followed by a well-formed frame -/
theorem checked_de_strict (n : Nat) :
    checkedDeserialize n [] = none ∧
    (∀ tag rest, tag ≠ 0 → tag ≠ 1 → checkedDeserialize n (tag :: rest) = none) ∧
    (∀ bs l, checkedDeserialize n bs = some (some l) → ∃ rest, bs = 1 :: rest ∧ serdeDeserialize n rest = some l) := by
  refine ⟨rfl, ?_, ?_⟩
  · intro tag rest h0 h1
    unfold checkedDeserialize
    simp only [if_neg h0, if_neg h1]
  · intro bs l h
    unfold checkedDeserialize at h
    cases bs with
    | nil => cases h
    | cons tag rest =>
      simp only at h
      by_cases h0 : tag = 0
      · rw [if_pos h0] at h; cases h
      · rw [if_neg h0] at h
        by_cases h1 : tag = 1
        · rw [if_pos h1] at h
          subst h1
          cases hd : serdeDeserialize n rest with
          | none => rw [hd] at h; cases h
          | some a =>
            rw [hd] at h
            simp only [Option.map_some, Option.some.injEq] at h
            exact ⟨rest, rfl, by rw [hd, h]⟩
        · rw [if_neg h1] at h; cases h

/-- `ConstMontyForm`: the encoding is that of the Montgomery representation; a reduced representation
    round-trips -/
theorem cm_serde_roundtrip {a m : List Nat} (ha : WF a) (hl : a.length = m.length) (hn : 8 * a.length < B)
    (hlt : val a < val m) :
    cmSerialize a = specLeBytes 8 (8 * a.length) ++ specLeBytes (8 * a.length) (val a) ∧
    cmDeserialize m (cmSerialize a) = some a := by
  refine ⟨(serde_roundtrip ha hn).1, ?_⟩
  unfold cmDeserialize cmSerialize
  rw [← hl, (serde_roundtrip ha hn).2]
  simp only [if_pos hlt]

/-- … and deserialisation never yields an unreduced representation: success ⇔ the frame decodes to a value below
    the modulus -/
theorem cm_de_exact (m bs : List Nat) :
    (∀ a, cmDeserialize m bs = some a ↔ (serdeDeserialize m.length bs = some a ∧ val a < val m)) ∧
    (∀ a, serdeDeserialize m.length bs = some a → val m ≤ val a → cmDeserialize m bs = none) := by
  unfold cmDeserialize
  cases hd : serdeDeserialize m.length bs with
  | none => simp
  | some a0 =>
    by_cases hlt : val a0 < val m
    · simp only [if_pos hlt, Option.some.injEq]
      refine ⟨fun a => ⟨fun h => ⟨h, h ▸ hlt⟩, fun h => h.1⟩, fun a h hge => ?_⟩
      subst h; omega
    · simp only [if_neg hlt, Option.some.injEq]
      refine ⟨fun a => ⟨fun h => (by cases h), fun h => ?_⟩, fun _ _ _ => trivial⟩
      obtain ⟨h1, h2⟩ := h
      subst h1; exact absurd h2 hlt

/-- a store through any of the mutable views (`as_words_mut`, `as_limbs_mut`, `AsMut<[Word; N]>`, `AsMut<[Limb]>`,
    `AsMut<[Word]>`) replaces exactly limb `i`: positionally, and as a value -/
theorem words_mut_exact {l : List Nat} (h : WF l) {i w : Nat} (hi : i < l.length) (hw : w < B) :
    val (setWord l i w) = val l - val l / B ^ i % B * B ^ i + w * B ^ i ∧
    WF (setWord l i w) ∧ (setWord l i w).length = l.length ∧
    (∀ j, (setWord l i w)[j]? = if j = i then some w else l[j]?) := by
  refine ⟨setWord_val h hi w, setWord_WF h i hw, setWord_length l i w, fun j => ?_⟩
  unfold setWord
  rw [List.getElem?_set]
  by_cases hj : i = j
  · subst hj; simp [hi]
  · rw [if_neg hj, if_neg (fun e => hj e.symm)]

/-- `Word::from(Limb)`, `WideWord::from(Limb)`: the value -/
theorem limb_to_prim_exact (w : Nat) : limbToWord w = w ∧ limbToWide w = w := ⟨rfl, rfl⟩

/-- `From<Odd<Uint<N>>>` / `From<&Odd<Uint<N>>> for BoxedUint`: the same value with `max 1 N` limbs -/
theorem boxed_from_odd_exact (l : List Nat) :
    val (boxedFromOdd l) = val l ∧ (boxedFromOdd l).length = max 1 l.length ∧ (l ≠ [] → boxedFromOdd l = l) := by
  unfold boxedFromOdd
  rw [toWords_id]
  exact boxed_of_vec_exact l

/-- the formatting traits of `NonZero<T>` / `Odd<T>` print the wrapped value: positional hex / binary text -/
theorem wrapper_fmt_exact (upper : Bool) {l : List Nat} (h : WF l) :
    wrapFmtHex upper false l = specHexText upper (16 * l.length) (val l) ∧
    wrapFmtBin false l = specBinText (64 * l.length) (val l) ∧
    wrapFmtHex upper true l = [48, 120] ++ specHexText upper (16 * l.length) (val l) ∧
    wrapFmtBin true l = [48, 98] ++ specBinText (64 * l.length) (val l) ∧
    (l ≠ [] → wrapBoxedFmtHex upper false l = specHexText upper (16 * l.length) (val l) ∧
      wrapBoxedFmtBin false l = specBinText (64 * l.length) (val l)) := by
  refine ⟨fmt_hex_positional upper h, fmt_bin_positional h, ?_, ?_, fun hne => ?_⟩
  · show fmtHex upper true l = _
    rw [(fmt_alternate upper l).1, fmt_hex_positional upper h]
  · show fmtBin true l = _
    rw [(fmt_alternate upper l).2, fmt_bin_positional h]
  · have he : l.isEmpty = false := by cases l with
      | nil => exact absurd rfl hne
      | cons _ _ => rfl
    unfold wrapBoxedFmtHex wrapBoxedFmtBin boxedFmtHex boxedFmtBin
    simp only [he, Bool.false_eq_true, if_false]
    exact ⟨fmt_hex_positional upper h, fmt_bin_positional h⟩

/-- `Display for DecodeError`: the four documented errors print four different messages (the error kind can be
    told from the text) -/
theorem decode_error_text_injective : ∀ a b : DecodeError, decodeErrorText a = decodeErrorText b → a = b := by
  intro a b; cases a <;> cases b <;> decide

/-! ## non-vacuity: the hypotheses are satisfiable by concrete non-trivial inputs -/

example : WF [0x8899aabbccddeeff, 0x0011223344556677] := by
  intro x hx; simp at hx; rcases hx with rfl | rfl <;> decide
example : uintToBeBytes [0x8899aabbccddeeff, 0x0011223344556677]
    = [0x00, 0x11, 0x22, 0x33, 0x44, 0x55, 0x66, 0x77, 0x88, 0x99, 0xaa, 0xbb, 0xcc, 0xdd, 0xee, 0xff] := by
  decide +kernel
example : fromBeSlice 2 [0x00, 0x11, 0x22, 0x33, 0x44, 0x55, 0x66, 0x77, 0x88, 0x99, 0xaa, 0xbb, 0xcc, 0xdd, 0xee, 0xff]
    = some [0x8899aabbccddeeff, 0x0011223344556677] := by decide +kernel
example : fromBeHex 1 [48, 49, 50, 51, 52, 53, 54, 55, 56, 57, 97, 66, 67, 68, 101, 70] = some [0x0123456789abcdef] := by
  decide +kernel
example : fromBeHex 1 [48, 49, 50, 51, 52, 53, 54, 55, 56, 57, 97, 66, 67, 68, 101, 71] = none := by decide +kernel
example : (match boxedFromBeSlice [0x0f, 0x11, 0x22, 0x33, 0x44, 0x55, 0x66, 0x77, 0x88, 0x99, 0xaa, 0xbb, 0xcc, 0xdd, 0xee, 0xff] 121 with
    | .error e => e.name | .ok _ => "ok") = "Precision" := by decide +kernel
example : (match boxedFromBeSlice [0, 0, 0] 16 with | .error e => e.name | .ok _ => "ok") = "InputSize" := by
  decide +kernel
example : (match boxedFromBeSlice [0x01, 0xff] 9 with | .error _ => [] | .ok l => l) = [0x1ff] := by decide +kernel
example : toInt (intResize 2 [B - 2]) = -2 := by decide +kernel
-- coverage round
example : checkedDeserialize 1 (checkedSerialize (some [0x1122334455667788])) = some (some [0x1122334455667788]) := by
  decide +kernel
example : checkedDeserialize 1 (2 :: serdeSerialize [5]) = none := by decide +kernel
example : cmDeserialize [0xffffffff00000001] (cmSerialize [0xffffffff00000000]) = some [0xffffffff00000000] ∧
    cmDeserialize [0xffffffff00000001] (cmSerialize [0xffffffff00000001]) = none := by decide +kernel
example : serdeDeserialize 1 [7, 0, 0, 0, 0, 0, 0, 0, 1, 2, 3, 4, 5, 6, 7] = none := by decide +kernel
example : setWord [1, 2, 3] 1 7 = [1, 7, 3] ∧ (1 : Nat) < [1, 2, 3].length := by decide
example : limbDeserialize (limbSerialize 0x0102030405060708 ++ [9]) = some 0x0102030405060708 := by decide +kernel

end CB.P16
