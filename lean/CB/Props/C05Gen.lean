/-
  C05 — theorems about the SOURCE of the shift / bit-query layer this property rests on, regenerated from /repo on every
  run by tools/translate.py (CB/Gen/Shifts.lean: `impl Limb { shl, shl1, shr, shr1, bits, leading_zeros, trailing_zeros,
  trailing_ones, bitor }` of src/limb/{shl,shr,bits,bit_or}.rs and `Uint::{overflowing_shl1, shl_limb, shr1,
  shr1_with_carry, ..}` of src/uint/{shl,shr}.rs).  Kept in a module of its own (nothing imports it) so that a change in one
  of these Rust functions breaks exactly this property's obligations and no other module's build.
  Audited together with CB/Props/C05.lean by tools/runner.py.

  `Gen.Shifts.Uint.overflowing_shl1 LIMBS self` is the Lean translation of what src/uint/shl.rs says NOW: a `Uint<LIMBS>` is
  the list of its limbs (`List (BitVec 64)`, little endian), `LIMBS` an explicit argument, a `while i < LIMBS` loop a
  recursive auxiliary definition that re-tests `i < LIMBS` every round, a `while i > 0 { i -= 1; .. }` loop over a `usize`
  counter a structural recursion on the counter, `ret.limbs[i] = w` a `List.set`.  The theorems below are about those
  definitions, for EVERY limb count; `GenShifts.nats l` is `l.map BitVec.toNat` (the limbs as the model's words).
-/
import CB.Props.C05
import CB.Lemmas.GenShiftsLadder
import CB.Lemmas.GenShiftsQuery
import CB.Lemmas.GenCmpMoreQuery
namespace CB.P05G
open CB CB.Shift CB.Bits

/-! ## T05.G1 — the SOURCE of the `Limb` shifts and bit counts -/

/-- what the thin word functions of the source compute (release semantics of `<<` / `>>`: the amount modulo 64;
    `u64::leading_zeros` = `BitVec.clz`, `u64::trailing_zeros` = `BitVec.ctz`) -/
theorem src_limb_shift_meaning (x y : BitVec 64) (s : BitVec 32) :
    Gen.Shifts.Limb.shl x s = x <<< (s % 64#32) ∧ Gen.Shifts.Limb.shr x s = x >>> (s % 64#32) ∧
    Gen.Shifts.Limb.shl1 x = (x <<< 1, x >>> 63) ∧ Gen.Shifts.Limb.shr1 x = (x >>> 1, x <<< 63) ∧
    Gen.Shifts.Limb.bitor x y = x ||| y ∧
    Gen.Shifts.Limb.leading_zeros x = (BitVec.clz x).setWidth 32 ∧
    Gen.Shifts.Limb.bits x = 64#32 - (BitVec.clz x).setWidth 32 ∧
    Gen.Shifts.Limb.trailing_zeros x = (BitVec.ctz x).setWidth 32 ∧
    Gen.Shifts.Limb.trailing_ones x = (BitVec.ctz (~~~x)).setWidth 32 :=
  ⟨GenBits.limb_shl_meaning x s, GenBits.limb_shr_meaning x s, (GenBits.limb_shl1_meaning x).1,
   (GenBits.limb_shr1_meaning x).1, GenBits.limb_bitor_meaning x y, GenBits.limb_leading_zeros_meaning x,
   GenBits.limb_bits_meaning x, GenBits.limb_trailing_zeros_meaning x, GenBits.limb_trailing_ones_meaning x⟩

/-- `shl1` / `shr1` of the source lose no bit: (carry, result) is the 65-bit `2·x`, (result, carry) the 128-bit `x·2^63` -/
theorem src_limb_shl1_shr1_exact (x : BitVec 64) :
    ((Gen.Shifts.Limb.shl1 x).2.setWidth 128 <<< 64) ||| (Gen.Shifts.Limb.shl1 x).1.setWidth 128 = x.setWidth 128 <<< 1 ∧
    ((Gen.Shifts.Limb.shr1 x).1.setWidth 128 <<< 64) ||| (Gen.Shifts.Limb.shr1 x).2.setWidth 128 = x.setWidth 128 <<< 63 :=
  ⟨(GenBits.limb_shl1_meaning x).2, (GenBits.limb_shr1_meaning x).2⟩

/-- the hand-written `Nat` model of the `Limb` shifts and bit counts (what T05.8 `limb_shift_spec` is about) IS the
    translated source function, on every word (and every in-range shift amount) -/
theorem limb_shift_model_is_translated_source (x : BitVec 64) (s : BitVec 32) (hs : s.toNat < 64) :
    limbShl x.toNat s.toNat = some (Gen.Shifts.Limb.shl x s).toNat ∧
    limbShr x.toNat s.toNat = some (Gen.Shifts.Limb.shr x s).toNat ∧
    limbShl1 x.toNat = ((Gen.Shifts.Limb.shl1 x).1.toNat, (Gen.Shifts.Limb.shl1 x).2.toNat) ∧
    limbShr1 x.toNat = ((Gen.Shifts.Limb.shr1 x).1.toNat, (Gen.Shifts.Limb.shr1 x).2.toNat) ∧
    wlz x.toNat = (Gen.Shifts.Limb.leading_zeros x).toNat ∧
    limbBits x.toNat = (Gen.Shifts.Limb.bits x).toNat :=
  ⟨GenBits.limbShl_bridge x s hs, GenBits.limbShr_bridge x s hs, GenBits.limbShl1_bridge x, GenBits.limbShr1_bridge x,
   GenBits.limbLeadingZeros_bridge x, GenBits.limbBits_bridge x⟩

/-- the TRANSLATED `Limb::shl` / `Limb::shr` for `shift < 64`: `(x·2^s) mod 2^64`, `x / 2^s`; `Limb::bits` is the bit length -/
theorem src_limb_shift_exact (x : BitVec 64) (s : BitVec 32) (hs : s.toNat < 64) :
    (Gen.Shifts.Limb.shl x s).toNat = (x.toNat * 2 ^ s.toNat) % B ∧
    (Gen.Shifts.Limb.shr x s).toNat = x.toNat / 2 ^ s.toNat ∧
    (Gen.Shifts.Limb.bits x).toNat = bitlen x.toNat := by
  have ⟨h1, h2, h3⟩ := P05.limb_shift_spec (toNat_lt_B x) hs
  rw [GenBits.limbShl_bridge x s hs] at h1
  rw [GenBits.limbShr_bridge x s hs] at h2
  rw [GenBits.limbBits_bridge x] at h3
  exact ⟨Option.some.inj h1, Option.some.inj h2, h3⟩

/-! ## T05.G2 — the SOURCE of the crate-internal one-bit / sub-limb shifts -/

/-- the hand-written limb-list model (what T05.8a/b are proved about) IS the translated source, for every limb count -/
theorem shift_model_is_translated_source (a : List (BitVec 64)) (s : BitVec 32) (hs : s.toNat < 64) :
    overflowingShl1 (GenShifts.nats a) =
      (GenShifts.nats (Gen.Shifts.Uint.overflowing_shl1 a.length a).1, (Gen.Shifts.Uint.overflowing_shl1 a.length a).2.toNat) ∧
    shr1WithCarry (GenShifts.nats a) =
      (GenShifts.nats (Gen.Shifts.Uint.shr1_with_carry a.length a).1, (Gen.Shifts.Uint.shr1_with_carry a.length a).2.toNat) ∧
    ushr1 (GenShifts.nats a) = GenShifts.nats (Gen.Shifts.Uint.shr1 a.length a) ∧
    shlLimb (GenShifts.nats a) s.toNat =
      (GenShifts.nats (Gen.Shifts.Uint.shl_limb a.length a s).1, (Gen.Shifts.Uint.shl_limb a.length a s).2.toNat) :=
  ⟨GenShifts.overflowingShl1_bridge a, GenShifts.shr1WithCarry_bridge a, GenShifts.ushr1_bridge a,
   GenShifts.shlLimb_bridge a s hs⟩

/-- the TRANSLATED `Uint::overflowing_shl1` is exact: `val r + B^LIMBS · carry = 2 · val a`, the carry limb is a bit, the
    result has `LIMBS` limbs — for every limb count -/
theorem src_uint_shl1_exact (a : List (BitVec 64)) :
    val (GenShifts.nats (Gen.Shifts.Uint.overflowing_shl1 a.length a).1) +
        B ^ a.length * (Gen.Shifts.Uint.overflowing_shl1 a.length a).2.toNat = 2 * val (GenShifts.nats a) ∧
    (Gen.Shifts.Uint.overflowing_shl1 a.length a).2.toNat ≤ 1 ∧
    (Gen.Shifts.Uint.overflowing_shl1 a.length a).1.length = a.length := by
  have ⟨e, c, l⟩ := overflowingShl1_spec (GenShifts.nats_WF a)
  rw [GenShifts.overflowingShl1_bridge a, GenShifts.nats_length] at e l
  rw [GenShifts.overflowingShl1_bridge a] at c
  dsimp only at e c l
  exact ⟨e, c, by simpa [GenShifts.nats] using l⟩

/-- the TRANSLATED `Uint::shr1_with_carry` / `Uint::shr1`: `val r = val a / 2`, the returned choice is truthy exactly when
    bit 0 was set — for every limb count -/
theorem src_uint_shr1_exact (a : List (BitVec 64)) :
    val (GenShifts.nats (Gen.Shifts.Uint.shr1_with_carry a.length a).1) = val (GenShifts.nats a) / 2 ∧
    (Gen.Shifts.Uint.shr1_with_carry a.length a).2 = GenBits.ofBool (decide (val (GenShifts.nats a) % 2 = 1)) ∧
    val (GenShifts.nats (Gen.Shifts.Uint.shr1 a.length a)) = val (GenShifts.nats a) / 2 ∧
    (Gen.Shifts.Uint.shr1 a.length a).length = a.length := by
  have ⟨e, m, l⟩ := shr1WithCarry_spec (GenShifts.nats_WF a)
  rw [GenShifts.shr1WithCarry_bridge a] at e m l
  rw [GenShifts.nats_length] at l
  dsimp only at e m l
  have l' : (Gen.Shifts.Uint.shr1_with_carry a.length a).1.length = a.length := by simpa [GenShifts.nats] using l
  refine ⟨e, BitVec.eq_of_toNat_eq (by rw [m, GenBits.ofBool_toNat]), ?_, ?_⟩
  · rw [GenBits.shr1_eq]; exact e
  · rw [GenBits.shr1_eq]; exact l'

/-- the TRANSLATED `Uint::shl_limb(shift)`, `shift < 64`, on a value with at least one limb:
    `val r + B^LIMBS · carry = val a · 2^shift` (including the masked `shift = 0` case) -/
theorem src_uint_shl_limb_exact (a : List (BitVec 64)) (hne : a ≠ []) (s : BitVec 32) (hs : s.toNat < 64) :
    val (GenShifts.nats (Gen.Shifts.Uint.shl_limb a.length a s).1) +
        B ^ a.length * (Gen.Shifts.Uint.shl_limb a.length a s).2.toNat = val (GenShifts.nats a) * 2 ^ s.toNat ∧
    (Gen.Shifts.Uint.shl_limb a.length a s).1.length = a.length := by
  have hne' : GenShifts.nats a ≠ [] := by
    cases a with
    | nil => exact absurd rfl hne
    | cons _ _ => simp [GenShifts.nats]
  have ⟨e, l⟩ := P05.shl_limb_spec (GenShifts.nats_WF a) hne' hs
  rw [GenShifts.shlLimb_bridge a s hs, GenShifts.nats_length] at e l
  dsimp only at e l
  exact ⟨e, by simpa [GenShifts.nats] using l⟩

/-- non-vacuity / evaluation: the translated functions run — `2^127 · 2` over two limbs carries out, `3 >> 1 = 1` with the
    low bit reported, `(2^64 + 2^63) << 1` moves a bit across the limb boundary -/
example : Gen.Shifts.Uint.overflowing_shl1 2 [0#64, 1#64 <<< 63] = ([0#64, 0#64], 1#64) := by decide
example : Gen.Shifts.Uint.shr1_with_carry 2 [3#64, 0#64] = ([1#64, 0#64], ~~~0#64) := by decide
example : Gen.Shifts.Uint.shl_limb 2 [1#64 <<< 63, 1#64] 1#32 = ([0#64, 3#64], 0#64) := by decide

/-! ## T05.G3 — the SOURCE of the variable-time shifts `Uint::overflowing_shl_vartime` / `overflowing_shr_vartime`

A `ConstCtOption<Uint<LIMBS>>` of the source is the pair (value, `is_some` mask), as in the model; the early `return`s of
the source are `if .. then .. else` in the translation; `Self::BITS` is `BitVec.ofNat 32 (64 * LIMBS)`, hence the side
condition `64 · LIMBS < 2^32` (the crate's `Uint::BITS` is a `u32` constant: larger types do not compile). -/

/-- the hand-written model of the variable-time shifts (what T05.1a/b are proved about) IS the translated source, for every
    limb count and EVERY shift amount (in range or not) -/
theorem vartime_model_is_translated_source (a : List (BitVec 64)) (s : BitVec 32) (hL : 64 * a.length < 2 ^ 32) :
    overflowingShlVartime (GenShifts.nats a) s.toNat =
      (GenShifts.nats (Gen.Shifts.Uint.overflowing_shl_vartime a.length a s).1,
       (Gen.Shifts.Uint.overflowing_shl_vartime a.length a s).2.toNat) ∧
    overflowingShrVartime (GenShifts.nats a) s.toNat =
      (GenShifts.nats (Gen.Shifts.Uint.overflowing_shr_vartime a.length a s).1,
       (Gen.Shifts.Uint.overflowing_shr_vartime a.length a s).2.toNat) :=
  ⟨GenShifts.overflowingShlVartime_bridge a s hL, GenShifts.overflowingShrVartime_bridge a s hL⟩

/-- the TRANSLATED `Uint::overflowing_shl_vartime`: `is_some` exactly when `s < BITS`, then `val r = (val a · 2^s) mod B^LIMBS`;
    otherwise the carried value is zero; the result has `LIMBS` limbs -/
theorem src_uint_shl_vartime_exact (a : List (BitVec 64)) (s : BitVec 32) (hL : 64 * a.length < 2 ^ 32) :
    (Gen.Shifts.Uint.overflowing_shl_vartime a.length a s).2 = GenBits.ofBool (decide (s.toNat < 64 * a.length)) ∧
    (s.toNat < 64 * a.length → val (GenShifts.nats (Gen.Shifts.Uint.overflowing_shl_vartime a.length a s).1) =
        (val (GenShifts.nats a) * 2 ^ s.toNat) % B ^ a.length) ∧
    (64 * a.length ≤ s.toNat → val (GenShifts.nats (Gen.Shifts.Uint.overflowing_shl_vartime a.length a s).1) = 0) ∧
    (Gen.Shifts.Uint.overflowing_shl_vartime a.length a s).1.length = a.length := by
  have ⟨m, e, z, l, _⟩ := P05.shl_vartime_spec (GenShifts.nats_WF a) s.toNat
  rw [GenShifts.overflowingShlVartime_bridge a s hL] at m e z l
  rw [GenShifts.nats_length] at m e z l
  dsimp only at m e z l
  exact ⟨BitVec.eq_of_toNat_eq (by rw [m, GenBits.ofBool_toNat]), e, z, by simpa [GenShifts.nats] using l⟩

/-- the TRANSLATED `Uint::overflowing_shr_vartime`: `is_some` exactly when `s < BITS`, then `val r = val a / 2^s` -/
theorem src_uint_shr_vartime_exact (a : List (BitVec 64)) (s : BitVec 32) (hL : 64 * a.length < 2 ^ 32) :
    (Gen.Shifts.Uint.overflowing_shr_vartime a.length a s).2 = GenBits.ofBool (decide (s.toNat < 64 * a.length)) ∧
    (s.toNat < 64 * a.length → val (GenShifts.nats (Gen.Shifts.Uint.overflowing_shr_vartime a.length a s).1) =
        val (GenShifts.nats a) / 2 ^ s.toNat) ∧
    (64 * a.length ≤ s.toNat → val (GenShifts.nats (Gen.Shifts.Uint.overflowing_shr_vartime a.length a s).1) = 0) ∧
    (Gen.Shifts.Uint.overflowing_shr_vartime a.length a s).1.length = a.length := by
  have ⟨m, e, z, l, _⟩ := P05.shr_vartime_spec (GenShifts.nats_WF a) s.toNat
  rw [GenShifts.overflowingShrVartime_bridge a s hL] at m e z l
  rw [GenShifts.nats_length] at m e z l
  dsimp only at m e z l
  exact ⟨BitVec.eq_of_toNat_eq (by rw [m, GenBits.ofBool_toNat]), e, z, by simpa [GenShifts.nats] using l⟩

/-- non-vacuity / evaluation: a 3-limb value (non-power-of-two width) shifted across a limb boundary, and an out-of-range shift -/
example : Gen.Shifts.Uint.overflowing_shl_vartime 3 [~~~0#64, 1#64, 0#64] 65#32 = ([0#64, ~~~0#64 <<< 1, 3#64], ~~~0#64) := by decide
example : Gen.Shifts.Uint.overflowing_shr_vartime 3 [0#64, 1#64, ~~~0#64] 65#32 = ([1#64 <<< 63, ~~~0#64 >>> 1, 0#64], ~~~0#64) := by decide
example : Gen.Shifts.Uint.overflowing_shl_vartime 3 [1#64, 1#64, 1#64] 192#32 = ([0#64, 0#64, 0#64], 0#64) := by decide

/-! ## T05.G4 — the SOURCE of `Uint::select`, of the constant-time ladder `overflowing_shl` / `overflowing_shr` and of the
wrappers `shl`, `shr`, `shl_vartime`, `shr_vartime`, `wrapping_sh{l,r}[_vartime]`

The model carries panics as an outer `Option`; the translation of `.expect(msg)` is the value component of the pair, of
`.unwrap_or(def)` the `Uint::select(&def, &value, is_some)` it is defined as.  `model = some (translated ..)` therefore says
two things: no `expect` reached by the source can fail, and the values agree.  `a ≠ []` is `LIMBS ≥ 1`. -/

/-- the hand-written model of `Uint::select`, of the ladder and of the wrapping forms (what T05.2 is proved about) IS the
    translated source, for every limb count and EVERY shift amount -/
theorem ladder_model_is_translated_source (a b : List (BitVec 64)) (c : BitVec 64) (hab : a.length = b.length) (hne : a ≠ [])
    (s : BitVec 32) (hL : 64 * a.length < 2 ^ 32) :
    uselect (GenShifts.nats a) (GenShifts.nats b) c.toNat = GenShifts.nats (Gen.Shifts.Uint.select a.length a b c) ∧
    overflowingShl (GenShifts.nats a) s.toNat =
      some (GenShifts.nats (Gen.Shifts.Uint.overflowing_shl a.length a s).1, (Gen.Shifts.Uint.overflowing_shl a.length a s).2.toNat) ∧
    overflowingShr (GenShifts.nats a) s.toNat =
      some (GenShifts.nats (Gen.Shifts.Uint.overflowing_shr a.length a s).1, (Gen.Shifts.Uint.overflowing_shr a.length a s).2.toNat) ∧
    wrappingShlU (GenShifts.nats a) s.toNat = some (GenShifts.nats (Gen.Shifts.Uint.wrapping_shl a.length a s)) ∧
    wrappingShrU (GenShifts.nats a) s.toNat = some (GenShifts.nats (Gen.Shifts.Uint.wrapping_shr a.length a s)) ∧
    wrappingShlVartimeU (GenShifts.nats a) s.toNat = GenShifts.nats (Gen.Shifts.Uint.wrapping_shl_vartime a.length a s) ∧
    wrappingShrVartimeU (GenShifts.nats a) s.toNat = GenShifts.nats (Gen.Shifts.Uint.wrapping_shr_vartime a.length a s) :=
  ⟨GenShifts.uselect_bridge a b c hab, GenShifts.overflowingShl_bridge a hne s hL, GenShifts.overflowingShr_bridge a hne s hL,
   GenShifts.wrappingShlU_bridge a hne s hL, GenShifts.wrappingShrU_bridge a hne s hL,
   GenShifts.wrappingShlVartimeU_bridge a s hL, GenShifts.wrappingShrVartimeU_bridge a s hL⟩

/-- the TRANSLATED ladder IS the TRANSLATED variable-time shift (pair of value and mask), every limb count, every shift -/
theorem src_ladder_eq_vartime (a : List (BitVec 64)) (hne : a ≠ []) (s : BitVec 32) (hL : 64 * a.length < 2 ^ 32) :
    Gen.Shifts.Uint.overflowing_shl a.length a s = Gen.Shifts.Uint.overflowing_shl_vartime a.length a s ∧
    Gen.Shifts.Uint.overflowing_shr a.length a s = Gen.Shifts.Uint.overflowing_shr_vartime a.length a s :=
  ⟨GenShifts.oshl_eq_shlv a hne s hL, GenShifts.oshr_eq_shrv a hne s hL⟩

/-- the TRANSLATED `Uint::shl` / `shl_vartime` / `shr` / `shr_vartime` for an in-range shift: `(val a · 2^s) mod B^LIMBS`,
    `val a / 2^s`; for `s ≥ BITS` the `is_some` mask their `expect` asserts is false (the source panics) -/
theorem src_uint_shl_shr_exact (a : List (BitVec 64)) (hne : a ≠ []) (s : BitVec 32) (hL : 64 * a.length < 2 ^ 32) :
    (s.toNat < 64 * a.length →
      val (GenShifts.nats (Gen.Shifts.Uint.shl a.length a s)) = (val (GenShifts.nats a) * 2 ^ s.toNat) % B ^ a.length ∧
      val (GenShifts.nats (Gen.Shifts.Uint.shl_vartime a.length a s)) = (val (GenShifts.nats a) * 2 ^ s.toNat) % B ^ a.length ∧
      val (GenShifts.nats (Gen.Shifts.Uint.shr a.length a s)) = val (GenShifts.nats a) / 2 ^ s.toNat ∧
      val (GenShifts.nats (Gen.Shifts.Uint.shr_vartime a.length a s)) = val (GenShifts.nats a) / 2 ^ s.toNat) ∧
    (Gen.Shifts.Uint.overflowing_shl a.length a s).2 = GenBits.ofBool (decide (s.toNat < 64 * a.length)) ∧
    (Gen.Shifts.Uint.overflowing_shr a.length a s).2 = GenBits.ofBool (decide (s.toNat < 64 * a.length)) := by
  have ⟨ml, el, _, _⟩ := src_uint_shl_vartime_exact a s hL
  have ⟨mr, er, _, _⟩ := src_uint_shr_vartime_exact a s hL
  refine ⟨fun h => ?_, ?_, ?_⟩
  · rw [GenBits.shl_eq, GenBits.shr_eq, GenBits.shl_vartime_eq, GenBits.shr_vartime_eq, GenShifts.oshl_eq_shlv a hne s hL,
      GenShifts.oshr_eq_shrv a hne s hL]
    exact ⟨el h, el h, er h, er h⟩
  · rw [GenShifts.oshl_eq_shlv a hne s hL]; exact ml
  · rw [GenShifts.oshr_eq_shrv a hne s hL]; exact mr

/-- the TRANSLATED wrapping shifts (constant-time and variable-time): `(val a · 2^s) mod B^LIMBS` resp. `val a / 2^s` for EVERY
    shift amount (0 once `s ≥ BITS`), never a panic -/
theorem src_uint_wrapping_shift_exact (a : List (BitVec 64)) (hne : a ≠ []) (s : BitVec 32) (hL : 64 * a.length < 2 ^ 32) :
    val (GenShifts.nats (Gen.Shifts.Uint.wrapping_shl a.length a s)) = (val (GenShifts.nats a) * 2 ^ s.toNat) % B ^ a.length ∧
    val (GenShifts.nats (Gen.Shifts.Uint.wrapping_shl_vartime a.length a s)) = (val (GenShifts.nats a) * 2 ^ s.toNat) % B ^ a.length ∧
    val (GenShifts.nats (Gen.Shifts.Uint.wrapping_shr a.length a s)) = val (GenShifts.nats a) / 2 ^ s.toNat ∧
    val (GenShifts.nats (Gen.Shifts.Uint.wrapping_shr_vartime a.length a s)) = val (GenShifts.nats a) / 2 ^ s.toNat := by
  have hne' : GenShifts.nats a ≠ [] := by
    cases a with
    | nil => exact absurd rfl hne
    | cons _ _ => simp [GenShifts.nats]
  have hn : 64 * (GenShifts.nats a).length < TWO32 := by rw [GenShifts.nats_length]; simpa [TWO32_def] using hL
  have ⟨l1, l2, _⟩ := P05.wrapping_shl_spec (GenShifts.nats_WF a) hne' hn s.isLt
  have ⟨r1, r2, _⟩ := P05.wrapping_shr_spec (GenShifts.nats_WF a) hne' hn s.isLt
  rw [GenShifts.nats_length] at l2
  rw [GenShifts.wrappingShlU_bridge a hne s hL] at l1
  rw [GenShifts.wrappingShrU_bridge a hne s hL] at r1
  have l1' := Option.some.inj l1
  have r1' := Option.some.inj r1
  refine ⟨by rw [l1']; exact l2, ?_, by rw [r1']; exact r2, ?_⟩
  · rw [← GenShifts.wrappingShlVartimeU_bridge a s hL]; exact l2
  · rw [← GenShifts.wrappingShrVartimeU_bridge a s hL]; exact r2

/-- non-vacuity / evaluation: the translated ladder runs on a 3-limb value (width 192, not a power of two) -/
example : Gen.Shifts.Uint.overflowing_shl 3 [~~~0#64, 1#64, 0#64] 65#32 = ([0#64, ~~~0#64 <<< 1, 3#64], ~~~0#64) := by decide
example : Gen.Shifts.Uint.wrapping_shr 3 [0#64, 1#64, ~~~0#64] 200#32 = [0#64, 0#64, 0#64] := by decide

/-! ## T05.G5 — the SOURCE of the bit queries over a limb slice (src/uint/bits.rs: `leading_zeros`, `trailing_zeros`,
`trailing_ones`, `bit`; `Uint` and `BoxedUint` forward to them)

A `&[Limb]` of the source is the list of its limbs, `limbs.len()` its length.  The counts of the source are `u32`s; the side
condition `64 · len < 2^32` says they do not wrap (`Uint::BITS` itself is a `u32`). -/

/-- the model's word primitives `u64::trailing_zeros` / `trailing_ones` (a 64-step recursion on `Nat`) are `BitVec.ctz`, hence
    the translated `Limb::trailing_zeros` / `Limb::trailing_ones` -/
theorem trailing_word_model_is_translated_source (x : BitVec 64) :
    wtz x.toNat = (BitVec.ctz x).toNat ∧ wtz x.toNat = (Gen.Shifts.Limb.trailing_zeros x).toNat ∧
    wto x.toNat = (Gen.Shifts.Limb.trailing_ones x).toNat :=
  ⟨GenShifts.wtz_bv x, GenShifts.limbTrailingZeros_bridge x, GenShifts.limbTrailingOnes_bridge x⟩

/-- the hand-written model of the slice queries (what T05.5 is proved about) IS the translated source, every length -/
theorem query_model_is_translated_source (a : List (BitVec 64)) (idx : BitVec 32) (hL : 64 * a.length < 2 ^ 32) :
    leadingZeros (GenShifts.nats a) = (Gen.Shifts.Bits.leading_zeros a).toNat ∧
    trailingZeros (GenShifts.nats a) = (Gen.Shifts.Bits.trailing_zeros a).toNat ∧
    trailingOnes (GenShifts.nats a) = (Gen.Shifts.Bits.trailing_ones a).toNat ∧
    bitCt (GenShifts.nats a) idx.toNat = (Gen.Shifts.Bits.bit a idx).toNat :=
  ⟨GenShifts.leadingZeros_bridge a hL, GenShifts.trailingZeros_bridge a hL, GenShifts.trailingOnes_bridge a hL,
   GenShifts.bitCt_bridge a (by omega) idx⟩

/-- the TRANSLATED `leading_zeros`: `BITS − bitlen (val a)`; `trailing_zeros` / `trailing_ones`: the length of the run of zero /
    one bits from bit 0 (`BITS` when there is no other bit); `bit i`: the mask of `testBit i` (false beyond the width) -/
theorem src_bits_query_exact (a : List (BitVec 64)) (hne : a ≠ []) (idx : BitVec 32) (hL : 64 * a.length < 2 ^ 32) :
    (Gen.Shifts.Bits.leading_zeros a).toNat = 64 * a.length - bitlen (val (GenShifts.nats a)) ∧
    ((Gen.Shifts.Bits.trailing_zeros a).toNat ≤ 64 * a.length ∧
      (∀ j, j < (Gen.Shifts.Bits.trailing_zeros a).toNat → (val (GenShifts.nats a)).testBit j = false) ∧
      ((Gen.Shifts.Bits.trailing_zeros a).toNat < 64 * a.length →
        (val (GenShifts.nats a)).testBit (Gen.Shifts.Bits.trailing_zeros a).toNat = true)) ∧
    ((Gen.Shifts.Bits.trailing_ones a).toNat ≤ 64 * a.length ∧
      (∀ j, j < (Gen.Shifts.Bits.trailing_ones a).toNat → (val (GenShifts.nats a)).testBit j = true) ∧
      ((Gen.Shifts.Bits.trailing_ones a).toNat < 64 * a.length →
        (val (GenShifts.nats a)).testBit (Gen.Shifts.Bits.trailing_ones a).toNat = false)) ∧
    Gen.Shifts.Bits.bit a idx = GenBits.ofBool ((val (GenShifts.nats a)).testBit idx.toNat) := by
  have hne' : GenShifts.nats a ≠ [] := by
    cases a with
    | nil => exact absurd rfl hne
    | cons _ _ => simp [GenShifts.nats]
  have ⟨_, _, lz, _⟩ := P05.bits_spec (GenShifts.nats_WF a) hne'
  have ⟨_, tz⟩ := P05.trailing_zeros_spec (GenShifts.nats_WF a)
  have ⟨_, tos⟩ := P05.trailing_ones_spec (GenShifts.nats_WF a)
  have ⟨bt, _⟩ := P05.bit_spec (GenShifts.nats_WF a) (by rw [GenShifts.nats_length]; simp only [TWO32_def]; omega)
    (i := idx.toNat) idx.isLt
  rw [GenShifts.leadingZeros_bridge a hL, GenShifts.nats_length] at lz
  rw [GenShifts.trailingZeros_bridge a hL, GenShifts.nats_length] at tz
  rw [GenShifts.trailingOnes_bridge a hL, GenShifts.nats_length] at tos
  rw [GenShifts.bitCt_bridge a (by omega) idx] at bt
  exact ⟨lz, tz, tos, BitVec.eq_of_toNat_eq (by rw [bt, GenBits.ofBool_toNat])⟩

/-- non-vacuity / evaluation: a 3-limb value `2^64 · 6` -/
example : (Gen.Shifts.Bits.trailing_zeros [0#64, 6#64, 0#64]).toNat = 65 := by
  rw [← GenShifts.trailingZeros_bridge _ (by decide)]; decide
example : Gen.Shifts.Bits.leading_zeros [0#64, 6#64, 0#64] = 125#32 := by decide
example : (Gen.Shifts.Bits.trailing_ones [~~~0#64, 1#64, 0#64]).toNat = 65 := by
  rw [← GenShifts.trailingOnes_bridge _ (by decide)]; decide
example : Gen.Shifts.Bits.bit [0#64, 6#64, 0#64] 66#32 = ~~~0#64 := by decide

/-! ## T05.G6 — the SOURCE of the limb-wise operators `Uint::{bitor, bitxor, not}` (and `wrapping_or`, `wrapping_xor`), of
`Uint::set_bit`, of the variable-time queries `bit_vartime`, `bits_vartime`, `trailing_zeros_vartime`, `trailing_ones_vartime`
and of the `impl Uint` forwarders of src/uint/bits.rs (tools/translate.py → CB/Gen/CmpMore.lean)

Loop forms new in this layer: the search loop `while i > 0 && limbs[i].0 == 0 { i -= 1; }` (structural recursion on the counter,
returning the final counter) and `while i < len { ..; if z != Limb::BITS { break; } i += 1; }` (every round re-tests the exit);
`bit_vartime` ends in an `if / else` expression.  The forwarders call the slice functions with `&self.limbs`, the limb list. -/

/-- the hand-written model of the limb-wise operators and of `set_bit` (what `bitor_spec`, `bitxor_spec`, `not_spec`,
    `set_bit_spec` of CB/Props/C05.lean are proved about) IS the translated source, every limb count -/
theorem bitops_model_is_translated_source (a b : List (BitVec 64)) (h : a.length = b.length) (idx : BitVec 32) (bv : BitVec 64)
    (hL : a.length ≤ 2 ^ 32) :
    ubitor (GenChains.nats a) (GenChains.nats b) = GenChains.nats (Gen.CmpMore.Uint.bitor a.length a b) ∧
    ubitxor (GenChains.nats a) (GenChains.nats b) = GenChains.nats (Gen.CmpMore.Uint.bitxor a.length a b) ∧
    unot (GenChains.nats a) = GenChains.nats (Gen.CmpMore.Uint.not a.length a) ∧
    Gen.CmpMore.Uint.wrapping_or a.length a b = Gen.CmpMore.Uint.bitor a.length a b ∧
    Gen.CmpMore.Uint.wrapping_xor a.length a b = Gen.CmpMore.Uint.bitxor a.length a b ∧
    setBit (GenChains.nats a) idx.toNat bv.toNat = GenChains.nats (Gen.CmpMore.Uint.set_bit a.length a idx bv) :=
  ⟨GenCmpMore.ubitor_bridge a b h, GenCmpMore.ubitxor_bridge a b h, GenCmpMore.unot_bridge a,
   GenBits.wrapping_or_eq _ a b, GenBits.wrapping_xor_eq _ a b, GenCmpMore.setBit_bridge a hL idx bv⟩

/-- the TRANSLATED `Uint::bitor` / `bitxor` / `not`: limb-wise ⇒ the `Nat` operations on the values (`not`: the complement
    modulo `B^n`) -/
theorem src_uint_bitops_exact (a b : List (BitVec 64)) (h : a.length = b.length) :
    val (GenChains.nats (Gen.CmpMore.Uint.bitor a.length a b)) = val (GenChains.nats a) ||| val (GenChains.nats b) ∧
    val (GenChains.nats (Gen.CmpMore.Uint.bitxor a.length a b)) = val (GenChains.nats a) ^^^ val (GenChains.nats b) ∧
    val (GenChains.nats (Gen.CmpMore.Uint.not a.length a)) = B ^ a.length - 1 - val (GenChains.nats a) := by
  have hl : (GenChains.nats a).length = (GenChains.nats b).length := by
    rw [GenChains.nats_length, GenChains.nats_length, h]
  refine ⟨?_, ?_, ?_⟩
  · rw [← GenCmpMore.ubitor_bridge a b h]; exact P05.bitor_spec (GenChains.nats_WF a) (GenChains.nats_WF b) hl
  · rw [← GenCmpMore.ubitxor_bridge a b h]; exact P05.bitxor_spec (GenChains.nats_WF a) (GenChains.nats_WF b) hl
  · rw [← GenCmpMore.unot_bridge a, P05.not_spec (GenChains.nats_WF a), GenChains.nats_length]

/-- the TRANSLATED `Uint::set_bit(index, ConstChoice(v))`: bit `index` becomes `v` when `index < BITS`, no other bit changes;
    the value is unchanged for `index ≥ BITS` -/
theorem src_set_bit_exact (a : List (BitVec 64)) (hL : a.length ≤ 2 ^ 32) (idx : BitVec 32) (v : Bool) (j : Nat) :
    (val (GenChains.nats (Gen.CmpMore.Uint.set_bit a.length a idx (GenBits.ofBool v)))).testBit j =
      if j = idx.toNat ∧ idx.toNat < 64 * a.length then v else (val (GenChains.nats a)).testBit j := by
  rw [← GenCmpMore.setBit_bridge a hL idx, GenBits.ofBool_toNat]
  have := P05.set_bit_spec (GenChains.nats_WF a) (by rw [GenChains.nats_length]; simpa [TWO32] using hL)
    (i := idx.toNat) (by simpa [TWO32] using idx.isLt) v j
  rwa [GenChains.nats_length] at this

/-- the hand-written model of the variable-time queries and of the `Uint` forms (what T05.5 is proved about) IS the translated
    source: every non-empty slice with `64 · len < 2^32`, every index (`bits_vartime` panics on an empty slice: `none`) -/
theorem vartime_query_model_is_translated_source (a : List (BitVec 64)) (hne : a ≠ []) (idx : BitVec 32)
    (hL : 64 * a.length < 2 ^ 32) :
    bitVartime (GenChains.nats a) idx.toNat = Gen.CmpMore.Bits.bit_vartime a idx ∧
    bitsVartime (GenChains.nats a) = some (Gen.CmpMore.Bits.bits_vartime a).toNat ∧
    trailingZerosVartime (GenChains.nats a) = (Gen.CmpMore.Bits.trailing_zeros_vartime a).toNat ∧
    trailingOnesVartime (GenChains.nats a) = (Gen.CmpMore.Bits.trailing_ones_vartime a).toNat ∧
    (bitsVartime (GenChains.nats a) = some (Gen.CmpMore.Uint.bits_vartime a.length a).toNat ∧
     leadingZerosVartime (GenChains.nats a) = some (Gen.CmpMore.Uint.leading_zeros_vartime a.length a).toNat ∧
     ubits (GenChains.nats a) = (Gen.CmpMore.Uint.bits a.length a).toNat ∧
     leadingZeros (GenChains.nats a) = (Gen.CmpMore.Uint.leading_zeros a.length a).toNat) ∧
    (Gen.CmpMore.Uint.bit a.length a idx = Gen.Shifts.Bits.bit a idx ∧
     Gen.CmpMore.Uint.bit_vartime a.length a idx = Gen.CmpMore.Bits.bit_vartime a idx ∧
     Gen.CmpMore.Uint.trailing_zeros a.length a = Gen.Shifts.Bits.trailing_zeros a ∧
     Gen.CmpMore.Uint.trailing_zeros_vartime a.length a = Gen.CmpMore.Bits.trailing_zeros_vartime a ∧
     Gen.CmpMore.Uint.trailing_ones a.length a = Gen.Shifts.Bits.trailing_ones a ∧
     Gen.CmpMore.Uint.trailing_ones_vartime a.length a = Gen.CmpMore.Bits.trailing_ones_vartime a) :=
  ⟨GenCmpMore.bitVartime_bridge a idx, GenCmpMore.bitsVartime_bridge a hne hL, GenCmpMore.trailingZerosVartime_bridge a hL,
   GenCmpMore.trailingOnesVartime_bridge a hL, GenCmpMore.uint_bits_forms_bridge a hne hL,
   GenBits.uint_bit_eq _ a idx, GenBits.uint_bit_vartime_eq _ a idx, GenBits.uint_trailing_zeros_eq _ a,
   GenBits.uint_trailing_zeros_vartime_eq _ a, GenBits.uint_trailing_ones_eq _ a, GenBits.uint_trailing_ones_vartime_eq _ a⟩

/-- the TRANSLATED `bits_vartime` (search loop) is the bit length of the value, `Uint::bits` (constant time) the same number,
    `leading_zeros_vartime` its complement to `BITS`; `bit_vartime i` is `testBit i` (false beyond the width) -/
theorem src_bits_vartime_exact (a : List (BitVec 64)) (hne : a ≠ []) (idx : BitVec 32) (hL : 64 * a.length < 2 ^ 32) :
    (Gen.CmpMore.Bits.bits_vartime a).toNat = bitlen (val (GenChains.nats a)) ∧
    (Gen.CmpMore.Uint.bits a.length a).toNat = bitlen (val (GenChains.nats a)) ∧
    (Gen.CmpMore.Uint.leading_zeros_vartime a.length a).toNat = 64 * a.length - bitlen (val (GenChains.nats a)) ∧
    Gen.CmpMore.Bits.bit_vartime a idx = (val (GenChains.nats a)).testBit idx.toNat := by
  have hne' : GenChains.nats a ≠ [] := by
    cases a with
    | nil => exact absurd rfl hne
    | cons _ _ => simp [GenChains.nats]
  have ⟨ub, bv, lz, lzv⟩ := P05.bits_spec (GenChains.nats_WF a) hne'
  have ⟨_, hlzv, hub, hlz⟩ := GenCmpMore.uint_bits_forms_bridge a hne hL
  have hb := GenCmpMore.bitsVartime_bridge a hne hL
  have ⟨_, bt⟩ := P05.bit_spec (GenChains.nats_WF a) (by rw [GenChains.nats_length]; simp only [TWO32]; omega)
    (i := idx.toNat) (by simpa [TWO32] using idx.isLt)
  refine ⟨?_, by rw [← hub, ub], ?_, by rw [← GenCmpMore.bitVartime_bridge a idx, bt]⟩
  · rw [bv, ub] at hb; exact (Option.some.inj hb).symm
  · rw [lzv, lz, GenChains.nats_length] at hlzv; exact (Option.some.inj hlzv).symm

/-- the TRANSLATED variable-time counts (loops with `break`) return what the constant-time loops return -/
theorem src_trailing_vartime_eq_ct (a : List (BitVec 64)) (hL : 64 * a.length < 2 ^ 32) :
    Gen.CmpMore.Bits.trailing_zeros_vartime a = Gen.Shifts.Bits.trailing_zeros a ∧
    Gen.CmpMore.Bits.trailing_ones_vartime a = Gen.Shifts.Bits.trailing_ones a := by
  constructor <;> apply BitVec.eq_of_toNat_eq
  · rw [← GenCmpMore.trailingZerosVartime_bridge a hL, ← GenShifts.trailingZeros_bridge a hL]
    exact (P05.trailing_zeros_spec (GenChains.nats_WF a)).1.symm
  · rw [← GenCmpMore.trailingOnesVartime_bridge a hL, ← GenShifts.trailingOnes_bridge a hL]
    exact (P05.trailing_ones_spec (GenChains.nats_WF a)).1.symm

/-- evaluation: the translated functions run (3-limb values; `break` in the second limb, the search loop skipping a zero top limb) -/
example : (Gen.CmpMore.Bits.trailing_zeros_vartime [0#64, 6#64, 0#64]).toNat = 65 := by
  rw [← GenCmpMore.trailingZerosVartime_bridge _ (by decide)]; decide
example : (Gen.CmpMore.Bits.trailing_ones_vartime [~~~0#64, 1#64, 0#64]).toNat = 65 := by
  rw [← GenCmpMore.trailingOnesVartime_bridge _ (by decide)]; decide
example : Gen.CmpMore.Bits.bits_vartime [0#64, 6#64, 0#64] = 67#32 := by decide
example : Gen.CmpMore.Bits.bit_vartime [0#64, 6#64, 0#64] 66#32 = true := by decide
example : Gen.CmpMore.Bits.bit_vartime [0#64, 6#64, 0#64] 200#32 = false := by decide
example : Gen.CmpMore.Uint.set_bit 3 [0#64, 6#64, 0#64] 64#32 (~~~0#64) = [0#64, 7#64, 0#64] := by decide
example : Gen.CmpMore.Uint.bitxor 2 [5#64, 1#64] [3#64, 1#64] = [6#64, 0#64] := by decide
example : Gen.CmpMore.Uint.not 1 [0#64] = [~~~0#64] := by decide

end CB.P05G
