/-
  C18 — DER INTEGER and RLP codecs of `Uint<LIMBS>` are canonical and fail closed.
  Property theorems only (helper lemmas: CB/Lemmas/C18{Bytes,Der,Rlp}.lean).  Every theorem
  quantifies over ALL limb counts `n` and all byte strings / values.  Byte strings are `List Nat`
  with `Bytes bs` (every element `< 256`); values are little-endian limb lists (`WF`, `val`).
  `to_be_byte_array` / `from_be_byte_array` are `beBytes` / `beVal` on the value (exactness: C16).
  The external crates `der` 0.8.0-rc.1 / `rlp` 0.6.1 are modelled (CB/Model/{Der,Rlp}.lean) and
  tied to the real crates by the correspondence run, not verified.
-/
import CB.Lemmas.C18Rlp
namespace CB.P18
open CB CB.Der CB.Rlp

/-! ## DER: the crate's glue (`TryFrom<UintRef> for Uint`, der.rs:26-31) -/

/-- T18.1 the right-aligned `copy_from_slice` into the `BYTES`-octet array, at the offset
    `BYTES.saturating_sub(len)` the code computes, is defined exactly for `len ≤ BYTES`. -/
theorem copy_total_iff (nbytes : Nat) (src : List Nat) :
    (copyIntoTail (List.replicate nbytes 0) ((List.replicate nbytes 0).length - src.length) src).isSome
      ↔ src.length ≤ nbytes := by
  unfold copyIntoTail
  simp only [List.length_replicate]
  by_cases h : src.length ≤ nbytes
  · rw [if_pos ⟨by omega, by omega⟩]; simp [h]
  · rw [if_neg (by omega)]; simp [h]

/-- T18.1' the glue succeeds (with the value of the octets, nothing dropped) iff `len ≤ BYTES` … -/
theorem glue_ok_iff (n : Nat) (r a : List Nat) :
    uintFromUintRef n r = .ok a ↔ r.length ≤ 8 * n ∧ a = toLimbs n (beVal r) := by
  by_cases h : r.length ≤ 8 * n
  · rw [uintFromUintRef_fits h]
    constructor
    · intro e; exact ⟨h, (Dec.ok.inj e).symm⟩
    · intro e; rw [e.2]
  · rw [uintFromUintRef_oversize (by omega)]
    constructor
    · intro e; cases e
    · intro e; exact absurd e.1 h

/-- T18.2 … returns an ERROR iff `len > BYTES` (the length check added by the repair
    `fix: DER decoding of an INTEGER longer than the target Uint panicked`) … -/
theorem glue_err_iff (n : Nat) (r : List Nat) : uintFromUintRef n r = .err ↔ 8 * n < r.length := by
  by_cases h : r.length ≤ 8 * n
  · rw [uintFromUintRef_fits h]
    constructor
    · intro e; cases e
    · intro e; omega
  · rw [uintFromUintRef_oversize (by omega)]
    exact ⟨fun _ => by omega, fun _ => rfl⟩

/-- T18.2' … and never panics: behind the length check the copy step of T18.1 is always defined.
    (Before the repair this was false: the glue panicked exactly for `len > BYTES`, DESIGN §7 row 6.) -/
theorem glue_never_panics (n : Nat) (r : List Nat) : uintFromUintRef n r ≠ .panic :=
  uintFromUintRef_ne_panic n r

/-- T18.2w the former panic witness `U64::from_der(02 09 01 00×8)` (the DER encoding of `2^64`) is
    now rejected with an error (corpus/C18.txt keeps the line). -/
theorem der_oversize_rejected_witness :
    derFromDer 1 [2, 9, 1, 0, 0, 0, 0, 0, 0, 0, 0] = .err := by decide

/-! ## DER: `from_der` -/

/-- T18.3 acceptance, in the X.690 grammar: `from_der` returns `a` iff the input is exactly
    `02 ‖ minimal definite length ‖ c` where `c` is a canonical non-negative INTEGER content
    (`DerCanon`: non-empty, top bit clear, first nine bits not all zero) whose magnitude fits the
    type, and `a` is the value of `c` (no truncation, no wrap). -/
theorem der_accept_iff {n : Nat} {bs : List Nat} (hb : Bytes bs) (a : List Nat) :
    derFromDer n bs = .ok a ↔
      ∃ c, bs = 2 :: (derLengthEncode c.length ++ c) ∧ bs.length ≤ derMaxLen ∧ DerCanon c ∧
        (derMagnitude c).length ≤ 8 * n ∧ a = toLimbs n (beVal c) := by
  constructor
  · intro h
    obtain ⟨c, tail, e, hl, hc⟩ := derFromDer_not_err hb (by rw [h]; intro g; cases g)
    have hl' := hl
    rw [e] at hl' h
    rw [derFromDer_form hc hl'] at h
    unfold derAfterHeader at h
    by_cases hf : (derMagnitude c).length ≤ 8 * n
    · rw [uintFromUintRef_fits hf] at h
      simp only at h
      by_cases ht : tail.isEmpty = true
      · rw [if_pos ht] at h
        have ht' : tail = [] := List.isEmpty_iff.mp ht
        refine ⟨c, by rw [e, ht', List.append_nil], hl, hc, hf, ?_⟩
        rw [← (derMagnitude_spec hc).2.2.1]
        exact (Dec.ok.inj h).symm
      · rw [if_neg ht] at h; cases h
    · rw [uintFromUintRef_oversize (by omega)] at h; cases h
  · rintro ⟨c, e, hl, hc, hf, ha⟩
    have e' : bs = 2 :: (derLengthEncode c.length ++ (c ++ [])) := by rw [List.append_nil]; exact e
    rw [e'] at hl ⊢
    rw [derFromDer_form hc hl]
    unfold derAfterHeader
    rw [uintFromUintRef_fits hf, ha, (derMagnitude_spec hc).2.2.1]
    rfl

/-- T18.4 FAIL CLOSED (full statement; false before the repair of the glue): `from_der` never
    panics, for any width and ANY input list (octets or not). -/
theorem der_fail_closed (n : Nat) (bs : List Nat) : derFromDer n bs ≠ .panic := by
  cases bs with
  | nil => intro e; simp [derFromDer] at e
  | cons t r1 =>
    rw [derFromDer_cons]
    split
    · intro e; cases e
    · split
      · intro e; cases e
      · split
        · intro e; cases e
        · split
          · intro e; cases e
          · split
            · split <;> (intro e; cases e)
            · exact derDecodeValue_ne_panic _ _ _

/-- T18.4' the inputs that used to panic, exactly — a well-formed header and canonical content whose
    magnitude has more octets than the type, whatever follows — are errors. -/
theorem der_oversize_is_err {n : Nat} {c tail : List Nat} (hc : DerCanon c)
    (hl : (2 :: (derLengthEncode c.length ++ (c ++ tail))).length ≤ derMaxLen)
    (hf : 8 * n < (derMagnitude c).length) :
    derFromDer n (2 :: (derLengthEncode c.length ++ (c ++ tail))) = .err := by
  rw [derFromDer_form hc hl]
  unfold derAfterHeader
  rw [uintFromUintRef_oversize hf]

/-- T18.4v oversize in terms of the VALUE: for canonical content, "more than `BYTES` magnitude
    octets" is "value `≥ 2^BITS`" (the length check rejects exactly the integers that do not fit). -/
theorem der_oversize_iff_value {n : Nat} (hn : 0 < n) {c : List Nat} (hc : DerCanon c) (hb : Bytes c) :
    8 * n < (derMagnitude c).length ↔ 256 ^ (8 * n) ≤ beVal c := by
  obtain ⟨m1, m2, m3, _, _⟩ := derMagnitude_spec hc
  have hmB := derMagnitude_Bytes hb
  rw [← m3]
  constructor
  · intro h
    match hm : derMagnitude c, m1, m2 with
    | [x], _, _ => rw [hm] at h; simp at h; omega
    | x :: y :: rest, _, m2 =>
      rw [hm] at h
      have hx : x ≠ 0 := m2
      have := beVal_ge_of_head (b := x) (bs := y :: rest) hx
      refine Nat.le_trans (Nat.pow_le_pow_right (by decide) ?_) this
      simp only [List.length_cons] at h ⊢; omega
  · intro h
    apply Nat.lt_of_not_le
    intro hle
    have := Nat.lt_of_lt_of_le (beVal_lt hmB) (Nat.pow_le_pow_right (by decide) hle)
    omega

/-- T18.5 canonicity and fail-closedness in one statement: the decoder returns `a` iff the input is
    byte for byte what the encoder writes for `a`. Hence no non-canonical (superfluous `0x00`,
    non-minimal or indefinite length), negative (top bit set without pad), oversized, truncated
    or trailing-garbage encoding is accepted, and no two byte strings decode to the same value. -/
theorem der_decode_eq_encode_iff {n : Nat} (hn : 0 < n) {bs : List Nat} (hb : Bytes bs) (a : List Nat) :
    derFromDer n bs = .ok a ↔ WF a ∧ a.length = n ∧ derToDer n a = some bs := by
  rw [der_accept_iff hb, derToDer_some_iff]
  constructor
  · rintro ⟨c, e, hl, hc, hf, ha⟩
    have hcB : Bytes c := by
      rw [e] at hb
      exact (Bytes_append.mp (Bytes_cons.mp hb).2).2
    have hcc := derContent_of_canon hc hcB hf
    rw [ha]
    refine ⟨toLimbs_WF _ _, toLimbs_length _ _, ?_, hl⟩
    rw [hcc]; exact e
  · rintro ⟨hw, hlen, e, hl⟩
    obtain ⟨k1, k2, k3, _⟩ := derContent_spec hn a
    refine ⟨derContent n a, e, hl, k1, ?_, ?_⟩
    · rw [k3]
      have := strip_length_le (beBytes (8 * n) (val a))
      rwa [beBytes_length] at this
    · rw [← (derMagnitude_spec k1).2.2.1, k3, beVal_strip, beVal_beBytes,
        Nat.mod_eq_of_lt (val_lt_256 hw hlen), ← hlen, toLimbs_val hw]

/-- T18.6 round trip for every value of every width (the guard is `der`'s 256 MiB length limit;
    all widths of the feature tables are far below it). -/
theorem der_roundtrip {n : Nat} (hn : 0 < n) (hsz : 8 * n + 7 ≤ derMaxLen) {a : List Nat}
    (ha : WF a) (hl : a.length = n) :
    ∃ bs, derToDer n a = some bs ∧ Bytes bs ∧ derFromDer n bs = .ok a := by
  obtain ⟨k1, k2, k3, k4⟩ := derContent_spec hn a
  have hcl : (derContent n a).length ≤ derMaxLen := by omega
  have h5 := derLengthEncode_length_le hcl
  have hlen : (2 :: (derLengthEncode (derContent n a).length ++ derContent n a)).length ≤ derMaxLen := by
    simp only [List.length_cons, List.length_append]; omega
  have hB : Bytes (2 :: (derLengthEncode (derContent n a).length ++ derContent n a)) :=
    Bytes_cons.mpr ⟨by decide, Bytes_append.mpr ⟨derLengthEncode_Bytes hcl, k2⟩⟩
  have he := (derToDer_some_iff n a _).mpr ⟨rfl, hlen⟩
  exact ⟨_, he, hB, (der_decode_eq_encode_iff hn hB a).mpr ⟨ha, hl, he⟩⟩

/-- T18.7 the encoder's output is minimal: tag `02`, minimal length octets, content octets
    canonical per X.690 §8.3.2 (no superfluous leading `0x00`, non-negative) denoting exactly the
    value; the long-form length has no leading zero octet and is used only from 128 on. -/
theorem der_encode_minimal {n : Nat} (hn : 0 < n) {a bs : List Nat} (ha : WF a) (hl : a.length = n)
    (h : derToDer n a = some bs) :
    ∃ c, bs = 2 :: (derLengthEncode c.length ++ c) ∧ DerCanon c ∧ beVal c = val a ∧
      c.length ≤ 8 * n + 1 ∧
      (c.length < 128 → derLengthEncode c.length = [c.length]) ∧
      (128 ≤ c.length → ∃ k lb, derLengthEncode c.length = (128 + k) :: lb ∧ lb.length = k ∧
          beVal lb = c.length ∧ 256 ^ (k - 1) ≤ c.length) := by
  obtain ⟨e, hlen⟩ := (derToDer_some_iff n a bs).mp h
  obtain ⟨k1, k2, k3, k4⟩ := derContent_spec hn a
  refine ⟨derContent n a, e, k1, ?_, k4, derLengthEncode_short, ?_⟩
  · rw [← (derMagnitude_spec k1).2.2.1, k3, beVal_strip, beVal_beBytes, Nat.mod_eq_of_lt (val_lt_256 ha hl)]
  · intro h128
    have hcl : (derContent n a).length ≤ derMaxLen := by
      rw [e] at hlen; simp only [List.length_cons, List.length_append] at hlen; omega
    obtain ⟨s1, s2, s3, s4⟩ := derLenOctets_spec h128 hcl
    exact ⟨_, _, derLengthEncode_long h128, beBytes_length _ _, by rw [beVal_beBytes, Nat.mod_eq_of_lt s3], s4⟩

/-! ## DER: the specification decoder (L0 of the correspondence run) -/

/-- T18.8a what the property demands never panics … -/
theorem derSpec_never_panics (n : Nat) (bs : List Nat) : derSpecFromDer n bs ≠ .panic := by
  unfold derSpecFromDer failClosed
  split <;> simp_all

/-- T18.8b … accepts exactly the canonical encoding of a value that fits (everything else is `err`) … -/
theorem derSpec_ok_iff {n : Nat} (hn : 0 < n) {bs : List Nat} (hb : Bytes bs) (a : List Nat) :
    derSpecFromDer n bs = .ok a ↔ WF a ∧ a.length = n ∧ derToDer n a = some bs := by
  rw [← der_decode_eq_encode_iff hn hb]
  unfold derSpecFromDer failClosed
  split <;> simp_all

/-- T18.8c … and, since the repair, IS the code as written. -/
theorem derSpec_eq_model (n : Nat) (bs : List Nat) : derSpecFromDer n bs = derFromDer n bs := by
  unfold derSpecFromDer failClosed
  split
  · next h => exact absurd h (der_fail_closed n bs)
  · rfl

/-! ## DER: the other entry points -/

/-- T18.9 `TryFrom<AnyRef>`: accepted iff the tag is INTEGER and the content is canonical and fits;
    never a panic. -/
theorem der_any_iff (n tag : Nat) (c a : List Nat) :
    (derFromAny n tag c = .ok a ↔
      tag = 2 ∧ c.length ≤ derMaxLen ∧ DerCanon c ∧ (derMagnitude c).length ≤ 8 * n ∧ a = toLimbs n (beVal c)) ∧
    derFromAny n tag c ≠ .panic := by
  unfold derFromAny
  by_cases h0 : derMaxLen < c.length
  · rw [if_pos h0]
    exact ⟨⟨fun e => (by cases e), fun e => by omega⟩, fun e => by cases e⟩
  · rw [if_neg h0]
    by_cases ht : tag ≠ 2
    · rw [if_pos ht]
      exact ⟨⟨fun e => (by cases e), fun e => absurd e.1 ht⟩, fun e => by cases e⟩
    · rw [if_neg ht]
      have ht' : tag = 2 := Decidable.not_not.mp ht
      refine ⟨?_, derDecodeValue_ne_panic _ _ _⟩
      by_cases hc : DerCanon c
      · rw [derDecodeValue_canon hc (by omega), glue_ok_iff, (derMagnitude_spec hc).2.2.1]
        exact ⟨fun e => ⟨ht', by omega, hc, e.1, e.2⟩, fun e => ⟨e.2.2.2.1, e.2.2.2.2⟩⟩
      · have : uintRefDecodeValue c c.length = none := by
          cases hv : uintRefDecodeValue c c.length with
          | none => rfl
          | some r => exact absurd ((uintRefDecodeValue_some_iff _ _ _).mp hv).2.2.1 hc
        unfold derDecodeValue
        rw [this]
        exact ⟨fun e => (by cases e), fun e => absurd e.2.2.1 hc⟩

/-- T18.10 `TryFrom<UintRef>` on `UintRef::new(bytes)` (leading zeros stripped by `der`): the value
    of the octets iff the stripped length fits, an error iff it does not; never a panic. -/
theorem der_uintref_iff (n : Nat) (bs a : List Nat) (hl : bs.length ≤ derMaxLen) :
    (derFromUintRefNew n bs = .ok a ↔
      (stripLeadingZeroes bs).length ≤ 8 * n ∧ a = toLimbs n (beVal bs)) ∧
    (derFromUintRefNew n bs = .err ↔ 8 * n < (stripLeadingZeroes bs).length) ∧
    derFromUintRefNew n bs ≠ .panic := by
  have := strip_length_le bs
  unfold derFromUintRefNew uintRefNew
  rw [if_pos (by omega)]
  simp only
  rw [glue_ok_iff, glue_err_iff, beVal_strip]
  exact ⟨Iff.rfl, Iff.rfl, glue_never_panics _ _⟩

/-! ## RLP -/

/-- T18.11 the RLP decoder never panics: the glue's `checked_sub` guards the copy. -/
theorem rlp_never_panics (n : Nat) (bs : List Nat) : rlpDecode n bs ≠ .panic := rlpDecode_no_panic n bs

/-- T18.11' the glue closure (rlp.rs:28-42): accepts iff no leading zero octet and the payload fits;
    the result is the value of the payload (nothing dropped, nothing wrapped). -/
theorem rlp_glue_ok_iff (n : Nat) (p a : List Nat) :
    rlpGlue n p = .ok a ↔ p.head? ≠ some 0 ∧ p.length ≤ 8 * n ∧ a = toLimbs n (beVal p) :=
  rlpGlue_ok_iff n p a

/-- T18.12 round trip for every value of every width (guard: `insert_size` writes the payload
    length as a `u32`; the widths with `Decodable` have `BYTES ≤ 32`). -/
theorem rlp_roundtrip {n : Nat} (hn : 8 * n < 4294967296) {a : List Nat} (ha : WF a) (hl : a.length = n) :
    rlpDecode n (rlpEncode n a) = .ok a := by
  obtain ⟨_, h2, _, _, h5⟩ := rlpPayload_spec ha hl
  have := rlpDecode_canon n (p := rlpPayload n a) [] (by omega)
  rw [List.append_nil] at this
  rw [rlpEncode_eq, this, h5]

/-- T18.13 the accepted set of the decoder AS WRITTEN, exactly: the canonical encoding of `a`, or
    its long-form variant `b8 len payload` when the payload has `1..=55` octets, each followed by
    ARBITRARY further octets. Every accepted input denotes the value returned (no truncation, no
    wrap, no leading zero, no oversize); the two leniencies are those of `rlp` 0.6.1
    `BasicDecoder::decode_value`, which the crate's glue does not re-check. -/
theorem rlp_accept_iff {n : Nat} (hn : 8 * n < 4294967296) {bs : List Nat} (hb : Bytes bs) (a : List Nat) :
    rlpDecode n bs = .ok a ↔
      WF a ∧ a.length = n ∧ ∃ tail,
        (bs = rlpEncode n a ++ tail ∨
         (1 ≤ (rlpPayload n a).length ∧ (rlpPayload n a).length ≤ 55 ∧
          bs = 184 :: (rlpPayload n a).length :: (rlpPayload n a ++ tail))) := by
  constructor
  · intro h
    obtain ⟨p, tail, hpB, hg, hform⟩ := rlpDecode_ok_form hn hb h
    obtain ⟨hw, hl, hp⟩ := rlpPayload_of_glue hpB hg
    refine ⟨hw, hl, tail, ?_⟩
    rw [rlpEncode_eq, hp]
    exact hform
  · rintro ⟨hw, hl, tail, hform⟩
    obtain ⟨_, h2, _, _, h5⟩ := rlpPayload_spec hw hl
    rcases hform with e | ⟨g1, g2, e⟩
    · rw [e, rlpEncode_eq, rlpDecode_canon n tail (by omega), h5]
    · rw [e, rlpDecode_long1 n tail g1 (by omega), h5]

/-
  FULL STATEMENT (unproved — it is FALSE of the code as written, see the two witnesses below):
    theorem rlp_decode_eq_encode_iff (hn : 8 * n < 2^32) (hb : Bytes bs) (a) :
      rlpDecode n bs = .ok a ↔ WF a ∧ a.length = n ∧ bs = rlpEncode n a
  Proved instead: `rlp_accept_iff` (the exact accepted set of the code), and the full statement for
  the specification decoder `rlpSpecDecode` (`rlpSpec_ok_iff`), against which the correspondence
  run compares the real crate.
-/

/-- T18.14w1 witness: bytes after the item are ignored — `rlp::decode::<U64>(01 ff ff) = Ok(1)`. -/
theorem rlp_trailing_accepted_witness :
    rlpDecode 1 [1, 255, 255] = .ok [1] ∧ rlpEncode 1 [1] ≠ [1, 255, 255] := by decide

/-- T18.14w2 witness: a long-form header for a one-octet payload — `rlp::decode::<U64>(b8 01 05) = Ok(5)`. -/
theorem rlp_long_form_accepted_witness :
    rlpDecode 1 [184, 1, 5] = .ok [5] ∧ rlpEncode 1 [5] ≠ [184, 1, 5] := by decide

/-- T18.15 the encoder's output is minimal: the payload has no leading zero octet and denotes
    the value; a single octet below `0x80` is its own encoding; up to 55 octets the header is the
    single octet `0x80+len`; from 56 on it is `0xb7+k` followed by the `k` big-endian length octets
    without leading zero. -/
theorem rlp_encode_minimal {n : Nat} (hn : 8 * n < 4294967296) {a : List Nat} (ha : WF a) (hl : a.length = n) :
    ∃ p, p.head? ≠ some 0 ∧ beVal p = val a ∧ p.length ≤ 8 * n ∧
      (p = [] → rlpEncode n a = [128]) ∧
      (∀ b, p = [b] → b < 128 → rlpEncode n a = [b]) ∧
      (1 ≤ p.length → p.length ≤ 55 → (∀ b, p = [b] → 128 ≤ b) → rlpEncode n a = (128 + p.length) :: p) ∧
      (55 < p.length → ∃ lb, rlpEncode n a = (183 + lb.length) :: (lb ++ p) ∧ lb.head? ≠ some 0 ∧
          beVal lb = p.length) := by
  obtain ⟨h1, h2, h3, _, _⟩ := rlpPayload_spec ha hl
  refine ⟨rlpPayload n a, h1, h3, h2, ?_, ?_, ?_, ?_⟩
  · intro e; rw [rlpEncode_eq, e]; rfl
  · intro b e hb; rw [rlpEncode_eq, e, rlpEncodeValue_cons, if_pos (by simp), if_pos ⟨by simp, hb⟩]
  · intro g1 g2 g3
    rw [rlpEncode_eq]
    cases hp : rlpPayload n a with
    | nil => rw [hp] at g1; simp at g1
    | cons first tl =>
      rw [hp] at g2
      rw [rlpEncodeValue_cons, if_pos g2, if_neg]
      intro hc
      have htl : tl = [] := by have := hc.1; simpa using this
      subst htl
      have := g3 first hp
      omega
  · intro g
    rw [rlpEncode_eq]
    cases hp : rlpPayload n a with
    | nil => rw [hp] at g; simp at g
    | cons first tl =>
      rw [hp] at g h2
      obtain ⟨s1, _, _, s4, _⟩ := rlpSizeBytes_spec (len := (first :: tl).length) (by simp) (by omega)
      refine ⟨rlpSizeBytes (first :: tl).length, ?_, s1, s4⟩
      rw [rlpEncodeValue_cons, if_neg (by omega)]
      rfl

/-! ## RLP: the specification decoder (L0 of the correspondence run) -/

/-- T18.16a what the property demands never panics … -/
theorem rlpSpec_never_panics (n : Nat) (bs : List Nat) : rlpSpecDecode n bs ≠ .panic := by
  unfold rlpSpecDecode
  split
  · split <;> (intro e; cases e)
  · intro e; cases e

/-- T18.16b … accepts exactly the canonical encoding (canonicity and fail-closedness) … -/
theorem rlpSpec_ok_iff {n : Nat} (hn : 8 * n < 4294967296) (bs a : List Nat) :
    rlpSpecDecode n bs = .ok a ↔ WF a ∧ a.length = n ∧ bs = rlpEncode n a := by
  unfold rlpSpecDecode
  constructor
  · intro h
    split at h
    · next a' hd =>
      by_cases he : rlpEncode n a' = bs
      · rw [if_pos he] at h
        have := Dec.ok.inj h
        subst this
        rw [← he] at hd
        have hp := rlpDecode_canon n (p := rlpPayload n a') []
        -- the canonical encoding decodes through the glue: read WF / length off the glue's result
        have hlenp : (rlpPayload n a').length ≤ 8 * n := by
          have := rlpStrip_length_le (beBytes (8 * n) (val a'))
          rwa [beBytes_length] at this
        rw [List.append_nil, ← rlpEncode_eq] at hp
        rw [hp (by omega)] at hd
        obtain ⟨_, _, e3⟩ := (rlpGlue_ok_iff _ _ _).mp hd
        exact ⟨e3 ▸ toLimbs_WF _ _, e3 ▸ toLimbs_length _ _, he.symm⟩
      · rw [if_neg he] at h; cases h
    · cases h
  · rintro ⟨hw, hl, e⟩
    rw [e, rlp_roundtrip hn hw hl]
    simp

/-- T18.16c … and differs from the code as written only where the code accepts a non-canonical input. -/
theorem rlpSpec_eq_model_or_lenient (n : Nat) (bs : List Nat) :
    rlpSpecDecode n bs = rlpDecode n bs ∨
    (∃ a, rlpDecode n bs = .ok a ∧ rlpEncode n a ≠ bs ∧ rlpSpecDecode n bs = .err) := by
  unfold rlpSpecDecode
  cases hd : rlpDecode n bs with
  | ok a =>
    by_cases he : rlpEncode n a = bs
    · left; simp [he]
    · right; exact ⟨a, rfl, he, by simp [he]⟩
  | err => left; rfl
  | panic => exact absurd hd (rlpDecode_no_panic n bs)

/-! ## non-vacuity -/

example : derToDer 1 [128] = some [2, 2, 0, 128] := by decide
example : derFromDer 1 [2, 2, 0, 128] = .ok [128] := by decide
example : derFromDer 1 [2, 1, 128] = .err := by decide                 -- negative
example : derFromDer 1 [2, 2, 0, 1] = .err := by decide                -- superfluous pad
example : derFromDer 1 [2, 129, 1, 5] = .err := by decide              -- non-minimal length
example : derFromDer 1 [2, 1, 5, 0] = .err := by decide                -- trailing octet
example : derFromDer 1 [2, 2, 5] = .err := by decide                   -- truncated
example : derFromDer 1 [2, 9, 0, 255, 255, 255, 255, 255, 255, 255, 255] = .ok [18446744073709551615] := by decide
example : derFromAny 1 2 [1, 0, 0, 0, 0, 0, 0, 0, 0] = .err := by decide    -- oversize: error, not panic
example : rlpEncode 1 [128] = [129, 128] := by decide
example : rlpDecode 1 [129, 128] = .ok [128] := by decide
example : rlpDecode 1 [129, 5] = .err := by decide                     -- single byte must be its own encoding
example : rlpDecode 1 [130, 0, 5] = .err := by decide                  -- leading zero
example : rlpDecode 1 [137, 1, 0, 0, 0, 0, 0, 0, 0, 0] = .err := by decide   -- oversize: error, not panic
example : rlpSpecDecode 1 [1, 255, 255] = .err := by decide
example : rlpSpecDecode 1 [184, 1, 5] = .err := by decide

end CB.P18
