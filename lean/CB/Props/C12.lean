/-
  C12 — `NonZero<T>` / `Odd<T>` can never hold an invalid value.

  T12.1  for every modelled producer (CB/Model/Wrappers.lean, one function per public producer, as the
         code computes it) and every argument: the result is none / err / panic, or it satisfies the
         invariant (`val ≠ 0` / `val % 2 = 1`), and byte / hex producers return the value the STATED
         byte order denotes.
  T12.2  consumers never see 0 / even: `Produced k v → Inv k v` over the inductive set of obtainable
         wrapper values (CB.Wrappers.Produced).
  Negative theorem (the full statement is false of the code; recorded finding C12-zeroize): `Zeroize`.
  Three former negative theorems (derived `Default for Odd`, `Odd::from_le_hex`,
  `NonZero::from_le_byte_array`; DESIGN §7 rows 1, 2, 9) became the positive full statements after the
  `fix:` commits 03a5470, dd30bc0, ad61352 in /repo: `oddDefault_valid`, `oddLimbDefault_valid`,
  `oddDefault_as_nz_valid`, `oddFromLeHex_valid`, `nzFromLeByteArray_spec`.

  Refinements owned by other properties and used on values: byte/hex decoding of `Uint` (C16),
  `Uint::MAX >> 1` (C05), `wrapping_neg_if` limb chain (C04: `negLoop_spec`).
-/
import CB.Lemmas.C12
namespace CB.P12
open CB CB.Wrappers

/-! ## gates -/

theorem gate_ok {α : Type} {v w : α} {p : Bool} (h : gate v (mask p) = .ok w) : p = true ∧ w = v := by
  rw [gate_mask] at h
  cases p
  · exact absurd h (by simp)
  · simp only [if_true, Res.ok.injEq] at h; exact ⟨rfl, h.symm⟩

/-- T12.1 `NonZero::<Limb>::new` -/
theorem nzLimbNew_spec {x : Nat} (hx : x < B) :
    nzLimbNew x = if x = 0 then .none else .ok x := by
  unfold nzLimbNew
  rw [limbIsZero_spec hx, choiceNot_mask, gate_mask]
  by_cases h : x = 0 <;> simp [h]

/-- T12.1 `NonZero::<Limb>::new_unwrap`: panics exactly on zero -/
theorem nzLimbNewUnwrap_spec {x : Nat} (hx : x < B) :
    nzLimbNewUnwrap x = if x = 0 then .panic else .ok x := by
  unfold nzLimbNewUnwrap
  simp only [fromWordNonzero_spec hx, mask_eq_WMAX]
  by_cases h : x = 0 <;> simp [h]

/-- T12.1 `Limb::to_nz` -/
theorem limbToNz_spec {x : Nat} (hx : x < B) :
    limbToNz x = if x = 0 then .none else .ok x := by
  unfold limbToNz
  rw [fromWordNonzero_spec hx, gate_mask]
  by_cases h : x = 0 <;> simp [h]

/-- T12.1 `ConstCtOption<NonZero<Limb>>::expect` after `to_nz` -/
theorem limbToNzExpect_spec {x : Nat} (hx : x < B) :
    limbToNzExpect x = if x = 0 then .panic else .ok x := by
  unfold limbToNzExpect
  rw [limbToNz_spec hx]
  by_cases h : x = 0 <;> simp [h, expectRes]

/-- T12.1 `NonZero::<Limb>::from_u8 .. from_u64` (and the `From` impls) -/
theorem nzLimbFromPrim_valid {bits v y : Nat} (hb : bits ≤ 64) (h : nzLimbFromPrim bits v = .ok y) :
    y ≠ 0 ∧ y = v % 2 ^ bits ∧ y < B := by
  unfold nzLimbFromPrim primNew at h
  split at h
  · exact absurd h (by simp)
  · rename_i p hp
    split at hp
    · exact absurd hp (by simp)
    · rename_i hz
      injection hp with hp; injection h with h
      subst hp; subst h
      refine ⟨hz, rfl, ?_⟩
      have : 2 ^ bits ≤ 2 ^ 64 := Nat.pow_le_pow_right (by decide) hb
      have := Nat.mod_lt v (Nat.pow_pos (n := bits) (by decide : 0 < 2))
      rw [B_eq_pow]; omega

/-- T12.1 `NonZero::<Uint>::new`, `NonZero::<Int>::new` -/
theorem nzNew_spec {a : List Nat} (h : WF a) :
    nzNew a = if val a = 0 then .none else .ok a := by
  unfold nzNew
  rw [uintIsZero_spec h, choiceNot_mask, gate_mask]
  by_cases hz : val a = 0 <;> simp [hz]

/-- T12.1 `NonZero::<BoxedUint>::new` -/
theorem nzBoxedNew_spec {a : List Nat} (h : WF a) :
    nzBoxedNew a = if val a = 0 then .none else .ok a := by
  unfold nzBoxedNew
  rw [boxedIsZero_spec h, choiceNot_mask, gate_mask]
  by_cases hz : val a = 0 <;> simp [hz]

/-- T12.1 `NonZero::<Uint>::new_unwrap` -/
theorem nzNewUnwrap_spec {a : List Nat} (h : WF a) :
    nzNewUnwrap a = if val a = 0 then .panic else .ok a := by
  unfold nzNewUnwrap
  simp only [isNonzero_spec h, mask_eq_WMAX]
  by_cases hz : val a = 0 <;> simp [hz]

/-- T12.1 `Uint::to_nz`, `Int::to_nz` -/
theorem uintToNz_spec {a : List Nat} (h : WF a) :
    uintToNz a = if val a = 0 then .none else .ok a := by
  unfold uintToNz
  rw [isNonzero_spec h, gate_mask]
  by_cases hz : val a = 0 <;> simp [hz]

/-- T12.1 `Uint::to_odd`, `Int::to_odd` -/
theorem uintToOdd_spec (a : List Nat) :
    uintToOdd a = if val a % 2 = 1 then .ok a else .none := by
  unfold uintToOdd
  rw [isOdd_spec, gate_mask]
  by_cases hz : val a % 2 = 1 <;> simp [hz]

/-- T12.1 `Odd::new` (Uint, BoxedUint), `BoxedUint::to_odd` -/
theorem oddNew_spec (a : List Nat) :
    oddNew a = if val a % 2 = 1 then .ok a else .none := by
  unfold oddNew
  rw [integerIsOdd_spec, gate_mask]
  by_cases hz : val a % 2 = 1 <;> simp [hz]

/-- T12.1 `ConstCtOption::expect`: a value only from a value -/
theorem expectRes_ok {α : Type} {r : Res α} {v : α} (h : expectRes r = .ok v) : r = .ok v := by
  cases r <;> simp_all [expectRes]

/-- T12.1 `NonZero::<Uint>::from_u8 .. from_u128` (and the `From` impls) -/
theorem nzFromPrim_valid {n bits x : Nat} {v : List Nat} (hn : n ≠ 0) (hb : bits ≤ 64 ∨ bits = 128)
    (h : nzFromPrim n bits x = .ok v) : WF v ∧ v.length = n ∧ val v = x % 2 ^ bits ∧ val v ≠ 0 := by
  unfold nzFromPrim primNew at h
  split at h
  · exact absurd h (by simp)
  · rename_i p hp
    split at hp
    · exact absurd hp (by simp)
    · rename_i hz
      injection hp with hp
      subst hp
      split at h
      · exact absurd h (by simp)
      · rename_i hg
        injection h with h
        subst h
        have hlt : x % 2 ^ bits < B ^ n := by
          have hm := Nat.mod_lt x (Nat.pow_pos (n := bits) (by decide : 0 < 2))
          rcases hb with hb | hb
          · have h1 : 2 ^ bits ≤ 2 ^ 64 := Nat.pow_le_pow_right (by decide) hb
            have h2 : B ^ 1 ≤ B ^ n := Nat.pow_le_pow_right B_pos (by omega)
            rw [Nat.pow_one, B_eq_pow] at h2
            rw [B_eq_pow]; omega
          · subst hb
            have hn2 : 2 ≤ n := by omega
            have h2 : B ^ 2 ≤ B ^ n := Nat.pow_le_pow_right B_pos hn2
            have : (2 : Nat) ^ 128 = B ^ 2 := by decide
            omega
        refine ⟨toLimbs_WF _ _, toLimbs_length _ _, ?_, ?_⟩
        · rw [val_toLimbs, Nat.mod_eq_of_lt hlt]
        · rw [val_toLimbs, Nat.mod_eq_of_lt hlt]; exact hz

/-! ## constants and `Default` -/

/-- T12.1 `NonZero::ONE`, `NonZero::MAX` (Limb) and `Default for NonZero<Limb>` -/
theorem nzLimb_consts : nzLimbOne = .ok 1 ∧ nzLimbMax = .ok WMAX ∧ nzLimbDefault = .ok 1 ∧ (1 : Nat) ≠ 0 ∧ WMAX ≠ 0 :=
  ⟨rfl, rfl, rfl, by decide, by decide⟩

/-- T12.1 `NonZero::<Uint>::ONE / MAX`, `NonZero::<Int>::ONE`, `Default for NonZero<Uint|Int>` -/
theorem nz_consts_valid {n : Nat} (hn : n ≠ 0) :
    nzOne n = .ok (uone n) ∧ nzMax n = .ok (umax n) ∧ nzDefault n = .ok (uone n) ∧
    val (uone n) = 1 ∧ val (umax n) + 1 = B ^ n ∧ val (umax n) ≠ 0 :=
  ⟨rfl, rfl, rfl, val_uone hn, val_umax n, val_umax_ne_zero hn⟩

/-- T12.1 `NonZero::<Int>::MAX` holds `2^(BITS-1) - 1`, which is not zero -/
theorem nzIntMax_valid {n : Nat} (hn : n ≠ 0) :
    nzIntMax n = .ok (intMaxLimbs n) ∧ val (intMaxLimbs n) = B ^ n / 2 - 1 ∧ val (intMaxLimbs n) ≠ 0 := by
  have h2 := two_le_B_pow hn
  have hv : val (intMaxLimbs n) = B ^ n / 2 - 1 := by
    unfold intMaxLimbs
    rw [val_toLimbs, Nat.mod_eq_of_lt
      (Nat.lt_of_le_of_lt (Nat.sub_le _ _) (Nat.div_lt_self (B_pow_pos n) (by decide)))]
  refine ⟨rfl, hv, ?_⟩
  rw [hv]
  have h4 : 4 ≤ B ^ n := by
    have h1 : B ^ 1 ≤ B ^ n := Nat.pow_le_pow_right B_pos (by omega)
    rw [Nat.pow_one] at h1
    have : 4 ≤ B := by decide
    omega
  generalize B ^ n = K at *
  omega

/-- T12.1 `Default for Odd<Uint>` / `Odd<Int>` (hand-written since fix 03a5470: `Self(T::one())`): holds 1 -/
theorem oddDefault_valid {n : Nat} (hn : n ≠ 0) :
    oddDefault n = .ok (uone n) ∧ WF (uone n) ∧ val (uone n) = 1 ∧ OddV (uone n) := by
  refine ⟨rfl, uone_WF n, val_uone hn, ?_⟩
  unfold OddV; rw [val_uone hn]

/-- T12.1 every value returned by `Odd::<Uint|Int>::default()` is odd (the former FULL STATEMENT) -/
theorem oddDefault_odd {n : Nat} (hn : n ≠ 0) (v : List Nat) (h : oddDefault n = .ok v) : OddV v := by
  injection h with h; subst h; exact (oddDefault_valid hn).2.2.2

/-- T12.1 `Odd::<Limb>::default()` holds 1, `Odd::<BoxedUint>::default()` holds the one-limb value 1 -/
theorem oddLimbDefault_valid : oddLimbDefault = .ok 1 ∧ oddBoxedDefault = .ok [1] ∧ OddV [1] ∧ WF [1] :=
  ⟨rfl, rfl, by unfold OddV; decide, WF_cons.mpr ⟨by decide, WF_nil⟩⟩

/-- T12.1 consequence: `Odd::default().as_nz_ref()` is a `NonZero` holding 1 -/
theorem oddDefault_as_nz_valid {n : Nat} (hn : n ≠ 0) :
    ∃ a v, oddDefault n = .ok a ∧ oddAsNzRef a = .ok v ∧ NZ v :=
  ⟨uone n, uone n, rfl, rfl, by unfold NZ; rw [val_uone hn]; decide⟩

/-! ## byte decoders -/

/-- T12.1 `NonZero::<Limb>::from_be_bytes` / `from_le_bytes`: the stated order's value, or none -/
theorem nzLimbFromBytes_spec {bs : List Nat} (h : bs.length = 8) :
    (nzLimbFromBeBytes bs = if beVal bs = 0 then .none else .ok (beVal bs)) ∧
    (nzLimbFromLeBytes bs = if leVal bs = 0 then .none else .ok (leVal bs)) := by
  have hb : beVal bs < B := by have := beVal_lt bs; rw [h] at this; exact this
  have hl : leVal bs < B := by have := leVal_lt bs; rw [h] at this; exact this
  unfold nzLimbFromBeBytes nzLimbFromLeBytes
  rw [Nat.mod_eq_of_lt hb, Nat.mod_eq_of_lt hl, nzLimbNew_spec hb, nzLimbNew_spec hl]
  exact ⟨rfl, rfl⟩

/-- T12.1 `NonZero::<Uint>::from_be_bytes`, `from_be_byte_array`: big-endian value, zero rejected -/
theorem nzFromBeBytes_spec {n : Nat} {bs : List Nat} (h : bs.length = 8 * n) :
    nzFromBeBytes n bs = (if beVal bs = 0 then .none else .ok (uintFromBeBytes n bs)) ∧
    nzFromBeByteArray n bs = nzFromBeBytes n bs ∧
    val (uintFromBeBytes n bs) = beVal bs := by
  refine ⟨?_, rfl, val_uintFromBeBytes h⟩
  unfold nzFromBeBytes
  have hw : WF (uintFromBeBytes n bs) := toLimbs_WF _ _
  rw [nzNew_spec hw, val_uintFromBeBytes h]

/-- T12.1 `NonZero::<Uint>::from_le_bytes`: little-endian value, zero rejected -/
theorem nzFromLeBytes_spec {n : Nat} {bs : List Nat} (h : bs.length = 8 * n) :
    nzFromLeBytes n bs = (if leVal bs = 0 then .none else .ok (uintFromLeBytes n bs)) ∧
    val (uintFromLeBytes n bs) = leVal bs := by
  refine ⟨?_, val_uintFromLeBytes h⟩
  unfold nzFromLeBytes
  have hw : WF (uintFromLeBytes n bs) := toLimbs_WF _ _
  rw [nzNew_spec hw, val_uintFromLeBytes h]

/-- T12.1 `NonZero::<Uint>::from_le_byte_array` (since fix ad61352): little-endian value, zero rejected
    (the former FULL STATEMENT) -/
theorem nzFromLeByteArray_spec {n : Nat} {bs : List Nat} (h : bs.length = 8 * n) :
    nzFromLeByteArray n bs = (if leVal bs = 0 then .none else .ok (uintFromLeBytes n bs)) ∧
    nzFromLeByteArray n bs = nzFromLeBytes n bs ∧
    val (uintFromLeBytes n bs) = leVal bs :=
  ⟨(nzFromLeBytes_spec h).1, rfl, val_uintFromLeBytes h⟩

/-- the former witness now decodes correctly: `01 00 00 00 00 00 00 00` is 1 -/
theorem nzFromLeByteArray_witness : nzFromLeByteArray 1 [1, 0, 0, 0, 0, 0, 0, 0] = .ok [1] := by decide

/-! ## hex constructors of `Odd<Uint>` -/

theorem assertOdd_ok {r : Res (List Nat)} {v : List Nat} (h : assertOdd r = .ok v) :
    r = .ok v ∧ val v % 2 = 1 := by
  cases r with
  | ok a =>
    simp only [assertOdd] at h
    split at h
    · rename_i ho
      injection h with h; subst h
      rw [isOdd_spec, mask_eq_WMAX] at ho
      exact ⟨rfl, of_decide_eq_true ho⟩
    · exact absurd h (by simp)
  | none => simp [assertOdd] at h
  | panic => simp [assertOdd] at h
  | err k => simp [assertOdd] at h

/-- T12.1 `Odd::<Uint>::from_be_hex`: odd, and the value is the big-endian reading of the `16n` hex digits -/
theorem oddFromBeHex_valid {n : Nat} {cs v : List Nat} (h : oddFromBeHex n cs = .ok v) :
    WF v ∧ val v % 2 = 1 ∧ cs.length = 16 * n ∧ ∃ bs, hexBytes? cs = some bs ∧ val v = beVal bs := by
  have ⟨hr, ho⟩ := assertOdd_ok h
  unfold uintFromBeHex at hr
  split at hr
  · exact absurd hr (by simp)
  · rename_i hl
    split at hr
    · exact absurd hr (by simp)
    · rename_i bs hb
      injection hr with hr; subst hr
      have hlen := hexBytes_length cs bs hb
      have : bs.length = 8 * n := by simp only [ne_eq, Decidable.not_not] at hl; omega
      exact ⟨toLimbs_WF _ _, ho, by simpa using hl, bs, hb, val_uintFromBeBytes this⟩

/-- T12.1 `Odd::<Uint>::from_le_hex` (since fix dd30bc0): odd, and the value is the LITTLE-endian reading of
    the `16n` hex digits (the former FULL STATEMENT) -/
theorem oddFromLeHex_valid {n : Nat} {cs v : List Nat} (h : oddFromLeHex n cs = .ok v) :
    WF v ∧ val v % 2 = 1 ∧ cs.length = 16 * n ∧ ∃ bs, hexBytes? cs = some bs ∧ val v = leVal bs := by
  have ⟨hr, ho⟩ := assertOdd_ok h
  unfold uintFromLeHex at hr
  split at hr
  · exact absurd hr (by simp)
  · rename_i hl
    split at hr
    · exact absurd hr (by simp)
    · rename_i bs hb
      injection hr with hr; subst hr
      have hlen := hexBytes_length cs bs hb
      have : bs.length = 8 * n := by simp only [ne_eq, Decidable.not_not] at hl; omega
      exact ⟨toLimbs_WF _ _, ho, by simpa using hl, bs, hb, val_uintFromLeBytes this⟩

/-- the former witnesses now behave as the name says: little-endian "0100000000000000" is 1 (accepted),
    little-endian "0000000000000001" is 2^56 (even, rejected) -/
theorem oddFromLeHex_witnesses :
    oddFromLeHex 1 [48, 49, 48, 48, 48, 48, 48, 48, 48, 48, 48, 48, 48, 48, 48, 48] = .ok [1] ∧
    oddFromLeHex 1 [48, 48, 48, 48, 48, 48, 48, 48, 48, 48, 48, 48, 48, 48, 48, 49] = .panic := by
  constructor <;> decide

/-! ## conditional selection -/

theorem choice_cases {c : Nat} (hc : c = 0 ∨ c = WMAX) : ∃ p : Bool, c = mask p := by
  rcases hc with h | h
  · exact ⟨false, h⟩
  · exact ⟨true, h⟩

/-- T12.1 `conditional_select` / `conditional_assign` of `NonZero<Uint|Int>` and `Odd<Uint|Int>`:
    the result IS one of the two operands -/
theorem wrapSelect_spec {a b : List Nat} {c : Nat} (ha : WF a) (hb : WF b) (hl : a.length = b.length)
    (hc : c = 0 ∨ c = WMAX) : wrapSelect a b c = .ok (if c = WMAX then b else a) := by
  obtain ⟨p, rfl⟩ := choice_cases hc
  unfold wrapSelect
  rw [uselect_spec p ha hb hl]
  have h0 : (0 : Nat) ≠ WMAX := by decide
  cases p <;> simp [mask_true, mask_false, h0]

/-- T12.1 provided `conditional_swap`: the pair is either unchanged or exchanged -/
theorem wrapSwap_spec {a b : List Nat} {c : Nat} (ha : WF a) (hb : WF b) (hl : a.length = b.length)
    (hc : c = 0 ∨ c = WMAX) : wrapSwap a b c = if c = WMAX then (b, a) else (a, b) := by
  obtain ⟨p, rfl⟩ := choice_cases hc
  unfold wrapSwap
  simp only [uselect_spec p ha hb hl, uselect_spec p hb ha hl.symm]
  have h0 : (0 : Nat) ≠ WMAX := by decide
  cases p <;> simp [mask_true, mask_false, h0]

/-- T12.1 `conditional_select` of `NonZero<Limb>` -/
theorem nzLimbSelect_spec {a b c : Nat} (ha : a < B) (hb : b < B) (hc : c = 0 ∨ c = WMAX) :
    nzLimbSelect a b c = .ok (if c = WMAX then b else a) := by
  obtain ⟨p, rfl⟩ := choice_cases hc
  unfold nzLimbSelect
  rw [selectWord_spec p ha hb]
  have h0 : (0 : Nat) ≠ WMAX := by decide
  cases p <;> simp [mask_true, mask_false, h0]

/-! ## random generation -/

/-- T12.1 `NonZero::<T>::try_random` (rejection sampling): whatever is returned is a non-zero `n`-limb value -/
theorem nzTryRandomFuel_valid (n : Nat) : ∀ (fuel : Nat) (s : List Nat) (used : Nat) (v : List Nat) (k : Nat),
    nzTryRandomFuel n fuel s used = .ok (v, k) → WF v ∧ v.length = n ∧ val v ≠ 0
  | 0, s, used, v, k, h => by simp [nzTryRandomFuel] at h
  | fuel + 1, s, used, v, k, h => by
    unfold nzTryRandomFuel at h
    split at h
    · exact absurd h (by simp)
    · rename_i a s' hr
      have ⟨ha, _, hn⟩ := uintTryRandom_spec n s a s' hr
      have hw : WF a := by rw [ha]; exact map_mod_WF _
      have hl : a.length = n := by rw [ha, List.length_map, List.length_take]; omega
      by_cases hz : val a = 0
      · rw [nzNew_spec hw, if_pos hz] at h
        exact nzTryRandomFuel_valid n fuel s' (used + n) v k h
      · rw [nzNew_spec hw, if_neg hz] at h
        simp only [Res.ok.injEq, Prod.mk.injEq] at h
        obtain ⟨rfl, _⟩ := h
        exact ⟨hw, hl, hz⟩

theorem nzTryRandom_valid {n k : Nat} {s v : List Nat} (h : nzTryRandom n s = .ok (v, k)) :
    WF v ∧ v.length = n ∧ val v ≠ 0 := nzTryRandomFuel_valid n _ s 0 v k h

theorem nzRandomInf_valid {n k : Nat} {s v : List Nat} (h : nzRandomInf n s = .ok (v, k)) :
    WF v ∧ v.length = n ∧ val v ≠ 0 := nzTryRandom_valid h

/-- T12.1 termination: with `n ≥ 1` limbs the loop ends within `stream length + 1` iterations
    (every iteration consumes `n` words), i.e. the model's fuel is never the reason for stopping -/
theorem nzTryRandomFuel_terminates (n : Nat) (hn : n ≠ 0) : ∀ (fuel : Nat) (s : List Nat) (used : Nat),
    s.length < fuel → nzTryRandomFuel n fuel s used ≠ .err "fuel"
  | 0, s, used, h => by omega
  | fuel + 1, s, used, h => by
    unfold nzTryRandomFuel
    split
    · simp
    · rename_i a s' hr
      have ⟨_, hs, hle⟩ := uintTryRandom_spec n s a s' hr
      split
      · simp
      · apply nzTryRandomFuel_terminates n hn fuel s' (used + n)
        rw [hs, List.length_drop]; omega

theorem nzTryRandom_terminates {n : Nat} (hn : n ≠ 0) (s : List Nat) : nzTryRandom n s ≠ .err "fuel" :=
  nzTryRandomFuel_terminates n hn _ s 0 (Nat.lt_succ_self _)

/-- T12.1 consumption of `NonZero::<T>::try_random`: if candidate `i` (words `i*n ..`) is the first
    non-zero one and the stream holds it completely, the result is exactly that candidate and exactly
    `(i+1)*n` words are drawn — in particular streams that BEGIN with all-zero words are handled -/
theorem nzTryRandomFuel_first (n : Nat) : ∀ (i fuel : Nat) (s : List Nat) (used : Nat),
    i < fuel → (i + 1) * n ≤ s.length →
    (∀ j, j < i → val (group n s j) = 0) → val (group n s i) ≠ 0 →
    nzTryRandomFuel n fuel s used = .ok (group n s i, used + (i + 1) * n)
  | 0, fuel, s, used, hf, hl, _, hnz => by
    obtain ⟨f, rfl⟩ : ∃ f, fuel = f + 1 := ⟨fuel - 1, by omega⟩
    have hn : n ≤ s.length := by simpa using hl
    have hw : WF ((s.take n).map (· % B)) := map_mod_WF _
    rw [group_zero] at hnz
    unfold nzTryRandomFuel
    rw [uintTryRandom_some n s hn]
    simp only
    rw [nzNew_spec hw, if_neg hnz, group_zero]
    simp
  | i + 1, fuel, s, used, hf, hl, hz, hnz => by
    obtain ⟨f, rfl⟩ : ∃ f, fuel = f + 1 := ⟨fuel - 1, by omega⟩
    have hl' : (i + 1) * n + n ≤ s.length := by rw [← Nat.succ_mul]; exact hl
    have hn : n ≤ s.length := by omega
    have hw : WF ((s.take n).map (· % B)) := map_mod_WF _
    have h0 : val ((s.take n).map (· % B)) = 0 := by rw [← group_zero]; exact hz 0 (by omega)
    unfold nzTryRandomFuel
    rw [uintTryRandom_some n s hn]
    simp only
    rw [nzNew_spec hw, if_pos h0]
    simp only
    have ih := nzTryRandomFuel_first n i f (s.drop n) (used + n) (by omega)
      (by rw [List.length_drop]; omega)
      (fun j hj => by rw [group_shift]; exact hz (j + 1) (by omega))
      (by rw [group_shift]; exact hnz)
    rw [ih, group_shift]
    congr 2
    rw [Nat.succ_mul (i + 1) n]
    omega

theorem nzTryRandom_first {n i : Nat} {s : List Nat} (hl : (i + 1) * n ≤ s.length) (hn : n ≠ 0)
    (hz : ∀ j, j < i → val (group n s j) = 0) (hnz : val (group n s i) ≠ 0) :
    nzTryRandom n s = .ok (group n s i, (i + 1) * n) := by
  have hi : i < s.length + 1 := by
    have : i + 1 ≤ (i + 1) * n := Nat.le_mul_of_pos_right _ (Nat.pos_of_ne_zero hn)
    omega
  have := nzTryRandomFuel_first n i (s.length + 1) s 0 hi hl hz hnz
  simpa [nzTryRandom] using this

/-- T12.1 `Random for Odd<Uint>`: the low bit is forced, so the value is odd; exactly `n` draws -/
theorem oddTryRandom_valid {n k : Nat} {s v : List Nat} (hn : n ≠ 0) (h : oddTryRandom n s = .ok (v, k)) :
    WF v ∧ v.length = n ∧ val v % 2 = 1 ∧ k = n := by
  unfold oddTryRandom at h
  split at h
  · exact absurd h (by simp)
  · rename_i a s' hr
    have ⟨ha, _, hle⟩ := uintTryRandom_spec n s a s' hr
    have hw : WF a := by rw [ha]; exact map_mod_WF _
    have hl : a.length = n := by rw [ha, List.length_map, List.length_take]; omega
    simp only [Res.ok.injEq, Prod.mk.injEq] at h
    obtain ⟨rfl, rfl⟩ := h
    have hne : a ≠ [] := by intro e; rw [e] at hl; exact hn hl.symm
    exact ⟨setLsb_WF hw, by rw [setLsb_length, hl], setLsb_odd hne, rfl⟩

theorem oddRandomInf_valid {n k : Nat} {s v : List Nat} (hn : n ≠ 0) (h : oddRandomInf n s = .ok (v, k)) :
    WF v ∧ v.length = n ∧ val v % 2 = 1 ∧ k = n := oddTryRandom_valid hn h

theorem fullLimbs_WF : ∀ (k : Nat) (s : List Nat) (prev : Nat) (ls s' : List Nat) (p : Nat),
    fullLimbs k s prev = some (ls, s', p) → WF ls
  | 0, s, prev, ls, s', p, h => by simp [fullLimbs] at h; rw [h.1]; exact WF_nil
  | k + 1, [], prev, ls, s', p, h => by simp [fullLimbs] at h
  | k + 1, w :: s, prev, ls, s', p, h => by
    unfold fullLimbs at h
    split at h
    · exact absurd h (by simp)
    · rename_i ls0 s0 p0 hr
      simp only [Option.some.injEq, Prod.mk.injEq] at h
      obtain ⟨rfl, _, _⟩ := h
      exact WF_cons.mpr ⟨Nat.mod_lt _ B_pos, fullLimbs_WF k s (w % B) ls0 s0 p0 hr⟩

/-- T12.1 `Odd::<BoxedUint>::random`: every returned value is odd (low bit forced after masking) -/
theorem oddBoxedRandom_valid {bits k : Nat} {s v : List Nat} (h : oddBoxedRandom bits s = .ok (v, k)) :
    WF v ∧ val v % 2 = 1 := by
  unfold oddBoxedRandom at h
  simp only at h
  split at h
  · simp only [Res.ok.injEq, Prod.mk.injEq] at h
    obtain ⟨rfl, _⟩ := h
    have hne : List.replicate (if (bits + 63) / 64 = 0 then 1 else (bits + 63) / 64) 0 ≠ [] := by
      split <;> simp_all
    refine ⟨setLsb_WF ?_, setLsb_odd hne⟩
    intro x hx; rw [(List.mem_replicate.mp hx).2]; exact B_pos
  · split at h
    · exact absurd h (by simp)
    · rename_i ls s' prev hr
      split at h
      · exact absurd h (by simp)
      · rename_i w rest
        simp only [Res.ok.injEq, Prod.mk.injEq] at h
        obtain ⟨rfl, _⟩ := h
        have hls := fullLimbs_WF _ _ _ _ _ _ hr
        have hm : WMAX / 2 ^ ((64 - bits % 64) % 64) < B :=
          Nat.lt_of_le_of_lt (Nat.div_le_self _ _) (by decide)
        refine ⟨setLsb_WF ?_, setLsb_odd (by simp)⟩
        intro x hx
        rcases List.mem_append.mp hx with hx | hx
        · exact hls x hx
        · rw [List.mem_singleton.mp hx, Nat.and_comm]; exact and_lt_B hm

/-! ## deserialization -/

theorem bincodeArray_ok {n : Nat} {bs a : List Nat} (h : bincodeArray n bs = .ok a) : WF a ∧ a.length = n := by
  unfold bincodeArray at h
  simp only at h
  split at h
  · exact absurd h (by simp)
  · split at h
    · exact absurd h (by simp)
    · split at h
      · exact absurd h (by simp)
      · injection h with h; subst h
        exact ⟨toLimbs_WF _ _, toLimbs_length _ _⟩

/-- T12.1 `Deserialize for NonZero<Uint>`: zero is rejected with an error -/
theorem nzDeser_valid {n : Nat} {bs v : List Nat} (h : nzDeser n bs = .ok v) :
    WF v ∧ v.length = n ∧ val v ≠ 0 ∧ bincodeArray n bs = .ok v := by
  unfold nzDeser at h
  split at h
  · rename_i a ha
    have ⟨hw, hl⟩ := bincodeArray_ok ha
    simp only [uintIsZero_spec hw, mask_eq_WMAX] at h
    split at h
    · exact absurd h (by simp)
    · rename_i hz
      injection h with h; subst h
      exact ⟨hw, hl, by simpa using hz, ha⟩
  · rename_i hno
    exact absurd h (hno v)

/-- T12.1 `Deserialize for Odd<Uint>`: even values (zero included) are rejected with an error -/
theorem oddDeser_valid {n : Nat} {bs v : List Nat} (h : oddDeser n bs = .ok v) :
    WF v ∧ v.length = n ∧ val v % 2 = 1 ∧ bincodeArray n bs = .ok v := by
  unfold oddDeser at h
  split at h
  · rename_i a ha
    have ⟨hw, hl⟩ := bincodeArray_ok ha
    rw [oddNew_spec] at h
    by_cases ho : val a % 2 = 1
    · rw [if_pos ho] at h
      injection h with h; subst h
      exact ⟨hw, hl, ho, ha⟩
    · rw [if_neg ho] at h
      exact absurd h (by simp)
  · rename_i hno
    exact absurd h (hno v)

/-- T12.1 `Deserialize for NonZero<Limb>` -/
theorem nzLimbDeser_valid {bs : List Nat} {y : Nat} (h : nzLimbDeser bs = .ok y) :
    y < B ∧ y ≠ 0 ∧ y = leVal (bs.take 8) := by
  unfold nzLimbDeser at h
  simp only at h
  split at h
  · exact absurd h (by simp)
  · rename_i hlen
    have hb : leVal (bs.take 8) < B := by
      have := leVal_lt (bs.take 8)
      have hl : (bs.take 8).length = 8 := by rw [List.length_take]; omega
      rw [hl] at this; exact this
    simp only [limbIsZero_spec hb, mask_eq_WMAX] at h
    split at h
    · exact absurd h (by simp)
    · rename_i hz
      injection h with h; subst h
      exact ⟨hb, by simpa using hz, rfl⟩

/-! ## conversions -/

theorem getLastD_lt {a : List Nat} (h : WF a) : a.getLastD 0 < B := by
  induction a with
  | nil => exact B_pos
  | cons x xs ih =>
    have ⟨hx, hxs⟩ := WF_cons.mp h
    cases xs with
    | nil => exact hx
    | cons y ys => simpa [List.getLastD] using ih hxs

theorem intIsNegative_mask {a : List Nat} (h : WF a) : ∃ p : Bool, intIsNegative a = mask p := by
  have ht := getLastD_lt h
  by_cases hh : HALF ≤ a.getLastD 0
  · refine ⟨true, ?_⟩
    have : a.getLastD 0 / HALF = 1 := by simp only [HALF_def, B_def] at *; omega
    unfold intIsNegative; rw [this]; decide
  · refine ⟨false, ?_⟩
    have : a.getLastD 0 / HALF = 0 := by simp only [HALF_def, B_def] at *; omega
    unfold intIsNegative; rw [this]; decide

/-- T12.1 `NonZero::<Int>::abs_sign`: for a non-zero `Int` the magnitude is a non-zero `Uint` and
    `new_unwrap` never panics (the magnitude itself is C13's `abs`; the negation chain is C04) -/
theorem nzIntAbsSign_valid {a : List Nat} (hw : WF a) (hz : val a ≠ 0) :
    ∃ v s, nzIntAbsSign a = .ok (v, s) ∧ WF v ∧ v.length = a.length ∧ val v ≠ 0 := by
  obtain ⟨p, hp⟩ := intIsNegative_mask hw
  have ⟨hspec, _, hnw, hnl⟩ := negLoop_spec (c := 1) hw (Nat.le_refl 1)
  have hneg : wrappingNeg a = (negLoop a 1).1 := rfl
  have hc1 := (negLoop_spec (c := 1) hw (Nat.le_refl 1)).2.1
  have hnz : val (wrappingNeg a) ≠ 0 := by
    rw [hneg]
    intro h0
    rw [h0] at hspec
    have hlt := val_lt hw
    generalize B ^ a.length = K at *
    generalize (negLoop a 1).2 = c at *
    have : c = 0 ∨ c = 1 := by omega
    rcases this with rfl | rfl <;> omega
  have habs : wrappingNegIf a (intIsNegative a) = if p then wrappingNeg a else a := by
    unfold wrappingNegIf
    rw [hp, uselect_spec p hw (hneg ▸ hnw) (by rw [hneg, hnl])]
  have hwabs : WF (wrappingNegIf a (intIsNegative a)) := by
    rw [habs]; cases p
    · exact hw
    · simp only [if_true]; rw [hneg]; exact hnw
  have hvabs : val (wrappingNegIf a (intIsNegative a)) ≠ 0 := by
    rw [habs]; cases p
    · exact hz
    · exact hnz
  have hlabs : (wrappingNegIf a (intIsNegative a)).length = a.length := by
    rw [habs]; cases p
    · rfl
    · simp only [if_true]; rw [hneg, hnl]
  refine ⟨wrappingNegIf a (intIsNegative a), intIsNegative a, ?_, hwabs, hlabs, hvabs⟩
  unfold nzIntAbsSign intAbsSign
  simp only [nzNewUnwrap_spec hwabs, if_neg hvabs]

/-- any value returned by `NonZero::<Int>::abs_sign` passed the `new_unwrap` gate -/
theorem nzIntAbsSign_ok {a v : List Nat} {s : Nat} (hw : WF a) (hz : val a ≠ 0)
    (h : nzIntAbsSign a = .ok (v, s)) : WF v ∧ val v ≠ 0 := by
  obtain ⟨v', s', e, hwv, _, hv⟩ := nzIntAbsSign_valid hw hz
  rw [e] at h
  simp only [Res.ok.injEq, Prod.mk.injEq] at h
  obtain ⟨rfl, _⟩ := h
  exact ⟨hwv, hv⟩

theorem val_append_zeros (a : List Nat) (k : Nat) : val (a ++ List.replicate k 0) = val a := by
  induction a with
  | nil => exact val_uzero k
  | cons x xs ih => show x + B * val (xs ++ List.replicate k 0) = x + B * val xs; rw [ih]

/-- T12.1 `NonZero::<BoxedUint>::widen`: the value is unchanged (zero limbs appended), or it panics -/
theorem nzBoxedWiden_valid {a v : List Nat} {bits : Nat} (hw : WF a) (h : nzBoxedWiden a bits = .ok v) :
    WF v ∧ val v = val a := by
  unfold nzBoxedWiden at h
  split at h
  · exact absurd h (by simp)
  · injection h with h; subst h
    refine ⟨?_, val_append_zeros _ _⟩
    intro x hx
    rcases List.mem_append.mp hx with hx | hx
    · exact hw x hx
    · rw [(List.mem_replicate.mp hx).2]; exact B_pos

/- FULL STATEMENT (false of the code — new finding, see notes/C12.md):
     theorem wrapZeroize_valid {a v} (h : NZ a) (e : wrapZeroize a = .ok v) : NZ v
   `Zeroize for NonZero<T>` / `Odd<T>` zeroizes the inner value in place. -/

/-- negative: after `zeroize()` a `NonZero` / `Odd` wrapper holds zero -/
theorem wrapZeroize_invalid (a : List Nat) :
    wrapZeroize a = .ok (uzero a.length) ∧ ¬ NZ (uzero a.length) ∧ ¬ OddV (uzero a.length) ∧
    nzLimbZeroize 5 = .ok 0 := by
  refine ⟨rfl, ?_, ?_, rfl⟩
  · unfold NZ; rw [val_uzero]; decide
  · unfold OddV; rw [val_uzero]; decide

/-! ## T12.2 — consumers never see an invalid value -/

theorem ite_none_ok {α : Type} {c : Prop} [Decidable c] {a v : α}
    (h : (if c then Res.none else Res.ok a) = Res.ok v) : ¬ c ∧ v = a := by
  split at h
  · exact absurd h (by simp)
  · rename_i hc; injection h with h; exact ⟨hc, h.symm⟩
theorem ite_panic_ok {α : Type} {c : Prop} [Decidable c] {a v : α}
    (h : (if c then Res.panic else Res.ok a) = Res.ok v) : ¬ c ∧ v = a := by
  split at h
  · exact absurd h (by simp)
  · rename_i hc; injection h with h; exact ⟨hc, h.symm⟩
theorem ite_ok_none {α : Type} {c : Prop} [Decidable c] {a v : α}
    (h : (if c then Res.ok a else Res.none) = Res.ok v) : c ∧ v = a := by
  split at h
  · rename_i hc; injection h with h; exact ⟨hc, h.symm⟩
  · exact absurd h (by simp)

theorem inv_limb {y : Nat} (hy : y < B) (hz : y ≠ 0) : Inv .nz [y] := by
  refine ⟨WF_cons.mpr ⟨hy, WF_nil⟩, ?_⟩
  show y + B * 0 ≠ 0
  omega

theorem inv_limb_inv {y : Nat} (h : Inv .nz [y]) : y < B ∧ y ≠ 0 := by
  obtain ⟨hw, hz⟩ := h
  refine ⟨(WF_cons.mp hw).1, ?_⟩
  have : val [y] = y := by show y + B * 0 = y; omega
  intro h0; exact hz (by rw [this, h0])

theorem nzNew_ok {a v : List Nat} (hw : WF a) (e : nzNew a = .ok v) : Inv .nz v := by
  rw [nzNew_spec hw] at e
  obtain ⟨hz, rfl⟩ := ite_none_ok e
  exact ⟨hw, hz⟩

theorem oddNew_ok {a v : List Nat} (hw : WF a) (e : oddNew a = .ok v) : Inv .odd v := by
  rw [oddNew_spec] at e
  obtain ⟨ho, rfl⟩ := ite_ok_none e
  exact ⟨hw, ho⟩

theorem uintToOdd_ok {a v : List Nat} (hw : WF a) (e : uintToOdd a = .ok v) : Inv .odd v := by
  rw [uintToOdd_spec] at e
  obtain ⟨ho, rfl⟩ := ite_ok_none e
  exact ⟨hw, ho⟩

theorem uintToNz_ok {a v : List Nat} (hw : WF a) (e : uintToNz a = .ok v) : Inv .nz v := by
  rw [uintToNz_spec hw] at e
  obtain ⟨hz, rfl⟩ := ite_none_ok e
  exact ⟨hw, hz⟩

theorem select_inv {k : Kind} {a b v : List Nat} {c : Nat} (ha : Inv k a) (hb : Inv k b)
    (hl : a.length = b.length) (hc : c = 0 ∨ c = WMAX) (e : wrapSelect a b c = .ok v) : Inv k v := by
  have hwa : WF a := by cases k <;> exact ha.1
  have hwb : WF b := by cases k <;> exact hb.1
  rw [wrapSelect_spec hwa hwb hl hc] at e
  injection e with e; subst e
  split
  · exact hb
  · exact ha

theorem swap_inv {k : Kind} {a b : List Nat} {c : Nat} (ha : Inv k a) (hb : Inv k b)
    (hl : a.length = b.length) (hc : c = 0 ∨ c = WMAX) :
    Inv k (wrapSwap a b c).1 ∧ Inv k (wrapSwap a b c).2 := by
  have hwa : WF a := by cases k <;> exact ha.1
  have hwb : WF b := by cases k <;> exact hb.1
  rw [wrapSwap_spec hwa hwb hl hc]
  split
  · exact ⟨hb, ha⟩
  · exact ⟨ha, hb⟩

/-- T12.2 Every wrapper value obtainable through the (non-excluded) producers satisfies its invariant:
    a `NonZero` never holds 0, an `Odd` never holds an even number.  Hence `div_rem`, `rem`,
    `MontyParams::new`, `inv_odd_mod`, … never observe a zero divisor or an even / zero modulus,
    PROVIDED the wrapper was not mutated by `zeroize()` (the excluded producer; see `wrapZeroize_invalid`). -/
theorem produced_valid {k : Kind} {v : List Nat} (h : Produced k v) : Inv k v := by
  induction h with
  | nzLimbNew hx e =>
    rw [nzLimbNew_spec hx] at e
    obtain ⟨hz, rfl⟩ := ite_none_ok e
    exact inv_limb hx hz
  | nzLimbNewUnwrap hx e =>
    rw [nzLimbNewUnwrap_spec hx] at e
    obtain ⟨hz, rfl⟩ := ite_panic_ok e
    exact inv_limb hx hz
  | limbToNz hx e =>
    rw [limbToNz_spec hx] at e
    obtain ⟨hz, rfl⟩ := ite_none_ok e
    exact inv_limb hx hz
  | limbToNzExpect hx e =>
    rw [limbToNzExpect_spec hx] at e
    obtain ⟨hz, rfl⟩ := ite_panic_ok e
    exact inv_limb hx hz
  | nzLimbFromPrim hb e =>
    have ⟨hz, _, hy⟩ := nzLimbFromPrim_valid hb e
    exact inv_limb hy hz
  | nzLimbOne e => injection e with e; subst e; exact inv_limb (by decide) (by decide)
  | nzLimbMax e => injection e with e; subst e; exact inv_limb (by decide) (by decide)
  | nzLimbDefault e => injection e with e; subst e; exact inv_limb (by decide) (by decide)
  | @nzLimbFromBeBytes bs y e =>
    have hx : beVal bs % B < B := Nat.mod_lt _ B_pos
    unfold nzLimbFromBeBytes at e
    rw [nzLimbNew_spec hx] at e
    obtain ⟨hz, rfl⟩ := ite_none_ok e
    exact inv_limb hx hz
  | @nzLimbFromLeBytes bs y e =>
    have hx : leVal bs % B < B := Nat.mod_lt _ B_pos
    unfold nzLimbFromLeBytes at e
    rw [nzLimbNew_spec hx] at e
    obtain ⟨hz, rfl⟩ := ite_none_ok e
    exact inv_limb hx hz
  | nzLimbSelect _ _ hc e iha ihb =>
    have ⟨ha, haz⟩ := inv_limb_inv iha
    have ⟨hb, hbz⟩ := inv_limb_inv ihb
    rw [nzLimbSelect_spec ha hb hc] at e
    injection e with e; subst e
    split
    · exact inv_limb hb hbz
    · exact inv_limb ha haz
  | nzLimbDeser e =>
    have ⟨hy, hz, _⟩ := nzLimbDeser_valid e
    exact inv_limb hy hz
  | nzNew hw e => exact nzNew_ok hw e
  | nzBoxedNew hw e =>
    rw [nzBoxedNew_spec hw] at e
    obtain ⟨hz, rfl⟩ := ite_none_ok e
    exact ⟨hw, hz⟩
  | nzNewUnwrap hw e =>
    rw [nzNewUnwrap_spec hw] at e
    obtain ⟨hz, rfl⟩ := ite_panic_ok e
    exact ⟨hw, hz⟩
  | uintToNz hw e => exact uintToNz_ok hw e
  | uintToNzExpect hw e => exact uintToNz_ok hw (expectRes_ok e)
  | nzFromPrim hn hb e =>
    have ⟨hw, _, _, hz⟩ := nzFromPrim_valid hn hb e
    exact ⟨hw, hz⟩
  | @nzOne n v hn e =>
    injection e with e; subst e
    exact ⟨uone_WF n, by unfold NZ; rw [val_uone hn]; decide⟩
  | @nzMax n v hn e =>
    injection e with e; subst e
    exact ⟨umax_WF n, val_umax_ne_zero hn⟩
  | @nzIntMax n v hn e =>
    injection e with e; subst e
    exact ⟨toLimbs_WF _ _, (nzIntMax_valid hn).2.2⟩
  | @nzDefault n v hn e =>
    injection e with e; subst e
    exact ⟨uone_WF n, by unfold NZ; rw [val_uone hn]; decide⟩
  | nzFromBeBytes e => exact nzNew_ok (toLimbs_WF _ _) e
  | nzFromLeBytes e => exact nzNew_ok (toLimbs_WF _ _) e
  | nzFromBeByteArray e => exact nzNew_ok (toLimbs_WF _ _) e
  | nzFromLeByteArray e => exact nzNew_ok (toLimbs_WF _ _) e
  | nzSelect _ _ hl hc e iha ihb => exact select_inv iha ihb hl hc e
  | nzSwapFst _ _ hl hc iha ihb => exact (swap_inv iha ihb hl hc).1
  | nzSwapSnd _ _ hl hc iha ihb => exact (swap_inv iha ihb hl hc).2
  | nzTryRandom e => have ⟨hw, _, hz⟩ := nzTryRandom_valid e; exact ⟨hw, hz⟩
  | nzRandomInf e => have ⟨hw, _, hz⟩ := nzRandomInf_valid e; exact ⟨hw, hz⟩
  | nzDeser e => have ⟨hw, _, hz, _⟩ := nzDeser_valid e; exact ⟨hw, hz⟩
  | nzIntAbsSign _ e iha => exact nzIntAbsSign_ok iha.1 iha.2 e
  | nzBoxedWiden _ e iha =>
    have ⟨hw, hv⟩ := nzBoxedWiden_valid iha.1 e
    exact ⟨hw, by unfold NZ; rw [hv]; exact iha.2⟩
  | nzSame _ e iha => injection e with e; subst e; exact iha
  | oddAsNzRef _ e iha => injection e with e; subst e; exact ⟨iha.1, odd_ne_zero iha.2⟩
  | oddLimbDefault e =>
    injection e with e; subst e
    exact ⟨WF_cons.mpr ⟨by decide, WF_nil⟩, by unfold OddV; decide⟩
  | @oddDefault n v hn e =>
    injection e with e; subst e
    exact ⟨uone_WF n, (oddDefault_valid hn).2.2.2⟩
  | oddBoxedDefault e =>
    injection e with e; subst e
    exact ⟨WF_cons.mpr ⟨by decide, WF_nil⟩, by unfold OddV; decide⟩
  | oddNew hw e => exact oddNew_ok hw e
  | uintToOdd hw e => exact uintToOdd_ok hw e
  | uintToOddExpect hw e => exact uintToOdd_ok hw (expectRes_ok e)
  | oddFromBeHex e => have ⟨hw, ho, _⟩ := oddFromBeHex_valid e; exact ⟨hw, ho⟩
  | oddFromLeHex e => have ⟨hw, ho, _⟩ := oddFromLeHex_valid e; exact ⟨hw, ho⟩
  | oddSelect _ _ hl hc e iha ihb => exact select_inv iha ihb hl hc e
  | oddSwapFst _ _ hl hc iha ihb => exact (swap_inv iha ihb hl hc).1
  | oddSwapSnd _ _ hl hc iha ihb => exact (swap_inv iha ihb hl hc).2
  | oddTryRandom hn e => have ⟨hw, _, ho, _⟩ := oddTryRandom_valid hn e; exact ⟨hw, ho⟩
  | oddRandomInf hn e => have ⟨hw, _, ho, _⟩ := oddRandomInf_valid hn e; exact ⟨hw, ho⟩
  | oddBoxedRandom e => exact oddBoxedRandom_valid e
  | oddDeser e => have ⟨hw, _, ho, _⟩ := oddDeser_valid e; exact ⟨hw, ho⟩
  | oddIntoBoxed _ e iha => injection e with e; subst e; exact iha
  | oddSame _ e iha => injection e with e; subst e; exact iha

/-- T12.2 corollary: a divisor of type `NonZero<T>` is never zero -/
theorem consumer_divisor_nonzero {d : List Nat} (h : Produced .nz d) : val d ≠ 0 := (produced_valid h).2

/-- T12.2 corollary: a modulus of type `Odd<T>` is odd, hence also non-zero (what `as_nz_ref` relies on) -/
theorem consumer_modulus_odd {m : List Nat} (h : Produced .odd m) : val m % 2 = 1 ∧ val m ≠ 0 :=
  ⟨(produced_valid h).2, odd_ne_zero (produced_valid h).2⟩

/-- for `Int` wrappers the invariant on the limbs is the invariant on the signed value
    (`B^n` is even for `n ≥ 1`, and `v < B^n`) -/
theorem int_invariants {n v : Nat} (hn : n ≠ 0) (hv : v < B ^ n) :
    (((v : Int) - (B ^ n : Nat) ≠ 0) ∧ (((v : Int) - (B ^ n : Nat)) % 2 = 1 ↔ v % 2 = 1)) := by
  have he : B ^ n % 2 = 0 := by
    cases n with
    | zero => exact absurd rfl hn
    | succ k => rw [Nat.pow_succ, Nat.mul_mod]; simp [B_def]
  generalize B ^ n = K at *
  omega

/-! ## coverage round — observers (`AsRef<T>`, `AsRef<[Limb]>`, `Serialize`) and the serde round trip -/

/-- `Deserialize for NonZero<T>` in one formula: the frame reader's outcome, with zero turned into an error
    (an encoding of zero NEVER produces the wrapper) -/
theorem nzDeser_exact (n : Nat) (bs : List Nat) :
    nzDeser n bs = (match bincodeArray n bs with
      | .ok a => if val a = 0 then .err "zero" else .ok a
      | r => r) := by
  unfold nzDeser
  cases ha : bincodeArray n bs with
  | ok a =>
    have ⟨hw, _⟩ := bincodeArray_ok ha
    simp only [uintIsZero_spec hw, mask_eq_WMAX, decide_eq_true_eq]
  | none => rfl
  | panic => rfl
  | err e => rfl

/-- `Deserialize for Odd<T>`: an encoding of an even value (zero included) NEVER produces the wrapper -/
theorem oddDeser_exact (n : Nat) (bs : List Nat) :
    oddDeser n bs = (match bincodeArray n bs with
      | .ok a => if val a % 2 = 1 then .ok a else .err "even"
      | r => r) := by
  unfold oddDeser
  cases ha : bincodeArray n bs with
  | ok a =>
    simp only [oddNew_spec]
    by_cases ho : val a % 2 = 1 <;> simp [ho]
  | none => rfl
  | panic => rfl
  | err e => rfl

/-- `Serialize for NonZero<T>` / `Odd<T>` writes the documented layout: the `u64` little-endian byte count, then
    byte `i` = `value / 256^i % 256` -/
theorem wrapSer_layout (a : List Nat) :
    wrapSer a = .ok (((List.range 8).map fun i => 8 * a.length / 256 ^ i % 256) ++
      ((List.range (8 * a.length)).map fun i => val a / 256 ^ i % 256)) := by
  unfold wrapSer bincodeFrame
  rw [leBytesOf_eq_range, leBytesOf_eq_range]

/-- decode ∘ encode = id on `NonZero<Uint>`: the serialised form of a valid wrapper deserialises to it -/
theorem nzSer_roundtrip {a : List Nat} (hw : WF a) (hn : 8 * a.length < B) (hz : val a ≠ 0) :
    ∃ bs, wrapSer a = .ok bs ∧ nzDeser a.length bs = .ok a := by
  refine ⟨bincodeFrame a, rfl, ?_⟩
  rw [nzDeser_exact, bincodeArray_frame hw hn]
  simp only [if_neg hz]

/-- decode ∘ encode = id on `Odd<Uint>` -/
theorem oddSer_roundtrip {a : List Nat} (hw : WF a) (hn : 8 * a.length < B) (ho : val a % 2 = 1) :
    ∃ bs, wrapSer a = .ok bs ∧ oddDeser a.length bs = .ok a := by
  refine ⟨bincodeFrame a, rfl, ?_⟩
  rw [oddDeser_exact, bincodeArray_frame hw hn]
  simp only [if_pos ho]

/-- the same for `NonZero<Limb>` (8 little-endian bytes) -/
theorem nzLimbSer_roundtrip {x : Nat} (hx : x < B) (hz : x ≠ 0) :
    ∃ bs, wrapLimbSer x = .ok bs ∧ nzLimbDeser bs = .ok x ∧
      bs = (List.range 8).map fun i => x / 256 ^ i % 256 := by
  refine ⟨leBytesOf 8 x, rfl, ?_, leBytesOf_eq_range 8 x⟩
  have hl : (leBytesOf 8 x).length = 8 := leBytesOf_length 8 x
  unfold nzLimbDeser
  rw [if_neg (by omega)]
  have hv : leVal ((leBytesOf 8 x).take 8) = x := by
    rw [List.take_of_length_le (by omega), leVal_leBytesOf]
    exact Nat.mod_eq_of_lt hx
  simp only [hv, limbIsZero_spec hx, mask_eq_WMAX, decide_eq_true_eq, if_neg hz]

/-- the observers hand out the wrapped value unchanged, so what they expose satisfies the invariant whenever the
    wrapper does (`AsRef<T>`, `AsRef<[Limb]>`) -/
theorem observers_same {k : Kind} {a : List Nat} (h : Inv k a) :
    wrapAsRef a = .ok a ∧ oddAsRefLimbs a = .ok a ∧ (∀ v, wrapAsRef a = .ok v → Inv k v) := by
  refine ⟨rfl, rfl, fun v hv => ?_⟩
  injection hv with hv; subst hv; exact h

/-! ## non-vacuity: each family of hypotheses is satisfied by a concrete non-trivial input -/

example : nzNew [0, 5] = .ok [0, 5] ∧ nzNew [0, 0] = .none := by constructor <;> decide
example : oddNew [3, 7] = .ok [3, 7] ∧ oddNew [2, 7] = .none := by constructor <;> decide
example : nzTryRandom 2 [0, 0, 0, 9, 4] = .ok ([0, 9], 4) := by decide
example : nzTryRandom 1 [0, 0] = .err "exhausted" := by decide
example : oddBoxedRandom 65 [18446744073709551614, 18446744073709551615] = .ok ([18446744073709551615, 1], 2) := by decide
example : nzDeser 1 [8, 0, 0, 0, 0, 0, 0, 0, 0, 0, 0, 0, 0, 0, 0, 0] = .err "zero" := by decide
example : oddDeser 1 [8, 0, 0, 0, 0, 0, 0, 0, 3, 0, 0, 0, 0, 0, 0, 0] = .ok [3] := by decide
example : nzIntAbsSign [18446744073709551615] = .ok ([1], WMAX) := by decide
example : Produced .nz [0, 5] :=
  Produced.nzNew (WF_cons.mpr ⟨by decide, WF_cons.mpr ⟨by decide, WF_nil⟩⟩) (by decide : nzNew [0, 5] = .ok [0, 5])
example : oddFromBeHex 1 [48, 48, 48, 48, 48, 48, 48, 48, 48, 48, 48, 48, 48, 48, 70, 102] = .ok [255] := by decide
-- coverage round
example : wrapSer [7] = .ok [8, 0, 0, 0, 0, 0, 0, 0, 7, 0, 0, 0, 0, 0, 0, 0] := by decide
example : oddDeser 1 [8, 0, 0, 0, 0, 0, 0, 0, 6, 0, 0, 0, 0, 0, 0, 0] = .err "even" := by decide
example : nzDeser 2 (bincodeFrame [0, 5]) = .ok [0, 5] := by decide

end CB.P12
