/-
  C13 — theorems about the SOURCE of the sign layer of `Int<LIMBS>`, regenerated from /repo on every run by
  tools/translate.py (CB/Gen/IntSign.lean: src/int/{sign,neg,cmp,add}.rs, src/int.rs over `Uint::{select, wrapping_neg_if,
  bitxor}` of src/uint/{cmp,neg,bit_xor}.rs and the chains of CB/Gen/Chains.lean).  Kept in a module of its own (nothing imports
  it) so that a change in one of these Rust functions breaks exactly this property's obligations and no other module's build.
  Audited together with CB/Props/C13.lean by tools/runner.py.

  Representation: an `Int<LIMBS>` is the list of the limbs of its inner `Uint` (`List (BitVec 64)`, little endian), `LIMBS` an
  explicit argument; a `ConstCtOption<T>` is the pair (value, `is_some` mask); `GenChains.nats l` is `l.map BitVec.toNat`;
  `SInt.toInt` the two's-complement value.  Every theorem is for EVERY limb count.
-/
import CB.Props.C13
import CB.Props.C06
import CB.Lemmas.GenInt
import CB.Lemmas.GenBitsFrom128
namespace CB.P13G
open CB CB.SInt

/-! ## T13.G — the hand-written `Int` model IS the translated source -/

/-- the hand-written model of the sign layer (what every theorem of CB/Props/C13.lean is proved about) IS the translated
    source, for every limb count: sign predicates, sign/magnitude decomposition, the constants, conditional negation -/
theorem int_model_is_translated_source (a : List (BitVec 64)) (c : BitVec 64) :
    msw (GenChains.nats a) = (Gen.IntSign.Int.most_significant_word a.length a).toNat ∧
    isNegative (GenChains.nats a) = (Gen.IntSign.Int.is_negative a.length a).toNat ∧
    isPositive (GenChains.nats a) = (Gen.IntSign.Int.is_positive a.length a).toNat ∧
    absSign (GenChains.nats a) =
      (GenChains.nats (Gen.IntSign.Int.abs_sign a.length a).1, (Gen.IntSign.Int.abs_sign a.length a).2.toNat) ∧
    iabs (GenChains.nats a) = GenChains.nats (Gen.IntSign.Int.abs a.length a) ∧
    newFromAbsSign (GenChains.nats a) c.toNat =
      (GenChains.nats (Gen.IntSign.Int.new_from_abs_sign a.length a c).1,
       (Gen.IntSign.Int.new_from_abs_sign a.length a c).2.toNat) ∧
    iWrappingNegIf (GenChains.nats a) c.toNat = GenChains.nats (Gen.IntSign.Int.wrapping_neg_if a.length a c) ∧
    wrappingNegIf (GenChains.nats a) c.toNat = GenChains.nats (Gen.IntSign.Uint.wrapping_neg_if a.length a c) ∧
    isMin (GenChains.nats a) = (Gen.IntSign.Int.is_min a.length a).toNat ∧
    intMax a.length = GenChains.nats (Gen.IntSign.Int.MAX a.length) ∧
    intMin a.length = GenChains.nats (Gen.IntSign.Int.MIN a.length) ∧
    iOne a.length = GenChains.nats (Gen.IntSign.Int.ONE a.length) :=
  ⟨GenChains.msw_bridge a, GenChains.isNegative_bridge a, GenChains.isPositive_bridge a, GenChains.absSign_bridge a,
   GenChains.iabs_bridge a, GenChains.newFromAbsSign_bridge a c, GenChains.iWrappingNegIf_bridge a c,
   GenChains.wrappingNegIf_bridge a c, GenChains.isMin_bridge a, GenChains.intMax_bridge _, GenChains.intMin_bridge _,
   GenChains.iOne_bridge _⟩

/-- … addition, negation (src/int/add.rs, src/int/neg.rs) and the limb selection / xor they use -/
theorem int_arith_model_is_translated_source (a b : List (BitVec 64)) (c : BitVec 64) (h : a.length = b.length) :
    iOverflowingAdd (GenChains.nats a) (GenChains.nats b) =
      (GenChains.nats (Gen.IntSign.Int.overflowing_add a.length a b).1,
       (Gen.IntSign.Int.overflowing_add a.length a b).2.toNat) ∧
    iCheckedAdd (GenChains.nats a) (GenChains.nats b) =
      (GenChains.nats (Gen.IntSign.Int.checked_add a.length a b).1,
       (Gen.IntSign.Int.checked_add a.length a b).2.toNat) ∧
    iWrappingAdd (GenChains.nats a) (GenChains.nats b) = GenChains.nats (Gen.IntSign.Int.wrapping_add a.length a b) ∧
    iOverflowingNeg (GenChains.nats a) =
      (GenChains.nats (Gen.IntSign.Int.overflowing_neg a.length a).1,
       (Gen.IntSign.Int.overflowing_neg a.length a).2.toNat) ∧
    iWrappingNeg (GenChains.nats a) = GenChains.nats (Gen.IntSign.Int.wrapping_neg a.length a) ∧
    iCheckedNeg (GenChains.nats a) =
      (GenChains.nats (Gen.IntSign.Int.checked_neg a.length a).1, (Gen.IntSign.Int.checked_neg a.length a).2.toNat) ∧
    uselect (GenChains.nats a) (GenChains.nats b) c.toNat = GenChains.nats (Gen.IntSign.Uint.select a.length a b c) ∧
    uselect (GenChains.nats a) (GenChains.nats b) c.toNat = GenChains.nats (Gen.IntSign.Int.select a.length a b c) ∧
    Bits.ubitxor (GenChains.nats a) (GenChains.nats b) = GenChains.nats (Gen.IntSign.Uint.bitxor a.length a b) :=
  ⟨GenChains.iOverflowingAdd_bridge a b h, GenChains.iCheckedAdd_bridge a b h, GenChains.iWrappingAdd_bridge a b h,
   GenChains.iOverflowingNeg_bridge a, GenChains.iWrappingNeg_bridge a, GenChains.iCheckedNeg_bridge a,
   GenChains.uselect_bridge a b c h, GenChains.iselect_bridge a b c h, GenChains.ubitxor_bridge a b h⟩

/-- … signed comparison through the flipped sign bit (src/int/cmp.rs, `invert_msb` of src/int.rs) -/
theorem int_cmp_model_is_translated_source (a b : List (BitVec 64)) (h : a.length = b.length) :
    Cmp.invertMsb (GenChains.nats a) = GenChains.nats (Gen.IntSign.Int.invert_msb a.length a) ∧
    Cmp.ilt (GenChains.nats a) (GenChains.nats b) = (Gen.IntSign.Int.lt a.length a b).toNat ∧
    Cmp.igt (GenChains.nats a) (GenChains.nats b) = (Gen.IntSign.Int.gt a.length a b).toNat ∧
    ueq (GenChains.nats a) (GenChains.nats b) = (Gen.IntSign.Int.eq a.length a b).toNat ∧
    isNonzero (GenChains.nats a) = (Gen.IntSign.Int.is_nonzero a.length a).toNat :=
  ⟨GenChains.invertMsb_bridge a, GenChains.ilt_bridge a b h, GenChains.igt_bridge a b h, GenChains.ieq_bridge a b h,
   GenChains.iIsNonzero_bridge a⟩

/-! ## T13.G2 — what the translated source computes -/

theorem nats_ne {a : List (BitVec 64)} (hne : a ≠ []) : GenChains.nats a ≠ [] := by
  intro h; exact hne (List.map_eq_nil_iff.mp h)

theorem eq_ofBool {x : BitVec 64} {p : Bool} (h : x.toNat = mask p) : x = GenBits.ofBool p := by
  apply BitVec.eq_of_toNat_eq; rw [GenBits.ofBool_toNat, h]

/-- the TRANSLATED `Int::is_negative` is the top bit of the most significant limb, and that bit is set exactly when the
    two's-complement value is negative; the TRANSLATED `Int::is_positive` is truthy exactly when the value is positive -/
theorem src_int_is_negative_exact (a : List (BitVec 64)) (hne : a ≠ []) :
    Gen.IntSign.Int.is_negative a.length a = GenBits.ofBool (a.getD (a.length - 1) 0#64).msb ∧
    Gen.IntSign.Int.is_negative a.length a = GenBits.ofBool (decide (toInt (GenChains.nats a) < 0)) ∧
    Gen.IntSign.Int.is_positive a.length a = GenBits.ofBool (decide (0 < toInt (GenChains.nats a))) := by
  have hl : a.length ≠ 0 := fun h => hne (List.length_eq_zero_iff.mp h)
  refine ⟨?_, eq_ofBool ?_, eq_ofBool ?_⟩
  · rw [GenBits.is_negative_eq, GenBits.msw_eq, if_neg hl, GenBits.from_word_msb_meaning]
  · rw [← GenChains.isNegative_bridge]; exact (P13.sign_predicates_spec (GenChains.nats_WF a) (nats_ne hne)).1
  · rw [← GenChains.isPositive_bridge]; exact (P13.sign_predicates_spec (GenChains.nats_WF a) (nats_ne hne)).2.1

/-- the TRANSLATED `Int::abs_sign` / `Int::abs`: `(abs, sign)` with `sign` = "the value is negative", `abs` a `LIMBS`-limb
    magnitude with `value = ± abs` (`abs = |value|`, `2^(BITS-1)` for `MIN`) -/
theorem src_int_abs_sign_exact (a : List (BitVec 64)) :
    (Gen.IntSign.Int.abs_sign a.length a).2 = GenBits.ofBool (decide (toInt (GenChains.nats a) < 0)) ∧
    val (GenChains.nats (Gen.IntSign.Int.abs_sign a.length a).1) = (toInt (GenChains.nats a)).natAbs ∧
    toInt (GenChains.nats a) =
      (if toInt (GenChains.nats a) < 0 then -(val (GenChains.nats (Gen.IntSign.Int.abs_sign a.length a).1) : Int)
       else (val (GenChains.nats (Gen.IntSign.Int.abs_sign a.length a).1) : Int)) ∧
    (Gen.IntSign.Int.abs_sign a.length a).1.length = a.length ∧
    Gen.IntSign.Int.abs a.length a = (Gen.IntSign.Int.abs_sign a.length a).1 := by
  obtain ⟨h1, h2, _, h4⟩ := P13.abs_sign_spec (GenChains.nats_WF a)
  rw [GenChains.absSign_bridge] at h1 h2 h4
  simp only [GenChains.nats_length] at h4
  refine ⟨eq_ofBool h2, h1, ?_, h4, GenBits.abs_eq _ _⟩
  rw [h1]
  split <;> omega

/-- the TRANSLATED `Int::new_from_abs_sign` (a `ConstCtOption`: value, `is_some`): `is_some` exactly when `±abs` is
    representable in `[MIN, MAX]`, and then the value is `±abs` -/
theorem src_int_new_from_abs_sign_exact (abs : List (BitVec 64)) (p : Bool) (hne : abs ≠ []) :
    (Gen.IntSign.Int.new_from_abs_sign abs.length abs (GenBits.ofBool p)).2 =
      GenBits.ofBool (decide (InRange abs.length
        (if p then -(val (GenChains.nats abs) : Int) else (val (GenChains.nats abs) : Int)))) ∧
    (InRange abs.length (if p then -(val (GenChains.nats abs) : Int) else (val (GenChains.nats abs) : Int)) →
      toInt (GenChains.nats (Gen.IntSign.Int.new_from_abs_sign abs.length abs (GenBits.ofBool p)).1) =
        (if p then -(val (GenChains.nats abs) : Int) else (val (GenChains.nats abs) : Int))) := by
  obtain ⟨h1, h2⟩ := P13.new_from_abs_sign_spec p (GenChains.nats_WF abs) (nats_ne hne)
  rw [← GenBits.ofBool_toNat p, GenChains.newFromAbsSign_bridge] at h1 h2
  simp only [GenChains.nats_length] at h1 h2
  exact ⟨eq_ofBool h1, h2⟩

/-- the TRANSLATED `Int::overflowing_add` / `checked_add` / `wrapping_add`: the sum modulo `2^BITS` re-signed, the flag set
    exactly when the true sum is outside `[MIN, MAX]`; `checked_add` is `some` exactly otherwise -/
theorem src_int_add_exact (a b : List (BitVec 64)) (h : a.length = b.length) (hne : a ≠ []) :
    toInt (GenChains.nats (Gen.IntSign.Int.overflowing_add a.length a b).1) =
      wrapS a.length (toInt (GenChains.nats a) + toInt (GenChains.nats b)) ∧
    (Gen.IntSign.Int.overflowing_add a.length a b).2 =
      GenBits.ofBool (decide (¬ InRange a.length (toInt (GenChains.nats a) + toInt (GenChains.nats b)))) ∧
    (Gen.IntSign.Int.checked_add a.length a b).2 =
      GenBits.ofBool (decide (InRange a.length (toInt (GenChains.nats a) + toInt (GenChains.nats b)))) ∧
    Gen.IntSign.Int.checked_add a.length a b =
      ((Gen.IntSign.Int.overflowing_add a.length a b).1, Gen.Choice.not (Gen.IntSign.Int.overflowing_add a.length a b).2) ∧
    Gen.IntSign.Int.wrapping_add a.length a b = (Gen.IntSign.Int.overflowing_add a.length a b).1 := by
  have hl : (GenChains.nats a).length = (GenChains.nats b).length := by
    rw [GenChains.nats_length, GenChains.nats_length, h]
  obtain ⟨h1, h2⟩ := P13.overflowing_add_spec (GenChains.nats_WF a) (GenChains.nats_WF b) hl (nats_ne hne)
  obtain ⟨h3, _⟩ := P13.checked_add_spec (GenChains.nats_WF a) (GenChains.nats_WF b) hl (nats_ne hne)
  rw [GenChains.iOverflowingAdd_bridge a b h] at h1 h2
  rw [GenChains.iCheckedAdd_bridge a b h] at h3
  simp only [GenChains.nats_length] at h1 h2 h3
  refine ⟨h1, eq_ofBool h2, eq_ofBool h3, GenBits.checked_add_eq _ _ _, ?_⟩
  rw [GenBits.int_wrapping_add_eq, GenBits.overflowing_add_eq]

/-- the TRANSLATED `Int::overflowing_neg` / `checked_neg` / `wrapping_neg`: the negation modulo `2^BITS` re-signed, overflow
    exactly when `-self` is outside `[MIN, MAX]` (only for `MIN`) -/
theorem src_int_neg_exact (a : List (BitVec 64)) (hne : a ≠ []) :
    toInt (GenChains.nats (Gen.IntSign.Int.overflowing_neg a.length a).1) =
      wrapS a.length (- toInt (GenChains.nats a)) ∧
    (Gen.IntSign.Int.overflowing_neg a.length a).2 =
      GenBits.ofBool (decide (¬ InRange a.length (- toInt (GenChains.nats a)))) ∧
    (Gen.IntSign.Int.checked_neg a.length a).2 =
      GenBits.ofBool (decide (InRange a.length (- toInt (GenChains.nats a)))) ∧
    Gen.IntSign.Int.wrapping_neg a.length a = (Gen.IntSign.Int.overflowing_neg a.length a).1 := by
  obtain ⟨h1, h2⟩ := P13.overflowing_neg_spec (GenChains.nats_WF a) (nats_ne hne)
  obtain ⟨h3, _⟩ := P13.checked_neg_spec (GenChains.nats_WF a) (nats_ne hne)
  rw [GenChains.iOverflowingNeg_bridge a] at h1 h2
  rw [GenChains.iCheckedNeg_bridge a] at h3
  simp only [GenChains.nats_length] at h1 h2 h3
  exact ⟨h1, eq_ofBool h2, eq_ofBool h3, GenBits.int_wrapping_neg_eq _ _⟩

/-- the TRANSLATED `Int::wrapping_neg_if`: `self`, or `-self` modulo `2^BITS` re-signed -/
theorem src_int_wrapping_neg_if_exact (a : List (BitVec 64)) (p : Bool) (hne : a ≠ []) :
    toInt (GenChains.nats (Gen.IntSign.Int.wrapping_neg_if a.length a (GenBits.ofBool p))) =
      if p then wrapS a.length (- toInt (GenChains.nats a)) else toInt (GenChains.nats a) := by
  have := P13.wrapping_neg_if_spec p (GenChains.nats_WF a) (nats_ne hne)
  rw [← GenBits.ofBool_toNat p, GenChains.iWrappingNegIf_bridge] at this
  simpa only [GenChains.nats_length] using this

/-- the TRANSLATED signed comparisons `Int::lt` / `Int::gt` (unsigned comparison after flipping the sign bit) are the order
    on the two's-complement values (`Cmp.toInt`, the reading of CB/Props/C06.lean) -/
theorem src_int_lt_gt_exact (a b : List (BitVec 64)) (h : a.length = b.length) (hne : a ≠ []) :
    Gen.IntSign.Int.lt a.length a b =
      GenBits.ofBool (decide (Cmp.toInt (GenChains.nats a) < Cmp.toInt (GenChains.nats b))) ∧
    Gen.IntSign.Int.gt a.length a b =
      GenBits.ofBool (decide (Cmp.toInt (GenChains.nats b) < Cmp.toInt (GenChains.nats a))) := by
  have hl : (GenChains.nats a).length = (GenChains.nats b).length := by
    rw [GenChains.nats_length, GenChains.nats_length, h]
  constructor
  · apply eq_ofBool
    rw [← GenChains.ilt_bridge a b h]
    exact P06.int_lt_spec (GenChains.nats_WF a) (GenChains.nats_WF b) hl (nats_ne hne)
  · apply eq_ofBool
    rw [← GenChains.igt_bridge a b h]
    exact P06.int_gt_spec (GenChains.nats_WF a) (GenChains.nats_WF b) hl (nats_ne hne)

/-- evaluation: the translated functions run (two limbs: `-1`, `MIN`, `|−2| = 2`, `MIN < -1`) -/
example : Gen.IntSign.Int.is_negative 2 [~~~0#64, ~~~0#64] = ~~~0#64 := by decide
example : Gen.IntSign.Int.abs_sign 2 [~~~0#64 - 1#64, ~~~0#64] = ([2#64, 0#64], ~~~0#64) := by decide
example : (Gen.IntSign.Int.new_from_abs_sign 2 [0#64, 1#64 <<< 63] 0#64).2 = 0#64 := by decide
example : (Gen.IntSign.Int.new_from_abs_sign 2 [0#64, 1#64 <<< 63] (~~~0#64)) = ([0#64, 1#64 <<< 63], ~~~0#64) := by decide
example : Gen.IntSign.Int.lt 2 [0#64, 1#64 <<< 63] [~~~0#64, ~~~0#64] = ~~~0#64 := by decide

/-! ## T13.G3 — `Uint::from_u128` (src/uint/from.rs → CB/Gen/Encoding.lean), the conversion `Int::from_i128` goes through
(`Uint::<2>::from_u128(n as u128).as_int().resize()`, T13.6 `from_i128_spec`) -/

/-- the hand-written `fromU128` IS the translated `Uint::from_u128` (two copy loops over `U64::from_u64` of the halves):
    `none` (the panic) exactly when the translated `assert!`s fail -/
theorem from_u128_model_is_translated_source (L : Nat) (n : BitVec 128) :
    Encoding.fromU128 L n.toNat =
      if Gen.Encoding.Uint.from_u128_asserts L n then some (GenChains.nats (Gen.Encoding.Uint.from_u128 L n)) else none :=
  GenBits.from_u128_bridge L n

/-- the TRANSLATED `Uint::from_u128`: with at least two limbs no assertion fails, the value is `n`, the result has `LIMBS`
    limbs; with fewer than two limbs the call panics -/
theorem src_uint_from_u128_exact (L : Nat) (n : BitVec 128) :
    Gen.Encoding.Uint.from_u128_asserts (L + 2) n = true ∧
    val (GenChains.nats (Gen.Encoding.Uint.from_u128 (L + 2) n)) = n.toNat ∧
    (Gen.Encoding.Uint.from_u128 (L + 2) n).length = L + 2 ∧
    Gen.Encoding.Uint.from_u128_asserts 0 n = false ∧ Gen.Encoding.Uint.from_u128_asserts 1 n = false := by
  have hBB : n.toNat < B * B := by have := n.isLt; rw [B_def]; omega
  obtain ⟨l, h1, h2, _, h4⟩ := Encoding.fromU128_spec L n.toNat hBB
  have ha : Gen.Encoding.Uint.from_u128_asserts (L + 2) n = true := by
    rw [GenBits.from_u128_asserts_eq]; simp
  have hb := GenBits.from_u128_bridge (L + 2) n
  rw [ha, h1] at hb
  have hl : l = GenChains.nats (Gen.Encoding.Uint.from_u128 (L + 2) n) := by simpa using hb
  refine ⟨ha, by rw [← hl, h2], ?_, by rw [GenBits.from_u128_asserts_eq]; rfl, by rw [GenBits.from_u128_asserts_eq]; rfl⟩
  rw [← GenChains.nats_length, ← hl, h4]

example : Gen.Encoding.Uint.from_u128 3 0x0000000000000001FFFFFFFFFFFFFFFE#128 = [~~~0#64 - 1#64, 1#64, 0#64] := by decide

end CB.P13G
